(* CacheProofs.v — invariants of the cache model under arbitrary operation sequences (C09). *)
From Coq Require Import Lia ZArith Permutation.
From Coq Require Import ZifyN ZifyNat ZifyBool.
From Vise Require Import Bytes Errors CacheModel BytesProofs.
Local Open Scope N_scope.

Ltac Zify.zify_post_hook ::= Z.div_mod_to_equations.

(* ---- association lists ---------------------------------------------------------- *)

Lemma beqb_true a b : bytes_eqb a b = true -> a = b.
Proof. apply bytes_eqb_eq. Qed.
Lemma beqb_false a b : bytes_eqb a b = false -> a <> b.
Proof. intros H E. subst. rewrite bytes_eqb_refl in H. discriminate. Qed.

Ltac beq k k' :=
  let E := fresh "E" in
  destruct (bytes_eqb k k') eqn:E; [apply beqb_true in E; subst | apply beqb_false in E].

Lemma alookup_in {V} k (f : list (bytes * V)) v : alookup k f = Some v -> In k (map fst f).
Proof.
  induction f as [|[k' v'] f IH]; cbn; [discriminate|]. beq k k'; [auto|]. intros H. right. auto.
Qed.

Lemma alookup_none {V} k (f : list (bytes * V)) : alookup k f = None <-> ~ In k (map fst f).
Proof.
  induction f as [|[k' v'] f IH]; cbn; [tauto|]. beq k k'.
  - split; [discriminate|]. intros H. exfalso. apply H. auto.
  - rewrite IH. split; [intros H [H1|H1]; [congruence|auto]|auto].
Qed.

Lemma ahas_in {V} k (f : list (bytes * V)) : ahas k f = true <-> In k (map fst f).
Proof.
  unfold ahas. destruct (alookup k f) eqn:E.
  - split; [intros _; eapply alookup_in; eauto|auto].
  - apply alookup_none in E. split; [discriminate|tauto].
Qed.

Lemma keys_aset_in {V} k (v : V) f : In k (map fst f) -> map fst (aset k v f) = map fst f.
Proof.
  induction f as [|[k' v'] f IH]; cbn; [tauto|]. beq k k'; [reflexivity|].
  intros [H|H]; [congruence|]. cbn. f_equal. auto.
Qed.

Lemma keys_aset_notin {V} k (v : V) f : ~ In k (map fst f) -> map fst (aset k v f) = map fst f ++ [k].
Proof.
  induction f as [|[k' v'] f IH]; cbn; [reflexivity|]. beq k k'; [intros H; exfalso; auto|].
  intros H. cbn. f_equal. auto.
Qed.

Lemma alookup_aset_same {V} k (v : V) f : alookup k (aset k v f) = Some v.
Proof.
  induction f as [|[k' v'] f IH]; cbn; [rewrite bytes_eqb_refl; reflexivity|].
  beq k k'; cbn; [rewrite bytes_eqb_refl; reflexivity|].
  destruct (bytes_eqb k k') eqn:E'; [apply beqb_true in E'; congruence|exact IH].
Qed.

Lemma alookup_aset_other {V} k k2 (v : V) f : k2 <> k -> alookup k2 (aset k v f) = alookup k2 f.
Proof.
  intros Hne. induction f as [|[k' v'] f IH]; cbn.
  - destruct (bytes_eqb k2 k) eqn:E; [apply beqb_true in E; congruence|reflexivity].
  - beq k k'; cbn.
    + destruct (bytes_eqb k2 k') eqn:E'; [apply beqb_true in E'; congruence|reflexivity].
    + destruct (bytes_eqb k2 k'); [reflexivity|exact IH].
Qed.

Lemma aset_aset {V} k (v w : V) f : aset k w (aset k v f) = aset k w f.
Proof.
  induction f as [|[k' v'] f IH]; cbn; [rewrite bytes_eqb_refl; reflexivity|].
  beq k k'; cbn; [rewrite bytes_eqb_refl; reflexivity|].
  destruct (bytes_eqb k k') eqn:E'; [apply beqb_true in E'; congruence|]. f_equal. exact IH.
Qed.

Lemma aset_same {V} k (v : V) f : alookup k f = Some v -> aset k v f = f.
Proof.
  induction f as [|[k' v'] f IH]; cbn; [discriminate|]. beq k k'; [intros H; inversion H; reflexivity|].
  intros H. f_equal. auto.
Qed.

Lemma frame_bytes_cons k v f : frame_bytes ((k, v) :: f) = len v + frame_bytes f.
Proof. reflexivity. Qed.
Lemma total_bytes_cons f fs : total_bytes (f :: fs) = frame_bytes f + total_bytes fs.
Proof. reflexivity. Qed.

Lemma frame_bytes_aset_in k v f old :
  alookup k f = Some old -> frame_bytes (aset k v f) + len old = frame_bytes f + len v.
Proof.
  induction f as [|[k' v'] f IH]; cbn [alookup aset]; [discriminate|]. beq k k'.
  - intros H. inversion H; subst. rewrite !frame_bytes_cons. lia.
  - intros H. rewrite !frame_bytes_cons. specialize (IH H). lia.
Qed.

Lemma frame_bytes_aset_notin k v f :
  alookup k f = None -> frame_bytes (aset k v f) = frame_bytes f + len v.
Proof.
  induction f as [|[k' v'] f IH]; cbn [alookup aset]; [intros _; rewrite frame_bytes_cons; cbn; lia|].
  beq k k'; [discriminate|].
  intros H. rewrite !frame_bytes_cons. rewrite IH by exact H. lia.
Qed.

(* ---- frames --------------------------------------------------------------------- *)

Lemma all_keys_app a b : all_keys (a ++ b) = all_keys a ++ all_keys b.
Proof. unfold all_keys. rewrite map_app, concat_app. reflexivity. Qed.

Lemma total_bytes_app a b : total_bytes (a ++ b) = total_bytes a + total_bytes b.
Proof. induction a as [|f a IH]; [reflexivity|]. cbn [app]. rewrite !total_bytes_cons, IH. lia. Qed.

Lemma frame_of_from_none i fs k : frame_of_from i fs k = None <-> ~ In k (all_keys fs).
Proof.
  revert i. induction fs as [|f fs IH]; intros i; cbn; [tauto|].
  unfold all_keys. cbn. fold (all_keys fs). rewrite in_app_iff.
  destruct (ahas k f) eqn:E.
  - apply ahas_in in E. split; [discriminate|tauto].
  - rewrite IH. assert (~ In k (map fst f)) by (intros H; apply ahas_in in H; congruence). tauto.
Qed.

Lemma frame_of_from_some i fs k j :
  frame_of_from i fs k = Some j ->
  exists pre f post, fs = pre ++ f :: post /\ j = i + len pre /\ In k (map fst f)
                     /\ ~ In k (all_keys pre).
Proof.
  revert i. induction fs as [|f fs IH]; intros i; cbn; [discriminate|].
  destruct (ahas k f) eqn:E.
  - intros H. inversion H; subst. exists [], f, fs. apply ahas_in in E. cbn. repeat split; auto. lia.
  - intros H. apply IH in H. destruct H as [pre [g [post [-> [-> [Hin Hpre]]]]]].
    exists (f :: pre), g, post. repeat split; auto.
    + rewrite len_cons. lia.
    + unfold all_keys. cbn. fold (all_keys pre). rewrite in_app_iff. intros [H|H]; [|auto].
      apply ahas_in in H. congruence.
Qed.

Lemma update_nth_app {A} (pre : list A) x post g :
  update_nth (List.length pre) g (pre ++ x :: post) = pre ++ g x :: post.
Proof. induction pre as [|y pre IH]; cbn; [reflexivity|]. f_equal. exact IH. Qed.

Lemma nth_error_app_mid {A} (pre : list A) x post : nth_error (pre ++ x :: post) (List.length pre) = Some x.
Proof. induction pre; cbn; auto. Qed.

Lemma to_nat_len {A} (l : list A) : N.to_nat (len l) = List.length l.
Proof. unfold len. lia. Qed.

(* ---- uint32 arithmetic ---------------------------------------------------------- *)

Lemma w32_add a b : w32 (w32 a + w32 b) = w32 (a + b).
Proof. unfold w32. lia. Qed.
Lemma w32_add_l a b : w32 (w32 a + b) = w32 (a + b).
Proof. unfold w32. lia. Qed.
Lemma w32_idem a : w32 (w32 a) = w32 a.
Proof. unfold w32. lia. Qed.
Lemma sub32_w32 a b : b <= a -> sub32 (w32 a) (w32 b) = w32 (a - b).
Proof. intros H. unfold sub32, w32. lia. Qed.
Lemma w32_small a : a < 4294967296 -> w32 a = a.
Proof. intros H. unfold w32. apply N.mod_small. exact H. Qed.

(* ---- the invariant -------------------------------------------------------------- *)

Definition limits_hold (c : cache) : Prop :=
  forall f k v, In f (c_frames c) -> alookup k f = Some v ->
    exists l, alookup k (c_sizes c) = Some l /\ (0 < l -> len v <= l).

Record CInv (c : cache) : Prop := {
  inv_use : c_use c = w32 (total_bytes (c_frames c));
  inv_cap : 0 < c_size c -> total_bytes (c_frames c) <= c_size c;
  inv_scope : NoDup (all_keys (c_frames c));
  inv_frames : c_frames c <> [];
  inv_limits : limits_hold c;
  inv_cap32 : c_size c < 4294967296
}.

Lemma new_cache_inv cap : cap < 4294967296 -> CInv (new_cache cap).
Proof.
  intros H. constructor; cbn; try reflexivity; try lia; try constructor; try discriminate.
  intros f k v [<-|[]]. cbn. discriminate.
Qed.

(* value lengths stay below 2^32 - capacity: excludes the uint32 wrap of the usage counter,
   which needs more than 4 GiB of cached values *)
Definition op_bounded (cap : N) (o : cop) : Prop :=
  match o with
  | OAdd _ v _ | OUpdate _ v => len v + cap < 4294967296
  | _ => True
  end.

Lemma total_split pre (f : frame) post :
  total_bytes (pre ++ f :: post) = total_bytes pre + frame_bytes f + total_bytes post.
Proof. rewrite total_bytes_app, total_bytes_cons. lia. Qed.


Lemma frames_last (fs : list frame) : fs <> [] -> exists pre top, fs = pre ++ [top].
Proof. intros H. destruct (exists_last H) as [pre [top ->]]. eauto. Qed.

Lemma top_index_app c pre top : c_frames c = pre ++ [top] -> N.to_nat (top_index c) = List.length pre.
Proof. intros H. unfold top_index, len. rewrite H, app_length. cbn. lia. Qed.

Lemma in_all_keys fs f k : In f fs -> In k (map fst f) -> In k (all_keys fs).
Proof.
  intros Hf Hk. unfold all_keys. apply in_concat. exists (map fst f). split; [apply in_map; exact Hf|exact Hk].
Qed.

Lemma NoDup_snoc {A} (l : list A) x : ~ In x l -> NoDup l -> NoDup (l ++ [x]).
Proof.
  intros Hn Hd. apply (Permutation_NoDup (l := x :: l)); [|constructor; assumption].
  apply Permutation_cons_append.
Qed.

Lemma NoDup_app_l {A} (a b : list A) : NoDup (a ++ b) -> NoDup a.
Proof.
  induction a as [|x a IH]; cbn; intros H; [constructor|]. inversion H; subst.
  constructor; [intros Hin; apply H2; apply in_or_app; left; exact Hin|auto].
Qed.

Lemma NoDup_app_disj {A} (a b : list A) x : NoDup (a ++ b) -> In x a -> In x b -> False.
Proof.
  induction a as [|y a IH]; cbn; intros H Ha Hb; [contradiction|]. inversion H; subst.
  destruct Ha as [->|Ha]; [apply H2; apply in_or_app; right; exact Hb|eauto].
Qed.

Lemma frame_bytes_le_total fs f : In f fs -> frame_bytes f <= total_bytes fs.
Proof.
  induction fs as [|g fs IH]; [cbn; tauto|]. rewrite total_bytes_cons. intros [->|H]; [lia|].
  specialize (IH H). lia.
Qed.

Lemma len_le_frame_bytes k f v : alookup k f = Some v -> len v <= frame_bytes f.
Proof.
  induction f as [|[k' v'] f IH]; cbn [alookup]; [discriminate|]. rewrite frame_bytes_cons. beq k k'.
  - intros H. inversion H; subst. lia.
  - intros H. specialize (IH H). lia.
Qed.

(* ---- Add ----------------------------------------------------------------------- *)

Lemma cache_add_inv c k v l c' :
  CInv c -> len v + c_size c < 4294967296 -> cache_add c k v l = Ok c' ->
  CInv c' /\ c_size c' = c_size c.
Proof.
  intros [Huse Hcap Hnd Hne Hlim Hc32] Hb. unfold cache_add.
  destruct ((0 <? l) && (l <? len v)) eqn:Elim; [discriminate|].
  destruct (frame_of c k) as [i|] eqn:Efo; [destruct (i =? top_index c); discriminate|].
  apply frame_of_from_none in Efo.
  set (sz := if 0 <? len v then check_capacity (c_size c) (c_use c) v else 0).
  destruct ((0 <? len v) && (sz =? 0)) eqn:Esz; [discriminate|].
  destruct (frames_last _ Hne) as [pre [top Hfs]].
  destruct (c_frames c) as [|f0 fr] eqn:Efr; [contradiction|]. rewrite <- Efr in *. clear Efr f0 fr.
  intros H. inversion H; subst c'; clear H. cbn [c_size]. split; [|reflexivity].
  rewrite (top_index_app c pre top Hfs). rewrite Hfs, update_nth_app.
  assert (Hktop : alookup k top = None).
  { apply alookup_none. intros Hin. apply Efo. rewrite Hfs. eapply in_all_keys; [|exact Hin].
    apply in_or_app. right. left. reflexivity. }
  assert (Htot : total_bytes (pre ++ [aset k v top]) = total_bytes (c_frames c) + len v).
  { rewrite Hfs, !total_bytes_app. cbn. rewrite frame_bytes_aset_notin by exact Hktop. lia. }
  assert (Hszv : sz = w32 (len v) /\ (0 < c_size c -> total_bytes (c_frames c) + len v <= c_size c)).
  { subst sz. destruct (N.ltb_spec 0 (len v)) as [Hpos|Hz].
    - cbn [andb] in Esz. unfold check_capacity in *.
      destruct (N.eqb_spec (c_size c) 0) as [E0|E0]; [split; [reflexivity|lia]|].
      destruct (N.ltb_spec (c_size c) (w32 (c_use c + w32 (len v)))) as [Hex|Hok].
      + rewrite N.eqb_refl in Esz. discriminate.
      + split; [reflexivity|]. intros _. specialize (Hcap ltac:(lia)).
        rewrite Huse, w32_add in Hok. rewrite w32_small in Hok by lia. exact Hok.
    - assert (len v = 0) by lia. split; [unfold w32; rewrite H; reflexivity|]. intros Hp. specialize (Hcap Hp). lia. }
  destruct Hszv as [-> Hcap'].
  constructor; cbn [c_use c_frames c_size c_sizes c_last].
  - rewrite Htot, Huse, w32_add. reflexivity.
  - intros Hp. rewrite Htot. auto.
  - rewrite Hfs in Hnd, Efo. rewrite all_keys_app in *. unfold all_keys at 2. cbn [map List.concat].
    rewrite app_nil_r. unfold all_keys at 2 in Hnd. unfold all_keys at 2 in Efo. cbn [map List.concat] in Hnd, Efo.
    rewrite app_nil_r in Hnd, Efo. rewrite keys_aset_notin by (apply alookup_none; exact Hktop).
    rewrite app_assoc. apply NoDup_snoc; assumption.
  - destruct pre; discriminate.
  - unfold limits_hold. cbn [c_frames c_sizes]. intros f k2 v2 Hf Hk2. apply in_app_or in Hf. destruct Hf as [Hf|[<-|[]]].
    + assert (k2 <> k).
      { intros ->. apply Efo. rewrite Hfs. eapply in_all_keys; [apply in_or_app; left; exact Hf|].
        eapply alookup_in; eauto. }
      destruct (Hlim f k2 v2) as [l2 [Hl2 Hle]]; [rewrite Hfs; apply in_or_app; left; exact Hf|exact Hk2|].
      exists l2. rewrite alookup_aset_other by assumption. auto.
    + destruct (bytes_eqb k2 k) eqn:E.
      * apply beqb_true in E. subst k2. rewrite alookup_aset_same in Hk2. inversion Hk2; subst v2.
        exists l. rewrite alookup_aset_same. split; [reflexivity|]. intros Hl.
        destruct (N.ltb_spec 0 l); [|lia]. cbn [andb] in Elim. destruct (N.ltb_spec l (len v)); [discriminate|lia].
      * apply beqb_false in E. rewrite alookup_aset_other in Hk2 by assumption.
        destruct (Hlim top k2 v2) as [l2 [Hl2 Hle]]; [rewrite Hfs; apply in_or_app; right; left; reflexivity|exact Hk2|].
        exists l2. rewrite alookup_aset_other by assumption. auto.
  - exact Hc32.
Qed.

(* ---- Update -------------------------------------------------------------------- *)

Lemma cache_eta c : c = mkCache (c_size c) (c_use c) (c_frames c) (c_sizes c) (c_last c).
Proof. destruct c; reflexivity. Qed.

Lemma frame_get_mid pre (f : list (list N * list N)) post i k :
  N.to_nat i = List.length pre ->
  frame_get (pre ++ f :: post) i k = match alookup k f with Some v => v | None => [] end.
Proof. intros Hi. unfold frame_get. rewrite Hi, nth_error_app_mid. reflexivity. Qed.

Lemma all_keys_mid pre (f : list (list N * list N)) post :
  all_keys (pre ++ f :: post) = all_keys pre ++ map fst f ++ all_keys post.
Proof. rewrite all_keys_app. unfold all_keys at 2. cbn [map List.concat]. reflexivity. Qed.

Lemma cache_update_raw_spec c k v :
  CInv c -> len v + c_size c < 4294967296 ->
  let r := cache_update_raw c k v in
  CInv (fst r) /\ c_size (fst r) = c_size c /\ (snd r <> None -> fst r = c).
Proof.
  intros [Huse Hcap Hnd Hne Hlim Hc32] Hb. unfold cache_update_raw.
  set (limit := match alookup k (c_sizes c) with Some l => l | None => 0 end).
  assert (Hc : CInv c) by (constructor; assumption).
  destruct ((0 <? limit) && (limit <? len v)) eqn:Elim; [cbn; auto|].
  destruct (frame_of c k) as [i|] eqn:Efo; [|cbn; auto].
  apply frame_of_from_some in Efo. destruct Efo as [pre [f [post [Hfs [Hi [Hkin Hpre]]]]]].
  assert (Hi' : N.to_nat i = List.length pre) by (rewrite Hi, N.add_0_l; apply to_nat_len).
  destruct (alookup k f) as [old|] eqn:Eold; [|apply alookup_none in Eold; contradiction].
  rewrite Hfs. rewrite (frame_get_mid pre f post i k Hi'), Eold.
  cbn [c_size c_use c_frames c_sizes c_last]. rewrite Hi', !update_nth_app.
  cbn [c_size c_use c_frames c_sizes c_last]. rewrite ?update_nth_app, !aset_aset.
  assert (Hold_le : len old <= total_bytes (c_frames c)).
  { pose proof (len_le_frame_bytes k f old Eold). pose proof (frame_bytes_le_total (c_frames c) f).
    rewrite Hfs in H0 at 1. specialize (H0 ltac:(apply in_or_app; right; left; reflexivity)). lia. }
  assert (Huse1 : sub32 (c_use c) (w32 (len old)) = w32 (total_bytes (c_frames c) - len old))
    by (rewrite Huse; apply sub32_w32; exact Hold_le).
  rewrite Huse1.
  destruct ((check_capacity (c_size c) (w32 (total_bytes (c_frames c) - len old)) v =? 0) && (0 <? len v)) eqn:Echk;
    cbn [fst snd].
  - (* rolled back: exactly the old state *)
    rewrite (aset_same k old f Eold).
    assert (Hback : w32 (w32 (total_bytes (c_frames c) - len old) + w32 (len old)) = c_use c).
    { rewrite w32_add, Huse. f_equal. lia. }
    rewrite Hback, <- Hfs, <- cache_eta. auto.
  - (* replaced *)
    split; [|split; [reflexivity|intros H; exfalso; apply H; reflexivity]].
    assert (Htot : total_bytes (pre ++ aset k v f :: post) + len old = total_bytes (c_frames c) + len v).
    { rewrite Hfs, !total_split. pose proof (frame_bytes_aset_in k v f old Eold). lia. }
    constructor; cbn [c_size c_use c_frames c_sizes c_last].
    + rewrite w32_add. f_equal. lia.
    + intros Hp. specialize (Hcap Hp).
      destruct (N.ltb_spec 0 (len v)) as [Hpos|Hz]; [|lia].
      rewrite andb_true_r in Echk. unfold check_capacity in Echk.
      destruct (N.eqb_spec (c_size c) 0); [lia|].
      destruct (N.ltb_spec (c_size c) (w32 (w32 (total_bytes (c_frames c) - len old) + w32 (len v)))) as [Hex|Hok];
        [rewrite N.eqb_refl in Echk; discriminate|].
      rewrite w32_add, w32_small in Hok by lia. lia.
    + rewrite all_keys_mid. rewrite keys_aset_in by exact Hkin. rewrite <- all_keys_mid, <- Hfs. exact Hnd.
    + destruct pre; discriminate.
    + unfold limits_hold. cbn [c_frames c_sizes]. intros g k2 v2 Hg Hk2.
      apply in_app_or in Hg. destruct Hg as [Hg|[<-|Hg]].
      * apply (Hlim g k2 v2); [rewrite Hfs; apply in_or_app; left; exact Hg|exact Hk2].
      * destruct (bytes_eqb k2 k) eqn:E.
        -- apply beqb_true in E. subst k2. rewrite alookup_aset_same in Hk2. inversion Hk2; subst v2.
           destruct (Hlim f k old) as [l [Hl _]]; [rewrite Hfs; apply in_or_app; right; left; reflexivity|exact Eold|].
           exists l. split; [exact Hl|]. intros Hlp. subst limit. rewrite Hl in Elim.
           destruct (N.ltb_spec 0 l); [|lia]. cbn [andb] in Elim. destruct (N.ltb_spec l (len v)); [discriminate|lia].
        -- apply beqb_false in E. rewrite alookup_aset_other in Hk2 by assumption.
           apply (Hlim f k2 v2); [rewrite Hfs; apply in_or_app; right; left; reflexivity|exact Hk2].
      * apply (Hlim g k2 v2); [rewrite Hfs; apply in_or_app; right; right; exact Hg|exact Hk2].
    + exact Hc32.
Qed.

(* ---- Pop ----------------------------------------------------------------------- *)

Lemma fold_release (top : list (list N * list N)) : forall T, frame_bytes top <= T ->
  fold_left (fun u kv => sub32 u (w32 (len (snd kv)))) top (w32 T) = w32 (T - frame_bytes top).
Proof.
  induction top as [|[k v] top IH]; intros T H; cbn [fold_left]; [cbn; f_equal; lia|].
  rewrite frame_bytes_cons in H. cbn [snd]. rewrite sub32_w32 by lia. rewrite IH by lia.
  rewrite frame_bytes_cons. f_equal. lia.
Qed.

Lemma alookup_aremove_other {V} k k2 (s : list (bytes * V)) : k2 <> k -> alookup k2 (aremove k s) = alookup k2 s.
Proof.
  intros Hne. induction s as [|[k' v'] s IH]; [reflexivity|]. cbn [aremove alookup].
  beq k k'.
  - destruct (bytes_eqb k2 k') eqn:E'; [apply beqb_true in E'; congruence|exact IH].
  - cbn [alookup]. destruct (bytes_eqb k2 k'); [reflexivity|exact IH].
Qed.

Lemma alookup_aremove_same {V} k (s : list (bytes * V)) : alookup k (aremove k s) = None.
Proof.
  induction s as [|[k' v'] s IH]; [reflexivity|]. cbn [aremove]. beq k k'; [exact IH|].
  cbn [alookup]. destruct (bytes_eqb k k') eqn:E'; [apply beqb_true in E'; congruence|exact IH].
Qed.

Lemma alookup_remove_keys_other (top : list (list N * list N)) : forall (s : list (bytes * N)) k2,
  ~ In k2 (map fst top) -> alookup k2 (remove_keys top s) = alookup k2 s.
Proof.
  unfold remove_keys. induction top as [|[k v] top IH]; intros s k2 Hn; [reflexivity|].
  cbn [fold_left fst]. cbn [map fst] in Hn. rewrite IH by (intros H; apply Hn; right; exact H).
  apply alookup_aremove_other. intros ->. apply Hn. left. reflexivity.
Qed.

Lemma alookup_remove_keys_in (top : list (list N * list N)) : forall (s : list (bytes * N)) k,
  In k (map fst top) -> alookup k (remove_keys top s) = None.
Proof.
  unfold remove_keys. induction top as [|[k' v] top IH]; intros s k Hin; [contradiction|].
  cbn [fold_left fst]. cbn [map fst] in Hin.
  destruct (in_dec (list_eq_dec N.eq_dec) k (map fst top)) as [Hi|Hni]; [apply IH; exact Hi|].
  destruct Hin as [->|Hin]; [|contradiction].
  fold (remove_keys top (aremove k s)). rewrite alookup_remove_keys_other by exact Hni.
  apply alookup_aremove_same.
Qed.

Lemma cache_pop_spec c c' :
  CInv c -> cache_pop c = Ok c' ->
  CInv c' /\ c_size c' = c_size c /\
  exists pre top, c_frames c = pre ++ [top]
    /\ c_frames c' = (match pre with [] => [[]] | _ => pre end)
    /\ total_bytes (c_frames c') + frame_bytes top = total_bytes (c_frames c)
    /\ (forall k, In k (map fst top) -> ~ In k (all_keys (c_frames c')) /\ alookup k (c_sizes c') = None).
Proof.
  intros [Huse Hcap Hnd Hne Hlim Hc32]. unfold cache_pop.
  destruct (frames_last _ Hne) as [pre [top Hfs]]. rewrite Hfs, rev_app_distr. cbn [rev app].
  rewrite rev_involutive. intros H. inversion H; subst c'; clear H. cbn [c_size c_use c_frames c_sizes c_last].
  assert (Htot : total_bytes (c_frames c) = total_bytes pre + frame_bytes top).
  { rewrite Hfs, total_bytes_app. cbn. lia. }
  assert (Hkeys : all_keys (c_frames c) = all_keys pre ++ map fst top).
  { rewrite Hfs, all_keys_app. unfold all_keys at 2. cbn. rewrite app_nil_r. reflexivity. }
  assert (Htot' : total_bytes (match pre with [] => [[]] | _ => pre end) = total_bytes pre) by (destruct pre; reflexivity).
  assert (Hkeys' : all_keys (match pre with [] => [[]] | _ => pre end) = all_keys pre) by (destruct pre; reflexivity).
  rewrite Hkeys in Hnd.
  split; [|split; [reflexivity|]].
  - constructor; cbn [c_size c_use c_frames c_sizes c_last].
    + rewrite Huse, fold_release by lia. rewrite Htot'. f_equal. lia.
    + intros Hp. specialize (Hcap Hp). lia.
    + rewrite Hkeys'. eapply NoDup_app_l. exact Hnd.
    + destruct pre; discriminate.
    + unfold limits_hold. cbn [c_frames c_sizes]. intros g k2 v2 Hg Hk2.
      assert (Hg' : In g pre) by (destruct pre; [destruct Hg as [<-|[]]; discriminate|exact Hg]).
      destruct (Hlim g k2 v2) as [l [Hl Hle]]; [rewrite Hfs; apply in_or_app; left; exact Hg'|exact Hk2|].
      exists l. split; [|exact Hle]. rewrite alookup_remove_keys_other; [exact Hl|].
      intros Hin. eapply NoDup_app_disj; [exact Hnd| |exact Hin].
      eapply in_all_keys; [exact Hg'|eapply alookup_in; eauto].
    + exact Hc32.
  - exists pre, top. split; [reflexivity|]. split; [reflexivity|]. split; [rewrite Htot', total_bytes_app; cbn; lia|].
    intros k Hk. split.
    + rewrite Hkeys'. intros Hin. eapply NoDup_app_disj; eauto.
    + apply alookup_remove_keys_in. exact Hk.
Qed.

(* ---- Reset, Push, Last ----------------------------------------------------------- *)

Lemma cache_reset_inv c : CInv c -> CInv (cache_reset c) /\ c_size (cache_reset c) = c_size c.
Proof.
  intros [Huse Hcap Hnd Hne Hlim Hc32]. unfold cache_reset.
  destruct (c_frames c) as [|f0 rest] eqn:Efs; [contradiction|]. split; [|reflexivity].
  constructor; cbn [c_size c_use c_frames c_sizes c_last].
  - cbn. f_equal. lia.
  - intros Hp. specialize (Hcap Hp). rewrite total_bytes_cons in Hcap. cbn. lia.
  - unfold all_keys in *. cbn [map List.concat] in *. rewrite app_nil_r. eapply NoDup_app_l. exact Hnd.
  - discriminate.
  - unfold limits_hold. cbn [c_frames c_sizes]. intros g k v [<-|[]] Hk.
    apply (Hlim f0 k v); [rewrite Efs; left; reflexivity|exact Hk].
  - exact Hc32.
Qed.

Lemma cache_push_inv c : CInv c -> CInv (cache_push c) /\ c_size (cache_push c) = c_size c.
Proof.
  intros [Huse Hcap Hnd Hne Hlim Hc32]. unfold cache_push. split; [|reflexivity].
  constructor; cbn [c_size c_use c_frames c_sizes c_last].
  - rewrite total_bytes_app. cbn. rewrite N.add_0_r. exact Huse.
  - intros Hp. rewrite total_bytes_app. cbn. specialize (Hcap Hp). lia.
  - rewrite all_keys_app. unfold all_keys at 2. cbn. rewrite app_nil_r. exact Hnd.
  - destruct (c_frames c); discriminate.
  - unfold limits_hold. cbn [c_frames c_sizes]. intros g k v Hg Hk.
    apply in_app_or in Hg. destruct Hg as [Hg|[<-|[]]]; [eauto|discriminate].
  - exact Hc32.
Qed.

Lemma cache_last_inv c : CInv c -> CInv (snd (cache_last c)) /\ c_size (snd (cache_last c)) = c_size c.
Proof. intros [? ? ? ? ? ?]. split; [constructor; assumption|reflexivity]. Qed.

(* ---- one step, then every reachable state ------------------------------------------ *)

Lemma cache_step_inv c o :
  CInv c -> op_bounded (c_size c) o ->
  CInv (fst (cache_step c o)) /\ c_size (fst (cache_step c o)) = c_size c.
Proof.
  intros Hinv Hb. destruct o as [k v l|k v|k| | | |]; cbn [cache_step op_bounded] in *.
  - destruct (cache_add c k v l) as [c'|e|s] eqn:E; cbn [fst]; auto.
    eapply cache_add_inv; eauto.
  - pose proof (cache_update_raw_spec c k v Hinv ltac:(lia)) as H. cbv zeta in H.
    destruct (cache_update_raw c k v) as [c' [e|]]; cbn [fst snd] in *; tauto.
  - destruct (cache_get c k); cbn [fst]; auto.
  - apply cache_push_inv; assumption.
  - destruct (cache_pop c) as [c'|e|s] eqn:E; cbn [fst]; auto.
    destruct (cache_pop_spec c c' Hinv E) as [H1 [H2 _]]. auto.
  - apply cache_reset_inv; assumption.
  - pose proof (cache_last_inv c Hinv) as H. destruct (cache_last c) as [v c']. cbn [fst snd] in *. exact H.
Qed.

Theorem cache_run_inv cap ops :
  cap < 4294967296 -> Forall (op_bounded cap) ops -> CInv (cache_run (new_cache cap) ops).
Proof.
  intros Hcap Hops. unfold cache_run.
  assert (H : CInv (new_cache cap) /\ c_size (new_cache cap) = cap) by (split; [apply new_cache_inv; exact Hcap|reflexivity]).
  revert H. generalize (new_cache cap). induction Hops as [|o ops Ho Hops IH]; intros c [Hinv Hsz]; cbn [fold_left]; [exact Hinv|].
  apply IH. subst cap. destruct (cache_step_inv c o Hinv Ho) as [H1 H2]. split; assumption.
Qed.

(* a rejected operation leaves the cache exactly as it was (including Update's internal
   blank-and-restore) *)
Theorem cache_rejected_noop c o e :
  CInv c -> op_bounded (c_size c) o -> snd (cache_step c o) = RErr e -> fst (cache_step c o) = c.
Proof.
  intros Hinv Hb. destruct o as [k v l|k v|k| | | |]; cbn [cache_step op_bounded] in *.
  - destruct (cache_add c k v l); cbn; intros H; try discriminate; reflexivity.
  - pose proof (cache_update_raw_spec c k v Hinv ltac:(lia)) as H. cbv zeta in H.
    destruct (cache_update_raw c k v) as [c' [e'|]]; cbn [fst snd] in *; intros He; [|discriminate].
    apply H. discriminate.
  - destruct (cache_get c k); cbn; intros H; try discriminate; reflexivity.
  - cbn. discriminate.
  - destruct (cache_pop c); cbn; intros H; try discriminate; reflexivity.
  - cbn. discriminate.
  - destruct (cache_last c). cbn. discriminate.
Qed.

(* no Go panic site is reachable from a state that satisfies the invariant *)
Theorem cache_step_no_panic c o : CInv c -> snd (cache_step c o) <> RPanic.
Proof.
  intros Hinv. destruct o as [k v l|k v|k| | | |]; cbn [cache_step].
  - destruct (cache_add c k v l) as [c'|e|s] eqn:E; cbn; try discriminate.
    exfalso. unfold cache_add in E.
    destruct ((0 <? l) && (l <? len v)); [discriminate|].
    destruct (frame_of c k) as [i|]; [destruct (i =? top_index c); discriminate|].
    destruct ((0 <? len v) && ((if 0 <? len v then check_capacity (c_size c) (c_use c) v else 0) =? 0)); [discriminate|].
    destruct (c_frames c) eqn:Efs; [|discriminate]. apply (inv_frames c Hinv). exact Efs.
  - destruct (cache_update_raw c k v) as [c' [e|]]; cbn; discriminate.
  - unfold cache_get. destruct (frame_of c k); cbn; discriminate.
  - cbn. discriminate.
  - unfold cache_pop. destruct (rev (c_frames c)); cbn; discriminate.
  - cbn. discriminate.
  - destruct (cache_last c). cbn. discriminate.
Qed.

Lemma cache_run_size cap ops :
  cap < 4294967296 -> Forall (op_bounded cap) ops -> c_size (cache_run (new_cache cap) ops) = cap.
Proof.
  intros Hcap Hops. unfold cache_run.
  assert (Hg : forall c0, CInv c0 -> c_size c0 = cap -> c_size (fold_left (fun c o => fst (cache_step c o)) ops c0) = cap).
  { induction Hops as [|o ops Ho Hops IH]; intros c0 Hi Hs; [exact Hs|]. cbn [fold_left].
    subst cap. destruct (cache_step_inv c0 o Hi Ho) as [H1 H2]. apply IH; auto. }
  apply Hg; [apply new_cache_inv; exact Hcap|reflexivity].
Qed.

Theorem cache_reachable_lemma : forall cap ops,
  cap < 4294967296 -> Forall (op_bounded cap) ops ->
  let c := cache_run (new_cache cap) ops in
  c_use c = w32 (total_bytes (c_frames c))
  /\ (0 < cap -> total_bytes (c_frames c) <= cap /\ c_use c = total_bytes (c_frames c))
  /\ NoDup (all_keys (c_frames c))
  /\ (forall f k v, In f (c_frames c) -> alookup k f = Some v ->
        exists l, alookup k (c_sizes c) = Some l /\ (0 < l -> len v <= l)).
Proof.
  intros cap ops Hcap Hops c. pose proof (cache_run_inv cap ops Hcap Hops) as H. fold c in H.
  pose proof (cache_run_size cap ops Hcap Hops) as Hsz. fold c in Hsz.
  destruct H as [Huse Hc Hnd Hne Hlim Hc32]. rewrite Hsz in *.
  split; [exact Huse|]. split; [|split; [exact Hnd|exact Hlim]].
  intros Hp. specialize (Hc Hp). split; [exact Hc|]. rewrite Huse. apply w32_small. lia.
Qed.

Theorem cache_pop_releases_lemma : forall c c',
  CInv c -> cache_pop c = Ok c' ->
  exists pre top, c_frames c = pre ++ [top]
    /\ c_frames c' = (match pre with [] => [[]] | _ => pre end)
    /\ total_bytes (c_frames c') + frame_bytes top = total_bytes (c_frames c)
    /\ (forall k, In k (map fst top) -> ~ In k (all_keys (c_frames c')) /\ alookup k (c_sizes c') = None).
Proof. intros c c' Hi Hp. destruct (cache_pop_spec c c' Hi Hp) as [_ [_ H]]. exact H. Qed.

Theorem cache_over_limit_lemma : forall c k v l,
  0 < l -> l < len v -> cache_add c k v l = Err EGen.
Proof.
  intros c k v l H0 H1. unfold cache_add.
  destruct (N.ltb_spec 0 l); [|lia]. destruct (N.ltb_spec l (len v)); [|lia]. reflexivity.
Qed.

(* ---- read-your-write: Get after a successful Add (added last phase) ------------- *)
Lemma frame_of_from_skip pre : forall i fs k,
  ~ In k (all_keys pre) -> frame_of_from i (pre ++ fs) k = frame_of_from (i + len pre) fs k.
Proof.
  induction pre as [|f pre IH]; intros i fs k Hn; cbn [app].
  - f_equal. unfold len. cbn. lia.
  - cbn [frame_of_from]. unfold all_keys in Hn. cbn in Hn. fold (all_keys pre) in Hn.
    rewrite in_app_iff in Hn.
    destruct (ahas k f) eqn:E; [apply ahas_in in E; tauto|].
    rewrite IH by tauto. f_equal. rewrite len_cons. lia.
Qed.

Lemma frame_of_from_in_pre pre : forall i fs k,
  In k (all_keys pre) ->
  exists j, frame_of_from i (pre ++ fs) k = Some j /\ i <= j < i + len pre
            /\ nth_error (pre ++ fs) (N.to_nat (j - i)) = nth_error pre (N.to_nat (j - i)).
Proof.
  induction pre as [|f pre IH]; intros i fs k Hin; [destruct Hin|].
  cbn [app frame_of_from]. unfold all_keys in Hin. cbn in Hin. fold (all_keys pre) in Hin.
  rewrite in_app_iff in Hin. rewrite len_cons.
  destruct (ahas k f) eqn:E.
  - exists i. split; [reflexivity|]. split; [lia|]. rewrite N.sub_diag. reflexivity.
  - destruct Hin as [Hin|Hin]; [apply ahas_in in Hin; congruence|].
    destruct (IH (i + 1) fs k Hin) as [j [Hj [Hr Hn]]].
    exists j. split; [exact Hj|]. split; [lia|].
    replace (N.to_nat (j - i)) with (S (N.to_nat (j - (i + 1)))) by lia.
    cbn [nth_error]. exact Hn.
Qed.

Theorem cache_add_get_lemma : forall c k v l c',
  CInv c -> cache_add c k v l = Ok c' ->
  cache_get c' k = Ok v
  /\ (forall k2, k2 <> k -> cache_get c' k2 = cache_get c k2)
  /\ cache_get c k = Err EGen.
Proof.
  intros c k v l c' [Huse Hcap Hnd Hne Hlim Hc32]. unfold cache_add.
  destruct ((0 <? l) && (l <? len v)) eqn:Elim; [discriminate|].
  destruct (frame_of c k) as [i|] eqn:Efo; [destruct (i =? top_index c); discriminate|].
  set (sz := if 0 <? len v then check_capacity (c_size c) (c_use c) v else 0).
  destruct ((0 <? len v) && (sz =? 0)) eqn:Esz; [discriminate|].
  destruct (frames_last _ Hne) as [pre [top Hfs]].
  destruct (c_frames c) as [|f0 fr] eqn:Efr; [contradiction|]. rewrite <- Efr in *. clear Efr f0 fr.
  intros H. inversion H; subst c'; clear H.
  split; [|split].
  - unfold cache_get, frame_of. cbn [c_frames].
    pose proof Efo as Efo'. unfold frame_of in Efo'. apply frame_of_from_none in Efo'.
    rewrite (top_index_app c pre top Hfs). rewrite Hfs, update_nth_app.
    rewrite Hfs, all_keys_app in Efo'. rewrite in_app_iff in Efo'.
    rewrite frame_of_from_skip by tauto. cbn [frame_of_from].
    assert (Hh : ahas k (aset k v top) = true).
    { apply ahas_in. eapply alookup_in. apply alookup_aset_same. }
    rewrite Hh. rewrite frame_get_mid by (rewrite N.add_0_l; apply to_nat_len).
    rewrite alookup_aset_same. reflexivity.
  - intros k2 Hk2. unfold cache_get, frame_of. cbn [c_frames].
    rewrite (top_index_app c pre top Hfs). rewrite Hfs, update_nth_app.
    destruct (in_dec (list_eq_dec N.eq_dec) k2 (all_keys pre)) as [Hin|Hout].
    + (* found in a lower frame: same index, same frame *)
      destruct (frame_of_from_in_pre pre 0 [aset k v top] k2 Hin) as [j [Hj [_ Hn]]].
      destruct (frame_of_from_in_pre pre 0 [top] k2 Hin) as [j' [Hj' [_ Hn']]].
      assert (j' = j).
      { destruct (frame_of_from_in_pre pre 0 [] k2 Hin) as [j0 [Hj0 _]].
        clear Hn Hn'. revert Hj Hj'.
        assert (G : forall fs, frame_of_from 0 (pre ++ fs) k2 = frame_of_from 0 pre k2).
        { intros fs. clear -Hin. generalize 0. induction pre as [|f pre IH]; intros i; [destruct Hin|].
          cbn [app frame_of_from]. destruct (ahas k2 f) eqn:E; [reflexivity|].
          apply IH. unfold all_keys in Hin. cbn in Hin. fold (all_keys pre) in Hin.
          rewrite in_app_iff in Hin. destruct Hin as [Hin|Hin]; [apply ahas_in in Hin; congruence|exact Hin]. }
        rewrite !G. congruence. }
      subst j'. rewrite Hj, Hj'. f_equal. unfold frame_get.
      rewrite N.sub_0_r in Hn, Hn'. rewrite Hn, Hn'. reflexivity.
    + rewrite !frame_of_from_skip by exact Hout. cbn [frame_of_from].
      assert (Hah : ahas k2 (aset k v top) = ahas k2 top).
      { destruct (ahas k2 top) eqn:E.
        - apply ahas_in. apply ahas_in in E. destruct (alookup k2 top) eqn:EL.
          + eapply alookup_in. rewrite alookup_aset_other by exact Hk2. exact EL.
          + apply alookup_none in EL. contradiction.
        - destruct (ahas k2 (aset k v top)) eqn:E2; [|reflexivity].
          apply ahas_in in E2. destruct (alookup k2 (aset k v top)) eqn:EL.
          + rewrite alookup_aset_other in EL by exact Hk2. apply alookup_in in EL.
            apply ahas_in in EL. congruence.
          + apply alookup_none in EL. contradiction. }
      rewrite Hah. destruct (ahas k2 top); [|reflexivity].
      rewrite !frame_get_mid by (rewrite N.add_0_l; apply to_nat_len).
      rewrite alookup_aset_other by exact Hk2. reflexivity.
  - unfold cache_get. rewrite Efo. reflexivity.
Qed.
