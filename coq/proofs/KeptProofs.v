(* KeptProofs.v — the kept-state serving mode (corr/EngineKeptCorr.v): a new engine object per
   request around the SAME State and Cache.  Lemmas for props/C18kept.v. *)
From Coq Require Import List NArith Bool.
From Vise Require Import Bytes Errors Consts Codec CacheModel StateModel NavModel RenderModel VmModel EngineModel CorrBase EngineCorr EngineMon EngineKeptCorr.
Import ListNotations.
Local Open Scope N_scope.

(* ensureState's explicit-state branch never touches a state that has a language *)
Lemma kept_state_selected : forall c st l, s_lang st = Some l -> kept_state c st = st.
Proof. intros c st l H. unfold kept_state. rewrite H. destruct (c_lang c); reflexivity. Qed.

Lemma kept_state_no_config : forall c st, c_lang c = [] -> kept_state c st = st.
Proof. intros c st H. unfold kept_state. rewrite H. reflexivity. Qed.

Lemma kept_state_configured : forall c st x r, c_lang c = x :: r -> s_lang st = None ->
  kept_state c st = setf (st_set_language lang_lookup st (c_lang c)) FLAG_LANG.
Proof. intros c st x r Hc Hl. unfold kept_state. rewrite Hc, Hl. reflexivity. Qed.

(* the engine built for a request holds exactly the kept objects (state adjusted as above), a fresh
   page, and is neither initialised nor executed *)
Lemma kept_engine_shape : forall c st ca w lg,
  let e := kept_engine c (st, ca) w lg in
  v_st (e_v e) = kept_state c st /\ v_ca (e_v e) = ca /\ v_w (e_v e) = w /\ v_log (e_v e) = lg
  /\ e = new_engine c (Some (kept_state c st, ca)) w lg.
Proof. intros. unfold e, kept_engine. cbn [fst snd]. unfold new_engine. cbn. repeat split. Qed.

Lemma kept_engine_language : forall c st ca w lg l, s_lang st = Some l ->
  s_lang (v_st (e_v (kept_engine c (st, ca) w lg))) = Some l
  /\ kept_engine c (st, ca) w lg = new_engine c (Some (st, ca)) w lg.
Proof.
  intros c st ca w lg l H. unfold kept_engine. cbn [fst snd]. rewrite (kept_state_selected c st l H).
  split; [unfold new_engine; cbn; exact H | reflexivity].
Qed.

(* one request of this mode IS one request of the long-lived driver on that engine; what is kept
   afterwards is what that engine holds *)
Lemma request_kept_is_request_long : forall fuel rs c st ca w lg tn input,
  request_kept fuel rs c (mkPw (Some (st, ca)) w lg tn) input
  = let '(e, r) := request_long fuel rs c (kept_engine c (st, ca) w lg) input in
    (mkPw (Some (snap_of (v_st (e_v e)) (v_ca (e_v e)))) (v_w (e_v e)) (v_log (e_v e)) (tn || v_taint (e_v e)), r).
Proof. intros. unfold request_kept. cbn [pw_store pw_w pw_log pw_taint]. reflexivity. Qed.

(* with a selected language the request of this mode and the persisted request start from the same
   engine: new_engine around the pair *)
Lemma request_kept_starts_like_persisted : forall fuel rs c st ca w lg tn input l,
  s_lang st = Some l ->
  fst (request_kept fuel rs c (mkPw (Some (st, ca)) w lg tn) input)
  = let '(e, r) := request_long fuel rs c (new_engine c (Some (st, ca)) w lg) input in
    mkPw (Some (snap_of (v_st (e_v e)) (v_ca (e_v e)))) (v_w (e_v e)) (v_log (e_v e)) (tn || v_taint (e_v e)).
Proof.
  intros fuel rs c st ca w lg tn input l H. rewrite request_kept_is_request_long.
  destruct (kept_engine_language c st ca w lg l H) as [_ He]. rewrite He.
  destruct (request_long fuel rs c (new_engine c (Some (st, ca)) w lg) input) as [e r]. reflexivity.
Qed.
