(* DbProofs.v — lemmas about DbKey.v / DbModel.v for C10 and C11. *)
From Coq Require Import Lia ZArith.
From Coq Require Import ZifyN ZifyNat ZifyBool.
From Vise Require Import Bytes Errors Consts DbKey DbModel BytesProofs.
Local Open Scope N_scope.

(* ---- small facts -------------------------------------------------------------------------- *)
Lemma beq_true a b : bytes_eqb a b = true -> a = b.
Proof. apply bytes_eqb_eq. Qed.
Lemma beq_false a b : bytes_eqb a b = false -> a <> b.
Proof. intros H E. subst. rewrite bytes_eqb_refl in H. discriminate. Qed.
Lemma beq_neq a b : a <> b -> bytes_eqb a b = false.
Proof. intros H. destruct (bytes_eqb a b) eqn:E; [|reflexivity]. apply beq_true in E. contradiction. Qed.

Lemma db_alookup_aset_same {V} k (v : V) f : alookup k (aset k v f) = Some v.
Proof.
  induction f as [|[k' v'] f IH]; cbn [aset alookup].
  - rewrite bytes_eqb_refl. reflexivity.
  - destruct (bytes_eqb k k') eqn:E; cbn [alookup].
    + rewrite bytes_eqb_refl. reflexivity.
    + rewrite E. exact IH.
Qed.
Lemma db_alookup_aset_other {V} k k2 (v : V) f : k2 <> k -> alookup k2 (aset k v f) = alookup k2 f.
Proof.
  intros Hne. induction f as [|[k' v'] f IH]; cbn [aset alookup].
  - rewrite (beq_neq _ _ Hne). reflexivity.
  - destruct (bytes_eqb k k') eqn:E; cbn [alookup].
    + apply beq_true in E. subst k'. rewrite (beq_neq _ _ Hne). reflexivity.
    + destruct (bytes_eqb k2 k'); [reflexivity|exact IH].
Qed.
Lemma in_aset {V} k (v : V) f p w : In (p, w) (aset k v f) -> (p, w) = (k, v) \/ In (p, w) f.
Proof.
  induction f as [|[k' v'] f IH]; cbn [aset]; intros H.
  - destruct H as [H|[]]. left. symmetry. exact H.
  - destruct (bytes_eqb k k') eqn:E.
    + destruct H as [H|H]; [left; symmetry; exact H|right; right; exact H].
    + destruct H as [H|H]; [right; left; exact H|].
      destruct (IH H) as [H1|H1]; [left; exact H1|right; right; exact H1].
Qed.
Lemma alookup_in_pair {V} k (f : list (bytes * V)) v : alookup k f = Some v -> In (k, v) f.
Proof.
  induction f as [|[k' v'] f IH]; cbn [alookup]; [discriminate|].
  destruct (bytes_eqb k k') eqn:E; intros H.
  - apply beq_true in E. subst. injection H as ->. left. reflexivity.
  - right. auto.
Qed.

Lemma has_byte_app b x y : has_byte b (x ++ y) = has_byte b x || has_byte b y.
Proof. unfold has_byte. apply existsb_app. Qed.
Lemma has_byte_cons b c x : has_byte b (c :: x) = (b =? c) || has_byte b x.
Proof. reflexivity. Qed.

Lemma dot_free_cons c x : dot_free (c :: x) = true -> c <> ch_dot /\ dot_free x = true.
Proof.
  unfold dot_free. rewrite has_byte_cons. intros H. apply negb_true_iff in H.
  apply orb_false_iff in H as [H1 H2]. split.
  - intros ->. unfold ch_dot in H1. discriminate.
  - apply negb_true_iff. exact H2.
Qed.
Lemma dot_free_app_dot x y : dot_free (x ++ ch_dot :: y) = false.
Proof.
  unfold dot_free. rewrite has_byte_app, has_byte_cons. cbn. rewrite orb_true_r. reflexivity.
Qed.

(* the first '.' delimits a dot-free prefix *)
Lemma first_dot_split s : forall s' r r',
  dot_free s = true -> dot_free s' = true -> s ++ ch_dot :: r = s' ++ ch_dot :: r' -> s = s' /\ r = r'.
Proof.
  induction s as [|c s IH]; intros [|c' s'] r r' Hs Hs' E; cbn [app] in E.
  - injection E as E. auto.
  - injection E as E1 E2. apply dot_free_cons in Hs' as [Hc _]. congruence.
  - injection E as E1 E2. apply dot_free_cons in Hs as [Hc _]. congruence.
  - injection E as E1 E2. subst c'. apply dot_free_cons in Hs as [_ Hs]. apply dot_free_cons in Hs' as [_ Hs'].
    destruct (IH s' r r' Hs Hs' E2) as [-> ->]. auto.
Qed.

Lemma sid_enc_nonempty s : s <> [] -> sid_enc s = s ++ [ch_dot].
Proof. destruct s; [congruence|reflexivity]. Qed.

Lemma wf_sid_spec s : wf_sid s = true -> s <> [] /\ dot_free s = true.
Proof.
  unfold wf_sid. intros H. apply andb_true_iff in H as [H1 H2]. split; [|exact H2].
  destruct s; [discriminate|congruence].
Qed.

(* session prefixing is injective: s, s' dot-free, an empty session only with a dot-free key *)
Lemma sess_app_inj s s' k k' :
  dot_free s = true -> dot_free s' = true ->
  (s = [] -> dot_free k = true) -> (s' = [] -> dot_free k' = true) ->
  sid_enc s ++ k = sid_enc s' ++ k' -> s = s' /\ k = k'.
Proof.
  intros Hs Hs' Hk Hk' E.
  destruct s as [|c s]; destruct s' as [|c' s'].
  - cbn in E. auto.
  - exfalso. rewrite (sid_enc_nonempty (c' :: s')) in E by discriminate. cbn [sid_enc app] in E.
    rewrite <- app_assoc in E. cbn [app] in E.
    specialize (Hk eq_refl). rewrite E in Hk.
    change (c' :: s' ++ ch_dot :: k') with ((c' :: s') ++ ch_dot :: k') in Hk.
    rewrite dot_free_app_dot in Hk. discriminate.
  - exfalso. rewrite (sid_enc_nonempty (c :: s)) in E by discriminate. cbn [sid_enc app] in E.
    rewrite <- app_assoc in E. cbn [app] in E.
    specialize (Hk' eq_refl). rewrite <- E in Hk'.
    change (c :: s ++ ch_dot :: k) with ((c :: s) ++ ch_dot :: k) in Hk'.
    rewrite dot_free_app_dot in Hk'. discriminate.
  - rewrite !sid_enc_nonempty in E by discriminate. rewrite <- !app_assoc in E. cbn [app] in E.
    change (c :: s ++ ch_dot :: k) with ((c :: s) ++ ch_dot :: k) in E.
    change (c' :: s' ++ ch_dot :: k') with ((c' :: s') ++ ch_dot :: k') in E.
    apply first_dot_split in E; auto.
Qed.

(* ---- C11: the storage key is injective ------------------------------------------------------ *)
Lemma skey_type t s l k t' s' l' k' : skey t s l k = skey t' s' l' k' -> t = t'.
Proof. unfold skey, to_db_key. intros H. injection H as H _. exact H. Qed.

Theorem enc_injective_lemma : forall t s k t' s' k',
  sessioned t = true -> sessioned t' = true -> wf_sid s = true -> wf_sid s' = true ->
  skey t s None k = skey t' s' None k' -> (t, s, k) = (t', s', k').
Proof.
  intros t s k t' s' k' Ht Ht' Hs Hs' E.
  pose proof (skey_type _ _ _ _ _ _ _ _ E) as Et. subst t'.
  unfold skey, to_db_key, lang_suffix in E. rewrite Ht in E. rewrite !app_nil_r in E.
  injection E as E.
  apply wf_sid_spec in Hs as [Hn Hd]. apply wf_sid_spec in Hs' as [Hn' Hd'].
  apply sess_app_inj in E; auto; try (intros; congruence).
  destruct E as [-> ->]. reflexivity.
Qed.

Theorem types_disjoint_lemma : forall t s l k t' s' l' k',
  t <> t' -> skey t s l k <> skey t' s' l' k'.
Proof. intros t s l k t' s' l' k' Hne E. apply skey_type in E. contradiction. Qed.

(* equal-length tails *)
Lemma app_inv_len_r {A} (a : list A) : forall b c d,
  List.length c = List.length d -> a ++ c = b ++ d -> a = b /\ c = d.
Proof.
  induction a as [|x a IH]; intros [|y b] c d Hl E; cbn [app] in E.
  - auto.
  - exfalso. subst c. cbn [List.length] in Hl. rewrite app_length in Hl. lia.
  - exfalso. subst d. cbn [List.length] in Hl. rewrite app_length in Hl. lia.
  - injection E as -> E. destruct (IH b c d Hl E) as [-> ->]. auto.
Qed.

Lemma len3_length (c : bytes) : len c = 3 -> List.length c = 3%nat.
Proof. unfold len. lia. Qed.

Lemma no_lang_suffix_app x c : len c = 3 -> no_lang_suffix (x ++ ch_us :: c) = false.
Proof.
  intros Hc. unfold no_lang_suffix. apply negb_false_iff. apply andb_true_iff. split.
  - rewrite len_app, len_cons. apply N.leb_le. lia.
  - replace (N.to_nat (len (x ++ ch_us :: c) - 4)) with (List.length x).
    + rewrite nth_middle. reflexivity.
    + rewrite len_app, len_cons. unfold len in *. lia.
Qed.

Definition lang_ok (l : option bytes) : Prop := match l with Some c => len c = 3 | None => True end.

Lemma lang_suffix_some t c : lang_type t = true -> len c = 3 -> lang_suffix t (Some c) = ch_us :: c.
Proof.
  intros Ht Hc. unfold lang_suffix. destruct c as [|x c]; [cbn in Hc; discriminate|]. rewrite Ht. reflexivity.
Qed.

(* key and language are recovered from the storage key of a language-scoped, unsessioned type *)
Theorem key_lang_injective_lemma : forall t k l k' l',
  lang_type t = true -> sessioned t = false -> lang_ok l -> lang_ok l' ->
  no_lang_suffix k = true -> no_lang_suffix k' = true ->
  skey t [] l k = skey t [] l' k' -> k = k' /\ l = l'.
Proof.
  intros t k l k' l' Ht Hs Hl Hl' Hk Hk' E.
  unfold skey, to_db_key in E. rewrite Hs in E. injection E as E.
  destruct l as [c|], l' as [c'|]; cbn [lang_ok] in Hl, Hl'.
  - rewrite !lang_suffix_some in E by assumption.
    apply app_inv_len_r in E.
    + destruct E as [-> E]. injection E as ->. auto.
    + cbn [List.length]. rewrite !len3_length by assumption. reflexivity.
  - exfalso. rewrite lang_suffix_some in E by assumption. cbn [lang_suffix] in E. rewrite app_nil_r in E.
    rewrite <- E in Hk'. rewrite no_lang_suffix_app in Hk' by assumption. discriminate.
  - exfalso. rewrite lang_suffix_some in E by assumption. cbn [lang_suffix] in E. rewrite app_nil_r in E.
    rewrite E in Hk. rewrite no_lang_suffix_app in Hk by assumption. discriminate.
  - cbn [lang_suffix] in E. rewrite !app_nil_r in E. auto.
Qed.

(* ---- abstract keys: the encoding is injective on well-formed ones ------------------------------ *)
Definition a_sid (a : akey) : bytes := match a_sess a with Some s => s | None => [] end.
Definition a_sk (a : akey) : bytes := if sessioned (a_typ a) then sid_enc (a_sid a) ++ a_key a else a_key a.
Definition enc_a (a : akey) : bytes := skey (a_typ a) (a_sid a) (a_lang a) (a_key a).

Definition wf_akey (a : akey) : bool :=
  (if sessioned (a_typ a) then
     match a_sess a with
     | Some s => dot_free s && (if is_nil s then dot_free (a_key a) else true)
     | None => false
     end
   else negb (match a_sess a with Some _ => true | None => false end))
  && (if lang_type (a_typ a) then
        match a_lang a with Some c => len c =? 3 | None => no_lang_suffix (a_sk a) end
      else negb (match a_lang a with Some _ => true | None => false end)).

Lemma enc_a_unfold a : enc_a a = a_typ a :: a_sk a ++ lang_suffix (a_typ a) (a_lang a).
Proof. reflexivity. Qed.

Lemma is_nil_true {A} (l : list A) : is_nil l = true -> l = [].
Proof. destruct l; [reflexivity|discriminate]. Qed.

Theorem enc_a_injective a a' : wf_akey a = true -> wf_akey a' = true -> enc_a a = enc_a a' -> a = a'.
Proof.
  destruct a as [t se la k], a' as [t' se' la' k'].
  unfold wf_akey. cbn [a_typ a_sess a_lang a_key]. intros W W' E.
  rewrite !enc_a_unfold in E. cbn [a_typ a_lang] in E. injection E as Et E. subst t'.
  apply andb_true_iff in W as [Ws Wl]. apply andb_true_iff in W' as [Ws' Wl'].
  unfold a_sk in *. cbn [a_typ a_sess a_lang a_key a_sid] in *.
  (* the language suffix *)
  assert (Hsk : (if sessioned t then sid_enc (a_sid (mkAkey t se la k)) ++ k else k)
                = (if sessioned t then sid_enc (a_sid (mkAkey t se' la' k')) ++ k' else k') /\ la = la').
  { destruct (lang_type t) eqn:Ht.
    - destruct la as [c|], la' as [c'|].
      + apply N.eqb_eq in Wl, Wl'. rewrite !lang_suffix_some in E by assumption.
        apply app_inv_len_r in E.
        * destruct E as [E1 E2]. injection E2 as ->. auto.
        * cbn [List.length]. rewrite !len3_length by assumption. reflexivity.
      + exfalso. apply N.eqb_eq in Wl. rewrite lang_suffix_some in E by assumption.
        cbn [lang_suffix] in E. rewrite app_nil_r in E. rewrite <- E in Wl'.
        rewrite no_lang_suffix_app in Wl' by assumption. discriminate.
      + exfalso. apply N.eqb_eq in Wl'. rewrite lang_suffix_some in E by assumption.
        cbn [lang_suffix] in E. rewrite app_nil_r in E. rewrite E in Wl.
        rewrite no_lang_suffix_app in Wl by assumption. discriminate.
      + cbn [lang_suffix] in E. rewrite !app_nil_r in E. auto.
    - destruct la; [discriminate|]. destruct la'; [discriminate|].
      cbn [lang_suffix] in E. rewrite !app_nil_r in E. auto. }
  destruct Hsk as [Hsk ->]. cbn [a_sid a_sess] in Hsk.
  destruct (sessioned t) eqn:Hs.
  - destruct se as [s|]; [|discriminate]. destruct se' as [s'|]; [|discriminate].
    apply andb_true_iff in Ws as [Wd Wk]. apply andb_true_iff in Ws' as [Wd' Wk'].
    cbn [a_sid a_sess] in Hsk.
    apply sess_app_inj in Hsk; auto.
    + destruct Hsk as [-> ->]. reflexivity.
    + intros ->. exact Wk.
    + intros ->. exact Wk'.
  - destruct se; [discriminate|]. destruct se'; [discriminate|]. subst k'. reflexivity.
Qed.

(* ---- the reference context and the model context ---------------------------------------------- *)
Definition ctx_ok (b : base) : Prop := dot_free (b_sid b) = true /\ lang_ok (b_lang b).

Lemma obytes_eqb_eq a b : obytes_eqb a b = true <-> a = b.
Proof.
  destruct a as [x|], b as [y|]; cbn [obytes_eqb]; split; intros H; try discriminate; try reflexivity.
  - apply beq_true in H. subst. reflexivity.
  - injection H as ->. apply bytes_eqb_refl.
Qed.
Lemma akey_eqb_eq a b : akey_eqb a b = true <-> a = b.
Proof.
  destruct a as [t s l k], b as [t' s' l' k']. unfold akey_eqb. cbn [a_typ a_sess a_lang a_key]. split.
  - intros H. apply andb_true_iff in H as [H Hk]. apply andb_true_iff in H as [H Hl].
    apply andb_true_iff in H as [Ht Hs]. apply N.eqb_eq in Ht. apply obytes_eqb_eq in Hs, Hl.
    apply beq_true in Hk. subst. reflexivity.
  - intros H. injection H as -> -> -> ->. rewrite N.eqb_refl, bytes_eqb_refl.
    rewrite (proj2 (obytes_eqb_eq s' s') eq_refl), (proj2 (obytes_eqb_eq l' l') eq_refl). reflexivity.
Qed.
Lemma akey_eqb_refl a : akey_eqb a a = true.
Proof. apply akey_eqb_eq. reflexivity. Qed.
Lemma akey_eqb_neq a b : a <> b -> akey_eqb a b = false.
Proof. intros H. destruct (akey_eqb a b) eqn:E; [|reflexivity]. apply akey_eqb_eq in E. contradiction. Qed.

Lemma ctx_akey_sk b l k :
  a_sk (ctx_akey b l k) = to_session_key (model_base b) (b_pfx b) k.
Proof.
  unfold a_sk, ctx_akey, to_session_key, a_sid. cbn [a_typ a_sess a_key model_base b_sid].
  destruct (sessioned (b_pfx b)); reflexivity.
Qed.

Lemma eff_lang_some b c : eff_lang b = Some c -> lang_type (b_pfx b) = true /\ b_lang b = Some c /\ c <> [].
Proof.
  unfold eff_lang. destruct (lang_type (b_pfx b)); [|discriminate].
  destruct (b_lang b) as [[|x r]|]; try discriminate. intros H. injection H as <-. repeat split. discriminate.
Qed.
Lemma eff_lang_not_lang b : lang_type (b_pfx b) = false -> eff_lang b = None.
Proof. unfold eff_lang. intros ->. reflexivity. Qed.

Lemma ctx_akey_wf b k :
  ctx_ok b -> key_ok b k = true ->
  wf_akey (ctx_akey b None k) = true
  /\ (forall c, eff_lang b = Some c -> wf_akey (ctx_akey b (Some c) k) = true).
Proof.
  intros [Hd Hl] Hk. unfold key_ok in Hk. apply andb_true_iff in Hk as [Hk1 Hk2].
  assert (Hsess : forall l,
    (if sessioned (a_typ (ctx_akey b l k)) then
       match a_sess (ctx_akey b l k) with
       | Some s => dot_free s && (if is_nil s then dot_free (a_key (ctx_akey b l k)) else true)
       | None => false
       end
     else negb (match a_sess (ctx_akey b l k) with Some _ => true | None => false end)) = true).
  { intros l. unfold ctx_akey. cbn [a_typ a_sess a_key].
    destruct (sessioned (b_pfx b)) eqn:Hs; [|reflexivity].
    rewrite Hd. cbn [andb]. destruct (is_nil (b_sid b)) eqn:Hn; [|reflexivity].
    cbn [andb] in Hk1. exact Hk1. }
  split.
  - unfold wf_akey. rewrite Hsess. cbn [andb].
    rewrite ctx_akey_sk. unfold ctx_akey at 1 2. cbn [a_typ a_lang].
    destruct (lang_type (b_pfx b)); [exact Hk2|reflexivity].
  - intros c Hc. apply eff_lang_some in Hc as [Ht [Hb Hne]].
    unfold wf_akey. rewrite Hsess. cbn [andb]. unfold ctx_akey at 1 2. cbn [a_typ a_lang]. rewrite Ht.
    rewrite Hb in Hl. cbn [lang_ok] in Hl. apply N.eqb_eq. exact Hl.
Qed.

Lemma to_key_model b k :
  b_pfx b <> 0 -> ctx_ok b ->
  to_key (model_base b) k
  = Ok (mkLk (enc_a (ctx_akey b None k))
             (option_map (fun c => enc_a (ctx_akey b (Some c) k)) (eff_lang b))).
Proof.
  intros Hp [Hd Hl]. unfold to_key. cbn [model_base b_pfx b_lang].
  replace (b_pfx b =? DATATYPE_UNKNOWN) with false
    by (symmetry; apply N.eqb_neq; exact Hp).
  f_equal. unfold enc_a, skey, ctx_akey, a_sid, to_session_key, eff_lang.
  cbn [a_typ a_sess a_lang a_key model_base b_sid].
  destruct (sessioned (b_pfx b)) eqn:Hs; destruct (lang_type (b_pfx b)) eqn:Ht;
    try reflexivity;
    (destruct (b_lang b) as [[|x r]|]; cbn [lang_ok] in Hl; [cbn in Hl; discriminate| |]; reflexivity).
Qed.

Lemma model_base_set_lock b p lk :
  set_lock (model_base b) p lk = (model_base (fst (set_lock b p lk)), snd (set_lock b p lk)).
Proof.
  unfold set_lock. cbn [model_base b_seal b_pfx b_sid b_lang b_lock].
  destruct (b_seal b); [reflexivity|]. destruct (p =? 0); [reflexivity|]. destruct lk; reflexivity.
Qed.
Lemma set_lock_ctx b p lk : b_sid (fst (set_lock b p lk)) = b_sid b /\ b_lang (fst (set_lock b p lk)) = b_lang b
  /\ b_pfx (fst (set_lock b p lk)) = b_pfx b.
Proof.
  unfold set_lock. destruct (b_seal b); [auto|]. destruct (p =? 0); [auto|]. destruct lk; auto.
Qed.

(* ---- mem / pg refine the reference map ------------------------------------------------------------ *)
Definition kv_rel (enc : bytes -> bytes) (st : dbstate) (sp : spec) : Prop :=
  d_base st = model_base (sp_base sp) /\ ctx_ok (sp_base sp)
  /\ forall a, wf_akey a = true -> alookup (enc (enc_a a)) (d_store st) = slookup a (sp_map sp).

Lemma check_put_model b : check_put (model_base b) = check_put b.
Proof. reflexivity. Qed.

Lemma kv_put_refines enc st sp k v :
  (forall x y, enc x = enc y -> x = y) ->
  kv_rel enc st sp -> key_ok (sp_base sp) k = true ->
  kv_rel enc (fst (kv_put enc st k v)) (fst (spec_put sp k v))
  /\ snd (kv_put enc st k v) = snd (spec_put sp k v).
Proof.
  intros Hinj [Hb [Hc Hm]] Hk. unfold kv_put, spec_put. rewrite Hb, check_put_model.
  destruct (check_put (sp_base sp)) eqn:Hcp; cbn [negb].
  2:{ cbn [fst snd]. split; [|reflexivity]. split; [exact Hb|]. split; [exact Hc|exact Hm]. }
  destruct (b_pfx (sp_base sp) =? DATATYPE_UNKNOWN) eqn:Hp.
  - apply N.eqb_eq in Hp. unfold to_key. cbn [model_base b_pfx]. rewrite Hp. cbn [N.eqb fst snd].
    change (DATATYPE_UNKNOWN =? DATATYPE_UNKNOWN) with true. cbn [fst snd].
    split; [|reflexivity]. split; [exact Hb|]. split; [exact Hc|exact Hm].
  - apply N.eqb_neq in Hp. rewrite (to_key_model _ k Hp Hc). cbn [lk_translation lk_default fst snd].
    destruct (ctx_akey_wf _ _ Hc Hk) as [Wd Wt].
    set (a0 := ctx_akey (sp_base sp) (eff_lang (sp_base sp)) k).
    assert (Wa0 : wf_akey a0 = true).
    { subst a0. destruct (eff_lang (sp_base sp)) as [c|] eqn:El; [apply Wt; reflexivity|exact Wd]. }
    assert (Hsk : match option_map (fun c => enc_a (ctx_akey (sp_base sp) (Some c) k)) (eff_lang (sp_base sp)) with
                  | Some t => t | None => enc_a (ctx_akey (sp_base sp) None k) end = enc_a a0).
    { subst a0. destruct (eff_lang (sp_base sp)); reflexivity. }
    rewrite Hsk. split; [|reflexivity].
    split; [cbn [with_store d_base sp_base]; exact Hb|]. split; [exact Hc|].
    intros a Wa. cbn [with_store d_store sp_map slookup].
    destruct (akey_eqb a a0) eqn:Ea.
    + apply akey_eqb_eq in Ea. subst a. apply db_alookup_aset_same.
    + rewrite db_alookup_aset_other; [apply Hm; exact Wa|].
      intros E. apply Hinj in E. apply enc_a_injective in E; auto. subst a. rewrite akey_eqb_refl in Ea. discriminate.
Qed.

Lemma kv_get_refines enc st sp k :
  kv_rel enc st sp -> key_ok (sp_base sp) k = true ->
  kv_get enc st k = spec_get sp k.
Proof.
  intros [Hb [Hc Hm]] Hk. unfold kv_get, spec_get. rewrite Hb.
  destruct (b_pfx (sp_base sp) =? DATATYPE_UNKNOWN) eqn:Hp.
  - apply N.eqb_eq in Hp. unfold to_key. cbn [model_base b_pfx]. rewrite Hp. reflexivity.
  - apply N.eqb_neq in Hp. rewrite (to_key_model _ k Hp Hc). cbn [lk_translation lk_default].
    destruct (ctx_akey_wf _ _ Hc Hk) as [Wd Wt].
    rewrite (Hm _ Wd).
    destruct (eff_lang (sp_base sp)) as [c|] eqn:El; cbn [option_map].
    + rewrite (Hm _ (Wt c eq_refl)). reflexivity.
    + reflexivity.
Qed.

Definition be_enc (be : backend) : bytes -> bytes :=
  match be with BMem => hex_enc | _ => fun x => x end.
Definition is_kv (be : backend) : bool := match be with BFs _ => false | _ => true end.

Lemma kv_step_refines be st sp o :
  is_kv be = true -> (forall x y, be_enc be x = be_enc be y -> x = y) ->
  kv_rel (be_enc be) st sp -> op_ok (sp_base sp) o = true ->
  kv_rel (be_enc be) (fst (db_step be st o)) (fst (spec_step sp o))
  /\ snd (db_step be st o) = snd (spec_step sp o).
Proof.
  intros Hkv Hinj R Hok. pose proof R as [Hb [[Hd Hl] Hm]].
  destruct o as [k v|k|p|s|l|p lk|k|k]; cbn [op_ok] in Hok; try discriminate.
  - (* Put *)
    assert (E : db_step be st (OPut k v) = kv_put (be_enc be) st k v) by (destruct be; [reflexivity|reflexivity|discriminate]).
    rewrite E. cbn [spec_step]. apply kv_put_refines; assumption.
  - (* Get *)
    assert (E : db_step be st (OGet k) = (st, kv_get (be_enc be) st k)) by (destruct be; [reflexivity|reflexivity|discriminate]).
    rewrite E. cbn [spec_step fst snd]. split; [exact R|]. apply kv_get_refines; assumption.
  - cbn [db_step spec_step fst snd]. split; [|reflexivity].
    split; [cbn [with_base d_base sp_base]; rewrite Hb; reflexivity|]. split; [split; assumption|exact Hm].
  - cbn [db_step spec_step fst snd]. split; [|reflexivity].
    split; [cbn [with_base d_base sp_base]; rewrite Hb; reflexivity|]. split; [split; [exact Hok|exact Hl]|exact Hm].
  - cbn [db_step spec_step fst snd]. split; [|reflexivity].
    split; [cbn [with_base d_base sp_base]; rewrite Hb; reflexivity|].
    split; [|exact Hm]. split; [exact Hd|]. cbn [set_language b_lang].
    destruct l as [c|]; cbn [lang_ok]; [apply N.eqb_eq; exact Hok|exact I].
  - cbn [db_step spec_step]. rewrite Hb, model_base_set_lock.
    destruct (set_lock (sp_base sp) p lk) as [b' ok] eqn:Esl. cbn [fst snd].
    split; [|reflexivity]. split; [reflexivity|].
    pose proof (set_lock_ctx (sp_base sp) p lk) as [H1 [H2 _]]. rewrite Esl in H1, H2. cbn [fst] in H1, H2.
    split; [|exact Hm]. cbn [sp_base]. split; [rewrite H1; exact Hd|rewrite H2; exact Hl].
Qed.

Lemma kv_run_refines be : is_kv be = true -> (forall x y, be_enc be x = be_enc be y -> x = y) ->
  forall ops st sp, kv_rel (be_enc be) st sp -> hist_ok sp ops = true ->
  snd (db_run be st ops) = snd (spec_run sp ops).
Proof.
  intros Hkv Hinj. induction ops as [|o ops IH]; intros st sp R Hok; [reflexivity|].
  cbn [hist_ok] in Hok. apply andb_true_iff in Hok as [Ho Hr].
  destruct (kv_step_refines be st sp o Hkv Hinj R Ho) as [R' Er].
  cbn [db_run spec_run].
  destruct (db_step be st o) as [st' x] eqn:E1. destruct (spec_step sp o) as [sp' x'] eqn:E2.
  cbn [fst snd] in *. subst x'.
  specialize (IH st' sp' R' Hr).
  destruct (db_run be st' ops) as [st2 xs]. destruct (spec_run sp' ops) as [sp2 xs']. cbn [snd] in *.
  subst. reflexivity.
Qed.

Lemma kv_rel_init enc dir : kv_rel enc (db_init dir) spec_init.
Proof.
  split; [reflexivity|]. split; [split; [reflexivity|exact I]|]. intros a _. reflexivity.
Qed.

(* hex.EncodeToString is injective *)
Lemma hexdigit_inj a b : hexdigit a = hexdigit b -> a = b.
Proof. unfold hexdigit. destruct (a <? 10) eqn:Ea; destruct (b <? 10) eqn:Eb; lia. Qed.
Lemma hex_enc_inj x : forall y, hex_enc x = hex_enc y -> x = y.
Proof.
  induction x as [|a x IH]; intros [|b y] E; cbn [hex_enc] in E; try discriminate; [reflexivity|].
  injection E as E1 E2 E3. apply hexdigit_inj in E1, E2. f_equal; [|apply IH; exact E3].
  pose proof (N.div_mod a 16). pose proof (N.div_mod b 16). lia.
Qed.

Theorem mem_refines_spec_lemma : forall dir ops,
  hist_ok spec_init ops = true -> db_results BMem dir ops = spec_results ops.
Proof.
  intros dir ops H. unfold db_results, spec_results.
  apply (kv_run_refines BMem eq_refl); [|apply kv_rel_init|exact H].
  intros x y E. apply hex_enc_inj. exact E.
Qed.
Theorem pg_refines_spec_lemma : forall dir ops,
  hist_ok spec_init ops = true -> db_results BPg dir ops = spec_results ops.
Proof.
  intros dir ops H. unfold db_results, spec_results.
  apply (kv_run_refines BPg eq_refl); [|apply kv_rel_init|exact H].
  intros x y E. exact E.
Qed.

(* ---- locks ------------------------------------------------------------------------------------------- *)
Theorem locked_put_is_noop_lemma : forall be st k v,
  check_put (d_base st) = false -> db_step be st (OPut k v) = (st, DRefused).
Proof.
  intros be st k v H. destruct be as [| |bin]; cbn [db_step]; unfold kv_put, fs_put; rewrite H; reflexivity.
Qed.

(* the four read-only types are locked in a fresh store and stay locked until SetLock(typ,false) *)
Lemma fresh_readonly_locked : forall t,
  In t [DATATYPE_BIN; DATATYPE_MENU; DATATYPE_TEMPLATE; DATATYPE_STATICLOAD] ->
  check_put (set_prefix new_base t) = false.
Proof. intros t [<-|[<-|[<-|[<-|[]]]]]; reflexivity. Qed.

Lemma land_lor_safe l : N.land (N.lor l safe_lock) safe_lock = safe_lock.
Proof.
  apply N.bits_inj. intros n. rewrite N.land_spec, N.lor_spec.
  destruct (N.testbit safe_lock n); [rewrite orb_true_r|rewrite andb_false_r]; reflexivity.
Qed.

Lemma seal_establishes_safe b lk :
  b_seal b = false -> snd (set_lock b 0 lk) = true
  /\ b_seal (fst (set_lock b 0 lk)) = true /\ safe (fst (set_lock b 0 lk)) = true.
Proof.
  intros H. unfold set_lock. rewrite H. cbn [N.eqb fst snd b_seal]. repeat split.
  unfold safe. cbn [b_lock]. rewrite land_lor_safe. apply N.eqb_refl.
Qed.

Lemma sealed_step be st o :
  b_seal (d_base st) = true ->
  b_seal (d_base (fst (db_step be st o))) = true /\ b_lock (d_base (fst (db_step be st o))) = b_lock (d_base st)
  /\ (forall p lk, o = OSetLock p lk -> snd (db_step be st o) = DErr EGen).
Proof.
  intros H. destruct o as [k v|k|p|s|l|p lk|k|k]; cbn [db_step fst snd]; try (repeat split; auto; discriminate).
  - assert (E : d_base (fst (match be with BMem => kv_put hex_enc st k v | BPg => kv_put (fun x => x) st k v
                                          | BFs bin => fs_put bin st k v end)) = d_base st).
    { destruct be as [| |bin]; unfold kv_put, fs_put, fs_write.
      - destruct (negb (check_put (d_base st))); [reflexivity|]. destruct (to_key (d_base st) k); reflexivity.
      - destruct (negb (check_put (d_base st))); [reflexivity|]. destruct (to_key (d_base st) k); reflexivity.
      - destruct (negb (check_put (d_base st))); [reflexivity|].
        destruct (fs_to_key bin (d_base st) k); try reflexivity.
        repeat match goal with |- context [if ?c then _ else _] => destruct c end; reflexivity. }
    rewrite E. repeat split; auto. discriminate.
  - unfold set_lock. rewrite H. cbn [fst snd with_base d_base]. repeat split; auto.
Qed.

Theorem seal_is_final_lemma : forall be ops st,
  b_seal (d_base st) = true ->
  b_seal (d_base (fst (db_run be st ops))) = true
  /\ b_lock (d_base (fst (db_run be st ops))) = b_lock (d_base st).
Proof.
  intros be. induction ops as [|o ops IH]; intros st H; [cbn; auto|].
  cbn [db_run]. destruct (sealed_step be st o H) as [H1 [H2 _]].
  destruct (db_step be st o) as [st' x]. cbn [fst] in H1, H2.
  specialize (IH st' H1). destruct (db_run be st' ops) as [st2 xs]. cbn [fst] in *.
  destruct IH as [I1 I2]. split; [exact I1|congruence].
Qed.

Lemma sealed_setlock_fails be st p lk :
  b_seal (d_base st) = true -> snd (db_step be st (OSetLock p lk)) = DErr EGen.
Proof. intros H. destruct (sealed_step be st (OSetLock p lk) H) as [_ [_ H3]]. apply (H3 p lk). reflexivity. Qed.

(* ---- non-interference: a Put never changes a Get under a different (type, session, key) ----------- *)
Definition ctx_triple (b : base) (k : bytes) : N * option bytes * bytes :=
  (b_pfx b, if sessioned (b_pfx b) then Some (b_sid b) else None, k).

Lemma spec_run_app sp h1 h2 :
  spec_run sp (h1 ++ h2)
  = (fst (spec_run (fst (spec_run sp h1)) h2), snd (spec_run sp h1) ++ snd (spec_run (fst (spec_run sp h1)) h2)).
Proof.
  revert sp. induction h1 as [|o h1 IH]; intros sp; cbn [app spec_run].
  - cbn [fst snd app]. destruct (spec_run sp h2); reflexivity.
  - destruct (spec_step sp o) as [sp' x]. rewrite IH.
    destruct (spec_run sp' h1) as [sp1 r1]. cbn [fst snd].
    destruct (spec_run sp1 h2) as [sp2 r2]. reflexivity.
Qed.

Lemma spec_put_base sp k v : sp_base (fst (spec_put sp k v)) = sp_base sp.
Proof.
  unfold spec_put. destruct (negb (check_put (sp_base sp))); [reflexivity|].
  destruct (b_pfx (sp_base sp) =? DATATYPE_UNKNOWN); reflexivity.
Qed.
Lemma spec_step_base sp sp' o : sp_base sp = sp_base sp' ->
  sp_base (fst (spec_step sp o)) = sp_base (fst (spec_step sp' o)).
Proof.
  intros H. destruct o as [k v|k|p|s|l|p lk|k|k]; cbn [spec_step fst sp_base]; try (rewrite H; reflexivity); try exact H.
  - rewrite !spec_put_base. exact H.
  - rewrite H. destruct (set_lock (sp_base sp') p lk). reflexivity.
Qed.
Lemma hist_ok_base ops : forall sp sp', sp_base sp = sp_base sp' -> hist_ok sp ops = hist_ok sp' ops.
Proof.
  induction ops as [|o ops IH]; intros sp sp' H; [reflexivity|]. cbn [hist_ok]. rewrite H.
  rewrite (IH _ _ (spec_step_base sp sp' o H)). reflexivity.
Qed.
Lemma hist_ok_app h1 : forall sp h2,
  hist_ok sp (h1 ++ h2) = hist_ok sp h1 && hist_ok (fst (spec_run sp h1)) h2.
Proof.
  induction h1 as [|o h1 IH]; intros sp h2; cbn [app hist_ok spec_run]; [reflexivity|].
  rewrite IH. destruct (spec_step sp o) as [sp' x]. cbn [fst]. destruct (spec_run sp' h1). cbn [fst].
  rewrite andb_assoc. reflexivity.
Qed.

Lemma slookup_app a m2 m : slookup a (m2 ++ m) = match slookup a m2 with Some v => Some v | None => slookup a m end.
Proof.
  induction m2 as [|[a' v'] m2 IH]; cbn [app slookup]; [reflexivity|].
  destruct (akey_eqb a a'); [reflexivity|exact IH].
Qed.

(* two reference states that differ by at most one entry under a0 *)
Definition differ_at (a0 : akey) (sp sp' : spec) : Prop :=
  sp_base sp = sp_base sp' /\ exists m2 ex m1,
    (ex = [] \/ exists v, ex = [(a0, v)]) /\ sp_map sp = m2 ++ ex ++ m1 /\ sp_map sp' = m2 ++ m1.

Lemma differ_lookup a0 sp sp' a : differ_at a0 sp sp' -> a <> a0 -> slookup a (sp_map sp) = slookup a (sp_map sp').
Proof.
  intros [_ [m2 [ex [m1 [Hex [E1 E2]]]]]] Hne. rewrite E1, E2, !slookup_app.
  destruct (slookup a m2); [reflexivity|].
  destruct Hex as [->|[v ->]]; [reflexivity|]. cbn [slookup]. rewrite (akey_eqb_neq _ _ Hne). reflexivity.
Qed.

Lemma differ_step a0 sp sp' o : differ_at a0 sp sp' -> differ_at a0 (fst (spec_step sp o)) (fst (spec_step sp' o)).
Proof.
  intros D. pose proof D as [Hb [m2 [ex [m1 [Hex [E1 E2]]]]]].
  destruct o as [k v|k|p|s|l|p lk|k|k]; cbn [spec_step fst]; try exact D;
    try (split; [cbn [sp_base]; rewrite Hb; reflexivity|exists m2, ex, m1; auto]).
  - unfold spec_put. rewrite Hb.
    destruct (negb (check_put (sp_base sp'))); [exact D|].
    destruct (b_pfx (sp_base sp') =? DATATYPE_UNKNOWN); [exact D|]. cbn [fst].
    split; [reflexivity|]. cbn [sp_map].
    exists ((ctx_akey (sp_base sp') (eff_lang (sp_base sp')) k, v) :: m2), ex, m1.
    split; [exact Hex|]. rewrite E1, E2. split; reflexivity.
  - rewrite Hb. destruct (set_lock (sp_base sp') p lk) as [b' ok]. cbn [fst].
    split; [reflexivity|]. exists m2, ex, m1. auto.
Qed.
Lemma differ_run a0 ops : forall sp sp', differ_at a0 sp sp' ->
  differ_at a0 (fst (spec_run sp ops)) (fst (spec_run sp' ops)).
Proof.
  induction ops as [|o ops IH]; intros sp sp' D; [exact D|]. cbn [spec_run].
  pose proof (differ_step a0 sp sp' o D) as D'.
  destruct (spec_step sp o) as [s1 x1]. destruct (spec_step sp' o) as [s1' x1']. cbn [fst] in D'.
  specialize (IH _ _ D'). destruct (spec_run s1 ops). destruct (spec_run s1' ops). exact IH.
Qed.

Lemma differ_get a0 sp sp' k :
  differ_at a0 sp sp' ->
  (a_typ a0, a_sess a0, a_key a0) <> ctx_triple (sp_base sp') k ->
  spec_get sp k = spec_get sp' k.
Proof.
  intros D Hne. pose proof D as [Hb _]. unfold spec_get. rewrite Hb.
  destruct (b_pfx (sp_base sp') =? DATATYPE_UNKNOWN); [reflexivity|].
  assert (Hl : forall l, slookup (ctx_akey (sp_base sp') l k) (sp_map sp) = slookup (ctx_akey (sp_base sp') l k) (sp_map sp')).
  { intros l. apply (differ_lookup a0); [exact D|]. intros E. apply Hne. rewrite <- E. reflexivity. }
  rewrite (Hl None). destruct (eff_lang (sp_base sp')) as [c|]; [rewrite (Hl (Some c))|]; reflexivity.
Qed.

Lemma last_snoc {A} (l : list A) x d : last (l ++ [x]) d = x.
Proof. apply last_last. Qed.

Theorem spec_noninterference : forall h1 k v h2 k',
  let b1 := sp_base (fst (spec_run spec_init h1)) in
  let b2 := sp_base (fst (spec_run spec_init (h1 ++ h2))) in
  ctx_triple b1 k <> ctx_triple b2 k' ->
  last (spec_results (h1 ++ OPut k v :: h2 ++ [OGet k'])) DOk
  = last (spec_results (h1 ++ h2 ++ [OGet k'])) DOk.
Proof.
  intros h1 k v h2 k' b1 b2 Hne. unfold spec_results.
  replace (h1 ++ OPut k v :: h2 ++ [OGet k']) with ((h1 ++ OPut k v :: h2) ++ [OGet k'])
    by (rewrite <- app_assoc; reflexivity).
  rewrite (app_assoc h1 h2). rewrite !(spec_run_app spec_init _ [OGet k']). cbn [snd spec_run spec_step].
  rewrite !last_snoc.
  (* the two states before the final Get differ at a0 only *)
  set (sp1 := fst (spec_run spec_init h1)).
  set (a0 := ctx_akey (sp_base sp1) (eff_lang (sp_base sp1)) k).
  assert (D : differ_at a0 (fst (spec_run spec_init (h1 ++ OPut k v :: h2))) (fst (spec_run spec_init (h1 ++ h2)))).
  { rewrite !spec_run_app. cbn [fst]. fold sp1. cbn [spec_run spec_step].
    destruct (spec_put sp1 k v) as [sp1' x] eqn:Ep.
    assert (D1 : differ_at a0 sp1' sp1).
    { unfold spec_put in Ep. destruct (negb (check_put (sp_base sp1))).
      - injection Ep as <- _. split; [reflexivity|]. exists [], [], (sp_map sp1). auto.
      - destruct (b_pfx (sp_base sp1) =? DATATYPE_UNKNOWN).
        + injection Ep as <- _. split; [reflexivity|]. exists [], [], (sp_map sp1). auto.
        + injection Ep as <- _. split; [reflexivity|]. exists [], [(a0, v)], (sp_map sp1).
          split; [right; exists v; reflexivity|]. split; reflexivity. }
    pose proof (differ_run a0 h2 _ _ D1) as D2.
    destruct (spec_run sp1' h2). cbn [fst] in *. exact D2. }
  apply (differ_get a0); [exact D|].
  subst a0. unfold ctx_akey. cbn [a_typ a_sess a_key]. exact Hne.
Qed.

Theorem kv_noninterference_lemma : forall be dir h1 k v h2 k',
  is_kv be = true ->
  hist_ok spec_init (h1 ++ OPut k v :: h2 ++ [OGet k']) = true ->
  let b1 := sp_base (fst (spec_run spec_init h1)) in
  let b2 := sp_base (fst (spec_run spec_init (h1 ++ h2))) in
  ctx_triple b1 k <> ctx_triple b2 k' ->
  last (db_results be dir (h1 ++ OPut k v :: h2 ++ [OGet k'])) DOk
  = last (db_results be dir (h1 ++ h2 ++ [OGet k'])) DOk.
Proof.
  intros be dir h1 k v h2 k' Hkv Hok b1 b2 Hne.
  assert (Hok' : hist_ok spec_init (h1 ++ h2 ++ [OGet k']) = true).
  { rewrite hist_ok_app in Hok. rewrite hist_ok_app. apply andb_true_iff in Hok as [H1 H2]. rewrite H1. cbn [andb].
    cbn [hist_ok] in H2. apply andb_true_iff in H2 as [_ H2].
    rewrite <- H2. apply hist_ok_base. cbn [spec_step]. rewrite spec_put_base. reflexivity. }
  destruct be as [| |bin]; [| |discriminate].
  - rewrite !mem_refines_spec_lemma by assumption. apply spec_noninterference. exact Hne.
  - rewrite !pg_refines_spec_lemma by assumption. apply spec_noninterference. exact Hne.
Qed.

(* ---- fs: paths of plain names ------------------------------------------------------------------------ *)
Lemma split_on_nosep sep l : has_byte sep l = false -> split_on sep l = [l].
Proof.
  induction l as [|x l IH]; intros H; [reflexivity|].
  rewrite has_byte_cons in H. apply orb_false_iff in H as [H1 H2].
  cbn [split_on]. rewrite N.eqb_sym, H1. rewrite (IH H2). reflexivity.
Qed.

Lemma name_plain_spec n : name_plain n = true ->
  n <> [] /\ has_byte ch_slash n = false /\ has_byte 0 n = false
  /\ bytes_eqb n [ch_dot] = false /\ bytes_eqb n [ch_dot; ch_dot] = false /\ len n <= 255.
Proof.
  unfold name_plain, slash_free. intros H.
  repeat (apply andb_true_iff in H as [H ?]).
  repeat match goal with H : negb _ = true |- _ => apply negb_true_iff in H end.
  repeat split; auto.
  - destruct n; [discriminate|congruence].
  - apply N.leb_le. assumption.
Qed.

Lemma clean_join_plain dir n : name_plain n = true -> clean_join dir n = dir ++ [n].
Proof.
  intros H. apply name_plain_spec in H as [Hn [Hs [_ [Hd [Hdd _]]]]].
  unfold clean_join. rewrite (split_on_nosep _ _ Hs). cbn [fold_left]. unfold clean_step.
  destruct n as [|x n]; [congruence|]. cbn [is_nil orb]. rewrite Hd, Hdd. cbn [rev].
  rewrite rev_involutive. reflexivity.
Qed.

Definition dir_pref (d : list bytes) : bytes := List.concat (map (fun c => c ++ [ch_slash]) d).
Lemma path_str_snoc d n : path_str (d ++ [n]) = dir_pref d ++ n.
Proof.
  induction d as [|c d IH]; [reflexivity|]. destruct d as [|c' d'].
  - unfold path_str, dir_pref. cbn [app join_with map List.concat]. rewrite app_nil_r, <- app_assoc. reflexivity.
  - change (path_str ((c :: c' :: d') ++ [n])) with (c ++ [ch_slash] ++ path_str ((c' :: d') ++ [n])).
    rewrite IH. unfold dir_pref. cbn [map List.concat]. rewrite <- !app_assoc. reflexivity.
Qed.
Lemma path_str_inj d n n' : path_str (d ++ [n]) = path_str (d ++ [n']) -> n = n'.
Proof. rewrite !path_str_snoc. apply app_inv_head. Qed.

Lemma comps_prefix_app l r : comps_prefix l (l ++ r) = true.
Proof. induction l as [|x l IH]; [reflexivity|]. cbn [app comps_prefix]. rewrite bytes_eqb_refl. exact IH. Qed.
Lemma comps_prefix_snoc d n : comps_prefix (d ++ [n]) d = false.
Proof. induction d as [|x d IH]; [reflexivity|]. cbn [app comps_prefix]. rewrite bytes_eqb_refl. exact IH. Qed.

Definition lookup_open (st : dbstate) (p : bytes) : fopen :=
  match alookup p (d_store st) with Some v => FOk v | None => FNoEnt end.

Lemma fs_walk_child st n : len n <= 255 -> forall rest pre,
  d_dir st = pre ++ rest -> forallb (fun c => len c <=? 255) rest = true ->
  fs_walk st pre (rest ++ [n]) = lookup_open st (path_str (d_dir st ++ [n])).
Proof.
  intros Hn. induction rest as [|c rest IH]; intros pre Hd Hl.
  - cbn [app fs_walk]. replace (255 <? len n) with false by (symmetry; apply N.ltb_ge; exact Hn).
    rewrite app_nil_r in Hd. unfold is_dir. rewrite Hd, comps_prefix_snoc. reflexivity.
  - cbn [forallb] in Hl. apply andb_true_iff in Hl as [Hc Hl]. apply N.leb_le in Hc.
    cbn [app fs_walk]. replace (255 <? len c) with false by (symmetry; apply N.ltb_ge; exact Hc).
    destruct (rest ++ [n]) as [|y ys] eqn:E; [destruct rest; discriminate|]. rewrite <- E. rewrite <- E in IH.
    assert (Hdir : is_dir st (pre ++ [c]) = true).
    { unfold is_dir. rewrite Hd. replace (pre ++ c :: rest) with ((pre ++ [c]) ++ rest) by (rewrite <- app_assoc; reflexivity).
      apply comps_prefix_app. }
    rewrite Hdir. apply IH; [|exact Hl]. rewrite Hd, <- app_assoc. reflexivity.
Qed.

Lemma dir_ok_spec dir : dir_ok dir = true ->
  forallb (fun c => len c <=? 255) dir = true /\ has_nul dir = false.
Proof.
  unfold dir_ok, has_nul. induction dir as [|c d IH]; intros H; [auto|].
  cbn [forallb existsb] in *. apply andb_true_iff in H as [H1 H2]. apply andb_true_iff in H1 as [Ha Hb].
  destruct (IH H2) as [I1 I2]. rewrite Ha, I1, I2. apply negb_true_iff in Hb. rewrite Hb. auto.
Qed.

Lemma fs_open_child st n : dir_ok (d_dir st) = true -> name_plain n = true ->
  fs_open st (d_dir st ++ [n]) = lookup_open st (path_str (d_dir st ++ [n])).
Proof.
  intros Hd Hn. apply dir_ok_spec in Hd as [Hl Hz]. apply name_plain_spec in Hn as [_ [_ [Hz' [_ [_ Hlen]]]]].
  unfold fs_open, has_nul. rewrite existsb_app. fold (has_nul (d_dir st)). rewrite Hz. cbn [existsb orb].
  rewrite Hz'. cbn [orb]. apply (fs_walk_child st n Hlen (d_dir st) []); [reflexivity|exact Hl].
Qed.

Lemma removelast_snoc {A} (l : list A) x : removelast (l ++ [x]) = l.
Proof. apply removelast_last. Qed.

Lemma fs_write_child st n v : dir_ok (d_dir st) = true -> name_plain n = true ->
  fs_write st (d_dir st ++ [n]) v
  = (with_store st (aset (path_str (d_dir st ++ [n])) v (d_store st)), DOk).
Proof.
  intros Hd Hn. apply dir_ok_spec in Hd as [Hl Hz]. apply name_plain_spec in Hn as [_ [_ [Hz' [_ [_ Hlen]]]]].
  unfold fs_write, has_nul. rewrite existsb_app. fold (has_nul (d_dir st)). rewrite Hz. cbn [existsb orb]. rewrite Hz'.
  cbn [orb]. rewrite removelast_snoc. unfold is_dir at 1. replace (comps_prefix (d_dir st) (d_dir st)) with true
    by (symmetry; rewrite <- (app_nil_r (d_dir st)) at 2; apply comps_prefix_app).
  cbn [negb]. unfold is_dir. rewrite comps_prefix_snoc.
  replace (is_nil (d_dir st ++ [n])) with false by (destruct (d_dir st); reflexivity). cbn [orb].
  rewrite last_last. replace (255 <? len n) with false by (symmetry; apply N.ltb_ge; exact Hlen). reflexivity.
Qed.

(* ---- base64 (std alphabet, padded) is injective on bytes --------------------------------------------- *)
Ltac Zify.zify_post_hook ::= Z.div_mod_to_equations.

Lemma b64c_inj a b : a < 64 -> b < 64 -> b64c a = b64c b -> a = b.
Proof.
  unfold b64c. intros Ha Hb.
  destruct (a <? 26) eqn:A1; destruct (b <? 26) eqn:B1; try lia;
  destruct (a <? 52) eqn:A2; destruct (b <? 52) eqn:B2; try lia;
  destruct (a <? 62) eqn:A3; destruct (b <? 62) eqn:B3; try lia;
  destruct (a =? 62) eqn:A4; destruct (b =? 62) eqn:B4; lia.
Qed.
Lemma b64c_not_pad a : a < 64 -> b64c a <> ch_pad.
Proof.
  unfold b64c, ch_pad. intros Ha.
  destruct (a <? 26) eqn:A1; [lia|]. destruct (a <? 52) eqn:A2; [lia|].
  destruct (a <? 62) eqn:A3; [lia|]. destruct (a =? 62); lia.
Qed.

Lemma list_ind3 {A} (P : list A -> Prop) :
  P [] -> (forall a, P [a]) -> (forall a b, P [a; b]) ->
  (forall a b c r, P r -> P (a :: b :: c :: r)) -> forall l, P l.
Proof.
  intros H0 H1 H2 H3. fix IH 1. intros [|a [|b [|c r]]]; [exact H0|apply H1|apply H2|apply H3; apply IH].
Qed.

Lemma bytes_ok_cons a r : bytes_ok (a :: r) = true -> a < 256 /\ bytes_ok r = true.
Proof. unfold bytes_ok. cbn [forallb]. intros H. apply andb_true_iff in H as [H1 H2]. split; [lia|exact H2]. Qed.

Lemma b64_enc_inj : forall x y, bytes_ok x = true -> bytes_ok y = true -> b64_enc x = b64_enc y -> x = y.
Proof.
  induction x as [|a|a b|a b c r IH] using list_ind3; intros [|a' [|b' [|c' r']]] Hx Hy E;
    cbn [b64_enc] in E; try discriminate; try reflexivity;
    repeat match goal with H : bytes_ok (_ :: _) = true |- _ => apply bytes_ok_cons in H as [? H] end.
  - injection E as E1 E2. apply b64c_inj in E1, E2; try lia. f_equal. lia.
  - exfalso. injection E as _ _ E3. symmetry in E3. apply b64c_not_pad in E3; [exact E3|lia].
  - exfalso. injection E as _ _ E3 _. symmetry in E3. apply b64c_not_pad in E3; [exact E3|lia].
  - exfalso. injection E as _ _ E3. apply b64c_not_pad in E3; [exact E3|lia].
  - injection E as E1 E2 E3. apply b64c_inj in E1, E2, E3; try lia. f_equal; [lia|]. f_equal. lia.
  - exfalso. injection E as _ _ _ E4 _. symmetry in E4. apply b64c_not_pad in E4; [exact E4|lia].
  - exfalso. injection E as _ _ E3 _. apply b64c_not_pad in E3; [exact E3|lia].
  - exfalso. injection E as _ _ _ E4 _. apply b64c_not_pad in E4; [exact E4|lia].
  - injection E as E1 E2 E3 E4 E5. apply b64c_inj in E1, E2, E3, E4; try lia.
    f_equal; [lia|]. f_equal; [lia|]. f_equal; [lia|]. apply IH; assumption.
Qed.
