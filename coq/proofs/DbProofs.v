(* DbProofs.v — lemmas about DbKey.v / DbModel.v for C10 and C11. *)
From Coq Require Import Lia ZArith Sorted.
From Coq Require Import ZifyN ZifyNat ZifyBool.
From Vise Require Import Bytes Errors Consts DbKey DbModel BytesProofs.
Local Open Scope N_scope.

(* ---- small facts -------------------------------------------------------------------------- *)
Lemma beq_true a b : bytes_eqb a b = true -> a = b.
Proof. apply bytes_eqb_eq. Qed.
Lemma beq_false a b : bytes_eqb a b = false -> a <> b.
Proof. intros H E. subst. rewrite bytes_eqb_refl in H. discriminate. Qed.
Lemma beq_neq a b : a <> b -> bytes_eqb a b = false.
Proof. intros H. destruct (bytes_eqb a b) eqn:E; [|reflexivity]. apply beq_true in E. contradiction. Qed.

Lemma db_alookup_aset_same {V} k (v : V) f : alookup k (aset k v f) = Some v.
Proof.
  induction f as [|[k' v'] f IH]; cbn [aset alookup].
  - rewrite bytes_eqb_refl. reflexivity.
  - destruct (bytes_eqb k k') eqn:E; cbn [alookup].
    + rewrite bytes_eqb_refl. reflexivity.
    + rewrite E. exact IH.
Qed.
Lemma db_alookup_aset_other {V} k k2 (v : V) f : k2 <> k -> alookup k2 (aset k v f) = alookup k2 f.
Proof.
  intros Hne. induction f as [|[k' v'] f IH]; cbn [aset alookup].
  - rewrite (beq_neq _ _ Hne). reflexivity.
  - destruct (bytes_eqb k k') eqn:E; cbn [alookup].
    + apply beq_true in E. subst k'. rewrite (beq_neq _ _ Hne). reflexivity.
    + destruct (bytes_eqb k2 k'); [reflexivity|exact IH].
Qed.
Lemma in_aset {V} k (v : V) f p w : In (p, w) (aset k v f) -> (p, w) = (k, v) \/ In (p, w) f.
Proof.
  induction f as [|[k' v'] f IH]; cbn [aset]; intros H.
  - destruct H as [H|[]]. left. symmetry. exact H.
  - destruct (bytes_eqb k k') eqn:E.
    + destruct H as [H|H]; [left; symmetry; exact H|right; right; exact H].
    + destruct H as [H|H]; [right; left; exact H|].
      destruct (IH H) as [H1|H1]; [left; exact H1|right; right; exact H1].
Qed.
Lemma alookup_in_pair {V} k (f : list (bytes * V)) v : alookup k f = Some v -> In (k, v) f.
Proof.
  induction f as [|[k' v'] f IH]; cbn [alookup]; [discriminate|].
  destruct (bytes_eqb k k') eqn:E; intros H.
  - apply beq_true in E. subst. injection H as ->. left. reflexivity.
  - right. auto.
Qed.

Lemma has_byte_app b x y : has_byte b (x ++ y) = has_byte b x || has_byte b y.
Proof. unfold has_byte. apply existsb_app. Qed.
Lemma has_byte_cons b c x : has_byte b (c :: x) = (b =? c) || has_byte b x.
Proof. reflexivity. Qed.

Lemma dot_free_cons c x : dot_free (c :: x) = true -> c <> ch_dot /\ dot_free x = true.
Proof.
  unfold dot_free. rewrite has_byte_cons. intros H. apply negb_true_iff in H.
  apply orb_false_iff in H as [H1 H2]. split.
  - intros ->. unfold ch_dot in H1. discriminate.
  - apply negb_true_iff. exact H2.
Qed.
Lemma dot_free_app_dot x y : dot_free (x ++ ch_dot :: y) = false.
Proof.
  unfold dot_free. rewrite has_byte_app, has_byte_cons. cbn. rewrite orb_true_r. reflexivity.
Qed.

(* the first '.' delimits a dot-free prefix *)
Lemma first_dot_split s : forall s' r r',
  dot_free s = true -> dot_free s' = true -> s ++ ch_dot :: r = s' ++ ch_dot :: r' -> s = s' /\ r = r'.
Proof.
  induction s as [|c s IH]; intros [|c' s'] r r' Hs Hs' E; cbn [app] in E.
  - injection E as E. auto.
  - injection E as E1 E2. apply dot_free_cons in Hs' as [Hc _]. congruence.
  - injection E as E1 E2. apply dot_free_cons in Hs as [Hc _]. congruence.
  - injection E as E1 E2. subst c'. apply dot_free_cons in Hs as [_ Hs]. apply dot_free_cons in Hs' as [_ Hs'].
    destruct (IH s' r r' Hs Hs' E2) as [-> ->]. auto.
Qed.

Lemma sid_enc_nonempty s : s <> [] -> sid_enc s = s ++ [ch_dot].
Proof. destruct s; [congruence|reflexivity]. Qed.

Lemma wf_sid_spec s : wf_sid s = true -> s <> [] /\ dot_free s = true.
Proof.
  unfold wf_sid. intros H. apply andb_true_iff in H as [H1 H2]. split; [|exact H2].
  destruct s; [discriminate|congruence].
Qed.

(* session prefixing is injective: s, s' dot-free, an empty session only with a dot-free key *)
Lemma sess_app_inj s s' k k' :
  dot_free s = true -> dot_free s' = true ->
  (s = [] -> dot_free k = true) -> (s' = [] -> dot_free k' = true) ->
  sid_enc s ++ k = sid_enc s' ++ k' -> s = s' /\ k = k'.
Proof.
  intros Hs Hs' Hk Hk' E.
  destruct s as [|c s]; destruct s' as [|c' s'].
  - cbn in E. auto.
  - exfalso. rewrite (sid_enc_nonempty (c' :: s')) in E by discriminate. cbn [sid_enc app] in E.
    rewrite <- app_assoc in E. cbn [app] in E.
    specialize (Hk eq_refl). rewrite E in Hk.
    change (c' :: s' ++ ch_dot :: k') with ((c' :: s') ++ ch_dot :: k') in Hk.
    rewrite dot_free_app_dot in Hk. discriminate.
  - exfalso. rewrite (sid_enc_nonempty (c :: s)) in E by discriminate. cbn [sid_enc app] in E.
    rewrite <- app_assoc in E. cbn [app] in E.
    specialize (Hk' eq_refl). rewrite <- E in Hk'.
    change (c :: s ++ ch_dot :: k) with ((c :: s) ++ ch_dot :: k) in Hk'.
    rewrite dot_free_app_dot in Hk'. discriminate.
  - rewrite !sid_enc_nonempty in E by discriminate. rewrite <- !app_assoc in E. cbn [app] in E.
    change (c :: s ++ ch_dot :: k) with ((c :: s) ++ ch_dot :: k) in E.
    change (c' :: s' ++ ch_dot :: k') with ((c' :: s') ++ ch_dot :: k') in E.
    apply first_dot_split in E; auto.
Qed.

(* ---- C11: the storage key is injective ------------------------------------------------------ *)
Lemma skey_type t s l k t' s' l' k' : skey t s l k = skey t' s' l' k' -> t = t'.
Proof. unfold skey, to_db_key. intros H. injection H as H _. exact H. Qed.

Theorem enc_injective_lemma : forall t s k t' s' k',
  sessioned t = true -> sessioned t' = true -> wf_sid s = true -> wf_sid s' = true ->
  skey t s None k = skey t' s' None k' -> (t, s, k) = (t', s', k').
Proof.
  intros t s k t' s' k' Ht Ht' Hs Hs' E.
  pose proof (skey_type _ _ _ _ _ _ _ _ E) as Et. subst t'.
  unfold skey, to_db_key, lang_suffix in E. rewrite Ht in E. rewrite !app_nil_r in E.
  injection E as E.
  apply wf_sid_spec in Hs as [Hn Hd]. apply wf_sid_spec in Hs' as [Hn' Hd'].
  apply sess_app_inj in E; auto; try (intros; congruence).
  destruct E as [-> ->]. reflexivity.
Qed.

Theorem types_disjoint_lemma : forall t s l k t' s' l' k',
  t <> t' -> skey t s l k <> skey t' s' l' k'.
Proof. intros t s l k t' s' l' k' Hne E. apply skey_type in E. contradiction. Qed.

(* equal-length tails *)
Lemma app_inv_len_r {A} (a : list A) : forall b c d,
  List.length c = List.length d -> a ++ c = b ++ d -> a = b /\ c = d.
Proof.
  induction a as [|x a IH]; intros [|y b] c d Hl E; cbn [app] in E.
  - auto.
  - exfalso. subst c. cbn [List.length] in Hl. rewrite app_length in Hl. lia.
  - exfalso. subst d. cbn [List.length] in Hl. rewrite app_length in Hl. lia.
  - injection E as -> E. destruct (IH b c d Hl E) as [-> ->]. auto.
Qed.

Lemma len3_length (c : bytes) : len c = 3 -> List.length c = 3%nat.
Proof. unfold len. lia. Qed.

Lemma no_lang_suffix_app x c : len c = 3 -> no_lang_suffix (x ++ ch_us :: c) = false.
Proof.
  intros Hc. unfold no_lang_suffix. apply negb_false_iff. apply andb_true_iff. split.
  - rewrite len_app, len_cons. apply N.leb_le. lia.
  - replace (N.to_nat (len (x ++ ch_us :: c) - 4)) with (List.length x).
    + rewrite nth_middle. reflexivity.
    + rewrite len_app, len_cons. unfold len in *. lia.
Qed.

Definition lang_ok (l : option bytes) : Prop := match l with Some c => len c = 3 | None => True end.

Lemma lang_suffix_some t c : lang_type t = true -> len c = 3 -> lang_suffix t (Some c) = ch_us :: c.
Proof.
  intros Ht Hc. unfold lang_suffix. destruct c as [|x c]; [cbn in Hc; discriminate|]. rewrite Ht. reflexivity.
Qed.

(* key and language are recovered from the storage key of a language-scoped, unsessioned type *)
Theorem key_lang_injective_lemma : forall t k l k' l',
  lang_type t = true -> sessioned t = false -> lang_ok l -> lang_ok l' ->
  no_lang_suffix k = true -> no_lang_suffix k' = true ->
  skey t [] l k = skey t [] l' k' -> k = k' /\ l = l'.
Proof.
  intros t k l k' l' Ht Hs Hl Hl' Hk Hk' E.
  unfold skey, to_db_key in E. rewrite Hs in E. injection E as E.
  destruct l as [c|], l' as [c'|]; cbn [lang_ok] in Hl, Hl'.
  - rewrite !lang_suffix_some in E by assumption.
    apply app_inv_len_r in E.
    + destruct E as [-> E]. injection E as ->. auto.
    + cbn [List.length]. rewrite !len3_length by assumption. reflexivity.
  - exfalso. rewrite lang_suffix_some in E by assumption. cbn [lang_suffix] in E. rewrite app_nil_r in E.
    rewrite <- E in Hk'. rewrite no_lang_suffix_app in Hk' by assumption. discriminate.
  - exfalso. rewrite lang_suffix_some in E by assumption. cbn [lang_suffix] in E. rewrite app_nil_r in E.
    rewrite E in Hk. rewrite no_lang_suffix_app in Hk by assumption. discriminate.
  - cbn [lang_suffix] in E. rewrite !app_nil_r in E. auto.
Qed.

(* ---- abstract keys: the encoding is injective on well-formed ones ------------------------------ *)
Definition a_sid (a : akey) : bytes := match a_sess a with Some s => s | None => [] end.
Definition a_sk (a : akey) : bytes := if sessioned (a_typ a) then sid_enc (a_sid a) ++ a_key a else a_key a.
Definition enc_a (a : akey) : bytes := skey (a_typ a) (a_sid a) (a_lang a) (a_key a).

Definition wf_akey (a : akey) : bool :=
  (if sessioned (a_typ a) then
     match a_sess a with
     | Some s => dot_free s && (if is_nil s then dot_free (a_key a) else true)
     | None => false
     end
   else negb (match a_sess a with Some _ => true | None => false end))
  && (if lang_type (a_typ a) then
        match a_lang a with Some c => len c =? 3 | None => no_lang_suffix (a_sk a) end
      else negb (match a_lang a with Some _ => true | None => false end)).

Lemma enc_a_unfold a : enc_a a = a_typ a :: a_sk a ++ lang_suffix (a_typ a) (a_lang a).
Proof. reflexivity. Qed.

Lemma is_nil_true {A} (l : list A) : is_nil l = true -> l = [].
Proof. destruct l; [reflexivity|discriminate]. Qed.

Theorem enc_a_injective a a' : wf_akey a = true -> wf_akey a' = true -> enc_a a = enc_a a' -> a = a'.
Proof.
  destruct a as [t se la k], a' as [t' se' la' k'].
  unfold wf_akey. cbn [a_typ a_sess a_lang a_key]. intros W W' E.
  rewrite !enc_a_unfold in E. cbn [a_typ a_lang] in E. injection E as Et E. subst t'.
  apply andb_true_iff in W as [Ws Wl]. apply andb_true_iff in W' as [Ws' Wl'].
  unfold a_sk in *. cbn [a_typ a_sess a_lang a_key a_sid] in *.
  (* the language suffix *)
  assert (Hsk : (if sessioned t then sid_enc (a_sid (mkAkey t se la k)) ++ k else k)
                = (if sessioned t then sid_enc (a_sid (mkAkey t se' la' k')) ++ k' else k') /\ la = la').
  { destruct (lang_type t) eqn:Ht.
    - destruct la as [c|], la' as [c'|].
      + apply N.eqb_eq in Wl, Wl'. rewrite !lang_suffix_some in E by assumption.
        apply app_inv_len_r in E.
        * destruct E as [E1 E2]. injection E2 as ->. auto.
        * cbn [List.length]. rewrite !len3_length by assumption. reflexivity.
      + exfalso. apply N.eqb_eq in Wl. rewrite lang_suffix_some in E by assumption.
        cbn [lang_suffix] in E. rewrite app_nil_r in E. rewrite <- E in Wl'.
        rewrite no_lang_suffix_app in Wl' by assumption. discriminate.
      + exfalso. apply N.eqb_eq in Wl'. rewrite lang_suffix_some in E by assumption.
        cbn [lang_suffix] in E. rewrite app_nil_r in E. rewrite E in Wl.
        rewrite no_lang_suffix_app in Wl by assumption. discriminate.
      + cbn [lang_suffix] in E. rewrite !app_nil_r in E. auto.
    - destruct la; [discriminate|]. destruct la'; [discriminate|].
      cbn [lang_suffix] in E. rewrite !app_nil_r in E. auto. }
  destruct Hsk as [Hsk ->]. cbn [a_sid a_sess] in Hsk.
  destruct (sessioned t) eqn:Hs.
  - destruct se as [s|]; [|discriminate]. destruct se' as [s'|]; [|discriminate].
    apply andb_true_iff in Ws as [Wd Wk]. apply andb_true_iff in Ws' as [Wd' Wk'].
    cbn [a_sid a_sess] in Hsk.
    apply sess_app_inj in Hsk; auto.
    + destruct Hsk as [-> ->]. reflexivity.
    + intros ->. exact Wk.
    + intros ->. exact Wk'.
  - destruct se; [discriminate|]. destruct se'; [discriminate|]. subst k'. reflexivity.
Qed.

(* ---- the reference context and the model context ---------------------------------------------- *)
Definition ctx_ok (b : base) : Prop := dot_free (b_sid b) = true /\ lang_ok (b_lang b).

Lemma obytes_eqb_eq a b : obytes_eqb a b = true <-> a = b.
Proof.
  destruct a as [x|], b as [y|]; cbn [obytes_eqb]; split; intros H; try discriminate; try reflexivity.
  - apply beq_true in H. subst. reflexivity.
  - injection H as ->. apply bytes_eqb_refl.
Qed.
Lemma akey_eqb_eq a b : akey_eqb a b = true <-> a = b.
Proof.
  destruct a as [t s l k], b as [t' s' l' k']. unfold akey_eqb. cbn [a_typ a_sess a_lang a_key]. split.
  - intros H. apply andb_true_iff in H as [H Hk]. apply andb_true_iff in H as [H Hl].
    apply andb_true_iff in H as [Ht Hs]. apply N.eqb_eq in Ht. apply obytes_eqb_eq in Hs, Hl.
    apply beq_true in Hk. subst. reflexivity.
  - intros H. injection H as -> -> -> ->. rewrite N.eqb_refl, bytes_eqb_refl.
    rewrite (proj2 (obytes_eqb_eq s' s') eq_refl), (proj2 (obytes_eqb_eq l' l') eq_refl). reflexivity.
Qed.
Lemma akey_eqb_refl a : akey_eqb a a = true.
Proof. apply akey_eqb_eq. reflexivity. Qed.
Lemma akey_eqb_neq a b : a <> b -> akey_eqb a b = false.
Proof. intros H. destruct (akey_eqb a b) eqn:E; [|reflexivity]. apply akey_eqb_eq in E. contradiction. Qed.

Lemma ctx_akey_sk b l k :
  a_sk (ctx_akey b l k) = to_session_key (model_base b) (b_pfx b) k.
Proof.
  unfold a_sk, ctx_akey, to_session_key, a_sid. cbn [a_typ a_sess a_key model_base b_sid].
  destruct (sessioned (b_pfx b)); reflexivity.
Qed.

Lemma eff_lang_some b c : eff_lang b = Some c -> lang_type (b_pfx b) = true /\ b_lang b = Some c /\ c <> [].
Proof.
  unfold eff_lang. destruct (lang_type (b_pfx b)); [|discriminate].
  destruct (b_lang b) as [[|x r]|]; try discriminate. intros H. injection H as <-. repeat split. discriminate.
Qed.
Lemma eff_lang_not_lang b : lang_type (b_pfx b) = false -> eff_lang b = None.
Proof. unfold eff_lang. intros ->. reflexivity. Qed.

Lemma ctx_akey_wf b k :
  ctx_ok b -> key_ok b k = true ->
  wf_akey (ctx_akey b None k) = true
  /\ (forall c, eff_lang b = Some c -> wf_akey (ctx_akey b (Some c) k) = true).
Proof.
  intros [Hd Hl] Hk. unfold key_ok in Hk. apply andb_true_iff in Hk as [Hk1 Hk2].
  assert (Hsess : forall l,
    (if sessioned (a_typ (ctx_akey b l k)) then
       match a_sess (ctx_akey b l k) with
       | Some s => dot_free s && (if is_nil s then dot_free (a_key (ctx_akey b l k)) else true)
       | None => false
       end
     else negb (match a_sess (ctx_akey b l k) with Some _ => true | None => false end)) = true).
  { intros l. unfold ctx_akey. cbn [a_typ a_sess a_key].
    destruct (sessioned (b_pfx b)) eqn:Hs; [|reflexivity].
    rewrite Hd. cbn [andb]. destruct (is_nil (b_sid b)) eqn:Hn; [|reflexivity].
    cbn [andb] in Hk1. exact Hk1. }
  split.
  - unfold wf_akey. rewrite Hsess. cbn [andb].
    rewrite ctx_akey_sk. unfold ctx_akey at 1 2. cbn [a_typ a_lang].
    destruct (lang_type (b_pfx b)); [exact Hk2|reflexivity].
  - intros c Hc. apply eff_lang_some in Hc as [Ht [Hb Hne]].
    unfold wf_akey. rewrite Hsess. cbn [andb]. unfold ctx_akey at 1 2. cbn [a_typ a_lang]. rewrite Ht.
    rewrite Hb in Hl. cbn [lang_ok] in Hl. apply N.eqb_eq. exact Hl.
Qed.

Lemma to_key_model b k :
  b_pfx b <> 0 -> ctx_ok b ->
  to_key (model_base b) k
  = Ok (mkLk (enc_a (ctx_akey b None k))
             (option_map (fun c => enc_a (ctx_akey b (Some c) k)) (eff_lang b))).
Proof.
  intros Hp [Hd Hl]. unfold to_key. cbn [model_base b_pfx b_lang].
  replace (b_pfx b =? DATATYPE_UNKNOWN) with false
    by (symmetry; apply N.eqb_neq; exact Hp).
  f_equal. unfold enc_a, skey, ctx_akey, a_sid, to_session_key, eff_lang.
  cbn [a_typ a_sess a_lang a_key model_base b_sid].
  destruct (sessioned (b_pfx b)) eqn:Hs; destruct (lang_type (b_pfx b)) eqn:Ht;
    try reflexivity;
    (destruct (b_lang b) as [[|x r]|]; cbn [lang_ok] in Hl; [cbn in Hl; discriminate| |]; reflexivity).
Qed.

Lemma model_base_set_lock b p lk :
  set_lock (model_base b) p lk = (model_base (fst (set_lock b p lk)), snd (set_lock b p lk)).
Proof.
  unfold set_lock. cbn [model_base b_seal b_pfx b_sid b_lang b_lock].
  destruct (b_seal b); [reflexivity|]. destruct (p =? 0); [reflexivity|]. destruct lk; reflexivity.
Qed.
Lemma set_lock_ctx b p lk : b_sid (fst (set_lock b p lk)) = b_sid b /\ b_lang (fst (set_lock b p lk)) = b_lang b
  /\ b_pfx (fst (set_lock b p lk)) = b_pfx b.
Proof.
  unfold set_lock. destruct (b_seal b); [auto|]. destruct (p =? 0); [auto|]. destruct lk; auto.
Qed.

(* ---- mem / pg refine the reference map ------------------------------------------------------------ *)
Definition kv_rel (enc : bytes -> bytes) (st : dbstate) (sp : spec) : Prop :=
  d_base st = model_base (sp_base sp) /\ ctx_ok (sp_base sp)
  /\ forall a, wf_akey a = true -> alookup (enc (enc_a a)) (d_store st) = slookup a (sp_map sp).

Lemma check_put_model b : check_put (model_base b) = check_put b.
Proof. reflexivity. Qed.

Lemma kv_put_refines enc st sp k v :
  (forall x y, enc x = enc y -> x = y) ->
  kv_rel enc st sp -> key_ok (sp_base sp) k = true ->
  kv_rel enc (fst (kv_put enc st k v)) (fst (spec_put sp k v))
  /\ snd (kv_put enc st k v) = snd (spec_put sp k v).
Proof.
  intros Hinj [Hb [Hc Hm]] Hk. unfold kv_put, spec_put. rewrite Hb, check_put_model.
  destruct (check_put (sp_base sp)) eqn:Hcp; cbn [negb].
  2:{ cbn [fst snd]. split; [|reflexivity]. split; [exact Hb|]. split; [exact Hc|exact Hm]. }
  destruct (b_pfx (sp_base sp) =? DATATYPE_UNKNOWN) eqn:Hp.
  - apply N.eqb_eq in Hp. unfold to_key. cbn [model_base b_pfx]. rewrite Hp. cbn [N.eqb fst snd].
    change (DATATYPE_UNKNOWN =? DATATYPE_UNKNOWN) with true. cbn [fst snd].
    split; [|reflexivity]. split; [exact Hb|]. split; [exact Hc|exact Hm].
  - apply N.eqb_neq in Hp. rewrite (to_key_model _ k Hp Hc). cbn [lk_translation lk_default fst snd].
    destruct (ctx_akey_wf _ _ Hc Hk) as [Wd Wt].
    set (a0 := ctx_akey (sp_base sp) (eff_lang (sp_base sp)) k).
    assert (Wa0 : wf_akey a0 = true).
    { subst a0. destruct (eff_lang (sp_base sp)) as [c|] eqn:El; [apply Wt; reflexivity|exact Wd]. }
    assert (Hsk : match option_map (fun c => enc_a (ctx_akey (sp_base sp) (Some c) k)) (eff_lang (sp_base sp)) with
                  | Some t => t | None => enc_a (ctx_akey (sp_base sp) None k) end = enc_a a0).
    { subst a0. destruct (eff_lang (sp_base sp)); reflexivity. }
    rewrite Hsk. split; [|reflexivity].
    split; [cbn [with_store d_base sp_base]; exact Hb|]. split; [exact Hc|].
    intros a Wa. cbn [with_store d_store sp_map slookup].
    destruct (akey_eqb a a0) eqn:Ea.
    + apply akey_eqb_eq in Ea. subst a. apply db_alookup_aset_same.
    + rewrite db_alookup_aset_other; [apply Hm; exact Wa|].
      intros E. apply Hinj in E. apply enc_a_injective in E; auto. subst a. rewrite akey_eqb_refl in Ea. discriminate.
Qed.

Lemma kv_get_refines enc st sp k :
  kv_rel enc st sp -> key_ok (sp_base sp) k = true ->
  kv_get enc st k = spec_get sp k.
Proof.
  intros [Hb [Hc Hm]] Hk. unfold kv_get, spec_get. rewrite Hb.
  destruct (b_pfx (sp_base sp) =? DATATYPE_UNKNOWN) eqn:Hp.
  - apply N.eqb_eq in Hp. unfold to_key. cbn [model_base b_pfx]. rewrite Hp. reflexivity.
  - apply N.eqb_neq in Hp. rewrite (to_key_model _ k Hp Hc). cbn [lk_translation lk_default].
    destruct (ctx_akey_wf _ _ Hc Hk) as [Wd Wt].
    rewrite (Hm _ Wd).
    destruct (eff_lang (sp_base sp)) as [c|] eqn:El; cbn [option_map].
    + rewrite (Hm _ (Wt c eq_refl)). reflexivity.
    + reflexivity.
Qed.

Definition be_enc (be : backend) : bytes -> bytes :=
  match be with BMem => hex_enc | _ => fun x => x end.
Definition is_kv (be : backend) : bool := match be with BFs _ => false | _ => true end.

Lemma kv_step_refines be st sp o :
  is_kv be = true -> (forall x y, be_enc be x = be_enc be y -> x = y) ->
  kv_rel (be_enc be) st sp -> op_ok (sp_base sp) o = true ->
  kv_rel (be_enc be) (fst (db_step be st o)) (fst (spec_step sp o))
  /\ snd (db_step be st o) = snd (spec_step sp o).
Proof.
  intros Hkv Hinj R Hok. pose proof R as [Hb [[Hd Hl] Hm]].
  destruct o as [k v|k|p|s|l|p lk|k|k|k]; cbn [op_ok] in Hok; try discriminate.
  - (* Put *)
    assert (E : db_step be st (OPut k v) = kv_put (be_enc be) st k v) by (destruct be; [reflexivity|reflexivity|discriminate]).
    rewrite E. cbn [spec_step]. apply kv_put_refines; assumption.
  - (* Get *)
    assert (E : db_step be st (OGet k) = (st, kv_get (be_enc be) st k)) by (destruct be; [reflexivity|reflexivity|discriminate]).
    rewrite E. cbn [spec_step fst snd]. split; [exact R|]. apply kv_get_refines; assumption.
  - cbn [db_step spec_step fst snd]. split; [|reflexivity].
    split; [cbn [with_base d_base sp_base]; rewrite Hb; reflexivity|]. split; [split; assumption|exact Hm].
  - cbn [db_step spec_step fst snd]. split; [|reflexivity].
    split; [cbn [with_base d_base sp_base]; rewrite Hb; reflexivity|]. split; [split; [exact Hok|exact Hl]|exact Hm].
  - cbn [db_step spec_step fst snd]. split; [|reflexivity].
    split; [cbn [with_base d_base sp_base]; rewrite Hb; reflexivity|].
    split; [|exact Hm]. split; [exact Hd|]. cbn [set_language b_lang].
    destruct l as [c|]; cbn [lang_ok]; [apply N.eqb_eq; exact Hok|exact I].
  - cbn [db_step spec_step]. rewrite Hb, model_base_set_lock.
    destruct (set_lock (sp_base sp) p lk) as [b' ok] eqn:Esl. cbn [fst snd].
    split; [|reflexivity]. split; [reflexivity|].
    pose proof (set_lock_ctx (sp_base sp) p lk) as [H1 [H2 _]]. rewrite Esl in H1, H2. cbn [fst] in H1, H2.
    split; [|exact Hm]. cbn [sp_base]. split; [rewrite H1; exact Hd|rewrite H2; exact Hl].
Qed.

Lemma kv_run_refines be : is_kv be = true -> (forall x y, be_enc be x = be_enc be y -> x = y) ->
  forall ops st sp, kv_rel (be_enc be) st sp -> hist_ok sp ops = true ->
  snd (db_run be st ops) = snd (spec_run sp ops).
Proof.
  intros Hkv Hinj. induction ops as [|o ops IH]; intros st sp R Hok; [reflexivity|].
  cbn [hist_ok] in Hok. apply andb_true_iff in Hok as [Ho Hr].
  destruct (kv_step_refines be st sp o Hkv Hinj R Ho) as [R' Er].
  cbn [db_run spec_run].
  destruct (db_step be st o) as [st' x] eqn:E1. destruct (spec_step sp o) as [sp' x'] eqn:E2.
  cbn [fst snd] in *. subst x'.
  specialize (IH st' sp' R' Hr).
  destruct (db_run be st' ops) as [st2 xs]. destruct (spec_run sp' ops) as [sp2 xs']. cbn [snd] in *.
  subst. reflexivity.
Qed.

Lemma kv_rel_init enc dir : kv_rel enc (db_init dir) spec_init.
Proof.
  split; [reflexivity|]. split; [split; [reflexivity|exact I]|]. intros a _. reflexivity.
Qed.

(* hex.EncodeToString is injective *)
Lemma hexdigit_inj a b : hexdigit a = hexdigit b -> a = b.
Proof. unfold hexdigit. destruct (a <? 10) eqn:Ea; destruct (b <? 10) eqn:Eb; lia. Qed.
Lemma hex_enc_inj x : forall y, hex_enc x = hex_enc y -> x = y.
Proof.
  induction x as [|a x IH]; intros [|b y] E; cbn [hex_enc] in E; try discriminate; [reflexivity|].
  injection E as E1 E2 E3. apply hexdigit_inj in E1, E2. f_equal; [|apply IH; exact E3].
  pose proof (N.div_mod a 16). pose proof (N.div_mod b 16). lia.
Qed.

Theorem mem_refines_spec_lemma : forall dir ops,
  hist_ok spec_init ops = true -> db_results BMem dir ops = spec_results ops.
Proof.
  intros dir ops H. unfold db_results, spec_results.
  apply (kv_run_refines BMem eq_refl); [|apply kv_rel_init|exact H].
  intros x y E. apply hex_enc_inj. exact E.
Qed.
Theorem pg_refines_spec_lemma : forall dir ops,
  hist_ok spec_init ops = true -> db_results BPg dir ops = spec_results ops.
Proof.
  intros dir ops H. unfold db_results, spec_results.
  apply (kv_run_refines BPg eq_refl); [|apply kv_rel_init|exact H].
  intros x y E. exact E.
Qed.

(* ---- locks ------------------------------------------------------------------------------------------- *)
Theorem locked_put_is_noop_lemma : forall be st k v,
  check_put (d_base st) = false -> db_step be st (OPut k v) = (st, DRefused).
Proof.
  intros be st k v H. destruct be as [| |bin]; cbn [db_step]; unfold kv_put, fs_put; rewrite H; reflexivity.
Qed.

(* the four read-only types are locked in a fresh store and stay locked until SetLock(typ,false) *)
Lemma fresh_readonly_locked : forall t,
  In t [DATATYPE_BIN; DATATYPE_MENU; DATATYPE_TEMPLATE; DATATYPE_STATICLOAD] ->
  check_put (set_prefix new_base t) = false.
Proof. intros t [<-|[<-|[<-|[<-|[]]]]]; reflexivity. Qed.

Lemma land_lor_safe l : N.land (N.lor l safe_lock) safe_lock = safe_lock.
Proof.
  apply N.bits_inj. intros n. rewrite N.land_spec, N.lor_spec.
  destruct (N.testbit safe_lock n); [rewrite orb_true_r|rewrite andb_false_r]; reflexivity.
Qed.

Lemma seal_establishes_safe b lk :
  b_seal b = false -> snd (set_lock b 0 lk) = true
  /\ b_seal (fst (set_lock b 0 lk)) = true /\ safe (fst (set_lock b 0 lk)) = true.
Proof.
  intros H. unfold set_lock. rewrite H. cbn [N.eqb fst snd b_seal]. repeat split.
  unfold safe. cbn [b_lock]. rewrite land_lor_safe. apply N.eqb_refl.
Qed.

Lemma sealed_step be st o :
  b_seal (d_base st) = true ->
  b_seal (d_base (fst (db_step be st o))) = true /\ b_lock (d_base (fst (db_step be st o))) = b_lock (d_base st)
  /\ (forall p lk, o = OSetLock p lk -> snd (db_step be st o) = DErr EGen).
Proof.
  intros H. destruct o as [k v|k|p|s|l|p lk|k|k|k]; cbn [db_step fst snd]; try (repeat split; auto; discriminate).
  - assert (E : d_base (fst (match be with BMem => kv_put hex_enc st k v | BPg => kv_put (fun x => x) st k v
                                          | BFs bin => fs_put bin st k v end)) = d_base st).
    { destruct be as [| |bin]; unfold kv_put, fs_put, fs_write.
      - destruct (negb (check_put (d_base st))); [reflexivity|]. destruct (to_key (d_base st) k); reflexivity.
      - destruct (negb (check_put (d_base st))); [reflexivity|]. destruct (to_key (d_base st) k); reflexivity.
      - destruct (negb (check_put (d_base st))); [reflexivity|].
        destruct (fs_to_key bin (d_base st) k); try reflexivity.
        repeat match goal with |- context [if ?c then _ else _] => destruct c end; reflexivity. }
    rewrite E. repeat split; auto. discriminate.
  - unfold set_lock. rewrite H. cbn [fst snd with_base d_base]. repeat split; auto.
  - destruct be as [| |bin]; cbn [fst snd with_base d_base set_language b_seal b_lock]; repeat split; auto; discriminate.
Qed.

Theorem seal_is_final_lemma : forall be ops st,
  b_seal (d_base st) = true ->
  b_seal (d_base (fst (db_run be st ops))) = true
  /\ b_lock (d_base (fst (db_run be st ops))) = b_lock (d_base st).
Proof.
  intros be. induction ops as [|o ops IH]; intros st H; [cbn; auto|].
  cbn [db_run]. destruct (sealed_step be st o H) as [H1 [H2 _]].
  destruct (db_step be st o) as [st' x]. cbn [fst] in H1, H2.
  specialize (IH st' H1). destruct (db_run be st' ops) as [st2 xs]. cbn [fst] in *.
  destruct IH as [I1 I2]. split; [exact I1|congruence].
Qed.

Lemma sealed_setlock_fails be st p lk :
  b_seal (d_base st) = true -> snd (db_step be st (OSetLock p lk)) = DErr EGen.
Proof. intros H. destruct (sealed_step be st (OSetLock p lk) H) as [_ [_ H3]]. apply (H3 p lk). reflexivity. Qed.

(* ---- non-interference: a Put never changes a Get under a different (type, session, key) ----------- *)
Definition ctx_triple (b : base) (k : bytes) : N * option bytes * bytes :=
  (b_pfx b, if sessioned (b_pfx b) then Some (b_sid b) else None, k).

Lemma spec_run_app sp h1 h2 :
  spec_run sp (h1 ++ h2)
  = (fst (spec_run (fst (spec_run sp h1)) h2), snd (spec_run sp h1) ++ snd (spec_run (fst (spec_run sp h1)) h2)).
Proof.
  revert sp. induction h1 as [|o h1 IH]; intros sp; cbn [app spec_run].
  - cbn [fst snd app]. destruct (spec_run sp h2); reflexivity.
  - destruct (spec_step sp o) as [sp' x]. rewrite IH.
    destruct (spec_run sp' h1) as [sp1 r1]. cbn [fst snd].
    destruct (spec_run sp1 h2) as [sp2 r2]. reflexivity.
Qed.

Lemma spec_put_base sp k v : sp_base (fst (spec_put sp k v)) = sp_base sp.
Proof.
  unfold spec_put. destruct (negb (check_put (sp_base sp))); [reflexivity|].
  destruct (b_pfx (sp_base sp) =? DATATYPE_UNKNOWN); reflexivity.
Qed.
Lemma spec_step_base sp sp' o : sp_base sp = sp_base sp' ->
  sp_base (fst (spec_step sp o)) = sp_base (fst (spec_step sp' o)).
Proof.
  intros H. destruct o as [k v|k|p|s|l|p lk|k|k|k]; cbn [spec_step fst sp_base]; try (rewrite H; reflexivity); try exact H.
  - rewrite !spec_put_base. exact H.
  - rewrite H. destruct (set_lock (sp_base sp') p lk). reflexivity.
Qed.
Lemma hist_ok_base ops : forall sp sp', sp_base sp = sp_base sp' -> hist_ok sp ops = hist_ok sp' ops.
Proof.
  induction ops as [|o ops IH]; intros sp sp' H; [reflexivity|]. cbn [hist_ok]. rewrite H.
  rewrite (IH _ _ (spec_step_base sp sp' o H)). reflexivity.
Qed.
Lemma hist_ok_app h1 : forall sp h2,
  hist_ok sp (h1 ++ h2) = hist_ok sp h1 && hist_ok (fst (spec_run sp h1)) h2.
Proof.
  induction h1 as [|o h1 IH]; intros sp h2; cbn [app hist_ok spec_run]; [reflexivity|].
  rewrite IH. destruct (spec_step sp o) as [sp' x]. cbn [fst]. destruct (spec_run sp' h1). cbn [fst].
  rewrite andb_assoc. reflexivity.
Qed.

Lemma slookup_app a m2 m : slookup a (m2 ++ m) = match slookup a m2 with Some v => Some v | None => slookup a m end.
Proof.
  induction m2 as [|[a' v'] m2 IH]; cbn [app slookup]; [reflexivity|].
  destruct (akey_eqb a a'); [reflexivity|exact IH].
Qed.

(* two reference states that differ by at most one entry under a0 *)
Definition differ_at (a0 : akey) (sp sp' : spec) : Prop :=
  sp_base sp = sp_base sp' /\ exists m2 ex m1,
    (ex = [] \/ exists v, ex = [(a0, v)]) /\ sp_map sp = m2 ++ ex ++ m1 /\ sp_map sp' = m2 ++ m1.

Lemma differ_lookup a0 sp sp' a : differ_at a0 sp sp' -> a <> a0 -> slookup a (sp_map sp) = slookup a (sp_map sp').
Proof.
  intros [_ [m2 [ex [m1 [Hex [E1 E2]]]]]] Hne. rewrite E1, E2, !slookup_app.
  destruct (slookup a m2); [reflexivity|].
  destruct Hex as [->|[v ->]]; [reflexivity|]. cbn [slookup]. rewrite (akey_eqb_neq _ _ Hne). reflexivity.
Qed.

Lemma differ_step a0 sp sp' o : differ_at a0 sp sp' -> differ_at a0 (fst (spec_step sp o)) (fst (spec_step sp' o)).
Proof.
  intros D. pose proof D as [Hb [m2 [ex [m1 [Hex [E1 E2]]]]]].
  destruct o as [k v|k|p|s|l|p lk|k|k|k]; cbn [spec_step fst]; try exact D;
    try (split; [cbn [sp_base]; rewrite Hb; reflexivity|exists m2, ex, m1; auto]).
  - unfold spec_put. rewrite Hb.
    destruct (negb (check_put (sp_base sp'))); [exact D|].
    destruct (b_pfx (sp_base sp') =? DATATYPE_UNKNOWN); [exact D|]. cbn [fst].
    split; [reflexivity|]. cbn [sp_map].
    exists ((ctx_akey (sp_base sp') (eff_lang (sp_base sp')) k, v) :: m2), ex, m1.
    split; [exact Hex|]. rewrite E1, E2. split; reflexivity.
  - rewrite Hb. destruct (set_lock (sp_base sp') p lk) as [b' ok]. cbn [fst].
    split; [reflexivity|]. exists m2, ex, m1. auto.
Qed.
Lemma differ_run a0 ops : forall sp sp', differ_at a0 sp sp' ->
  differ_at a0 (fst (spec_run sp ops)) (fst (spec_run sp' ops)).
Proof.
  induction ops as [|o ops IH]; intros sp sp' D; [exact D|]. cbn [spec_run].
  pose proof (differ_step a0 sp sp' o D) as D'.
  destruct (spec_step sp o) as [s1 x1]. destruct (spec_step sp' o) as [s1' x1']. cbn [fst] in D'.
  specialize (IH _ _ D'). destruct (spec_run s1 ops). destruct (spec_run s1' ops). exact IH.
Qed.

Lemma differ_get a0 sp sp' k :
  differ_at a0 sp sp' ->
  (a_typ a0, a_sess a0, a_key a0) <> ctx_triple (sp_base sp') k ->
  spec_get sp k = spec_get sp' k.
Proof.
  intros D Hne. pose proof D as [Hb _]. unfold spec_get. rewrite Hb.
  destruct (b_pfx (sp_base sp') =? DATATYPE_UNKNOWN); [reflexivity|].
  assert (Hl : forall l, slookup (ctx_akey (sp_base sp') l k) (sp_map sp) = slookup (ctx_akey (sp_base sp') l k) (sp_map sp')).
  { intros l. apply (differ_lookup a0); [exact D|]. intros E. apply Hne. rewrite <- E. reflexivity. }
  rewrite (Hl None). destruct (eff_lang (sp_base sp')) as [c|]; [rewrite (Hl (Some c))|]; reflexivity.
Qed.

Lemma last_snoc {A} (l : list A) x d : last (l ++ [x]) d = x.
Proof. apply last_last. Qed.

Theorem spec_noninterference : forall h1 k v h2 k',
  let b1 := sp_base (fst (spec_run spec_init h1)) in
  let b2 := sp_base (fst (spec_run spec_init (h1 ++ h2))) in
  ctx_triple b1 k <> ctx_triple b2 k' ->
  last (spec_results (h1 ++ OPut k v :: h2 ++ [OGet k'])) DOk
  = last (spec_results (h1 ++ h2 ++ [OGet k'])) DOk.
Proof.
  intros h1 k v h2 k' b1 b2 Hne. unfold spec_results.
  replace (h1 ++ OPut k v :: h2 ++ [OGet k']) with ((h1 ++ OPut k v :: h2) ++ [OGet k'])
    by (rewrite <- app_assoc; reflexivity).
  rewrite (app_assoc h1 h2). rewrite !(spec_run_app spec_init _ [OGet k']). cbn [snd spec_run spec_step].
  rewrite !last_snoc.
  (* the two states before the final Get differ at a0 only *)
  set (sp1 := fst (spec_run spec_init h1)).
  set (a0 := ctx_akey (sp_base sp1) (eff_lang (sp_base sp1)) k).
  assert (D : differ_at a0 (fst (spec_run spec_init (h1 ++ OPut k v :: h2))) (fst (spec_run spec_init (h1 ++ h2)))).
  { rewrite !spec_run_app. cbn [fst]. fold sp1. cbn [spec_run spec_step].
    destruct (spec_put sp1 k v) as [sp1' x] eqn:Ep.
    assert (D1 : differ_at a0 sp1' sp1).
    { unfold spec_put in Ep. destruct (negb (check_put (sp_base sp1))).
      - injection Ep as <- _. split; [reflexivity|]. exists [], [], (sp_map sp1). auto.
      - destruct (b_pfx (sp_base sp1) =? DATATYPE_UNKNOWN).
        + injection Ep as <- _. split; [reflexivity|]. exists [], [], (sp_map sp1). auto.
        + injection Ep as <- _. split; [reflexivity|]. exists [], [(a0, v)], (sp_map sp1).
          split; [right; exists v; reflexivity|]. split; reflexivity. }
    pose proof (differ_run a0 h2 _ _ D1) as D2.
    destruct (spec_run sp1' h2). cbn [fst] in *. exact D2. }
  apply (differ_get a0); [exact D|].
  subst a0. unfold ctx_akey. cbn [a_typ a_sess a_key]. exact Hne.
Qed.

Theorem kv_noninterference_lemma : forall be dir h1 k v h2 k',
  is_kv be = true ->
  hist_ok spec_init (h1 ++ OPut k v :: h2 ++ [OGet k']) = true ->
  let b1 := sp_base (fst (spec_run spec_init h1)) in
  let b2 := sp_base (fst (spec_run spec_init (h1 ++ h2))) in
  ctx_triple b1 k <> ctx_triple b2 k' ->
  last (db_results be dir (h1 ++ OPut k v :: h2 ++ [OGet k'])) DOk
  = last (db_results be dir (h1 ++ h2 ++ [OGet k'])) DOk.
Proof.
  intros be dir h1 k v h2 k' Hkv Hok b1 b2 Hne.
  assert (Hok' : hist_ok spec_init (h1 ++ h2 ++ [OGet k']) = true).
  { rewrite hist_ok_app in Hok. rewrite hist_ok_app. apply andb_true_iff in Hok as [H1 H2]. rewrite H1. cbn [andb].
    cbn [hist_ok] in H2. apply andb_true_iff in H2 as [_ H2].
    rewrite <- H2. apply hist_ok_base. cbn [spec_step]. rewrite spec_put_base. reflexivity. }
  destruct be as [| |bin]; [| |discriminate].
  - rewrite !mem_refines_spec_lemma by assumption. apply spec_noninterference. exact Hne.
  - rewrite !pg_refines_spec_lemma by assumption. apply spec_noninterference. exact Hne.
Qed.

(* ---- fs: paths of plain names ------------------------------------------------------------------------ *)
Lemma split_on_nosep sep l : has_byte sep l = false -> split_on sep l = [l].
Proof.
  induction l as [|x l IH]; intros H; [reflexivity|].
  rewrite has_byte_cons in H. apply orb_false_iff in H as [H1 H2].
  cbn [split_on]. rewrite N.eqb_sym, H1. rewrite (IH H2). reflexivity.
Qed.

Lemma name_plain_spec n : name_plain n = true ->
  n <> [] /\ has_byte ch_slash n = false /\ has_byte 0 n = false
  /\ bytes_eqb n [ch_dot] = false /\ bytes_eqb n [ch_dot; ch_dot] = false /\ len n <= 255.
Proof.
  unfold name_plain, slash_free. intros H.
  repeat (apply andb_true_iff in H as [H ?]).
  repeat match goal with H : negb _ = true |- _ => apply negb_true_iff in H end.
  repeat split; auto.
  - destruct n; [discriminate|congruence].
  - apply N.leb_le. assumption.
Qed.

Lemma clean_join_plain dir n : name_plain n = true -> clean_join dir n = dir ++ [n].
Proof.
  intros H. apply name_plain_spec in H as [Hn [Hs [_ [Hd [Hdd _]]]]].
  unfold clean_join. rewrite (split_on_nosep _ _ Hs). cbn [fold_left]. unfold clean_step.
  destruct n as [|x n]; [congruence|]. cbn [is_nil orb]. rewrite Hd, Hdd. cbn [rev].
  rewrite rev_involutive. reflexivity.
Qed.

Definition dir_pref (d : list bytes) : bytes := List.concat (map (fun c => c ++ [ch_slash]) d).
Lemma path_str_snoc d n : path_str (d ++ [n]) = dir_pref d ++ n.
Proof.
  induction d as [|c d IH]; [reflexivity|]. destruct d as [|c' d'].
  - unfold path_str, dir_pref. cbn [app join_with map List.concat]. rewrite app_nil_r, <- app_assoc. reflexivity.
  - change (path_str ((c :: c' :: d') ++ [n])) with (c ++ [ch_slash] ++ path_str ((c' :: d') ++ [n])).
    rewrite IH. unfold dir_pref. cbn [map List.concat]. rewrite <- !app_assoc. reflexivity.
Qed.
Lemma path_str_inj d n n' : path_str (d ++ [n]) = path_str (d ++ [n']) -> n = n'.
Proof. rewrite !path_str_snoc. apply app_inv_head. Qed.

Lemma comps_prefix_app l r : comps_prefix l (l ++ r) = true.
Proof. induction l as [|x l IH]; [reflexivity|]. cbn [app comps_prefix]. rewrite bytes_eqb_refl. exact IH. Qed.
Lemma comps_prefix_snoc d n : comps_prefix (d ++ [n]) d = false.
Proof. induction d as [|x d IH]; [reflexivity|]. cbn [app comps_prefix]. rewrite bytes_eqb_refl. exact IH. Qed.

Definition lookup_open (st : dbstate) (p : bytes) : fopen :=
  match alookup p (d_store st) with Some v => FOk v | None => FNoEnt end.

Lemma fs_walk_child st n : len n <= 255 -> forall rest pre,
  d_dir st = pre ++ rest -> forallb (fun c => len c <=? 255) rest = true ->
  fs_walk st pre (rest ++ [n]) = lookup_open st (path_str (d_dir st ++ [n])).
Proof.
  intros Hn. induction rest as [|c rest IH]; intros pre Hd Hl.
  - cbn [app fs_walk]. replace (255 <? len n) with false by (symmetry; apply N.ltb_ge; exact Hn).
    rewrite app_nil_r in Hd. unfold is_dir. rewrite Hd, comps_prefix_snoc. reflexivity.
  - cbn [forallb] in Hl. apply andb_true_iff in Hl as [Hc Hl]. apply N.leb_le in Hc.
    cbn [app fs_walk]. replace (255 <? len c) with false by (symmetry; apply N.ltb_ge; exact Hc).
    destruct (rest ++ [n]) as [|y ys] eqn:E; [destruct rest; discriminate|]. rewrite <- E. rewrite <- E in IH.
    assert (Hdir : is_dir st (pre ++ [c]) = true).
    { unfold is_dir. rewrite Hd. replace (pre ++ c :: rest) with ((pre ++ [c]) ++ rest) by (rewrite <- app_assoc; reflexivity).
      apply comps_prefix_app. }
    rewrite Hdir. apply IH; [|exact Hl]. rewrite Hd, <- app_assoc. reflexivity.
Qed.

Lemma dir_ok_spec dir : dir_ok dir = true ->
  forallb (fun c => len c <=? 255) dir = true /\ has_nul dir = false.
Proof.
  unfold dir_ok, has_nul. induction dir as [|c d IH]; intros H; [auto|].
  cbn [forallb existsb] in *. apply andb_true_iff in H as [H1 H2]. apply andb_true_iff in H1 as [Ha Hb].
  destruct (IH H2) as [I1 I2]. rewrite Ha, I1, I2. apply negb_true_iff in Hb. rewrite Hb. auto.
Qed.

Lemma fs_open_child st n : dir_ok (d_dir st) = true -> name_plain n = true ->
  fs_open st (d_dir st ++ [n]) = lookup_open st (path_str (d_dir st ++ [n])).
Proof.
  intros Hd Hn. apply dir_ok_spec in Hd as [Hl Hz]. apply name_plain_spec in Hn as [_ [_ [Hz' [_ [_ Hlen]]]]].
  unfold fs_open, has_nul. rewrite existsb_app. fold (has_nul (d_dir st)). rewrite Hz. cbn [existsb orb].
  rewrite Hz'. cbn [orb]. apply (fs_walk_child st n Hlen (d_dir st) []); [reflexivity|exact Hl].
Qed.

Lemma removelast_snoc {A} (l : list A) x : removelast (l ++ [x]) = l.
Proof. apply removelast_last. Qed.

Lemma fs_write_child st n v : dir_ok (d_dir st) = true -> name_plain n = true ->
  fs_write st (d_dir st ++ [n]) v
  = (with_store st (aset (path_str (d_dir st ++ [n])) v (d_store st)), DOk).
Proof.
  intros Hd Hn. apply dir_ok_spec in Hd as [Hl Hz]. apply name_plain_spec in Hn as [_ [_ [Hz' [_ [_ Hlen]]]]].
  unfold fs_write, has_nul. rewrite existsb_app. fold (has_nul (d_dir st)). rewrite Hz. cbn [existsb orb]. rewrite Hz'.
  cbn [orb]. rewrite removelast_snoc. unfold is_dir at 1. replace (comps_prefix (d_dir st) (d_dir st)) with true
    by (symmetry; rewrite <- (app_nil_r (d_dir st)) at 2; apply comps_prefix_app).
  cbn [negb]. unfold is_dir. rewrite comps_prefix_snoc.
  replace (is_nil (d_dir st ++ [n])) with false by (destruct (d_dir st); reflexivity). cbn [orb].
  rewrite last_last. replace (255 <? len n) with false by (symmetry; apply N.ltb_ge; exact Hlen). reflexivity.
Qed.

(* ---- base64 (std alphabet, padded) is injective on bytes --------------------------------------------- *)
Ltac Zify.zify_post_hook ::= Z.div_mod_to_equations.

Lemma b64c_inj a b : a < 64 -> b < 64 -> b64c a = b64c b -> a = b.
Proof.
  unfold b64c. intros Ha Hb.
  destruct (a <? 26) eqn:A1; destruct (b <? 26) eqn:B1; try lia;
  destruct (a <? 52) eqn:A2; destruct (b <? 52) eqn:B2; try lia;
  destruct (a <? 62) eqn:A3; destruct (b <? 62) eqn:B3; try lia;
  destruct (a =? 62) eqn:A4; destruct (b =? 62) eqn:B4; lia.
Qed.
Lemma b64c_not_pad a : a < 64 -> b64c a <> ch_pad.
Proof.
  unfold b64c, ch_pad. intros Ha.
  destruct (a <? 26) eqn:A1; [lia|]. destruct (a <? 52) eqn:A2; [lia|].
  destruct (a <? 62) eqn:A3; [lia|]. destruct (a =? 62); lia.
Qed.

Lemma list_ind3 {A} (P : list A -> Prop) :
  P [] -> (forall a, P [a]) -> (forall a b, P [a; b]) ->
  (forall a b c r, P r -> P (a :: b :: c :: r)) -> forall l, P l.
Proof.
  intros H0 H1 H2 H3. fix IH 1. intros [|a [|b [|c r]]]; [exact H0|apply H1|apply H2|apply H3; apply IH].
Qed.

Lemma bytes_ok_cons a r : bytes_ok (a :: r) = true -> a < 256 /\ bytes_ok r = true.
Proof. unfold bytes_ok. cbn [forallb]. intros H. apply andb_true_iff in H as [H1 H2]. split; [lia|exact H2]. Qed.

Lemma b64_enc_inj : forall x y, bytes_ok x = true -> bytes_ok y = true -> b64_enc x = b64_enc y -> x = y.
Proof.
  induction x as [|a|a b|a b c r IH] using list_ind3; intros [|a' [|b' [|c' r']]] Hx Hy E;
    cbn [b64_enc] in E; try discriminate; try reflexivity;
    repeat match goal with H : bytes_ok (_ :: _) = true |- _ => apply bytes_ok_cons in H as [? H] end.
  - injection E as E1 E2. apply b64c_inj in E1, E2; try lia. f_equal. lia.
  - exfalso. injection E as _ _ E3. symmetry in E3. apply b64c_not_pad in E3; [exact E3|lia].
  - exfalso. injection E as _ _ E3 _. symmetry in E3. apply b64c_not_pad in E3; [exact E3|lia].
  - exfalso. injection E as _ _ E3. apply b64c_not_pad in E3; [exact E3|lia].
  - injection E as E1 E2 E3. apply b64c_inj in E1, E2, E3; try lia. f_equal; [lia|]. f_equal. lia.
  - exfalso. injection E as _ _ _ E4 _. symmetry in E4. apply b64c_not_pad in E4; [exact E4|lia].
  - exfalso. injection E as _ _ E3 _. apply b64c_not_pad in E3; [exact E3|lia].
  - exfalso. injection E as _ _ _ E4 _. apply b64c_not_pad in E4; [exact E4|lia].
  - injection E as E1 E2 E3 E4 E5. apply b64c_inj in E1, E2, E3, E4; try lia.
    f_equal; [lia|]. f_equal; [lia|]. f_equal; [lia|]. apply IH; assumption.
Qed.

(* ---- fs refines the reference map (plain names, no legacy clash) -------------------------------------- *)
Definition fs_a (bin : bool) (a : akey) : akey :=
  mkAkey (a_typ a) (a_sess a) (a_lang a) (if bin then b64_enc (a_key a) else a_key a).
Definition nm (bin : bool) (a : akey) : bytes := fs_name (enc_a (fs_a bin a)).
Definition fs_wf (bin : bool) (a : akey) : bool :=
  wf_akey (fs_a bin a) && (if bin then bytes_ok (a_key a) else true)
  && documented_type (a_typ a) && name_plain (nm bin a).

Lemma documented_cases t : documented_type t = true ->
  t = 1 \/ t = 2 \/ t = 4 \/ t = 8 \/ t = 16 \/ t = 32.
Proof.
  unfold documented_type, DATATYPE_BIN, DATATYPE_MENU, DATATYPE_TEMPLATE, DATATYPE_STATICLOAD,
    DATATYPE_STATE, DATATYPE_USERDATA. intros H.
  repeat (apply orb_true_iff in H as [H|H]); apply N.eqb_eq in H; auto 10.
Qed.

Lemma nm_unfold bin a : nm bin a = w8 (a_typ a + fs_type_offset) :: a_sk (fs_a bin a) ++ lang_suffix (a_typ a) (a_lang a).
Proof. reflexivity. Qed.

Lemma nm_hd bin a : documented_type (a_typ a) = true -> type_char (hd 0 (nm bin a)) = true.
Proof.
  intros H. rewrite nm_unfold. cbn [hd]. apply documented_cases in H.
  destruct H as [H|[H|[H|[H|[H|H]]]]]; rewrite H; reflexivity.
Qed.

Lemma nm_inj bin a a' : fs_wf bin a = true -> fs_wf bin a' = true -> nm bin a = nm bin a' -> a = a'.
Proof.
  unfold fs_wf. intros W W' E.
  apply andb_true_iff in W as [W Wp]. apply andb_true_iff in W as [W Wdoc]. apply andb_true_iff in W as [Wa Wb].
  apply andb_true_iff in W' as [W' Wp']. apply andb_true_iff in W' as [W' Wdoc']. apply andb_true_iff in W' as [Wa' Wb'].
  rewrite !nm_unfold in E. injection E as Et E.
  assert (Ht : a_typ a = a_typ a').
  { apply documented_cases in Wdoc, Wdoc'. unfold w8, fs_type_offset in Et.
    destruct Wdoc as [H0|[H0|[H0|[H0|[H0|H0]]]]]; destruct Wdoc' as [H3|[H3|[H3|[H3|[H3|H3]]]]];
      rewrite H0, H3 in *; try reflexivity; vm_compute in Et; discriminate. }
  assert (Ea : enc_a (fs_a bin a) = enc_a (fs_a bin a')).
  { rewrite !enc_a_unfold. cbn [fs_a a_typ a_lang]. rewrite <- Ht. f_equal. rewrite Ht at 2. exact E. }
  apply enc_a_injective in Ea; [|assumption|assumption].
  destruct a as [t s l k], a' as [t' s' l' k']. unfold fs_a in Ea. cbn [a_typ a_sess a_lang a_key] in *.
  injection Ea as -> -> -> Ek. f_equal.
  destruct bin; [apply b64_enc_inj; assumption|exact Ek].
Qed.

Definition files_typed (dir : list bytes) (store : list (bytes * bytes)) : Prop :=
  forall p v, In (p, v) store -> exists n, p = path_str (dir ++ [n]) /\ type_char (hd 0 n) = true.

Definition fs_rel (bin : bool) (st : dbstate) (sp : spec) : Prop :=
  d_base st = model_base (sp_base sp) /\ dir_ok (d_dir st) = true /\ ctx_ok (sp_base sp)
  /\ (b_pfx (sp_base sp) = 0 \/ documented_type (b_pfx (sp_base sp)) = true)
  /\ (forall a, fs_wf bin a = true ->
        alookup (path_str (d_dir st ++ [nm bin a])) (d_store st) = slookup a (sp_map sp))
  /\ files_typed (d_dir st) (d_store st).

Lemma alt_absent dir store alt :
  files_typed dir store -> no_legacy_clash alt = true -> alookup (path_str (dir ++ [alt])) store = None.
Proof.
  intros Hf Hc. destruct (alookup (path_str (dir ++ [alt])) store) as [v|] eqn:E; [|reflexivity].
  exfalso. apply alookup_in_pair in E. destruct (Hf _ _ E) as [n [Hp Ht]].
  apply path_str_inj in Hp. subst n. destruct alt as [|c r]; [discriminate|].
  cbn [no_legacy_clash hd] in *. rewrite Ht in Hc. discriminate.
Qed.

Lemma fs_try_slot st prim alt r :
  dir_ok (d_dir st) = true -> files_typed (d_dir st) (d_store st) ->
  name_plain prim = true -> name_plain alt = true -> no_legacy_clash alt = true ->
  fs_try st (Some (clean_join (d_dir st) prim) :: Some (clean_join (d_dir st) alt) :: r)
  = match alookup (path_str (d_dir st ++ [prim])) (d_store st) with Some v => DVal v | None => fs_try st r end.
Proof.
  intros Hd Hf Hp Ha Hc. rewrite !clean_join_plain by assumption. cbn [fs_try].
  rewrite !fs_open_child by assumption. unfold lookup_open.
  destruct (alookup (path_str (d_dir st ++ [prim])) (d_store st)); [reflexivity|].
  rewrite (alt_absent _ _ _ Hf Hc). reflexivity.
Qed.

Lemma fs_try_none st r : fs_try st (None :: r) = fs_try st r.
Proof. reflexivity. Qed.

Lemma fs_to_key_model bin b k :
  b_pfx b <> 0 -> ctx_ok b ->
  fs_to_key bin (model_base b) k
  = Ok (mkLk (enc_a (fs_a bin (ctx_akey b None k)))
             (option_map (fun c => enc_a (fs_a bin (ctx_akey b (Some c) k))) (eff_lang b))).
Proof.
  intros Hp Hc. unfold fs_to_key. rewrite (to_key_model _ _ Hp Hc). destruct bin; reflexivity.
Qed.

(* what the fs guard of a Put/Get gives *)
Lemma fs_guard_spec (bin : bool) b k :
  b_pfx b <> 0 -> documented_type (b_pfx b) = true -> ctx_ok b ->
  ((if bin then bytes_ok k else true) && key_ok b (if bin then b64_enc k else k) && fs_key_ok bin b k) = true ->
  let ok := fun a : akey => fs_wf bin a = true /\ name_plain (nm bin a) = true
                     /\ name_plain (fs_alt_name (b_pfx b) (enc_a (fs_a bin a))) = true
                     /\ no_legacy_clash (fs_alt_name (b_pfx b) (enc_a (fs_a bin a))) = true in
  ok (ctx_akey b None k) /\ (forall c, eff_lang b = Some c -> ok (ctx_akey b (Some c) k)).
Proof.
  intros Hp Hdoc Hc H. apply andb_true_iff in H as [H Hfk]. apply andb_true_iff in H as [Hbk Hk].
  destruct (ctx_akey_wf b _ Hc Hk) as [Wd Wt].
  unfold fs_key_ok in Hfk. rewrite (fs_to_key_model bin b k Hp Hc) in Hfk.
  unfold fs_lk_ok in Hfk. cbn [lk_default lk_translation] in Hfk.
  apply andb_true_iff in Hfk as [Hdef Htr].
  assert (Wf : forall l, wf_akey (fs_a bin (ctx_akey b l k)) = wf_akey (ctx_akey b l (if bin then b64_enc k else k)))
    by (intros l; destruct bin; reflexivity).
  cbv zeta. split.
  - apply andb_true_iff in Hdef as [Hdef H3]. apply andb_true_iff in Hdef as [H1 H2].
    repeat split; try assumption. unfold fs_wf. rewrite Wf, Wd. cbn [ctx_akey a_key a_typ].
    rewrite Hbk, Hdoc. cbn [andb]. exact H1.
  - intros c Hl. rewrite Hl in Htr. cbn [option_map] in Htr.
    apply andb_true_iff in Htr as [Htr H3]. apply andb_true_iff in Htr as [H1 H2].
    repeat split; try assumption. unfold fs_wf. rewrite Wf, (Wt c Hl). cbn [ctx_akey a_key a_typ].
    rewrite Hbk, Hdoc. cbn [andb]. exact H1.
Qed.

Lemma fs_get_refines bin st sp k :
  fs_rel bin st sp -> fs_op_ok bin (sp_base sp) (OGet k) = true ->
  fs_get bin st k = spec_get sp k.
Proof.
  intros [Hb [Hd [Hc [Hp [Hm Hf]]]]] Hok. cbn [fs_op_ok] in Hok. unfold fs_get, spec_get. rewrite Hb.
  destruct (b_pfx (sp_base sp) =? DATATYPE_UNKNOWN) eqn:Ep.
  - apply N.eqb_eq in Ep. unfold fs_to_key, to_key. cbn [model_base b_pfx]. rewrite Ep. reflexivity.
  - apply N.eqb_neq in Ep. destruct Hp as [Hp|Hp]; [contradiction|].
    rewrite (fs_to_key_model bin _ k Ep Hc).
    destruct (fs_guard_spec bin _ k Ep Hp Hc Hok) as [[Wd [Pd [Ad Cd]]] Gt].
    unfold fs_candidates. cbn [lk_default lk_translation]. rewrite Hb. cbn [model_base b_pfx].
    destruct (eff_lang (sp_base sp)) as [c|] eqn:El; cbn [option_map].
    + destruct (Gt c eq_refl) as [Wt [Pt [At Ct]]].
      fold (nm bin (ctx_akey (sp_base sp) (Some c) k)). fold (nm bin (ctx_akey (sp_base sp) None k)).
      rewrite (fs_try_slot st _ _ _ Hd Hf Pt At Ct). rewrite (Hm _ Wt).
      destruct (slookup (ctx_akey (sp_base sp) (Some c) k) (sp_map sp)); [reflexivity|].
      rewrite (fs_try_slot st _ _ _ Hd Hf Pd Ad Cd). rewrite (Hm _ Wd). cbn [fs_try].
      reflexivity.
    + rewrite !fs_try_none. fold (nm bin (ctx_akey (sp_base sp) None k)).
      rewrite (fs_try_slot st _ _ _ Hd Hf Pd Ad Cd). rewrite (Hm _ Wd). cbn [fs_try]. reflexivity.
Qed.

Lemma fs_put_refines bin st sp k v :
  fs_rel bin st sp -> fs_op_ok bin (sp_base sp) (OPut k v) = true ->
  fs_rel bin (fst (fs_put bin st k v)) (fst (spec_put sp k v))
  /\ snd (fs_put bin st k v) = snd (spec_put sp k v).
Proof.
  intros R Hok. pose proof R as [Hb [Hd [Hc [Hp [Hm Hf]]]]]. cbn [fs_op_ok] in Hok.
  unfold fs_put, spec_put. rewrite Hb, check_put_model.
  destruct (check_put (sp_base sp)); cbn [negb]; [|cbn [fst snd]; auto].
  destruct (b_pfx (sp_base sp) =? DATATYPE_UNKNOWN) eqn:Ep.
  - apply N.eqb_eq in Ep. unfold fs_to_key, to_key. cbn [model_base b_pfx]. rewrite Ep.
    change (DATATYPE_UNKNOWN =? DATATYPE_UNKNOWN) with true. cbn [fst snd]. auto.
  - apply N.eqb_neq in Ep. destruct Hp as [Hp|Hp]; [contradiction|].
    rewrite (fs_to_key_model bin _ k Ep Hc). cbn [lk_default lk_translation].
    destruct (fs_guard_spec bin _ k Ep Hp Hc Hok) as [Gd Gt].
    set (a0 := ctx_akey (sp_base sp) (eff_lang (sp_base sp)) k).
    assert (G0 : fs_wf bin a0 = true /\ name_plain (nm bin a0) = true).
    { subst a0. destruct (eff_lang (sp_base sp)) as [c|] eqn:El.
      - destruct (Gt c eq_refl) as [W [P _]]. auto.
      - destruct Gd as [W [P _]]. auto. }
    destruct G0 as [W0 P0].
    assert (Hsk : fs_name (match option_map (fun c => enc_a (fs_a bin (ctx_akey (sp_base sp) (Some c) k))) (eff_lang (sp_base sp)) with
                  | Some t => t | None => enc_a (fs_a bin (ctx_akey (sp_base sp) None k)) end) = nm bin a0).
    { subst a0. destruct (eff_lang (sp_base sp)); reflexivity. }
    rewrite Hsk, (clean_join_plain _ _ P0), (fs_write_child st _ v Hd P0). cbn [fst snd].
    split; [|reflexivity].
    split; [exact Hb|]. cbn [with_store d_dir d_store sp_base sp_map].
    split; [exact Hd|]. split; [exact Hc|]. split; [right; exact Hp|]. split.
    + intros a Wa. cbn [slookup]. destruct (akey_eqb a a0) eqn:Ea.
      * apply akey_eqb_eq in Ea. subst a. apply db_alookup_aset_same.
      * rewrite db_alookup_aset_other; [apply Hm; exact Wa|].
        intros E. apply path_str_inj in E. apply nm_inj in E; auto. subst a. rewrite akey_eqb_refl in Ea. discriminate.
    + intros p w Hin. apply in_aset in Hin as [Hin|Hin]; [|apply Hf in Hin; exact Hin].
      injection Hin as -> ->. exists (nm bin a0). split; [reflexivity|]. apply nm_hd.
      subst a0. cbn [ctx_akey a_typ]. exact Hp.
Qed.

Lemma fs_step_refines bin st sp o :
  fs_rel bin st sp -> fs_op_ok bin (sp_base sp) o = true ->
  fs_rel bin (fst (db_step (BFs bin) st o)) (fst (spec_step sp o))
  /\ snd (db_step (BFs bin) st o) = snd (spec_step sp o).
Proof.
  intros R Hok. pose proof R as [Hb [Hd [[Hdf Hl] [Hp [Hm Hf]]]]].
  destruct o as [k v|k|p|s|l|p lk|k|k|k]; try (cbn [fs_op_ok] in Hok; discriminate).
  - cbn [db_step spec_step]. apply fs_put_refines; assumption.
  - cbn [db_step spec_step fst snd]. split; [exact R|]. apply fs_get_refines; assumption.
  - cbn [fs_op_ok] in Hok. cbn [db_step spec_step fst snd]. split; [|reflexivity].
    split; [cbn [with_base d_base sp_base]; rewrite Hb; reflexivity|]. split; [exact Hd|].
    split; [split; assumption|]. split; [right; exact Hok|]. split; [exact Hm|exact Hf].
  - cbn [fs_op_ok] in Hok. cbn [db_step spec_step fst snd]. split; [|reflexivity].
    split; [cbn [with_base d_base sp_base]; rewrite Hb; reflexivity|]. split; [exact Hd|].
    split; [split; [exact Hok|exact Hl]|]. split; [exact Hp|]. split; [exact Hm|exact Hf].
  - cbn [fs_op_ok] in Hok. cbn [db_step spec_step fst snd]. split; [|reflexivity].
    split; [cbn [with_base d_base sp_base]; rewrite Hb; reflexivity|]. split; [exact Hd|].
    split; [split; [exact Hdf|]|].
    { cbn [set_language b_lang]. destruct l as [c|]; cbn [lang_ok]; [apply N.eqb_eq; exact Hok|exact I]. }
    split; [exact Hp|]. split; [exact Hm|exact Hf].
  - cbn [db_step spec_step]. rewrite Hb, model_base_set_lock.
    destruct (set_lock (sp_base sp) p lk) as [b' ok] eqn:Esl. cbn [fst snd].
    split; [|reflexivity]. split; [reflexivity|]. cbn [with_base d_dir d_store sp_base sp_map].
    pose proof (set_lock_ctx (sp_base sp) p lk) as [H1 [H2 H3]]. rewrite Esl in H1, H2, H3. cbn [fst] in H1, H2, H3.
    split; [exact Hd|]. split; [split; [rewrite H1; exact Hdf|rewrite H2; exact Hl]|].
    split; [rewrite H3; exact Hp|]. split; [exact Hm|exact Hf].
Qed.

Lemma fs_run_refines bin : forall ops st sp, fs_rel bin st sp -> fs_hist_ok bin sp ops = true ->
  snd (db_run (BFs bin) st ops) = snd (spec_run sp ops).
Proof.
  induction ops as [|o ops IH]; intros st sp R Hok; [reflexivity|].
  cbn [fs_hist_ok] in Hok. apply andb_true_iff in Hok as [Ho Hr].
  destruct (fs_step_refines bin st sp o R Ho) as [R' Er].
  cbn [db_run spec_run].
  destruct (db_step (BFs bin) st o) as [st' x] eqn:E1. destruct (spec_step sp o) as [sp' x'] eqn:E2.
  cbn [fst snd] in *. subst x'.
  specialize (IH st' sp' R' Hr).
  destruct (db_run (BFs bin) st' ops) as [st2 xs]. destruct (spec_run sp' ops) as [sp2 xs']. cbn [snd] in *.
  subst. reflexivity.
Qed.

Theorem fs_refines_spec_partial_lemma : forall bin dir ops,
  dir_ok dir = true -> fs_hist_ok bin spec_init ops = true ->
  db_results (BFs bin) dir ops = spec_results ops.
Proof.
  intros bin dir ops Hd H. unfold db_results, spec_results. apply fs_run_refines; [|exact H].
  split; [reflexivity|]. split; [exact Hd|]. split; [split; [reflexivity|exact I]|].
  split; [left; reflexivity|]. split; [intros a _; reflexivity|]. intros p v [].
Qed.

(* ---- fs: paths are injective on plain names; legacy names never hit an entry ------------------------- *)
Lemma w8_type_inj t t' : documented_type t = true -> documented_type t' = true ->
  w8 (t + fs_type_offset) = w8 (t' + fs_type_offset) -> t = t'.
Proof.
  intros H H' E. apply documented_cases in H, H'.
  destruct H as [H|[H|[H|[H|[H|H]]]]]; destruct H' as [H'|[H'|[H'|[H'|[H'|H']]]]];
    rewrite H, H' in *; try reflexivity; vm_compute in E; discriminate.
Qed.

Lemma fs_name_cons t r : fs_name (t :: r) = w8 (t + fs_type_offset) :: r.
Proof. reflexivity. Qed.

Theorem path_injective_partial_lemma : forall dir t s k t' s' k',
  documented_type t = true -> documented_type t' = true ->
  sessioned t = true -> sessioned t' = true -> wf_sid s = true -> wf_sid s' = true ->
  name_plain (fs_name (skey t s None k)) = true -> name_plain (fs_name (skey t' s' None k')) = true ->
  clean_join dir (fs_name (skey t s None k)) = clean_join dir (fs_name (skey t' s' None k')) ->
  (t, s, k) = (t', s', k').
Proof.
  intros dir t s k t' s' k' Hd Hd' Hs Hs' Ws Ws' Hp Hp' E.
  rewrite !clean_join_plain in E by assumption. apply app_inv_head in E.
  assert (E0 : fs_name (skey t s None k) = fs_name (skey t' s' None k')) by congruence. clear E.
  assert (E' : skey t s None k = skey t' s' None k').
  { unfold skey, to_db_key in *. rewrite !fs_name_cons in E0. injection E0 as Et E.
    apply w8_type_inj in Et; [|assumption|assumption]. subst t'. f_equal. exact E. }
  apply enc_injective_lemma; assumption.
Qed.

Theorem legacy_never_hits_lemma : forall dir alt t s l k,
  name_plain alt = true -> no_legacy_clash alt = true -> documented_type t = true ->
  name_plain (fs_name (skey t s l k)) = true ->
  clean_join dir alt <> clean_join dir (fs_name (skey t s l k)).
Proof.
  intros dir alt t s l k Ha Hc Hd Hp E. rewrite !clean_join_plain in E by assumption.
  apply app_inv_head in E. injection E as E. subst alt.
  unfold skey, to_db_key in Hc. cbn [fs_name no_legacy_clash] in Hc.
  apply documented_cases in Hd. destruct Hd as [H|[H|[H|[H|[H|H]]]]]; rewrite H in Hc; vm_compute in Hc; discriminate.
Qed.

(* ---- the property's named guards imply the theorems' guards ------------------------------------------- *)
Lemma sym_chars_dot_free r : forallb (fun x => is_alnum x || (x =? ch_us)) r = true -> dot_free r = true.
Proof.
  unfold dot_free, has_byte. induction r as [|x r IH]; intros H; [reflexivity|].
  cbn [forallb existsb] in *. apply andb_true_iff in H as [Hx Hr]. specialize (IH Hr).
  apply negb_true_iff in IH. rewrite IH, orb_false_r. apply negb_true_iff.
  destruct (ch_dot =? x) eqn:E; [|reflexivity]. apply N.eqb_eq in E. subst x. discriminate.
Qed.
Lemma sym_grammar_dot_free k : sym_grammar k = true -> dot_free k = true.
Proof.
  destruct k as [|c [|d r]]; try discriminate. cbn [sym_grammar]. intros H. apply andb_true_iff in H as [Hc Hr].
  apply (sym_chars_dot_free (c :: d :: r)). cbn [forallb] in *. rewrite Hc. exact Hr.
Qed.

Lemma wf_key_key_ok b k : wf_key k = true -> documented_type (b_pfx b) = true -> key_ok b k = true.
Proof.
  unfold wf_key, key_ok. intros H Hd. apply andb_true_iff in H as [Hg Hn].
  rewrite (sym_grammar_dot_free _ Hg). replace (if sessioned (b_pfx b) && is_nil (b_sid b) then true else true) with true
    by (destruct (sessioned (b_pfx b) && is_nil (b_sid b)); reflexivity).
  cbn [andb]. unfold to_session_key.
  apply documented_cases in Hd. destruct Hd as [H|[H|[H|[H|[H|H]]]]]; rewrite H; cbn; try exact Hn; reflexivity.
Qed.

(* ---- refutations: concrete histories on which the faithful model leaves the reference map ---------------- *)
Definition wdir : list bytes := [s2b "p"; s2b "q"; s2b "s"].
Definition unlock_all : list dbop :=
  [OSetLock DATATYPE_BIN false; OSetLock DATATYPE_MENU false; OSetLock DATATYPE_TEMPLATE false; OSetLock DATATYPE_STATICLOAD false].
Definition fs_state (bin : bool) (ops : list dbop) : dbstate := fst (db_run (BFs bin) (db_init wdir) ops).
Definition ref_state (ops : list dbop) : spec := fst (spec_run spec_init ops).

(* K-C10-1: legacy fallback name: BIN "Ps" returns the USERDATA of session "s", key "bin" *)
Definition w_legacy : list dbop :=
  unlock_all ++ [OSetPrefix DATATYPE_USERDATA; OSetSession (s2b "s"); OPut (s2b "bin") (s2b "secret");
                 OSetPrefix DATATYPE_BIN; OGet (s2b "Ps")].
Theorem fs_refuted_legacy :
  exists ops, hist_ok spec_init ops = true /\ wf_key (s2b "Ps") = true /\ wf_key (s2b "bin") = true
    /\ fs_hist_ok false spec_init ops = false
    /\ last (db_results (BFs false) wdir ops) DOk = DVal (s2b "secret")
    /\ last (spec_results ops) DOk = DErr ENotFound.
Proof. exists w_legacy. vm_compute. repeat split. Qed.

(* K-C10-2: std-alphabet base64 puts '/' into file names: the Put fails *)
Definition w_b64 : list dbop :=
  unlock_all ++ [OSetPrefix DATATYPE_USERDATA; OPut [99; 240] (s2b "v1"); OGet [99; 240]].
Theorem fs_refuted_base64_slash :
  exists ops, hist_ok spec_init ops = true /\ b64_slash_free [99; 240] = false
    /\ fs_hist_ok true spec_init ops = false
    /\ db_results (BFs true) wdir ops <> spec_results ops
    /\ db_results BMem wdir ops = spec_results ops.
Proof. exists w_b64. vm_compute. repeat split. intros H. discriminate H. Qed.

(* K-C10-3: binary Dump stops at the first non-matching file; base64 order is not prefix order *)
Definition w_bindump : list dbop :=
  unlock_all ++ [OSetPrefix DATATYPE_USERDATA; OPut (s2b "ca") (s2b "v1"); OPut [98; 160] (s2b "v2");
                 OPut (s2b "c") (s2b "v3"); OPut [99; 0] (s2b "v4")].
Theorem fs_refuted_binary_dump :
  exists ops p, fs_hist_ok true spec_init ops = true
    /\ fs_dump true (fs_state true ops) p = DDump [(s2b "ca", s2b "v1")]
    /\ spec_dump (ref_state ops) p = DDump [(s2b "c", s2b "v3"); ([99; 0], s2b "v4"); (s2b "ca", s2b "v1")].
Proof. exists w_bindump, (s2b "c"). vm_compute. repeat split. Qed.

(* K-C10-4: Dump over a store that holds translations lists a key twice ... *)
Definition w_dump_tr : list dbop :=
  unlock_all ++ [OSetPrefix DATATYPE_MENU; OPut (s2b "foo") (s2b "default"); OSetLanguage (Some (s2b "nor"));
                 OPut (s2b "foo") (s2b "norsk")].
Theorem fs_refuted_dump_translation_twice :
  exists ops p, fs_hist_ok false spec_init ops = true
    /\ fs_dump false (fs_state false ops) p = DDump [(s2b "foo", s2b "norsk"); (s2b "foo", s2b "norsk")]
    /\ spec_dump (ref_state ops) p = DDump [(s2b "foo", s2b "norsk")].
Proof. exists w_dump_tr, []. vm_compute. repeat split. Qed.
(* ... or fails outright when an entry exists only as a translation *)
Definition w_dump_tr_only : list dbop :=
  unlock_all ++ [OSetPrefix DATATYPE_MENU; OPut (s2b "foo") (s2b "default"); OSetLanguage (Some (s2b "nor"));
                 OPut (s2b "bar") (s2b "kun norsk"); OSetLanguage None].
Theorem fs_refuted_dump_translation_only :
  exists ops p, fs_hist_ok false spec_init ops = true
    /\ fs_dump false (fs_state false ops) p = DErr ENotFound
    /\ spec_dump (ref_state ops) p = DDump [(s2b "foo", s2b "default")].
Proof. exists w_dump_tr_only, []. vm_compute. repeat split. Qed.

(* K-C10-5 (new): Dump of an unsessioned type finds nothing while a session id is set:
   DecodeKey strips the session prefix from every key, whatever its type *)
Definition w_dump_sess : list dbop :=
  unlock_all ++ [OSetPrefix DATATYPE_BIN; OPut (s2b "foo") (s2b "code"); OSetSession (s2b "s")].
Theorem fs_refuted_dump_session_set :
  exists ops p, fs_hist_ok false spec_init ops = true
    /\ fs_dump false (fs_state false ops) p = DErr ENotFound
    /\ spec_dump (ref_state ops) p = DDump [(s2b "foo", s2b "code")].
Proof. exists w_dump_sess, []. vm_compute. repeat split. Qed.

(* K-C10-6: a name longer than NAME_MAX cannot be stored: 255-byte key + type byte *)
Theorem fs_refuted_name_too_long :
  exists ops, hist_ok spec_init ops = true /\ wf_key (rep 120 255) = true
    /\ fs_hist_ok false spec_init ops = false
    /\ last (db_results (BFs false) wdir ops) DOk = DErr EGen
    /\ last (spec_results ops) DOk = DOk.
Proof. exists (unlock_all ++ [OSetPrefix DATATYPE_BIN; OPut (rep 120 255) (s2b "v")]). vm_compute. repeat split. Qed.

(* K-C11-1: session "a" / key "b.c" and session "a.b" / key "c" share one storage key *)
Theorem enc_refuted_dot :
  exists t s k s' k', wf_sid s = true /\ wf_sid s' = false /\ (s, k) <> (s', k')
    /\ skey t s None k = skey t s' None k'
    /\ nth 7 (db_results BMem wdir
               [OSetPrefix t; OSetSession s; OPut k (s2b "A"); OSetSession s'; OGet k'; OPut k' (s2b "B");
                OSetSession s; OGet k]) DOk = DVal (s2b "B").
Proof.
  exists DATATYPE_USERDATA, (s2b "a"), (s2b "b.c"), (s2b "a.b"), (s2b "c"). vm_compute.
  repeat split. intros H. discriminate H.
Qed.

(* K-C11-2: the empty session id sees (and overwrites) every session's entries *)
Theorem enc_refuted_empty_session :
  exists t s k s' k', wf_sid s = true /\ wf_sid s' = false /\ (s, k) <> (s', k')
    /\ skey t s None k = skey t s' None k'
    /\ nth 4 (db_results BPg wdir [OSetPrefix t; OSetSession s; OPut k (s2b "A"); OSetSession s'; OGet k']) DOk
       = DVal (s2b "A").
Proof.
  exists DATATYPE_USERDATA, (s2b "a"), (s2b "k"), [], (s2b "a.k"). vm_compute.
  repeat split. intros H. discriminate H.
Qed.

(* K-C11-3: fs: a key with "/../" addresses another session's file *)
Theorem path_refuted_traversal :
  exists t s k s' k', wf_sid s = true /\ wf_sid s' = true /\ (s, k) <> (s', k')
    /\ slash_free k' = false
    /\ clean_join wdir (fs_name (skey t s None k)) = clean_join wdir (fs_name (skey t s' None k'))
    /\ nth 4 (db_results (BFs false) wdir [OSetPrefix t; OSetSession s; OPut k (s2b "1234"); OSetSession s'; OGet k']) DOk
       = DVal (s2b "1234").
Proof.
  exists DATATYPE_USERDATA, (s2b "victim"), (s2b "pin"), (s2b "evil"), (s2b "/../Pvictim.pin"). vm_compute.
  repeat split. intros H. discriminate H.
Qed.

(* K-C11-4: fs: STATE under session "Px" reads the USERDATA of session "x" through the legacy name *)
Theorem path_refuted_legacy_cross_type :
  exists s s' k, wf_sid s = true /\ wf_sid s' = true /\ wf_key k = true
    /\ no_legacy_clash (fs_alt_name DATATYPE_STATE (skey DATATYPE_STATE s' None k)) = false
    /\ nth 5 (db_results (BFs false) wdir
               [OSetPrefix DATATYPE_USERDATA; OSetSession s; OPut k (s2b "userdata");
                OSetPrefix DATATYPE_STATE; OSetSession s'; OGet k]) DOk = DVal (s2b "userdata").
Proof. exists (s2b "x"), (s2b "Px"), (s2b "kk"). vm_compute. repeat split. Qed.

(* ================================================================================================== *)
(* fs Dump (text mode, default language) lists exactly the reference map's keys with the prefix      *)
(* ================================================================================================== *)
(* ---- the order of os.ReadDir: bytes_leb is a total preorder, asort sorts ---------------------------- *)
Lemma bleb_refl a : bytes_leb a a = true.
Proof. induction a as [|x a IH]; [reflexivity|]. cbn [bytes_leb]. rewrite N.ltb_irrefl. exact IH. Qed.

Lemma bleb_total a : forall b, bytes_leb a b = true \/ bytes_leb b a = true.
Proof.
  induction a as [|x a IH]; intros [|y b]; cbn [bytes_leb]; auto.
  destruct (x <? y) eqn:E1; [auto|]. destruct (y <? x) eqn:E2; [auto|]. apply IH.
Qed.

Lemma bleb_trans a : forall b c, bytes_leb a b = true -> bytes_leb b c = true -> bytes_leb a c = true.
Proof.
  induction a as [|x a IH]; intros [|y b] [|z c]; cbn [bytes_leb]; try discriminate; auto.
  destruct (x <? y) eqn:E1; destruct (y <? z) eqn:E2; destruct (x <? z) eqn:E3; auto; intros H1 H2;
    destruct (y <? x) eqn:E4; try discriminate; destruct (z <? y) eqn:E5; try discriminate;
    destruct (z <? x) eqn:E6; try lia.
  eapply IH; eassumption.
Qed.

Definition bleb (a b : bytes) : Prop := bytes_leb a b = true.
Notation sorted := (StronglySorted bleb).

Lemma ainsert_keys {V} k (v : V) l x : In x (map fst (ainsert k v l)) <-> x = k \/ In x (map fst l).
Proof.
  induction l as [|[k' v'] l IH]; cbn [ainsert map fst In].
  - split; intros [H|H]; auto.
  - destruct (bytes_leb k k'); cbn [map fst In].
    + split; intros [H|H]; auto.
    + rewrite IH. split; intros [H|[H|H]]; auto.
Qed.
Lemma asort_keys {V} (l : list (bytes * V)) x : In x (map fst (asort l)) <-> In x (map fst l).
Proof.
  unfold asort. induction l as [|[k v] l IH]; cbn [fold_right map fst In]; [tauto|].
  rewrite ainsert_keys, IH. split; intros [H|H]; auto.
Qed.
Lemma ainsert_sorted {V} k (v : V) l : sorted (map fst l) -> sorted (map fst (ainsert k v l)).
Proof.
  induction l as [|[k' v'] l IH]; cbn [ainsert map fst]; intros H.
  - constructor; constructor.
  - inversion H as [|? ? Hs Hf]; subst. destruct (bytes_leb k k') eqn:E; cbn [map fst].
    + constructor; [exact H|]. constructor; [exact E|].
      apply Forall_forall. intros y Hy. rewrite Forall_forall in Hf. eapply bleb_trans; [exact E|apply Hf; exact Hy].
    + constructor; [apply IH; exact Hs|]. apply Forall_forall. intros y Hy. apply ainsert_keys in Hy as [->|Hy].
      * destruct (bleb_total k k') as [H1|H1]; [unfold bleb; congruence|exact H1].
      * rewrite Forall_forall in Hf. apply Hf. exact Hy.
Qed.
Lemma asort_sorted {V} (l : list (bytes * V)) : sorted (map fst (asort l)).
Proof.
  unfold asort. induction l as [|[k v] l IH]; cbn [fold_right]; [constructor|]. apply ainsert_sorted. exact IH.
Qed.
Lemma ainsert_nodup {V} k (v : V) l : ~ In k (map fst l) -> NoDup (map fst l) -> NoDup (map fst (ainsert k v l)).
Proof.
  induction l as [|[k' v'] l IH]; cbn [ainsert map fst]; intros Hn Hd.
  - constructor; [intros []|constructor].
  - destruct (bytes_leb k k'); cbn [map fst].
    + constructor; assumption.
    + inversion Hd as [|? ? Hn' Hd']; subst. constructor.
      * intros Hin. apply ainsert_keys in Hin as [->|Hin]; [apply Hn; left; reflexivity|contradiction].
      * apply IH; [intros Hin; apply Hn; right; exact Hin|exact Hd'].
Qed.
Lemma asort_nodup {V} (l : list (bytes * V)) : NoDup (map fst l) -> NoDup (map fst (asort l)).
Proof.
  unfold asort. induction l as [|[k v] l IH]; cbn [fold_right map fst]; intros H; [constructor|].
  inversion H as [|? ? Hn Hd]; subst. apply ainsert_nodup; [|apply IH; exact Hd].
  intros Hin. apply (asort_keys l) in Hin. contradiction.
Qed.

(* ---- names with a given prefix are contiguous in a sorted list ------------------------------------------ *)
Lemma prefix_convex q : forall x y z, bleb x y -> bleb y z ->
  is_prefix q x = true -> is_prefix q z = true -> is_prefix q y = true.
Proof.
  unfold bleb. induction q as [|c q IH]; intros x y z Hxy Hyz Hx Hz; [reflexivity|].
  destruct x as [|a x]; [discriminate|]. destruct z as [|e z]; [discriminate|].
  cbn [is_prefix] in Hx, Hz. apply andb_true_iff in Hx as [Ha Hx]. apply andb_true_iff in Hz as [He Hz].
  apply N.eqb_eq in Ha, He. subst a e.
  destruct y as [|d y]; [discriminate|]. cbn [bytes_leb] in Hxy, Hyz. cbn [is_prefix].
  destruct (N.lt_trichotomy c d) as [Hlt|[Heq|Hgt]].
  - exfalso. replace (d <? c) with false in Hyz by (symmetry; apply N.ltb_ge; lia).
    replace (c <? d) with true in Hyz by (symmetry; apply N.ltb_lt; lia). discriminate.
  - subst d. rewrite N.ltb_irrefl in Hxy, Hyz. rewrite N.eqb_refl. cbn [andb]. eapply IH; eassumption.
  - exfalso. replace (c <? d) with false in Hxy by (symmetry; apply N.ltb_ge; lia).
    replace (d <? c) with true in Hxy by (symmetry; apply N.ltb_lt; lia). discriminate.
Qed.

Fixpoint skipw (P : bytes -> bool) (l : list bytes) : list bytes :=
  match l with [] => [] | x :: r => if P x then x :: r else skipw P r end.
Fixpoint takew (P : bytes -> bool) (l : list bytes) : list bytes :=
  match l with [] => [] | x :: r => if P x then x :: takew P r else [] end.

Lemma takew_after q x r : sorted (x :: r) -> is_prefix q x = true -> takew (is_prefix q) r = filter (is_prefix q) r.
Proof.
  revert x. induction r as [|y r IH]; intros x Hs Hx; [reflexivity|].
  inversion Hs as [|? ? Hs' Hf]; subst. cbn [takew filter]. destruct (is_prefix q y) eqn:Ey.
  - f_equal. apply (IH y); assumption.
  - symmetry. inversion Hs' as [|? ? Hs'' Hf']; subst.
    assert (forall z, In z r -> is_prefix q z = false).
    { intros z Hz. destruct (is_prefix q z) eqn:Ez; [|reflexivity]. exfalso.
      rewrite Forall_forall in Hf, Hf'.
      assert (is_prefix q y = true) by (apply (prefix_convex q x y z); auto; apply Hf; left; reflexivity).
      congruence. }
    clear -H. induction r as [|z r IH]; [reflexivity|]. cbn [filter]. rewrite (H z) by (left; reflexivity).
    apply IH. intros w Hw. apply H. right. exact Hw.
Qed.
Lemma takew_skipw_filter q l : sorted l -> takew (is_prefix q) (skipw (is_prefix q) l) = filter (is_prefix q) l.
Proof.
  induction l as [|x l IH]; intros Hs; [reflexivity|]. inversion Hs; subst. cbn [skipw filter].
  destruct (is_prefix q x) eqn:Ex.
  - cbn [takew]. rewrite Ex. f_equal. apply (takew_after q x); assumption.
  - apply IH. assumption.
Qed.

(* ---- Dump (text mode) as skip / take-while over the directory listing ----------------------------------- *)

Lemma dump_rest_shape st pk (M : bytes -> bool) (fk fv : bytes -> bytes) names :
  (forall n, In n names ->
     if M n then fs_decode_key false (d_base st) (elem_key n) = Some (fk n)
                 /\ is_prefix pk (hd 0 (elem_key n) :: fk n) = true
                 /\ fs_get false st (fk n) = DVal (fv n)
     else forall kk, fs_decode_key false (d_base st) (elem_key n) = Some kk ->
                     is_prefix pk (hd 0 (elem_key n) :: kk) = false) ->
  fs_dump_rest false st pk names = map (fun n => (fk n, fv n)) (takew M names).
Proof.
  induction names as [|n r IH]; intros H; [reflexivity|].
  cbn [fs_dump_rest takew]. pose proof (H n (or_introl eq_refl)) as Hn.
  destruct (M n) eqn:Em.
  - destruct Hn as [Hd [Hp Hg]]. rewrite Hd, Hp, Hg. cbn [map]. f_equal. apply IH.
    intros m Hm. apply H. right. exact Hm.
  - destruct (fs_decode_key false (d_base st) (elem_key n)) as [kk|] eqn:Ed; [|reflexivity].
    rewrite (Hn kk eq_refl). reflexivity.
Qed.

Lemma dump_first_shape st pk (M : bytes -> bool) (fk fv : bytes -> bytes) names :
  (forall n, In n names ->
     if M n then (len (elem_key n) <? len pk) = false
                 /\ fs_decode_key false (d_base st) (elem_key n) = Some (fk n)
                 /\ is_prefix pk (hd 0 (elem_key n) :: fk n) = true
                 /\ fs_get false st (fk n) = DVal (fv n)
     else forall kk, fs_decode_key false (d_base st) (elem_key n) = Some kk ->
                     is_prefix pk (hd 0 (elem_key n) :: kk) = false) ->
  fs_dump_first false st pk names
  = match skipw M names with
    | [] => DErr ENotFound
    | n :: r => DDump ((fk n, fv n) :: fs_dump_rest false st pk r)
    end.
Proof.
  induction names as [|n r IH]; intros H; [reflexivity|].
  cbn [fs_dump_first skipw]. pose proof (H n (or_introl eq_refl)) as Hn.
  assert (Hr : forall m, In m r -> if M m then (len (elem_key m) <? len pk) = false
                 /\ fs_decode_key false (d_base st) (elem_key m) = Some (fk m)
                 /\ is_prefix pk (hd 0 (elem_key m) :: fk m) = true
                 /\ fs_get false st (fk m) = DVal (fv m)
     else forall kk, fs_decode_key false (d_base st) (elem_key m) = Some kk ->
                     is_prefix pk (hd 0 (elem_key m) :: kk) = false)
    by (intros m Hm; apply H; right; exact Hm).
  destruct (M n) eqn:Em.
  - destruct Hn as [Hl [Hd [Hp Hg]]]. rewrite Hl, Hd, Hp, Hg. reflexivity.
  - destruct (len (elem_key n) <? len pk); [apply IH; exact Hr|].
    destruct (fs_decode_key false (d_base st) (elem_key n)) as [kk|] eqn:Ed; [|apply IH; exact Hr].
    rewrite (Hn kk eq_refl). apply IH; exact Hr.
Qed.

(* ---- list facts ---------------------------------------------------------------------------------------------- *)
Lemma is_prefix_app x y : is_prefix x (x ++ y) = true.
Proof. induction x as [|c x IH]; [reflexivity|]. cbn [app is_prefix]. rewrite N.eqb_refl. exact IH. Qed.
Lemma is_prefix_app_same x p k : is_prefix (x ++ p) (x ++ k) = is_prefix p k.
Proof. induction x as [|c x IH]; [reflexivity|]. cbn [app is_prefix]. rewrite N.eqb_refl. exact IH. Qed.
Lemma is_prefix_exists x : forall y, is_prefix x y = true -> exists z, y = x ++ z.
Proof.
  induction x as [|c x IH]; intros y H; [exists y; reflexivity|].
  destruct y as [|d y]; [discriminate|]. cbn [is_prefix] in H. apply andb_true_iff in H as [H1 H2].
  apply N.eqb_eq in H1. subst d. destruct (IH y H2) as [z ->]. exists z. reflexivity.
Qed.
Lemma is_prefix_app_l x p : forall y, is_prefix (x ++ p) y = true -> is_prefix x y = true.
Proof.
  induction x as [|c x IH]; intros y H; [reflexivity|].
  destruct y as [|d y]; [discriminate|]. cbn [app is_prefix] in *. apply andb_true_iff in H as [H1 H2].
  rewrite H1. cbn [andb]. apply IH. exact H2.
Qed.
Lemma is_prefix_len p k : is_prefix p k = true -> len p <= len k.
Proof. intros H. apply is_prefix_exists in H as [z ->]. rewrite len_app. lia. Qed.

Lemma in_alookup_nodup {V} (l : list (bytes * V)) k v : NoDup (map fst l) -> In (k, v) l -> alookup k l = Some v.
Proof.
  induction l as [|[k' v'] l IH]; intros Hd Hin; [destruct Hin|].
  cbn [map fst] in Hd. inversion Hd as [|? ? Hn Hd']; subst. cbn [alookup]. destruct Hin as [E|Hin].
  - injection E as -> ->. rewrite bytes_eqb_refl. reflexivity.
  - destruct (bytes_eqb k k') eqn:E; [|apply IH; assumption].
    exfalso. apply beq_true in E. subst k'. apply Hn. apply (in_map fst) in Hin. exact Hin.
Qed.
Lemma nodup_aset {V} k (v : V) l : NoDup (map fst l) -> NoDup (map fst (aset k v l)).
Proof.
  induction l as [|[k' v'] l IH]; cbn [aset map fst]; intros H.
  - constructor; [intros []|constructor].
  - inversion H as [|? ? Hn Hd]; subst. destruct (bytes_eqb k k') eqn:E; cbn [map fst].
    + apply beq_true in E. subst k'. constructor; assumption.
    + constructor; [|apply IH; exact Hd]. intros Hin. apply Hn.
      clear -Hin E. induction l as [|[k2 v2] l IH]; cbn [aset map fst In] in *.
      * destruct Hin as [->|[]]. rewrite bytes_eqb_refl in E. discriminate.
      * destruct (bytes_eqb k k2) eqn:E2; cbn [map fst In] in Hin.
        -- apply beq_true in E2. subst k2. destruct Hin as [->|Hin]; [rewrite bytes_eqb_refl in E; discriminate|auto].
        -- destruct Hin as [->|Hin]; auto.
Qed.
Lemma slookup_in a m v : slookup a m = Some v -> In (a, v) m.
Proof.
  induction m as [|[a' v'] m IH]; cbn [slookup]; [discriminate|].
  destruct (akey_eqb a a') eqn:E; intros H.
  - apply akey_eqb_eq in E. subst a'. injection H as ->. left. reflexivity.
  - right. apply IH. exact H.
Qed.
Lemma NoDup_map_inj_in {A B} (g : A -> B) (l : list A) :
  (forall x y, In x l -> In y l -> g x = g y -> x = y) -> NoDup l -> NoDup (map g l).
Proof.
  induction l as [|x l IH]; intros Hi Hd; [constructor|]. inversion Hd as [|? ? Hn Hd']; subst. cbn [map]. constructor.
  - intros Hin. apply in_map_iff in Hin as [y [Hy Hin]]. apply Hn.
    rewrite (Hi x y) ; auto; [left; reflexivity|right; exact Hin].
  - apply IH; [|exact Hd']. intros a b Ha Hb. apply Hi; right; assumption.
Qed.
Lemma NoDup_filter {A} (P : A -> bool) (l : list A) : NoDup l -> NoDup (filter P l).
Proof.
  induction l as [|x l IH]; intros H; [constructor|]. inversion H; subst. cbn [filter]. destruct (P x).
  - constructor; [|apply IH; assumption]. intros Hin. apply filter_In in Hin as [Hin _]. contradiction.
  - apply IH. assumption.
Qed.

(* ---- a stronger invariant of fs histories (text mode): every file is the entry of a well-formed key ------ *)
Definition alt_of (a : akey) : bytes := fs_alt_name (a_typ a) (enc_a a).
Definition fs_wf2 (a : akey) : bool :=
  fs_wf false a && name_plain (alt_of a) && no_legacy_clash (alt_of a) && negb (is_nil (a_key a)).

Definition rel2 (st : dbstate) (sp : spec) : Prop :=
  fs_rel false st sp
  /\ (forall a v, In (a, v) (sp_map sp) -> fs_wf2 a = true)
  /\ (forall p v, In (p, v) (d_store st) -> exists a, fs_wf2 a = true /\ p = path_str (d_dir st ++ [nm false a]))
  /\ NoDup (map fst (d_store st)).

Definition put_key_nonempty (o : dbop) : bool := match o with OPut k _ => negb (is_nil k) | _ => true end.

Lemma fs_put_shape st sp k v :
  fs_rel false st sp -> fs_op_ok false (sp_base sp) (OPut k v) = true ->
  (fst (fs_put false st k v) = st /\ fst (spec_put sp k v) = sp)
  \/ (let a0 := ctx_akey (sp_base sp) (eff_lang (sp_base sp)) k in
      fs_wf false a0 = true /\ name_plain (alt_of a0) = true /\ no_legacy_clash (alt_of a0) = true
      /\ fst (fs_put false st k v) = with_store st (aset (path_str (d_dir st ++ [nm false a0])) v (d_store st))
      /\ fst (spec_put sp k v) = mkSpec (sp_base sp) ((a0, v) :: sp_map sp)).
Proof.
  intros R Hok. pose proof R as [Hb [Hd [Hc [Hp [Hm Hf]]]]]. cbn [fs_op_ok] in Hok.
  unfold fs_put, spec_put. rewrite Hb, check_put_model.
  destruct (check_put (sp_base sp)); cbn [negb]; [|left; auto].
  destruct (b_pfx (sp_base sp) =? DATATYPE_UNKNOWN) eqn:Ep.
  - apply N.eqb_eq in Ep. unfold fs_to_key, to_key. cbn [model_base b_pfx]. rewrite Ep.
    change (DATATYPE_UNKNOWN =? DATATYPE_UNKNOWN) with true. left. auto.
  - apply N.eqb_neq in Ep. destruct Hp as [Hp|Hp]; [contradiction|]. right.
    rewrite (fs_to_key_model false _ k Ep Hc). cbn [lk_default lk_translation].
    destruct (fs_guard_spec false _ k Ep Hp Hc Hok) as [Gd Gt].
    set (a0 := ctx_akey (sp_base sp) (eff_lang (sp_base sp)) k).
    assert (G0 : fs_wf false a0 = true /\ name_plain (nm false a0) = true
                 /\ name_plain (alt_of a0) = true /\ no_legacy_clash (alt_of a0) = true).
    { subst a0. destruct (eff_lang (sp_base sp)) as [c|] eqn:El.
      - destruct (Gt c eq_refl) as [W [P [A C]]]. auto.
      - destruct Gd as [W [P [A C]]]. auto. }
    destruct G0 as [W0 [P0 [A0 C0]]].
    assert (Hsk : fs_name (match option_map (fun c => enc_a (fs_a false (ctx_akey (sp_base sp) (Some c) k))) (eff_lang (sp_base sp)) with
                  | Some t => t | None => enc_a (fs_a false (ctx_akey (sp_base sp) None k)) end) = nm false a0).
    { subst a0. destruct (eff_lang (sp_base sp)); reflexivity. }
    rewrite Hsk, (clean_join_plain _ _ P0), (fs_write_child st _ v Hd P0). cbn [fst].
    repeat split; assumption.
Qed.

Lemma rel2_step st sp o :
  rel2 st sp -> fs_op_ok false (sp_base sp) o = true -> put_key_nonempty o = true ->
  rel2 (fst (db_step (BFs false) st o)) (fst (spec_step sp o)).
Proof.
  intros [R [Hmw [Hfw Hnd]]] Hok Hne.
  pose proof (fs_step_refines false st sp o R Hok) as [R' _].
  split; [exact R'|].
  destruct o as [k v|k|p|s|l|p lk|k|k|k]; try (cbn [fs_op_ok] in Hok; discriminate);
    try (cbn [db_step spec_step fst with_base d_store d_dir sp_map]; auto).
  - (* Put *)
    cbn [db_step spec_step]. destruct (fs_put_shape st sp k v R Hok) as [[E1 E2]|[W [A [C [E1 E2]]]]].
    + rewrite E1, E2. auto.
    + rewrite E1, E2. cbn [with_store d_store d_dir sp_map].
      set (a0 := ctx_akey (sp_base sp) (eff_lang (sp_base sp)) k) in *.
      assert (W2 : fs_wf2 a0 = true).
      { unfold fs_wf2. rewrite W, A, C. cbn [andb]. subst a0. cbn [ctx_akey a_key]. exact Hne. }
      split; [|split].
      * intros a w [E|Hin]; [injection E as <- _; exact W2|eapply Hmw; exact Hin].
      * intros p w Hin. apply in_aset in Hin as [E|Hin]; [|apply Hfw in Hin; exact Hin].
        injection E as -> _. exists a0. auto.
      * apply nodup_aset. exact Hnd.
  - (* SetLock *)
    cbn [db_step spec_step]. destruct (set_lock (d_base st) p lk). destruct (set_lock (sp_base sp) p lk).
    cbn [fst with_base d_store d_dir sp_map]. auto.
Qed.

Lemma rel2_run : forall ops st sp,
  rel2 st sp -> fs_hist_ok false sp ops = true -> forallb put_key_nonempty ops = true ->
  rel2 (fst (db_run (BFs false) st ops)) (fst (spec_run sp ops)).
Proof.
  induction ops as [|o ops IH]; intros st sp R Hok Hne; [exact R|].
  cbn [fs_hist_ok forallb] in Hok, Hne. apply andb_true_iff in Hok as [Ho Hr]. apply andb_true_iff in Hne as [Hn Hnr].
  pose proof (rel2_step st sp o R Ho Hn) as R'.
  cbn [db_run spec_run]. destruct (db_step (BFs false) st o) as [st' x]. destruct (spec_step sp o) as [sp' x'].
  cbn [fst] in R', Hr. specialize (IH st' sp' R' Hr Hnr).
  destruct (db_run (BFs false) st' ops). destruct (spec_run sp' ops). exact IH.
Qed.

Lemma rel2_init dir : dir_ok dir = true -> rel2 (db_init dir) spec_init.
Proof.
  intros Hd. split.
  - split; [reflexivity|]. split; [exact Hd|]. split; [split; [reflexivity|exact I]|].
    split; [left; reflexivity|]. split; [intros a _; reflexivity|]. intros p v [].
  - split; [intros a v []|]. split; [intros p v []|constructor].
Qed.

(* ---- os.ReadDir of the store directory ------------------------------------------------------------------------ *)
Lemma dir_pref_eq dir : dir <> [] -> dir_pref dir = path_str dir ++ [ch_slash].
Proof.
  induction dir as [|c d IH]; [congruence|]. intros _. destruct d as [|c' d'].
  - unfold dir_pref, path_str. cbn [map List.concat join_with]. rewrite app_nil_r. reflexivity.
  - change (path_str (c :: c' :: d')) with (c ++ [ch_slash] ++ path_str (c' :: d')).
    unfold dir_pref in *. cbn [map List.concat] in *. rewrite IH by discriminate. rewrite <- !app_assoc. reflexivity.
Qed.

Lemma child_name_plain dir n : name_plain n = true ->
  child_name (dir_pref dir) (path_str (dir ++ [n])) = Some n.
Proof.
  intros H. apply name_plain_spec in H as [Hn [Hs _]].
  unfold child_name. rewrite path_str_snoc, is_prefix_app, (drop_app_exact _ _ _ eq_refl).
  destruct n; [congruence|]. cbn [is_nil orb]. rewrite Hs. reflexivity.
Qed.

Definition children (dirstr : bytes) (store : list (bytes * bytes)) : list (bytes * unit) :=
  fold_right (fun kv acc => match child_name dirstr (fst kv) with Some n => (n, tt) :: acc | None => acc end) [] store.

Lemma children_in dir store n :
  (forall p v, In (p, v) store -> exists m, name_plain m = true /\ p = path_str (dir ++ [m])) ->
  (In n (map fst (children (dir_pref dir) store)) <-> exists v, In (path_str (dir ++ [n]), v) store).
Proof.
  intros Hw. induction store as [|[p v] store IH]; cbn [children fold_right map fst In].
  - split; [intros []|intros [v []]].
  - assert (Hw' : forall p v, In (p, v) store -> exists m, name_plain m = true /\ p = path_str (dir ++ [m]))
      by (intros p' v' H; apply (Hw p' v'); right; exact H).
    specialize (IH Hw'). fold (children (dir_pref dir) store).
    destruct (Hw p v (or_introl eq_refl)) as [m [Hm ->]]. cbn [fst]. rewrite (child_name_plain dir m Hm).
    cbn [map fst In]. rewrite IH. split.
    + intros [->|[w Hin]]; [exists v; left; reflexivity|exists w; right; exact Hin].
    + intros [w [E|Hin]]; [|right; exists w; exact Hin]. injection E as E _. apply path_str_inj in E. left. exact E.
Qed.

Lemma children_nodup dir store :
  (forall p v, In (p, v) store -> exists m, name_plain m = true /\ p = path_str (dir ++ [m])) ->
  NoDup (map fst store) -> NoDup (map fst (children (dir_pref dir) store)).
Proof.
  intros Hw Hd. induction store as [|[p v] store IH]; cbn [children fold_right map fst]; [constructor|].
  assert (Hw' : forall p v, In (p, v) store -> exists m, name_plain m = true /\ p = path_str (dir ++ [m]))
    by (intros p' v' H; apply (Hw p' v'); right; exact H).
  cbn [map fst] in Hd. inversion Hd as [|? ? Hn Hd']; subst. fold (children (dir_pref dir) store).
  destruct (Hw p v (or_introl eq_refl)) as [m [Hm ->]]. cbn [fst]. rewrite (child_name_plain dir m Hm).
  cbn [map fst]. constructor; [|apply IH; assumption].
  intros Hin. apply (children_in dir store m Hw') in Hin as [w Hin]. apply Hn.
  apply (in_map fst) in Hin. exact Hin.
Qed.

Lemma fs_wf2_plain a : fs_wf2 a = true -> name_plain (nm false a) = true.
Proof.
  unfold fs_wf2, fs_wf. intros H. repeat (apply andb_true_iff in H as [H ?]). assumption.
Qed.

Lemma readdir_facts st sp : rel2 st sp -> d_dir st <> [] ->
  sorted (fs_readdir st) /\ NoDup (fs_readdir st)
  /\ (forall n, In n (fs_readdir st) <-> exists v, In (path_str (d_dir st ++ [n]), v) (d_store st)).
Proof.
  intros [R [Hmw [Hfw Hnd]]] Hne.
  assert (Hw : forall p v, In (p, v) (d_store st) -> exists m, name_plain m = true /\ p = path_str (d_dir st ++ [m])).
  { intros p v Hin. destruct (Hfw p v Hin) as [a [Wa ->]]. exists (nm false a). split; [apply fs_wf2_plain; exact Wa|reflexivity]. }
  unfold fs_readdir. rewrite <- (dir_pref_eq _ Hne). fold (children (dir_pref (d_dir st)) (d_store st)).
  split; [apply asort_sorted|]. split; [apply asort_nodup; apply children_nodup; assumption|].
  intros n. rewrite asort_keys. apply children_in. exact Hw.
Qed.

(* ---- the guard of the listing theorem ------------------------------------------------------------------------ *)
Definition is_none {A} (o : option A) : bool := match o with None => true | Some _ => false end.
(* documented type; default language; no translation stored for this type; a session id is set
   exactly when the type is sessioned *)
Definition dump_ok (sp : spec) : bool :=
  let b := sp_base sp in
  documented_type (b_pfx b) && is_none (b_lang b)
  && (if sessioned (b_pfx b) then negb (is_nil (b_sid b)) else is_nil (b_sid b))
  && forallb (fun e : akey * bytes => negb ((a_typ (fst e) =? b_pfx b) && negb (is_none (a_lang (fst e))))) (sp_map sp).

Definition dq0 (b : base) : bytes :=
  w8 (b_pfx b + fs_type_offset) :: (if sessioned (b_pfx b) then sid_enc (b_sid b) else []).
Definition dM (b : base) (p n : bytes) : bool := is_prefix (dq0 b ++ p) n.

Lemma dump_ok_spec sp : dump_ok sp = true ->
  documented_type (b_pfx (sp_base sp)) = true /\ b_lang (sp_base sp) = None
  /\ (if sessioned (b_pfx (sp_base sp)) then b_sid (sp_base sp) <> [] else b_sid (sp_base sp) = [])
  /\ (forall a v, In (a, v) (sp_map sp) -> a_typ a = b_pfx (sp_base sp) -> a_lang a = None).
Proof.
  unfold dump_ok. intros H. apply andb_true_iff in H as [H H4]. apply andb_true_iff in H as [H H3].
  apply andb_true_iff in H as [H1 H2]. split; [exact H1|]. split; [destruct (b_lang (sp_base sp)); [discriminate|reflexivity]|].
  split.
  - destruct (sessioned (b_pfx (sp_base sp))); destruct (b_sid (sp_base sp)); try discriminate; congruence.
  - intros a v Hin Ht. rewrite forallb_forall in H4. specialize (H4 _ Hin). cbn [fst] in H4.
    rewrite Ht, N.eqb_refl in H4. cbn [andb] in H4. destruct (a_lang a); [discriminate|reflexivity].
Qed.

Lemma same_space_eq b a : same_space b a = true -> a_lang a = None -> a = ctx_akey b None (a_key a).
Proof.
  destruct a as [t s l k]. unfold same_space, ctx_akey. cbn [a_typ a_sess a_lang a_key]. intros H ->.
  apply andb_true_iff in H as [H1 H2]. apply N.eqb_eq in H1. apply obytes_eqb_eq in H2. subst. reflexivity.
Qed.
Lemma same_space_ctx b k : same_space b (ctx_akey b None k) = true.
Proof.
  unfold same_space, ctx_akey. cbn [a_typ a_sess]. rewrite N.eqb_refl. apply obytes_eqb_eq. reflexivity.
Qed.

Lemma elem_key_nm a : documented_type (a_typ a) = true -> elem_key (nm false a) = enc_a a.
Proof.
  intros H. rewrite nm_unfold, enc_a_unfold. cbn [elem_key]. f_equal.
  apply documented_cases in H. destruct H as [H|[H|[H|[H|[H|H]]]]]; rewrite H; reflexivity.
Qed.

Lemma wf_akey_fs_a a : wf_akey (fs_a false a) = wf_akey a.
Proof. destruct a; reflexivity. Qed.

Lemma fs_wf2_spec a : fs_wf2 a = true ->
  wf_akey a = true /\ documented_type (a_typ a) = true /\ name_plain (nm false a) = true
  /\ name_plain (alt_of a) = true /\ no_legacy_clash (alt_of a) = true /\ a_key a <> [] /\ fs_wf false a = true.
Proof.
  unfold fs_wf2. intros H. apply andb_true_iff in H as [H H4]. apply andb_true_iff in H as [H H3].
  apply andb_true_iff in H as [H1 H2]. pose proof H1 as W. unfold fs_wf in H1.
  apply andb_true_iff in H1 as [H1 Hp]. apply andb_true_iff in H1 as [H1 Hd]. apply andb_true_iff in H1 as [Hw _].
  rewrite wf_akey_fs_a in Hw.
  split; [exact Hw|]. split; [exact Hd|]. split; [exact Hp|]. split; [exact H2|]. split; [exact H3|].
  split; [|exact W]. destruct (a_key a); [discriminate|congruence].
Qed.

Lemma a_sk_nonempty a : a_key a <> [] -> a_sk a <> [].
Proof.
  unfold a_sk. destruct (sessioned (a_typ a)); [|auto]. intros H E. apply app_eq_nil in E as [_ E]. contradiction.
Qed.

Lemma from_db_key_default a : wf_akey a = true -> a_lang a = None -> a_key a <> [] ->
  from_db_key (enc_a a) = Ok (a_sk a).
Proof.
  intros W Hl Hk. rewrite enc_a_unfold, Hl. cbn [lang_suffix]. rewrite app_nil_r.
  pose proof (a_sk_nonempty a Hk) as Hne. destruct (a_sk a) as [|x r] eqn:Er; [congruence|].
  cbn [from_db_key]. destruct (lang_type (a_typ a)) eqn:Et; [|reflexivity]. cbn [andb].
  unfold wf_akey in W. apply andb_true_iff in W as [_ W]. rewrite Et, Hl, Er in W.
  unfold no_lang_suffix in W. apply negb_true_iff in W.
  destruct (6 <? len (x :: r)) eqn:E6; [|reflexivity]. cbn [andb].
  replace (4 <=? len (x :: r)) with true in W by (symmetry; apply N.leb_le; lia). cbn [andb] in W.
  rewrite W. reflexivity.
Qed.

(* a sessioned entry lies under the session prefix "s." exactly when it belongs to session s *)
Lemma session_prefix s a :
  s <> [] -> dot_free s = true -> wf_akey a = true -> sessioned (a_typ a) = true ->
  is_prefix (sid_enc s) (a_sk a) = true -> a_sess a = Some s.
Proof.
  intros Hs Hd W Ht H. unfold a_sk in H. rewrite Ht in H. unfold wf_akey in W. apply andb_true_iff in W as [W _].
  rewrite Ht in W. destruct (a_sess a) as [s'|] eqn:Es; [|discriminate]. unfold a_sid in H. rewrite Es in H.
  apply andb_true_iff in W as [Wd Wk]. apply is_prefix_exists in H as [z H].
  rewrite (sid_enc_nonempty s Hs) in H. rewrite <- app_assoc in H. cbn [app] in H.
  destruct s' as [|c s'].
  - cbn [sid_enc app is_nil] in *. rewrite H in Wk. rewrite dot_free_app_dot in Wk. discriminate.
  - rewrite (sid_enc_nonempty (c :: s')) in H by discriminate. rewrite <- app_assoc in H. cbn [app] in H.
    change (c :: s' ++ ch_dot :: a_key a) with ((c :: s') ++ ch_dot :: a_key a) in H.
    apply first_dot_split in H; auto. destruct H as [-> _]. reflexivity.
Qed.

Lemma wf_akey_key_ok b k : wf_akey (ctx_akey b None k) = true -> key_ok b k = true.
Proof.
  unfold wf_akey, key_ok. intros W. apply andb_true_iff in W as [W1 W2].
  rewrite ctx_akey_sk in W2. unfold ctx_akey in W1, W2. cbn [a_typ a_sess a_lang a_key] in W1, W2.
  apply andb_true_iff. split.
  - destruct (sessioned (b_pfx b)); [|reflexivity]. apply andb_true_iff in W1 as [_ W1].
    cbn [andb]. destruct (is_nil (b_sid b)); [exact W1|reflexivity].
  - destruct (lang_type (b_pfx b)); [exact W2|reflexivity].
Qed.

Lemma fs_get_in_space st sp k v :
  rel2 st sp -> dump_ok sp = true -> fs_wf2 (ctx_akey (sp_base sp) None k) = true ->
  slookup (ctx_akey (sp_base sp) None k) (sp_map sp) = Some v ->
  fs_get false st k = DVal v.
Proof.
  intros [R _] Hok W2 Hs. pose proof R as [Hb [Hd [Hc [Hp _]]]].
  apply dump_ok_spec in Hok as [Hdoc [Hl _]].
  apply fs_wf2_spec in W2 as [Wa [_ [Pn [Pa [Ca _]]]]].
  assert (Hp0 : b_pfx (sp_base sp) <> 0).
  { apply documented_cases in Hdoc. lia. }
  assert (El : eff_lang (sp_base sp) = None) by (unfold eff_lang; rewrite Hl; destruct (lang_type _); reflexivity).
  rewrite (fs_get_refines false st sp k R).
  - unfold spec_get. replace (b_pfx (sp_base sp) =? DATATYPE_UNKNOWN) with false by (symmetry; apply N.eqb_neq; exact Hp0).
    rewrite El, Hs. reflexivity.
  - cbn [fs_op_ok]. rewrite (wf_akey_key_ok _ _ Wa). cbn [andb].
    unfold fs_key_ok. rewrite (fs_to_key_model false _ k Hp0 Hc), El. cbn [option_map].
    unfold fs_lk_ok. cbn [lk_default lk_translation]. rewrite andb_true_r.
    change (fs_name (enc_a (fs_a false (ctx_akey (sp_base sp) None k)))) with (nm false (ctx_akey (sp_base sp) None k)).
    change (fs_alt_name (b_pfx (sp_base sp)) (enc_a (fs_a false (ctx_akey (sp_base sp) None k))))
      with (alt_of (ctx_akey (sp_base sp) None k)).
    rewrite Pn, Pa, Ca. reflexivity.
Qed.

(* the name of an entry of the current (type, session), default language *)
Lemma nm_in_space b a : same_space b a = true -> a_lang a = None -> nm false a = dq0 b ++ a_key a.
Proof.
  intros Hs Hl. rewrite (same_space_eq b a Hs Hl) at 1. rewrite nm_unfold. unfold dq0, a_sk, fs_a, ctx_akey, a_sid.
  cbn [a_typ a_sess a_lang a_key lang_suffix]. rewrite app_nil_r.
  destruct (sessioned (b_pfx b)); reflexivity.
Qed.

Lemma decode_default st sp a :
  fs_rel false st sp -> dump_ok sp = true -> fs_wf2 a = true -> a_lang a = None ->
  fs_decode_key false (d_base st) (elem_key (nm false a))
  = match from_session_key (model_base (sp_base sp)) (a_sk a) with Ok kk => Some kk | _ => None end.
Proof.
  intros [Hb _] _ W Hl. apply fs_wf2_spec in W as [Wa [Hd [_ [_ [_ [Hk _]]]]]].
  rewrite (elem_key_nm a Hd). unfold fs_decode_key, decode_key. rewrite (from_db_key_default a Wa Hl Hk).
  cbn [obind]. rewrite Hb. reflexivity.
Qed.

Lemma name_facts st sp p a v :
  rel2 st sp -> dump_ok sp = true -> fs_wf2 a = true -> slookup a (sp_map sp) = Some v ->
  let b := sp_base sp in let n := nm false a in
  if dM b p n then
    same_space b a = true /\ a_lang a = None /\ is_prefix p (a_key a) = true
    /\ (len (elem_key n) <? len (b_pfx b :: p)) = false
    /\ fs_decode_key false (d_base st) (elem_key n) = Some (a_key a)
    /\ is_prefix (b_pfx b :: p) (hd 0 (elem_key n) :: a_key a) = true
    /\ fs_get false st (a_key a) = DVal v
  else
    (forall kk, fs_decode_key false (d_base st) (elem_key n) = Some kk ->
                is_prefix (b_pfx b :: p) (hd 0 (elem_key n) :: kk) = false)
    /\ (same_space b a = true -> is_prefix p (a_key a) = false).
Proof.
  intros R2 Hok W2 Hs. cbv zeta. pose proof R2 as [R [Hmw _]]. pose proof R as [Hb [_ [[Hdf _] _]]].
  pose proof (dump_ok_spec sp Hok) as [Hdoc [Hl [Hsid Hg2]]].
  pose proof (fs_wf2_spec a W2) as [Wa [Hda [_ [_ [_ [Hk _]]]]]].
  pose proof (slookup_in _ _ _ Hs) as Hin.
  set (b := sp_base sp) in *. set (n := nm false a) in *.
  assert (Hek : elem_key n = enc_a a) by (apply elem_key_nm; exact Hda).
  assert (Hhd : hd 0 (elem_key n) = a_typ a) by (rewrite Hek; reflexivity).
  destruct (same_space b a) eqn:Esp.
  - (* an entry of the current space *)
    assert (Ht : a_typ a = b_pfx b).
    { unfold same_space in Esp. apply andb_true_iff in Esp as [E _]. apply N.eqb_eq in E. exact E. }
    assert (Hla : a_lang a = None) by (apply (Hg2 a v Hin Ht)).
    assert (Hn : n = dq0 b ++ a_key a) by (apply nm_in_space; assumption).
    assert (HM : dM b p n = is_prefix p (a_key a)) by (unfold dM; rewrite Hn; apply is_prefix_app_same).
    assert (Hdec : fs_decode_key false (d_base st) (elem_key n) = Some (a_key a)).
    { unfold n. rewrite (decode_default st sp a R Hok W2 Hla).
      unfold from_session_key. cbn [model_base b_sid]. unfold a_sk. rewrite Ht.
      pose proof (same_space_eq b a Esp Hla) as Ea.
      destruct (sessioned (b_pfx b)) eqn:Ese.
      - assert (Hsa : a_sid a = b_sid b) by (rewrite Ea; unfold ctx_akey, a_sid; cbn [a_sess]; rewrite Ese; reflexivity).
        rewrite Hsa. fold b. destruct (sid_enc (b_sid b)) as [|c r] eqn:Esid.
        + exfalso. destruct (b_sid b) as [|c s]; [congruence|]. rewrite sid_enc_nonempty in Esid by discriminate.
          destruct s; discriminate.
        + rewrite <- Esid. rewrite is_prefix_app, (drop_app_exact _ _ _ eq_refl). reflexivity.
      - fold b. rewrite Hsid. reflexivity. }
    rewrite HM. destruct (is_prefix p (a_key a)) eqn:Ep.
    + repeat split; auto.
      * apply N.ltb_ge. rewrite Hek, enc_a_unfold, !len_cons, len_app.
        pose proof (is_prefix_len _ _ Ep). unfold a_sk. destruct (sessioned (a_typ a)); rewrite ?len_app; lia.
      * rewrite Hhd, Ht. cbn [is_prefix]. rewrite N.eqb_refl. exact Ep.
      * apply (fs_get_in_space st sp (a_key a) v R2 Hok).
        -- fold b. rewrite <- (same_space_eq b a Esp Hla). exact W2.
        -- fold b. rewrite <- (same_space_eq b a Esp Hla). exact Hs.
    + split; [|auto]. intros kk Hkk. rewrite Hdec in Hkk. injection Hkk as <-.
      rewrite Hhd, Ht. cbn [is_prefix]. rewrite N.eqb_refl. exact Ep.
  - (* an entry of another type or session *)
    assert (HM : dM b p n = false /\ (forall kk, fs_decode_key false (d_base st) (elem_key n) = Some kk ->
                is_prefix (b_pfx b :: p) (hd 0 (elem_key n) :: kk) = false)).
    { destruct (a_typ a =? b_pfx b) eqn:Et.
      - apply N.eqb_eq in Et. assert (Hla : a_lang a = None) by (apply (Hg2 a v Hin Et)).
        unfold same_space in Esp. rewrite Et, N.eqb_refl in Esp. cbn [andb] in Esp.
        destruct (sessioned (b_pfx b)) eqn:Ese.
        + (* another session *)
          assert (Hnp : is_prefix (sid_enc (b_sid b)) (a_sk a) = false).
          { destruct (is_prefix (sid_enc (b_sid b)) (a_sk a)) eqn:E; [|reflexivity]. exfalso.
            apply session_prefix in E; auto; [|rewrite Et; exact Ese]. rewrite E in Esp.
            rewrite (proj2 (obytes_eqb_eq _ _) eq_refl) in Esp. discriminate. }
          split.
          * unfold dM, dq0. fold b. rewrite Ese. unfold n. rewrite nm_unfold, Hla. cbn [lang_suffix]. rewrite app_nil_r.
            cbn [app is_prefix]. destruct (is_prefix (sid_enc (b_sid b) ++ p) (a_sk (fs_a false a))) eqn:E; [|apply andb_false_r].
            apply is_prefix_app_l in E. replace (a_sk (fs_a false a)) with (a_sk a) in E by (destruct a; reflexivity). congruence.
          * intros kk Hkk. unfold n in Hkk. rewrite (decode_default st sp a R Hok W2 Hla) in Hkk.
            unfold from_session_key in Hkk. cbn [model_base b_sid] in Hkk. fold b in Hkk.
            destruct (sid_enc (b_sid b)) as [|c r] eqn:Esid.
            -- exfalso. destruct (b_sid b) as [|c s]; [congruence|]. rewrite sid_enc_nonempty in Esid by discriminate.
               destruct s; discriminate.
            -- rewrite Hnp in Hkk. discriminate.
        + (* an unsessioned type has a single space *)
          exfalso. unfold wf_akey in Wa. apply andb_true_iff in Wa as [Wa _]. rewrite Et, Ese in Wa.
          destruct (a_sess a); [discriminate|]. discriminate.
      - (* another type: the first byte differs *)
        apply N.eqb_neq in Et. split.
        + unfold dM, dq0, n. rewrite nm_unfold. cbn [app is_prefix].
          replace (w8 (b_pfx b + fs_type_offset) =? w8 (a_typ a + fs_type_offset)) with false; [reflexivity|].
          symmetry. apply N.eqb_neq. intros E. apply w8_type_inj in E; auto.
        + intros kk _. rewrite Hhd. cbn [is_prefix].
          replace (b_pfx b =? a_typ a) with false; [reflexivity|]. symmetry. apply N.eqb_neq. congruence. }
    destruct HM as [HM Hdec]. rewrite HM. split; [exact Hdec|discriminate].
Qed.

Lemma skipw_head P l n r : skipw P l = n :: r -> P n = true /\ (forall m, In m r -> In m l) /\ In n l.
Proof.
  induction l as [|x l IH]; cbn [skipw]; [discriminate|]. destruct (P x) eqn:E.
  - intros H. injection H as -> ->. split; [exact E|]. split; [intros m Hm; right; exact Hm|left; reflexivity].
  - intros H. destruct (IH H) as [H1 [H2 H3]]. split; [exact H1|]. split; [intros m Hm; right; apply H2; exact Hm|right; exact H3].
Qed.

(* every name in the directory is the name of a well-formed entry of the reference map, and conversely *)
Lemma names_repr st sp n : rel2 st sp -> d_dir st <> [] -> In n (fs_readdir st) ->
  exists a v, fs_wf2 a = true /\ n = nm false a /\ slookup a (sp_map sp) = Some v.
Proof.
  intros R2 Hne Hin. pose proof R2 as [R [Hmw [Hfw Hnd]]]. pose proof R as [_ [_ [_ [_ [Hm _]]]]].
  destruct (readdir_facts st sp R2 Hne) as [_ [_ Hmem]]. apply Hmem in Hin as [v Hin].
  destruct (Hfw _ _ Hin) as [a [Wa E]]. apply path_str_inj in E. subst n. exists a, v. split; [exact Wa|]. split; [reflexivity|].
  rewrite <- (Hm a) by (apply fs_wf2_spec in Wa; tauto). apply in_alookup_nodup; assumption.
Qed.
Lemma repr_names st sp a v : rel2 st sp -> d_dir st <> [] -> fs_wf2 a = true -> slookup a (sp_map sp) = Some v ->
  In (nm false a) (fs_readdir st).
Proof.
  intros R2 Hne Wa Hs. pose proof R2 as [R _]. pose proof R as [_ [_ [_ [_ [Hm _]]]]].
  destruct (readdir_facts st sp R2 Hne) as [_ [_ Hmem]]. apply Hmem. exists v. apply alookup_in_pair.
  rewrite (Hm a) by (apply fs_wf2_spec in Wa; tauto). exact Hs.
Qed.

Definition dfk (st : dbstate) (n : bytes) : bytes :=
  match fs_decode_key false (d_base st) (elem_key n) with Some kk => kk | None => [] end.
Definition dfv (st : dbstate) (n : bytes) : bytes :=
  match fs_get false st (dfk st n) with DVal v => v | _ => [] end.

(* Dump in text mode = the matching names of the sorted directory, decoded and read *)
Lemma fs_dump_filter st sp p : rel2 st sp -> d_dir st <> [] -> dump_ok sp = true ->
  fs_dump false st p
  = match filter (dM (sp_base sp) p) (fs_readdir st) with
    | [] => DErr ENotFound
    | l => DDump (map (fun n => (dfk st n, dfv st n)) l)
    end.
Proof.
  intros R2 Hne Hok. pose proof R2 as [[Hb _] _].
  assert (H : forall n, In n (fs_readdir st) ->
     if dM (sp_base sp) p n then (len (elem_key n) <? len (b_pfx (sp_base sp) :: p)) = false
                 /\ fs_decode_key false (d_base st) (elem_key n) = Some (dfk st n)
                 /\ is_prefix (b_pfx (sp_base sp) :: p) (hd 0 (elem_key n) :: dfk st n) = true
                 /\ fs_get false st (dfk st n) = DVal (dfv st n)
     else forall kk, fs_decode_key false (d_base st) (elem_key n) = Some kk ->
                     is_prefix (b_pfx (sp_base sp) :: p) (hd 0 (elem_key n) :: kk) = false).
  { intros n Hin. destruct (names_repr st sp n R2 Hne Hin) as [a [v [Wa [-> Hs]]]].
    pose proof (name_facts st sp p a v R2 Hok Wa Hs) as F. cbv zeta in F.
    destruct (dM (sp_base sp) p (nm false a)).
    - destruct F as [_ [_ [_ [F1 [F2 [F3 F4]]]]]]. unfold dfv, dfk. rewrite F2, F4. auto.
    - destruct F as [F _]. exact F. }
  unfold fs_dump. rewrite Hb. cbn [model_base b_pfx].
  destruct (readdir_facts st sp R2 Hne) as [Hsorted _].
  rewrite (dump_first_shape st _ (dM (sp_base sp) p) (dfk st) (dfv st) _ H).
  assert (Ef : takew (dM (sp_base sp) p) (skipw (dM (sp_base sp) p) (fs_readdir st)) = filter (dM (sp_base sp) p) (fs_readdir st))
    by (exact (takew_skipw_filter (dq0 (sp_base sp) ++ p) _ Hsorted)).
  rewrite <- Ef.
  destruct (skipw (dM (sp_base sp) p) (fs_readdir st)) as [|n r] eqn:Esk; [reflexivity|].
  destruct (skipw_head _ _ _ _ Esk) as [Hn [Hr _]]. cbn [takew]. rewrite Hn. cbn [map]. f_equal. f_equal.
  apply dump_rest_shape. intros m Hm. specialize (H m (Hr m Hm)).
  destruct (dM (sp_base sp) p m); [tauto|exact H].
Qed.

Theorem fs_dump_state_lemma st sp p : rel2 st sp -> d_dir st <> [] -> dump_ok sp = true ->
  match fs_dump false st p with
  | DDump l =>
    (forall k v, In (k, v) l <-> is_prefix p k = true /\ slookup (ctx_akey (sp_base sp) None k) (sp_map sp) = Some v)
    /\ NoDup (map fst l) /\ l <> []
  | DErr ENotFound =>
    forall k, is_prefix p k = true -> slookup (ctx_akey (sp_base sp) None k) (sp_map sp) = None
  | _ => False
  end.
Proof.
  intros R2 Hne Hok. rewrite (fs_dump_filter st sp p R2 Hne Hok).
  pose proof R2 as [_ [Hmw _]].
  destruct (readdir_facts st sp R2 Hne) as [_ [Hnd _]].
  set (b := sp_base sp). set (L := filter (dM b p) (fs_readdir st)).
  (* membership in the listing *)
  assert (Hmem : forall k v, In (k, v) (map (fun n => (dfk st n, dfv st n)) L)
                 <-> is_prefix p k = true /\ slookup (ctx_akey b None k) (sp_map sp) = Some v).
  { intros k v. rewrite in_map_iff. split.
    - intros [n [E Hin]]. apply filter_In in Hin as [Hin HM].
      destruct (names_repr st sp n R2 Hne Hin) as [a [w [Wa [-> Hs]]]].
      pose proof (name_facts st sp p a w R2 Hok Wa Hs) as F. cbv zeta in F. fold b in F. rewrite HM in F.
      destruct F as [F1 [F2 [F3 [_ [F5 [_ F7]]]]]].
      unfold dfv, dfk in E. rewrite F5, F7 in E. injection E as <- <-.
      split; [exact F3|]. rewrite <- (same_space_eq b a F1 F2). exact Hs.
    - intros [Hp Hs]. set (a := ctx_akey b None k) in *.
      assert (Wa : fs_wf2 a = true) by (apply (Hmw a v); apply slookup_in; exact Hs).
      exists (nm false a). pose proof (name_facts st sp p a v R2 Hok Wa Hs) as F. cbv zeta in F. fold b in F.
      assert (HM : dM b p (nm false a) = true).
      { unfold dM. rewrite (nm_in_space b a (same_space_ctx b k) eq_refl). rewrite is_prefix_app_same. exact Hp. }
      rewrite HM in F. destruct F as [_ [_ [_ [_ [F5 [_ F7]]]]]].
      split.
      + unfold dfv, dfk. rewrite F5. cbn [a a_key ctx_akey] in *. rewrite F7. reflexivity.
      + apply filter_In. split; [|exact HM]. apply (repr_names st sp a v); assumption. }
  assert (Hnodup : NoDup (map fst (map (fun n => (dfk st n, dfv st n)) L))).
  { rewrite map_map. cbn [fst]. apply NoDup_map_inj_in; [|apply NoDup_filter; exact Hnd].
    intros x y Hx Hy E. apply filter_In in Hx as [Hx Mx]. apply filter_In in Hy as [Hy My].
    destruct (names_repr st sp x R2 Hne Hx) as [a [v [Wa [-> Hsa]]]].
    destruct (names_repr st sp y R2 Hne Hy) as [a' [v' [Wa' [-> Hsa']]]].
    pose proof (name_facts st sp p a v R2 Hok Wa Hsa) as F. cbv zeta in F. fold b in F. rewrite Mx in F.
    pose proof (name_facts st sp p a' v' R2 Hok Wa' Hsa') as F'. cbv zeta in F'. fold b in F'. rewrite My in F'.
    destruct F as [F1 [F2 [_ [_ [F5 _]]]]]. destruct F' as [F1' [F2' [_ [_ [F5' _]]]]].
    unfold dfk in E. rewrite F5, F5' in E.
    rewrite (same_space_eq b a F1 F2), (same_space_eq b a' F1' F2'), E. reflexivity. }
  destruct L as [|n L'] eqn:EL.
  - intros k Hp. destruct (slookup (ctx_akey b None k) (sp_map sp)) as [v|] eqn:Es; [|reflexivity].
    exfalso. apply (proj2 (Hmem k v)). split; assumption.
  - split; [exact Hmem|]. split; [exact Hnodup|discriminate].
Qed.

(* the history-level statement *)
Theorem fs_dump_lists_prefix_partial_lemma : forall dir ops p,
  dir_ok dir = true -> dir <> [] ->
  fs_hist_ok false spec_init ops = true -> forallb put_key_nonempty ops = true ->
  let st := fst (db_run (BFs false) (db_init dir) ops) in
  let sp := fst (spec_run spec_init ops) in
  dump_ok sp = true ->
  match fs_dump false st p with
  | DDump l =>
    (forall k v, In (k, v) l <-> is_prefix p k = true /\ slookup (ctx_akey (sp_base sp) None k) (sp_map sp) = Some v)
    /\ NoDup (map fst l) /\ l <> []
  | DErr ENotFound =>
    forall k, is_prefix p k = true -> slookup (ctx_akey (sp_base sp) None k) (sp_map sp) = None
  | _ => False
  end.
Proof.
  intros dir ops p Hd Hne Hok Hk st sp Hdump.
  assert (R2 : rel2 st sp) by (apply rel2_run; [apply rel2_init; exact Hd|exact Hok|exact Hk]).
  apply fs_dump_state_lemma; [exact R2| |exact Hdump].
  destruct R2 as [[_ _] _]. unfold st.
  assert (Hdir : forall ops0 st0, d_dir (fst (db_run (BFs false) st0 ops0)) = d_dir st0).
  { induction ops0 as [|o ops0 IH]; intros st0; [reflexivity|]. cbn [db_run].
    assert (E : d_dir (fst (db_step (BFs false) st0 o)) = d_dir st0).
    { destruct o; cbn [db_step fst with_base d_dir]; try reflexivity.
      - unfold fs_put, fs_write. destruct (negb (check_put (d_base st0))); [reflexivity|].
        destruct (fs_to_key false (d_base st0) k); try reflexivity.
        repeat match goal with |- context [if ?c then _ else _] => destruct c end; reflexivity.
      - destruct (set_lock (d_base st0) p0 lk). reflexivity. }
    destruct (db_step (BFs false) st0 o) as [st1 x]. cbn [fst] in E. specialize (IH st1).
    destruct (db_run (BFs false) st1 ops0). cbn [fst] in *. congruence. }
  rewrite Hdir. exact Hne.
Qed.

(* ---- the reference map means what the property says --------------------------------------------------------- *)
(* a successful write is what the next read in the same context returns *)
Lemma spec_read_your_write sp k v :
  snd (spec_put sp k v) = DOk -> spec_get (fst (spec_put sp k v)) k = DVal v.
Proof.
  unfold spec_put. destruct (negb (check_put (sp_base sp))); [discriminate|].
  destruct (b_pfx (sp_base sp) =? DATATYPE_UNKNOWN) eqn:Ep; [discriminate|]. intros _. cbn [fst].
  unfold spec_get. cbn [sp_base sp_map]. rewrite Ep.
  destruct (eff_lang (sp_base sp)) as [c|]; cbn [slookup]; rewrite akey_eqb_refl; reflexivity.
Qed.
(* a key never written (neither as translation nor as default entry) is reported as not found *)
Lemma spec_never_written sp k :
  b_pfx (sp_base sp) <> DATATYPE_UNKNOWN ->
  (forall l, slookup (ctx_akey (sp_base sp) l k) (sp_map sp) = None) ->
  spec_get sp k = DErr ENotFound.
Proof.
  intros Hp H. unfold spec_get. replace (b_pfx (sp_base sp) =? DATATYPE_UNKNOWN) with false by (symmetry; apply N.eqb_neq; exact Hp).
  rewrite (H None). destruct (eff_lang (sp_base sp)) as [c|]; [rewrite (H (Some c))|]; reflexivity.
Qed.
(* a language-scoped read falls back to the default-language entry when no translation exists *)
Lemma spec_fallback_default sp k c v :
  b_pfx (sp_base sp) <> DATATYPE_UNKNOWN -> eff_lang (sp_base sp) = Some c ->
  slookup (ctx_akey (sp_base sp) (Some c) k) (sp_map sp) = None ->
  slookup (ctx_akey (sp_base sp) None k) (sp_map sp) = Some v ->
  spec_get sp k = DVal v.
Proof.
  intros Hp El Ht Hd. unfold spec_get. replace (b_pfx (sp_base sp) =? DATATYPE_UNKNOWN) with false by (symmetry; apply N.eqb_neq; exact Hp).
  rewrite El, Ht, Hd. reflexivity.
Qed.

(* K-C10-8: Dump of a sessioned type while no session id is set lists every session's entries, under
   keys that carry the session prefix (FromSessionKey returns the key unchanged for an empty id) *)
Definition w_dump_nosess : list dbop :=
  [OSetPrefix DATATYPE_STATE; OPut (s2b "b1") (s2b "v1"); OSetSession (s2b "x"); OPut (s2b "a1") (s2b "v2");
   OSetSession []].
Theorem fs_refuted_dump_without_session :
  exists ops p, fs_hist_ok false spec_init ops = true /\ forallb put_key_nonempty ops = true
    /\ dump_ok (ref_state ops) = false
    /\ fs_dump false (fs_state false ops) p = DDump [(s2b "b1", s2b "v1"); (s2b "x.a1", s2b "v2")]
    /\ spec_dump (ref_state ops) p = DDump [(s2b "b1", s2b "v1")].
Proof. exists w_dump_nosess, []. vm_compute. repeat split. Qed.

(* ================================================================================================== *)
(* C11 for listings: what a Dump returns belongs to the current (type, session)                      *)
(* ================================================================================================== *)
(* ---- listings are confined to the current (type, session) ------------------------------------------------ *)
(* mem / pg: every stored row is the entry of a well-formed key of the reference map *)
Definition kv_rel2 (enc : bytes -> bytes) (st : dbstate) (sp : spec) : Prop :=
  kv_rel enc st sp
  /\ (forall p v, In (p, v) (d_store st) -> exists a, wf_akey a = true /\ p = enc (enc_a a))
  /\ NoDup (map fst (d_store st)).

Lemma kv_put_store enc st sp k v :
  kv_rel enc st sp -> key_ok (sp_base sp) k = true ->
  fst (kv_put enc st k v) = st
  \/ exists a0, wf_akey a0 = true /\ fst (kv_put enc st k v) = with_store st (aset (enc (enc_a a0)) v (d_store st)).
Proof.
  intros [Hb [Hc Hm]] Hk. unfold kv_put. rewrite Hb, check_put_model.
  destruct (check_put (sp_base sp)); cbn [negb]; [|left; reflexivity].
  destruct (b_pfx (sp_base sp) =? DATATYPE_UNKNOWN) eqn:Hp.
  - apply N.eqb_eq in Hp. unfold to_key. cbn [model_base b_pfx]. rewrite Hp.
    change (DATATYPE_UNKNOWN =? DATATYPE_UNKNOWN) with true. left. reflexivity.
  - apply N.eqb_neq in Hp. rewrite (to_key_model _ k Hp Hc). cbn [lk_translation lk_default fst].
    destruct (ctx_akey_wf _ _ Hc Hk) as [Wd Wt]. right.
    destruct (eff_lang (sp_base sp)) as [c|] eqn:El; cbn [option_map].
    + exists (ctx_akey (sp_base sp) (Some c) k). split; [apply Wt; reflexivity|reflexivity].
    + exists (ctx_akey (sp_base sp) None k). split; [exact Wd|reflexivity].
Qed.

Lemma kv_rel2_step be st sp o :
  is_kv be = true -> (forall x y, be_enc be x = be_enc be y -> x = y) ->
  kv_rel2 (be_enc be) st sp -> op_ok (sp_base sp) o = true ->
  kv_rel2 (be_enc be) (fst (db_step be st o)) (fst (spec_step sp o)).
Proof.
  intros Hkv Hinj [R [Hw Hnd]] Hok.
  destruct (kv_step_refines be st sp o Hkv Hinj R Hok) as [R' _]. split; [exact R'|].
  destruct o as [k v|k|p|s|l|p lk|k|k|k]; cbn [op_ok] in Hok; try discriminate.
  - assert (E : db_step be st (OPut k v) = kv_put (be_enc be) st k v) by (destruct be; [reflexivity|reflexivity|discriminate]).
    rewrite E. destruct (kv_put_store (be_enc be) st sp k v R Hok) as [E1|[a0 [W0 E1]]]; rewrite E1; [auto|].
    cbn [with_store d_store]. split.
    + intros p w Hin. apply in_aset in Hin as [Ep|Hin]; [|apply Hw in Hin; exact Hin].
      injection Ep as -> _. exists a0. auto.
    + apply nodup_aset. exact Hnd.
  - cbn [db_step fst]. auto.
  - cbn [db_step fst with_base d_store]. auto.
  - cbn [db_step fst with_base d_store]. auto.
  - cbn [db_step fst with_base d_store]. auto.
  - cbn [db_step]. destruct (set_lock (d_base st) p lk). cbn [fst with_base d_store]. auto.
Qed.

Lemma kv_rel2_run be : is_kv be = true -> (forall x y, be_enc be x = be_enc be y -> x = y) ->
  forall ops st sp, kv_rel2 (be_enc be) st sp -> hist_ok sp ops = true ->
  kv_rel2 (be_enc be) (fst (db_run be st ops)) (fst (spec_run sp ops)).
Proof.
  intros Hkv Hinj. induction ops as [|o ops IH]; intros st sp R Hok; [exact R|].
  cbn [hist_ok] in Hok. apply andb_true_iff in Hok as [Ho Hr].
  pose proof (kv_rel2_step be st sp o Hkv Hinj R Ho) as R'.
  cbn [db_run spec_run]. destruct (db_step be st o) as [st' x]. destruct (spec_step sp o) as [sp' x'].
  cbn [fst] in R', Hr. specialize (IH st' sp' R' Hr).
  destruct (db_run be st' ops). destruct (spec_run sp' ops). exact IH.
Qed.

Lemma kv_rel2_init enc dir : kv_rel2 enc (db_init dir) spec_init.
Proof. split; [apply kv_rel_init|]. split; [intros p v []|constructor]. Qed.

(* the guard of the Postgres listing: a documented type (a sessioned type is then not
   language-scoped, so no language suffix can imitate a session prefix) and a session id for the
   sessioned types (without one the prefix "type byte + key" matches every session: K-C11-2) *)
Definition pg_list_ok (sp : spec) : bool :=
  let b := sp_base sp in
  documented_type (b_pfx b)
  && (if sessioned (b_pfx b) then negb (is_nil (b_sid b)) else true).

Lemma ainsert_in {V} k (v : V) l x : In x (ainsert k v l) -> x = (k, v) \/ In x l.
Proof.
  induction l as [|[k' v'] l IH]; cbn [ainsert]; intros H.
  - destruct H as [H|[]]. left. symmetry. exact H.
  - destruct (bytes_leb k k').
    + destruct H as [H|H]; [left; symmetry; exact H|right; exact H].
    + destruct H as [H|H]; [right; left; exact H|]. destruct (IH H) as [H1|H1]; [left; exact H1|right; right; exact H1].
Qed.
Lemma asort_in {V} (l : list (bytes * V)) x : In x (asort l) -> In x l.
Proof.
  unfold asort. induction l as [|[k v] l IH]; cbn [fold_right]; [auto|]. intros H.
  apply ainsert_in in H as [H|H]; [left; symmetry; exact H|right; apply IH; exact H].
Qed.

Lemma pg_rest_in b lo rows k v : In (k, v) (pg_dump_rest b lo rows) ->
  exists rk, In (rk, v) rows /\ is_prefix lo rk = true.
Proof.
  induction rows as [|[rk w] rows IH]; cbn [pg_dump_rest]; [intros []|].
  destruct (is_prefix lo rk) eqn:Ep; [|intros []].
  destruct (decode_key b rk) as [kk|e|n] eqn:E; [|intros []|intros []].
  intros [H|H].
  - injection H as -> ->. exists rk. split; [left; reflexivity|exact Ep].
  - destruct (IH H) as [rk' [H1 H2]]. exists rk'. split; [right; exact H1|exact H2].
Qed.

Lemma bytes_leb_head t x t' y : bytes_leb (t :: x) (t' :: y) = true -> t <= t'.
Proof. cbn [bytes_leb]. destruct (t <? t') eqn:E1; [lia|]. destruct (t' <? t) eqn:E2; [discriminate|lia]. Qed.

Lemma documented_sessioned_not_lang t : documented_type t = true -> sessioned t = true -> lang_type t = false.
Proof. intros H Hs. apply documented_cases in H. destruct H as [H|[H|[H|[H|[H|H]]]]]; rewrite H in *; try discriminate; reflexivity. Qed.

Theorem pg_listing_isolated_state st sp p l :
  kv_rel2 (fun x => x) st sp -> pg_list_ok sp = true ->
  snd (db_step BPg st (ODump p)) = DDump l ->
  forall k v, In (k, v) l ->
  exists a, same_space (sp_base sp) a = true /\ slookup a (sp_map sp) = Some v.
Proof.
  intros [[Hb [[Hdf _] Hm]] [Hw Hnd]] Hok Hd k v Hin.
  unfold pg_list_ok in Hok. apply andb_true_iff in Hok as [Hdoc Hsid].
  cbn [db_step snd] in Hd. unfold pg_dump in Hd.
  set (b := set_language (d_base st) None) in *.
  destruct (to_key b p) as [lk| |] eqn:Etk; try discriminate. cbv zeta in Hd.
  (* every listed pair comes from a stored row that begins with the lower bound *)
  assert (Hrow : exists rk, In (rk, v) (pg_rows_from st (lk_default lk)) /\ is_prefix (lk_default lk) rk = true).
  { destruct (pg_rows_from st (lk_default lk)) as [|[rk0 v0] r] eqn:Er; [discriminate|].
    destruct (is_prefix (lk_default lk) rk0) eqn:Ep0; cbn [negb] in Hd; [|discriminate].
    destruct (decode_key b rk0) as [kk0| |] eqn:E0; try discriminate. injection Hd as <-.
    destruct Hin as [H|H].
    - injection H as -> ->. exists rk0. split; [left; reflexivity|exact Ep0].
    - apply pg_rest_in in H as [rk [H1 H2]]. exists rk. split; [right; exact H1|exact H2]. }
  destruct Hrow as [rk [Hr Hpre]]. unfold pg_rows_from in Hr. apply filter_In in Hr as [Hr _].
  apply asort_in in Hr.
  destruct (Hw _ _ Hr) as [a [Wa ->]].
  assert (Hs : slookup a (sp_map sp) = Some v).
  { rewrite <- (Hm a Wa). apply in_alookup_nodup; assumption. }
  exists a. split; [|exact Hs].
  (* the lower bound is the type byte followed by the session prefix and the requested key prefix *)
  unfold to_key in Etk. destruct (b_pfx b =? DATATYPE_UNKNOWN); [discriminate|]. injection Etk as <-.
  cbn [lk_default] in Hpre. unfold to_db_key in Hpre. cbn [lang_suffix] in Hpre. rewrite app_nil_r in Hpre.
  rewrite enc_a_unfold in Hpre. cbn [is_prefix] in Hpre. apply andb_true_iff in Hpre as [Ht Hpre].
  apply N.eqb_eq in Ht.
  assert (Hp : b_pfx (d_base st) = b_pfx (sp_base sp)) by (rewrite Hb; reflexivity).
  rewrite Hp in Ht, Hpre. symmetry in Ht.
  unfold same_space. rewrite Ht, N.eqb_refl. cbn [andb]. apply obytes_eqb_eq.
  pose proof Wa as Wa'. unfold wf_akey in Wa'. apply andb_true_iff in Wa' as [Ws Wl]. rewrite Ht in Ws, Wl.
  destruct (sessioned (b_pfx (sp_base sp))) eqn:Ese.
  - (* sessioned: the stored key begins with the session prefix "s." *)
    pose proof (documented_sessioned_not_lang _ Hdoc Ese) as Hnl. rewrite Hnl in Wl.
    destruct (a_lang a) eqn:El; [discriminate|]. cbn [lang_suffix] in Hpre. rewrite app_nil_r in Hpre.
    unfold to_session_key in Hpre. rewrite Ese in Hpre.
    assert (Hbs : b_sid b = sid_enc (b_sid (sp_base sp))) by (unfold b; rewrite Hb; reflexivity).
    rewrite Hbs in Hpre. apply is_prefix_app_l in Hpre. apply negb_true_iff in Hsid.
    destruct (b_sid (sp_base sp)) as [|c s] eqn:Esid; [discriminate|].
    apply (session_prefix (c :: s) a); auto; [discriminate|rewrite Ht; exact Ese].
  - destruct (a_sess a); [discriminate|reflexivity].
Qed.

Theorem pg_listing_isolated_partial_lemma : forall dir ops p l,
  hist_ok spec_init ops = true ->
  let st := fst (db_run BPg (db_init dir) ops) in
  let sp := fst (spec_run spec_init ops) in
  pg_list_ok sp = true ->
  snd (db_step BPg st (ODump p)) = DDump l ->
  forall k v, In (k, v) l -> exists a, same_space (sp_base sp) a = true /\ slookup a (sp_map sp) = Some v.
Proof.
  intros dir ops p l Hok st sp Hg Hd. apply (pg_listing_isolated_state st sp p l); [|exact Hg|exact Hd].
  apply (kv_rel2_run BPg eq_refl); [intros x y E; exact E|apply kv_rel2_init|exact Hok].
Qed.

(* fs (text mode, guard dump_ok): the listing theorem already gives every listed pair as an entry of
   the current (type, session) *)
Theorem fs_listing_isolated_partial_lemma : forall dir ops p l,
  dir_ok dir = true -> dir <> [] ->
  fs_hist_ok false spec_init ops = true -> forallb put_key_nonempty ops = true ->
  let st := fst (db_run (BFs false) (db_init dir) ops) in
  let sp := fst (spec_run spec_init ops) in
  dump_ok sp = true -> fs_dump false st p = DDump l ->
  forall k v, In (k, v) l -> exists a, same_space (sp_base sp) a = true /\ slookup a (sp_map sp) = Some v.
Proof.
  intros dir ops p l Hd Hne Hok Hk st sp Hg E k v Hin.
  pose proof (fs_dump_lists_prefix_partial_lemma dir ops p Hd Hne Hok Hk Hg) as H. fold st sp in H. rewrite E in H.
  destruct H as [H _]. apply H in Hin as [_ Hs].
  exists (ctx_akey (sp_base sp) None k). split; [apply same_space_ctx|exact Hs].
Qed.

(* a value is owned by the current (type, session) if some entry of that space holds it *)
Definition owned (sp : spec) (v : bytes) : bool :=
  existsb (fun e : akey * bytes => same_space (sp_base sp) (fst e) && bytes_eqb (snd e) v) (sp_map sp).
Lemma owned_of_entry sp v a : same_space (sp_base sp) a = true -> slookup a (sp_map sp) = Some v -> owned sp v = true.
Proof.
  intros Hs Hl. unfold owned. apply existsb_exists. exists (a, v). split; [apply slookup_in; exact Hl|].
  cbn [fst snd]. rewrite Hs, bytes_eqb_refl. reflexivity.
Qed.

(* regression (repaired K-C11-5): the Postgres listing of STATE used to run on into the USERDATA rows of
   the same session id; with the prefix comparison it lists the STATE entry only *)
Definition w_pg_dump : list dbop :=
  [OSetPrefix DATATYPE_STATE; OSetSession (s2b "s"); OPut (s2b "a") (s2b "state-a");
   OSetPrefix DATATYPE_USERDATA; OPut (s2b "u") (s2b "user-u"); OSetPrefix DATATYPE_STATE].
Lemma pg_dump_cross_type_regression :
  hist_ok spec_init w_pg_dump = true /\ pg_list_ok (ref_state w_pg_dump) = true
  /\ snd (db_step BPg (fst (db_run BPg (db_init []) w_pg_dump)) (ODump [])) = DDump [(s2b "a", s2b "state-a")]
  /\ owned (ref_state w_pg_dump) (s2b "state-a") = true /\ owned (ref_state w_pg_dump) (s2b "user-u") = false.
Proof. vm_compute. repeat split. Qed.
