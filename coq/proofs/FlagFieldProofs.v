(* FlagFieldProofs.v — the flag field of the state model (StateModel.get_flag / set_flag / reset_flag /
   match_flag over new_state) behaves as a SET OF FLAG INDICES, for every flag count with
   count + 8 <= 2040 (a bit field of at most 255 bytes: beyond that NewState's uint8 byte size wraps)
   and every sequence of operations; tie between the model and FlagCorr's monitor fl_c06_ok.
   Self-contained: builds only on Bytes / StateModel / FlagCorr and BytesProofs (bytes_eqb_eq). *)
From Coq Require Import Lia ZArith ZifyN ZifyNat ZifyBool.
From Vise Require Import Bytes Errors Consts StateModel CorrBase FlagCorr BytesProofs.
Local Open Scope N_scope.

Local Ltac Zify.zify_post_hook ::= Z.div_mod_to_equations.

(* ======================================================================================== *)
(* 0. lists of bits                                                                          *)
(* ======================================================================================== *)

Lemma ff_length_falses : forall n, List.length (falses n) = n.
Proof. induction n as [|n IH]; cbn [falses List.length]; congruence. Qed.

Lemma ff_nth_falses : forall n k, nth k (falses n) false = false.
Proof. induction n as [|n IH]; intros [|k]; cbn [falses nth]; auto. Qed.

Lemma ff_length_snb : forall l n v, List.length (set_nth_bit n v l) = List.length l.
Proof. induction l as [|x l IH]; intros [|n] v; cbn [set_nth_bit List.length]; auto. Qed.

Lemma ff_nth_snb_same : forall l n v, (n < List.length l)%nat -> nth n (set_nth_bit n v l) false = v.
Proof.
  induction l as [|x l IH]; intros [|n] v Hlt; cbn [set_nth_bit nth List.length] in *; try lia; auto.
  apply IH. lia.
Qed.

Lemma ff_nth_snb_other : forall l n m v, n <> m -> nth n (set_nth_bit m v l) false = nth n l false.
Proof.
  induction l as [|x l IH]; intros [|n] [|m] v Hne; cbn [set_nth_bit nth]; auto; try congruence.
Qed.

Lemma ff_nth_nil_N : forall k, nth k (@nil N) 0 = 0.
Proof. intros [|k]; reflexivity. Qed.
Lemma ff_nth_nil_bool : forall k, nth k (@nil bool) false = false.
Proof. intros [|k]; reflexivity. Qed.

(* ======================================================================================== *)
(* 1. the reference set                                                                      *)
(* ======================================================================================== *)

Lemma mem_n_nil : forall i, mem_n i [] = false.
Proof. reflexivity. Qed.

Lemma mem_n_cons : forall i j l, mem_n i (j :: l) = (i =? j) || mem_n i l.
Proof. reflexivity. Qed.

Lemma mem_n_del : forall i j l, mem_n i (del_n j l) = negb (i =? j) && mem_n i l.
Proof.
  intros i j l. induction l as [|x l IH].
  - cbn [del_n filter]. rewrite mem_n_nil. apply eq_sym, andb_false_r.
  - unfold del_n in *. cbn [filter]. destruct (x =? j) eqn:Exj; cbn [negb].
    + rewrite IH, mem_n_cons. destruct (i =? j) eqn:Eij; cbn [negb andb]; [reflexivity|].
      destruct (i =? x) eqn:Eix; [|reflexivity]. exfalso. lia.
    + rewrite !mem_n_cons, IH. destruct (i =? j) eqn:Eij; cbn [negb andb]; [|reflexivity].
      destruct (i =? x) eqn:Eix; [|reflexivity]. exfalso. lia.
Qed.

(* ======================================================================================== *)
(* 2. byte size and range check within the property's flag counts                            *)
(* ======================================================================================== *)

Lemma to_byte_size_small : forall b, 0 < b -> b <= 2040 -> to_byte_size b = (b + 7) / 8.
Proof.
  intros b Hpos Hle. unfold to_byte_size, w8, w32.
  destruct (b =? 0) eqn:Eb0; [lia|].
  destruct (b mod 8 =? 0) eqn:Em; lia.
Qed.

Lemma new_state_bitsize : forall count, count + 8 <= 2040 -> s_bitsize (new_state count) = count + 8.
Proof. intros count Hle. unfold new_state. cbn [s_bitsize]. unfold w32. lia. Qed.

Lemma new_state_flags : forall count, count + 8 <= 2040 ->
  s_flags (new_state count) = falses (N.to_nat (8 * ((count + 15) / 8))).
Proof.
  intros count Hle. unfold new_state. cbn [s_flags].
  replace (w32 (count + 8)) with (count + 8) by (unfold w32; lia).
  rewrite to_byte_size_small by lia.
  replace (count + 8 + 7) with (count + 15) by lia. reflexivity.
Qed.

(* the invariant: the state's flag field IS the set *)
Definition FR (count : N) (s : state) (set : list N) : Prop :=
  s_bitsize s = count + 8 /\
  len (s_flags s) = 8 * ((count + 15) / 8) /\
  forall i, nth (N.to_nat i) (s_flags s) false = mem_n i set.

Lemma FR_new : forall count, count + 8 <= 2040 -> FR count (new_state count) [].
Proof.
  intros count Hle. unfold FR. rewrite new_state_bitsize, new_state_flags by exact Hle.
  split; [reflexivity|]. split.
  - unfold len. rewrite ff_length_falses. lia.
  - intros i. rewrite ff_nth_falses. reflexivity.
Qed.

(* the range check of GetFlag/SetFlag/ResetFlag is exactly "the flag exists", for EVERY i : N:
   i = 2^32 - 1 passes the uint32 test (w32 (i + 1) = 0) but fails the slice index *)
Lemma FR_in_range : forall count s set i, count + 8 <= 2040 -> FR count s set ->
  flag_in_range s i = fl_exists count i.
Proof.
  intros count s set i Hle (Hb & Hl & _). unfold flag_in_range, fl_exists, w32. rewrite Hb, Hl.
  destruct (i <? count + 8) eqn:Ei.
  - apply andb_true_intro. split; lia.
  - destruct (i <? 8 * ((count + 15) / 8)) eqn:Ej; [|apply andb_false_r].
    rewrite andb_true_r. lia.
Qed.

Lemma FR_lt_length : forall count s set i, FR count s set -> i < count + 8 ->
  (N.to_nat i < List.length (s_flags s))%nat.
Proof. intros count s set i (_ & Hl & _) Hi. unfold len in Hl. lia. Qed.

(* ======================================================================================== *)
(* 3. one operation                                                                          *)
(* ======================================================================================== *)

Definition fop_idx (o : fop) : N := match o with FSet i | FReset i | FGet i | FMatch i _ => i end.

(* the reference, one operation: new set and the expected answer *)
Definition fl_ref_step (count : N) (set : list N) (o : fop) : list N * fobs :=
  let i := fop_idx o in
  if negb (fl_exists count i) then (set, FPanic) else
  match o with
  | FSet _ => (if mem_n i set then set else i :: set, FB (negb (mem_n i set)))
  | FReset _ => (del_n i set, FB (mem_n i set))
  | FGet _ => (set, FB (mem_n i set))
  | FMatch _ m => (set, FB (Bool.eqb m (mem_n i set)))
  end.

Lemma fl_ref_run_cons : forall count set o r ops,
  fl_ref_run count set ((o, r) :: ops) =
  let '(set1, want) := fl_ref_step count set o in
  let '(ok, set') := fl_ref_run count set1 ops in (fobs_eqb r want && ok, set').
Proof.
  intros count set o r ops. cbn [fl_ref_run]. unfold fl_ref_step, fop_idx.
  destruct o as [i|i|i|i m]; cbv beta iota zeta;
    destruct (negb (fl_exists count i)); reflexivity.
Qed.

Lemma FR_set : forall count s set i, FR count s set -> i < count + 8 ->
  FR count (set_flags s (set_nth_bit (N.to_nat i) true (s_flags s))) (if mem_n i set then set else i :: set).
Proof.
  intros count s set i HFR Hi. pose proof (FR_lt_length _ _ _ _ HFR Hi) as Hlt.
  destruct HFR as (Hb & Hl & Hn). unfold FR. cbn [s_bitsize s_flags set_flags].
  split; [exact Hb|]. split.
  - unfold len in *. rewrite ff_length_snb. exact Hl.
  - intros j. destruct (N.eq_dec j i) as [->|Hne].
    + rewrite ff_nth_snb_same by exact Hlt.
      destruct (mem_n i set) eqn:Em; [auto|]. rewrite mem_n_cons, N.eqb_refl. reflexivity.
    + rewrite ff_nth_snb_other by lia. rewrite Hn.
      destruct (mem_n i set) eqn:Em; [reflexivity|]. rewrite mem_n_cons.
      destruct (j =? i) eqn:Eji; [lia|reflexivity].
Qed.

Lemma FR_reset : forall count s set i, FR count s set -> i < count + 8 ->
  FR count (set_flags s (set_nth_bit (N.to_nat i) false (s_flags s))) (del_n i set).
Proof.
  intros count s set i HFR Hi. pose proof (FR_lt_length _ _ _ _ HFR Hi) as Hlt.
  destruct HFR as (Hb & Hl & Hn). unfold FR. cbn [s_bitsize s_flags set_flags].
  split; [exact Hb|]. split.
  - unfold len in *. rewrite ff_length_snb. exact Hl.
  - intros j. rewrite mem_n_del. destruct (N.eq_dec j i) as [->|Hne].
    + rewrite ff_nth_snb_same by exact Hlt. rewrite N.eqb_refl. reflexivity.
    + rewrite ff_nth_snb_other by lia. rewrite Hn.
      destruct (j =? i) eqn:Eji; [lia|reflexivity].
Qed.

(* every operation: the model answers what the reference expects and the invariant is kept *)
Lemma FR_step : forall count s set o, count + 8 <= 2040 -> FR count s set ->
  FR count (fst (fl_model_step s o)) (fst (fl_ref_step count set o)) /\
  snd (fl_model_step s o) = snd (fl_ref_step count set o).
Proof.
  intros count s set o Hle HFR.
  pose proof (FR_in_range count s set (fop_idx o) Hle HFR) as Hr.
  assert (Hn : nth (N.to_nat (fop_idx o)) (s_flags s) false = mem_n (fop_idx o) set)
    by (destruct HFR as (_ & _ & Hn); apply Hn).
  unfold fl_model_step, fl_ref_step, set_flag, reset_flag, match_flag, get_flag.
  destruct o as [i|i|i|i m]; cbn [fop_idx] in *; rewrite Hr;
    destruct (fl_exists count i) eqn:Ex; cbn [negb obind fst snd]; try (split; [exact HFR|reflexivity]).
  - unfold fl_exists in Ex. split; [apply FR_set; [exact HFR|lia]|]. rewrite Hn. reflexivity.
  - unfold fl_exists in Ex. split; [apply FR_reset; [exact HFR|lia]|]. rewrite Hn. reflexivity.
  - split; [exact HFR|]. rewrite Hn. reflexivity.
  - split; [exact HFR|]. rewrite Hn. reflexivity.
Qed.

(* ======================================================================================== *)
(* 4. every sequence of operations                                                           *)
(* ======================================================================================== *)

(* the model's answers, in sequence, and its final state *)
Fixpoint fl_model_answers (s : state) (ops : list fop) : list fobs :=
  match ops with
  | [] => []
  | o :: ops' => let '(s', r) := fl_model_step s o in r :: fl_model_answers s' ops'
  end.
Fixpoint fl_model_final (s : state) (ops : list fop) : state :=
  match ops with
  | [] => s
  | o :: ops' => fl_model_final (fst (fl_model_step s o)) ops'
  end.
(* the reference's expected answers and its final set *)
Fixpoint fl_ref_answers (count : N) (set : list N) (ops : list fop) : list fobs :=
  match ops with
  | [] => []
  | o :: ops' => let '(set', r) := fl_ref_step count set o in r :: fl_ref_answers count set' ops'
  end.
Fixpoint fl_ref_final (count : N) (set : list N) (ops : list fop) : list N :=
  match ops with
  | [] => set
  | o :: ops' => fl_ref_final count (fst (fl_ref_step count set o)) ops'
  end.

Lemma FR_answers : forall count ops s set, count + 8 <= 2040 -> FR count s set ->
  fl_model_answers s ops = fl_ref_answers count set ops.
Proof.
  intros count ops. induction ops as [|o ops IH]; intros s set Hle HFR; [reflexivity|].
  cbn [fl_model_answers fl_ref_answers].
  pose proof (FR_step count s set o Hle HFR) as [HF Hr].
  destruct (fl_model_step s o) as [s' r]. destruct (fl_ref_step count set o) as [set' r'].
  cbn [fst snd] in *. subst r'. f_equal. apply IH; assumption.
Qed.

Lemma FR_final : forall count ops s set, count + 8 <= 2040 -> FR count s set ->
  FR count (fl_model_final s ops) (fl_ref_final count set ops).
Proof.
  intros count ops. induction ops as [|o ops IH]; intros s set Hle HFR; [exact HFR|].
  cbn [fl_model_final fl_ref_final]. apply IH; [exact Hle|].
  apply (FR_step count s set o Hle HFR).
Qed.

(* THE property: from NewState(count) the model answers every operation of every sequence exactly as
   a set of flag indices does *)
Lemma flag_field_is_a_set : forall count ops, count + 8 <= 2040 ->
  fl_model_answers (new_state count) ops = fl_ref_answers count [] ops.
Proof. intros count ops Hle. apply FR_answers; [exact Hle|apply FR_new; exact Hle]. Qed.

(* the same over FlagCorr's own runs, whatever the observed values are: the verdict flags agree and
   the final state holds the reference's final set *)
Lemma FR_run : forall count ops s set, count + 8 <= 2040 -> FR count s set ->
  fst (fl_model_run s ops) = fst (fl_ref_run count set ops) /\
  FR count (snd (fl_model_run s ops)) (snd (fl_ref_run count set ops)).
Proof.
  intros count ops. induction ops as [|[o r] ops IH]; intros s set Hle HFR.
  - cbn [fl_model_run fl_ref_run fst snd]. split; [reflexivity|exact HFR].
  - rewrite fl_ref_run_cons. cbn [fl_model_run].
    pose proof (FR_step count s set o Hle HFR) as [HF Hr].
    destruct (fl_model_step s o) as [s' r1]. destruct (fl_ref_step count set o) as [set' r2].
    cbn [fst snd] in HF, Hr. subst r2.
    pose proof (IH s' set' Hle HF) as [Hok HF'].
    destruct (fl_model_run s' ops) as [ok1 s'']. destruct (fl_ref_run count set' ops) as [ok2 set''].
    cbn [fst snd] in *. subst ok2. split; [reflexivity|exact HF'].
Qed.

Lemma model_run_is_ref_run : forall count ops, count + 8 <= 2040 ->
  fst (fl_model_run (new_state count) ops) = fst (fl_ref_run count [] ops) /\
  FR count (snd (fl_model_run (new_state count) ops)) (snd (fl_ref_run count [] ops)).
Proof. intros count ops Hle. apply FR_run; [exact Hle|apply FR_new; exact Hle]. Qed.

(* ======================================================================================== *)
(* 5. the exported bytes                                                                     *)
(* ======================================================================================== *)

Lemma bits8_testbit : forall b0 b1 b2 b3 b4 b5 b6 b7 rest j, j < 8 ->
  N.testbit (bits_val [b0; b1; b2; b3; b4; b5; b6; b7] 1) j =
  nth (N.to_nat j) (b0 :: b1 :: b2 :: b3 :: b4 :: b5 :: b6 :: b7 :: rest) false.
Proof.
  intros b0 b1 b2 b3 b4 b5 b6 b7 rest j Hj.
  assert (Hc : j = 0 \/ j = 1 \/ j = 2 \/ j = 3 \/ j = 4 \/ j = 5 \/ j = 6 \/ j = 7) by lia.
  destruct Hc as [->|[->|[->|[->|[->|[->|[->| ->]]]]]]];
    destruct b0, b1, b2, b3, b4, b5, b6, b7; vm_compute; reflexivity.
Qed.

Lemma byte_bit_nil : forall i, byte_bit [] i = false.
Proof. intros i. unfold byte_bit. rewrite ff_nth_nil_N. apply N.bits_0. Qed.

Lemma byte_bit_cons_lt : forall x bs i, i < 8 -> byte_bit (x :: bs) i = N.testbit x i.
Proof.
  intros x bs i Hi. unfold byte_bit.
  replace (i / 8) with 0 by lia. replace (i mod 8) with i by lia. reflexivity.
Qed.

Lemma byte_bit_cons_ge : forall x bs i, 8 <= i -> byte_bit (x :: bs) i = byte_bit bs (i - 8).
Proof.
  intros x bs i Hi. unfold byte_bit.
  replace (N.to_nat (i / 8)) with (S (N.to_nat ((i - 8) / 8))) by lia.
  replace ((i - 8) mod 8) with (i mod 8) by lia. reflexivity.
Qed.

Lemma nth_skip8 : forall (b0 b1 b2 b3 b4 b5 b6 b7 : bool) rest m,
  nth (8 + m) (b0 :: b1 :: b2 :: b3 :: b4 :: b5 :: b6 :: b7 :: rest) false = nth m rest false.
Proof. reflexivity. Qed.

Lemma flag_bytes_fuel_nil : forall fuel, flag_bytes_fuel fuel [] = [].
Proof. intros [|f]; reflexivity. Qed.

Lemma flag_bytes_fuel_spec : forall n fuel l,
  List.length l = (8 * n)%nat -> (n <= fuel)%nat ->
  List.length (flag_bytes_fuel fuel l) = n /\
  forall i, byte_bit (flag_bytes_fuel fuel l) i = nth (N.to_nat i) l false.
Proof.
  induction n as [|n IH]; intros fuel l Hlen Hfuel.
  - destruct l as [|x l]; [|cbn [List.length] in Hlen; lia].
    rewrite flag_bytes_fuel_nil. split; [reflexivity|].
    intros i. rewrite byte_bit_nil, ff_nth_nil_bool. reflexivity.
  - destruct fuel as [|f]; [lia|].
    destruct l as [|b0 [|b1 [|b2 [|b3 [|b4 [|b5 [|b6 [|b7 rest]]]]]]]];
      cbn [List.length] in Hlen; try lia.
    cbn [flag_bytes_fuel firstn skipn].
    destruct (IH f rest ltac:(lia) ltac:(lia)) as [IHlen IHbit].
    split; [cbn [List.length]; rewrite IHlen; reflexivity|].
    intros i. destruct (i <? 8) eqn:Ei.
    + rewrite byte_bit_cons_lt by lia. apply bits8_testbit. lia.
    + rewrite byte_bit_cons_ge by lia. rewrite IHbit.
      replace (N.to_nat i) with (8 + N.to_nat (i - 8))%nat by lia.
      rewrite nth_skip8. reflexivity.
Qed.

(* a bit field of 8n bits exports n bytes, bit i of the bytes = bit i of the field, for every i *)
Lemma flag_bytes_spec : forall n l, List.length l = (8 * n)%nat ->
  len (flag_bytes l) = N.of_nat n /\
  forall i, byte_bit (flag_bytes l) i = nth (N.to_nat i) l false.
Proof.
  intros n l Hlen. unfold flag_bytes, len.
  destruct (flag_bytes_fuel_spec n (S (List.length l)) l Hlen ltac:(lia)) as [Hl Hb].
  rewrite Hl. split; [reflexivity|exact Hb].
Qed.

Lemma FR_bytes : forall count s set, FR count s set ->
  len (flag_bytes (s_flags s)) = (count + 15) / 8 /\
  forall i, byte_bit (flag_bytes (s_flags s)) i = mem_n i set.
Proof.
  intros count s set (_ & Hl & Hn).
  assert (Hlen : List.length (s_flags s) = (8 * N.to_nat ((count + 15) / 8))%nat)
    by (unfold len in Hl; lia).
  destruct (flag_bytes_spec _ _ Hlen) as [Hbl Hbb].
  split; [rewrite Hbl; lia|]. intros i. rewrite Hbb. apply Hn.
Qed.

(* the final bytes of every sequence from NewState(count) *)
Lemma flag_field_is_a_set_bytes : forall count ops, count + 8 <= 2040 ->
  len (flag_bytes (s_flags (fl_model_final (new_state count) ops))) = (count + 15) / 8 /\
  forall i, byte_bit (flag_bytes (s_flags (fl_model_final (new_state count) ops))) i
            = mem_n i (fl_ref_final count [] ops).
Proof.
  intros count ops Hle. apply (FR_bytes count).
  apply FR_final; [exact Hle|apply FR_new; exact Hle].
Qed.

(* ======================================================================================== *)
(* 6. model and monitor: a case on which the model agrees with the code satisfies fl_c06_ok   *)
(* ======================================================================================== *)

Lemma corr_ok_implies_c06_ok : forall c,
  fl_in_scope c = true -> fl_corr_ok c = true -> fl_c06_ok c = true.
Proof.
  intros c Hs Hc. unfold fl_c06_ok. rewrite Hs. cbn [negb].
  unfold fl_in_scope in Hs. assert (Hle : fl_count c + 8 <= 2040) by lia.
  unfold fl_corr_ok in Hc.
  pose proof (model_run_is_ref_run (fl_count c) (fl_ops c) Hle) as [Hok HFR].
  destruct (fl_model_run (new_state (fl_count c)) (fl_ops c)) as [ok s].
  destruct (fl_ref_run (fl_count c) [] (fl_ops c)) as [ok' set].
  cbn [fst snd] in Hok, HFR. subst ok'.
  apply andb_prop in Hc as [Hokt Hbytes]. apply bytes_eqb_eq in Hbytes.
  destruct (FR_bytes _ _ _ HFR) as [Hbl Hbb]. rewrite <- Hbytes.
  apply andb_true_intro. split; [apply andb_true_intro; split; [exact Hokt|]|].
  - rewrite Hbl. apply N.eqb_eq. f_equal. lia.
  - apply forallb_forall. intros i _. rewrite Hbb. apply eqb_reflx.
Qed.

(* contrapositive reading: a monitor alarm on an in-scope case is a model/code mismatch *)
Lemma c06_alarm_implies_mismatch : forall c,
  fl_in_scope c = true -> fl_c06_ok c = false -> fl_corr_ok c = false.
Proof.
  intros c Hs Ha. destruct (fl_corr_ok c) eqn:Ec; [|reflexivity].
  rewrite (corr_ok_implies_c06_ok c Hs Ec) in Ha. discriminate.
Qed.

(* ======================================================================================== *)
(* 7. MatchFlag, frame, out of range                                                         *)
(* ======================================================================================== *)

Lemma match_flag_iff : forall s i mode,
  (forall b, get_flag s i = Ok b -> match_flag s i mode = Ok (Bool.eqb mode b)) /\
  (forall n, get_flag s i = Panic n -> match_flag s i mode = Panic n) /\
  (forall e, get_flag s i <> Err e).
Proof.
  intros s i mode. unfold match_flag. split; [|split].
  - intros b ->. reflexivity.
  - intros n ->. reflexivity.
  - intros e. unfold get_flag. destruct (flag_in_range s i); discriminate.
Qed.

Definition same_but_flag_field (s s' : state) : Prop :=
  s_code s' = s_code s /\ s_path s' = s_path s /\ s_bitsize s' = s_bitsize s /\ s_idx s' = s_idx s /\
  s_lang s' = s_lang s /\ s_input s' = s_input s /\ len (s_flags s') = len (s_flags s).

Lemma set_flags_frame : forall s i v j, j <> i ->
  let s' := set_flags s (set_nth_bit (N.to_nat i) v (s_flags s)) in
  get_flag s' j = get_flag s j /\ same_but_flag_field s s'.
Proof.
  intros s i v j Hne s'. subst s'. split.
  - unfold get_flag, flag_in_range, len. cbn [s_bitsize s_flags set_flags].
    rewrite ff_length_snb. rewrite ff_nth_snb_other by lia. reflexivity.
  - unfold same_but_flag_field, len. cbn [s_code s_path s_bitsize s_idx s_lang s_input s_flags set_flags].
    rewrite ff_length_snb. repeat split; reflexivity.
Qed.

Lemma flag_ops_frame : forall s i s' b,
  set_flag s i = Ok (s', b) \/ reset_flag s i = Ok (s', b) ->
  same_but_flag_field s s' /\ forall j, j <> i -> get_flag s' j = get_flag s j.
Proof.
  intros s i s' b H. unfold set_flag, reset_flag in H.
  destruct (flag_in_range s i); [|destruct H as [H|H]; discriminate].
  destruct H as [H|H]; injection H as <- _.
  - split; [apply (set_flags_frame s i true (i + 1)); lia|].
    intros j Hne. apply (set_flags_frame s i true j Hne).
  - split; [apply (set_flags_frame s i false (i + 1)); lia|].
    intros j Hne. apply (set_flags_frame s i false j Hne).
Qed.

(* the operation's own flag: set reads back true, reset reads back false, the answer is "changed" *)
Lemma flag_ops_own : forall s i s' b,
  (set_flag s i = Ok (s', b) -> get_flag s' i = Ok true /\ get_flag s i = Ok (negb b)) /\
  (reset_flag s i = Ok (s', b) -> get_flag s' i = Ok false /\ get_flag s i = Ok b).
Proof.
  intros s i s' b. unfold set_flag, reset_flag, get_flag.
  destruct (flag_in_range s i) eqn:Er; [|split; discriminate].
  assert (Hlt : (N.to_nat i < List.length (s_flags s))%nat).
  { unfold flag_in_range, len in Er. apply andb_prop in Er as [_ Er]. lia. }
  split; intros H; injection H as <- <-.
  - assert (Er' : flag_in_range (set_flags s (set_nth_bit (N.to_nat i) true (s_flags s))) i = true).
    { unfold flag_in_range, len in *. cbn [s_bitsize s_flags set_flags]. rewrite ff_length_snb. exact Er. }
    rewrite Er'. cbn [s_flags set_flags]. rewrite ff_nth_snb_same by exact Hlt.
    rewrite negb_involutive. split; reflexivity.
  - assert (Er' : flag_in_range (set_flags s (set_nth_bit (N.to_nat i) false (s_flags s))) i = true).
    { unfold flag_in_range, len in *. cbn [s_bitsize s_flags set_flags]. rewrite ff_length_snb. exact Er. }
    rewrite Er'. cbn [s_flags set_flags]. rewrite ff_nth_snb_same by exact Hlt.
    split; reflexivity.
Qed.

Lemma flag_out_of_range_panics : forall s i, flag_in_range s i = false ->
  get_flag s i = Panic 20 /\ set_flag s i = Panic 21 /\ reset_flag s i = Panic 22 /\
  forall mode, match_flag s i mode = Panic 20.
Proof.
  intros s i H. unfold match_flag, get_flag, set_flag, reset_flag. rewrite H. cbn [obind].
  repeat split; reflexivity.
Qed.

(* in every state reachable from NewState(count) by flag operations, the range check is "i < count + 8"
   for every i : N (including i = 2^32 - 1, where the uint32 test bitIndex+1 > BitSize wraps to 0 and
   passes, and the slice index panics instead; and i >= 2^32, which no uint32 holds) *)
Lemma reachable_in_range : forall count ops i, count + 8 <= 2040 ->
  flag_in_range (fl_model_final (new_state count) ops) i = (i <? count + 8).
Proof.
  intros count ops i Hle.
  apply (FR_in_range count _ (fl_ref_final count [] ops) i Hle).
  apply FR_final; [exact Hle|apply FR_new; exact Hle].
Qed.
