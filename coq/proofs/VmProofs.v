(* VmProofs.v — lemmas about the VM model: flags (C06), input routing (C03), symbol loading (C05) *)
From Coq Require Import Lia ZifyN ZifyNat ZifyBool.
From Vise Require Import Bytes Errors Consts EngConsts Codec CacheModel StateModel NavModel RenderModel VmModel.
Local Open Scope N_scope.

(* ---- bit lists ------------------------------------------------------------------------ *)
Lemma nth_set_nth_bit_other : forall l n m v, n <> m -> nth n (set_nth_bit m v l) false = nth n l false.
Proof.
  induction l as [|x l IH]; intros n m v Hnm; [destruct m; reflexivity|].
  destruct m as [|m]; destruct n as [|n]; cbn [set_nth_bit nth]; try reflexivity; try congruence.
  apply IH. congruence.
Qed.
Lemma nth_set_nth_bit_same : forall l n v, (n < List.length l)%nat -> nth n (set_nth_bit n v l) false = v.
Proof.
  induction l as [|x l IH]; intros n v Hn; cbn [List.length] in Hn; [lia|].
  destruct n as [|n]; cbn [set_nth_bit nth]; [reflexivity|]. apply IH. lia.
Qed.
Lemma length_set_nth_bit : forall l n v, List.length (set_nth_bit n v l) = List.length l.
Proof. induction l as [|x l IH]; intros [|n] v; cbn [set_nth_bit List.length]; auto. Qed.

Lemma getf_set_flags : forall s f i, getf (set_flags s f) i = nth (N.to_nat i) f false.
Proof. reflexivity. Qed.

Lemma getf_setf_other : forall s i j, i <> j -> getf (setf s j) i = getf s i.
Proof. intros. unfold setf, getf. cbn [s_flags set_flags]. apply nth_set_nth_bit_other. lia. Qed.
Lemma getf_resetf_other : forall s i j, i <> j -> getf (resetf s j) i = getf s i.
Proof. intros. unfold resetf, getf. cbn [s_flags set_flags]. apply nth_set_nth_bit_other. lia. Qed.

Lemma set_flag_other : forall s f s' c i, set_flag s f = Ok (s', c) -> i <> f -> getf s' i = getf s i.
Proof.
  unfold set_flag. intros s f s' c i H Hi. destruct (flag_in_range s f); [|discriminate].
  injection H as <- _. unfold getf. cbn [s_flags set_flags]. apply nth_set_nth_bit_other. lia.
Qed.
Lemma reset_flag_other : forall s f s' c i, reset_flag s f = Ok (s', c) -> i <> f -> getf s' i = getf s i.
Proof.
  unfold reset_flag. intros s f s' c i H Hi. destruct (flag_in_range s f); [|discriminate].
  injection H as <- _. unfold getf. cbn [s_flags set_flags]. apply nth_set_nth_bit_other. lia.
Qed.

(* everything but the flag field is untouched by flag operations *)
Definition same_but_flags (a b : state) : Prop :=
  s_code a = s_code b /\ s_path a = s_path b /\ s_bitsize a = s_bitsize b /\ s_idx a = s_idx b
  /\ s_lang a = s_lang b /\ s_input a = s_input b.
Lemma sbf_refl : forall a, same_but_flags a a. Proof. unfold same_but_flags; intuition. Qed.
Lemma sbf_trans : forall a b c, same_but_flags a b -> same_but_flags b c -> same_but_flags a c.
Proof. unfold same_but_flags; intuition congruence. Qed.
Lemma set_flag_sbf : forall s f s' c, set_flag s f = Ok (s', c) -> same_but_flags s s'.
Proof. unfold set_flag. intros. destruct (flag_in_range s f); [|discriminate]. injection H as <- _. unfold same_but_flags; cbn; intuition. Qed.
Lemma reset_flag_sbf : forall s f s' c, reset_flag s f = Ok (s', c) -> same_but_flags s s'.
Proof. unfold reset_flag. intros. destruct (flag_in_range s f); [|discriminate]. injection H as <- _. unfold same_but_flags; cbn; intuition. Qed.

(* ---- C06: external code cannot touch the reserved flags ----------------------------------- *)
Lemma apply_flags_reserved : forall fl set st st',
  apply_flags set fl st = Ok st' ->
  (forall i, i <= nonwriteable_flag_threshold -> getf st' i = getf st i) /\ same_but_flags st st'.
Proof.
  induction fl as [|f fl IH]; intros set st st' H; cbn [apply_flags] in H.
  - injection H as <-. split; [reflexivity|apply sbf_refl].
  - destruct (is_writeable_flag f) eqn:Hw.
    + destruct set.
      * destruct (set_flag st f) as [[st1 c]| |] eqn:Hs; cbn [obind] in H; try discriminate.
        destruct (IH _ _ _ H) as [IH1 IH2]. split.
        -- intros i Hi. rewrite IH1 by exact Hi. eapply set_flag_other; [exact Hs|].
           unfold is_writeable_flag in Hw. lia.
        -- eapply sbf_trans; [eapply set_flag_sbf; exact Hs|exact IH2].
      * destruct (reset_flag st f) as [[st1 c]| |] eqn:Hs; cbn [obind] in H; try discriminate.
        destruct (IH _ _ _ H) as [IH1 IH2]. split.
        -- intros i Hi. rewrite IH1 by exact Hi. eapply reset_flag_other; [exact Hs|].
           unfold is_writeable_flag in Hw. lia.
        -- eapply sbf_trans; [eapply reset_flag_sbf; exact Hs|exact IH2].
    + apply IH in H. exact H.
Qed.

(* client flags, TERMINATE and LANG requested by external code ARE applied (when in range) *)
Lemma apply_flags_set_head : forall f fl st st',
  is_writeable_flag f = true -> apply_flags true (f :: fl) st = Ok st' ->
  exists st1 c, set_flag st f = Ok (st1, c) /\ apply_flags true fl st1 = Ok st'.
Proof.
  intros f fl st st' Hw H. cbn [apply_flags] in H. rewrite Hw in H.
  destruct (set_flag st f) as [[st1 c]| |]; cbn [obind] in H; try discriminate. eauto.
Qed.

Lemma st_set_language_flags : forall lk s c, s_flags (st_set_language lk s c) = s_flags s.
Proof. intros. unfold st_set_language. destruct c; destruct (lk _); reflexivity. Qed.
Lemma getf_set_language : forall lk s c i, getf (st_set_language lk s c) i = getf s i.
Proof. intros. unfold getf. rewrite st_set_language_flags. reflexivity. Qed.

(* refresh: the only reserved flag it can change is LOADFAIL, and only when the external
   function failed (the VM sets it itself) *)
Lemma refresh_reserved : forall rs lang key v v' content s,
  refresh rs lang key v = (v', content, s) ->
  forall i, i <= nonwriteable_flag_threshold ->
    getf (v_st v') i = getf (v_st v) i
    \/ (i = FLAG_LOADFAIL /\ exists m, s = SErr EExternal m).
Proof.
  intros rs lang key v v' content s H i Hi. unfold refresh in H.
  destruct (rs_func rs key) as [script|]; [|injection H as <- _ _; left; reflexivity].
  destruct (nth_fres script _) as [fr|]; [|injection H as <- _ _; left; reflexivity].
  destruct (fr_fail fr).
  - injection H as <- _ <-. cbn [v_st vset_st vlog vset_w].
    destruct (N.eq_dec i FLAG_LOADFAIL) as [->|Hne].
    + right. split; [reflexivity|eauto].
    + left. apply getf_setf_other. exact Hne.
  - destruct (apply_flags false (fr_reset fr) _) as [st1| |] eqn:H1.
    + destruct (apply_flags true (fr_set fr) st1) as [st2| |] eqn:H2.
      * injection H as <- _ _. cbn [v_st vset_st]. left.
        destruct (apply_flags_reserved _ _ _ _ H1) as [R1 _].
        destruct (apply_flags_reserved _ _ _ _ H2) as [R2 _].
        destruct (getf st2 FLAG_LANG); [rewrite getf_set_language|]; rewrite R2, R1 by exact Hi; reflexivity.
      * injection H as <- _ _. left. reflexivity.
      * injection H as <- _ _. left. reflexivity.
    + injection H as <- _ _. left. reflexivity.
    + injection H as <- _ _. left. reflexivity.
Qed.

(* ---- C06: CATCH / CROAK act exactly when the flag matches ----------------------------------- *)
Lemma run_catch_no_match : forall rs sym sig mode b v,
  match_flag (v_st v) sig mode = Ok false -> run_catch rs sym sig mode b v = (v, b, SOk).
Proof. intros. unfold run_catch. rewrite H. reflexivity. Qed.

Lemma run_catch_match : forall rs sym sig mode b v,
  match_flag (v_st v) sig mode = Ok true ->
  let '(st', ca', nsym, s) := apply_target sym (v_st v) (v_ca v) in
  match s with
  | SOk => match rs_code rs nsym with
           | Ok code => exists v', run_catch rs sym sig mode b v = (v', code, SOk)
                                   /\ v_st v' = st' /\ v_ca v' = ca' /\ v_pg v' = v_pg v
           | _ => exists v' s', run_catch rs sym sig mode b v = (v', b, s') /\ s' <> SOk
           end
  | _ => exists v', run_catch rs sym sig mode b v = (v', b, s)
  end.
Proof.
  intros rs sym sig mode b v H. unfold run_catch. rewrite H.
  destruct (apply_target sym (v_st v) (v_ca v)) as [[[st' ca'] nsym] s].
  destruct s; eauto. unfold fetch_code.
  destruct (rs_observed rs); destruct (rs_code rs nsym) eqn:Hc;
    try (eexists; split; [reflexivity|]; cbn; auto; fail);
    try (do 2 eexists; split; [reflexivity|discriminate]).
Qed.

Lemma run_croak_no_match : forall sep sig mode b v,
  match_flag (v_st v) sig mode = Ok false -> run_croak sep sig mode b v = (v, b, SOk).
Proof. intros. unfold run_croak. rewrite H. reflexivity. Qed.
Lemma run_croak_match : forall sep sig mode b v,
  match_flag (v_st v) sig mode = Ok true ->
  exists v', run_croak sep sig mode b v = (v', [], SOk) /\ v_st v' = v_st v /\ v_ca v' = cache_reset (v_ca v).
Proof. intros. unfold run_croak. rewrite H. eexists. split; [reflexivity|]. cbn. auto. Qed.

(* while TERMINATE is set no instruction runs *)
Lemma run_terminate_blocks : forall fuel rs sep lang b v,
  getf (v_st v) FLAG_TERMINATE = true -> run (S fuel) rs sep lang b v = (v, [], SOk).
Proof. intros. cbn [run]. rewrite H. reflexivity. Qed.

(* after CROAK: dead_check terminates the session unless input is being handled *)
Lemma dead_check_terminates : forall v,
  getf (v_st v) FLAG_READIN = false ->
  dead_check v = (vset_st v (setf (v_st v) FLAG_TERMINATE), [], SOk).
Proof. intros. unfold dead_check. rewrite H. reflexivity. Qed.
Lemma dead_check_catch : forall v,
  getf (v_st v) FLAG_READIN = true -> getf (v_st v) FLAG_TERMINATE = false ->
  where_sym (v_st v) <> [] -> bytes_eqb (where_sym (v_st v)) catch_sym = false ->
  dead_check v = (vset_pg v (page_with_error (v_pg v) (Some (msg_invalid_input (s_input (v_st v))))), move_catch_code, SOk).
Proof.
  intros v H1 H2 H3 H4. unfold dead_check. rewrite H1, H2. cbn [negb].
  destruct (where_sym (v_st v)) eqn:Hw; [congruence|]. rewrite H4. reflexivity.
Qed.

(* ---- C03: INCMP routing ---------------------------------------------------------------------- *)
Lemma bytes_eqb_refl : forall a, bytes_eqb a a = true.
Proof. induction a as [|x a IH]; cbn [bytes_eqb]; [reflexivity|]. rewrite N.eqb_refl, IH. reflexivity. Qed.
Lemma bytes_eqb_eq : forall a b, bytes_eqb a b = true <-> a = b.
Proof.
  induction a as [|x a IH]; destruct b as [|y b]; cbn [bytes_eqb]; split; intro H; try reflexivity; try discriminate.
  - apply andb_prop in H as [H1 H2]. apply N.eqb_eq in H1. apply IH in H2. congruence.
  - injection H as -> ->. rewrite N.eqb_refl. cbn. apply IH. reflexivity.
Qed.

Lemma s_input_setf : forall s i, s_input (setf s i) = s_input s. Proof. reflexivity. Qed.
Lemma s_input_resetf : forall s i, s_input (resetf s i) = s_input s. Proof. reflexivity. Qed.

(* no match yet, selector neither the input nor the wildcard: nothing moves, READIN is set *)
Lemma run_incmp_no_match : forall rs sep dest sel b v input,
  getf (v_st v) FLAG_INMATCH = false -> s_input (v_st v) = Some input ->
  bytes_eqb sel input = false -> bytes_eqb sel star = false ->
  run_incmp rs sep dest sel b v
  = (vlog (vset_st v (setf (v_st v) FLAG_READIN)) (EvInCmp dest sel false), b, SOk).
Proof.
  intros rs sep dest sel b v input Hm Hi Hs Hw. unfold run_incmp. rewrite Hm.
  cbn [andb negb]. destruct v as [st ca pg w lg t]. cbn [v_st vset_st] in *.
  rewrite s_input_setf, Hi, Hw, Hs. cbn [andb orb]. reflexivity.
Qed.

(* a match was already made and consumed (INMATCH set, READIN clear): a later INCMP fires only
   if its selector literally equals the input; the wildcard does not match any more *)
Lemma run_incmp_after_match_other : forall rs sep dest sel b v input,
  getf (v_st v) FLAG_INMATCH = true -> getf (v_st v) FLAG_READIN = false ->
  s_input (v_st v) = Some input -> bytes_eqb sel input = false ->
  run_incmp rs sep dest sel b v = (vlog v (EvInCmp dest sel false), b, SOk).
Proof.
  intros rs sep dest sel b v input Hm Hr Hi Hs. unfold run_incmp. rewrite Hm, Hr.
  cbn [andb negb]. destruct v as [st ca pg w lg t]. cbn [v_st vset_st] in *. rewrite Hi, Hs.
  cbn [andb orb]. reflexivity.
Qed.

(* a match was made and the move failed with IndexError ("previous" on the first page):
   INMATCH and READIN are both set, and every later INCMP is skipped *)
Lemma run_incmp_skipped : forall rs sep dest sel b v,
  getf (v_st v) FLAG_INMATCH = true -> getf (v_st v) FLAG_READIN = true ->
  run_incmp rs sep dest sel b v = (vlog v (EvInCmp dest sel false), b, SOk).
Proof. intros. unfold run_incmp. rewrite H, H0. reflexivity. Qed.

(* first match: selector equals the input, or is the wildcard *)
Lemma run_incmp_first_match : forall rs sep dest sel b v input,
  getf (v_st v) FLAG_INMATCH = false -> s_input (v_st v) = Some input ->
  (bytes_eqb sel input = true \/ bytes_eqb sel star = true) ->
  let st1 := resetf (setf (setf (v_st v) FLAG_READIN) FLAG_INMATCH) FLAG_READIN in
  let '(st', ca', nsym, s) := apply_target dest st1 (v_ca v) in
  match s with
  | SOk => match rs_code rs nsym with
           | Ok code => exists v', run_incmp rs sep dest sel b v = (v', b ++ code, SOk)
                                   /\ v_st v' = st' /\ v_ca v' = ca'
           | _ => exists v' s', run_incmp rs sep dest sel b v = (v', b, s') /\ s' <> SOk
           end
  | SErr EIndex _ => exists v', run_incmp rs sep dest sel b v = (v', b, SOk)
                                /\ v_st v' = setf st' FLAG_READIN /\ v_ca v' = ca'
  | _ => exists v', run_incmp rs sep dest sel b v = (v', b, s)
  end.
Proof.
  intros rs sep dest sel b v input Hm Hi Hs. unfold run_incmp. rewrite Hm. cbn [andb negb].
  destruct v as [st ca pg w lg t]. cbn [v_st vset_st v_ca] in *. rewrite s_input_setf, Hi.
  assert (Hc : bytes_eqb sel star || bytes_eqb sel input = true).
  { destruct Hs as [->| ->]; [apply orb_true_r|reflexivity]. }
  rewrite Hc.
  destruct (apply_target dest _ ca) as [[[st' ca'] nsym] s].
  destruct s as [|e m|n|].
  - unfold fetch_code.
    destruct (rs_observed rs); destruct (rs_code rs nsym);
      try (eexists; split; [reflexivity|]; cbn; auto; fail);
      try (do 2 eexists; split; [reflexivity|discriminate]).
  - destruct e; try (eexists; reflexivity). eexists. split; [reflexivity|]. cbn. auto.
  - eexists; reflexivity.
  - eexists; reflexivity.
Qed.

(* ---- C05: LOAD runs the function only when the symbol is not visible -------------------------- *)
Lemma run_load_visible : forall rs lang sym sz b v val,
  cache_get (v_ca v) sym = Ok val -> run_load rs lang sym sz b v = (v, b, SOk).
Proof. intros. unfold run_load. rewrite H. reflexivity. Qed.

Lemma run_load_stores : forall rs lang sym sz b v v1 content ca',
  (forall x, cache_get (v_ca v) sym <> Ok x) -> (forall n, cache_get (v_ca v) sym <> Panic n) ->
  refresh rs lang sym v = (v1, content, SOk) ->
  cache_add (v_ca v1) sym content (w16 sz) = Ok ca' ->
  run_load rs lang sym sz b v = (vset_ca v1 ca', b, SOk).
Proof.
  intros rs lang sym sz b v v1 content ca' H1 H2 Hr Ha. unfold run_load.
  destruct (cache_get (v_ca v) sym) eqn:Hg; [exfalso; eapply H1; reflexivity| |exfalso; eapply H2; reflexivity].
  rewrite Hr, Ha. reflexivity.
Qed.

(* an over-limit result is never stored *)
Lemma run_load_over_limit : forall rs lang sym sz b v v1 content e,
  cache_get (v_ca v) sym = Err e ->
  refresh rs lang sym v = (v1, content, SOk) ->
  0 < w16 sz -> w16 sz < len content ->
  run_load rs lang sym sz b v = (v1, b, SErr EGen None).
Proof.
  intros rs lang sym sz b v v1 content e Hg Hr H0 Hl. unfold run_load. rewrite Hg, Hr.
  unfold cache_add.
  assert (Hc : (0 <? w16 sz) && (w16 sz <? len content) = true).
  { apply andb_true_intro. split; apply N.ltb_lt; assumption. }
  rewrite Hc. reflexivity.
Qed.
