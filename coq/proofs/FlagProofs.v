(* FlagProofs.v — lemmas for C06 (signal flags steer control flow, reserved flags are
   tamper-proof, TERMINATE blocks) and C20 (graceful end restarts cleanly, abnormal end stays
   blocked) over the VM and engine models.  Builds on VmProofs, CodecProofs, CacheProofs, NavProofs. *)
From Coq Require Import Lia ZifyN ZifyNat ZifyBool.
From Vise Require Import Bytes Errors Consts EngConsts Codec CacheModel StateModel NavModel NavSpec RenderModel
  VmModel EngineModel BytesProofs CodecProofs CacheProofs NavProofs VmProofs.
Local Open Scope N_scope.

(* ======================================================================================== *)
(* 1. flags                                                                                  *)
(* ======================================================================================== *)

Lemma flag_in_range_set_flags : forall s f i,
  List.length f = List.length (s_flags s) -> flag_in_range (set_flags s f) i = flag_in_range s i.
Proof. intros s f i H. unfold flag_in_range, len. cbn [s_bitsize s_flags set_flags]. rewrite H. reflexivity. Qed.

Lemma flag_in_range_setf : forall s j i, flag_in_range (setf s j) i = flag_in_range s i.
Proof. intros. unfold setf. apply flag_in_range_set_flags. apply length_set_nth_bit. Qed.
Lemma flag_in_range_resetf : forall s j i, flag_in_range (resetf s j) i = flag_in_range s i.
Proof. intros. unfold resetf. apply flag_in_range_set_flags. apply length_set_nth_bit. Qed.

Lemma flag_in_range_lt : forall s i, flag_in_range s i = true -> (N.to_nat i < List.length (s_flags s))%nat.
Proof. unfold flag_in_range, len. intros s i H. apply andb_prop in H as [_ H]. lia. Qed.

Lemma getf_setf_same : forall s i, flag_in_range s i = true -> getf (setf s i) i = true.
Proof. intros s i H. unfold getf, setf. cbn [s_flags set_flags]. apply nth_set_nth_bit_same. apply flag_in_range_lt. exact H. Qed.
Lemma getf_resetf_same : forall s i, getf (resetf s i) i = false.
Proof.
  intros s i. unfold getf, resetf. cbn [s_flags set_flags].
  generalize (N.to_nat i) as n. generalize (s_flags s) as l.
  induction l as [|x l IH]; intros [|n]; cbn [set_nth_bit nth]; auto.
Qed.

Lemma set_flag_ok : forall s i, flag_in_range s i = true -> set_flag s i = Ok (setf s i, negb (getf s i)).
Proof. intros s i H. unfold set_flag. rewrite H. reflexivity. Qed.
Lemma reset_flag_ok : forall s i, flag_in_range s i = true -> reset_flag s i = Ok (resetf s i, getf s i).
Proof. intros s i H. unfold reset_flag. rewrite H. reflexivity. Qed.
Lemma set_flag_panics : forall s i, flag_in_range s i = false -> set_flag s i = Panic 21.
Proof. intros s i H. unfold set_flag. rewrite H. reflexivity. Qed.
Lemma reset_flag_panics : forall s i, flag_in_range s i = false -> reset_flag s i = Panic 22.
Proof. intros s i H. unfold reset_flag. rewrite H. reflexivity. Qed.

Lemma match_flag_in_range : forall s i mode,
  flag_in_range s i = true -> match_flag s i mode = Ok (Bool.eqb mode (getf s i)).
Proof. intros s i mode H. unfold match_flag, get_flag. rewrite H. reflexivity. Qed.
Lemma match_flag_out_of_range : forall s i mode, flag_in_range s i = false -> match_flag s i mode = Panic 20.
Proof. intros s i mode H. unfold match_flag, get_flag. rewrite H. reflexivity. Qed.

(* clearing a clear bit / setting a set bit changes nothing *)
Lemma set_nth_bit_id : forall l n v, nth n l false = v -> (n < List.length l)%nat -> set_nth_bit n v l = l.
Proof.
  induction l as [|x l IH]; intros [|n] v H Hl; cbn [set_nth_bit nth List.length] in *; try lia; try congruence.
  f_equal. apply IH; [exact H|lia].
Qed.
Lemma set_nth_bit_false_id : forall l n, nth n l false = false -> set_nth_bit n false l = l.
Proof.
  induction l as [|x l IH]; intros [|n] H; cbn [set_nth_bit nth] in *; try congruence.
  f_equal. apply IH. exact H.
Qed.
Lemma state_flags_eta : forall s, set_flags s (s_flags s) = s.
Proof. destruct s; reflexivity. Qed.
Lemma resetf_id : forall s i, getf s i = false -> resetf s i = s.
Proof. intros s i H. unfold resetf. rewrite set_nth_bit_false_id by exact H. apply state_flags_eta. Qed.

(* ---- apply_flags: exact effect ------------------------------------------------------------- *)
Definition memN (i : N) (l : list N) : bool := existsb (N.eqb i) l.

Lemma apply_flags_filter : forall fl set st,
  apply_flags set fl st = apply_flags set (filter is_writeable_flag fl) st.
Proof.
  induction fl as [|f fl IH]; intros set st; [reflexivity|]. cbn [apply_flags filter].
  destruct (is_writeable_flag f) eqn:Hw.
  - cbn [apply_flags]. rewrite Hw.
    destruct (if set then set_flag st f else reset_flag st f) as [[st1 c]| |]; cbn [obind]; auto.
  - apply IH.
Qed.

(* every writeable index in range: all of them are applied, in order *)
Lemma apply_flags_applied : forall fl set st,
  (forall f, In f fl -> is_writeable_flag f = true -> flag_in_range st f = true) ->
  exists st', apply_flags set fl st = Ok st'
    /\ (forall j, flag_in_range st' j = flag_in_range st j)
    /\ (forall i, flag_in_range st i = true ->
          getf st' i = if memN i fl && is_writeable_flag i then set else getf st i).
Proof.
  induction fl as [|f fl IH]; intros set st Hr.
  - exists st. split; [reflexivity|]. split; reflexivity.
  - cbn [apply_flags]. destruct (is_writeable_flag f) eqn:Hw.
    + assert (Hf : flag_in_range st f = true) by (apply Hr; [left; reflexivity|exact Hw]).
      set (st1 := if set then setf st f else resetf st f).
      assert (Hrange1 : forall j, flag_in_range st1 j = flag_in_range st j).
      { intros j. unfold st1. destruct set; [apply flag_in_range_setf|apply flag_in_range_resetf]. }
      assert (Hstep : (if set then set_flag st f else reset_flag st f) = Ok (st1, if set then negb (getf st f) else getf st f)).
      { unfold st1. destruct set; [apply set_flag_ok|apply reset_flag_ok]; exact Hf. }
      rewrite Hstep. cbn [obind].
      destruct (IH set st1) as (st' & Ha & Hrg & Hg).
      { intros g Hg Hwg. rewrite Hrange1. apply Hr; [right; exact Hg|exact Hwg]. }
      exists st'. split; [exact Ha|]. split.
      * intros j. rewrite Hrg. apply Hrange1.
      * intros i Hi. rewrite Hg by (rewrite Hrange1; exact Hi).
        unfold memN. cbn [existsb]. fold (memN i fl).
        destruct (N.eqb_spec i f) as [->|Hne].
        -- rewrite Hw. cbn [orb andb]. destruct (memN f fl); cbn [andb].
           ++ reflexivity.
           ++ unfold st1. destruct set; [apply getf_setf_same; exact Hf|apply getf_resetf_same].
        -- cbn [orb]. destruct (memN i fl && is_writeable_flag i); [reflexivity|].
           unfold st1. destruct set; [apply getf_setf_other|apply getf_resetf_other]; exact Hne.
    + destruct (IH set st) as (st' & Ha & Hrg & Hg).
      { intros g Hg Hwg. apply Hr; [right; exact Hg|exact Hwg]. }
      exists st'. split; [exact Ha|]. split; [exact Hrg|].
      intros i Hi. rewrite Hg by exact Hi. unfold memN. cbn [existsb]. fold (memN i fl).
      destruct (N.eqb_spec i f) as [->|Hne]; [rewrite Hw, !andb_false_r; reflexivity|reflexivity].
Qed.

(* a writeable index outside the configured flag count panics (State.SetFlag / ResetFlag) *)
Lemma apply_flags_out_of_range : forall fl set st,
  (exists f, In f fl /\ is_writeable_flag f = true /\ flag_in_range st f = false) ->
  apply_flags set fl st = Panic (if set then 21 else 22).
Proof.
  induction fl as [|f fl IH]; intros set st [g [Hin [Hw Hr]]]; [destruct Hin|].
  cbn [apply_flags]. destruct (is_writeable_flag f) eqn:Hwf.
  - destruct (flag_in_range st f) eqn:Hf.
    + assert (Hg : g <> f) by congruence.
      destruct Hin as [->|Hin]; [congruence|].
      destruct set.
      * rewrite set_flag_ok by exact Hf. cbn [obind]. apply IH. exists g.
        split; [exact Hin|]. split; [exact Hw|]. rewrite flag_in_range_setf. exact Hr.
      * rewrite reset_flag_ok by exact Hf. cbn [obind]. apply IH. exists g.
        split; [exact Hin|]. split; [exact Hw|]. rewrite flag_in_range_resetf. exact Hr.
    + destruct set; [rewrite set_flag_panics by exact Hf|rewrite reset_flag_panics by exact Hf]; reflexivity.
  - destruct Hin as [->|Hin]; [congruence|]. apply IH. exists g. auto.
Qed.

(* ======================================================================================== *)
(* 2. refresh: what an external function can and cannot do to the flags                       *)
(* ======================================================================================== *)

(* the answer the next call of `key` will get *)
Definition next_fres (rs : rsrc) (key : bytes) (v : vmst) : option fres :=
  match rs_func rs key with
  | None => None
  | Some script => nth_fres script (match alookup key (v_w v) with Some n => n | None => 0 end)
  end.

(* a successful function whose writeable requests are within the configured flag count:
   every flag >= 6 it asks for is applied (resets first, then sets) *)
Lemma refresh_applies : forall rs lang key v fr,
  next_fres rs key v = Some fr -> fr_fail fr = false ->
  (forall f, In f (fr_reset fr ++ fr_set fr) -> is_writeable_flag f = true -> flag_in_range (v_st v) f = true) ->
  exists v' content,
    refresh rs lang key v = (v', content, SOk)
    /\ (forall i, i <= nonwriteable_flag_threshold -> getf (v_st v') i = getf (v_st v) i)
    /\ (forall i, is_writeable_flag i = true -> flag_in_range (v_st v) i = true ->
          getf (v_st v') i = if memN i (fr_set fr) then true
                             else if memN i (fr_reset fr) then false else getf (v_st v) i).
Proof.
  intros rs lang key v fr Hn Hfail Hr. unfold next_fres in Hn. unfold refresh.
  destruct (rs_func rs key) as [script|]; [|discriminate]. rewrite Hn, Hfail.
  cbn [v_st vlog vset_w].
  destruct (apply_flags_applied (fr_reset fr) false (v_st v)) as (st1 & H1 & Hrg1 & Hg1).
  { intros f Hf. apply Hr. apply in_or_app. left. exact Hf. }
  rewrite H1.
  destruct (apply_flags_applied (fr_set fr) true st1) as (st2 & H2 & Hrg2 & Hg2).
  { intros f Hf Hw. rewrite Hrg1. apply Hr; [apply in_or_app; right; exact Hf|exact Hw]. }
  rewrite H2. do 2 eexists. split; [reflexivity|]. cbn [v_st vset_st].
  destruct (apply_flags_reserved _ _ _ _ H1) as [R1 _].
  destruct (apply_flags_reserved _ _ _ _ H2) as [R2 _].
  assert (Hl : forall i, getf (if getf st2 FLAG_LANG then st_set_language lang_lookup st2
                 (fr_content fr ++ (if fr_echo fr then match s_input (v_st v) with Some i0 => i0 | None => [] end else [])) else st2) i
               = getf st2 i).
  { intros i. destruct (getf st2 FLAG_LANG); [apply getf_set_language|reflexivity]. }
  split.
  - intros i Hi. rewrite Hl, R2, R1 by exact Hi. reflexivity.
  - intros i Hw Hi. rewrite Hl, Hg2 by (rewrite Hrg1; exact Hi). rewrite Hw, andb_true_r.
    destruct (memN i (fr_set fr)); [reflexivity|]. rewrite Hg1 by exact Hi. rewrite Hw, andb_true_r. reflexivity.
Qed.

(* a writeable request outside the configured flag count panics *)
Lemma refresh_out_of_range_reset : forall rs lang key v fr,
  next_fres rs key v = Some fr -> fr_fail fr = false ->
  (exists f, In f (fr_reset fr) /\ is_writeable_flag f = true /\ flag_in_range (v_st v) f = false) ->
  exists v', refresh rs lang key v = (v', [], SPanic 22).
Proof.
  intros rs lang key v fr Hn Hfail Hex. unfold next_fres in Hn. unfold refresh.
  destruct (rs_func rs key) as [script|]; [|discriminate]. rewrite Hn, Hfail.
  cbn [v_st vlog vset_w]. rewrite (apply_flags_out_of_range _ false _ Hex). eauto.
Qed.

(* requests for the reserved flags are ignored: the function could as well not have made them *)
Definition strip_fres (fr : fres) : fres :=
  mkFres (fr_content fr) (fr_echo fr) (fr_status fr)
         (filter is_writeable_flag (fr_set fr)) (filter is_writeable_flag (fr_reset fr)) (fr_fail fr).

(* rs' answers like rs with every reserved index removed from the flag lists *)
Definition strip_rel (rs rs' : rsrc) : Prop :=
  rs_code rs' = rs_code rs /\ rs_tpl rs' = rs_tpl rs /\ rs_menu rs' = rs_menu rs /\ rs_nofunc rs' = rs_nofunc rs
  /\ rs_observed rs' = rs_observed rs
  /\ (forall s, rs_func rs' s = option_map (map strip_fres) (rs_func rs s)).

Lemma nth_fres_map : forall script n, nth_fres (map strip_fres script) n = option_map strip_fres (nth_fres script n).
Proof.
  intros script n. unfold nth_fres. destruct script as [|fr script]; [reflexivity|].
  assert (Hl : len (map strip_fres (fr :: script)) = len (fr :: script)) by (unfold len; rewrite map_length; reflexivity).
  change (strip_fres fr :: map strip_fres script) with (map strip_fres (fr :: script)).
  cbn [map]. change (strip_fres fr :: map strip_fres script) with (map strip_fres (fr :: script)).
  rewrite Hl. apply nth_error_map.
Qed.

Lemma refresh_strip : forall rs rs' lang key v, strip_rel rs rs' -> refresh rs' lang key v = refresh rs lang key v.
Proof.
  intros rs rs' lang key v (Hc & Ht & Hm & Hn & Ho & Hf). unfold refresh. rewrite Hf, Hn.
  destruct (rs_func rs key) as [script|]; cbn [option_map]; [|reflexivity].
  rewrite nth_fres_map. destruct (nth_fres script _) as [fr|]; cbn [option_map]; [|reflexivity].
  unfold strip_fres at 1. cbn [fr_fail]. destruct (fr_fail fr); [reflexivity|].
  cbn [fr_content fr_echo fr_reset fr_set strip_fres].
  rewrite <- !apply_flags_filter.
  destruct (apply_flags false (fr_reset fr) _) as [st1| |]; [|reflexivity|reflexivity].
  rewrite <- apply_flags_filter. reflexivity.
Qed.

(* ======================================================================================== *)
(* 3. CATCH / CROAK at handler level                                                          *)
(* ======================================================================================== *)

Lemma cons_neq_self : forall {A} (x : A) l, x :: l <> l.
Proof. intros A x l H. apply (f_equal (@List.length A)) in H. cbn in H. lia. Qed.
Lemma cons2_neq_self : forall {A} (x y : A) l, x :: y :: l <> l.
Proof. intros A x y l H. apply (f_equal (@List.length A)) in H. cbn in H. lia. Qed.

(* the machine after a CATCH that fired and whose target resolved to node nsym *)
Definition caught (rs : rsrc) (sym nsym : bytes) (st' : state) (ca' : cache) (v : vmst) : vmst :=
  let v1 := vlog (vset_ca (vset_st v st') ca') (EvMove 2 sym nsym) in
  if rs_observed rs then vlog v1 (EvCode nsym) else v1.

Lemma catch_iff_match : forall rs sym sig mode b v,
  flag_in_range (v_st v) sig = true ->
  (* no match: nothing happens *)
  (getf (v_st v) sig <> mode -> run_catch rs sym sig mode b v = (v, b, SOk))
  (* match: the move is applied and the target's code REPLACES the pending code *)
  /\ (getf (v_st v) sig = mode ->
      let '(st', ca', nsym, s) := apply_target sym (v_st v) (v_ca v) in
      match s with
      | SOk => match rs_code rs nsym with
               | Ok code => run_catch rs sym sig mode b v = (caught rs sym nsym st' ca' v, code, SOk)
               | Err e => run_catch rs sym sig mode b v = (caught rs sym nsym st' ca' v, b, SErr e None)
               | Panic n => run_catch rs sym sig mode b v = (caught rs sym nsym st' ca' v, b, SPanic n)
               end
      | _ => run_catch rs sym sig mode b v = (vset_ca (vset_st v st') ca', b, s)
      end)
  (* hence: the instruction is a no-op exactly when the flag does not match *)
  /\ (run_catch rs sym sig mode b v = (v, b, SOk) <-> getf (v_st v) sig <> mode).
Proof.
  intros rs sym sig mode b v Hr.
  assert (Hno : getf (v_st v) sig <> mode -> run_catch rs sym sig mode b v = (v, b, SOk)).
  { intros Hne. apply run_catch_no_match. rewrite match_flag_in_range by exact Hr.
    f_equal. destruct mode, (getf (v_st v) sig); try reflexivity; congruence. }
  assert (Hyes : getf (v_st v) sig = mode ->
      let '(st', ca', nsym, s) := apply_target sym (v_st v) (v_ca v) in
      match s with
      | SOk => match rs_code rs nsym with
               | Ok code => run_catch rs sym sig mode b v = (caught rs sym nsym st' ca' v, code, SOk)
               | Err e => run_catch rs sym sig mode b v = (caught rs sym nsym st' ca' v, b, SErr e None)
               | Panic n => run_catch rs sym sig mode b v = (caught rs sym nsym st' ca' v, b, SPanic n)
               end
      | _ => run_catch rs sym sig mode b v = (vset_ca (vset_st v st') ca', b, s)
      end).
  { intros He. unfold run_catch. rewrite match_flag_in_range by exact Hr. rewrite He, Bool.eqb_reflx.
    destruct (apply_target sym (v_st v) (v_ca v)) as [[[st' ca'] nsym] s].
    destruct s; try reflexivity. unfold fetch_code, caught.
    destruct (rs_observed rs); destruct (rs_code rs nsym); reflexivity. }
  split; [exact Hno|]. split; [exact Hyes|]. split; [|exact Hno].
  intros Heq He. specialize (Hyes He).
  destruct (apply_target sym (v_st v) (v_ca v)) as [[[st' ca'] nsym] s].
  destruct s.
  - assert (Hlog : v_log (caught rs sym nsym st' ca' v) <> v_log v).
    { unfold caught. destruct (rs_observed rs); cbn [v_log vlog vset_ca vset_st];
        [apply cons2_neq_self|apply cons_neq_self]. }
    destruct (rs_code rs nsym); rewrite Hyes in Heq; try discriminate.
    apply Hlog. congruence.
  - rewrite Hyes in Heq. discriminate.
  - rewrite Hyes in Heq. discriminate.
  - rewrite Hyes in Heq. discriminate.
Qed.

(* the machine after a CROAK that fired: page and cache reset, position kept (K-C08-croak) *)
Definition croaked (sep : bytes) (v : vmst) : vmst :=
  vset_ca (vset_pg v (vm_reset sep (v_pg v))) (cache_reset (v_ca v)).

Lemma croak_iff_match : forall sep sig mode b v,
  flag_in_range (v_st v) sig = true ->
  (getf (v_st v) sig <> mode -> run_croak sep sig mode b v = (v, b, SOk))
  /\ (getf (v_st v) sig = mode -> run_croak sep sig mode b v = (croaked sep v, [], SOk)).
Proof.
  intros sep sig mode b v Hr. unfold run_croak. rewrite match_flag_in_range by exact Hr. split; intros H.
  - assert (E : Bool.eqb mode (getf (v_st v) sig) = false)
      by (destruct mode, (getf (v_st v) sig); try reflexivity; congruence).
    rewrite E. reflexivity.
  - rewrite H, Bool.eqb_reflx. reflexivity.
Qed.

(* outside the configured flag count both instructions panic (State.GetFlag) *)
Lemma catch_croak_out_of_range : forall rs sep sym sig mode b v,
  flag_in_range (v_st v) sig = false ->
  run_catch rs sym sig mode b v = (v, b, SPanic 20) /\ run_croak sep sig mode b v = (v, b, SPanic 20).
Proof.
  intros. unfold run_catch, run_croak. rewrite match_flag_out_of_range by assumption. split; reflexivity.
Qed.

(* ======================================================================================== *)
(* 4. the run loop, one iteration at a time                                                   *)
(* ======================================================================================== *)

Definition pre_lang (lang : option bytes) (st : state) : option bytes :=
  if getf st FLAG_LANG then match s_lang st with Some l => Some l | None => lang end else lang.
Definition pre_st (st : state) : state :=
  let st1 := resetf st FLAG_LANG in
  let st2 := resetf st1 FLAG_WAIT in
  setf (if getf st1 FLAG_WAIT then resetf st2 FLAG_INMATCH else st2) FLAG_DIRTY.
Definition pre_pg (v : vmst) : page :=
  if getf (resetf (v_st v) FLAG_LANG) FLAG_WAIT
  then upd_menu menu_reset (page_reset (page_with_error (v_pg v) None)) else v_pg v.
(* the machine after the loop's per-instruction preamble *)
Definition pre_vm (v : vmst) : vmst := vset_pg (vset_st v (pre_st (v_st v))) (pre_pg v).

Definition step_instr (rs : rsrc) (sep : bytes) (lang : option bytes) (op : N) (b1 : bytes) (v0 : vmst) : hres :=
  match parse_args op b1 with
  | Ok (i, b2) => exec_instr rs sep lang i b2 (vlog v0 (EvInstr op))
  | _ => (v0, b1, SErr EGen None)
  end.

(* runErrCheck *)
Definition err_check (r : hres) : hres :=
  let '(v1, b2, s) := r in
  match s with
  | SErr e msg =>
    let v2 := set_page_err v1 msg in
    if getf (v_st v2) FLAG_LOADFAIL && negb (bytes_eqb (where_sym (v_st v2)) catch_sym)
    then (v2, move_catch_code, SOk) else (v2, b2, s)
  | _ => (v1, b2, s)
  end.

(* runDeadCheck when the code is empty, then loop *)
Definition after_check (k : bytes -> vmst -> hres) (r : hres) : hres :=
  let '(v2, b3, s2) := r in
  match s2 with
  | SOk =>
    match b3 with
    | [] =>
      let '(v3, b4, s3) := dead_check v2 in
      match s3 with
      | SOk => match b4 with [] => (v3, [], SOk) | _ => k b4 v3 end
      | _ => (v3, b4, s3)
      end
    | _ => k b3 v2
    end
  | _ => (v2, b3, s2)
  end.

Lemma run_S : forall fuel rs sep lang b v,
  run (S fuel) rs sep lang b v =
  if getf (v_st v) FLAG_TERMINATE then (v, [], SOk) else
  let lang' := pre_lang lang (v_st v) in
  let v0 := pre_vm v in
  match op_split b with
  | Err e => (v0, b, SErr e None)
  | Panic n => (v0, b, SPanic n)
  | Ok (op, b1) =>
    match parse_args op b1 with
    | Panic n => (v0, b1, SPanic n)
    | _ =>
      let r := step_instr rs sep lang' op b1 v0 in
      if op =? op_HALT then r else after_check (run fuel rs sep lang') (err_check r)
    end
  end.
Proof.
  intros fuel rs sep lang b v. cbn [run].
  destruct (getf (v_st v) FLAG_TERMINATE); [reflexivity|].
  unfold pre_vm, pre_st, pre_pg, pre_lang, step_instr. cbv zeta.
  change (s_lang (resetf (v_st v) FLAG_LANG)) with (s_lang (v_st v)).
  destruct (op_split b) as [[op b1]| |]; try reflexivity.
  destruct (parse_args op b1) as [[i b2]| |]; try reflexivity;
    try (destruct (exec_instr _ _ _ _ _ _) as [[v1 b3] s]); destruct (op =? op_HALT); reflexivity.
Qed.

Lemma run_O : forall rs sep lang b v, run O rs sep lang b v = (v, b, SFuel).
Proof. reflexivity. Qed.

(* decoding an encoded instruction at the head of the code *)
Lemma split_encoded : forall i rest, wf_instr i ->
  exists op b1, op_split (encode i ++ rest) = Ok (op, b1) /\ parse_args op b1 = Ok (i, rest).
Proof.
  intros i rest Hwf. pose proof (instr_roundtrip_lemma i rest Hwf) as H. unfold decode_one in H.
  destruct (op_split (encode i ++ rest)) as [[op b1]| |]; cbn [obind] in H; try discriminate.
  exists op, b1. split; [reflexivity|exact H].
Qed.

(* the opcode of a decoded instruction *)
Definition opcode_of (i : instr) : N :=
  match i with
  | INoop => op_NOOP | ICatch _ _ _ => op_CATCH | ICroak _ _ => op_CROAK | ILoad _ _ => op_LOAD
  | IReload _ => op_RELOAD | IMap _ => op_MAP | IMove _ => op_MOVE | IHalt => op_HALT
  | IInCmp _ _ => op_INCMP | IMSink => op_MSINK | IMOut _ _ => op_MOUT | IMNext _ _ => op_MNEXT
  | IMPrev _ _ => op_MPREV
  end.

Lemma op_split_encode : forall i rest, exists b1, op_split (encode i ++ rest) = Ok (opcode_of i, b1).
Proof.
  intros i rest.
  assert (H : exists t, encode i = (opcode_of i / 256) mod 256 :: opcode_of i mod 256 :: t).
  { destruct i; unfold encode, new_line; cbn [List.app opcode_of]; eexists; reflexivity. }
  destruct H as [t Ht]. rewrite Ht. cbn [List.app]. eexists. apply op_split_bytes.
  destruct i; vm_compute; discriminate.
Qed.

Lemma split_encoded_op : forall i rest, wf_instr i ->
  exists b1, op_split (encode i ++ rest) = Ok (opcode_of i, b1) /\ parse_args (opcode_of i) b1 = Ok (i, rest).
Proof.
  intros i rest Hwf. destruct (split_encoded i rest Hwf) as (op & b1 & H1 & H2).
  destruct (op_split_encode i rest) as (b1' & H3). rewrite H3 in H1. injection H1 as <- <-.
  exists b1'. split; [exact H3|exact H2].
Qed.

(* one iteration on an encoded, well-formed instruction *)
Lemma run_S_encoded : forall fuel rs sep lang i rest v, wf_instr i ->
  getf (v_st v) FLAG_TERMINATE = false ->
  run (S fuel) rs sep lang (encode i ++ rest) v =
  let lang' := pre_lang lang (v_st v) in
  let r := exec_instr rs sep lang' i rest (vlog (pre_vm v) (EvInstr (opcode_of i))) in
  if opcode_of i =? op_HALT then r else after_check (run fuel rs sep lang') (err_check r).
Proof.
  intros fuel rs sep lang i rest v Hwf Ht. rewrite run_S, Ht.
  destruct (split_encoded_op i rest Hwf) as (b1 & H1 & H2). cbv zeta. rewrite H1.
  unfold step_instr. rewrite H2. reflexivity.
Qed.

(* ---- what the preamble does to the flags ---------------------------------------------------- *)
Lemma getf_pre_st_other : forall st i,
  i <> FLAG_LANG -> i <> FLAG_WAIT -> i <> FLAG_INMATCH -> i <> FLAG_DIRTY -> getf (pre_st st) i = getf st i.
Proof.
  intros st i H1 H2 H3 H4. unfold pre_st. cbv zeta. rewrite getf_setf_other by exact H4.
  destruct (getf (resetf st FLAG_LANG) FLAG_WAIT);
    repeat (rewrite getf_resetf_other by assumption); reflexivity.
Qed.
Lemma pre_st_sbf : forall st, same_but_flags st (pre_st st).
Proof.
  intros st. unfold pre_st, same_but_flags. cbv zeta.
  destruct (getf (resetf st FLAG_LANG) FLAG_WAIT); cbn; intuition.
Qed.
Lemma flag_in_range_pre_st : forall st i, flag_in_range (pre_st st) i = flag_in_range st i.
Proof.
  intros st i. unfold pre_st. cbv zeta. rewrite flag_in_range_setf.
  destruct (getf (resetf st FLAG_LANG) FLAG_WAIT); repeat rewrite flag_in_range_resetf; reflexivity.
Qed.
Lemma where_sym_sbf : forall a b, same_but_flags a b -> where_sym a = where_sym b.
Proof. intros a b (_ & H & _). unfold where_sym. rewrite H. reflexivity. Qed.

Lemma v_st_pre_vm : forall v, v_st (pre_vm v) = pre_st (v_st v). Proof. reflexivity. Qed.
Lemma v_ca_pre_vm : forall v, v_ca (pre_vm v) = v_ca v. Proof. reflexivity. Qed.
Lemma v_log_pre_vm : forall v, v_log (pre_vm v) = v_log v. Proof. reflexivity. Qed.
Lemma v_w_pre_vm : forall v, v_w (pre_vm v) = v_w v. Proof. reflexivity. Qed.

(* ======================================================================================== *)
(* 5. CROAK at run level: the pending code is abandoned and runDeadCheck decides              *)
(* ======================================================================================== *)

(* The flag is tested on the state the loop's preamble leaves (LANG, WAIT cleared, INMATCH
   cleared after a HALT, DIRTY set); for every other flag that is the state's own value. *)
Lemma croak_run_match : forall fuel rs sep lang sig mode rest v,
  wf_num sig -> getf (v_st v) FLAG_TERMINATE = false ->
  flag_in_range (v_st v) sig = true -> getf (pre_st (v_st v)) sig = mode ->
  let lang' := pre_lang lang (v_st v) in
  let v1 := croaked sep (vlog (pre_vm v) (EvInstr op_CROAK)) in
  run (S fuel) rs sep lang (encode (ICroak sig mode) ++ rest) v =
    if negb (getf (v_st v) FLAG_READIN)
    then (* not handling input: the session terminates *)
      (vset_st v1 (setf (v_st v1) FLAG_TERMINATE), [], SOk)
    else match where_sym (v_st v) with
         | [] => (v1, [], SErr EGen None)
         | _ => if bytes_eqb (where_sym (v_st v)) catch_sym then (v1, [], SErr EGen None)
                else (* input is being handled: MOVE _catch with the invalid-input error *)
                  run fuel rs sep lang' move_catch_code
                      (vset_pg v1 (page_with_error (v_pg v1) (Some (msg_invalid_input (s_input (v_st v))))))
         end.
Proof.
  intros fuel rs sep lang sig mode rest v Hwf Ht Hr Hm. cbv zeta.
  rewrite run_S_encoded by (cbn [wf_instr]; assumption). cbv zeta. cbn [opcode_of exec_instr].
  change (op_CROAK =? op_HALT) with false. cbv iota.
  destruct (croak_iff_match sep sig mode rest (vlog (pre_vm v) (EvInstr op_CROAK))) as [_ Hyes].
  { cbn [v_st vlog]. rewrite v_st_pre_vm, flag_in_range_pre_st. exact Hr. }
  rewrite Hyes by exact Hm. clear Hyes.
  set (v1 := croaked sep (vlog (pre_vm v) (EvInstr op_CROAK))).
  assert (Hst : v_st v1 = pre_st (v_st v)) by reflexivity.
  cbn [err_check after_check]. unfold dead_check. rewrite Hst.
  rewrite !getf_pre_st_other by (vm_compute; discriminate). rewrite Ht.
  rewrite <- (where_sym_sbf _ _ (pre_st_sbf (v_st v))).
  assert (Hin : s_input (pre_st (v_st v)) = s_input (v_st v)).
  { pose proof (pre_st_sbf (v_st v)) as (_ & _ & _ & _ & _ & H). symmetry. exact H. }
  rewrite Hin.
  destruct (getf (v_st v) FLAG_READIN); cbn [negb]; [|reflexivity].
  destruct (where_sym (v_st v)) as [|x l] eqn:Hw; [reflexivity|].
  destruct (bytes_eqb (x :: l) catch_sym); [reflexivity|].
  change move_catch_code with (encode (IMove catch_sym)).
  destruct (encode_shape (IMove catch_sym)) as (a & b & t & He). rewrite He. reflexivity.
Qed.

Lemma croak_run_no_match : forall fuel rs sep lang sig mode rest v,
  wf_num sig -> getf (v_st v) FLAG_TERMINATE = false ->
  flag_in_range (v_st v) sig = true -> getf (pre_st (v_st v)) sig <> mode ->
  run (S fuel) rs sep lang (encode (ICroak sig mode) ++ rest) v =
    after_check (run fuel rs sep (pre_lang lang (v_st v))) (vlog (pre_vm v) (EvInstr op_CROAK), rest, SOk).
Proof.
  intros fuel rs sep lang sig mode rest v Hwf Ht Hr Hm.
  rewrite run_S_encoded by (cbn [wf_instr]; assumption). cbv zeta. cbn [opcode_of exec_instr].
  change (op_CROAK =? op_HALT) with false. cbv iota.
  destruct (croak_iff_match sep sig mode rest (vlog (pre_vm v) (EvInstr op_CROAK))) as [Hno _].
  { cbn [v_st vlog]. rewrite v_st_pre_vm, flag_in_range_pre_st. exact Hr. }
  rewrite Hno by exact Hm. reflexivity.
Qed.

(* HALT: the loop returns at once with the rest of the code *)
Lemma run_halt : forall fuel rs sep lang rest v,
  getf (v_st v) FLAG_TERMINATE = false ->
  run (S fuel) rs sep lang (encode IHalt ++ rest) v =
    (let v0 := vlog (pre_vm v) (EvInstr op_HALT) in vset_st v0 (setf (v_st v0) FLAG_WAIT), rest, SOk).
Proof.
  intros fuel rs sep lang rest v Ht. rewrite run_S_encoded by (cbn [wf_instr]; auto; exact I).
  cbv zeta. cbn [opcode_of exec_instr]. rewrite N.eqb_refl. reflexivity.
Qed.

(* ======================================================================================== *)
(* 6. which flags an instruction can change                                                   *)
(* ======================================================================================== *)

(* navigation touches the position only *)
Definition same_but_pos (a b : state) : Prop :=
  s_code a = s_code b /\ s_bitsize a = s_bitsize b /\ s_flags a = s_flags b /\ s_lang a = s_lang b
  /\ s_input a = s_input b.
Lemma sbp_refl : forall a, same_but_pos a a. Proof. unfold same_but_pos; intuition. Qed.
Lemma sbp_trans : forall a b c, same_but_pos a b -> same_but_pos b c -> same_but_pos a c.
Proof. unfold same_but_pos; intuition congruence. Qed.
Lemma sbp_set_path_idx : forall s p i, same_but_pos s (set_path_idx s p i).
Proof. unfold same_but_pos; cbn; intuition. Qed.

Lemma st_up_sbp : forall s sym s', st_up s = Ok (sym, s') -> same_but_pos s s'.
Proof. unfold st_up. intros s sym s' H. destruct (s_path s); [discriminate|]. injection H as _ <-. apply sbp_set_path_idx. Qed.
Lemma st_down_sbp : forall s sym s', st_down s sym = Ok s' -> same_but_pos s s'.
Proof.
  unfold st_down. intros s sym s' H. destruct (MaxLevel <? len (s_path s)); [discriminate|].
  destruct (s_path s); [injection H as <-; apply sbp_set_path_idx|].
  destruct (bytes_eqb _ sym); [discriminate|]. injection H as <-. apply sbp_set_path_idx.
Qed.
Lemma st_next_sbp : forall s s', st_next s = Ok s' -> same_but_pos s s'.
Proof. unfold st_next. intros s s' H. destruct (s_path s); [discriminate|]. injection H as <-. apply sbp_set_path_idx. Qed.
Lemma st_previous_sbp : forall s s', st_previous s = Ok s' -> same_but_pos s s'.
Proof.
  unfold st_previous. intros s s' H. destruct (s_path s); [discriminate|].
  destruct (s_idx s =? 0); [discriminate|]. injection H as <-. apply sbp_set_path_idx.
Qed.

Lemma rewind_sbp : forall fuel sym st ca st' ca' sym' r,
  rewind fuel sym st ca = (st', ca', sym', r) -> same_but_pos st st'.
Proof.
  induction fuel as [|f IH]; intros sym st ca st' ca' sym' r H; cbn [rewind] in H.
  - injection H as <- _ _ _. apply sbp_refl.
  - destruct (st_top st) as [[|]| |]; try (injection H as <- _ _ _; apply sbp_refl).
    destruct (st_up st) as [[sy st1]| |] eqn:Hu; try (injection H as <- _ _ _; apply sbp_refl).
    pose proof (st_up_sbp _ _ _ Hu) as H1.
    destruct (cache_pop ca) as [ca1| |].
    + eapply sbp_trans; [exact H1|]. eapply IH. exact H.
    + injection H as <- _ _ _. exact H1.
    + injection H as <- _ _ _. exact H1.
Qed.

Lemma apply_target_sbp : forall t st ca st' ca' sym r,
  apply_target t st ca = (st', ca', sym, r) -> same_but_pos st st'.
Proof.
  intros t st ca st' ca' sym r H. rewrite apply_target_ite in H.
  destruct (negb (valid_target_b t)); [injection H as <- _ _ _; apply sbp_refl|].
  destruct (bytes_eqb t t_up).
  { unfold do_up in H. destruct (st_up st) as [[sy st1]| |] eqn:Hu; try (injection H as <- _ _ _; apply sbp_refl).
    pose proof (st_up_sbp _ _ _ Hu). destruct (cache_pop ca); injection H as <- _ _ _; assumption. }
  destruct (bytes_eqb t t_next).
  { unfold do_next in H. destruct (st_next st) as [st1| |] eqn:Hu; try (injection H as <- _ _ _; apply sbp_refl).
    injection H as <- _ _ _. eapply st_next_sbp; eauto. }
  destruct (bytes_eqb t t_prev).
  { unfold do_prev in H. destruct (st_previous st) as [st1|e|] eqn:Hu.
    - injection H as <- _ _ _. eapply st_previous_sbp; eauto.
    - destruct e; injection H as <- _ _ _; apply sbp_refl.
    - injection H as <- _ _ _; apply sbp_refl. }
  destruct (bytes_eqb t t_top).
  { eapply rewind_sbp; eauto. }
  destruct (bytes_eqb t t_same).
  { injection H as <- _ _ _; apply sbp_refl. }
  unfold do_named in H.
  destruct (MaxLevel + 1 <=? len (s_path st)); [injection H as <- _ _ _; apply sbp_refl|].
  destruct (bytes_eqb (where_sym st) t); [injection H as <- _ _ _; apply sbp_refl|].
  destruct (st_down st t) as [st1| |] eqn:Hd; injection H as <- _ _ _; try apply sbp_refl.
  eapply st_down_sbp; eauto.
Qed.

(* ---- an induction principle for properties of the machine that every piece of the loop keeps -- *)
Lemma run_preserves : forall (P : vmst -> Prop) rs sep,
  (forall v, P v -> P (pre_vm v)) ->
  (forall v e, P v -> P (vlog v e)) ->
  (forall lang i b v v' b' s, P v -> exec_instr rs sep lang i b v = (v', b', s) -> P v') ->
  (forall v m, P v -> P (set_page_err v m)) ->
  (forall v v' b s, P v -> dead_check v = (v', b, s) -> P v') ->
  forall fuel lang b v v' b' s, P v -> run fuel rs sep lang b v = (v', b', s) -> P v'.
Proof.
  intros P rs sep Hpre Hlog Hexec Herr Hdead.
  induction fuel as [|fuel IH]; intros lang b v v' b' s HP H.
  - rewrite run_O in H. injection H as <- _ _. exact HP.
  - rewrite run_S in H. destruct (getf (v_st v) FLAG_TERMINATE); [injection H as <- _ _; exact HP|].
    cbv zeta in H. pose proof (Hpre _ HP) as HP0.
    destruct (op_split b) as [[op b1]| |]; try (injection H as <- _ _; exact HP0).
    assert (Hstep : forall v1 b2 s1, step_instr rs sep (pre_lang lang (v_st v)) op b1 (pre_vm v) = (v1, b2, s1) -> P v1).
    { intros v1 b2 s1 Hs. unfold step_instr in Hs.
      destruct (parse_args op b1) as [[i b3]| |]; try (injection Hs as <- _ _; exact HP0).
      eapply Hexec; [|exact Hs]. apply Hlog. exact HP0. }
    destruct (step_instr rs sep (pre_lang lang (v_st v)) op b1 (pre_vm v)) as [[v1 b2] s1] eqn:Hs.
    pose proof (Hstep _ _ _ eq_refl) as HP1.
    assert (Hmain : (if op =? op_HALT then (v1, b2, s1)
                     else after_check (run fuel rs sep (pre_lang lang (v_st v))) (err_check (v1, b2, s1))) = (v', b', s) -> P v').
    { clear H. intros H. destruct (op =? op_HALT); [injection H as <- _ _; exact HP1|].
      destruct (err_check (v1, b2, s1)) as [[v2 b3] s2] eqn:He.
      assert (HP2 : P v2).
      { unfold err_check in He. destruct s1; try (injection He as <- _ _; exact HP1).
        cbv zeta in He.
        destruct (getf (v_st (set_page_err v1 msg)) FLAG_LOADFAIL && negb (bytes_eqb (where_sym (v_st (set_page_err v1 msg))) catch_sym));
          injection He as <- _ _; apply Herr; exact HP1. }
      unfold after_check in H. destruct s2; try (injection H as <- _ _; exact HP2).
      destruct b3 as [|x b3]; [|eapply IH; [exact HP2|exact H]].
      destruct (dead_check v2) as [[v3 b4] s3] eqn:Hd. pose proof (Hdead _ _ _ _ HP2 Hd) as HP3.
      destruct s3; try (injection H as <- _ _; exact HP3).
      destruct b4 as [|y b4]; [injection H as <- _ _; exact HP3|]. eapply IH; [exact HP3|exact H]. }
    destruct (parse_args op b1) as [[i b3]| |]; try (apply Hmain; exact H).
    injection H as <- _ _. exact HP0.
Qed.

(* ---- the reserved flags: who can change which ------------------------------------------------ *)
Definition can_fail (rs : rsrc) : Prop :=
  exists sym script fr, rs_func rs sym = Some script /\ In fr script /\ fr_fail fr = true.

(* st -> st' changed, among the flags 0..5, at most: READIN, INMATCH, WAIT (the VM's own
   bookkeeping), DIRTY (set by the loop), and LOADFAIL provided some function can fail *)
Definition rsv_step (d : bool) (rs : rsrc) (st st' : state) : Prop :=
  forall f, f <= nonwriteable_flag_threshold ->
    getf st' f = getf st f \/ f = FLAG_READIN \/ f = FLAG_INMATCH \/ f = FLAG_WAIT \/ (d = true /\ f = FLAG_DIRTY)
    \/ (f = FLAG_LOADFAIL /\ can_fail rs).
Lemma rsv_refl : forall d rs st, rsv_step d rs st st.
Proof. intros d rs st f _. left. reflexivity. Qed.
Lemma rsv_trans : forall d rs a b c, rsv_step d rs a b -> rsv_step d rs b c -> rsv_step d rs a c.
Proof.
  intros d rs a b c H1 H2 f Hf. destruct (H1 f Hf) as [E1|H1']; [|right; exact H1'].
  destruct (H2 f Hf) as [E2|H2']; [left; congruence|right; exact H2'].
Qed.
Lemma rsv_same_flags : forall d rs a b, s_flags a = s_flags b -> rsv_step d rs a b.
Proof. intros d rs a b H f _. left. unfold getf. rewrite H. reflexivity. Qed.
Lemma rsv_sbp : forall d rs a b, same_but_pos a b -> rsv_step d rs a b.
Proof. intros d rs a b (_ & _ & H & _). apply rsv_same_flags. exact H. Qed.
Lemma rsv_setf : forall d rs st j,
  (j = FLAG_READIN \/ j = FLAG_INMATCH \/ j = FLAG_WAIT \/ (d = true /\ j = FLAG_DIRTY) \/ is_writeable_flag j = true) ->
  rsv_step d rs st (setf st j).
Proof.
  intros d rs st j Hj f Hf. destruct (N.eq_dec f j) as [->|Hne]; [|left; apply getf_setf_other; exact Hne].
  destruct Hj as [->|[->|[->|[[-> ->]|Hw]]]]; auto 7. unfold is_writeable_flag in Hw. lia.
Qed.
Lemma rsv_resetf : forall d rs st j,
  (j = FLAG_READIN \/ j = FLAG_INMATCH \/ j = FLAG_WAIT \/ (d = true /\ j = FLAG_DIRTY) \/ is_writeable_flag j = true) ->
  rsv_step d rs st (resetf st j).
Proof.
  intros d rs st j Hj f Hf. destruct (N.eq_dec f j) as [->|Hne]; [|left; apply getf_resetf_other; exact Hne].
  destruct Hj as [->|[->|[->|[[-> ->]|Hw]]]]; auto 7. unfold is_writeable_flag in Hw. lia.
Qed.

Lemma nth_fres_In : forall script n fr, nth_fres script n = Some fr -> In fr script.
Proof. intros script n fr H. unfold nth_fres in H. destruct script; [discriminate|]. eapply nth_error_In. exact H. Qed.

Lemma apply_flags_no_err : forall fl set st e, apply_flags set fl st <> Err e.
Proof.
  induction fl as [|f fl IH]; intros set st e; cbn [apply_flags]; [discriminate|].
  destruct (is_writeable_flag f); [|apply IH].
  destruct set; [unfold set_flag|unfold reset_flag]; destruct (flag_in_range st f); cbn [obind]; try discriminate; apply IH.
Qed.

Lemma refresh_rsv : forall d rs lang key v v' content s,
  refresh rs lang key v = (v', content, s) -> rsv_step d rs (v_st v) (v_st v').
Proof.
  intros d rs lang key v v' content s H f Hf.
  destruct (refresh_reserved _ _ _ _ _ _ _ H f Hf) as [E|[-> [m ->]]]; [left; exact E|].
  do 5 right. split; [reflexivity|]. unfold refresh in H.
  destruct (rs_func rs key) as [script|] eqn:Hfn; [|discriminate].
  destruct (nth_fres script _) as [fr|] eqn:Hn; [|discriminate].
  exists key, script, fr. split; [exact Hfn|]. split; [eapply nth_fres_In; exact Hn|].
  destruct (fr_fail fr); [reflexivity|].
  destruct (apply_flags false (fr_reset fr) _) as [st1|e|] eqn:H1;
    [|exfalso; eapply apply_flags_no_err; exact H1|discriminate].
  destruct (apply_flags true (fr_set fr) st1) as [st2|e|] eqn:H2;
    [discriminate|exfalso; eapply apply_flags_no_err; exact H2|discriminate].
Qed.

Lemma refresh_other_fields : forall rs lang key v v' content s,
  refresh rs lang key v = (v', content, s) -> v_ca v' = v_ca v /\ v_pg v' = v_pg v.
Proof.
  intros rs lang key v v' content s H. unfold refresh in H.
  destruct (rs_func rs key) as [script|]; [|injection H as <- _ _; auto].
  destruct (nth_fres script _) as [fr|]; [|injection H as <- _ _; auto].
  destruct (fr_fail fr); [injection H as <- _ _; auto|].
  destruct (apply_flags false (fr_reset fr) _) as [st1| |]; [|injection H as <- _ _; auto|injection H as <- _ _; auto].
  destruct (apply_flags true (fr_set fr) st1); injection H as <- _ _; auto.
Qed.

Lemma exec_instr_rsv : forall d rs sep lang i b v v' b' s,
  exec_instr rs sep lang i b v = (v', b', s) -> rsv_step d rs (v_st v) (v_st v').
Proof.
  intros d rs sep lang i b v v' b' s H. destruct i; cbn [exec_instr] in H.
  - injection H as <- _ _. apply rsv_refl.
  - (* CATCH *) unfold run_catch in H.
    destruct (match_flag (v_st v) sig mode) as [[|]| |]; try (injection H as <- _ _; apply rsv_refl).
    destruct (apply_target sym (v_st v) (v_ca v)) as [[[st' ca'] nsym] s1] eqn:Ha.
    pose proof (rsv_sbp d rs _ _ (apply_target_sbp _ _ _ _ _ _ _ Ha)) as Hs.
    destruct s1; try (injection H as <- _ _; exact Hs).
    unfold fetch_code in H. destruct (rs_observed rs); destruct (rs_code rs nsym); injection H as <- _ _; exact Hs.
  - (* CROAK *) unfold run_croak in H.
    destruct (match_flag (v_st v) sig mode) as [[|]| |]; injection H as <- _ _; apply rsv_refl.
  - (* LOAD *) unfold run_load in H.
    destruct (cache_get (v_ca v) sym); try (injection H as <- _ _; apply rsv_refl).
    destruct (refresh rs lang sym v) as [[v1 content] s1] eqn:Hr.
    pose proof (refresh_rsv d _ _ _ _ _ _ _ Hr) as Hs.
    destruct s1; try (injection H as <- _ _; exact Hs).
    destruct (cache_add (v_ca v1) sym content (w16 sz)) as [ca'|e0|]; try (injection H as <- _ _; exact Hs).
    destruct e0; injection H as <- _ _; exact Hs.
  - (* RELOAD *) unfold run_reload in H.
    destruct (refresh rs lang sym v) as [[v1 content] s1] eqn:Hr.
    pose proof (refresh_rsv d _ _ _ _ _ _ _ Hr) as Hs.
    destruct s1; try (injection H as <- _ _; exact Hs).
    destruct (cache_update_raw (v_ca v1) sym content) as [ca' oe].
    destruct (page_map _ _ sym); injection H as <- _ _; exact Hs.
  - (* MAP *) unfold run_map in H. destruct (page_map _ _ sym); injection H as <- _ _; apply rsv_refl.
  - (* MOVE *) unfold run_move in H.
    destruct (apply_target sym (v_st v) (v_ca v)) as [[[st' ca'] nsym] s1] eqn:Ha.
    pose proof (rsv_sbp d rs _ _ (apply_target_sbp _ _ _ _ _ _ _ Ha)) as Hs.
    destruct s1; try (injection H as <- _ _; exact Hs).
    unfold fetch_code in H. destruct (rs_observed rs); destruct (rs_code rs nsym); injection H as <- _ _; exact Hs.
  - (* HALT *) injection H as <- _ _. cbn [v_st vset_st]. apply rsv_setf. auto.
  - (* INCMP *) unfold run_incmp in H.
    destruct (getf (v_st v) FLAG_INMATCH && getf (v_st v) FLAG_READIN); [injection H as <- _ _; apply rsv_refl|].
    set (st0 := if getf (v_st v) FLAG_INMATCH then v_st v else setf (v_st v) FLAG_READIN) in *.
    assert (H0 : rsv_step d rs (v_st v) st0).
    { unfold st0. destruct (getf (v_st v) FLAG_INMATCH); [apply rsv_refl|apply rsv_setf; auto]. }
    cbn [v_st vset_st] in H.
    destruct (s_input st0) as [input|]; [|injection H as <- _ _; exact H0].
    destruct ((negb (getf (v_st v) FLAG_INMATCH) && bytes_eqb sel star) || bytes_eqb sel input);
      [|injection H as <- _ _; exact H0].
    set (st1 := resetf (setf st0 FLAG_INMATCH) FLAG_READIN) in *.
    assert (H1 : rsv_step d rs (v_st v) st1).
    { eapply rsv_trans; [exact H0|]. eapply rsv_trans; [apply rsv_setf|apply rsv_resetf]; auto. }
    cbn [v_ca vset_st] in H.
    destruct (apply_target target st1 (v_ca v)) as [[[st' ca'] nsym] s1] eqn:Ha.
    assert (Hs : rsv_step d rs (v_st v) st').
    { eapply rsv_trans; [exact H1|]. apply rsv_sbp. eapply apply_target_sbp; eauto. }
    destruct s1 as [|e m| |].
    + unfold fetch_code in H. destruct (rs_observed rs); destruct (rs_code rs nsym); injection H as <- _ _; exact Hs.
    + destruct e; try (injection H as <- _ _; exact Hs).
      injection H as <- _ _. cbn [v_st vlog vset_st]. eapply rsv_trans; [exact Hs|apply rsv_setf; auto].
    + injection H as <- _ _; exact Hs.
    + injection H as <- _ _; exact Hs.
  - injection H as <- _ _. apply rsv_refl.
  - injection H as <- _ _. apply rsv_refl.
  - injection H as <- _ _. apply rsv_refl.
  - injection H as <- _ _. apply rsv_refl.
Qed.

Lemma pre_st_rsv : forall rs st, rsv_step true rs st (pre_st st).
Proof.
  intros rs st f Hf. destruct (N.eq_dec f FLAG_WAIT) as [->|H1]; [auto|].
  destruct (N.eq_dec f FLAG_INMATCH) as [->|H2]; [auto|].
  destruct (N.eq_dec f FLAG_DIRTY) as [->|H3]; [auto 7|].
  left. apply getf_pre_st_other; try assumption. unfold nonwriteable_flag_threshold in Hf. unfold FLAG_LANG. lia.
Qed.

Lemma set_page_err_st : forall v m, v_st (set_page_err v m) = v_st v.
Proof. intros v [m|]; reflexivity. Qed.
Lemma set_page_err_ca : forall v m, v_ca (set_page_err v m) = v_ca v.
Proof. intros v [m|]; reflexivity. Qed.

Lemma dead_check_rsv : forall d rs v v' b s, dead_check v = (v', b, s) -> rsv_step d rs (v_st v) (v_st v').
Proof.
  intros d rs v v' b s H. unfold dead_check in H.
  destruct (negb (getf (v_st v) FLAG_READIN)).
  - injection H as <- _ _. cbn [v_st vset_st]. apply rsv_setf. do 4 right. reflexivity.
  - destruct (getf (v_st v) FLAG_TERMINATE); [injection H as <- _ _; apply rsv_refl|].
    destruct (where_sym (v_st v)); [injection H as <- _ _; apply rsv_refl|].
    destruct (bytes_eqb _ catch_sym); injection H as <- _ _; apply rsv_refl.
Qed.

(* across a whole run: among the flags 0..5 only READIN, INMATCH, WAIT, DIRTY can change, and
   LOADFAIL if some function of the resource can fail *)
Lemma run_rsv : forall fuel rs sep lang b v v' b' s,
  run fuel rs sep lang b v = (v', b', s) -> rsv_step true rs (v_st v) (v_st v').
Proof.
  intros fuel rs sep lang b v v' b' s H.
  refine (run_preserves (fun x => rsv_step true rs (v_st v) (v_st x)) rs sep _ _ _ _ _ fuel lang b v v' b' s (rsv_refl true rs (v_st v)) H).
  - intros x Hx. eapply rsv_trans; [exact Hx|]. rewrite v_st_pre_vm. apply pre_st_rsv.
  - intros x e Hx. exact Hx.
  - intros lang0 i b0 x x' b1 s1 Hx He. eapply rsv_trans; [exact Hx|]. eapply exec_instr_rsv; eauto.
  - intros x m Hx. rewrite set_page_err_st. exact Hx.
  - intros x x' b0 s0 Hx Hd. eapply rsv_trans; [exact Hx|]. eapply dead_check_rsv; eauto.
Qed.

(* RESERVED (5) never changes in any run *)
Lemma run_reserved_const : forall fuel rs sep lang b v v' b' s,
  run fuel rs sep lang b v = (v', b', s) -> getf (v_st v') FLAG_RESERVED = getf (v_st v) FLAG_RESERVED.
Proof.
  intros fuel rs sep lang b v v' b' s H.
  destruct (run_rsv _ _ _ _ _ _ _ _ _ H FLAG_RESERVED) as [E|[E|[E|[E|[[_ E]|[E _]]]]]];
    try exact E; try discriminate; try (unfold FLAG_RESERVED, nonwriteable_flag_threshold; lia).
Qed.

(* LOADFAIL changes in a run only if some function of the resource can fail *)
Lemma run_loadfail_needs_failure : forall fuel rs sep lang b v v' b' s,
  run fuel rs sep lang b v = (v', b', s) ->
  getf (v_st v') FLAG_LOADFAIL <> getf (v_st v) FLAG_LOADFAIL -> can_fail rs.
Proof.
  intros fuel rs sep lang b v v' b' s H Hne.
  destruct (run_rsv _ _ _ _ _ _ _ _ _ H FLAG_LOADFAIL) as [E|[E|[E|[E|[[_ E]|[_ E]]]]]];
    try discriminate; try congruence; try exact E; try (unfold FLAG_LOADFAIL, nonwriteable_flag_threshold; lia).
Qed.

(* DIRTY, once set, stays set through a run; and a run that starts unterminated sets it *)
Lemma getf_setf_mono : forall s i j, getf s i = true -> getf (setf s j) i = true.
Proof.
  intros s i j H. destruct (N.eq_dec i j) as [->|Hne]; [|rewrite getf_setf_other by exact Hne; exact H].
  unfold getf, setf in *. cbn [s_flags set_flags]. apply nth_set_nth_bit_same.
  destruct (Compare_dec.le_lt_dec (List.length (s_flags s)) (N.to_nat j)) as [Hl|Hl]; [|exact Hl].
  rewrite nth_overflow in H by exact Hl. discriminate.
Qed.

Lemma rsv_false_dirty : forall rs st st', rsv_step false rs st st' -> getf st' FLAG_DIRTY = getf st FLAG_DIRTY.
Proof.
  intros rs st st' H. destruct (H FLAG_DIRTY) as [E|[E|[E|[E|[[E _]|[E _]]]]]]; try exact E; try discriminate.
Qed.

Lemma run_dirty_mono : forall fuel rs sep lang b v v' b' s,
  run fuel rs sep lang b v = (v', b', s) -> getf (v_st v) FLAG_DIRTY = true -> getf (v_st v') FLAG_DIRTY = true.
Proof.
  intros fuel rs sep lang b v v' b' s H H0.
  refine (run_preserves (fun x => getf (v_st x) FLAG_DIRTY = true) rs sep _ _ _ _ _ fuel lang b v v' b' s H0 H).
  - intros x Hx. rewrite v_st_pre_vm. unfold pre_st. cbv zeta. apply getf_setf_mono.
    destruct (getf (resetf (v_st x) FLAG_LANG) FLAG_WAIT);
      repeat (rewrite getf_resetf_other by (vm_compute; discriminate)); exact Hx.
  - intros x e Hx. exact Hx.
  - intros lang0 i b0 x x' b1 s1 Hx He.
    rewrite (rsv_false_dirty rs _ _ (exec_instr_rsv false _ _ _ _ _ _ _ _ _ He)). exact Hx.
  - intros x m Hx. rewrite set_page_err_st. exact Hx.
  - intros x x' b0 s0 Hx Hd. rewrite (rsv_false_dirty rs _ _ (dead_check_rsv false rs _ _ _ _ Hd)). exact Hx.
Qed.

(* a run that returns without TERMINATE (and not for lack of fuel) has set DIRTY *)
Lemma run_sets_dirty : forall fuel rs sep lang b v v' b' s,
  run fuel rs sep lang b v = (v', b', s) -> s <> SFuel ->
  getf (v_st v') FLAG_TERMINATE = false -> flag_in_range (v_st v) FLAG_DIRTY = true ->
  getf (v_st v') FLAG_DIRTY = true.
Proof.
  intros fuel rs sep lang b v v' b' s H Hs Ht Hr. destruct fuel as [|fuel].
  - rewrite run_O in H. injection H as _ _ <-. congruence.
  - rewrite run_S in H. destruct (getf (v_st v) FLAG_TERMINATE) eqn:Ht0; [injection H as <- _ _; congruence|].
    cbv zeta in H.
    assert (Hd0 : getf (v_st (pre_vm v)) FLAG_DIRTY = true).
    { rewrite v_st_pre_vm. unfold pre_st. cbv zeta. apply getf_setf_same.
      destruct (getf (resetf (v_st v) FLAG_LANG) FLAG_WAIT); repeat rewrite flag_in_range_resetf; exact Hr. }
    destruct (op_split b) as [[op b1]| |]; try (injection H as <- _ _; exact Hd0).
    assert (Hstep : forall v1 b2 s1, step_instr rs sep (pre_lang lang (v_st v)) op b1 (pre_vm v) = (v1, b2, s1) ->
                                     getf (v_st v1) FLAG_DIRTY = true).
    { intros v1 b2 s1 Hst. unfold step_instr in Hst.
      destruct (parse_args op b1) as [[i b3]| |]; try (injection Hst as <- _ _; exact Hd0).
      rewrite (rsv_false_dirty rs _ _ (exec_instr_rsv false _ _ _ _ _ _ _ _ _ Hst)). exact Hd0. }
    destruct (step_instr rs sep (pre_lang lang (v_st v)) op b1 (pre_vm v)) as [[v1 b2] s1] eqn:Hst.
    pose proof (Hstep _ _ _ eq_refl) as Hd1.
    assert (Hmain : (if op =? op_HALT then (v1, b2, s1)
                     else after_check (run fuel rs sep (pre_lang lang (v_st v))) (err_check (v1, b2, s1))) = (v', b', s) ->
                    getf (v_st v') FLAG_DIRTY = true).
    { clear H. intros H. destruct (op =? op_HALT); [injection H as <- _ _; exact Hd1|].
      destruct (err_check (v1, b2, s1)) as [[v2 b3] s2] eqn:He.
      assert (Hd2 : getf (v_st v2) FLAG_DIRTY = true).
      { unfold err_check in He. destruct s1; try (injection He as <- _ _; exact Hd1).
        cbv zeta in He.
        destruct (getf (v_st (set_page_err v1 msg)) FLAG_LOADFAIL && negb (bytes_eqb (where_sym (v_st (set_page_err v1 msg))) catch_sym));
          injection He as <- _ _; rewrite set_page_err_st; exact Hd1. }
      unfold after_check in H. destruct s2; try (injection H as <- _ _; exact Hd2).
      destruct b3 as [|x b3]; [|eapply run_dirty_mono; [exact H|exact Hd2]].
      destruct (dead_check v2) as [[v3 b4] s3] eqn:Hd.
      assert (Hd3 : getf (v_st v3) FLAG_DIRTY = true)
        by (rewrite (rsv_false_dirty rs _ _ (dead_check_rsv false rs _ _ _ _ Hd)); exact Hd2).
      destruct s3; try (injection H as <- _ _; exact Hd3).
      destruct b4 as [|y b4]; [injection H as <- _ _; exact Hd3|]. eapply run_dirty_mono; [exact H|exact Hd3]. }
    destruct (parse_args op b1) as [[i b3]| |]; try (apply Hmain; exact H).
    injection H as <- _ _. exact Hd0.
Qed.

(* ---- how a run can end with no code left ------------------------------------------------------ *)
(* Either TERMINATE is set (it was set before, external code set it, or runDeadCheck set it
   because the code ran out while no input was being handled), or the last instruction was a
   HALT: WAIT is set and HALT is the newest entry of the instruction log. *)
Definition ended_on_halt (v : vmst) : Prop :=
  getf (v_st v) FLAG_WAIT = true /\ exists l, v_log v = EvInstr op_HALT :: l.

Lemma dead_check_empty_terminates : forall v v', dead_check v = (v', [], SOk) ->
  flag_in_range (v_st v) FLAG_TERMINATE = true -> getf (v_st v') FLAG_TERMINATE = true.
Proof.
  intros v v' H Hr. unfold dead_check in H. destruct (negb (getf (v_st v) FLAG_READIN)).
  - injection H as <-. cbn [v_st vset_st]. apply getf_setf_same. exact Hr.
  - destruct (getf (v_st v) FLAG_TERMINATE) eqn:Ht; [injection H as <-; exact Ht|].
    destruct (where_sym (v_st v)); [discriminate|].
    destruct (bytes_eqb _ catch_sym); [discriminate|].
    exfalso. injection H as _ H. revert H. change move_catch_code with (encode (IMove catch_sym)).
    destruct (encode_shape (IMove catch_sym)) as (a & b & t & He). rewrite He. discriminate.
Qed.

(* ---- the shape of the flag field (configured flag count, byte size) never changes -------------- *)
Definition same_shape (a b : state) : Prop :=
  s_bitsize a = s_bitsize b /\ List.length (s_flags a) = List.length (s_flags b).
Lemma shape_refl : forall a, same_shape a a. Proof. unfold same_shape; auto. Qed.
Lemma shape_trans : forall a b c, same_shape a b -> same_shape b c -> same_shape a c.
Proof. unfold same_shape; intuition congruence. Qed.
Lemma shape_range : forall a b i, same_shape a b -> flag_in_range b i = flag_in_range a i.
Proof. intros a b i [H1 H2]. unfold flag_in_range, len. rewrite H1, H2. reflexivity. Qed.
Lemma shape_setf : forall s j, same_shape s (setf s j).
Proof. intros. unfold same_shape, setf. cbn [s_bitsize s_flags set_flags]. rewrite length_set_nth_bit. auto. Qed.
Lemma shape_resetf : forall s j, same_shape s (resetf s j).
Proof. intros. unfold same_shape, resetf. cbn [s_bitsize s_flags set_flags]. rewrite length_set_nth_bit. auto. Qed.
Lemma shape_sbp : forall a b, same_but_pos a b -> same_shape a b.
Proof. intros a b (_ & H1 & H2 & _). unfold same_shape. rewrite H1, H2. auto. Qed.
Lemma shape_pre_st : forall s, same_shape s (pre_st s).
Proof.
  intros s. unfold pre_st. cbv zeta. eapply shape_trans; [|apply shape_setf].
  destruct (getf (resetf s FLAG_LANG) FLAG_WAIT); repeat (eapply shape_trans; [|apply shape_resetf]); apply shape_refl.
Qed.
Lemma shape_set_language : forall lk s c, same_shape s (st_set_language lk s c).
Proof. intros. unfold same_shape, st_set_language. destruct c; destruct (lk _); cbn; auto. Qed.

Lemma apply_flags_shape : forall fl set st st', apply_flags set fl st = Ok st' -> same_shape st st'.
Proof.
  induction fl as [|f fl IH]; intros set st st' H; cbn [apply_flags] in H; [injection H as <-; apply shape_refl|].
  destruct (is_writeable_flag f); [|eapply IH; exact H].
  destruct (flag_in_range st f) eqn:Hf.
  - destruct set; [rewrite set_flag_ok in H by exact Hf|rewrite reset_flag_ok in H by exact Hf]; cbn [obind] in H;
      (eapply shape_trans; [|eapply IH; exact H]); [apply shape_setf|apply shape_resetf].
  - destruct set; [rewrite set_flag_panics in H by exact Hf|rewrite reset_flag_panics in H by exact Hf]; discriminate.
Qed.

Lemma refresh_shape : forall rs lang key v v' content s,
  refresh rs lang key v = (v', content, s) -> same_shape (v_st v) (v_st v').
Proof.
  intros rs lang key v v' content s H. unfold refresh in H.
  destruct (rs_func rs key) as [script|]; [|injection H as <- _ _; apply shape_refl].
  destruct (nth_fres script _) as [fr|]; [|injection H as <- _ _; apply shape_refl].
  destruct (fr_fail fr); [injection H as <- _ _; cbn [v_st vset_st vlog vset_w]; apply shape_setf|].
  destruct (apply_flags false (fr_reset fr) _) as [st1| |] eqn:H1; try (injection H as <- _ _; apply shape_refl).
  destruct (apply_flags true (fr_set fr) st1) as [st2| |] eqn:H2; try (injection H as <- _ _; apply shape_refl).
  injection H as <- _ _. cbn [v_st vset_st].
  apply apply_flags_shape in H1. apply apply_flags_shape in H2. cbn [v_st vlog vset_w] in H1.
  eapply shape_trans; [exact H1|]. eapply shape_trans; [exact H2|].
  destruct (getf st2 FLAG_LANG); [apply shape_set_language|apply shape_refl].
Qed.

Lemma exec_instr_shape : forall rs sep lang i b v v' b' s,
  exec_instr rs sep lang i b v = (v', b', s) -> same_shape (v_st v) (v_st v').
Proof.
  intros rs sep lang i b v v' b' s H. destruct i; cbn [exec_instr] in H.
  - injection H as <- _ _. apply shape_refl.
  - unfold run_catch in H.
    destruct (match_flag (v_st v) sig mode) as [[|]| |]; try (injection H as <- _ _; apply shape_refl).
    destruct (apply_target sym (v_st v) (v_ca v)) as [[[st' ca'] nsym] s1] eqn:Ha.
    pose proof (shape_sbp _ _ (apply_target_sbp _ _ _ _ _ _ _ Ha)) as Hs.
    destruct s1; try (injection H as <- _ _; exact Hs).
    unfold fetch_code in H. destruct (rs_observed rs); destruct (rs_code rs nsym); injection H as <- _ _; exact Hs.
  - unfold run_croak in H.
    destruct (match_flag (v_st v) sig mode) as [[|]| |]; injection H as <- _ _; apply shape_refl.
  - unfold run_load in H.
    destruct (cache_get (v_ca v) sym); try (injection H as <- _ _; apply shape_refl).
    destruct (refresh rs lang sym v) as [[v1 content] s1] eqn:Hr.
    pose proof (refresh_shape _ _ _ _ _ _ _ Hr) as Hs.
    destruct s1; try (injection H as <- _ _; exact Hs).
    destruct (cache_add (v_ca v1) sym content (w16 sz)) as [ca'|e0|]; try (injection H as <- _ _; exact Hs).
    destruct e0; injection H as <- _ _; exact Hs.
  - unfold run_reload in H.
    destruct (refresh rs lang sym v) as [[v1 content] s1] eqn:Hr.
    pose proof (refresh_shape _ _ _ _ _ _ _ Hr) as Hs.
    destruct s1; try (injection H as <- _ _; exact Hs).
    destruct (cache_update_raw (v_ca v1) sym content) as [ca' oe].
    destruct (page_map _ _ sym); injection H as <- _ _; exact Hs.
  - unfold run_map in H. destruct (page_map _ _ sym); injection H as <- _ _; apply shape_refl.
  - unfold run_move in H.
    destruct (apply_target sym (v_st v) (v_ca v)) as [[[st' ca'] nsym] s1] eqn:Ha.
    pose proof (shape_sbp _ _ (apply_target_sbp _ _ _ _ _ _ _ Ha)) as Hs.
    destruct s1; try (injection H as <- _ _; exact Hs).
    unfold fetch_code in H. destruct (rs_observed rs); destruct (rs_code rs nsym); injection H as <- _ _; exact Hs.
  - injection H as <- _ _. cbn [v_st vset_st]. apply shape_setf.
  - unfold run_incmp in H.
    destruct (getf (v_st v) FLAG_INMATCH && getf (v_st v) FLAG_READIN); [injection H as <- _ _; apply shape_refl|].
    set (st0 := if getf (v_st v) FLAG_INMATCH then v_st v else setf (v_st v) FLAG_READIN) in *.
    assert (H0 : same_shape (v_st v) st0).
    { unfold st0. destruct (getf (v_st v) FLAG_INMATCH); [apply shape_refl|apply shape_setf]. }
    cbn [v_st vset_st] in H.
    destruct (s_input st0) as [input|]; [|injection H as <- _ _; exact H0].
    destruct ((negb (getf (v_st v) FLAG_INMATCH) && bytes_eqb sel star) || bytes_eqb sel input);
      [|injection H as <- _ _; exact H0].
    set (st1 := resetf (setf st0 FLAG_INMATCH) FLAG_READIN) in *.
    assert (H1 : same_shape (v_st v) st1).
    { eapply shape_trans; [exact H0|]. eapply shape_trans; [apply shape_setf|apply shape_resetf]. }
    cbn [v_ca vset_st] in H.
    destruct (apply_target target st1 (v_ca v)) as [[[st' ca'] nsym] s1] eqn:Ha.
    assert (Hs : same_shape (v_st v) st').
    { eapply shape_trans; [exact H1|]. apply shape_sbp. eapply apply_target_sbp; eauto. }
    destruct s1 as [|e m| |].
    + unfold fetch_code in H. destruct (rs_observed rs); destruct (rs_code rs nsym); injection H as <- _ _; exact Hs.
    + destruct e; try (injection H as <- _ _; exact Hs).
      injection H as <- _ _. cbn [v_st vlog vset_st]. eapply shape_trans; [exact Hs|apply shape_setf].
    + injection H as <- _ _; exact Hs.
    + injection H as <- _ _; exact Hs.
  - injection H as <- _ _. apply shape_refl.
  - injection H as <- _ _. apply shape_refl.
  - injection H as <- _ _. apply shape_refl.
  - injection H as <- _ _. apply shape_refl.
Qed.

Lemma dead_check_shape : forall v v' b s, dead_check v = (v', b, s) -> same_shape (v_st v) (v_st v').
Proof.
  intros v v' b s H. unfold dead_check in H.
  destruct (negb (getf (v_st v) FLAG_READIN)); [injection H as <- _ _; apply shape_setf|].
  destruct (getf (v_st v) FLAG_TERMINATE); [injection H as <- _ _; apply shape_refl|].
  destruct (where_sym (v_st v)); [injection H as <- _ _; apply shape_refl|].
  destruct (bytes_eqb _ catch_sym); injection H as <- _ _; apply shape_refl.
Qed.

Lemma run_shape : forall fuel rs sep lang b v v' b' s,
  run fuel rs sep lang b v = (v', b', s) -> same_shape (v_st v) (v_st v').
Proof.
  intros fuel rs sep lang b v v' b' s H.
  refine (run_preserves (fun x => same_shape (v_st v) (v_st x)) rs sep _ _ _ _ _ fuel lang b v v' b' s (shape_refl _) H).
  - intros x Hx. eapply shape_trans; [exact Hx|]. rewrite v_st_pre_vm. apply shape_pre_st.
  - intros x e Hx. exact Hx.
  - intros lang0 i b0 x x' b1 s1 Hx He. eapply shape_trans; [exact Hx|]. eapply exec_instr_shape; eauto.
  - intros x m Hx. rewrite set_page_err_st. exact Hx.
  - intros x x' b0 s0 Hx Hd. eapply shape_trans; [exact Hx|]. eapply dead_check_shape; eauto.
Qed.

(* the end of a run with no code left *)
Lemma run_end_cases : forall fuel rs sep lang b v v',
  run fuel rs sep lang b v = (v', [], SOk) -> flag_in_range (v_st v) FLAG_TERMINATE = true ->
  getf (v_st v') FLAG_TERMINATE = true \/ ended_on_halt v'.
Proof.
  induction fuel as [|fuel IH]; intros rs sep lang b v v' H Hr.
  - rewrite run_O in H. discriminate.
  - rewrite run_S in H. destruct (getf (v_st v) FLAG_TERMINATE) eqn:Ht0; [injection H as <-; left; exact Ht0|].
    cbv zeta in H.
    destruct (op_split b) as [[op b1]| |]; try discriminate.
    destruct (step_instr rs sep (pre_lang lang (v_st v)) op b1 (pre_vm v)) as [[v1 b2] s1] eqn:Hst.
    assert (Hr1 : flag_in_range (v_st v1) FLAG_TERMINATE = true).
    { assert (Hr0 : flag_in_range (v_st (pre_vm v)) FLAG_TERMINATE = true)
        by (rewrite v_st_pre_vm, flag_in_range_pre_st; exact Hr).
      unfold step_instr in Hst.
      destruct (parse_args op b1) as [[i b3]| |]; try (injection Hst as <- _ _; exact Hr0).
      rewrite (shape_range _ _ _ (exec_instr_shape _ _ _ _ _ _ _ _ _ Hst)). exact Hr0. }
    assert (Hmain : (if op =? op_HALT then (v1, b2, s1)
                     else after_check (run fuel rs sep (pre_lang lang (v_st v))) (err_check (v1, b2, s1))) = (v', [], SOk) ->
                    getf (v_st v') FLAG_TERMINATE = true \/ ended_on_halt v').
    { clear H. intros H. destruct (op =? op_HALT) eqn:Hop.
      - injection H as <- -> ->. right. apply N.eqb_eq in Hop. subst op.
        unfold step_instr in Hst. change (parse_args op_HALT b1) with (Ok (E:=err) (IHalt, b1)) in Hst.
        cbn [exec_instr] in Hst. injection Hst as <- _. unfold ended_on_halt. cbn [v_st vset_st v_log vlog]. split.
        + apply getf_setf_same. rewrite flag_in_range_pre_st.
          unfold flag_in_range in *. change (w32 (FLAG_WAIT + 1)) with 3. change (w32 (FLAG_TERMINATE + 1)) with 7 in Hr.
          unfold FLAG_WAIT, FLAG_TERMINATE in *. lia.
        + eexists. reflexivity.
      - destruct (err_check (v1, b2, s1)) as [[v2 b3] s2] eqn:He.
        assert (Hr2 : flag_in_range (v_st v2) FLAG_TERMINATE = true).
        { unfold err_check in He. destruct s1; try (injection He as <- _ _; exact Hr1).
          cbv zeta in He.
          destruct (getf (v_st (set_page_err v1 msg)) FLAG_LOADFAIL && negb (bytes_eqb (where_sym (v_st (set_page_err v1 msg))) catch_sym));
            injection He as <- _ _; rewrite set_page_err_st; exact Hr1. }
        unfold after_check in H. destruct s2; try discriminate.
        destruct b3 as [|x b3]; [|eapply IH; [exact H|exact Hr2]].
        destruct (dead_check v2) as [[v3 b4] s3] eqn:Hd.
        destruct s3; try discriminate.
        destruct b4 as [|y b4].
        + injection H as <-. left. eapply dead_check_empty_terminates; eauto.
        + eapply IH; [exact H|]. rewrite (shape_range _ _ _ (dead_check_shape _ _ _ _ Hd)). exact Hr2. }
    destruct (parse_args op b1) as [[i b3]| |]; try (apply Hmain; exact H). discriminate.
Qed.

(* the built-in flags are in range as soon as the highest one is *)
Lemma flag_in_range_below : forall s i j, j <= i -> i < 4294967295 -> flag_in_range s i = true -> flag_in_range s j = true.
Proof.
  intros s i j Hji Hi H. unfold flag_in_range, w32 in *. rewrite N.mod_small in * by lia.
  apply andb_prop in H as [H1 H2]. apply andb_true_intro. split; lia.
Qed.

(* ======================================================================================== *)
(* 7. reserved requests are ignored: the run is the run of the stripped resource              *)
(* ======================================================================================== *)
Lemma exec_instr_strip : forall rs rs' sep lang i b v, strip_rel rs rs' ->
  exec_instr rs' sep lang i b v = exec_instr rs sep lang i b v.
Proof.
  intros rs rs' sep lang i b v Hrel. pose proof Hrel as (Hc & Ht & Hm & Hn & Ho & Hf).
  destruct i; cbn [exec_instr]; try reflexivity.
  - unfold run_catch, fetch_code. rewrite Ho.
    destruct (match_flag (v_st v) sig mode) as [[|]| |]; try reflexivity.
    destruct (apply_target sym (v_st v) (v_ca v)) as [[[st' ca'] nsym] s1]. rewrite Hc. reflexivity.
  - unfold run_load. rewrite (refresh_strip rs rs') by exact Hrel. reflexivity.
  - unfold run_reload. rewrite (refresh_strip rs rs') by exact Hrel. reflexivity.
  - unfold run_move, fetch_code. rewrite Ho.
    destruct (apply_target sym (v_st v) (v_ca v)) as [[[st' ca'] nsym] s1]. rewrite Hc. reflexivity.
  - unfold run_incmp, fetch_code. rewrite Ho.
    destruct (getf (v_st v) FLAG_INMATCH && getf (v_st v) FLAG_READIN); [reflexivity|].
    destruct (s_input _) as [input|]; [|reflexivity].
    destruct ((negb (getf (v_st v) FLAG_INMATCH) && bytes_eqb sel star) || bytes_eqb sel input); [|reflexivity].
    destruct (apply_target target _ _) as [[[st' ca'] nsym] s1]. rewrite Hc. reflexivity.
Qed.

Lemma run_strip : forall rs rs', strip_rel rs rs' ->
  forall fuel sep lang b v, run fuel rs' sep lang b v = run fuel rs sep lang b v.
Proof.
  intros rs rs' Hrel. induction fuel as [|fuel IH]; intros sep lang b v; [reflexivity|].
  rewrite !run_S. destruct (getf (v_st v) FLAG_TERMINATE); [reflexivity|]. cbv zeta.
  destruct (op_split b) as [[op b1]| |]; [|reflexivity|reflexivity].
  assert (Hs : step_instr rs' sep (pre_lang lang (v_st v)) op b1 (pre_vm v)
             = step_instr rs sep (pre_lang lang (v_st v)) op b1 (pre_vm v)).
  { unfold step_instr. destruct (parse_args op b1) as [[i b2]| |]; [|reflexivity|reflexivity].
    apply exec_instr_strip. exact Hrel. }
  rewrite Hs.
  assert (Ha : forall r, after_check (run fuel rs' sep (pre_lang lang (v_st v))) r
                       = after_check (run fuel rs sep (pre_lang lang (v_st v))) r).
  { intros [[v2 b3] s2]. unfold after_check. destruct s2; try reflexivity.
    destruct b3; [|apply IH]. destruct (dead_check v2) as [[v3 b4] s3]. destruct s3; try reflexivity.
    destruct b4; [reflexivity|apply IH]. }
  rewrite Ha. reflexivity.
Qed.

Lemma vm_render_strip : forall rs rs', strip_rel rs rs' ->
  forall fuel sep lang v, vm_render fuel rs' sep lang v = vm_render fuel rs sep lang v.
Proof.
  intros rs rs' Hrel fuel sep lang v. pose proof Hrel as (Hc & Ht & Hm & Hn & Ho & Hf).
  unfold vm_render. rewrite Ht, Hm.
  destruct (negb (getf (v_st v) FLAG_DIRTY)); [reflexivity|]. cbv zeta.
  destruct (where_sym _) as [|x l]; [reflexivity|].
  destruct (page_render _ _ _ _ _ _) as [r pg']. destruct r as [o|e|n]; try reflexivity.
  destruct e; try reflexivity. rewrite (run_strip rs rs' Hrel). reflexivity.
Qed.

(* ---- the same at engine level ------------------------------------------------------------------ *)
Definition strip_app (a : app) : app :=
  mkApp (a_code a) (a_tpl a) (a_menu a) (map (fun p => (fst p, map strip_fres (snd p))) (a_funcs a)).
Definition strip_cfg (c : config) : config :=
  mkCfg (c_out c) (c_root c) (c_flagcount c) (c_cachesize c) (c_lang c) (c_sep c) (c_reset_empty c)
        (option_map (map strip_fres) (c_first c)).

Lemma alookup_map_snd : forall {V W} (g : V -> W) k (l : list (bytes * V)),
  alookup k (map (fun p => (fst p, g (snd p))) l) = option_map g (alookup k l).
Proof.
  intros V W g k l. induction l as [|[k' v] l IH]; [reflexivity|]. cbn [map alookup fst snd].
  destruct (bytes_eqb k k'); [reflexivity|exact IH].
Qed.

Lemma strip_rel_app : forall a, strip_rel (app_rsrc a) (app_rsrc (strip_app a)).
Proof.
  intros a. unfold strip_rel, app_rsrc, strip_app. cbn [rs_code rs_tpl rs_menu rs_nofunc rs_observed rs_func a_code a_tpl a_menu a_funcs].
  repeat split. intros s. apply alookup_map_snd.
Qed.
Lemma strip_rel_first : forall script, strip_rel (first_rsrc script) (first_rsrc (map strip_fres script)).
Proof.
  intros script. unfold strip_rel, first_rsrc. cbn [rs_code rs_tpl rs_menu rs_nofunc rs_observed rs_func].
  repeat split. intros s. destruct (bytes_eqb s first_sym); reflexivity.
Qed.

Lemma eng_flush_strip : forall rs rs' fuel c e, strip_rel rs rs' ->
  eng_flush fuel rs' (strip_cfg c) e = eng_flush fuel rs c e.
Proof.
  intros rs rs' fuel c e Hrel. unfold eng_flush. cbn [strip_cfg c_out c_sep].
  rewrite (vm_render_strip rs rs' Hrel). reflexivity.
Qed.

Lemma run_first_strip : forall fuel c lang e, run_first fuel (strip_cfg c) lang e = run_first fuel c lang e.
Proof.
  intros fuel c lang e. unfold run_first. cbn [strip_cfg c_first].
  destruct (c_first c) as [script|]; cbn [option_map]; [|reflexivity].
  destruct (st_down _ first_sym); try reflexivity.
  rewrite (run_strip _ _ (strip_rel_first script)). reflexivity.
Qed.

Lemma eng_init_strip : forall rs rs' fuel c e input, strip_rel rs rs' ->
  eng_init fuel rs' (strip_cfg c) e input = eng_init fuel rs c e input.
Proof.
  intros rs rs' fuel c e input Hrel. unfold eng_init.
  rewrite (eng_flush_strip rs rs') by exact Hrel.
  destruct (if e_execd e then _ else _) as [e1 s1]. destruct s1; try reflexivity.
  destruct (e_initd _); [reflexivity|].
  destruct (set_input _ _); try reflexivity.
  rewrite run_first_strip. reflexivity.
Qed.

Lemma eng_exec_inner_strip : forall rs rs' fuel c e, strip_rel rs rs' ->
  eng_exec_inner fuel rs' (strip_cfg c) e = eng_exec_inner fuel rs c e.
Proof.
  intros rs rs' fuel c e Hrel. unfold eng_exec_inner. cbn [strip_cfg c_sep].
  destruct (s_code _); [reflexivity|]. rewrite (run_strip rs rs' Hrel). reflexivity.
Qed.

Lemma eng_exec_strip : forall rs rs' fuel c e input, strip_rel rs rs' ->
  eng_exec fuel rs' (strip_cfg c) e input = eng_exec fuel rs c e input.
Proof.
  intros rs rs' fuel c e input Hrel. unfold eng_exec. rewrite (eng_init_strip rs rs') by exact Hrel.
  destruct (eng_init fuel rs c e input) as [[e1 cont] s]. destruct s; try reflexivity.
  destruct (negb cont); [reflexivity|].
  change (c_reset_empty (strip_cfg c)) with (c_reset_empty c).
  change (eng_reset_force (strip_cfg c) e1) with (eng_reset_force c e1).
  destruct (if c_reset_empty c && (len input =? 0) then _ else _) as [e2 s2]. destruct s2; try reflexivity.
  destruct ((0 <? len input) && negb (valid_input_b input)); [reflexivity|].
  destruct (set_input _ _); try reflexivity. apply eng_exec_inner_strip. exact Hrel.
Qed.

(* a whole request: every reserved index an entry function (of the application or the engine's
   first-function) asks for is ignored on every path by which a result reaches the session *)
Lemma request_persisted_strip : forall rs rs' fuel c p input, strip_rel rs rs' ->
  request_persisted fuel rs' (strip_cfg c) p input = request_persisted fuel rs c p input.
Proof.
  intros rs rs' fuel c p input Hrel. unfold request_persisted.
  change (new_engine (strip_cfg c) (pw_store p) (pw_w p) (pw_log p)) with (new_engine c (pw_store p) (pw_w p) (pw_log p)).
  rewrite (eng_exec_strip rs rs') by exact Hrel.
  destruct (eng_exec fuel rs c _ input) as [[e1 cont] s].
  destruct s; try reflexivity; rewrite (eng_flush_strip rs rs') by exact Hrel; reflexivity.
Qed.
Lemma request_long_strip : forall rs rs' fuel c e input, strip_rel rs rs' ->
  request_long fuel rs' (strip_cfg c) e input = request_long fuel rs c e input.
Proof.
  intros rs rs' fuel c e input Hrel. unfold request_long.
  rewrite (eng_exec_strip rs rs') by exact Hrel.
  destruct (eng_exec fuel rs c e input) as [[e1 cont] s].
  destruct s; try reflexivity; rewrite (eng_flush_strip rs rs') by exact Hrel; reflexivity.
Qed.

(* ---- LOAD / RELOAD / the engine's first-function: reserved flags ------------------------------- *)
Lemma run_load_reserved : forall rs lang sym sz b v v' b' s,
  run_load rs lang sym sz b v = (v', b', s) ->
  forall i, i <= nonwriteable_flag_threshold ->
    getf (v_st v') i = getf (v_st v) i \/ (i = FLAG_LOADFAIL /\ exists m, s = SErr EExternal m).
Proof.
  intros rs lang sym sz b v v' b' s H i Hi. unfold run_load in H.
  destruct (cache_get (v_ca v) sym); try (injection H as <- _ _; left; reflexivity).
  destruct (refresh rs lang sym v) as [[v1 content] s1] eqn:Hr.
  destruct (refresh_reserved _ _ _ _ _ _ _ Hr i Hi) as [E|[-> [m ->]]].
  - left. destruct s1; try (injection H as <- _ _; exact E).
    destruct (cache_add (v_ca v1) sym content (w16 sz)) as [ca'|e0|]; try (injection H as <- _ _; exact E).
    destruct e0; injection H as <- _ _; exact E.
  - injection H as <- _ <-. right. eauto.
Qed.
Lemma run_reload_reserved : forall rs lang sym b v v' b' s,
  run_reload rs lang sym b v = (v', b', s) ->
  forall i, i <= nonwriteable_flag_threshold ->
    getf (v_st v') i = getf (v_st v) i \/ (i = FLAG_LOADFAIL /\ exists m, s = SErr EExternal m).
Proof.
  intros rs lang sym b v v' b' s H i Hi. unfold run_reload in H.
  destruct (refresh rs lang sym v) as [[v1 content] s1] eqn:Hr.
  destruct (refresh_reserved _ _ _ _ _ _ _ Hr i Hi) as [E|[-> [m ->]]].
  - left. destruct s1; try (injection H as <- _ _; exact E).
    destruct (cache_update_raw (v_ca v1) sym content) as [ca' oe].
    destruct (page_map _ _ sym); injection H as <- _ _; exact E.
  - injection H as <- _ <-. right. eauto.
Qed.

Lemma run_first_rsv : forall fuel c lang e e' r s,
  run_first fuel c lang e = (e', r, s) ->
  rsv_step true (first_rsrc (match c_first c with Some sc => sc | None => [] end)) (v_st (e_v e)) (v_st (e_v e')).
Proof.
  intros fuel c lang e e' r s H. unfold run_first in H.
  destruct (c_first c) as [script|]; [|injection H as <- _ _; apply rsv_refl].
  destruct (st_down (v_st (e_v e)) first_sym) as [st1| |] eqn:Hd; try (injection H as <- _ _; apply rsv_refl).
  destruct (run fuel (first_rsrc script) [] lang first_code _) as [[v2 b] s2] eqn:Hrun.
  apply run_rsv in Hrun. cbn [v_st] in Hrun.
  destruct (match s2 with SOk => _ | _ => _ end) as [[r0 s0] take].
  destruct (if take then cache_last (v_ca v2) else (e_exit e, v_ca v2)) as [ex ca2].
  injection H as <- _ _. cbn [e_v v_st].
  eapply rsv_trans; [apply rsv_sbp; eapply st_down_sbp; exact Hd|].
  eapply rsv_trans; [exact Hrun|].
  eapply rsv_trans; [apply rsv_resetf; auto 6|].
  eapply rsv_trans; [apply (rsv_resetf true _ _ FLAG_TERMINATE); do 4 right; reflexivity|].
  destruct (st_up _) as [[sy st']| |] eqn:Hu; [|apply rsv_refl|apply rsv_refl].
  apply rsv_sbp. eapply st_up_sbp. exact Hu.
Qed.

(* ======================================================================================== *)
(* 8. persisted operation without an entry function: what Exec runs                           *)
(* ======================================================================================== *)
(* the input passes the engine's checks (not refused_b of EngineMon) *)
Definition accepted_b (i : bytes) : bool := (len i <=? INPUT_LIMIT) && ((len i =? 0) || valid_input_b i).
(* ResetOnEmptyInput applies *)
Definition reset_req (c : config) (i : bytes) : bool := c_reset_empty c && (len i =? 0).
(* no pending code but a position, and not terminated: init unwinds first (repair of K-C08-restart) *)
Definition stale (st : state) : bool :=
  match s_code st, s_path st with [], _ :: _ => negb (getf st FLAG_TERMINATE) | _, _ => false end.

Definition prep_code (c : config) (st : state) : bytes :=
  match s_code st with [] => encode (IMove (cfg_root c)) | x => x end.
Definition prep_state (c : config) (st : state) (input : bytes) : state :=
  set_input_raw (set_code st (prep_code c st)) (Some input).
Definition prep_engine (c : config) (st : state) (ca : cache) (w : list (bytes * N)) (lg : list ev) (input : bytes) : engine :=
  mkEng (mkVm (prep_state c st input) ca (new_vm_page (c_out c) (c_sep c)) w lg false) true [] false false.

Lemma set_input_accepted : forall st input, accepted_b input = true ->
  set_input st (Some input) = Ok (set_input_raw st (Some input)).
Proof.
  intros st input H. unfold accepted_b in H. apply andb_prop in H as [H _]. unfold set_input.
  assert (E : INPUT_LIMIT <? len input = false) by lia. rewrite E. reflexivity.
Qed.
Lemma accepted_valid : forall input, accepted_b input = true -> (0 <? len input) && negb (valid_input_b input) = false.
Proof.
  intros input H. unfold accepted_b in H. apply andb_prop in H as [_ H]. apply orb_prop in H as [H|H].
  - assert (E : 0 <? len input = false) by lia. rewrite E. reflexivity.
  - rewrite H. apply andb_false_r.
Qed.

Lemma encode_move_cons : forall t, exists a b r, encode (IMove t) = a :: b :: r.
Proof. intros t. apply encode_shape. Qed.

Lemma eng_exec_prepared : forall fuel rs c st ca w lg input,
  c_first c = None -> accepted_b input = true ->
  (reset_req c input = false \/ s_path st = []) -> stale st = false ->
  eng_exec fuel rs c (new_engine c (Some (st, ca)) w lg) input
  = eng_exec_inner fuel rs c (prep_engine c st ca w lg input).
Proof.
  intros fuel rs c st ca w lg input Hf Ha Hreset Hstale.
  unfold eng_exec, eng_init, new_engine. cbn [e_execd e_initd e_v v_st].
  rewrite set_input_accepted by exact Ha. cbn [eset_v vset_st e_v v_st].
  unfold run_first. rewrite Hf. cbn [negb e_v v_st s_code s_path set_input_raw].
  assert (Hinit :
    (let '(e4', s4) :=
       match s_code st, s_path st with
       | [], _ :: _ =>
         if getf (set_input_raw st (Some input)) FLAG_TERMINATE
         then (mkEng (mkVm (set_input_raw st (Some input)) ca (new_vm_page (c_out c) (c_sep c)) w lg false) false [] false false, SOk)
         else let '(v', s') := eng_reset_inner (e_v (mkEng (mkVm (set_input_raw st (Some input)) ca (new_vm_page (c_out c) (c_sep c)) w lg false) false [] false false)) in
              (eset_v (mkEng (mkVm (set_input_raw st (Some input)) ca (new_vm_page (c_out c) (c_sep c)) w lg false) false [] false false) v', s')
       | _, _ => (mkEng (mkVm (set_input_raw st (Some input)) ca (new_vm_page (c_out c) (c_sep c)) w lg false) false [] false false, SOk)
       end in (e4', s4))
    = (mkEng (mkVm (set_input_raw st (Some input)) ca (new_vm_page (c_out c) (c_sep c)) w lg false) false [] false false, SOk)).
  { unfold stale in Hstale. destruct (s_code st); [|reflexivity]. destruct (s_path st); [reflexivity|].
    change (getf (set_input_raw st (Some input)) FLAG_TERMINATE) with (getf st FLAG_TERMINATE).
    destruct (getf st FLAG_TERMINATE); [reflexivity|discriminate]. }
  cbv zeta in Hinit.
  match goal with |- context [match ?X with (e4', s4) => @?F e4' s4 end] =>
    match X with context [eng_reset_inner] => replace X with
      (mkEng (mkVm (set_input_raw st (Some input)) ca (new_vm_page (c_out c) (c_sep c)) w lg false) false [] false false, SOk)
    end end.
  2:{ symmetry. etransitivity; [|exact Hinit].
      destruct (s_code st); [|reflexivity]. destruct (s_path st); [reflexivity|].
      destruct (getf _ FLAG_TERMINATE); [reflexivity|]. destruct (eng_reset_inner _); reflexivity. }
  cbn [e_v v_st s_code set_input_raw].
  assert (Hcode : forall code, code <> [] ->
     set_code_eng (mkEng (mkVm (set_input_raw st (Some input)) ca (new_vm_page (c_out c) (c_sep c)) w lg false) false [] false false) code
     = (mkEng (mkVm (set_code (set_input_raw st (Some input)) code) ca (new_vm_page (c_out c) (c_sep c)) w lg false) false [] false false, true)).
  { intros code Hne. unfold set_code_eng. destruct code; [congruence|reflexivity]. }
  assert (Hne : encode (IMove (cfg_root c)) <> []).
  { destruct (encode_move_cons (cfg_root c)) as (a & b & r & E). rewrite E. discriminate. }
  assert (Hreset' : (if c_reset_empty c && (len input =? 0)
                     then eng_reset_force c (prep_engine c st ca w lg input)
                     else (prep_engine c st ca w lg input, SOk)) = (prep_engine c st ca w lg input, SOk)).
  { destruct Hreset as [Hr|Hp].
    - unfold reset_req in Hr. rewrite Hr. reflexivity.
    - destruct (c_reset_empty c && (len input =? 0)); [|reflexivity].
      unfold eng_reset_force, prep_engine, prep_state. cbn [e_v v_st s_path set_input_raw set_code]. rewrite Hp. reflexivity. }
  destruct (s_code st) as [|x code] eqn:Hc.
  - rewrite (Hcode _ Hne). cbn [e_v v_st vset_st e_exit e_exiting e_execd negb].
    replace (mkEng _ true [] false false) with (prep_engine c st ca w lg input).
    2:{ unfold prep_engine, prep_state, prep_code. rewrite Hc. destruct st; reflexivity. }
    rewrite Hreset'. rewrite accepted_valid by exact Ha.
    rewrite set_input_accepted by exact Ha.
    replace (eset_v _ _) with (prep_engine c st ca w lg input); [reflexivity|].
    unfold prep_engine, prep_state, prep_code. rewrite Hc. reflexivity.
  - cbn [e_v v_st vset_st e_exit e_exiting e_execd negb].
    replace (mkEng _ true [] false false) with (prep_engine c st ca w lg input).
    2:{ unfold prep_engine, prep_state, prep_code. rewrite Hc. destruct st; cbn in *; subst; reflexivity. }
    rewrite Hreset'. rewrite accepted_valid by exact Ha.
    rewrite set_input_accepted by exact Ha.
    replace (eset_v _ _) with (prep_engine c st ca w lg input); [reflexivity|].
    unfold prep_engine, prep_state, prep_code. rewrite Hc. reflexivity.
Qed.
