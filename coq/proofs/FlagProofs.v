(* FlagProofs.v — lemmas for C06 (signal flags steer control flow, reserved flags are
   tamper-proof, TERMINATE blocks) and C20 (graceful end restarts cleanly, abnormal end stays
   blocked) over the VM and engine models.  Builds on VmProofs, CodecProofs, CacheProofs, NavProofs. *)
From Coq Require Import Lia ZifyN ZifyNat ZifyBool.
From Vise Require Import Bytes Errors Consts EngConsts Codec CacheModel StateModel NavModel NavSpec RenderModel
  VmModel EngineModel BytesProofs CodecProofs CacheProofs NavProofs VmProofs.
Local Open Scope N_scope.

(* ======================================================================================== *)
(* 1. flags                                                                                  *)
(* ======================================================================================== *)

Lemma flag_in_range_set_flags : forall s f i,
  List.length f = List.length (s_flags s) -> flag_in_range (set_flags s f) i = flag_in_range s i.
Proof. intros s f i H. unfold flag_in_range, len. cbn [s_bitsize s_flags set_flags]. rewrite H. reflexivity. Qed.

Lemma flag_in_range_setf : forall s j i, flag_in_range (setf s j) i = flag_in_range s i.
Proof. intros. unfold setf. apply flag_in_range_set_flags. apply length_set_nth_bit. Qed.
Lemma flag_in_range_resetf : forall s j i, flag_in_range (resetf s j) i = flag_in_range s i.
Proof. intros. unfold resetf. apply flag_in_range_set_flags. apply length_set_nth_bit. Qed.

Lemma flag_in_range_lt : forall s i, flag_in_range s i = true -> (N.to_nat i < List.length (s_flags s))%nat.
Proof. unfold flag_in_range, len. intros s i H. apply andb_prop in H as [_ H]. lia. Qed.

Lemma getf_setf_same : forall s i, flag_in_range s i = true -> getf (setf s i) i = true.
Proof. intros s i H. unfold getf, setf. cbn [s_flags set_flags]. apply nth_set_nth_bit_same. apply flag_in_range_lt. exact H. Qed.
Lemma getf_resetf_same : forall s i, getf (resetf s i) i = false.
Proof.
  intros s i. unfold getf, resetf. cbn [s_flags set_flags].
  generalize (N.to_nat i) as n. generalize (s_flags s) as l.
  induction l as [|x l IH]; intros [|n]; cbn [set_nth_bit nth]; auto.
Qed.

Lemma set_flag_ok : forall s i, flag_in_range s i = true -> set_flag s i = Ok (setf s i, negb (getf s i)).
Proof. intros s i H. unfold set_flag. rewrite H. reflexivity. Qed.
Lemma reset_flag_ok : forall s i, flag_in_range s i = true -> reset_flag s i = Ok (resetf s i, getf s i).
Proof. intros s i H. unfold reset_flag. rewrite H. reflexivity. Qed.
Lemma set_flag_panics : forall s i, flag_in_range s i = false -> set_flag s i = Panic 21.
Proof. intros s i H. unfold set_flag. rewrite H. reflexivity. Qed.
Lemma reset_flag_panics : forall s i, flag_in_range s i = false -> reset_flag s i = Panic 22.
Proof. intros s i H. unfold reset_flag. rewrite H. reflexivity. Qed.

Lemma match_flag_in_range : forall s i mode,
  flag_in_range s i = true -> match_flag s i mode = Ok (Bool.eqb mode (getf s i)).
Proof. intros s i mode H. unfold match_flag, get_flag. rewrite H. reflexivity. Qed.
Lemma match_flag_out_of_range : forall s i mode, flag_in_range s i = false -> match_flag s i mode = Panic 20.
Proof. intros s i mode H. unfold match_flag, get_flag. rewrite H. reflexivity. Qed.

(* clearing a clear bit / setting a set bit changes nothing *)
Lemma set_nth_bit_id : forall l n v, nth n l false = v -> (n < List.length l)%nat -> set_nth_bit n v l = l.
Proof.
  induction l as [|x l IH]; intros [|n] v H Hl; cbn [set_nth_bit nth List.length] in *; try lia; try congruence.
  f_equal. apply IH; [exact H|lia].
Qed.
Lemma set_nth_bit_false_id : forall l n, nth n l false = false -> set_nth_bit n false l = l.
Proof.
  induction l as [|x l IH]; intros [|n] H; cbn [set_nth_bit nth] in *; try congruence.
  f_equal. apply IH. exact H.
Qed.
Lemma state_flags_eta : forall s, set_flags s (s_flags s) = s.
Proof. destruct s; reflexivity. Qed.
Lemma resetf_id : forall s i, getf s i = false -> resetf s i = s.
Proof. intros s i H. unfold resetf. rewrite set_nth_bit_false_id by exact H. apply state_flags_eta. Qed.

(* ---- apply_flags: exact effect ------------------------------------------------------------- *)
Definition memN (i : N) (l : list N) : bool := existsb (N.eqb i) l.

Lemma apply_flags_filter : forall fl set st,
  apply_flags set fl st = apply_flags set (filter is_writeable_flag fl) st.
Proof.
  induction fl as [|f fl IH]; intros set st; [reflexivity|]. cbn [apply_flags filter].
  destruct (is_writeable_flag f) eqn:Hw.
  - cbn [apply_flags]. rewrite Hw.
    destruct (if set then set_flag st f else reset_flag st f) as [[st1 c]| |]; cbn [obind]; auto.
  - apply IH.
Qed.

(* every writeable index in range: all of them are applied, in order *)
Lemma apply_flags_applied : forall fl set st,
  (forall f, In f fl -> is_writeable_flag f = true -> flag_in_range st f = true) ->
  exists st', apply_flags set fl st = Ok st'
    /\ (forall j, flag_in_range st' j = flag_in_range st j)
    /\ (forall i, flag_in_range st i = true ->
          getf st' i = if memN i fl && is_writeable_flag i then set else getf st i).
Proof.
  induction fl as [|f fl IH]; intros set st Hr.
  - exists st. split; [reflexivity|]. split; reflexivity.
  - cbn [apply_flags]. destruct (is_writeable_flag f) eqn:Hw.
    + assert (Hf : flag_in_range st f = true) by (apply Hr; [left; reflexivity|exact Hw]).
      set (st1 := if set then setf st f else resetf st f).
      assert (Hrange1 : forall j, flag_in_range st1 j = flag_in_range st j).
      { intros j. unfold st1. destruct set; [apply flag_in_range_setf|apply flag_in_range_resetf]. }
      assert (Hstep : (if set then set_flag st f else reset_flag st f) = Ok (st1, if set then negb (getf st f) else getf st f)).
      { unfold st1. destruct set; [apply set_flag_ok|apply reset_flag_ok]; exact Hf. }
      rewrite Hstep. cbn [obind].
      destruct (IH set st1) as (st' & Ha & Hrg & Hg).
      { intros g Hg Hwg. rewrite Hrange1. apply Hr; [right; exact Hg|exact Hwg]. }
      exists st'. split; [exact Ha|]. split.
      * intros j. rewrite Hrg. apply Hrange1.
      * intros i Hi. rewrite Hg by (rewrite Hrange1; exact Hi).
        unfold memN. cbn [existsb]. fold (memN i fl).
        destruct (N.eqb_spec i f) as [->|Hne].
        -- rewrite Hw. cbn [orb andb]. destruct (memN f fl); cbn [andb].
           ++ reflexivity.
           ++ unfold st1. destruct set; [apply getf_setf_same; exact Hf|apply getf_resetf_same].
        -- cbn [orb]. destruct (memN i fl && is_writeable_flag i); [reflexivity|].
           unfold st1. destruct set; [apply getf_setf_other|apply getf_resetf_other]; exact Hne.
    + destruct (IH set st) as (st' & Ha & Hrg & Hg).
      { intros g Hg Hwg. apply Hr; [right; exact Hg|exact Hwg]. }
      exists st'. split; [exact Ha|]. split; [exact Hrg|].
      intros i Hi. rewrite Hg by exact Hi. unfold memN. cbn [existsb]. fold (memN i fl).
      destruct (N.eqb_spec i f) as [->|Hne]; [rewrite Hw, !andb_false_r; reflexivity|reflexivity].
Qed.

(* a writeable index outside the configured flag count panics (State.SetFlag / ResetFlag) *)
Lemma apply_flags_out_of_range : forall fl set st,
  (exists f, In f fl /\ is_writeable_flag f = true /\ flag_in_range st f = false) ->
  apply_flags set fl st = Panic (if set then 21 else 22).
Proof.
  induction fl as [|f fl IH]; intros set st [g [Hin [Hw Hr]]]; [destruct Hin|].
  cbn [apply_flags]. destruct (is_writeable_flag f) eqn:Hwf.
  - destruct (flag_in_range st f) eqn:Hf.
    + assert (Hg : g <> f) by congruence.
      destruct Hin as [->|Hin]; [congruence|].
      destruct set.
      * rewrite set_flag_ok by exact Hf. cbn [obind]. apply IH. exists g.
        split; [exact Hin|]. split; [exact Hw|]. rewrite flag_in_range_setf. exact Hr.
      * rewrite reset_flag_ok by exact Hf. cbn [obind]. apply IH. exists g.
        split; [exact Hin|]. split; [exact Hw|]. rewrite flag_in_range_resetf. exact Hr.
    + destruct set; [rewrite set_flag_panics by exact Hf|rewrite reset_flag_panics by exact Hf]; reflexivity.
  - destruct Hin as [->|Hin]; [congruence|]. apply IH. exists g. auto.
Qed.

(* ======================================================================================== *)
(* 2. refresh: what an external function can and cannot do to the flags                       *)
(* ======================================================================================== *)

(* the answer the next call of `key` will get *)
Definition next_fres (rs : rsrc) (key : bytes) (v : vmst) : option fres :=
  match rs_func rs key with
  | None => None
  | Some script => nth_fres script (match alookup key (v_w v) with Some n => n | None => 0 end)
  end.

(* a successful function whose writeable requests are within the configured flag count:
   every flag >= 6 it asks for is applied (resets first, then sets) *)
Lemma refresh_applies : forall rs lang key v fr,
  next_fres rs key v = Some fr -> fr_fail fr = false ->
  (forall f, In f (fr_reset fr ++ fr_set fr) -> is_writeable_flag f = true -> flag_in_range (v_st v) f = true) ->
  exists v' content,
    refresh rs lang key v = (v', content, SOk)
    /\ (forall i, i <= nonwriteable_flag_threshold -> getf (v_st v') i = getf (v_st v) i)
    /\ (forall i, is_writeable_flag i = true -> flag_in_range (v_st v) i = true ->
          getf (v_st v') i = if memN i (fr_set fr) then true
                             else if memN i (fr_reset fr) then false else getf (v_st v) i).
Proof.
  intros rs lang key v fr Hn Hfail Hr. unfold next_fres in Hn. unfold refresh.
  destruct (rs_func rs key) as [script|]; [|discriminate]. rewrite Hn, Hfail.
  cbn [v_st vlog vset_w].
  destruct (apply_flags_applied (fr_reset fr) false (v_st v)) as (st1 & H1 & Hrg1 & Hg1).
  { intros f Hf. apply Hr. apply in_or_app. left. exact Hf. }
  rewrite H1.
  destruct (apply_flags_applied (fr_set fr) true st1) as (st2 & H2 & Hrg2 & Hg2).
  { intros f Hf Hw. rewrite Hrg1. apply Hr; [apply in_or_app; right; exact Hf|exact Hw]. }
  rewrite H2. do 2 eexists. split; [reflexivity|]. cbn [v_st vset_st].
  destruct (apply_flags_reserved _ _ _ _ H1) as [R1 _].
  destruct (apply_flags_reserved _ _ _ _ H2) as [R2 _].
  assert (Hl : forall i, getf (if getf st2 FLAG_LANG then st_set_language lang_lookup st2
                 (fr_content fr ++ (if fr_echo fr then match s_input (v_st v) with Some i0 => i0 | None => [] end else [])) else st2) i
               = getf st2 i).
  { intros i. destruct (getf st2 FLAG_LANG); [apply getf_set_language|reflexivity]. }
  split.
  - intros i Hi. rewrite Hl, R2, R1 by exact Hi. reflexivity.
  - intros i Hw Hi. rewrite Hl, Hg2 by (rewrite Hrg1; exact Hi). rewrite Hw, andb_true_r.
    destruct (memN i (fr_set fr)); [reflexivity|]. rewrite Hg1 by exact Hi. rewrite Hw, andb_true_r. reflexivity.
Qed.

(* a writeable request outside the configured flag count panics *)
Lemma refresh_out_of_range_reset : forall rs lang key v fr,
  next_fres rs key v = Some fr -> fr_fail fr = false ->
  (exists f, In f (fr_reset fr) /\ is_writeable_flag f = true /\ flag_in_range (v_st v) f = false) ->
  exists v', refresh rs lang key v = (v', [], SPanic 22).
Proof.
  intros rs lang key v fr Hn Hfail Hex. unfold next_fres in Hn. unfold refresh.
  destruct (rs_func rs key) as [script|]; [|discriminate]. rewrite Hn, Hfail.
  cbn [v_st vlog vset_w]. rewrite (apply_flags_out_of_range _ false _ Hex). eauto.
Qed.

(* requests for the reserved flags are ignored: the function could as well not have made them *)
Definition strip_fres (fr : fres) : fres :=
  mkFres (fr_content fr) (fr_echo fr) (fr_status fr)
         (filter is_writeable_flag (fr_set fr)) (filter is_writeable_flag (fr_reset fr)) (fr_fail fr).

(* rs' answers like rs with every reserved index removed from the flag lists *)
Definition strip_rel (rs rs' : rsrc) : Prop :=
  rs_code rs' = rs_code rs /\ rs_tpl rs' = rs_tpl rs /\ rs_menu rs' = rs_menu rs /\ rs_nofunc rs' = rs_nofunc rs
  /\ rs_observed rs' = rs_observed rs
  /\ (forall s, rs_func rs' s = option_map (map strip_fres) (rs_func rs s)).

Lemma nth_fres_map : forall script n, nth_fres (map strip_fres script) n = option_map strip_fres (nth_fres script n).
Proof.
  intros script n. unfold nth_fres. destruct script as [|fr script]; [reflexivity|].
  assert (Hl : len (map strip_fres (fr :: script)) = len (fr :: script)) by (unfold len; rewrite map_length; reflexivity).
  change (strip_fres fr :: map strip_fres script) with (map strip_fres (fr :: script)).
  cbn [map]. change (strip_fres fr :: map strip_fres script) with (map strip_fres (fr :: script)).
  rewrite Hl. apply nth_error_map.
Qed.

Lemma refresh_strip : forall rs rs' lang key v, strip_rel rs rs' -> refresh rs' lang key v = refresh rs lang key v.
Proof.
  intros rs rs' lang key v (Hc & Ht & Hm & Hn & Ho & Hf). unfold refresh. rewrite Hf, Hn.
  destruct (rs_func rs key) as [script|]; cbn [option_map]; [|reflexivity].
  rewrite nth_fres_map. destruct (nth_fres script _) as [fr|]; cbn [option_map]; [|reflexivity].
  unfold strip_fres at 1. cbn [fr_fail]. destruct (fr_fail fr); [reflexivity|].
  cbn [fr_content fr_echo fr_reset fr_set strip_fres].
  rewrite <- !apply_flags_filter.
  destruct (apply_flags false (fr_reset fr) _) as [st1| |]; [|reflexivity|reflexivity].
  rewrite <- apply_flags_filter. reflexivity.
Qed.

(* ======================================================================================== *)
(* 3. CATCH / CROAK at handler level                                                          *)
(* ======================================================================================== *)

Lemma cons_neq_self : forall {A} (x : A) l, x :: l <> l.
Proof. intros A x l H. apply (f_equal (@List.length A)) in H. cbn in H. lia. Qed.
Lemma cons2_neq_self : forall {A} (x y : A) l, x :: y :: l <> l.
Proof. intros A x y l H. apply (f_equal (@List.length A)) in H. cbn in H. lia. Qed.

(* the machine after a CATCH that fired and whose target resolved to node nsym *)
Definition caught (rs : rsrc) (sym nsym : bytes) (st' : state) (ca' : cache) (v : vmst) : vmst :=
  let v1 := vlog (vset_ca (vset_st v st') ca') (EvMove 2 sym nsym) in
  if rs_observed rs then vlog v1 (EvCode nsym) else v1.

Lemma catch_iff_match : forall rs sym sig mode b v,
  flag_in_range (v_st v) sig = true ->
  (* no match: nothing happens *)
  (getf (v_st v) sig <> mode -> run_catch rs sym sig mode b v = (v, b, SOk))
  (* match: the move is applied and the target's code REPLACES the pending code *)
  /\ (getf (v_st v) sig = mode ->
      let '(st', ca', nsym, s) := apply_target sym (v_st v) (v_ca v) in
      match s with
      | SOk => match rs_code rs nsym with
               | Ok code => run_catch rs sym sig mode b v = (caught rs sym nsym st' ca' v, code, SOk)
               | Err e => run_catch rs sym sig mode b v = (caught rs sym nsym st' ca' v, b, SErr e None)
               | Panic n => run_catch rs sym sig mode b v = (caught rs sym nsym st' ca' v, b, SPanic n)
               end
      | _ => run_catch rs sym sig mode b v = (vset_ca (vset_st v st') ca', b, s)
      end)
  (* hence: the instruction is a no-op exactly when the flag does not match *)
  /\ (run_catch rs sym sig mode b v = (v, b, SOk) <-> getf (v_st v) sig <> mode).
Proof.
  intros rs sym sig mode b v Hr.
  assert (Hno : getf (v_st v) sig <> mode -> run_catch rs sym sig mode b v = (v, b, SOk)).
  { intros Hne. apply run_catch_no_match. rewrite match_flag_in_range by exact Hr.
    f_equal. destruct mode, (getf (v_st v) sig); try reflexivity; congruence. }
  assert (Hyes : getf (v_st v) sig = mode ->
      let '(st', ca', nsym, s) := apply_target sym (v_st v) (v_ca v) in
      match s with
      | SOk => match rs_code rs nsym with
               | Ok code => run_catch rs sym sig mode b v = (caught rs sym nsym st' ca' v, code, SOk)
               | Err e => run_catch rs sym sig mode b v = (caught rs sym nsym st' ca' v, b, SErr e None)
               | Panic n => run_catch rs sym sig mode b v = (caught rs sym nsym st' ca' v, b, SPanic n)
               end
      | _ => run_catch rs sym sig mode b v = (vset_ca (vset_st v st') ca', b, s)
      end).
  { intros He. unfold run_catch. rewrite match_flag_in_range by exact Hr. rewrite He, Bool.eqb_reflx.
    destruct (apply_target sym (v_st v) (v_ca v)) as [[[st' ca'] nsym] s].
    destruct s; try reflexivity. unfold fetch_code, caught.
    destruct (rs_observed rs); destruct (rs_code rs nsym); reflexivity. }
  split; [exact Hno|]. split; [exact Hyes|]. split; [|exact Hno].
  intros Heq He. specialize (Hyes He).
  destruct (apply_target sym (v_st v) (v_ca v)) as [[[st' ca'] nsym] s].
  destruct s.
  - assert (Hlog : v_log (caught rs sym nsym st' ca' v) <> v_log v).
    { unfold caught. destruct (rs_observed rs); cbn [v_log vlog vset_ca vset_st];
        [apply cons2_neq_self|apply cons_neq_self]. }
    destruct (rs_code rs nsym); rewrite Hyes in Heq; try discriminate.
    apply Hlog. congruence.
  - rewrite Hyes in Heq. discriminate.
  - rewrite Hyes in Heq. discriminate.
  - rewrite Hyes in Heq. discriminate.
Qed.

(* the machine after a CROAK that fired: page and cache reset, position kept (K-C08-croak) *)
Definition croaked (sep : bytes) (v : vmst) : vmst :=
  vset_ca (vset_pg v (vm_reset sep (v_pg v))) (cache_reset (v_ca v)).

Lemma croak_iff_match : forall sep sig mode b v,
  flag_in_range (v_st v) sig = true ->
  (getf (v_st v) sig <> mode -> run_croak sep sig mode b v = (v, b, SOk))
  /\ (getf (v_st v) sig = mode -> run_croak sep sig mode b v = (croaked sep v, [], SOk)).
Proof.
  intros sep sig mode b v Hr. unfold run_croak. rewrite match_flag_in_range by exact Hr. split; intros H.
  - assert (E : Bool.eqb mode (getf (v_st v) sig) = false)
      by (destruct mode, (getf (v_st v) sig); try reflexivity; congruence).
    rewrite E. reflexivity.
  - rewrite H, Bool.eqb_reflx. reflexivity.
Qed.

(* outside the configured flag count both instructions panic (State.GetFlag) *)
Lemma catch_croak_out_of_range : forall rs sep sym sig mode b v,
  flag_in_range (v_st v) sig = false ->
  run_catch rs sym sig mode b v = (v, b, SPanic 20) /\ run_croak sep sig mode b v = (v, b, SPanic 20).
Proof.
  intros. unfold run_catch, run_croak. rewrite match_flag_out_of_range by assumption. split; reflexivity.
Qed.

(* ======================================================================================== *)
(* 4. the run loop, one iteration at a time                                                   *)
(* ======================================================================================== *)

Definition pre_lang (lang : option bytes) (st : state) : option bytes :=
  if getf st FLAG_LANG then match s_lang st with Some l => Some l | None => lang end else lang.
Definition pre_st (st : state) : state :=
  let st1 := resetf st FLAG_LANG in
  let st2 := resetf st1 FLAG_WAIT in
  setf (if getf st1 FLAG_WAIT then resetf st2 FLAG_INMATCH else st2) FLAG_DIRTY.
Definition pre_pg (v : vmst) : page :=
  if getf (resetf (v_st v) FLAG_LANG) FLAG_WAIT
  then upd_menu menu_reset (page_reset (page_with_error (v_pg v) None)) else v_pg v.
(* the machine after the loop's per-instruction preamble *)
Definition pre_vm (v : vmst) : vmst := vset_pg (vset_st v (pre_st (v_st v))) (pre_pg v).

Definition step_instr (rs : rsrc) (sep : bytes) (lang : option bytes) (op : N) (b1 : bytes) (v0 : vmst) : hres :=
  match parse_args op b1 with
  | Ok (i, b2) => exec_instr rs sep lang i b2 (vlog v0 (EvInstr op))
  | _ => (v0, b1, SErr EGen None)
  end.

(* runErrCheck *)
Definition err_check (r : hres) : hres :=
  let '(v1, b2, s) := r in
  match s with
  | SErr e msg =>
    let v2 := set_page_err v1 msg in
    if getf (v_st v2) FLAG_LOADFAIL && negb (bytes_eqb (where_sym (v_st v2)) catch_sym)
    then (v2, move_catch_code, SOk) else (v2, b2, s)
  | _ => (v1, b2, s)
  end.

(* runDeadCheck when the code is empty, then loop *)
Definition after_check (k : bytes -> vmst -> hres) (r : hres) : hres :=
  let '(v2, b3, s2) := r in
  match s2 with
  | SOk =>
    match b3 with
    | [] =>
      let '(v3, b4, s3) := dead_check v2 in
      match s3 with
      | SOk => match b4 with [] => (v3, [], SOk) | _ => k b4 v3 end
      | _ => (v3, b4, s3)
      end
    | _ => k b3 v2
    end
  | _ => (v2, b3, s2)
  end.

Lemma run_S : forall fuel rs sep lang b v,
  run (S fuel) rs sep lang b v =
  if getf (v_st v) FLAG_TERMINATE then (v, [], SOk) else
  let lang' := pre_lang lang (v_st v) in
  let v0 := pre_vm v in
  match op_split b with
  | Err e => (v0, b, SErr e None)
  | Panic n => (v0, b, SPanic n)
  | Ok (op, b1) =>
    match parse_args op b1 with
    | Panic n => (v0, b1, SPanic n)
    | _ =>
      let r := step_instr rs sep lang' op b1 v0 in
      if op =? op_HALT then r else after_check (run fuel rs sep lang') (err_check r)
    end
  end.
Proof.
  intros fuel rs sep lang b v. cbn [run].
  destruct (getf (v_st v) FLAG_TERMINATE); [reflexivity|].
  unfold pre_vm, pre_st, pre_pg, pre_lang, step_instr. cbv zeta.
  change (s_lang (resetf (v_st v) FLAG_LANG)) with (s_lang (v_st v)).
  destruct (op_split b) as [[op b1]| |]; try reflexivity.
  destruct (parse_args op b1) as [[i b2]| |]; try reflexivity;
    try (destruct (exec_instr _ _ _ _ _ _) as [[v1 b3] s]); destruct (op =? op_HALT); reflexivity.
Qed.

Lemma run_O : forall rs sep lang b v, run O rs sep lang b v = (v, b, SFuel).
Proof. reflexivity. Qed.

(* decoding an encoded instruction at the head of the code *)
Lemma split_encoded : forall i rest, wf_instr i ->
  exists op b1, op_split (encode i ++ rest) = Ok (op, b1) /\ parse_args op b1 = Ok (i, rest).
Proof.
  intros i rest Hwf. pose proof (instr_roundtrip_lemma i rest Hwf) as H. unfold decode_one in H.
  destruct (op_split (encode i ++ rest)) as [[op b1]| |]; cbn [obind] in H; try discriminate.
  exists op, b1. split; [reflexivity|exact H].
Qed.

(* the opcode of a decoded instruction *)
Definition opcode_of (i : instr) : N :=
  match i with
  | INoop => op_NOOP | ICatch _ _ _ => op_CATCH | ICroak _ _ => op_CROAK | ILoad _ _ => op_LOAD
  | IReload _ => op_RELOAD | IMap _ => op_MAP | IMove _ => op_MOVE | IHalt => op_HALT
  | IInCmp _ _ => op_INCMP | IMSink => op_MSINK | IMOut _ _ => op_MOUT | IMNext _ _ => op_MNEXT
  | IMPrev _ _ => op_MPREV
  end.

Lemma op_split_encode : forall i rest, exists b1, op_split (encode i ++ rest) = Ok (opcode_of i, b1).
Proof.
  intros i rest.
  assert (H : exists t, encode i = (opcode_of i / 256) mod 256 :: opcode_of i mod 256 :: t).
  { destruct i; unfold encode, new_line; cbn [List.app opcode_of]; eexists; reflexivity. }
  destruct H as [t Ht]. rewrite Ht. cbn [List.app]. eexists. apply op_split_bytes.
  destruct i; vm_compute; discriminate.
Qed.

Lemma split_encoded_op : forall i rest, wf_instr i ->
  exists b1, op_split (encode i ++ rest) = Ok (opcode_of i, b1) /\ parse_args (opcode_of i) b1 = Ok (i, rest).
Proof.
  intros i rest Hwf. destruct (split_encoded i rest Hwf) as (op & b1 & H1 & H2).
  destruct (op_split_encode i rest) as (b1' & H3). rewrite H3 in H1. injection H1 as <- <-.
  exists b1'. split; [exact H3|exact H2].
Qed.

(* one iteration on an encoded, well-formed instruction *)
Lemma run_S_encoded : forall fuel rs sep lang i rest v, wf_instr i ->
  getf (v_st v) FLAG_TERMINATE = false ->
  run (S fuel) rs sep lang (encode i ++ rest) v =
  let lang' := pre_lang lang (v_st v) in
  let r := exec_instr rs sep lang' i rest (vlog (pre_vm v) (EvInstr (opcode_of i))) in
  if opcode_of i =? op_HALT then r else after_check (run fuel rs sep lang') (err_check r).
Proof.
  intros fuel rs sep lang i rest v Hwf Ht. rewrite run_S, Ht.
  destruct (split_encoded_op i rest Hwf) as (b1 & H1 & H2). cbv zeta. rewrite H1.
  unfold step_instr. rewrite H2. reflexivity.
Qed.

(* ---- what the preamble does to the flags ---------------------------------------------------- *)
Lemma getf_pre_st_other : forall st i,
  i <> FLAG_LANG -> i <> FLAG_WAIT -> i <> FLAG_INMATCH -> i <> FLAG_DIRTY -> getf (pre_st st) i = getf st i.
Proof.
  intros st i H1 H2 H3 H4. unfold pre_st. cbv zeta. rewrite getf_setf_other by exact H4.
  destruct (getf (resetf st FLAG_LANG) FLAG_WAIT);
    repeat (rewrite getf_resetf_other by assumption); reflexivity.
Qed.
Lemma pre_st_sbf : forall st, same_but_flags st (pre_st st).
Proof.
  intros st. unfold pre_st, same_but_flags. cbv zeta.
  destruct (getf (resetf st FLAG_LANG) FLAG_WAIT); cbn; intuition.
Qed.
Lemma flag_in_range_pre_st : forall st i, flag_in_range (pre_st st) i = flag_in_range st i.
Proof.
  intros st i. unfold pre_st. cbv zeta. rewrite flag_in_range_setf.
  destruct (getf (resetf st FLAG_LANG) FLAG_WAIT); repeat rewrite flag_in_range_resetf; reflexivity.
Qed.
Lemma where_sym_sbf : forall a b, same_but_flags a b -> where_sym a = where_sym b.
Proof. intros a b (_ & H & _). unfold where_sym. rewrite H. reflexivity. Qed.

Lemma v_st_pre_vm : forall v, v_st (pre_vm v) = pre_st (v_st v). Proof. reflexivity. Qed.
Lemma v_ca_pre_vm : forall v, v_ca (pre_vm v) = v_ca v. Proof. reflexivity. Qed.
Lemma v_log_pre_vm : forall v, v_log (pre_vm v) = v_log v. Proof. reflexivity. Qed.
Lemma v_w_pre_vm : forall v, v_w (pre_vm v) = v_w v. Proof. reflexivity. Qed.

(* ======================================================================================== *)
(* 5. CROAK at run level: the pending code is abandoned and runDeadCheck decides              *)
(* ======================================================================================== *)

(* The flag is tested on the state the loop's preamble leaves (LANG, WAIT cleared, INMATCH
   cleared after a HALT, DIRTY set); for every other flag that is the state's own value. *)
Lemma croak_run_match : forall fuel rs sep lang sig mode rest v,
  wf_num sig -> getf (v_st v) FLAG_TERMINATE = false ->
  flag_in_range (v_st v) sig = true -> getf (pre_st (v_st v)) sig = mode ->
  let lang' := pre_lang lang (v_st v) in
  let v1 := croaked sep (vlog (pre_vm v) (EvInstr op_CROAK)) in
  run (S fuel) rs sep lang (encode (ICroak sig mode) ++ rest) v =
    if negb (getf (v_st v) FLAG_READIN)
    then (* not handling input: the session terminates *)
      (vset_st v1 (setf (v_st v1) FLAG_TERMINATE), [], SOk)
    else match where_sym (v_st v) with
         | [] => (v1, [], SErr EGen None)
         | _ => if bytes_eqb (where_sym (v_st v)) catch_sym then (v1, [], SErr EGen None)
                else (* input is being handled: MOVE _catch with the invalid-input error *)
                  run fuel rs sep lang' move_catch_code
                      (vset_pg v1 (page_with_error (v_pg v1) (Some (msg_invalid_input (s_input (v_st v))))))
         end.
Proof.
  intros fuel rs sep lang sig mode rest v Hwf Ht Hr Hm. cbv zeta.
  rewrite run_S_encoded by (cbn [wf_instr]; assumption). cbv zeta. cbn [opcode_of exec_instr].
  change (op_CROAK =? op_HALT) with false. cbv iota.
  destruct (croak_iff_match sep sig mode rest (vlog (pre_vm v) (EvInstr op_CROAK))) as [_ Hyes].
  { cbn [v_st vlog]. rewrite v_st_pre_vm, flag_in_range_pre_st. exact Hr. }
  rewrite Hyes by exact Hm. clear Hyes.
  set (v1 := croaked sep (vlog (pre_vm v) (EvInstr op_CROAK))).
  assert (Hst : v_st v1 = pre_st (v_st v)) by reflexivity.
  cbn [err_check after_check]. unfold dead_check. rewrite Hst.
  rewrite !getf_pre_st_other by (vm_compute; discriminate). rewrite Ht.
  rewrite <- (where_sym_sbf _ _ (pre_st_sbf (v_st v))).
  assert (Hin : s_input (pre_st (v_st v)) = s_input (v_st v)).
  { pose proof (pre_st_sbf (v_st v)) as (_ & _ & _ & _ & _ & H). symmetry. exact H. }
  rewrite Hin.
  destruct (getf (v_st v) FLAG_READIN); cbn [negb]; [|reflexivity].
  destruct (where_sym (v_st v)) as [|x l] eqn:Hw; [reflexivity|].
  destruct (bytes_eqb (x :: l) catch_sym); [reflexivity|].
  change move_catch_code with (encode (IMove catch_sym)).
  destruct (encode_shape (IMove catch_sym)) as (a & b & t & He). rewrite He. reflexivity.
Qed.

Lemma croak_run_no_match : forall fuel rs sep lang sig mode rest v,
  wf_num sig -> getf (v_st v) FLAG_TERMINATE = false ->
  flag_in_range (v_st v) sig = true -> getf (pre_st (v_st v)) sig <> mode ->
  run (S fuel) rs sep lang (encode (ICroak sig mode) ++ rest) v =
    after_check (run fuel rs sep (pre_lang lang (v_st v))) (vlog (pre_vm v) (EvInstr op_CROAK), rest, SOk).
Proof.
  intros fuel rs sep lang sig mode rest v Hwf Ht Hr Hm.
  rewrite run_S_encoded by (cbn [wf_instr]; assumption). cbv zeta. cbn [opcode_of exec_instr].
  change (op_CROAK =? op_HALT) with false. cbv iota.
  destruct (croak_iff_match sep sig mode rest (vlog (pre_vm v) (EvInstr op_CROAK))) as [Hno _].
  { cbn [v_st vlog]. rewrite v_st_pre_vm, flag_in_range_pre_st. exact Hr. }
  rewrite Hno by exact Hm. reflexivity.
Qed.

(* HALT: the loop returns at once with the rest of the code *)
Lemma run_halt : forall fuel rs sep lang rest v,
  getf (v_st v) FLAG_TERMINATE = false ->
  run (S fuel) rs sep lang (encode IHalt ++ rest) v =
    (let v0 := vlog (pre_vm v) (EvInstr op_HALT) in vset_st v0 (setf (v_st v0) FLAG_WAIT), rest, SOk).
Proof.
  intros fuel rs sep lang rest v Ht. rewrite run_S_encoded by (cbn [wf_instr]; auto; exact I).
  cbv zeta. cbn [opcode_of exec_instr]. rewrite N.eqb_refl. reflexivity.
Qed.

(* ======================================================================================== *)
(* 6. which flags an instruction can change                                                   *)
(* ======================================================================================== *)

(* navigation touches the position only *)
Definition same_but_pos (a b : state) : Prop :=
  s_code a = s_code b /\ s_bitsize a = s_bitsize b /\ s_flags a = s_flags b /\ s_lang a = s_lang b
  /\ s_input a = s_input b.
Lemma sbp_refl : forall a, same_but_pos a a. Proof. unfold same_but_pos; intuition. Qed.
Lemma sbp_trans : forall a b c, same_but_pos a b -> same_but_pos b c -> same_but_pos a c.
Proof. unfold same_but_pos; intuition congruence. Qed.
Lemma sbp_set_path_idx : forall s p i, same_but_pos s (set_path_idx s p i).
Proof. unfold same_but_pos; cbn; intuition. Qed.

Lemma st_up_sbp : forall s sym s', st_up s = Ok (sym, s') -> same_but_pos s s'.
Proof. unfold st_up. intros s sym s' H. destruct (s_path s); [discriminate|]. injection H as _ <-. apply sbp_set_path_idx. Qed.
Lemma st_down_sbp : forall s sym s', st_down s sym = Ok s' -> same_but_pos s s'.
Proof.
  unfold st_down. intros s sym s' H. destruct (MaxLevel <? len (s_path s)); [discriminate|].
  destruct (s_path s); [injection H as <-; apply sbp_set_path_idx|].
  destruct (bytes_eqb _ sym); [discriminate|]. injection H as <-. apply sbp_set_path_idx.
Qed.
Lemma st_next_sbp : forall s s', st_next s = Ok s' -> same_but_pos s s'.
Proof. unfold st_next. intros s s' H. destruct (s_path s); [discriminate|]. injection H as <-. apply sbp_set_path_idx. Qed.
Lemma st_previous_sbp : forall s s', st_previous s = Ok s' -> same_but_pos s s'.
Proof.
  unfold st_previous. intros s s' H. destruct (s_path s); [discriminate|].
  destruct (s_idx s =? 0); [discriminate|]. injection H as <-. apply sbp_set_path_idx.
Qed.

Lemma rewind_sbp : forall fuel sym st ca st' ca' sym' r,
  rewind fuel sym st ca = (st', ca', sym', r) -> same_but_pos st st'.
Proof.
  induction fuel as [|f IH]; intros sym st ca st' ca' sym' r H; cbn [rewind] in H.
  - injection H as <- _ _ _. apply sbp_refl.
  - destruct (st_top st) as [[|]| |]; try (injection H as <- _ _ _; apply sbp_refl).
    destruct (st_up st) as [[sy st1]| |] eqn:Hu; try (injection H as <- _ _ _; apply sbp_refl).
    pose proof (st_up_sbp _ _ _ Hu) as H1.
    destruct (cache_pop ca) as [ca1| |].
    + eapply sbp_trans; [exact H1|]. eapply IH. exact H.
    + injection H as <- _ _ _. exact H1.
    + injection H as <- _ _ _. exact H1.
Qed.

Lemma apply_target_sbp : forall t st ca st' ca' sym r,
  apply_target t st ca = (st', ca', sym, r) -> same_but_pos st st'.
Proof.
  intros t st ca st' ca' sym r H. rewrite apply_target_ite in H.
  destruct (negb (valid_target_b t)); [injection H as <- _ _ _; apply sbp_refl|].
  destruct (bytes_eqb t t_up).
  { unfold do_up in H. destruct (st_up st) as [[sy st1]| |] eqn:Hu; try (injection H as <- _ _ _; apply sbp_refl).
    pose proof (st_up_sbp _ _ _ Hu). destruct (cache_pop ca); injection H as <- _ _ _; assumption. }
  destruct (bytes_eqb t t_next).
  { unfold do_next in H. destruct (st_next st) as [st1| |] eqn:Hu; try (injection H as <- _ _ _; apply sbp_refl).
    injection H as <- _ _ _. eapply st_next_sbp; eauto. }
  destruct (bytes_eqb t t_prev).
  { unfold do_prev in H. destruct (st_previous st) as [st1|e|] eqn:Hu.
    - injection H as <- _ _ _. eapply st_previous_sbp; eauto.
    - destruct e; injection H as <- _ _ _; apply sbp_refl.
    - injection H as <- _ _ _; apply sbp_refl. }
  destruct (bytes_eqb t t_top).
  { eapply rewind_sbp; eauto. }
  destruct (bytes_eqb t t_same).
  { injection H as <- _ _ _; apply sbp_refl. }
  unfold do_named in H.
  destruct (MaxLevel + 1 <=? len (s_path st)); [injection H as <- _ _ _; apply sbp_refl|].
  destruct (bytes_eqb (where_sym st) t); [injection H as <- _ _ _; apply sbp_refl|].
  destruct (st_down st t) as [st1| |] eqn:Hd; injection H as <- _ _ _; try apply sbp_refl.
  eapply st_down_sbp; eauto.
Qed.

(* ---- an induction principle for properties of the machine that every piece of the loop keeps -- *)
Lemma run_preserves : forall (P : vmst -> Prop) rs sep,
  (forall v, P v -> P (pre_vm v)) ->
  (forall v e, P v -> P (vlog v e)) ->
  (forall lang i b v v' b' s, P v -> exec_instr rs sep lang i b v = (v', b', s) -> P v') ->
  (forall v m, P v -> P (set_page_err v m)) ->
  (forall v v' b s, P v -> dead_check v = (v', b, s) -> P v') ->
  forall fuel lang b v v' b' s, P v -> run fuel rs sep lang b v = (v', b', s) -> P v'.
Proof.
  intros P rs sep Hpre Hlog Hexec Herr Hdead.
  induction fuel as [|fuel IH]; intros lang b v v' b' s HP H.
  - rewrite run_O in H. injection H as <- _ _. exact HP.
  - rewrite run_S in H. destruct (getf (v_st v) FLAG_TERMINATE); [injection H as <- _ _; exact HP|].
    cbv zeta in H. pose proof (Hpre _ HP) as HP0.
    destruct (op_split b) as [[op b1]| |]; try (injection H as <- _ _; exact HP0).
    assert (Hstep : forall v1 b2 s1, step_instr rs sep (pre_lang lang (v_st v)) op b1 (pre_vm v) = (v1, b2, s1) -> P v1).
    { intros v1 b2 s1 Hs. unfold step_instr in Hs.
      destruct (parse_args op b1) as [[i b3]| |]; try (injection Hs as <- _ _; exact HP0).
      eapply Hexec; [|exact Hs]. apply Hlog. exact HP0. }
    destruct (step_instr rs sep (pre_lang lang (v_st v)) op b1 (pre_vm v)) as [[v1 b2] s1] eqn:Hs.
    pose proof (Hstep _ _ _ eq_refl) as HP1.
    assert (Hmain : (if op =? op_HALT then (v1, b2, s1)
                     else after_check (run fuel rs sep (pre_lang lang (v_st v))) (err_check (v1, b2, s1))) = (v', b', s) -> P v').
    { clear H. intros H. destruct (op =? op_HALT); [injection H as <- _ _; exact HP1|].
      destruct (err_check (v1, b2, s1)) as [[v2 b3] s2] eqn:He.
      assert (HP2 : P v2).
      { unfold err_check in He. destruct s1; try (injection He as <- _ _; exact HP1).
        cbv zeta in He.
        destruct (getf (v_st (set_page_err v1 msg)) FLAG_LOADFAIL && negb (bytes_eqb (where_sym (v_st (set_page_err v1 msg))) catch_sym));
          injection He as <- _ _; apply Herr; exact HP1. }
      unfold after_check in H. destruct s2; try (injection H as <- _ _; exact HP2).
      destruct b3 as [|x b3]; [|eapply IH; [exact HP2|exact H]].
      destruct (dead_check v2) as [[v3 b4] s3] eqn:Hd. pose proof (Hdead _ _ _ _ HP2 Hd) as HP3.
      destruct s3; try (injection H as <- _ _; exact HP3).
      destruct b4 as [|y b4]; [injection H as <- _ _; exact HP3|]. eapply IH; [exact HP3|exact H]. }
    destruct (parse_args op b1) as [[i b3]| |]; try (apply Hmain; exact H).
    injection H as <- _ _. exact HP0.
Qed.

(* ---- the reserved flags: who can change which ------------------------------------------------ *)
Definition can_fail (rs : rsrc) : Prop :=
  exists sym script fr, rs_func rs sym = Some script /\ In fr script /\ fr_fail fr = true.

(* st -> st' changed, among the flags 0..5, at most: READIN, INMATCH, WAIT (the VM's own
   bookkeeping), DIRTY (set by the loop), and LOADFAIL provided some function can fail *)
Definition rsv_step (d : bool) (rs : rsrc) (st st' : state) : Prop :=
  forall f, f <= nonwriteable_flag_threshold ->
    getf st' f = getf st f \/ f = FLAG_READIN \/ f = FLAG_INMATCH \/ f = FLAG_WAIT \/ (d = true /\ f = FLAG_DIRTY)
    \/ (f = FLAG_LOADFAIL /\ can_fail rs).
Lemma rsv_refl : forall d rs st, rsv_step d rs st st.
Proof. intros d rs st f _. left. reflexivity. Qed.
Lemma rsv_trans : forall d rs a b c, rsv_step d rs a b -> rsv_step d rs b c -> rsv_step d rs a c.
Proof.
  intros d rs a b c H1 H2 f Hf. destruct (H1 f Hf) as [E1|H1']; [|right; exact H1'].
  destruct (H2 f Hf) as [E2|H2']; [left; congruence|right; exact H2'].
Qed.
Lemma rsv_same_flags : forall d rs a b, s_flags a = s_flags b -> rsv_step d rs a b.
Proof. intros d rs a b H f _. left. unfold getf. rewrite H. reflexivity. Qed.
Lemma rsv_sbp : forall d rs a b, same_but_pos a b -> rsv_step d rs a b.
Proof. intros d rs a b (_ & _ & H & _). apply rsv_same_flags. exact H. Qed.
Lemma rsv_setf : forall d rs st j,
  (j = FLAG_READIN \/ j = FLAG_INMATCH \/ j = FLAG_WAIT \/ (d = true /\ j = FLAG_DIRTY) \/ is_writeable_flag j = true) ->
  rsv_step d rs st (setf st j).
Proof.
  intros d rs st j Hj f Hf. destruct (N.eq_dec f j) as [->|Hne]; [|left; apply getf_setf_other; exact Hne].
  destruct Hj as [->|[->|[->|[[-> ->]|Hw]]]]; auto 7. unfold is_writeable_flag in Hw. lia.
Qed.
Lemma rsv_resetf : forall d rs st j,
  (j = FLAG_READIN \/ j = FLAG_INMATCH \/ j = FLAG_WAIT \/ (d = true /\ j = FLAG_DIRTY) \/ is_writeable_flag j = true) ->
  rsv_step d rs st (resetf st j).
Proof.
  intros d rs st j Hj f Hf. destruct (N.eq_dec f j) as [->|Hne]; [|left; apply getf_resetf_other; exact Hne].
  destruct Hj as [->|[->|[->|[[-> ->]|Hw]]]]; auto 7. unfold is_writeable_flag in Hw. lia.
Qed.

Lemma nth_fres_In : forall script n fr, nth_fres script n = Some fr -> In fr script.
Proof. intros script n fr H. unfold nth_fres in H. destruct script; [discriminate|]. eapply nth_error_In. exact H. Qed.

Lemma apply_flags_no_err : forall fl set st e, apply_flags set fl st <> Err e.
Proof.
  induction fl as [|f fl IH]; intros set st e; cbn [apply_flags]; [discriminate|].
  destruct (is_writeable_flag f); [|apply IH].
  destruct set; [unfold set_flag|unfold reset_flag]; destruct (flag_in_range st f); cbn [obind]; try discriminate; apply IH.
Qed.

Lemma refresh_rsv : forall d rs lang key v v' content s,
  refresh rs lang key v = (v', content, s) -> rsv_step d rs (v_st v) (v_st v').
Proof.
  intros d rs lang key v v' content s H f Hf.
  destruct (refresh_reserved _ _ _ _ _ _ _ H f Hf) as [E|[-> [m ->]]]; [left; exact E|].
  do 5 right. split; [reflexivity|]. unfold refresh in H.
  destruct (rs_func rs key) as [script|] eqn:Hfn; [|discriminate].
  destruct (nth_fres script _) as [fr|] eqn:Hn; [|discriminate].
  exists key, script, fr. split; [exact Hfn|]. split; [eapply nth_fres_In; exact Hn|].
  destruct (fr_fail fr); [reflexivity|].
  destruct (apply_flags false (fr_reset fr) _) as [st1|e|] eqn:H1;
    [|exfalso; eapply apply_flags_no_err; exact H1|discriminate].
  destruct (apply_flags true (fr_set fr) st1) as [st2|e|] eqn:H2;
    [discriminate|exfalso; eapply apply_flags_no_err; exact H2|discriminate].
Qed.

Lemma refresh_other_fields : forall rs lang key v v' content s,
  refresh rs lang key v = (v', content, s) -> v_ca v' = v_ca v /\ v_pg v' = v_pg v.
Proof.
  intros rs lang key v v' content s H. unfold refresh in H.
  destruct (rs_func rs key) as [script|]; [|injection H as <- _ _; auto].
  destruct (nth_fres script _) as [fr|]; [|injection H as <- _ _; auto].
  destruct (fr_fail fr); [injection H as <- _ _; auto|].
  destruct (apply_flags false (fr_reset fr) _) as [st1| |]; [|injection H as <- _ _; auto|injection H as <- _ _; auto].
  destruct (apply_flags true (fr_set fr) st1); injection H as <- _ _; auto.
Qed.

Lemma exec_instr_rsv : forall d rs sep lang i b v v' b' s,
  exec_instr rs sep lang i b v = (v', b', s) -> rsv_step d rs (v_st v) (v_st v').
Proof.
  intros d rs sep lang i b v v' b' s H. destruct i; cbn [exec_instr] in H.
  - injection H as <- _ _. apply rsv_refl.
  - (* CATCH *) unfold run_catch in H.
    destruct (match_flag (v_st v) sig mode) as [[|]| |]; try (injection H as <- _ _; apply rsv_refl).
    destruct (apply_target sym (v_st v) (v_ca v)) as [[[st' ca'] nsym] s1] eqn:Ha.
    pose proof (rsv_sbp d rs _ _ (apply_target_sbp _ _ _ _ _ _ _ Ha)) as Hs.
    destruct s1; try (injection H as <- _ _; exact Hs).
    unfold fetch_code in H. destruct (rs_observed rs); destruct (rs_code rs nsym); injection H as <- _ _; exact Hs.
  - (* CROAK *) unfold run_croak in H.
    destruct (match_flag (v_st v) sig mode) as [[|]| |]; injection H as <- _ _; apply rsv_refl.
  - (* LOAD *) unfold run_load in H.
    destruct (cache_get (v_ca v) sym); try (injection H as <- _ _; apply rsv_refl).
    destruct (refresh rs lang sym v) as [[v1 content] s1] eqn:Hr.
    pose proof (refresh_rsv d _ _ _ _ _ _ _ Hr) as Hs.
    destruct s1; try (injection H as <- _ _; exact Hs).
    destruct (cache_add (v_ca v1) sym content (w16 sz)) as [ca'|e0|]; try (injection H as <- _ _; exact Hs).
    destruct e0; injection H as <- _ _; exact Hs.
  - (* RELOAD *) unfold run_reload in H.
    destruct (refresh rs lang sym v) as [[v1 content] s1] eqn:Hr.
    pose proof (refresh_rsv d _ _ _ _ _ _ _ Hr) as Hs.
    destruct s1; try (injection H as <- _ _; exact Hs).
    destruct (cache_update_raw (v_ca v1) sym content) as [ca' oe].
    destruct (page_map _ _ sym); injection H as <- _ _; exact Hs.
  - (* MAP *) unfold run_map in H. destruct (page_map _ _ sym); injection H as <- _ _; apply rsv_refl.
  - (* MOVE *) unfold run_move in H.
    destruct (apply_target sym (v_st v) (v_ca v)) as [[[st' ca'] nsym] s1] eqn:Ha.
    pose proof (rsv_sbp d rs _ _ (apply_target_sbp _ _ _ _ _ _ _ Ha)) as Hs.
    destruct s1; try (injection H as <- _ _; exact Hs).
    unfold fetch_code in H. destruct (rs_observed rs); destruct (rs_code rs nsym); injection H as <- _ _; exact Hs.
  - (* HALT *) injection H as <- _ _. cbn [v_st vset_st]. apply rsv_setf. auto.
  - (* INCMP *) unfold run_incmp in H.
    destruct (getf (v_st v) FLAG_INMATCH && getf (v_st v) FLAG_READIN); [injection H as <- _ _; apply rsv_refl|].
    set (st0 := if getf (v_st v) FLAG_INMATCH then v_st v else setf (v_st v) FLAG_READIN) in *.
    assert (H0 : rsv_step d rs (v_st v) st0).
    { unfold st0. destruct (getf (v_st v) FLAG_INMATCH); [apply rsv_refl|apply rsv_setf; auto]. }
    cbn [v_st vset_st] in H.
    destruct (s_input st0) as [input|]; [|injection H as <- _ _; exact H0].
    destruct ((negb (getf (v_st v) FLAG_INMATCH) && bytes_eqb sel star) || bytes_eqb sel input);
      [|injection H as <- _ _; exact H0].
    set (st1 := resetf (setf st0 FLAG_INMATCH) FLAG_READIN) in *.
    assert (H1 : rsv_step d rs (v_st v) st1).
    { eapply rsv_trans; [exact H0|]. eapply rsv_trans; [apply rsv_setf|apply rsv_resetf]; auto. }
    cbn [v_ca vset_st] in H.
    destruct (apply_target target st1 (v_ca v)) as [[[st' ca'] nsym] s1] eqn:Ha.
    assert (Hs : rsv_step d rs (v_st v) st').
    { eapply rsv_trans; [exact H1|]. apply rsv_sbp. eapply apply_target_sbp; eauto. }
    destruct s1 as [|e m| |].
    + unfold fetch_code in H. destruct (rs_observed rs); destruct (rs_code rs nsym); injection H as <- _ _; exact Hs.
    + destruct e; try (injection H as <- _ _; exact Hs).
      injection H as <- _ _. cbn [v_st vlog vset_st]. eapply rsv_trans; [exact Hs|apply rsv_setf; auto].
    + injection H as <- _ _; exact Hs.
    + injection H as <- _ _; exact Hs.
  - injection H as <- _ _. apply rsv_refl.
  - injection H as <- _ _. apply rsv_refl.
  - injection H as <- _ _. apply rsv_refl.
  - injection H as <- _ _. apply rsv_refl.
Qed.

Lemma pre_st_rsv : forall rs st, rsv_step true rs st (pre_st st).
Proof.
  intros rs st f Hf. destruct (N.eq_dec f FLAG_WAIT) as [->|H1]; [auto|].
  destruct (N.eq_dec f FLAG_INMATCH) as [->|H2]; [auto|].
  destruct (N.eq_dec f FLAG_DIRTY) as [->|H3]; [auto 7|].
  left. apply getf_pre_st_other; try assumption. unfold nonwriteable_flag_threshold in Hf. unfold FLAG_LANG. lia.
Qed.

Lemma set_page_err_st : forall v m, v_st (set_page_err v m) = v_st v.
Proof. intros v [m|]; reflexivity. Qed.
Lemma set_page_err_ca : forall v m, v_ca (set_page_err v m) = v_ca v.
Proof. intros v [m|]; reflexivity. Qed.

Lemma dead_check_rsv : forall d rs v v' b s, dead_check v = (v', b, s) -> rsv_step d rs (v_st v) (v_st v').
Proof.
  intros d rs v v' b s H. unfold dead_check in H.
  destruct (negb (getf (v_st v) FLAG_READIN)).
  - injection H as <- _ _. cbn [v_st vset_st]. apply rsv_setf. do 4 right. reflexivity.
  - destruct (getf (v_st v) FLAG_TERMINATE); [injection H as <- _ _; apply rsv_refl|].
    destruct (where_sym (v_st v)); [injection H as <- _ _; apply rsv_refl|].
    destruct (bytes_eqb _ catch_sym); injection H as <- _ _; apply rsv_refl.
Qed.

(* across a whole run: among the flags 0..5 only READIN, INMATCH, WAIT, DIRTY can change, and
   LOADFAIL if some function of the resource can fail *)
Lemma run_rsv : forall fuel rs sep lang b v v' b' s,
  run fuel rs sep lang b v = (v', b', s) -> rsv_step true rs (v_st v) (v_st v').
Proof.
  intros fuel rs sep lang b v v' b' s H.
  refine (run_preserves (fun x => rsv_step true rs (v_st v) (v_st x)) rs sep _ _ _ _ _ fuel lang b v v' b' s (rsv_refl true rs (v_st v)) H).
  - intros x Hx. eapply rsv_trans; [exact Hx|]. rewrite v_st_pre_vm. apply pre_st_rsv.
  - intros x e Hx. exact Hx.
  - intros lang0 i b0 x x' b1 s1 Hx He. eapply rsv_trans; [exact Hx|]. eapply exec_instr_rsv; eauto.
  - intros x m Hx. rewrite set_page_err_st. exact Hx.
  - intros x x' b0 s0 Hx Hd. eapply rsv_trans; [exact Hx|]. eapply dead_check_rsv; eauto.
Qed.

(* RESERVED (5) never changes in any run *)
Lemma run_reserved_const : forall fuel rs sep lang b v v' b' s,
  run fuel rs sep lang b v = (v', b', s) -> getf (v_st v') FLAG_RESERVED = getf (v_st v) FLAG_RESERVED.
Proof.
  intros fuel rs sep lang b v v' b' s H.
  destruct (run_rsv _ _ _ _ _ _ _ _ _ H FLAG_RESERVED) as [E|[E|[E|[E|[[_ E]|[E _]]]]]];
    try exact E; try discriminate; try (unfold FLAG_RESERVED, nonwriteable_flag_threshold; lia).
Qed.

(* LOADFAIL changes in a run only if some function of the resource can fail *)
Lemma run_loadfail_needs_failure : forall fuel rs sep lang b v v' b' s,
  run fuel rs sep lang b v = (v', b', s) ->
  getf (v_st v') FLAG_LOADFAIL <> getf (v_st v) FLAG_LOADFAIL -> can_fail rs.
Proof.
  intros fuel rs sep lang b v v' b' s H Hne.
  destruct (run_rsv _ _ _ _ _ _ _ _ _ H FLAG_LOADFAIL) as [E|[E|[E|[E|[[_ E]|[_ E]]]]]];
    try discriminate; try congruence; try exact E; try (unfold FLAG_LOADFAIL, nonwriteable_flag_threshold; lia).
Qed.

(* DIRTY, once set, stays set through a run; and a run that starts unterminated sets it *)
Lemma getf_setf_mono : forall s i j, getf s i = true -> getf (setf s j) i = true.
Proof.
  intros s i j H. destruct (N.eq_dec i j) as [->|Hne]; [|rewrite getf_setf_other by exact Hne; exact H].
  unfold getf, setf in *. cbn [s_flags set_flags]. apply nth_set_nth_bit_same.
  destruct (Compare_dec.le_lt_dec (List.length (s_flags s)) (N.to_nat j)) as [Hl|Hl]; [|exact Hl].
  rewrite nth_overflow in H by exact Hl. discriminate.
Qed.

Lemma rsv_false_dirty : forall rs st st', rsv_step false rs st st' -> getf st' FLAG_DIRTY = getf st FLAG_DIRTY.
Proof.
  intros rs st st' H. destruct (H FLAG_DIRTY) as [E|[E|[E|[E|[[E _]|[E _]]]]]]; try exact E; try discriminate.
Qed.

Lemma run_dirty_mono : forall fuel rs sep lang b v v' b' s,
  run fuel rs sep lang b v = (v', b', s) -> getf (v_st v) FLAG_DIRTY = true -> getf (v_st v') FLAG_DIRTY = true.
Proof.
  intros fuel rs sep lang b v v' b' s H H0.
  refine (run_preserves (fun x => getf (v_st x) FLAG_DIRTY = true) rs sep _ _ _ _ _ fuel lang b v v' b' s H0 H).
  - intros x Hx. rewrite v_st_pre_vm. unfold pre_st. cbv zeta. apply getf_setf_mono.
    destruct (getf (resetf (v_st x) FLAG_LANG) FLAG_WAIT);
      repeat (rewrite getf_resetf_other by (vm_compute; discriminate)); exact Hx.
  - intros x e Hx. exact Hx.
  - intros lang0 i b0 x x' b1 s1 Hx He.
    rewrite (rsv_false_dirty rs _ _ (exec_instr_rsv false _ _ _ _ _ _ _ _ _ He)). exact Hx.
  - intros x m Hx. rewrite set_page_err_st. exact Hx.
  - intros x x' b0 s0 Hx Hd. rewrite (rsv_false_dirty rs _ _ (dead_check_rsv false rs _ _ _ _ Hd)). exact Hx.
Qed.

(* a run that returns without TERMINATE (and not for lack of fuel) has set DIRTY *)
Lemma run_sets_dirty : forall fuel rs sep lang b v v' b' s,
  run fuel rs sep lang b v = (v', b', s) -> s <> SFuel ->
  getf (v_st v') FLAG_TERMINATE = false -> flag_in_range (v_st v) FLAG_DIRTY = true ->
  getf (v_st v') FLAG_DIRTY = true.
Proof.
  intros fuel rs sep lang b v v' b' s H Hs Ht Hr. destruct fuel as [|fuel].
  - rewrite run_O in H. injection H as _ _ <-. congruence.
  - rewrite run_S in H. destruct (getf (v_st v) FLAG_TERMINATE) eqn:Ht0; [injection H as <- _ _; congruence|].
    cbv zeta in H.
    assert (Hd0 : getf (v_st (pre_vm v)) FLAG_DIRTY = true).
    { rewrite v_st_pre_vm. unfold pre_st. cbv zeta. apply getf_setf_same.
      destruct (getf (resetf (v_st v) FLAG_LANG) FLAG_WAIT); repeat rewrite flag_in_range_resetf; exact Hr. }
    destruct (op_split b) as [[op b1]| |]; try (injection H as <- _ _; exact Hd0).
    assert (Hstep : forall v1 b2 s1, step_instr rs sep (pre_lang lang (v_st v)) op b1 (pre_vm v) = (v1, b2, s1) ->
                                     getf (v_st v1) FLAG_DIRTY = true).
    { intros v1 b2 s1 Hst. unfold step_instr in Hst.
      destruct (parse_args op b1) as [[i b3]| |]; try (injection Hst as <- _ _; exact Hd0).
      rewrite (rsv_false_dirty rs _ _ (exec_instr_rsv false _ _ _ _ _ _ _ _ _ Hst)). exact Hd0. }
    destruct (step_instr rs sep (pre_lang lang (v_st v)) op b1 (pre_vm v)) as [[v1 b2] s1] eqn:Hst.
    pose proof (Hstep _ _ _ eq_refl) as Hd1.
    assert (Hmain : (if op =? op_HALT then (v1, b2, s1)
                     else after_check (run fuel rs sep (pre_lang lang (v_st v))) (err_check (v1, b2, s1))) = (v', b', s) ->
                    getf (v_st v') FLAG_DIRTY = true).
    { clear H. intros H. destruct (op =? op_HALT); [injection H as <- _ _; exact Hd1|].
      destruct (err_check (v1, b2, s1)) as [[v2 b3] s2] eqn:He.
      assert (Hd2 : getf (v_st v2) FLAG_DIRTY = true).
      { unfold err_check in He. destruct s1; try (injection He as <- _ _; exact Hd1).
        cbv zeta in He.
        destruct (getf (v_st (set_page_err v1 msg)) FLAG_LOADFAIL && negb (bytes_eqb (where_sym (v_st (set_page_err v1 msg))) catch_sym));
          injection He as <- _ _; rewrite set_page_err_st; exact Hd1. }
      unfold after_check in H. destruct s2; try (injection H as <- _ _; exact Hd2).
      destruct b3 as [|x b3]; [|eapply run_dirty_mono; [exact H|exact Hd2]].
      destruct (dead_check v2) as [[v3 b4] s3] eqn:Hd.
      assert (Hd3 : getf (v_st v3) FLAG_DIRTY = true)
        by (rewrite (rsv_false_dirty rs _ _ (dead_check_rsv false rs _ _ _ _ Hd)); exact Hd2).
      destruct s3; try (injection H as <- _ _; exact Hd3).
      destruct b4 as [|y b4]; [injection H as <- _ _; exact Hd3|]. eapply run_dirty_mono; [exact H|exact Hd3]. }
    destruct (parse_args op b1) as [[i b3]| |]; try (apply Hmain; exact H).
    injection H as <- _ _. exact Hd0.
Qed.

(* ---- how a run can end with no code left ------------------------------------------------------ *)
(* Either TERMINATE is set (it was set before, external code set it, or runDeadCheck set it
   because the code ran out while no input was being handled), or the last instruction was a
   HALT: WAIT is set and HALT is the newest entry of the instruction log. *)
Definition ended_on_halt (v : vmst) : Prop :=
  getf (v_st v) FLAG_WAIT = true /\ exists l, v_log v = EvInstr op_HALT :: l.

Lemma dead_check_empty_terminates : forall v v', dead_check v = (v', [], SOk) ->
  flag_in_range (v_st v) FLAG_TERMINATE = true -> getf (v_st v') FLAG_TERMINATE = true.
Proof.
  intros v v' H Hr. unfold dead_check in H. destruct (negb (getf (v_st v) FLAG_READIN)).
  - injection H as <-. cbn [v_st vset_st]. apply getf_setf_same. exact Hr.
  - destruct (getf (v_st v) FLAG_TERMINATE) eqn:Ht; [injection H as <-; exact Ht|].
    destruct (where_sym (v_st v)); [discriminate|].
    destruct (bytes_eqb _ catch_sym); [discriminate|].
    exfalso. injection H as _ H. revert H. change move_catch_code with (encode (IMove catch_sym)).
    destruct (encode_shape (IMove catch_sym)) as (a & b & t & He). rewrite He. discriminate.
Qed.

(* ---- the shape of the flag field (configured flag count, byte size) never changes -------------- *)
Definition same_shape (a b : state) : Prop :=
  s_bitsize a = s_bitsize b /\ List.length (s_flags a) = List.length (s_flags b)
  /\ s_code a = s_code b /\ s_input a = s_input b.
Lemma shape_refl : forall a, same_shape a a. Proof. unfold same_shape; auto. Qed.
Lemma shape_trans : forall a b c, same_shape a b -> same_shape b c -> same_shape a c.
Proof. unfold same_shape; intuition congruence. Qed.
Lemma shape_range : forall a b i, same_shape a b -> flag_in_range b i = flag_in_range a i.
Proof. intros a b i (H1 & H2 & _). unfold flag_in_range, len. rewrite H1, H2. reflexivity. Qed.
Lemma shape_setf : forall s j, same_shape s (setf s j).
Proof. intros. unfold same_shape, setf. cbn [s_bitsize s_flags set_flags s_code s_input]. rewrite length_set_nth_bit. auto. Qed.
Lemma shape_resetf : forall s j, same_shape s (resetf s j).
Proof. intros. unfold same_shape, resetf. cbn [s_bitsize s_flags set_flags s_code s_input]. rewrite length_set_nth_bit. auto. Qed.
Lemma shape_sbp : forall a b, same_but_pos a b -> same_shape a b.
Proof. intros a b (H0 & H1 & H2 & _ & H3). unfold same_shape. rewrite H0, H1, H2, H3. auto. Qed.
Lemma shape_pre_st : forall s, same_shape s (pre_st s).
Proof.
  intros s. unfold pre_st. cbv zeta. eapply shape_trans; [|apply shape_setf].
  destruct (getf (resetf s FLAG_LANG) FLAG_WAIT); repeat (eapply shape_trans; [|apply shape_resetf]); apply shape_refl.
Qed.
Lemma shape_set_language : forall lk s c, same_shape s (st_set_language lk s c).
Proof. intros. unfold same_shape, st_set_language. destruct c; destruct (lk _); cbn; auto. Qed.

Lemma apply_flags_shape : forall fl set st st', apply_flags set fl st = Ok st' -> same_shape st st'.
Proof.
  induction fl as [|f fl IH]; intros set st st' H; cbn [apply_flags] in H; [injection H as <-; apply shape_refl|].
  destruct (is_writeable_flag f); [|eapply IH; exact H].
  destruct (flag_in_range st f) eqn:Hf.
  - destruct set; [rewrite set_flag_ok in H by exact Hf|rewrite reset_flag_ok in H by exact Hf]; cbn [obind] in H;
      (eapply shape_trans; [|eapply IH; exact H]); [apply shape_setf|apply shape_resetf].
  - destruct set; [rewrite set_flag_panics in H by exact Hf|rewrite reset_flag_panics in H by exact Hf]; discriminate.
Qed.

Lemma refresh_shape : forall rs lang key v v' content s,
  refresh rs lang key v = (v', content, s) -> same_shape (v_st v) (v_st v').
Proof.
  intros rs lang key v v' content s H. unfold refresh in H.
  destruct (rs_func rs key) as [script|]; [|injection H as <- _ _; apply shape_refl].
  destruct (nth_fres script _) as [fr|]; [|injection H as <- _ _; apply shape_refl].
  destruct (fr_fail fr); [injection H as <- _ _; cbn [v_st vset_st vlog vset_w]; apply shape_setf|].
  destruct (apply_flags false (fr_reset fr) _) as [st1| |] eqn:H1; try (injection H as <- _ _; apply shape_refl).
  destruct (apply_flags true (fr_set fr) st1) as [st2| |] eqn:H2; try (injection H as <- _ _; apply shape_refl).
  injection H as <- _ _. cbn [v_st vset_st].
  apply apply_flags_shape in H1. apply apply_flags_shape in H2. cbn [v_st vlog vset_w] in H1.
  eapply shape_trans; [exact H1|]. eapply shape_trans; [exact H2|].
  destruct (getf st2 FLAG_LANG); [apply shape_set_language|apply shape_refl].
Qed.

Lemma exec_instr_shape : forall rs sep lang i b v v' b' s,
  exec_instr rs sep lang i b v = (v', b', s) -> same_shape (v_st v) (v_st v').
Proof.
  intros rs sep lang i b v v' b' s H. destruct i; cbn [exec_instr] in H.
  - injection H as <- _ _. apply shape_refl.
  - unfold run_catch in H.
    destruct (match_flag (v_st v) sig mode) as [[|]| |]; try (injection H as <- _ _; apply shape_refl).
    destruct (apply_target sym (v_st v) (v_ca v)) as [[[st' ca'] nsym] s1] eqn:Ha.
    pose proof (shape_sbp _ _ (apply_target_sbp _ _ _ _ _ _ _ Ha)) as Hs.
    destruct s1; try (injection H as <- _ _; exact Hs).
    unfold fetch_code in H. destruct (rs_observed rs); destruct (rs_code rs nsym); injection H as <- _ _; exact Hs.
  - unfold run_croak in H.
    destruct (match_flag (v_st v) sig mode) as [[|]| |]; injection H as <- _ _; apply shape_refl.
  - unfold run_load in H.
    destruct (cache_get (v_ca v) sym); try (injection H as <- _ _; apply shape_refl).
    destruct (refresh rs lang sym v) as [[v1 content] s1] eqn:Hr.
    pose proof (refresh_shape _ _ _ _ _ _ _ Hr) as Hs.
    destruct s1; try (injection H as <- _ _; exact Hs).
    destruct (cache_add (v_ca v1) sym content (w16 sz)) as [ca'|e0|]; try (injection H as <- _ _; exact Hs).
    destruct e0; injection H as <- _ _; exact Hs.
  - unfold run_reload in H.
    destruct (refresh rs lang sym v) as [[v1 content] s1] eqn:Hr.
    pose proof (refresh_shape _ _ _ _ _ _ _ Hr) as Hs.
    destruct s1; try (injection H as <- _ _; exact Hs).
    destruct (cache_update_raw (v_ca v1) sym content) as [ca' oe].
    destruct (page_map _ _ sym); injection H as <- _ _; exact Hs.
  - unfold run_map in H. destruct (page_map _ _ sym); injection H as <- _ _; apply shape_refl.
  - unfold run_move in H.
    destruct (apply_target sym (v_st v) (v_ca v)) as [[[st' ca'] nsym] s1] eqn:Ha.
    pose proof (shape_sbp _ _ (apply_target_sbp _ _ _ _ _ _ _ Ha)) as Hs.
    destruct s1; try (injection H as <- _ _; exact Hs).
    unfold fetch_code in H. destruct (rs_observed rs); destruct (rs_code rs nsym); injection H as <- _ _; exact Hs.
  - injection H as <- _ _. cbn [v_st vset_st]. apply shape_setf.
  - unfold run_incmp in H.
    destruct (getf (v_st v) FLAG_INMATCH && getf (v_st v) FLAG_READIN); [injection H as <- _ _; apply shape_refl|].
    set (st0 := if getf (v_st v) FLAG_INMATCH then v_st v else setf (v_st v) FLAG_READIN) in *.
    assert (H0 : same_shape (v_st v) st0).
    { unfold st0. destruct (getf (v_st v) FLAG_INMATCH); [apply shape_refl|apply shape_setf]. }
    cbn [v_st vset_st] in H.
    destruct (s_input st0) as [input|]; [|injection H as <- _ _; exact H0].
    destruct ((negb (getf (v_st v) FLAG_INMATCH) && bytes_eqb sel star) || bytes_eqb sel input);
      [|injection H as <- _ _; exact H0].
    set (st1 := resetf (setf st0 FLAG_INMATCH) FLAG_READIN) in *.
    assert (H1 : same_shape (v_st v) st1).
    { eapply shape_trans; [exact H0|]. eapply shape_trans; [apply shape_setf|apply shape_resetf]. }
    cbn [v_ca vset_st] in H.
    destruct (apply_target target st1 (v_ca v)) as [[[st' ca'] nsym] s1] eqn:Ha.
    assert (Hs : same_shape (v_st v) st').
    { eapply shape_trans; [exact H1|]. apply shape_sbp. eapply apply_target_sbp; eauto. }
    destruct s1 as [|e m| |].
    + unfold fetch_code in H. destruct (rs_observed rs); destruct (rs_code rs nsym); injection H as <- _ _; exact Hs.
    + destruct e; try (injection H as <- _ _; exact Hs).
      injection H as <- _ _. cbn [v_st vlog vset_st]. eapply shape_trans; [exact Hs|apply shape_setf].
    + injection H as <- _ _; exact Hs.
    + injection H as <- _ _; exact Hs.
  - injection H as <- _ _. apply shape_refl.
  - injection H as <- _ _. apply shape_refl.
  - injection H as <- _ _. apply shape_refl.
  - injection H as <- _ _. apply shape_refl.
Qed.

Lemma dead_check_shape : forall v v' b s, dead_check v = (v', b, s) -> same_shape (v_st v) (v_st v').
Proof.
  intros v v' b s H. unfold dead_check in H.
  destruct (negb (getf (v_st v) FLAG_READIN)); [injection H as <- _ _; apply shape_setf|].
  destruct (getf (v_st v) FLAG_TERMINATE); [injection H as <- _ _; apply shape_refl|].
  destruct (where_sym (v_st v)); [injection H as <- _ _; apply shape_refl|].
  destruct (bytes_eqb _ catch_sym); injection H as <- _ _; apply shape_refl.
Qed.

Lemma run_shape : forall fuel rs sep lang b v v' b' s,
  run fuel rs sep lang b v = (v', b', s) -> same_shape (v_st v) (v_st v').
Proof.
  intros fuel rs sep lang b v v' b' s H.
  refine (run_preserves (fun x => same_shape (v_st v) (v_st x)) rs sep _ _ _ _ _ fuel lang b v v' b' s (shape_refl _) H).
  - intros x Hx. eapply shape_trans; [exact Hx|]. rewrite v_st_pre_vm. apply shape_pre_st.
  - intros x e Hx. exact Hx.
  - intros lang0 i b0 x x' b1 s1 Hx He. eapply shape_trans; [exact Hx|]. eapply exec_instr_shape; eauto.
  - intros x m Hx. rewrite set_page_err_st. exact Hx.
  - intros x x' b0 s0 Hx Hd. eapply shape_trans; [exact Hx|]. eapply dead_check_shape; eauto.
Qed.

(* the end of a run with no code left *)
Lemma run_end_cases : forall fuel rs sep lang b v v',
  run fuel rs sep lang b v = (v', [], SOk) -> flag_in_range (v_st v) FLAG_TERMINATE = true ->
  getf (v_st v') FLAG_TERMINATE = true \/ ended_on_halt v'.
Proof.
  induction fuel as [|fuel IH]; intros rs sep lang b v v' H Hr.
  - rewrite run_O in H. discriminate.
  - rewrite run_S in H. destruct (getf (v_st v) FLAG_TERMINATE) eqn:Ht0; [injection H as <-; left; exact Ht0|].
    cbv zeta in H.
    destruct (op_split b) as [[op b1]| |]; try discriminate.
    destruct (step_instr rs sep (pre_lang lang (v_st v)) op b1 (pre_vm v)) as [[v1 b2] s1] eqn:Hst.
    assert (Hr1 : flag_in_range (v_st v1) FLAG_TERMINATE = true).
    { assert (Hr0 : flag_in_range (v_st (pre_vm v)) FLAG_TERMINATE = true)
        by (rewrite v_st_pre_vm, flag_in_range_pre_st; exact Hr).
      unfold step_instr in Hst.
      destruct (parse_args op b1) as [[i b3]| |]; try (injection Hst as <- _ _; exact Hr0).
      rewrite (shape_range _ _ _ (exec_instr_shape _ _ _ _ _ _ _ _ _ Hst)). exact Hr0. }
    assert (Hmain : (if op =? op_HALT then (v1, b2, s1)
                     else after_check (run fuel rs sep (pre_lang lang (v_st v))) (err_check (v1, b2, s1))) = (v', [], SOk) ->
                    getf (v_st v') FLAG_TERMINATE = true \/ ended_on_halt v').
    { clear H. intros H. destruct (op =? op_HALT) eqn:Hop.
      - injection H as <- -> ->. right. apply N.eqb_eq in Hop. subst op.
        unfold step_instr in Hst. change (parse_args op_HALT b1) with (Ok (E:=err) (IHalt, b1)) in Hst.
        cbn [exec_instr] in Hst. injection Hst as <- _. unfold ended_on_halt. cbn [v_st vset_st v_log vlog]. split.
        + apply getf_setf_same. rewrite flag_in_range_pre_st.
          unfold flag_in_range in *. change (w32 (FLAG_WAIT + 1)) with 3. change (w32 (FLAG_TERMINATE + 1)) with 7 in Hr.
          unfold FLAG_WAIT, FLAG_TERMINATE in *. lia.
        + eexists. reflexivity.
      - destruct (err_check (v1, b2, s1)) as [[v2 b3] s2] eqn:He.
        assert (Hr2 : flag_in_range (v_st v2) FLAG_TERMINATE = true).
        { unfold err_check in He. destruct s1; try (injection He as <- _ _; exact Hr1).
          cbv zeta in He.
          destruct (getf (v_st (set_page_err v1 msg)) FLAG_LOADFAIL && negb (bytes_eqb (where_sym (v_st (set_page_err v1 msg))) catch_sym));
            injection He as <- _ _; rewrite set_page_err_st; exact Hr1. }
        unfold after_check in H. destruct s2; try discriminate.
        destruct b3 as [|x b3]; [|eapply IH; [exact H|exact Hr2]].
        destruct (dead_check v2) as [[v3 b4] s3] eqn:Hd.
        destruct s3; try discriminate.
        destruct b4 as [|y b4].
        + injection H as <-. left. eapply dead_check_empty_terminates; eauto.
        + eapply IH; [exact H|]. rewrite (shape_range _ _ _ (dead_check_shape _ _ _ _ Hd)). exact Hr2. }
    destruct (parse_args op b1) as [[i b3]| |]; try (apply Hmain; exact H). discriminate.
Qed.

(* the built-in flags are in range as soon as the highest one is *)
Lemma flag_in_range_below : forall s i j, j <= i -> i < 4294967295 -> flag_in_range s i = true -> flag_in_range s j = true.
Proof.
  intros s i j Hji Hi H. unfold flag_in_range, w32 in *. rewrite N.mod_small in * by lia.
  apply andb_prop in H as [H1 H2]. apply andb_true_intro. split; lia.
Qed.

(* ======================================================================================== *)
(* 7. reserved requests are ignored: the run is the run of the stripped resource              *)
(* ======================================================================================== *)
Lemma exec_instr_strip : forall rs rs' sep lang i b v, strip_rel rs rs' ->
  exec_instr rs' sep lang i b v = exec_instr rs sep lang i b v.
Proof.
  intros rs rs' sep lang i b v Hrel. pose proof Hrel as (Hc & Ht & Hm & Hn & Ho & Hf).
  destruct i; cbn [exec_instr]; try reflexivity.
  - unfold run_catch, fetch_code. rewrite Ho.
    destruct (match_flag (v_st v) sig mode) as [[|]| |]; try reflexivity.
    destruct (apply_target sym (v_st v) (v_ca v)) as [[[st' ca'] nsym] s1]. rewrite Hc. reflexivity.
  - unfold run_load. rewrite (refresh_strip rs rs') by exact Hrel. reflexivity.
  - unfold run_reload. rewrite (refresh_strip rs rs') by exact Hrel. reflexivity.
  - unfold run_move, fetch_code. rewrite Ho.
    destruct (apply_target sym (v_st v) (v_ca v)) as [[[st' ca'] nsym] s1]. rewrite Hc. reflexivity.
  - unfold run_incmp, fetch_code. rewrite Ho.
    destruct (getf (v_st v) FLAG_INMATCH && getf (v_st v) FLAG_READIN); [reflexivity|].
    destruct (s_input _) as [input|]; [|reflexivity].
    destruct ((negb (getf (v_st v) FLAG_INMATCH) && bytes_eqb sel star) || bytes_eqb sel input); [|reflexivity].
    destruct (apply_target target _ _) as [[[st' ca'] nsym] s1]. rewrite Hc. reflexivity.
Qed.

Lemma run_strip : forall rs rs', strip_rel rs rs' ->
  forall fuel sep lang b v, run fuel rs' sep lang b v = run fuel rs sep lang b v.
Proof.
  intros rs rs' Hrel. induction fuel as [|fuel IH]; intros sep lang b v; [reflexivity|].
  rewrite !run_S. destruct (getf (v_st v) FLAG_TERMINATE); [reflexivity|]. cbv zeta.
  destruct (op_split b) as [[op b1]| |]; [|reflexivity|reflexivity].
  assert (Hs : step_instr rs' sep (pre_lang lang (v_st v)) op b1 (pre_vm v)
             = step_instr rs sep (pre_lang lang (v_st v)) op b1 (pre_vm v)).
  { unfold step_instr. destruct (parse_args op b1) as [[i b2]| |]; [|reflexivity|reflexivity].
    apply exec_instr_strip. exact Hrel. }
  rewrite Hs.
  assert (Ha : forall r, after_check (run fuel rs' sep (pre_lang lang (v_st v))) r
                       = after_check (run fuel rs sep (pre_lang lang (v_st v))) r).
  { intros [[v2 b3] s2]. unfold after_check. destruct s2; try reflexivity.
    destruct b3; [|apply IH]. destruct (dead_check v2) as [[v3 b4] s3]. destruct s3; try reflexivity.
    destruct b4; [reflexivity|apply IH]. }
  rewrite Ha. reflexivity.
Qed.

Lemma vm_render_strip : forall rs rs', strip_rel rs rs' ->
  forall fuel sep lang v, vm_render fuel rs' sep lang v = vm_render fuel rs sep lang v.
Proof.
  intros rs rs' Hrel fuel sep lang v. pose proof Hrel as (Hc & Ht & Hm & Hn & Ho & Hf).
  unfold vm_render. rewrite Ht, Hm.
  destruct (negb (getf (v_st v) FLAG_DIRTY)); [reflexivity|]. cbv zeta.
  destruct (where_sym _) as [|x l]; [reflexivity|].
  destruct (page_render _ _ _ _ _ _) as [r pg']. destruct r as [o|e|n]; try reflexivity.
  destruct e; try reflexivity. rewrite (run_strip rs rs' Hrel). reflexivity.
Qed.

(* ---- the same at engine level ------------------------------------------------------------------ *)
Definition strip_app (a : app) : app :=
  mkApp (a_code a) (a_tpl a) (a_menu a) (map (fun p => (fst p, map strip_fres (snd p))) (a_funcs a)).
Definition strip_cfg (c : config) : config :=
  mkCfg (c_out c) (c_root c) (c_flagcount c) (c_cachesize c) (c_lang c) (c_sep c) (c_reset_empty c)
        (option_map (map strip_fres) (c_first c)).

Lemma alookup_map_snd : forall {V W} (g : V -> W) k (l : list (bytes * V)),
  alookup k (map (fun p => (fst p, g (snd p))) l) = option_map g (alookup k l).
Proof.
  intros V W g k l. induction l as [|[k' v] l IH]; [reflexivity|]. cbn [map alookup fst snd].
  destruct (bytes_eqb k k'); [reflexivity|exact IH].
Qed.

Lemma strip_rel_app : forall a, strip_rel (app_rsrc a) (app_rsrc (strip_app a)).
Proof.
  intros a. unfold strip_rel, app_rsrc, strip_app. cbn [rs_code rs_tpl rs_menu rs_nofunc rs_observed rs_func a_code a_tpl a_menu a_funcs].
  repeat split. intros s. apply alookup_map_snd.
Qed.
Lemma strip_rel_first : forall script, strip_rel (first_rsrc script) (first_rsrc (map strip_fres script)).
Proof.
  intros script. unfold strip_rel, first_rsrc. cbn [rs_code rs_tpl rs_menu rs_nofunc rs_observed rs_func].
  repeat split. intros s. destruct (bytes_eqb s first_sym); reflexivity.
Qed.

Lemma eng_flush_strip : forall rs rs' fuel c e, strip_rel rs rs' ->
  eng_flush fuel rs' (strip_cfg c) e = eng_flush fuel rs c e.
Proof.
  intros rs rs' fuel c e Hrel. unfold eng_flush. cbn [strip_cfg c_out c_sep].
  rewrite (vm_render_strip rs rs' Hrel). reflexivity.
Qed.

Lemma run_first_strip : forall fuel c lang e, run_first fuel (strip_cfg c) lang e = run_first fuel c lang e.
Proof.
  intros fuel c lang e. unfold run_first. cbn [strip_cfg c_first].
  destruct (c_first c) as [script|]; cbn [option_map]; [|reflexivity].
  destruct (st_down _ first_sym); try reflexivity.
  rewrite (run_strip _ _ (strip_rel_first script)). reflexivity.
Qed.

Lemma eng_init_strip : forall rs rs' fuel c e input, strip_rel rs rs' ->
  eng_init fuel rs' (strip_cfg c) e input = eng_init fuel rs c e input.
Proof.
  intros rs rs' fuel c e input Hrel. unfold eng_init.
  rewrite (eng_flush_strip rs rs') by exact Hrel.
  destruct (if e_execd e then _ else _) as [e1 s1]. destruct s1; try reflexivity.
  destruct (e_initd _); [reflexivity|].
  destruct (set_input _ _); try reflexivity.
  rewrite run_first_strip. reflexivity.
Qed.

Lemma eng_exec_inner_strip : forall rs rs' fuel c e, strip_rel rs rs' ->
  eng_exec_inner fuel rs' (strip_cfg c) e = eng_exec_inner fuel rs c e.
Proof.
  intros rs rs' fuel c e Hrel. unfold eng_exec_inner. cbn [strip_cfg c_sep].
  destruct (s_code _); [reflexivity|]. rewrite (run_strip rs rs' Hrel). reflexivity.
Qed.

Lemma eng_exec_strip : forall rs rs' fuel c e input, strip_rel rs rs' ->
  eng_exec fuel rs' (strip_cfg c) e input = eng_exec fuel rs c e input.
Proof.
  intros rs rs' fuel c e input Hrel. unfold eng_exec. rewrite (eng_init_strip rs rs') by exact Hrel.
  destruct (eng_init fuel rs c e input) as [[e1 cont] s]. destruct s; try reflexivity.
  destruct (negb cont); [reflexivity|].
  change (c_reset_empty (strip_cfg c)) with (c_reset_empty c).
  change (eng_reset_force (strip_cfg c) e1) with (eng_reset_force c e1).
  destruct (if c_reset_empty c && (len input =? 0) then _ else _) as [e2 s2]. destruct s2; try reflexivity.
  destruct ((0 <? len input) && negb (valid_input_b input)); [reflexivity|].
  destruct (set_input _ _); try reflexivity. apply eng_exec_inner_strip. exact Hrel.
Qed.

(* a whole request: every reserved index an entry function (of the application or the engine's
   first-function) asks for is ignored on every path by which a result reaches the session *)
Lemma request_persisted_strip : forall rs rs' fuel c p input, strip_rel rs rs' ->
  request_persisted fuel rs' (strip_cfg c) p input = request_persisted fuel rs c p input.
Proof.
  intros rs rs' fuel c p input Hrel. unfold request_persisted.
  change (new_engine (strip_cfg c) (pw_store p) (pw_w p) (pw_log p)) with (new_engine c (pw_store p) (pw_w p) (pw_log p)).
  rewrite (eng_exec_strip rs rs') by exact Hrel.
  destruct (eng_exec fuel rs c _ input) as [[e1 cont] s].
  destruct s; try reflexivity; rewrite (eng_flush_strip rs rs') by exact Hrel; reflexivity.
Qed.
Lemma request_long_strip : forall rs rs' fuel c e input, strip_rel rs rs' ->
  request_long fuel rs' (strip_cfg c) e input = request_long fuel rs c e input.
Proof.
  intros rs rs' fuel c e input Hrel. unfold request_long.
  rewrite (eng_exec_strip rs rs') by exact Hrel.
  destruct (eng_exec fuel rs c e input) as [[e1 cont] s].
  destruct s; try reflexivity; rewrite (eng_flush_strip rs rs') by exact Hrel; reflexivity.
Qed.

(* ---- LOAD / RELOAD / the engine's first-function: reserved flags ------------------------------- *)
Lemma run_load_reserved : forall rs lang sym sz b v v' b' s,
  run_load rs lang sym sz b v = (v', b', s) ->
  forall i, i <= nonwriteable_flag_threshold ->
    getf (v_st v') i = getf (v_st v) i \/ (i = FLAG_LOADFAIL /\ exists m, s = SErr EExternal m).
Proof.
  intros rs lang sym sz b v v' b' s H i Hi. unfold run_load in H.
  destruct (cache_get (v_ca v) sym); try (injection H as <- _ _; left; reflexivity).
  destruct (refresh rs lang sym v) as [[v1 content] s1] eqn:Hr.
  destruct (refresh_reserved _ _ _ _ _ _ _ Hr i Hi) as [E|[-> [m ->]]].
  - left. destruct s1; try (injection H as <- _ _; exact E).
    destruct (cache_add (v_ca v1) sym content (w16 sz)) as [ca'|e0|]; try (injection H as <- _ _; exact E).
    destruct e0; injection H as <- _ _; exact E.
  - injection H as <- _ <-. right. eauto.
Qed.
Lemma run_reload_reserved : forall rs lang sym b v v' b' s,
  run_reload rs lang sym b v = (v', b', s) ->
  forall i, i <= nonwriteable_flag_threshold ->
    getf (v_st v') i = getf (v_st v) i \/ (i = FLAG_LOADFAIL /\ exists m, s = SErr EExternal m).
Proof.
  intros rs lang sym b v v' b' s H i Hi. unfold run_reload in H.
  destruct (refresh rs lang sym v) as [[v1 content] s1] eqn:Hr.
  destruct (refresh_reserved _ _ _ _ _ _ _ Hr i Hi) as [E|[-> [m ->]]].
  - left. destruct s1; try (injection H as <- _ _; exact E).
    destruct (cache_update_raw (v_ca v1) sym content) as [ca' oe].
    destruct (page_map _ _ sym); injection H as <- _ _; exact E.
  - injection H as <- _ <-. right. eauto.
Qed.

Lemma run_first_rsv : forall fuel c lang e e' r s,
  run_first fuel c lang e = (e', r, s) ->
  rsv_step true (first_rsrc (match c_first c with Some sc => sc | None => [] end)) (v_st (e_v e)) (v_st (e_v e')).
Proof.
  intros fuel c lang e e' r s H. unfold run_first in H.
  destruct (c_first c) as [script|]; [|injection H as <- _ _; apply rsv_refl].
  destruct (st_down (v_st (e_v e)) first_sym) as [st1| |] eqn:Hd; try (injection H as <- _ _; apply rsv_refl).
  destruct (run fuel (first_rsrc script) [] lang first_code _) as [[v2 b] s2] eqn:Hrun.
  apply run_rsv in Hrun. cbn [v_st] in Hrun.
  destruct (match s2 with SOk => _ | _ => _ end) as [[r0 s0] take].
  destruct (if take then cache_last (v_ca v2) else (e_exit e, v_ca v2)) as [ex ca2].
  injection H as <- _ _. cbn [e_v v_st].
  eapply rsv_trans; [apply rsv_sbp; eapply st_down_sbp; exact Hd|].
  eapply rsv_trans; [exact Hrun|].
  eapply rsv_trans; [apply rsv_resetf; auto 6|].
  eapply rsv_trans; [apply (rsv_resetf true _ _ FLAG_TERMINATE); do 4 right; reflexivity|].
  destruct (st_up _) as [[sy st']| |] eqn:Hu; [|apply rsv_refl|apply rsv_refl].
  apply rsv_sbp. eapply st_up_sbp. exact Hu.
Qed.

(* ======================================================================================== *)
(* 8. persisted operation without an entry function: what Exec runs                           *)
(* ======================================================================================== *)
(* the input passes the engine's checks (not refused_b of EngineMon) *)
Definition accepted_b (i : bytes) : bool := (len i <=? INPUT_LIMIT) && ((len i =? 0) || valid_input_b i).
(* ResetOnEmptyInput applies *)
Definition reset_req (c : config) (i : bytes) : bool := c_reset_empty c && (len i =? 0).
(* no pending code but a position, and not terminated: init unwinds first (repair of K-C08-restart) *)
Definition stale (st : state) : bool :=
  match s_code st, s_path st with [], _ :: _ => negb (getf st FLAG_TERMINATE) | _, _ => false end.

Definition prep_code (c : config) (st : state) : bytes :=
  match s_code st with [] => encode (IMove (cfg_root c)) | x => x end.
Definition prep_state (c : config) (st : state) (input : bytes) : state :=
  set_input_raw (set_code st (prep_code c st)) (Some input).
Definition prep_engine (c : config) (st : state) (ca : cache) (w : list (bytes * N)) (lg : list ev) (input : bytes) : engine :=
  mkEng (mkVm (prep_state c st input) ca (new_vm_page (c_out c) (c_sep c)) w lg false) true [] false false.

Lemma set_input_accepted : forall st input, accepted_b input = true ->
  set_input st (Some input) = Ok (set_input_raw st (Some input)).
Proof.
  intros st input H. unfold accepted_b in H. apply andb_prop in H as [H _]. unfold set_input.
  assert (E : INPUT_LIMIT <? len input = false) by lia. rewrite E. reflexivity.
Qed.
Lemma accepted_valid : forall input, accepted_b input = true -> (0 <? len input) && negb (valid_input_b input) = false.
Proof.
  intros input H. unfold accepted_b in H. apply andb_prop in H as [_ H]. apply orb_prop in H as [H|H].
  - assert (E : 0 <? len input = false) by lia. rewrite E. reflexivity.
  - rewrite H. apply andb_false_r.
Qed.

Lemma encode_move_cons : forall t, exists a b r, encode (IMove t) = a :: b :: r.
Proof. intros t. apply encode_shape. Qed.

Definition init_engine (c : config) (st : state) (ca : cache) (w : list (bytes * N)) (lg : list ev) : engine :=
  mkEng (mkVm (set_code st (prep_code c st)) ca (new_vm_page (c_out c) (c_sep c)) w lg false) true [] false false.

Lemma eng_init_prepared : forall fuel rs c st ca w lg input,
  c_first c = None -> accepted_b input = true -> stale st = false ->
  eng_init fuel rs c (new_engine c (Some (st, ca)) w lg) input = (init_engine c st ca w lg, true, SOk).
Proof.
  intros fuel rs c st ca w lg input Hf Ha Hstale.
  unfold eng_init, new_engine. cbn [e_execd e_initd e_v v_st].
  rewrite set_input_accepted by exact Ha. unfold run_first. rewrite Hf.
  cbn [eset_v vset_st e_v v_st negb e_initd e_exit e_exiting e_execd].
  change (s_code (set_input_raw st (Some input))) with (s_code st).
  change (s_path (set_input_raw st (Some input))) with (s_path st).
  change (getf (set_input_raw st (Some input)) FLAG_TERMINATE) with (getf st FLAG_TERMINATE).
  unfold init_engine, prep_code. unfold stale in Hstale.
  destruct (encode_move_cons (cfg_root c)) as (a & b & r & E).
  destruct (s_code st) as [|x code] eqn:Hc.
  - destruct (s_path st) as [|y p] eqn:Hp.
    + cbn [e_v v_st s_code set_input_raw]. try rewrite Hc. unfold set_code_eng. rewrite E.
      cbn [e_v v_st vset_st eset_v e_exit e_exiting e_execd e_initd].
      destruct st; cbn in *; subst; reflexivity.
    + destruct (getf st FLAG_TERMINATE); [|discriminate].
      cbn [e_v v_st s_code set_input_raw]. try rewrite Hc. unfold set_code_eng. rewrite E.
      cbn [e_v v_st vset_st eset_v e_exit e_exiting e_execd e_initd].
      destruct st; cbn in *; subst; reflexivity.
  - cbn [e_v v_st s_code set_input_raw]. try rewrite Hc.
    cbn [e_v v_st vset_st eset_v e_exit e_exiting e_execd e_initd].
    destruct st; cbn in *; subst; reflexivity.
Qed.

Lemma eng_exec_prepared : forall fuel rs c st ca w lg input,
  c_first c = None -> accepted_b input = true ->
  (reset_req c input = false \/ s_path st = []) -> stale st = false ->
  eng_exec fuel rs c (new_engine c (Some (st, ca)) w lg) input
  = eng_exec_inner fuel rs c (prep_engine c st ca w lg input).
Proof.
  intros fuel rs c st ca w lg input Hf Ha Hreset Hstale.
  unfold eng_exec. rewrite eng_init_prepared by assumption. cbn [negb].
  assert (Hreset' : (if c_reset_empty c && (len input =? 0)
                     then eng_reset_force c (init_engine c st ca w lg)
                     else (init_engine c st ca w lg, SOk)) = (init_engine c st ca w lg, SOk)).
  { destruct Hreset as [Hr|Hp].
    - unfold reset_req in Hr. rewrite Hr. reflexivity.
    - destruct (c_reset_empty c && (len input =? 0)); [|reflexivity].
      unfold eng_reset_force, init_engine. cbn [e_v v_st s_path set_code]. rewrite Hp. reflexivity. }
  rewrite Hreset'. rewrite accepted_valid by exact Ha. rewrite set_input_accepted by exact Ha.
  reflexivity.
Qed.

Lemma prep_code_cons : forall c st, exists x r, prep_code c st = x :: r.
Proof.
  intros c st. unfold prep_code. destruct (s_code st) as [|x r]; [|eauto].
  destruct (encode_move_cons (cfg_root c)) as (a & b & r & E). rewrite E. eauto.
Qed.

Lemma stale_terminated : forall st, getf st FLAG_TERMINATE = true -> stale st = false.
Proof. intros st H. unfold stale. rewrite H. destruct (s_code st); [destruct (s_path st)|]; reflexivity. Qed.
Lemma stale_no_path : forall st, s_path st = [] -> stale st = false.
Proof. intros st H. unfold stale. rewrite H. destruct (s_code st); reflexivity. Qed.

Lemma vm_render_clean : forall fuel rs sep lang v,
  getf (v_st v) FLAG_DIRTY = false -> vm_render fuel rs sep lang v = (v, RROk []).
Proof. intros. unfold vm_render. rewrite H. reflexivity. Qed.

(* ======================================================================================== *)
(* 9. C06: while TERMINATE is set in the stored session, requests are blocked                 *)
(* ======================================================================================== *)
(* what a blocked request stores: the session as it was, without pending code (the code, or
   the MOVE <root> injected for an empty one, is taken by exec and dropped when run returns
   with TERMINATE set) and without the input *)
Definition blocked_snap (st : state) (ca : cache) : snapshot := (set_input_raw (set_code st []) None, ca).

Lemma blocked_request : forall fuel rs c p input st ca,
  c_first c = None -> pw_store p = Some (st, ca) ->
  getf st FLAG_TERMINATE = true -> getf st FLAG_DIRTY = false ->
  accepted_b input = true -> (reset_req c input = false \/ s_path st = []) ->
  request_persisted (S fuel) rs c p input
  = (mkPw (Some (blocked_snap st ca)) (pw_w p) (pw_log p) (pw_taint p), mkResp false SOk [] FOk).
Proof.
  intros fuel rs c p input st ca Hf Hs Ht Hd Ha Hreset.
  unfold request_persisted. rewrite Hs.
  rewrite eng_exec_prepared by (try assumption; apply stale_terminated; exact Ht).
  unfold eng_exec_inner, prep_engine. cbn [e_v v_st e_initd e_exit e_exiting].
  unfold prep_state at 1. cbn [s_code set_input_raw set_code].
  destruct (prep_code_cons c st) as (x & r & Hc). rewrite Hc.
  rewrite run_terminate_blocks by exact Ht.
  cbn [v_st vset_st]. change (getf (set_code (prep_state c st input) []) FLAG_TERMINATE) with (getf st FLAG_TERMINATE).
  rewrite Ht. unfold eng_flush. cbn [e_execd negb e_v v_st vset_st].
  rewrite vm_render_clean by exact Hd.
  cbn [e_exit e_exiting eset_v len List.length N.of_nat]. rewrite andb_false_r. cbn [andb List.app].
  unfold eng_finish. cbn [e_initd e_v v_st v_ca v_w v_log v_taint vset_st]. rewrite orb_false_r.
  unfold blocked_snap, snap_of, prep_state. reflexivity.
Qed.

(* histories of persisted requests *)
Fixpoint requests (fuel : nat) (rs : rsrc) (c : config) (p : pworld) (inputs : list bytes) : pworld * list response :=
  match inputs with
  | [] => (p, [])
  | i :: r =>
    let '(p1, resp) := request_persisted fuel rs c p i in
    let '(p2, resps) := requests fuel rs c p1 r in
    (p2, resp :: resps)
  end.

Lemma blocked_snap_idem : forall st ca, blocked_snap (fst (blocked_snap st ca)) (snd (blocked_snap st ca)) = blocked_snap st ca.
Proof. reflexivity. Qed.

Lemma blocked_until_cleared : forall fuel rs c inputs p st ca,
  c_first c = None -> pw_store p = Some (st, ca) ->
  getf st FLAG_TERMINATE = true -> getf st FLAG_DIRTY = false ->
  Forall (fun i => accepted_b i = true /\ (reset_req c i = false \/ s_path st = [])) inputs ->
  inputs <> [] ->
  requests (S fuel) rs c p inputs
  = (mkPw (Some (blocked_snap st ca)) (pw_w p) (pw_log p) (pw_taint p),
     map (fun _ => mkResp false SOk [] FOk) inputs).
Proof.
  intros fuel rs c inputs. induction inputs as [|i r IH]; intros p st ca Hf Hs Ht Hd Hall Hne; [congruence|].
  inversion Hall as [|i' r' [Ha Hr] Hall']; subst. cbn [requests map].
  rewrite (blocked_request fuel rs c p i st ca) by assumption.
  destruct r as [|j r]; [reflexivity|].
  rewrite (IH (mkPw (Some (blocked_snap st ca)) (pw_w p) (pw_log p) (pw_taint p))
              (set_input_raw (set_code st []) None) ca); try assumption; try reflexivity; try discriminate.
Qed.

(* ======================================================================================== *)
(* 10. C20: the engine's reset at a graceful end                                              *)
(* ======================================================================================== *)
Lemma pops_failed : forall k ca e, cache_pop ca = Err e -> pops k ca = ca.
Proof. intros [|k] ca e H; cbn [pops]; [reflexivity|]. rewrite H. reflexivity. Qed.

Lemma pops_step : forall k ca,
  pops k (match cache_pop ca with Ok c => c | _ => ca end) = pops (S k) ca.
Proof.
  intros k ca. cbn [pops]. destruct (cache_pop ca) as [c|e|n] eqn:Hp; [reflexivity| |].
  - eapply pops_failed. exact Hp.
  - pose proof (pop_never_panics ca) as H. rewrite Hp in H. discriminate.
Qed.

(* unwind pops every level, the entry node included *)
Lemma unwind_all : forall n fuel st ca,
  List.length (s_path st) = S n -> (S n <= fuel)%nat ->
  unwind fuel st ca = (set_path_idx st [] 0, pops (S n) ca, SOk).
Proof.
  induction n as [|n IH]; intros fuel st ca Hl Hf; (destruct fuel as [|fuel]; [lia|]); cbn [unwind].
  - destruct (s_path st) as [|x [|y p]] eqn:Hp; try discriminate.
    unfold st_top, st_up. rewrite Hp. cbn [removelast]. rewrite <- pops_step. reflexivity.
  - destruct (s_path st) as [|x [|y p]] eqn:Hp; try discriminate.
    unfold st_top, st_up. rewrite Hp.
    rewrite (IH fuel (set_path_idx st (removelast (x :: y :: p)) 0)).
    + rewrite pops_step. reflexivity.
    + cbn [s_path set_path_idx]. pose proof (length_removelast (x :: y :: p)) as H.
      cbn [List.length] in *. assert (x :: y :: p <> []) by discriminate. lia.
    + lia.
Qed.

Lemma unwind_empty : forall fuel st ca, s_path st = [] -> unwind (S fuel) st ca = (st, ca, SErr EGen None).
Proof. intros fuel st ca H. cbn [unwind]. unfold st_top. rewrite H. reflexivity. Qed.

(* the machine after the reset that follows the final flush *)
Definition ended (v : vmst) : vmst :=
  vset_ca (vset_st v (resetf (resetf (set_path_idx (v_st v) [] 0) FLAG_TERMINATE) FLAG_DIRTY))
          (pops (List.length (s_path (v_st v))) (v_ca v)).

Lemma eng_reset_inner_ok : forall v, s_path (v_st v) <> [] -> eng_reset_inner v = (ended v, SOk).
Proof.
  intros v Hp. unfold eng_reset_inner.
  destruct (List.length (s_path (v_st v))) as [|n] eqn:Hl; [destruct (s_path (v_st v)); [congruence|discriminate]|].
  rewrite (unwind_all n) by (try exact Hl; lia).
  unfold st_restart. cbn [s_path set_path_idx]. unfold ended. rewrite Hl. reflexivity.
Qed.
Lemma eng_reset_inner_empty : forall v, s_path (v_st v) = [] ->
  eng_reset_inner v = (vset_ca (vset_st v (v_st v)) (v_ca v), SErr EGen None).
Proof. intros v Hp. unfold eng_reset_inner. rewrite Hp. cbn [List.length]. rewrite unwind_empty by exact Hp. reflexivity. Qed.

(* what the reset keeps and what it clears *)
Lemma ended_state : forall v,
  s_path (v_st (ended v)) = [] /\ s_idx (v_st (ended v)) = 0
  /\ s_code (v_st (ended v)) = s_code (v_st v) /\ s_lang (v_st (ended v)) = s_lang (v_st v)
  /\ getf (v_st (ended v)) FLAG_TERMINATE = false /\ getf (v_st (ended v)) FLAG_DIRTY = false
  /\ (forall i, i <> FLAG_TERMINATE -> i <> FLAG_DIRTY -> getf (v_st (ended v)) i = getf (v_st v) i).
Proof.
  intros v. unfold ended. cbn [v_st vset_ca vset_st].
  repeat split.
  - rewrite getf_resetf_other by (vm_compute; discriminate). apply getf_resetf_same.
  - apply getf_resetf_same.
  - intros i H1 H2. rewrite !getf_resetf_other by assumption. reflexivity.
Qed.

(* the cache: down to the base scope *)
Lemma cache_pop_frames : forall ca f0 r t,
  c_frames ca = f0 :: r ++ [t] -> exists ca', cache_pop ca = Ok ca' /\ c_frames ca' = f0 :: r.
Proof.
  intros ca f0 r t H. unfold cache_pop. rewrite H.
  change (f0 :: r ++ [t]) with ((f0 :: r) ++ [t]). rewrite rev_app_distr. cbn [rev List.app].
  eexists. split; [reflexivity|]. cbn [c_frames].
  change (rev r ++ [f0]) with (rev (f0 :: r)). rewrite rev_involutive. reflexivity.
Qed.

Lemma pops_to_base : forall n ca f0 r,
  CInv ca -> c_frames ca = f0 :: r -> List.length r = n ->
  CInv (pops n ca) /\ c_frames (pops n ca) = [f0] /\ c_size (pops n ca) = c_size ca.
Proof.
  induction n as [|n IH]; intros ca f0 r Hinv Hf Hl.
  - destruct r; [|discriminate]. cbn [pops]. auto.
  - assert (Hne : r <> []) by (destruct r; [discriminate|discriminate]).
    destruct (exists_last Hne) as (r' & t & ->).
    destruct (cache_pop_frames ca f0 r' t Hf) as (ca' & Hp & Hf').
    cbn [pops]. rewrite Hp.
    destruct (cache_pop_spec ca ca' Hinv Hp) as (Hinv' & Hsz & _).
    destruct (IH ca' f0 r' Hinv' Hf') as (H1 & H2 & H3).
    { rewrite app_length in Hl. cbn [List.length] in Hl. lia. }
    rewrite H3, Hsz. auto.
Qed.

(* session invariant at the point of the reset: one cache scope per level plus the base scope,
   the cache's own invariant, and nothing stored in the base scope *)
Definition end_inv (st : state) (ca : cache) : Prop :=
  nav_inv st ca /\ CInv ca /\ hd_error (c_frames ca) = Some [].

Lemma ended_cache : forall v, end_inv (v_st v) (v_ca v) ->
  c_frames (v_ca (ended v)) = [[]] /\ c_use (v_ca (ended v)) = 0
  /\ cache_levels (v_ca (ended v)) = 1 /\ c_size (v_ca (ended v)) = c_size (v_ca v) /\ CInv (v_ca (ended v)).
Proof.
  intros v (Hnav & Hinv & Hbase). unfold ended. cbn [v_ca vset_ca].
  destruct (c_frames (v_ca v)) as [|f0 r] eqn:Hf; [discriminate|]. injection Hbase as ->.
  assert (Hl : List.length r = List.length (s_path (v_st v))).
  { unfold nav_inv, cache_levels, len in Hnav. rewrite Hf in Hnav. cbn [List.length] in Hnav. lia. }
  destruct (pops_to_base _ _ _ _ Hinv Hf Hl) as (H1 & H2 & H3).
  split; [exact H2|]. split.
  - rewrite (inv_use _ H1), H2. reflexivity.
  - split; [unfold cache_levels; rewrite H2; reflexivity|]. split; [exact H3|exact H1].
Qed.

(* ======================================================================================== *)
(* 11. C20: graceful end                                                                      *)
(* ======================================================================================== *)
(* the exit-size check of Flush, exactly as the code has it *)
Definition size_overflow (c : config) (exit page : bytes) : bool :=
  (0 <? c_out c) && (0 <? len exit) && (c_out c <? w32 (len exit + len page)).

(* the machine handed to Flush at a graceful end: no pending code, last value taken *)
Definition exiting_vm (v1 : vmst) : vmst :=
  vset_ca (vset_st v1 (set_code (v_st v1) [])) (snd (cache_last (v_ca v1))).

Lemma graceful_exec_inner : forall fuel rs c e x code v1,
  s_code (v_st (e_v e)) = x :: code ->
  run fuel rs (c_sep c) (s_lang (v_st (e_v e))) (x :: code) (vset_st (e_v e) (set_code (v_st (e_v e)) [])) = (v1, [], SOk) ->
  getf (v_st v1) FLAG_TERMINATE = false -> flag_in_range (v_st (e_v e)) FLAG_DIRTY = true ->
  eng_exec_inner fuel rs c e
  = (mkEng (exiting_vm v1) (e_initd e) (c_last (v_ca v1)) true true, false, SOk)
  /\ getf (v_st v1) FLAG_DIRTY = true.
Proof.
  intros fuel rs c e x code v1 Hc Hrun Ht Hr.
  assert (Hd : getf (v_st v1) FLAG_DIRTY = true).
  { eapply run_sets_dirty; [exact Hrun|discriminate|exact Ht|]. cbn [v_st vset_st]. exact Hr. }
  split; [|exact Hd].
  unfold eng_exec_inner. rewrite Hc. cbn [v_st vset_st s_lang set_code].
  cbn [v_st vset_st s_lang set_code] in Hrun. rewrite Hrun, Ht.
  unfold set_code_eng. cbn [e_v v_st].
  change (getf (set_code (v_st v1) []) FLAG_DIRTY) with (getf (v_st v1) FLAG_DIRTY). rewrite Hd.
  reflexivity.
Qed.

Lemma graceful_flush : forall fuel rs c e v' page,
  e_execd e = true -> e_exiting e = true ->
  vm_render fuel rs (c_sep c) (s_lang (v_st (e_v e))) (e_v e) = (v', RROk page) ->
  s_path (v_st v') <> [] ->
  eng_flush fuel rs c e =
    if size_overflow c (e_exit e) page
    then (mkEng (ended v') (e_initd e) (e_exit e) false true, [], FErr EGen)
    else (mkEng (ended v') (e_initd e) (e_exit e) false true, page ++ e_exit e, FOk).
Proof.
  intros fuel rs c e v' page Hx Hq Hr Hp. unfold eng_flush. rewrite Hx. cbn [negb]. rewrite Hr.
  cbn [eset_v e_exit e_exiting e_v e_initd e_execd]. rewrite Hq, ?Hx.
  rewrite eng_reset_inner_ok by exact Hp. unfold size_overflow.
  destruct ((0 <? c_out c) && (0 <? len (e_exit e)) && (c_out c <? w32 (len (e_exit e) + len page))); [reflexivity|].
  destruct (e_exit e); reflexivity.
Qed.

Lemma request_persisted_prepared : forall fuel rs c p input st ca,
  c_first c = None -> pw_store p = Some (st, ca) -> accepted_b input = true ->
  (reset_req c input = false \/ s_path st = []) -> stale st = false ->
  request_persisted fuel rs c p input =
  let '(e1, cont, s) := eng_exec_inner fuel rs c (prep_engine c st ca (pw_w p) (pw_log p) input) in
  match s with
  | SPanic n => (mkPw (Some (st, ca)) (v_w (e_v e1)) (v_log (e_v e1)) (pw_taint p || v_taint (e_v e1)), mkResp cont s [] (FPanic n))
  | SFuel => (mkPw (Some (st, ca)) (v_w (e_v e1)) (v_log (e_v e1)) (pw_taint p || v_taint (e_v e1)), mkResp cont s [] FFuel)
  | _ =>
    let '(e2, out, f) := eng_flush fuel rs c e1 in
    match f with
    | FPanic _ | FFuel =>
      (mkPw (Some (st, ca)) (v_w (e_v e2)) (v_log (e_v e2)) (pw_taint p || v_taint (e_v e2)), mkResp cont s out f)
    | _ =>
      (mkPw (match eng_finish e2 with Some sn => Some sn | None => Some (st, ca) end)
            (v_w (e_v e2)) (v_log (e_v e2)) (pw_taint p || v_taint (e_v e2)), mkResp cont s out f)
    end
  end.
Proof.
  intros fuel rs c p input st ca Hf Hs Ha Hreset Hstale. unfold request_persisted. rewrite Hs.
  rewrite eng_exec_prepared by assumption. reflexivity.
Qed.

(* all eight built-in flags exist (flag field of at least one byte) *)
Definition builtin_flags_ok (st : state) : Prop := flag_in_range st FLAG_LANG = true.
Lemma builtin_in_range : forall st i, builtin_flags_ok st -> i <= FLAG_LANG -> flag_in_range st i = true.
Proof. intros st i H Hi. eapply flag_in_range_below; [exact Hi|vm_compute; reflexivity|exact H]. Qed.

(* the whole request at a graceful end *)
Lemma graceful_end_request : forall fuel rs c p input st ca v1 v' page,
  c_first c = None -> pw_store p = Some (st, ca) -> accepted_b input = true ->
  (reset_req c input = false \/ s_path st = []) -> stale st = false ->
  builtin_flags_ok st ->
  (* the pending code (or MOVE <root>) ran until no code was left, without error, TERMINATE clear *)
  run fuel rs (c_sep c) (s_lang st) (prep_code c st)
      (mkVm (set_code (prep_state c st input) []) ca (new_vm_page (c_out c) (c_sep c)) (pw_w p) (pw_log p) false) = (v1, [], SOk) ->
  getf (v_st v1) FLAG_TERMINATE = false ->
  (* the final page renders *)
  vm_render fuel rs (c_sep c) (s_lang (v_st v1)) (exiting_vm v1) = (v', RROk page) ->
  s_path (v_st v') <> [] ->
  ended_on_halt v1 /\ getf (v_st v1) FLAG_DIRTY = true /\
  request_persisted fuel rs c p input =
    (mkPw (Some (snap_of (v_st (ended v')) (v_ca (ended v')))) (v_w v') (v_log v') (pw_taint p || v_taint v'),
     if size_overflow c (c_last (v_ca v1)) page
     then mkResp false SOk [] (FErr EGen)
     else mkResp false SOk (page ++ c_last (v_ca v1)) FOk).
Proof.
  intros fuel rs c p input st ca v1 v' page Hf Hs Ha Hreset Hstale Hb Hrun Ht Hrender Hp.
  split.
  { destruct (run_end_cases _ _ _ _ _ _ _ Hrun) as [H|H]; [|congruence|exact H].
    cbn [v_st]. apply (builtin_in_range st); [exact Hb|vm_compute; discriminate]. }
  destruct (prep_code_cons c st) as (x & code & Hc).
  destruct (graceful_exec_inner fuel rs c (prep_engine c st ca (pw_w p) (pw_log p) input) x code v1) as [Hexec Hd].
  { unfold prep_engine, prep_state. cbn [e_v v_st s_code set_input_raw set_code]. exact Hc. }
  { unfold prep_engine. cbn [e_v v_st vset_st]. rewrite <- Hc.
    change (s_lang (prep_state c st input)) with (s_lang st). exact Hrun. }
  { exact Ht. }
  { unfold prep_engine. cbn [e_v v_st]. apply (builtin_in_range st); [exact Hb|vm_compute; discriminate]. }
  split; [exact Hd|].
  rewrite (request_persisted_prepared fuel rs c p input st ca) by assumption.
  rewrite Hexec.
  rewrite (graceful_flush fuel rs c _ v' page); try reflexivity; try exact Hp.
  2:{ cbn [e_v]. change (s_lang (v_st (exiting_vm v1))) with (s_lang (v_st v1)). exact Hrender. }
  cbn [e_exit e_initd]. unfold prep_engine at 1 2. cbn [e_initd].
  destruct (size_overflow c (c_last (v_ca v1)) page); unfold eng_finish; cbn [e_initd e_v];
    change (v_w (ended v')) with (v_w v'); change (v_log (ended v')) with (v_log v');
    change (v_taint (ended v')) with (v_taint v'); reflexivity.
Qed.

Lemma vm_render_shape : forall fuel rs sep lang v v' r,
  vm_render fuel rs sep lang v = (v', r) -> same_shape (v_st v) (v_st v').
Proof.
  intros fuel rs sep lang v v' r H. unfold vm_render in H.
  destruct (negb (getf (v_st v) FLAG_DIRTY)); [injection H as <- _; apply shape_refl|]. cbv zeta in H.
  cbn [v_st vset_st] in H.
  destruct (where_sym _) as [|x l]; [injection H as <- _; apply shape_resetf|].
  destruct (page_render _ _ _ _ _ _) as [r0 pg'].
  assert (Hdone : forall r1, (vlog (vset_pg (vset_st v (resetf (v_st v) FLAG_DIRTY)) pg') (EvRender (x :: l) (s_idx (resetf (v_st v) FLAG_DIRTY)) lang), r1) = (v', r) ->
                             same_shape (v_st v) (v_st v')).
  { intros r1 E. injection E as <- _. apply shape_resetf. }
  destruct r0 as [o|e|n]; try (eapply Hdone; exact H).
  destruct e; try (eapply Hdone; exact H).
  destruct (run fuel rs sep lang move_catch_code _) as [[v1 b1] s1] eqn:Hrun.
  apply run_shape in Hrun. cbn [v_st vset_pg vlog vset_st] in Hrun.
  assert (Hs : same_shape (v_st v) (v_st v1)) by (eapply shape_trans; [apply shape_resetf|exact Hrun]).
  destruct s1; try (injection H as <- _; exact Hs).
  - destruct (page_render _ _ _ _ _ _) as [r1 pg1]. injection H as <- _. exact Hs.
  - destruct (page_render _ _ _ _ _ _) as [r1 pg1]. injection H as <- _. exact Hs.
Qed.

(* the session stored at a graceful end has no pending code: the next request starts over *)
Lemma graceful_end_stored_code : forall fuel rs sep lang v1 v' r,
  vm_render fuel rs sep lang (exiting_vm v1) = (v', r) -> s_code (v_st (ended v')) = [].
Proof.
  intros fuel rs sep lang v1 v' r H. apply vm_render_shape in H. destruct H as (_ & _ & H & _).
  destruct (ended_state v') as (_ & _ & Hc & _). rewrite Hc, <- H. reflexivity.
Qed.

(* ======================================================================================== *)
(* 12. C20: the next request starts at the entry node                                         *)
(* ======================================================================================== *)
(* the machine after MOVE <root> from the empty position: one level, a fresh cache scope, the
   page reset *)
Definition at_root (rs : rsrc) (sep root : bytes) (v : vmst) : vmst :=
  let v0 := vlog (pre_vm v) (EvInstr op_MOVE) in
  let v1 := vlog (vset_ca (vset_st v0 (set_path_idx (v_st v0) [root] 0)) (cache_push (v_ca v0))) (EvMove 0 root root) in
  let v2 := if rs_observed rs then vlog v1 (EvCode root) else v1 in
  vset_pg v2 (vm_reset sep (v_pg v2)).

Lemma at_root_facts : forall rs sep root v,
  s_path (v_st (at_root rs sep root v)) = [root] /\ s_idx (v_st (at_root rs sep root v)) = 0
  /\ v_ca (at_root rs sep root v) = cache_push (v_ca v)
  /\ s_flags (v_st (at_root rs sep root v)) = s_flags (pre_st (v_st v)).
Proof. intros rs sep root v. unfold at_root. cbv zeta. destruct (rs_observed rs); cbn; auto. Qed.

Lemma move_root_from_empty : forall rs sep root b v,
  valid_sym_b root = true -> s_path (v_st v) = [] ->
  run_move rs sep root b v =
  let v1 := vlog (vset_ca (vset_st v (set_path_idx (v_st v) [root] 0)) (cache_push (v_ca v))) (EvMove 0 root root) in
  let v2 := if rs_observed rs then vlog v1 (EvCode root) else v1 in
  match rs_code rs root with
  | Ok code => (vset_pg v2 (vm_reset sep (v_pg v2)), b ++ code, SOk)
  | Err e => (v2, b, SErr e None)
  | Panic n => (v2, b, SPanic n)
  end.
Proof.
  intros rs sep root b v Hv Hp. unfold run_move. rewrite apply_named by exact Hv. unfold do_named.
  rewrite Hp. change (MaxLevel + 1 <=? len []) with false. cbv iota.
  unfold where_sym. rewrite Hp. cbn [last].
  assert (Hne : bytes_eqb [] root = false).
  { pose proof (valid_sym_len root Hv) as Hl. destruct root; [cbn in Hl; lia|reflexivity]. }
  rewrite Hne. unfold st_down. rewrite Hp. change (MaxLevel <? len []) with false. cbv iota.
  unfold fetch_code. destruct (rs_observed rs); destruct (rs_code rs root); reflexivity.
Qed.

Lemma run_move_root : forall fuel rs sep lang root v x code,
  wf_sym root -> valid_sym_b root = true ->
  getf (v_st v) FLAG_TERMINATE = false -> s_path (v_st v) = [] ->
  rs_code rs root = Ok (x :: code) ->
  run (S fuel) rs sep lang (encode (IMove root)) v
  = run fuel rs sep (pre_lang lang (v_st v)) (x :: code) (at_root rs sep root v).
Proof.
  intros fuel rs sep lang root v x code Hwf Hv Ht Hp Hc.
  rewrite <- (app_nil_r (encode (IMove root))).
  rewrite run_S_encoded by (cbn [wf_instr]; assumption). cbv zeta. cbn [opcode_of exec_instr].
  change (op_MOVE =? op_HALT) with false. cbv iota.
  rewrite move_root_from_empty; [|exact Hv|].
  2:{ cbn [v_st vlog]. rewrite v_st_pre_vm. pose proof (pre_st_sbf (v_st v)) as (_ & H & _). rewrite <- H. exact Hp. }
  cbv zeta. rewrite Hc. cbn [List.app err_check after_check]. reflexivity.
Qed.

(* ... and when the entry node halts at once, the request ends there *)
Lemma run_move_root_halt : forall fuel rs sep lang root v rest,
  wf_sym root -> valid_sym_b root = true ->
  getf (v_st v) FLAG_TERMINATE = false -> s_path (v_st v) = [] ->
  rs_code rs root = Ok (encode IHalt ++ rest) ->
  exists v', run (S (S fuel)) rs sep lang (encode (IMove root)) v = (v', rest, SOk)
    /\ s_path (v_st v') = [root] /\ s_idx (v_st v') = 0
    /\ v_ca v' = cache_push (v_ca v) /\ getf (v_st v') FLAG_TERMINATE = false.
Proof.
  intros fuel rs sep lang root v rest Hwf Hv Ht Hp Hc.
  destruct (encode_shape IHalt) as (a & b & t & He).
  assert (Hc' : rs_code rs root = Ok (a :: (b :: t) ++ rest)) by (rewrite Hc, He; reflexivity).
  rewrite (run_move_root _ _ _ _ _ _ _ _ Hwf Hv Ht Hp Hc').
  change (a :: (b :: t) ++ rest) with ((a :: b :: t) ++ rest). rewrite <- He.
  destruct (at_root_facts rs sep root v) as (F1 & F2 & F3 & F4).
  assert (Ht1 : getf (v_st (at_root rs sep root v)) FLAG_TERMINATE = false).
  { unfold getf. rewrite F4. fold (getf (pre_st (v_st v)) FLAG_TERMINATE).
    rewrite getf_pre_st_other by (vm_compute; discriminate). exact Ht. }
  rewrite run_halt by exact Ht1. eexists. split; [reflexivity|]. cbv zeta. cbn [v_st vset_st vlog v_ca vset_st].
  rewrite v_st_pre_vm, v_ca_pre_vm.
  pose proof (pre_st_sbf (v_st (at_root rs sep root v))) as (_ & Hpath & _ & Hidx & _).
  split; [cbn [s_path setf set_flags]; rewrite <- Hpath; exact F1|].
  split; [cbn [s_idx setf set_flags]; rewrite <- Hidx; exact F2|].
  split; [exact F3|].
  rewrite getf_setf_other by (vm_compute; discriminate).
  rewrite getf_pre_st_other by (vm_compute; discriminate). exact Ht1.
Qed.

(* engine level: a stored session without position and code (as a graceful end leaves it) *)
Lemma restart_at_entry : forall fuel rs c st ca w lg input,
  c_first c = None -> accepted_b input = true -> s_code st = [] -> s_path st = [] ->
  eng_exec fuel rs c (new_engine c (Some (st, ca)) w lg) input
  = eng_exec_inner fuel rs c (prep_engine c st ca w lg input)
  /\ s_code (v_st (e_v (prep_engine c st ca w lg input))) = encode (IMove (cfg_root c))
  /\ s_path (v_st (e_v (prep_engine c st ca w lg input))) = []
  /\ v_ca (e_v (prep_engine c st ca w lg input)) = ca
  /\ s_flags (v_st (e_v (prep_engine c st ca w lg input))) = s_flags st.
Proof.
  intros fuel rs c st ca w lg input Hf Ha Hc Hp. split.
  - apply eng_exec_prepared; try assumption; [right; exact Hp|apply stale_no_path; exact Hp].
  - unfold prep_engine, prep_state, prep_code. cbn [e_v v_st v_ca s_code s_path s_flags set_input_raw set_code].
    rewrite Hc. auto.
Qed.

Lemma restart_at_entry_halting_root : forall fuel rs c st ca w lg input rest,
  c_first c = None -> accepted_b input = true -> s_code st = [] -> s_path st = [] ->
  getf st FLAG_TERMINATE = false ->
  wf_sym (cfg_root c) -> valid_sym_b (cfg_root c) = true ->
  rs_code rs (cfg_root c) = Ok (encode IHalt ++ rest) ->
  exists e', eng_exec (S (S fuel)) rs c (new_engine c (Some (st, ca)) w lg) input = (e', match rest with [] => false | _ => true end, SOk)
    /\ s_path (v_st (e_v e')) = [cfg_root c] /\ s_idx (v_st (e_v e')) = 0
    /\ s_code (v_st (e_v e')) = rest
    /\ c_frames (v_ca (e_v e')) = c_frames ca ++ [[]].
Proof.
  intros fuel rs c st ca w lg input rest Hf Ha Hc Hp Ht Hwf Hv Hroot.
  destruct (restart_at_entry (S (S fuel)) rs c st ca w lg input Hf Ha Hc Hp) as (He & Hcode & Hpath & _). rewrite He.
  unfold eng_exec_inner. cbv zeta. rewrite Hcode.
  destruct (encode_move_cons (cfg_root c)) as (a & b & r & E). rewrite E. rewrite <- E.
  destruct (run_move_root_halt fuel rs (c_sep c)
              (s_lang (v_st (vset_st (e_v (prep_engine c st ca w lg input)) (set_code (v_st (e_v (prep_engine c st ca w lg input))) []))))
              (cfg_root c)
              (vset_st (e_v (prep_engine c st ca w lg input)) (set_code (v_st (e_v (prep_engine c st ca w lg input))) []))
              rest Hwf Hv) as (v' & Hrun & F1 & F2 & F3 & F4); [exact Ht|exact Hpath|exact Hroot|].
  rewrite Hrun, F4.
  unfold set_code_eng. cbn [e_v v_st]. cbn [v_ca vset_st] in F3.
  change (v_ca (e_v (prep_engine c st ca w lg input))) with ca in F3.
  destruct rest as [|y rest].
  - destruct (getf (set_code (v_st v') []) FLAG_DIRTY).
    + destruct (cache_last (v_ca v')) as [lastv ca'] eqn:Hl. eexists. split; [reflexivity|].
      cbn [e_v v_st vset_ca vset_st v_ca s_path s_idx s_code set_code].
      unfold cache_last in Hl. injection Hl as _ <-. cbn [c_frames]. rewrite F3. auto.
    + eexists. split; [reflexivity|]. cbn [e_v eset_v v_st vset_st v_ca s_path s_idx s_code set_code]. rewrite F3. auto.
  - eexists. split; [reflexivity|]. cbn [e_v eset_v v_st vset_st v_ca s_path s_idx s_code set_code]. rewrite F3. auto.
Qed.

(* ======================================================================================== *)
(* 13. C20: abnormal end                                                                      *)
(* ======================================================================================== *)
(* one instruction that is not HALT leaves no code while no input is being handled: the loop
   sets TERMINATE (runDeadCheck) *)
Lemma run_out_of_code_terminates : forall fuel rs sep lang i v v1,
  wf_instr i -> opcode_of i <> op_HALT -> getf (v_st v) FLAG_TERMINATE = false ->
  exec_instr rs sep (pre_lang lang (v_st v)) i [] (vlog (pre_vm v) (EvInstr (opcode_of i))) = (v1, [], SOk) ->
  getf (v_st v1) FLAG_READIN = false ->
  run (S fuel) rs sep lang (encode i) v = (vset_st v1 (setf (v_st v1) FLAG_TERMINATE), [], SOk).
Proof.
  intros fuel rs sep lang i v v1 Hwf Hop Ht He Hr.
  rewrite <- (app_nil_r (encode i)). rewrite run_S_encoded by assumption. cbv zeta. rewrite He.
  apply N.eqb_neq in Hop. rewrite Hop. cbn [err_check after_check].
  rewrite dead_check_terminates by exact Hr. reflexivity.
Qed.

(* rendering while TERMINATE is set cannot move or run anything: at most DIRTY is cleared *)
Lemma vm_render_terminated : forall fuel rs sep lang v v' r,
  getf (v_st v) FLAG_TERMINATE = true -> vm_render (S fuel) rs sep lang v = (v', r) ->
  v_st v' = resetf (v_st v) FLAG_DIRTY /\ v_ca v' = v_ca v /\ v_w v' = v_w v /\ r <> RRFuel.
Proof.
  intros fuel rs sep lang v v' r Ht H. unfold vm_render in H.
  destruct (negb (getf (v_st v) FLAG_DIRTY)) eqn:Hd.
  { injection H as <- <-. rewrite resetf_id by (destruct (getf (v_st v) FLAG_DIRTY); [discriminate|reflexivity]).
    repeat split. discriminate. }
  cbv zeta in H. cbn [v_st vset_st] in H.
  destruct (where_sym _) as [|x l]; [injection H as <- <-; repeat split; discriminate|].
  destruct (page_render _ _ _ _ _ _) as [r0 pg'].
  assert (Hdone : forall r1, r1 <> RRFuel ->
     (vlog (vset_pg (vset_st v (resetf (v_st v) FLAG_DIRTY)) pg') (EvRender (x :: l) (s_idx (resetf (v_st v) FLAG_DIRTY)) lang), r1) = (v', r) ->
     v_st v' = resetf (v_st v) FLAG_DIRTY /\ v_ca v' = v_ca v /\ v_w v' = v_w v /\ r <> RRFuel).
  { intros r1 Hne E. injection E as <- <-. repeat split. exact Hne. }
  destruct r0 as [o|e|n]; try (eapply Hdone; [|exact H]; discriminate).
  destruct e; try (eapply Hdone; [|exact H]; discriminate).
  rewrite run_terminate_blocks in H.
  2:{ cbn [v_st vset_pg vlog vset_st]. rewrite getf_resetf_other by (vm_compute; discriminate). exact Ht. }
  destruct (page_render _ _ _ _ _ _) as [r1 pg1]. injection H as <- <-. cbn [v_st v_ca v_w vlog vset_pg vset_st].
  repeat split. destruct r1; discriminate.
Qed.

(* the whole request at an abnormal end: stop is reported, and unless rendering panics the
   stored session has TERMINATE set and DIRTY clear, position and cache as the run left them *)
Lemma abnormal_end_request : forall fuel rs c p input st ca v1 b,
  c_first c = None -> pw_store p = Some (st, ca) -> accepted_b input = true ->
  (reset_req c input = false \/ s_path st = []) -> stale st = false ->
  run fuel rs (c_sep c) (s_lang st) (prep_code c st)
      (mkVm (set_code (prep_state c st input) []) ca (new_vm_page (c_out c) (c_sep c)) (pw_w p) (pw_log p) false) = (v1, b, SOk) ->
  getf (v_st v1) FLAG_TERMINATE = true ->
  exists p' resp, request_persisted fuel rs c p input = (p', resp)
    /\ r_cont resp = false /\ r_exec resp = SOk
    /\ ((exists n, r_flush resp = FPanic n) \/
        (pw_store p' = Some (snap_of (resetf (v_st v1) FLAG_DIRTY) (v_ca v1))
         /\ s_code (v_st v1) = [] /\ r_flush resp <> FFuel)).
Proof.
  intros fuel rs c p input st ca v1 b Hf Hs Ha Hreset Hstale Hrun Ht.
  destruct fuel as [|fuel]; [rewrite run_O in Hrun; discriminate|].
  assert (Hcode : s_code (v_st v1) = []).
  { apply run_shape in Hrun. destruct Hrun as (_ & _ & H & _). rewrite <- H. reflexivity. }
  rewrite (request_persisted_prepared (S fuel) rs c p input st ca) by assumption.
  destruct (prep_code_cons c st) as (x & code & Hc).
  assert (Hcode0 : s_code (v_st (e_v (prep_engine c st ca (pw_w p) (pw_log p) input))) = prep_code c st) by reflexivity.
  unfold eng_exec_inner. cbv zeta. rewrite Hcode0, Hc. rewrite <- Hc.
  change (run (S fuel) rs (c_sep c) _ (prep_code c st) _)
    with (run (S fuel) rs (c_sep c) (s_lang st) (prep_code c st)
           (mkVm (set_code (prep_state c st input) []) ca (new_vm_page (c_out c) (c_sep c)) (pw_w p) (pw_log p) false)).
  rewrite Hrun, Ht. unfold prep_engine at 1 2. cbn [e_initd e_exit e_exiting].
  unfold eng_flush. cbn [e_execd negb e_v eset_v e_exit e_exiting e_initd].
  destruct (vm_render (S fuel) rs (c_sep c) (s_lang (v_st v1)) v1) as [vr r] eqn:Hrender.
  destruct (vm_render_terminated _ _ _ _ _ _ _ Ht Hrender) as (Hst & Hca & _ & Hnf).
  cbn [len List.length N.of_nat]. rewrite andb_false_r. cbn [andb].
  destruct r as [out|er|n|]; [| | |congruence].
  - do 2 eexists. split; [reflexivity|]. cbn [r_cont r_exec r_flush]. split; [reflexivity|]. split; [reflexivity|].
    right. unfold eng_finish. cbn [e_initd e_v pw_store eset_v]. rewrite Hst, Hca. split; [reflexivity|]. split; [exact Hcode|discriminate].
  - do 2 eexists. split; [reflexivity|]. cbn [r_cont r_exec r_flush]. split; [reflexivity|]. split; [reflexivity|].
    right. unfold eng_finish. cbn [e_initd e_v pw_store eset_v]. rewrite Hst, Hca. split; [reflexivity|]. split; [exact Hcode|discriminate].
  - do 2 eexists. split; [reflexivity|]. cbn [r_cont r_exec r_flush]. split; [reflexivity|]. split; [reflexivity|].
    left. eauto.
Qed.

(* ... and every later request of the session is blocked *)
Lemma abnormal_end_then_blocked : forall fuel rs c p input st ca v1 b p' resp inputs,
  c_first c = None -> pw_store p = Some (st, ca) -> accepted_b input = true ->
  (reset_req c input = false \/ s_path st = []) -> stale st = false ->
  run fuel rs (c_sep c) (s_lang st) (prep_code c st)
      (mkVm (set_code (prep_state c st input) []) ca (new_vm_page (c_out c) (c_sep c)) (pw_w p) (pw_log p) false) = (v1, b, SOk) ->
  getf (v_st v1) FLAG_TERMINATE = true ->
  request_persisted fuel rs c p input = (p', resp) ->
  (forall n, r_flush resp <> FPanic n) ->
  Forall (fun i => accepted_b i = true /\ reset_req c i = false) inputs -> inputs <> [] ->
  r_cont resp = false /\
  exists st', pw_store p' = Some (st', v_ca v1) /\ getf st' FLAG_TERMINATE = true /\
  requests fuel rs c p' inputs
  = (mkPw (Some (blocked_snap st' (v_ca v1))) (pw_w p') (pw_log p') (pw_taint p'),
     map (fun _ => mkResp false SOk [] FOk) inputs).
Proof.
  intros fuel rs c p input st ca v1 b p' resp inputs Hf Hs Ha Hreset Hstale Hrun Ht Hreq Hnp Hall Hne.
  destruct (abnormal_end_request fuel rs c p input st ca v1 b Hf Hs Ha Hreset Hstale Hrun Ht)
    as (p'' & resp' & Hreq' & Hc & _ & Hcases).
  rewrite Hreq in Hreq'. injection Hreq' as <- <-. split; [exact Hc|].
  destruct Hcases as [[n Hn]|(Hstore & _ & _)]; [exfalso; eapply Hnp; exact Hn|].
  destruct fuel as [|fuel]; [rewrite run_O in Hrun; discriminate|].
  eexists. split; [exact Hstore|].
  assert (Ht' : getf (set_input_raw (resetf (v_st v1) FLAG_DIRTY) None) FLAG_TERMINATE = true).
  { change (getf (resetf (v_st v1) FLAG_DIRTY) FLAG_TERMINATE = true).
    rewrite getf_resetf_other by (vm_compute; discriminate). exact Ht. }
  split; [exact Ht'|].
  apply blocked_until_cleared; try assumption.
  - change (getf (resetf (v_st v1) FLAG_DIRTY) FLAG_DIRTY = false). apply getf_resetf_same.
  - eapply Forall_impl; [|exact Hall]. intros i [H1 H2]. auto.
Qed.

(* ======================================================================================== *)
(* 14. reserved flags across whole requests and histories                                     *)
(* ======================================================================================== *)
(* "flag f stays clear through any run over rs" *)
Definition run_keeps (rs : rsrc) (f : N) : Prop :=
  forall fuel sep lang b v v' b' s,
    run fuel rs sep lang b v = (v', b', s) -> getf (v_st v) f = false -> getf (v_st v') f = false.
Definition first_keeps (c : config) (f : N) : Prop :=
  match c_first c with Some sc => run_keeps (first_rsrc sc) f | None => True end.

Lemma run_keeps_reserved : forall rs, run_keeps rs FLAG_RESERVED.
Proof. intros rs fuel sep lang b v v' b' s H H0. rewrite (run_reserved_const _ _ _ _ _ _ _ _ _ H). exact H0. Qed.
Lemma run_keeps_loadfail : forall rs, ~ can_fail rs -> run_keeps rs FLAG_LOADFAIL.
Proof.
  intros rs Hnf fuel sep lang b v v' b' s H H0.
  destruct (getf (v_st v') FLAG_LOADFAIL) eqn:E; [|reflexivity].
  exfalso. apply Hnf. eapply run_loadfail_needs_failure; [exact H|]. congruence.
Qed.

Lemma getf_resetf_keeps : forall s j f, getf s f = false -> getf (resetf s j) f = false.
Proof.
  intros s j f H. destruct (N.eq_dec f j) as [->|Hne]; [apply getf_resetf_same|].
  rewrite getf_resetf_other by exact Hne. exact H.
Qed.
Lemma getf_sbp : forall a b f, same_but_pos a b -> getf b f = getf a f.
Proof. intros a b f (_ & _ & H & _). unfold getf. rewrite H. reflexivity. Qed.

Lemma unwind_sbp : forall fuel st ca st' ca' s, unwind fuel st ca = (st', ca', s) -> same_but_pos st st'.
Proof.
  induction fuel as [|fuel IH]; intros st ca st' ca' s H; cbn [unwind] in H; [injection H as <- _ _; apply sbp_refl|].
  destruct (st_top st) as [t| |]; try (injection H as <- _ _; apply sbp_refl).
  destruct (st_up st) as [[sy st1]| |] eqn:Hu; try (injection H as <- _ _; apply sbp_refl).
  pose proof (st_up_sbp _ _ _ Hu) as H1.
  destruct t; [injection H as <- _ _; exact H1|]. eapply sbp_trans; [exact H1|eapply IH; exact H].
Qed.

Lemma falses_nth : forall n k, nth k (falses n) false = false.
Proof. induction n as [|n IH]; intros [|k]; cbn [falses nth]; auto. Qed.

Lemma st_restart_keeps : forall st st' f, f < 8 -> st_restart st = Ok st' -> getf st' f = false.
Proof.
  intros st st' f Hf H. unfold st_restart in H. destruct (s_path st); [discriminate|]. injection H as <-.
  unfold getf. cbn [s_flags]. assert (Hk : (N.to_nat f < 8)%nat) by lia.
  destruct (N.to_nat f) as [|[|[|[|[|[|[|[|k]]]]]]]]; try reflexivity. lia.
Qed.

Lemma eng_reset_inner_keeps : forall v v' s f, f < 8 ->
  eng_reset_inner v = (v', s) -> getf (v_st v) f = false -> getf (v_st v') f = false.
Proof.
  intros v v' s f Hf H H0. unfold eng_reset_inner in H.
  destruct (unwind _ (v_st v) (v_ca v)) as [[st ca] s1] eqn:Hu.
  pose proof (unwind_sbp _ _ _ _ _ _ Hu) as Hs.
  assert (H1 : getf st f = false) by (rewrite (getf_sbp _ _ f Hs); exact H0).
  destruct s1; try (injection H as <- _; exact H1).
  injection H as <- _. cbn [v_st vset_ca vset_st]. apply getf_resetf_keeps. apply getf_resetf_keeps.
  destruct (st_restart st) as [st2| |] eqn:Hr; try exact H1. eapply st_restart_keeps; eauto.
Qed.

Lemma vm_render_keeps : forall fuel rs sep lang v v' r f, run_keeps rs f ->
  vm_render fuel rs sep lang v = (v', r) -> getf (v_st v) f = false -> getf (v_st v') f = false.
Proof.
  intros fuel rs sep lang v v' r f Hk H H0. unfold vm_render in H.
  destruct (negb (getf (v_st v) FLAG_DIRTY)); [injection H as <- _; exact H0|]. cbv zeta in H.
  cbn [v_st vset_st] in H.
  assert (H1 : getf (resetf (v_st v) FLAG_DIRTY) f = false) by (apply getf_resetf_keeps; exact H0).
  destruct (where_sym _) as [|x l]; [injection H as <- _; exact H1|].
  destruct (page_render _ _ _ _ _ _) as [r0 pg'].
  assert (Hdone : forall r1, (vlog (vset_pg (vset_st v (resetf (v_st v) FLAG_DIRTY)) pg') (EvRender (x :: l) (s_idx (resetf (v_st v) FLAG_DIRTY)) lang), r1) = (v', r) ->
                             getf (v_st v') f = false).
  { intros r1 E. injection E as <- _. exact H1. }
  destruct r0 as [o|e|n]; try (eapply Hdone; exact H).
  destruct e; try (eapply Hdone; exact H).
  destruct (run fuel rs sep lang move_catch_code _) as [[v1 b1] s1] eqn:Hrun.
  pose proof (Hk _ _ _ _ _ _ _ _ Hrun H1) as Hrun'.
  destruct s1; try (injection H as <- _; exact Hrun');
    destruct (page_render _ _ _ _ _ _) as [r1 pg1]; injection H as <- _; exact Hrun'.
Qed.

Lemma eng_flush_keeps : forall fuel rs c e e' out fs f, run_keeps rs f -> f < 8 ->
  eng_flush fuel rs c e = (e', out, fs) -> getf (v_st (e_v e)) f = false -> getf (v_st (e_v e')) f = false.
Proof.
  intros fuel rs c e e' out fs f Hk Hf H H0. unfold eng_flush in H.
  destruct (negb (e_execd e)); [injection H as <- _ _; exact H0|].
  destruct (vm_render fuel rs (c_sep c) _ (e_v e)) as [v r] eqn:Hr.
  pose proof (vm_render_keeps _ _ _ _ _ _ _ _ Hk Hr H0) as H1.
  assert (Hreset : forall v' s, eng_reset_inner v = (v', s) -> getf (v_st v') f = false).
  { intros v' s E. eapply eng_reset_inner_keeps; eauto. }
  cbn [eset_v e_v e_exit e_exiting e_initd e_execd] in H.
  destruct r as [o|er|n|]; try (injection H as <- _ _; exact H1).
  - destruct ((0 <? c_out c) && (0 <? len (e_exit e)) && (c_out c <? w32 (len (e_exit e) + len o))).
    + destruct (e_exiting e); [|injection H as <- _ _; exact H1].
      destruct (eng_reset_inner v) as [v2 s2] eqn:E. injection H as <- _ _. eapply Hreset; eauto.
    + destruct (e_exiting e); [|destruct (e_exit e); injection H as <- _ _; exact H1].
      destruct (eng_reset_inner v) as [v2 s2] eqn:E.
      destruct (e_exit e); destruct s2; injection H as <- _ _; eapply Hreset; eauto.
  - destruct ((0 <? c_out c) && (0 <? len (e_exit e)) && (c_out c <? w32 (len (e_exit e) + 0))).
    + destruct (e_exiting e); [|injection H as <- _ _; exact H1].
      destruct (eng_reset_inner v) as [v2 s2] eqn:E. injection H as <- _ _. eapply Hreset; eauto.
    + destruct (e_exit e) as [|y ex]; [injection H as <- _ _; exact H1|].
      destruct (e_exiting e); [|injection H as <- _ _; exact H1].
      destruct (eng_reset_inner v) as [v2 s2] eqn:E.
      destruct s2; injection H as <- _ _; eapply Hreset; eauto.
Qed.

Lemma run_first_keeps : forall fuel c lang e e' r s f, first_keeps c f ->
  run_first fuel c lang e = (e', r, s) -> getf (v_st (e_v e)) f = false -> getf (v_st (e_v e')) f = false.
Proof.
  intros fuel c lang e e' r s f Hk H H0. unfold run_first in H. unfold first_keeps in Hk.
  destruct (c_first c) as [script|]; [|injection H as <- _ _; exact H0].
  destruct (st_down (v_st (e_v e)) first_sym) as [st1| |] eqn:Hd; try (injection H as <- _ _; exact H0).
  destruct (run fuel (first_rsrc script) [] lang first_code _) as [[v2 b] s2] eqn:Hrun.
  assert (Hst1 : getf st1 f = false) by (rewrite (getf_sbp _ _ f (st_down_sbp _ _ _ Hd)); exact H0).
  pose proof (Hk _ _ _ _ _ _ _ _ Hrun Hst1) as Hrun'. clear Hrun. rename Hrun' into Hrun.
  destruct (match s2 with SOk => _ | _ => _ end) as [[r0 s0] take].
  destruct (if take then cache_last (v_ca v2) else (e_exit e, v_ca v2)) as [ex ca2].
  injection H as <- _ _. cbn [e_v v_st].
  assert (H3 : getf (resetf (resetf (v_st v2) FLAG_DIRTY) FLAG_TERMINATE) f = false)
    by (apply getf_resetf_keeps; apply getf_resetf_keeps; exact Hrun).
  destruct (st_up _) as [[sy st']| |] eqn:Hu; try exact H3.
  rewrite (getf_sbp _ _ f (st_up_sbp _ _ _ Hu)). exact H3.
Qed.

Lemma eng_init_keeps : forall fuel rs c e input e' cont s f, run_keeps rs f -> first_keeps c f -> f < 8 ->
  eng_init fuel rs c e input = (e', cont, s) -> getf (v_st (e_v e)) f = false -> getf (v_st (e_v e')) f = false.
Proof.
  intros fuel rs c e input e' cont s f Hk Hkf Hf H H0. unfold eng_init in H.
  destruct (if e_execd e then _ else _) as [e1 s1] eqn:Hprep.
  assert (H1 : getf (v_st (e_v e1)) f = false).
  { destruct (e_execd e); [|injection Hprep as <- _; exact H0].
    destruct (eng_flush fuel rs c e) as [[e0 o0] f0] eqn:Hfl. injection Hprep as <- _.
    eapply eng_flush_keeps; eauto. }
  destruct s1; try (injection H as <- _ _; exact H1).
  cbn [e_initd e_v] in H.
  destruct (e_initd e1); [injection H as <- _ _; exact H1|].
  destruct (set_input (v_st (e_v e1)) (Some input)) as [st1| |] eqn:Hsi; try (injection H as <- _ _; exact H1).
  assert (Hst1 : getf st1 f = false).
  { unfold set_input in Hsi. destruct (INPUT_LIMIT <? len input); [discriminate|]. injection Hsi as <-. exact H1. }
  destruct (run_first fuel c _ _) as [[e4 r] s4] eqn:Hrf.
  apply (run_first_keeps _ _ _ _ _ _ _ f Hkf) in Hrf; [|exact Hst1].
  destruct s4; try (injection H as <- _ _; exact Hrf).
  destruct (negb r); [injection H as <- _ _; exact Hrf|].
  destruct (match s_code (v_st (e_v e4)) with [] => _ | _ => _ end) as [e4' s4'] eqn:Hstale.
  assert (H4 : getf (v_st (e_v e4')) f = false).
  { destruct (s_code (v_st (e_v e4))); [|injection Hstale as <- _; exact Hrf].
    destruct (s_path (v_st (e_v e4))); [injection Hstale as <- _; exact Hrf|].
    destruct (getf (v_st (e_v e4)) FLAG_TERMINATE); [injection Hstale as <- _; exact Hrf|].
    destruct (eng_reset_inner (e_v e4)) as [v' s'] eqn:E. injection Hstale as <- _.
    cbn [e_v eset_v]. eapply eng_reset_inner_keeps; eauto. }
  destruct s4'; try (injection H as <- _ _; exact H4).
  destruct (match s_code (v_st (e_v e4')) with [] => _ | _ => _ end) as [e5 cont5] eqn:Hsc.
  assert (H5 : getf (v_st (e_v e5)) f = false).
  { destruct (s_code (v_st (e_v e4'))); [|injection Hsc as <- _; exact H4].
    unfold set_code_eng in Hsc. destruct (encode (IMove (cfg_root c))).
    - destruct (getf (set_code (v_st (e_v e4')) []) FLAG_DIRTY).
      + destruct (cache_last _) as [lastv ca']. injection Hsc as <- _. exact H4.
      + injection Hsc as <- _. exact H4.
    - injection Hsc as <- _. exact H4. }
  injection H as <- _ _. exact H5.
Qed.

Lemma eng_exec_keeps : forall fuel rs c e input e' cont s f, run_keeps rs f -> first_keeps c f -> f < 8 ->
  eng_exec fuel rs c e input = (e', cont, s) -> getf (v_st (e_v e)) f = false -> getf (v_st (e_v e')) f = false.
Proof.
  intros fuel rs c e input e' cont s f Hk Hkf Hf H H0. unfold eng_exec in H.
  destruct (eng_init fuel rs c e input) as [[e1 cont1] s1] eqn:Hi.
  apply (eng_init_keeps _ _ _ _ _ _ _ _ f Hk Hkf Hf) in Hi; [|exact H0].
  destruct s1; try (injection H as <- _ _; exact Hi).
  destruct (negb cont1); [injection H as <- _ _; exact Hi|].
  destruct (if c_reset_empty c && (len input =? 0) then _ else _) as [e2 s2] eqn:Hre.
  assert (H2 : getf (v_st (e_v e2)) f = false).
  { destruct (c_reset_empty c && (len input =? 0)); [|injection Hre as <- _; exact Hi].
    unfold eng_reset_force in Hre. destruct (s_path (v_st (e_v e1))); [injection Hre as <- _; exact Hi|].
    destruct (eng_reset_inner _) as [v' s'] eqn:E. injection Hre as <- _. cbn [e_v eset_v].
    eapply eng_reset_inner_keeps; [exact Hf|exact E|]. exact Hi. }
  destruct s2; try (injection H as <- _ _; exact H2).
  destruct ((0 <? len input) && negb (valid_input_b input)); [injection H as <- _ _; exact H2|].
  destruct (set_input (v_st (e_v e2)) (Some input)) as [st'| |] eqn:Hsi; try (injection H as <- _ _; exact H2).
  assert (Hst' : getf st' f = false).
  { unfold set_input in Hsi. destruct (INPUT_LIMIT <? len input); [discriminate|]. injection Hsi as <-. exact H2. }
  unfold eng_exec_inner in H. cbn [e_v eset_v v_st vset_st] in H.
  destruct (s_code st'); [injection H as <- _ _; exact Hst'|].
  destruct (run fuel rs (c_sep c) _ _ _) as [[v1 b] s3] eqn:Hrun.
  pose proof (Hk _ _ _ _ _ _ _ _ Hrun Hst') as Hrun'. clear Hrun. rename Hrun' into Hrun.
  destruct s3; try (injection H as <- _ _; exact Hrun).
  destruct (getf (v_st v1) FLAG_TERMINATE); [injection H as <- _ _; exact Hrun|].
  unfold set_code_eng in H. cbn [e_v] in H.
  destruct b.
  - destruct (getf (set_code (v_st v1) []) FLAG_DIRTY).
    + destruct (cache_last _) as [lastv ca']. injection H as <- _ _. exact Hrun.
    + injection H as <- _ _. exact Hrun.
  - injection H as <- _ _. exact Hrun.
Qed.

Definition store_clear (p : pworld) (f : N) : Prop :=
  match pw_store p with Some (st, _) => getf st f = false | None => True end.

Lemma fresh_state_clear : forall c f, f <> FLAG_LANG -> getf (fresh_state c) f = false.
Proof.
  intros c f Hf. unfold fresh_state.
  assert (H0 : getf (st_set_language lang_lookup (new_state (c_flagcount c)) (c_lang c)) f = false).
  { rewrite getf_set_language. unfold getf, new_state. cbn [s_flags]. apply falses_nth. }
  destruct (s_lang _); [rewrite getf_setf_other by exact Hf|]; exact H0.
Qed.

(* one persisted request keeps a clear reserved flag clear in the store *)
Lemma request_persisted_keeps : forall fuel rs c p input p' resp f,
  run_keeps rs f -> first_keeps c f -> f < 8 -> f <> FLAG_LANG ->
  request_persisted fuel rs c p input = (p', resp) -> store_clear p f -> store_clear p' f.
Proof.
  intros fuel rs c p input p' resp f Hk Hkf Hf Hl H H0. unfold request_persisted in H.
  set (e := new_engine c (pw_store p) (pw_w p) (pw_log p)) in *.
  assert (He : getf (v_st (e_v e)) f = false).
  { unfold e, new_engine. unfold store_clear in H0. destruct (pw_store p) as [[st ca]|]; cbn [e_v v_st]; [exact H0|].
    apply fresh_state_clear. exact Hl. }
  assert (H00 : match (match pw_store p with Some s => Some s | None => Some (snap_of (v_st (e_v e)) (v_ca (e_v e))) end) with
                | Some (st, _) => getf st f = false | None => True end).
  { unfold store_clear in H0. destruct (pw_store p) as [[st ca]|]; [exact H0|]. exact He. }
  destruct (eng_exec fuel rs c e input) as [[e1 cont] s] eqn:Hx.
  apply (eng_exec_keeps _ _ _ _ _ _ _ _ f Hk Hkf Hf) in Hx; [|exact He].
  destruct s; try (injection H as <- _; exact H00).
  - destruct (eng_flush fuel rs c e1) as [[e2 out] fs] eqn:Hfl.
    apply (eng_flush_keeps _ _ _ _ _ _ _ f Hk Hf) in Hfl; [|exact Hx].
    destruct fs; injection H as <- _; try exact H00;
      unfold store_clear, eng_finish; cbn [pw_store]; (destruct (e_initd e2); [exact Hfl|exact H00]).
  - destruct (eng_flush fuel rs c e1) as [[e2 out] fs] eqn:Hfl.
    apply (eng_flush_keeps _ _ _ _ _ _ _ f Hk Hf) in Hfl; [|exact Hx].
    destruct fs; injection H as <- _; try exact H00;
      unfold store_clear, eng_finish; cbn [pw_store]; (destruct (e_initd e2); [exact Hfl|exact H00]).
Qed.

(* ... hence every history: RESERVED is never set in a stored session, and LOADFAIL only if
   some function of the application or the engine's entry function can fail *)
Lemma requests_keep : forall fuel rs c inputs p p' resps f,
  run_keeps rs f -> first_keeps c f -> f < 8 -> f <> FLAG_LANG ->
  requests fuel rs c p inputs = (p', resps) -> store_clear p f -> store_clear p' f.
Proof.
  intros fuel rs c inputs. induction inputs as [|i r IH]; intros p p' resps f Hk Hkf Hf Hl H H0; cbn [requests] in H.
  - injection H as <- _. exact H0.
  - destruct (request_persisted fuel rs c p i) as [p1 resp] eqn:H1.
    destruct (requests fuel rs c p1 r) as [p2 resps2] eqn:H2. injection H as <- _.
    eapply IH; eauto. eapply request_persisted_keeps; eauto.
Qed.

(* the observable form (monitor c06_reserved of EngineMon): from the empty store, whatever the
   application, its functions and the inputs do, RESERVED is never set in a stored session; and
   LOADFAIL is set only if some function (of the application or the engine's entry function)
   can fail *)
Definition any_fail_b (a : app) (c : config) : bool :=
  existsb (fun f => existsb fr_fail (snd f)) (a_funcs a)
  || match c_first c with Some s => existsb fr_fail s | None => false end.

Lemma alookup_In_pair : forall {V} k (l : list (bytes * V)) v, alookup k l = Some v -> exists k', In (k', v) l.
Proof.
  intros V k l v. induction l as [|[k' v'] l IH]; cbn [alookup]; [discriminate|].
  destruct (bytes_eqb k k'); intros H.
  - injection H as ->. exists k'. left. reflexivity.
  - destruct (IH H) as (k2 & Hin). exists k2. right. exact Hin.
Qed.

Lemma no_fail_app : forall a, existsb (fun f => existsb fr_fail (snd f)) (a_funcs a) = false -> ~ can_fail (app_rsrc a).
Proof.
  intros a H (sym & script & fr & Hf & Hin & Hfail). cbn [app_rsrc rs_func] in Hf.
  destruct (alookup_In_pair _ _ _ Hf) as (k' & Hk).
  assert (E : existsb (fun f => existsb fr_fail (snd f)) (a_funcs a) = true).
  { apply existsb_exists. exists (k', script). split; [exact Hk|]. cbn [snd]. apply existsb_exists. exists fr. auto. }
  congruence.
Qed.
Lemma no_fail_first : forall sc, existsb fr_fail sc = false -> ~ can_fail (first_rsrc sc).
Proof.
  intros sc H (sym & script & fr & Hf & Hin & Hfail). cbn [first_rsrc rs_func] in Hf.
  destruct (bytes_eqb sym first_sym); [|discriminate]. injection Hf as <-.
  assert (E : existsb fr_fail sc = true) by (apply existsb_exists; exists fr; auto). congruence.
Qed.

Lemma history_reserved_clear : forall fuel a c inputs p' resps,
  requests fuel (app_rsrc a) c (mkPw None [] [] false) inputs = (p', resps) -> store_clear p' FLAG_RESERVED.
Proof.
  intros fuel a c inputs p' resps H.
  eapply (requests_keep fuel (app_rsrc a) c inputs (mkPw None [] [] false) p' resps FLAG_RESERVED); try exact H.
  - apply run_keeps_reserved.
  - unfold first_keeps. destruct (c_first c); [apply run_keeps_reserved|exact I].
  - vm_compute. reflexivity.
  - vm_compute. discriminate.
  - exact I.
Qed.

Lemma history_loadfail_needs_failure : forall fuel a c inputs p' resps,
  any_fail_b a c = false ->
  requests fuel (app_rsrc a) c (mkPw None [] [] false) inputs = (p', resps) -> store_clear p' FLAG_LOADFAIL.
Proof.
  intros fuel a c inputs p' resps Hnf H. unfold any_fail_b in Hnf. apply orb_false_elim in Hnf as [H1 H2].
  eapply (requests_keep fuel (app_rsrc a) c inputs (mkPw None [] [] false) p' resps FLAG_LOADFAIL); try exact H.
  - apply run_keeps_loadfail. apply no_fail_app. exact H1.
  - unfold first_keeps. destruct (c_first c) as [sc|]; [|exact I]. apply run_keeps_loadfail. apply no_fail_first. exact H2.
  - vm_compute. reflexivity.
  - vm_compute. discriminate.
  - exact I.
Qed.

(* the guard of this file is the complement of the monitor's refused_b *)
From Vise Require EngineMon.
Lemma accepted_b_not_refused : forall i, accepted_b i = negb (EngineMon.refused_b i).
Proof.
  intros i. unfold accepted_b, EngineMon.refused_b.
  destruct (valid_input_b i); cbn [negb]; destruct (INPUT_LIMIT <? len i) eqn:E1; destruct (len i <=? INPUT_LIMIT) eqn:E2;
    destruct (0 <? len i) eqn:E3; destruct (len i =? 0) eqn:E4; cbn; try reflexivity; lia.
Qed.

(* ---- statements without the internal switch of rsv_step ------------------------------------------ *)
Lemma run_reserved_frame : forall fuel rs sep lang b v v' b' s,
  run fuel rs sep lang b v = (v', b', s) ->
  forall f, f <= nonwriteable_flag_threshold ->
    getf (v_st v') f = getf (v_st v) f \/ f = FLAG_READIN \/ f = FLAG_INMATCH \/ f = FLAG_WAIT \/ f = FLAG_DIRTY
    \/ (f = FLAG_LOADFAIL /\ can_fail rs).
Proof.
  intros fuel rs sep lang b v v' b' s H f Hf.
  destruct (run_rsv _ _ _ _ _ _ _ _ _ H f Hf) as [E|[E|[E|[E|[[_ E]|E]]]]]; auto 6.
Qed.
Lemma run_first_reserved_frame : forall fuel c lang e e' r s,
  run_first fuel c lang e = (e', r, s) ->
  forall f, f <= nonwriteable_flag_threshold ->
    getf (v_st (e_v e')) f = getf (v_st (e_v e)) f \/ f = FLAG_READIN \/ f = FLAG_INMATCH \/ f = FLAG_WAIT \/ f = FLAG_DIRTY
    \/ (f = FLAG_LOADFAIL /\ exists sc, c_first c = Some sc /\ existsb fr_fail sc = true).
Proof.
  intros fuel c lang e e' r s H f Hf.
  destruct (run_first_rsv _ _ _ _ _ _ _ H f Hf) as [E|[E|[E|[E|[[_ E]|[E1 E2]]]]]]; auto 6.
  do 5 right. split; [exact E1|].
  destruct (c_first c) as [sc|].
  - exists sc. split; [reflexivity|]. destruct (existsb fr_fail sc) eqn:Ex; [reflexivity|].
    exfalso. exact (no_fail_first sc Ex E2).
  - exfalso. exact (no_fail_first [] eq_refl E2).
Qed.

Lemma request_persisted_strip_app : forall a fuel c p input,
  request_persisted fuel (app_rsrc (strip_app a)) (strip_cfg c) p input = request_persisted fuel (app_rsrc a) c p input.
Proof. intros. apply request_persisted_strip. apply strip_rel_app. Qed.
Lemma request_long_strip_app : forall a fuel c e input,
  request_long fuel (app_rsrc (strip_app a)) (strip_cfg c) e input = request_long fuel (app_rsrc a) c e input.
Proof. intros. apply request_long_strip. apply strip_rel_app. Qed.

(* ======================================================================================== *)
(* 15. corpus applications (go/cmd/vh/engine.go engineCorpus) as terms, for the witnesses     *)
(* ======================================================================================== *)
Definition nd (name : string) (p : list instr) : bytes * bytes := (s2b name, encode_prog p).
Definition catch_node := nd "_catch" [IHalt; IInCmp (s2b "_") (s2b "*")].
Definition fr (content : string) (set : list N) : fres := mkFres (s2b content) false 0 set [] false.
Definition pw0 : pworld := mkPw None [] [] false.
Definition store_st (p : pworld) : state := match pw_store p with Some (s, _) => s | None => new_state 0 end.
Definition store_ca (p : pworld) : cache := match pw_store p with Some (_, c) => c | None => new_cache 0 end.

(* "terminate-blocked": aa sets TERMINATE and client flag 9 *)
Definition app_term : app :=
  mkApp [nd "root" [IHalt; IInCmp (s2b "foo") (s2b "1")];
         nd "foo" [ILoad (s2b "aa") 10; IHalt; IInCmp (s2b "_") (s2b "0")]; catch_node]
        [(s2b "root", s2b "root"); (s2b "foo", s2b "foo"); (s2b "_catch", s2b "catch")]
        [] [(s2b "aa", [fr "t" [6; 9]])].
Definition cfg_term : config := mkCfg 0 [] 2 0 [] [] false None.
Definition rs_term : rsrc := app_rsrc app_term.
(* the session after the requests "" and "1": at root/foo, TERMINATE and flag 9 set *)
Definition p_term : pworld := fst (requests 100 rs_term cfg_term pw0 [[]; s2b "1"]).
(* the same served by an engine with an entry function / with ResetOnEmptyInput *)
Definition cfg_term_first : config := mkCfg 0 [] 2 0 [] [] false (Some [fr "hello" []]).
Definition cfg_term_reset : config := mkCfg 0 [] 2 0 [] [] true None.

(* "graceful-end": root -1-> foo (LOAD aa, sets client flag 8) -1-> end1 (LOAD bb; HALT; no more code) *)
Definition app_graceful : app :=
  mkApp [nd "root" [IHalt; IInCmp (s2b "foo") (s2b "1")];
         nd "foo" [ILoad (s2b "aa") 10; IMap (s2b "aa"); IHalt; IInCmp (s2b "end1") (s2b "1")];
         nd "end1" [ILoad (s2b "bb") 0; IHalt]; catch_node]
        [(s2b "root", s2b "root"); (s2b "foo", s2b "foo {{.aa}}"); (s2b "end1", s2b "the end"); (s2b "_catch", s2b "catch")]
        [] [(s2b "aa", [fr "v" [8]]); (s2b "bb", [fr " bye" []])].
Definition cfg_graceful : config := mkCfg 0 [] 2 100 [] [] false None.
Definition rs_graceful : rsrc := app_rsrc app_graceful.
(* the session after "" and "1": at root/foo, waiting for input *)
Definition p_graceful : pworld := fst (requests 100 rs_graceful cfg_graceful pw0 [[]; s2b "1"]).

(* "abnormal-end": foo's code ends without HALT *)
Definition app_abn : app :=
  mkApp [nd "root" [IHalt; IInCmp (s2b "foo") (s2b "1")]; nd "foo" [ILoad (s2b "aa") 10]; catch_node]
        [(s2b "root", s2b "root"); (s2b "foo", s2b "foo"); (s2b "_catch", s2b "catch")]
        [] [(s2b "aa", [fr "v" []])].
Definition rs_abn : rsrc := app_rsrc app_abn.
Definition p_abn : pworld := fst (requests 100 rs_abn cfg_term pw0 [[]]).

(* "first-terminate": the entry function sets TERMINATE on its second call *)
Definition app_ft : app :=
  mkApp [nd "root" [IHalt; IInCmp (s2b "foo") (s2b "1")]; nd "foo" [IHalt; IInCmp (s2b "_") (s2b "0")]; catch_node]
        [(s2b "root", s2b "root"); (s2b "foo", s2b "foo"); (s2b "_catch", s2b "catch")] [] [].
Definition cfg_ft : config := mkCfg 0 [] 1 0 [] [] false (Some [fr "hello" []; fr "blocked" [6]; fr "again" []]).

Lemma run_move_root_full : forall fuel rs sep lang root v x code,
  wf_sym root -> valid_sym_b root = true ->
  getf (v_st v) FLAG_TERMINATE = false -> s_path (v_st v) = [] ->
  rs_code rs root = Ok (x :: code) ->
  run (S fuel) rs sep lang (encode (IMove root)) v
  = run fuel rs sep (pre_lang lang (v_st v)) (x :: code) (at_root rs sep root v)
  /\ s_path (v_st (at_root rs sep root v)) = [root] /\ s_idx (v_st (at_root rs sep root v)) = 0
  /\ v_ca (at_root rs sep root v) = cache_push (v_ca v).
Proof.
  intros fuel rs sep lang root v x code H1 H2 H3 H4 H5.
  destruct (at_root_facts rs sep root v) as (F1 & F2 & F3 & _).
  split; [apply run_move_root; assumption|]. auto.
Qed.

(* ---- witness terms used by props/C06.v and props/C20.v ------------------------------------------ *)
Definition st_term : state := store_st p_term.
Definition ca_term : cache := store_ca p_term.
Definition st_c : state := setf (set_path_idx (new_state 2) [s2b "root"] 0) 8.
Definition v_c : vmst := mkVm st_c (cache_push (new_cache 0)) (new_vm_page 0 []) [] [] false.
Definition rs_greedy (set reset : list N) : rsrc :=
  app_rsrc (mkApp [] [] [] [(s2b "gg", [mkFres (s2b "x") false 0 set reset false])]).
Definition g_st := store_st p_graceful.
Definition g_ca := store_ca p_graceful.
Definition g_run :=
  run 100 rs_graceful (c_sep cfg_graceful) (s_lang g_st) (prep_code cfg_graceful g_st)
      (mkVm (set_code (prep_state cfg_graceful g_st (s2b "1")) []) g_ca
            (new_vm_page (c_out cfg_graceful) (c_sep cfg_graceful)) (pw_w p_graceful) (pw_log p_graceful) false).
Definition g_v1 := fst (fst g_run).
Definition g_render := vm_render 100 rs_graceful (c_sep cfg_graceful) (s_lang (v_st g_v1)) (exiting_vm g_v1).
Definition g_v' := fst g_render.
Definition a_st := store_st p_abn.
Definition a_ca := store_ca p_abn.
Definition a_run :=
  run 100 rs_abn (c_sep cfg_term) (s_lang a_st) (prep_code cfg_term a_st)
      (mkVm (set_code (prep_state cfg_term a_st (s2b "1")) []) a_ca
            (new_vm_page (c_out cfg_term) (c_sep cfg_term)) (pw_w p_abn) (pw_log p_abn) false).
Definition cfg_graceful_small : config := mkCfg 8 [] 2 100 [] [] false None.

(* ---- refutations for the entry-function class (K-C20-first / K-C07-first) ------------------------ *)
Lemma blocked_refuted_first :
  exists rs c p input st ca,
    c_first c <> None /\ pw_store p = Some (st, ca)
    /\ getf st FLAG_TERMINATE = true /\ getf st FLAG_DIRTY = false
    /\ accepted_b input = true /\ reset_req c input = false
    /\ r_out (snd (request_persisted 100 rs c p input)) = s2b "t"
    /\ r_cont (snd (request_persisted 100 rs c p input)) = false
    /\ pw_store (fst (request_persisted 100 rs c p input)) = pw_store p.
Proof.
  exists rs_term, cfg_term_first, p_term, (s2b "0"), st_term, ca_term.
  vm_compute. repeat split; try reflexivity. discriminate.
Qed.

Lemma terminated_refuted_first :
  exists rs c p i1 i2,
    c_first c <> None /\ accepted_b i1 = true /\ accepted_b i2 = true
    /\ reset_req c i1 = false /\ reset_req c i2 = false
    /\ (let '(p1, r1) := request_persisted 100 rs c p i1 in
        let '(p2, r2) := request_persisted 100 rs c p1 i2 in
        r_cont r1 = false /\ r_exec r1 = SOk /\ r_out r1 = s2b "blocked"
        /\ pw_store p1 = pw_store p
        /\ r_cont r2 = true /\ r_out r2 <> []
        (* instructions ran during the second request *)
        /\ existsb (fun e => match e with EvInstr op => op =? op_INCMP | _ => false end)
                   (firstn (List.length (pw_log p2) - List.length (pw_log p1)) (pw_log p2)) = true).
Proof.
  exists (app_rsrc app_ft), cfg_ft, (fst (requests 100 (app_rsrc app_ft) cfg_ft pw0 [[]])), (s2b "1"), (s2b "0").
  vm_compute. repeat split; try reflexivity; discriminate.
Qed.

(* ======================================================================================== *)
(* 16. TERMINATE set but DIRTY still set in the stored session (finding K-C06-dirty)           *)
(* ======================================================================================== *)
(* A request that fails in Exec AFTER external code has set TERMINATE is saved without Flush
   having run: the stored session has TERMINATE and DIRTY.  The next request is blocked in
   every respect but one: Flush renders the current page (template and menu lookups, output)
   and clears DIRTY.  From then on the strict theorem applies. *)
Definition is_render (e : ev) : bool := match e with EvRender _ _ _ => true | _ => false end.

Lemma vm_render_terminated_log : forall fuel rs sep lang v v' r,
  getf (v_st v) FLAG_TERMINATE = true -> vm_render (S fuel) rs sep lang v = (v', r) ->
  exists l, v_log v' = l ++ v_log v /\ forallb is_render l = true /\ v_taint v' = v_taint v.
Proof.
  intros fuel rs sep lang v v' r Ht H. unfold vm_render in H.
  destruct (negb (getf (v_st v) FLAG_DIRTY)); [injection H as <- _; exists []; auto|].
  cbv zeta in H. cbn [v_st vset_st] in H.
  destruct (where_sym _) as [|x l]; [injection H as <- _; exists []; auto|].
  destruct (page_render _ _ _ _ _ _) as [r0 pg'].
  assert (Hdone : forall r1,
     (vlog (vset_pg (vset_st v (resetf (v_st v) FLAG_DIRTY)) pg') (EvRender (x :: l) (s_idx (resetf (v_st v) FLAG_DIRTY)) lang), r1) = (v', r) ->
     exists l0, v_log v' = l0 ++ v_log v /\ forallb is_render l0 = true /\ v_taint v' = v_taint v).
  { intros r1 E. injection E as <- _. eexists [_]. cbn. auto. }
  destruct r0 as [o|e|n]; try (eapply Hdone; exact H).
  destruct e; try (eapply Hdone; exact H).
  rewrite run_terminate_blocks in H.
  2:{ cbn [v_st vset_pg vlog vset_st]. rewrite getf_resetf_other by (vm_compute; discriminate). exact Ht. }
  destruct (page_render _ _ _ _ _ _) as [r1 pg1]. injection H as <- _.
  eexists [_; _]. cbn. auto.
Qed.

(* blocked, whatever DIRTY is *)
Lemma blocked_request_weak : forall fuel rs c p input st ca,
  c_first c = None -> pw_store p = Some (st, ca) -> getf st FLAG_TERMINATE = true ->
  accepted_b input = true -> (reset_req c input = false \/ s_path st = []) ->
  exists p' resp, request_persisted (S fuel) rs c p input = (p', resp)
    /\ r_cont resp = false /\ r_exec resp = SOk
    (* no function is called; the only ghost events are renderings *)
    /\ pw_w p' = pw_w p
    /\ (exists l, pw_log p' = l ++ pw_log p /\ forallb is_render l = true)
    (* unless rendering panics, the stored session is what it was with DIRTY cleared, no code, no input *)
    /\ ((exists n, r_flush resp = FPanic n /\ pw_store p' = pw_store p) \/
        (pw_store p' = Some (blocked_snap (resetf st FLAG_DIRTY) ca) /\ r_flush resp <> FFuel
         /\ forall n, r_flush resp <> FPanic n)).
Proof.
  intros fuel rs c p input st ca Hf Hs Ht Ha Hreset.
  rewrite (request_persisted_prepared (S fuel) rs c p input st ca) by (try assumption; apply stale_terminated; exact Ht).
  destruct (prep_code_cons c st) as (x & code & Hc).
  assert (Hcode0 : s_code (v_st (e_v (prep_engine c st ca (pw_w p) (pw_log p) input))) = prep_code c st) by reflexivity.
  unfold eng_exec_inner. cbv zeta. rewrite Hcode0, Hc.
  rewrite run_terminate_blocks by exact Ht.
  cbn [v_st vset_st]. change (getf (set_code (v_st (e_v (prep_engine c st ca (pw_w p) (pw_log p) input))) []) FLAG_TERMINATE)
    with (getf st FLAG_TERMINATE). rewrite Ht.
  unfold eng_flush. cbn [e_execd negb e_v eset_v e_exit e_exiting e_initd].
  set (v0 := vset_st (e_v (prep_engine c st ca (pw_w p) (pw_log p) input))
                     (set_code (v_st (e_v (prep_engine c st ca (pw_w p) (pw_log p) input))) [])).
  assert (Ht0 : getf (v_st v0) FLAG_TERMINATE = true) by exact Ht.
  destruct (vm_render (S fuel) rs (c_sep c) (s_lang (v_st v0)) v0) as [vr r] eqn:Hrender.
  destruct (vm_render_terminated _ _ _ _ _ _ _ Ht0 Hrender) as (Hst & Hca & Hw & Hnf).
  destruct (vm_render_terminated_log _ _ _ _ _ _ _ Ht0 Hrender) as (l & Hlog & Hl & Htaint).
  change (e_exit (prep_engine c st ca (pw_w p) (pw_log p) input)) with (@nil N).
  change (e_exiting (prep_engine c st ca (pw_w p) (pw_log p) input)) with false.
  change (e_initd (prep_engine c st ca (pw_w p) (pw_log p) input)) with true.
  cbn [len List.length N.of_nat]. rewrite andb_false_r. cbn [andb].
  assert (Hlogp : exists l0, v_log vr = l0 ++ pw_log p /\ forallb is_render l0 = true) by (exists l; auto).
  destruct r as [out|er|n|]; [| | |congruence].
  - do 2 eexists. split; [reflexivity|]. cbn [r_cont r_exec r_flush pw_w pw_log pw_store].
    split; [reflexivity|]. split; [reflexivity|]. split; [exact Hw|]. split; [exact Hlogp|].
    right. unfold eng_finish. cbn [e_initd e_v eset_v]. rewrite Hst, Hca.
    split; [reflexivity|]. split; [discriminate|]. intros n. discriminate.
  - do 2 eexists. split; [reflexivity|]. cbn [r_cont r_exec r_flush pw_w pw_log pw_store].
    split; [reflexivity|]. split; [reflexivity|]. split; [exact Hw|]. split; [exact Hlogp|].
    right. unfold eng_finish. cbn [e_initd e_v eset_v]. rewrite Hst, Hca.
    split; [reflexivity|]. split; [discriminate|]. intros n. discriminate.
  - do 2 eexists. split; [reflexivity|]. cbn [r_cont r_exec r_flush pw_w pw_log pw_store].
    split; [reflexivity|]. split; [reflexivity|]. split; [exact Hw|]. split; [exact Hlogp|].
    left. exists n. rewrite Hs. auto.
Qed.

(* witness: aa sets TERMINATE and returns a value longer than the declared size; the LOAD fails *)
Definition app_dirty : app :=
  mkApp [nd "root" [IHalt; IInCmp (s2b "foo") (s2b "1")];
         nd "foo" [ILoad (s2b "aa") 1; IHalt; IInCmp (s2b "_") (s2b "0")]; catch_node]
        [(s2b "root", s2b "root"); (s2b "foo", s2b "foo"); (s2b "_catch", s2b "catch")]
        [] [(s2b "aa", [fr "toolong" [6]])].
Definition p_dirty : pworld := fst (requests 100 (app_rsrc app_dirty) cfg_term pw0 [[]; s2b "1"]).

Lemma blocked_refuted_dirty :
  exists rs c p input st ca,
    c_first c = None /\ pw_store p = Some (st, ca)
    /\ getf st FLAG_TERMINATE = true /\ getf st FLAG_DIRTY = true
    /\ accepted_b input = true /\ reset_req c input = false
    (* reachable from the empty store *)
    /\ p = fst (requests 100 rs c (mkPw None [] [] false) [[]; s2b "1"])
    /\ snd (request_persisted 100 rs c p input) = mkResp false SOk (s2b "foo") FOk
    /\ pw_log (fst (request_persisted 100 rs c p input)) = EvRender (s2b "foo") 0 None :: pw_log p
    (* and the request after that is blocked in the strict sense *)
    /\ snd (request_persisted 100 rs c (fst (request_persisted 100 rs c p input)) input) = mkResp false SOk [] FOk.
Proof.
  exists (app_rsrc app_dirty), cfg_term, p_dirty, (s2b "0"), (store_st p_dirty), (store_ca p_dirty).
  vm_compute. repeat split; reflexivity.
Qed.

(* once TERMINATE is in the stored session (DIRTY or not): the first request is blocked up to one
   rendering, every later one strictly *)
Lemma terminated_stays_blocked : forall fuel rs c p input st ca p' resp inputs,
  c_first c = None -> pw_store p = Some (st, ca) -> getf st FLAG_TERMINATE = true ->
  accepted_b input = true -> (reset_req c input = false \/ s_path st = []) ->
  request_persisted (S fuel) rs c p input = (p', resp) -> (forall n, r_flush resp <> FPanic n) ->
  Forall (fun i => accepted_b i = true /\ (reset_req c i = false \/ s_path st = [])) inputs -> inputs <> [] ->
  r_cont resp = false /\ r_exec resp = SOk /\ pw_w p' = pw_w p
  /\ requests (S fuel) rs c p' inputs
     = (mkPw (Some (blocked_snap (resetf st FLAG_DIRTY) ca)) (pw_w p') (pw_log p') (pw_taint p'),
        map (fun _ => mkResp false SOk [] FOk) inputs).
Proof.
  intros fuel rs c p input st ca p' resp inputs Hf Hs Ht Ha Hreset Hreq Hnp Hall Hne.
  destruct (blocked_request_weak fuel rs c p input st ca Hf Hs Ht Ha Hreset)
    as (p'' & resp' & Hreq' & Hc & Hx & Hw & _ & Hcases).
  rewrite Hreq in Hreq'. injection Hreq' as <- <-.
  split; [exact Hc|]. split; [exact Hx|]. split; [exact Hw|].
  destruct Hcases as [(n & Hn & _)|(Hstore & _ & _)]; [exfalso; eapply Hnp; exact Hn|].
  rewrite (blocked_until_cleared fuel rs c inputs p' (set_input_raw (set_code (resetf st FLAG_DIRTY) []) None) ca);
    try assumption; try reflexivity.
  - change (getf (resetf st FLAG_DIRTY) FLAG_TERMINATE = true).
    rewrite getf_resetf_other by (vm_compute; discriminate). exact Ht.
  - change (getf (resetf st FLAG_DIRTY) FLAG_DIRTY = false). apply getf_resetf_same.
Qed.
