(* FlagProofs3.v — C20 follow-up 2: when can Vm.Render take its BrowseError branch?
   page_render returns Err EBrowse only from the menu's applyPage with page count > 0 and
   idx >= page count; the page count is the one joinSink computed in the same Render.  Before the
   menu is rendered, RenderTemplate asks the sizer for page idx of the sink (GetAt).  This file
   proves that, as long as the uint16 page counter of joinSink does not wrap (fewer than 65535
   rows) and the cursor values do not wrap (rows below 4 GiB), GetAt FAILS FIRST for every
   idx >= page count: the render error is the sizer's, never a BrowseError.  The bound is sharp:
   with 65536 page breaks the counter wraps and the BrowseError branch IS taken (witness run on
   the real engine, see notes/integration_flags.md "Follow-up 2"). *)
From Coq Require Import Lia ZifyN ZifyNat ZifyBool.
From Vise Require Import Bytes Errors Consts EngConsts Codec CacheModel StateModel NavModel RenderModel
  BytesProofs RenderProofs.
Local Open Scope N_scope.

(* ---- TrimRight(r, "\n") of something that ends in a line feed is shorter ------------------------- *)
Lemma trim_lf_rev_len : forall r, (List.length (trim_lf_rev r) <= List.length r)%nat.
Proof.
  induction r as [|x r IH]; cbn [trim_lf_rev List.length]; [lia|].
  destruct (x =? nl); cbn [List.length]; lia.
Qed.
Lemma trim_right_lf_snoc_nl : forall b, len (trim_right_lf (b ++ [nl])) <= len b.
Proof.
  intros b. unfold trim_right_lf, len. rewrite rev_length, rev_app_distr. cbn [rev List.app trim_lf_rev].
  change (nl =? nl) with true. cbv iota. pose proof (trim_lf_rev_len (rev b)) as H. rewrite rev_length in H. lia.
Qed.

(* ---- the loop of joinSink: cursors, counter, and the text written so far -------------------------- *)
(* k = number of page breaks so far *)
Definition JI (s : jstate) (k : nat) (sz : N) : Prop :=
  exists cs, j_crs s = 0 :: cs /\ List.length cs = k
  /\ j_count s = w16 (N.of_nat k)
  /\ len (j_rb s) + len (j_tb s) <= sz
  /\ (k = O -> j_rb s = [])
  /\ (k <> O -> last cs 0 = w32 (len (j_rb s)) /\ exists b, j_rb s = b ++ [nl]).

Lemma w16_succ : forall n, w16 (w16 n + 1) = w16 (n + 1).
Proof. intros n. unfold w16. rewrite N.add_mod_idemp_l by lia. reflexivity. Qed.

Lemma js_step_JI : forall prevsz s v s' k sz,
  JI s k sz -> js_step prevsz s v = Some s' ->
  JI s' k (sz + len v + 1) \/ JI s' (S k) (sz + len v + 1).
Proof.
  intros prevsz s v s' k sz (cs & Hc & Hl & Hn & Hs & H0 & H1) H. unfold js_step in H.
  destruct (sub32 (j_net s) 1 <? w32 (j_l s + len v)).
  - destruct (len (j_tb s) =? 0); [discriminate|]. injection H as <-. right.
    exists (cs ++ [w32 (len (j_rb s ++ j_tb s ++ [nl]))]). cbn [j_crs j_count j_rb j_tb].
    split; [rewrite Hc; reflexivity|]. split; [rewrite app_length; cbn [List.length]; lia|].
    split; [rewrite Hn, w16_succ; f_equal; lia|].
    split; [rewrite !len_app, len_cons, len_nil; lia|].
    split; [discriminate|]. intros _. split; [apply last_last|].
    exists (j_rb s ++ j_tb s). rewrite <- app_assoc. reflexivity.
  - left. destruct (0 <? len (j_tb s)); injection H as <-; exists cs; cbn [j_crs j_count j_rb j_tb];
      (split; [exact Hc|]); (split; [exact Hl|]); (split; [exact Hn|]);
      (split; [rewrite ?len_app, ?len_cons, ?len_nil; lia|]); (split; [exact H0|exact H1]).
Qed.

Lemma js_loop_JI : forall prevsz vs s s' k sz,
  JI s k sz -> js_loop prevsz s vs = (true, s') ->
  exists k', (k <= k' <= k + List.length vs)%nat /\ JI s' k' (sz + rows_size vs).
Proof.
  intros prevsz. induction vs as [|v vs IH]; intros s s' k sz HJ H; cbn [js_loop] in H.
  - injection H as <-. exists k. split; [cbn [List.length]; lia|]. cbn [rows_size fold_right]. rewrite N.add_0_r. exact HJ.
  - destruct (js_step prevsz s v) as [s1|] eqn:Hs; [|discriminate].
    rewrite rows_size_cons. cbn [List.length].
    destruct (js_step_JI _ _ _ _ _ _ HJ Hs) as [H1|H1]; destruct (IH _ _ _ _ H1 H) as (k' & Hk & HJ');
      exists k'; (split; [lia|]); replace (sz + (len v + 1 + rows_size vs)) with (sz + len v + 1 + rows_size vs) by lia; exact HJ'.
Qed.

Lemma nth_error_last : forall (cs : list N) d, cs <> [] -> nth_error (d :: cs) (List.length cs) = Some (last cs d).
Proof.
  intros cs d Hne. destruct (exists_last Hne) as (l & x & ->). rewrite last_last, app_length. cbn [List.length].
  replace (List.length l + 1)%nat with (S (List.length l)) by lia. cbn [nth_error].
  rewrite nth_error_app2 by lia. replace (List.length l - List.length l)%nat with O by lia. reflexivity.
Qed.

(* GetAt past the last page fails (class EGen: "no more values in index") *)
Theorem join_sink_past_end : forall vs remaining ms r n crs idx,
  len vs < 65535 -> rows_size vs < 4294967296 ->
  join_sink vs remaining ms [0] = (Ok (r, n), crs) ->
  0 < n -> n <= idx -> sink_page r crs idx = Err EGen.
Proof.
  intros vs remaining ms r n crs idx Hrows Hsize H Hn Hidx. unfold join_sink in H.
  destruct (js_loop (ms_prev ms) (js_init vs remaining ms [0]) vs) as [[|] s] eqn:Hloop; [|discriminate].
  assert (HJ0 : JI (js_init vs remaining ms [0]) O 0).
  { exists []. unfold js_init. cbn [j_crs j_count j_rb j_tb List.length]. repeat split; try reflexivity. congruence. }
  destruct (js_loop_JI _ _ _ _ _ _ HJ0 Hloop) as (k & Hk & cs & Hc & Hl & Hcnt & Hsz & H0 & H1).
  assert (Hk16 : N.of_nat k < 65535) by (unfold len in Hrows; lia).
  rewrite N.add_0_l in Hsz.
  injection H as Hr Hcount Hcrs. subst crs.
  unfold sink_page. rewrite Hc.
  assert (Hlen : w16 (len (0 :: cs)) = N.of_nat k + 1).
  { unfold len. cbn [List.length]. rewrite Hl. unfold w16. rewrite N.mod_small by lia. lia. }
  rewrite Hlen.
  destruct (0 <? len (j_tb s)) eqn:Htb.
  - (* a last, open page: count = breaks + 1 = number of cursors *)
    assert (En : n = N.of_nat k + 1).
    { rewrite <- Hcount, Hcnt, w16_succ. unfold w16. rewrite N.mod_small by lia. reflexivity. }
    assert (E : N.of_nat k + 1 <=? idx = true) by lia. rewrite E. reflexivity.
  - (* the text ended exactly at a page break: count = breaks, one cursor more *)
    assert (En : n = N.of_nat k).
    { rewrite <- Hcount, Hcnt. unfold w16. rewrite N.mod_small by lia. reflexivity. }
    destruct (N.of_nat k + 1 <=? idx) eqn:E; [reflexivity|].
    assert (Eidx : idx = N.of_nat k) by lia.
    assert (Hkne : k <> O) by lia.
    destruct (H1 Hkne) as (Hlast & b & Hb).
    assert (Hcsne : cs <> []) by (destruct cs; [cbn in Hl; lia|discriminate]).
    rewrite Eidx, Nat2N.id, <- Hl, (nth_error_last cs 0 Hcsne), Hlast.
    assert (Hrb : w32 (len (j_rb s)) = len (j_rb s)) by (unfold w32; apply N.mod_small; lia).
    rewrite Hrb. rewrite <- Hr, Hb.
    pose proof (trim_right_lf_snoc_nl b) as Ht.
    assert (Hw : w32 (len (trim_right_lf (b ++ [nl]))) <= len b) by (unfold w32; etransitivity; [apply N.mod_le; lia|exact Ht]).
    assert (E2 : w32 (len (trim_right_lf (b ++ [nl]))) <? len (b ++ [nl]) = true).
    { rewrite len_app, len_cons, len_nil. lia. }
    rewrite E2. reflexivity.
Qed.

(* ---- GetAt and the private render: the sizer's error comes before the menu's ---------------------- *)
Lemma get_at_loop_err : forall sink crs idx vals v e,
  alookup sink vals = Some v -> sink_page v crs idx = Err e ->
  exists e', get_at_loop sink crs idx vals = Err e' /\ (e' = e).
Proof.
  intros sink crs idx. induction vals as [|[k0 v0] vals IH]; intros v e Hl Hp; [discriminate|].
  cbn [get_at_loop alookup] in *. destruct (bytes_eqb sink k0).
  - injection Hl as ->. rewrite Hp. cbn [obind]. eauto.
  - destruct (IH _ _ Hl Hp) as (e' & Hg & He). rewrite Hg. cbn [obind]. eauto.
Qed.

(* the final render of a page whose sizer names the sink that the value map holds: past the end
   the error is the sizer's (or the template lookup's), never the menu's BrowseError *)
Theorem inner_past_end_not_browse : forall gt gm pg sym vals idx z sink r,
  p_sizer pg = Some z -> z_sink z = sink -> sink <> [] ->
  alookup sink vals = Some r -> sink_page r (z_crsrs z) idx = Err EGen ->
  (forall e, gt sym = Err e -> e <> EBrowse) ->
  fst (page_render_inner gt gm pg sym vals idx) <> Err EBrowse.
Proof.
  intros gt gm pg sym vals idx z sink r Hz Hs Hne Hl Hp Hgt. unfold page_render_inner, render_template.
  destruct (gt sym) as [src|e|p] eqn:Hg; cbn [obind]; [|cbn [fst]; intros E; injection E as E; exact (Hgt e eq_refl E)|cbn [fst]; discriminate].
  rewrite Hz. unfold sizer_get_at. rewrite Hs.
  destruct sink as [|x sink']; [congruence|].
  destruct (get_at_loop_err _ _ _ _ _ _ Hl Hp) as (e' & Hga & ->). rewrite Hga. cbn [obind fst]. discriminate.
Qed.

(* a page without sink rows has page count 0: joinSink of no rows counts no page *)
Lemma join_sink_nil : forall remaining ms crs, join_sink [] remaining ms crs = (Ok ([], 0), crs).
Proof. reflexivity. Qed.

(* ---- the same on a small instance, by computation: three rows, the last one empty and breaking ---- *)
Example join_sink_trailing_empty_row :
  let bb := rep 98 40 in
  let r0 := s2b "a" ++ [nl] ++ bb in
  let '(res, crs) := join_sink [s2b "a"; bb; []] 40 (5, 6, 7, 13) [0] in
  res = Ok (r0, 2) /\ crs = [0; 2; 43]
  /\ sink_page r0 crs 2 = Err EGen /\ sink_page r0 crs 1 = Ok bb.
Proof. vm_compute. repeat split; reflexivity. Qed.
