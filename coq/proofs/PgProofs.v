(* PgProofs.v — proofs about the Postgres backend model (C13): for ALL operation sequences, ALL
   initial contents and ALL fault oracles.
   Method: the per-step lemmas are proved by exhaustive symbolic case analysis of pg_step (every
   oracle bit, every branch of the Go code), the history-level theorems by induction over the
   operation list with the invariant Inv relating the store to the client's bookkeeping. *)
From Coq Require Import Lia ZifyN ZifyNat ZifyBool.
From Vise Require Import Bytes Errors Consts PgTx BytesProofs CacheProofs.
Local Open Scope N_scope.

Ltac brk1 :=
  match goal with
  | |- context [match ?x with _ => _ end] =>
    lazymatch x with
    | context [match _ with _ => _ end] => fail
    | _ => let H := fresh "D" in destruct x eqn:H; try (rewrite N.eqb_refl in H; discriminate H)
    end
  end.
Ltac simp := cbn -[to_key check_put kv_agree asort apply_kv].
Ltac brk := repeat (simp; brk1).

Ltac unfold_pg :=
  lazy beta iota zeta delta [pg_step pg_close pg_put pg_get pg_get_default pg_start pg_stop pg_stop_ pg_begin_if pg_abort pg_dump dump_commit eff
    pg_stop_single srv_begin srv_exec srv_query srv_dquery srv_next srv_scan srv_commit srv_rollback srv_close
    tick emit set_open set_comm set_srv clear_log res_unit res_val
    fst snd p_tx p_multi p_lang p_srv s_comm s_open s_next s_closed s_log s_orc negb].
Ltac unfold_pg_open :=
  lazy beta iota zeta delta [pg_step pg_close pg_put pg_get pg_get_default pg_start pg_stop pg_stop_ pg_begin_if pg_abort pg_dump dump_commit eff
    pg_stop_single srv_begin srv_exec srv_query srv_dquery srv_next srv_scan srv_commit srv_rollback srv_close
    tick emit set_open set_comm set_srv clear_log res_unit res_val
    fst snd p_tx p_multi p_lang p_srv s_comm s_open s_next s_closed s_log s_orc negb olookup oremove oset].

(* ---- association lists ---- *)
Definition kv_equiv (a b : list (bytes * bytes)) : Prop := forall k, alookup k a = alookup k b.

Lemma kv_equiv_aset a b k v : kv_equiv a b -> kv_equiv (aset k v a) (aset k v b).
Proof.
  intros H k2. destruct (bytes_eqb k2 k) eqn:E.
  - apply beqb_true in E. subst. now rewrite !alookup_aset_same.
  - apply beqb_false in E. rewrite !alookup_aset_other by assumption. apply H.
Qed.

Lemma alookup_apply_kv p b k : alookup k (apply_kv p b) = read_kv p b k.
Proof.
  unfold read_kv. induction p as [|[k' v] p IH]; cbn; [now destruct (alookup k b)|].
  destruct (bytes_eqb k k') eqn:E.
  - apply beqb_true in E. subst. apply alookup_aset_same.
  - apply beqb_false in E. rewrite alookup_aset_other by assumption. exact IH.
Qed.

Lemma kv_equiv_apply p a b : kv_equiv a b -> kv_equiv (apply_kv p a) (apply_kv p b).
Proof. intros H k. rewrite !alookup_apply_kv. unfold read_kv. now rewrite H. Qed.

Lemma bytes_leb_refl a : bytes_leb a a = true.
Proof. induction a as [|x a IH]; cbn; [reflexivity|]. rewrite N.ltb_irrefl. exact IH. Qed.

Lemma alookup_ainsert k k' (v : bytes) l :
  alookup k (ainsert k' v l) = if bytes_eqb k k' then Some v else alookup k l.
Proof.
  induction l as [|[k2 v2] l IH]; cbn; [reflexivity|].
  destruct (bytes_leb k' k2) eqn:L; cbn; [reflexivity|].
  rewrite IH. destruct (bytes_eqb k k2) eqn:E2; [|reflexivity].
  apply beqb_true in E2. subst k2.
  destruct (bytes_eqb k k') eqn:E; [|reflexivity].
  apply beqb_true in E. subst k'. rewrite bytes_leb_refl in L. discriminate.
Qed.

Lemma alookup_asort k (l : list (bytes * bytes)) : alookup k (asort l) = alookup k l.
Proof.
  unfold asort. induction l as [|[k' v] l IH]; cbn; [reflexivity|].
  rewrite alookup_ainsert. now rewrite IH.
Qed.

Lemma opt_bytes_eqb_refl o : opt_bytes_eqb o o = true.
Proof. destruct o; cbn; [apply bytes_eqb_refl|reflexivity]. Qed.

Lemma kv_agree_equiv a b : kv_equiv a b -> kv_agree a b = true.
Proof.
  intros H. unfold kv_agree. apply forallb_forall. intros k _. rewrite H. apply opt_bytes_eqb_refl.
Qed.

Lemma kv_agree_sorted a b : kv_equiv b a -> kv_agree a (asort b) = true.
Proof. intros H. apply kv_agree_equiv. intros k. rewrite alookup_asort. symmetry. apply H. Qed.

(* ---- shape ---- *)
Lemma to_key_no_panic c k n : to_key c k <> Panic n.
Proof. unfold to_key. destruct (c_pfx c =? DATATYPE_UNKNOWN); discriminate. Qed.

Lemma to_key_err_pfx c l k e : to_key (set_lang c l) k = Err e -> c_pfx c =? DATATYPE_UNKNOWN = true.
Proof. unfold to_key. cbn [c_pfx set_lang]. destruct (c_pfx c =? DATATYPE_UNKNOWN); [reflexivity|discriminate]. Qed.

(* the iteration of a dump: never a call on a finished transaction; consumes nothing of an exhausted oracle *)
Lemma iter_no_done c id base : forall rest orc evs orc' l,
  dump_iter c id base rest orc = (evs, orc', l) -> existsb (fun e => ev_flag e =? 3) (rev evs) = false.
Proof.
  induction rest as [|[kk vv] rest IH]; intros orc evs orc' l; cbn [dump_iter].
  - intros H. inversion H. cbn. destruct (hd false orc); reflexivity.
  - destruct (hd false orc); [intros H; inversion H; reflexivity|].
    destruct (hd false (tl orc)); [intros H; inversion H; reflexivity|].
    destruct (negb (is_prefix base kk)); [intros H; inversion H; reflexivity|].
    destruct (decode_key c kk); [|intros H; inversion H; reflexivity].
    destruct (dump_iter c id base rest (tl (tl orc))) as [[e o'] l'] eqn:E. intros H. inversion H. subst.
    rewrite rev_app_distr. cbn. exact (IH _ _ _ _ E).
Qed.

Lemma iter_orc_nil c id base : forall rest evs orc' l, dump_iter c id base rest [] = (evs, orc', l) -> orc' = [].
Proof.
  induction rest as [|[kk vv] rest IH]; intros evs orc' l; cbn [dump_iter hd tl].
  - intros H. inversion H. reflexivity.
  - destruct (negb (is_prefix base kk)); [intros H; inversion H; reflexivity|].
    destruct (decode_key c kk); [|intros H; inversion H; reflexivity].
    destruct (dump_iter c id base rest []) as [[e o'] l'] eqn:E. intros H. inversion H. subst. exact (IH _ _ _ eq_refl).
Qed.

Ltac iterfacts :=
  repeat match goal with
  | D : dump_iter _ _ _ _ _ = (?e, _, _) |- _ =>
    lazymatch goal with
    | _ : existsb _ (rev e) = false |- _ => fail
    | _ => pose proof (iter_no_done _ _ _ _ _ _ _ _ D)
    end
  end.

Ltac nopanic :=
  match goal with H : to_key _ _ = Panic _ |- _ => exfalso; revert H; apply to_key_no_panic end.
Ltac pfxerr :=
  match goal with H : to_key (set_lang _ _) _ = Err _ |- _ => pose proof (to_key_err_pfx _ _ _ _ H) end.

Definition shape (st : pg) : Prop :=
  (p_tx st = None /\ s_open (p_srv st) = []) \/
  (exists t p, p_tx st = Some t /\ s_open (p_srv st) = [(t, p)]).


Definition Inv (st : pg) (m : mstate) : Prop :=
  m_started m = p_multi st /\ m_lang m = p_lang st /\ kv_equiv (s_comm (p_srv st)) (m_abs m) /\
  match m_mode m with
  | MSingle => p_tx st = None /\ s_open (p_srv st) = [] /\ s_closed (p_srv st) = false
  | MExpl false ov => exists t, p_tx st = Some t /\ s_open (p_srv st) = [(t, ov)] /\ p_multi st = true /\ s_closed (p_srv st) = false
  | MExpl true _ => p_multi st = true /\ s_closed (p_srv st) = false /\ shape st
  | MClosed => p_tx st = None /\ s_open (p_srv st) = [] /\ s_closed (p_srv st) = true
  end.

Definition guard_post (c : pcfg) (m : mstate) (o : pop) (sr : pg * pres) : Prop :=
  let ms := mon_step c m o (obs_of (fst sr) (snd sr)) in
  k_hit (snd ms) = true \/
  (Inv (fst sr) (fst ms) /\ k_hyg (snd ms) = true /\ k_rec (snd ms) = true).

Ltac rw_hyps := repeat match goal with H : ?x = _ |- context [?x] => rewrite H end.

Ltac kvfin :=
  match goal with
  | |- kv_equiv _ _ =>
    unfold apply_kv; cbn [fold_right fst snd]; fold apply_kv;
    first [assumption | apply kv_equiv_aset; assumption | apply kv_equiv_apply; assumption
          | (intros ?; rewrite alookup_asort; reflexivity) ]
  end.

Lemma read_kv_equiv ov a b k : kv_equiv a b -> read_kv ov b k = read_kv ov a k.
Proof. intros H. unfold read_kv. now rewrite H. Qed.

Ltac recfin :=
  unfold spec_get; cbn;
  match goal with He : kv_equiv ?c ?a |- _ =>
    let Hr := fresh in pose proof (fun ov k => read_kv_equiv ov c a k He) as Hr; rewrite ?Hr;
    unfold kv_equiv in He; rewrite <- ?He end;
  rw_hyps; cbn; rewrite ?bytes_eqb_refl; reflexivity.

Ltac fin_atom :=
  first
  [ reflexivity
  | assumption
  | kvfin
  | (apply kv_agree_sorted; kvfin)
  | (eexists; repeat split; reflexivity)
  | (left; split; reflexivity)
  | (right; do 2 eexists; split; reflexivity)
  | recfin ].

Ltac fin :=
  try (left; reflexivity);
  try match goal with |- ?m = true \/ _ => is_var m; destruct m; [left; reflexivity|] end;
  right; repeat (first [split | apply andb_true_intro]); fin_atom.

Ltac open_post P :=
  subst P; unfold guard_post, mon_step, mon_next, get_check, hyg_check, hit_now, lang_next, put_key, obs_of,
    end_expl, doom, Inv, shape, has_done;
  iterfacts;
  simp; rewrite ?rev_app_distr; rw_hyps; simp.

Lemma guard_step c st m o : Inv st m -> m_hit m = false -> guard_post c m o (pg_step c st o).
Proof.
  destruct st as [tx multi lang [comm open next closed log orc]].
  destruct m as [mode a started hit mlang].
  unfold Inv, shape. cbn. intros (-> & -> & He & Hm) ->.
  remember (guard_post c) as P eqn:HP.
  destruct mode as [|[|] ov|].
  - destruct Hm as (-> & -> & ->). destruct o; unfold_pg_open.
    all: brk; try nopanic; open_post P; fin.
  - destruct Hm as (-> & -> & [[-> ->]|(t & p & -> & ->)]); destruct o; unfold_pg_open.
    all: brk; try nopanic; open_post P; fin.
  - destruct Hm as (t & -> & -> & -> & ->). destruct o; unfold_pg_open.
    all: brk; try nopanic; open_post P; fin.
  - destruct Hm as (-> & -> & ->). destruct o; unfold_pg_open.
    all: brk; try nopanic; open_post P; fin.
Qed.

(* ---- 1. a fault inside an operation is reported ------------------------------------------- *)
Definition fault_post (c : pcfg) (o : pop) (sr : pg * pres) : Prop :=
  o = PAbort \/
  dump_late_fault o (rev (s_log (p_srv (fst sr)))) = true \/
  has_fault (rev (s_log (p_srv (fst sr)))) = false \/
  is_perr (snd sr) = true.

(* any state at all: no invariant is needed for this part *)
Lemma step_fault_reported c st o : fault_post c o (pg_step c st o).
Proof.
  destruct st as [tx multi lang [comm open next closed log orc]].
  remember (fault_post c) as P eqn:HP.
  destruct o; unfold_pg.
  all: brk; subst P; unfold fault_post, dump_late_fault, has_fault; cbn; rewrite ?rev_app_distr; cbn; auto.
  all: match goal with |- context [existsb ?f ?l] => destruct (existsb f l) end; auto.
Qed.

(* ---- 2. at most one transaction, no nil dereference, no call on a finished transaction ------ *)
Definition shape_post (sr : pg * pres) : Prop :=
  shape (fst sr) /\ snd sr <> PPanic /\ has_done (rev (s_log (p_srv (fst sr)))) = false.

Lemma step_shape c st o : shape st -> shape_post (pg_step c st o).
Proof.
  destruct st as [tx multi lang [comm open next closed log orc]].
  unfold shape. cbn. intros [[-> ->]|(t & p & -> & ->)].
  all: remember shape_post as P eqn:HP.
  all: destruct o; unfold_pg_open.
  all: brk; try nopanic; iterfacts; subst P; unfold shape_post, shape, has_done; cbn;
       rewrite ?rev_app_distr; cbn.
  all: (split; [first [left; split; reflexivity | right; do 2 eexists; split; reflexivity]
               | split; [discriminate | first [reflexivity | assumption]]]).
Qed.

(* ---- histories ------------------------------------------------------------------------------ *)
Lemma pg_trace_cons c st o ops :
  pg_trace c st (o :: ops) =
  obs_of (fst (pg_step c st o)) (snd (pg_step c st o)) :: pg_trace c (fst (pg_step c st o)) ops.
Proof. cbn [pg_trace]. destruct (pg_step c st o). reflexivity. Qed.

Lemma mon_run_cons c m o ops ob obs :
  mon_run c m (o :: ops) (ob :: obs) =
  snd (mon_step c m o ob) :: mon_run c (fst (mon_step c m o ob)) ops obs.
Proof. cbn [mon_run]. destruct (mon_step c m o ob). reflexivity. Qed.

Lemma forallb_impl {A} (f g : A -> bool) l :
  (forall x, f x = true -> g x = true) -> forallb f l = true -> forallb g l = true.
Proof.
  intros H. induction l as [|x l IH]; cbn; [reflexivity|].
  intros E. apply andb_true_iff in E. destruct E as [E1 E2]. rewrite (H _ E1), (IH E2). reflexivity.
Qed.

Lemma hit_sticky c : forall ops obs m, m_hit m = true -> forallb k_hit (mon_run c m ops obs) = true.
Proof.
  induction ops as [|o ops IH]; intros obs m Hm; [reflexivity|].
  destruct obs as [|ob obs]; [reflexivity|].
  rewrite mon_run_cons. cbn [forallb]. unfold mon_step at 1. cbn [snd k_hit]. unfold hit_now at 1.
  rewrite Hm. cbn [orb andb]. apply IH. unfold mon_step. cbn [fst m_hit]. unfold hit_now. rewrite Hm. reflexivity.
Qed.

Theorem fault_guarded_all c : forall ops st m,
  c13_fault_guarded (mon_run c m ops (pg_trace c st ops)) = true.
Proof.
  unfold c13_fault_guarded.
  induction ops as [|o ops IH]; intros st m; [reflexivity|].
  rewrite pg_trace_cons, mon_run_cons. cbn [forallb]. rewrite IH, andb_true_r.
  unfold mon_step. cbn [snd k_dsw k_fault]. unfold obs_of, fault_check. cbn [o_evs o_res].
  pose proof (step_fault_reported c st o) as H. unfold fault_post in H.
  destruct H as [->|[H|[H|H]]].
  - apply orb_true_r.
  - rewrite H. reflexivity.
  - rewrite H. destruct o; apply orb_true_r.
  - rewrite H. destruct o; try apply orb_true_r.
    all: match goal with |- context [if ?b then _ else _] => destruct b end; apply orb_true_r.
Qed.

Lemma guarded_all c : forall ops st m,
  Inv st m -> m_hit m = false ->
  forallb (fun k => k_hit k || (k_hyg k && k_rec k)) (mon_run c m ops (pg_trace c st ops)) = true.
Proof.
  induction ops as [|o ops IH]; intros st m HI Hh; [reflexivity|].
  rewrite pg_trace_cons, mon_run_cons. cbn [forallb].
  pose proof (guard_step c st m o HI Hh) as G. unfold guard_post in G. cbn zeta in G.
  set (ms := mon_step c m o (obs_of (fst (pg_step c st o)) (snd (pg_step c st o)))) in *.
  destruct (k_hit (snd ms)) eqn:Hk.
  - cbn [orb andb]. eapply forallb_impl; [|apply hit_sticky].
    + intros x Hx. rewrite Hx. reflexivity.
    + exact Hk.
  - destruct G as [G|(HI' & Hy & Hr)]; [discriminate|]. rewrite Hy, Hr. cbn [orb andb].
    apply IH; [exact HI'|exact Hk].
Qed.

Lemma inv_init c init orc : Inv (new_pg c init orc) (m_init c init).
Proof. unfold Inv. cbn. repeat split. Qed.

Theorem hyg_guarded_all c init ops orc : c13_hyg_guarded (pg_checks c init ops orc) = true.
Proof.
  unfold c13_hyg_guarded, pg_checks, pg_run.
  eapply forallb_impl; [|apply guarded_all; [apply inv_init|reflexivity]].
  intros k H. cbn beta in H. destruct (k_hit k); [reflexivity|].
  cbn in *. apply andb_true_iff in H. apply H.
Qed.

Theorem rec_guarded_all c init ops orc : c13_rec_guarded (pg_checks c init ops orc) = true.
Proof.
  unfold c13_rec_guarded, pg_checks, pg_run.
  eapply forallb_impl; [|apply guarded_all; [apply inv_init|reflexivity]].
  intros k H. cbn beta in H. destruct (k_hit k); [reflexivity|].
  cbn in *. apply andb_true_iff in H. apply H.
Qed.

Theorem fault_guarded_run c init ops orc : c13_fault_guarded (pg_checks c init ops orc) = true.
Proof. apply fault_guarded_all. Qed.

(* unconditional: whatever the key context and the history (sticky or not) *)
Definition sane_obs (ob : pobs) : bool :=
  (o_open ob <=? 1) && negb (pres_eqb (o_res ob) PPanic) && negb (has_done (o_evs ob)).

Lemma sane_all c : forall ops st, shape st -> forallb sane_obs (pg_trace c st ops) = true.
Proof.
  induction ops as [|o ops IH]; intros st Hs; [reflexivity|].
  rewrite pg_trace_cons. cbn [forallb].
  destruct (step_shape c st o Hs) as (Hs' & Hp & Hd).
  rewrite (IH _ Hs'), andb_true_r. unfold sane_obs, obs_of. cbn [o_open o_res o_evs].
  rewrite Hd. destruct (snd (pg_step c st o)) eqn:E; try congruence.
  all: destruct Hs' as [[_ ->]|(t & p & _ & ->)]; reflexivity.
Qed.

Theorem sane_run c init ops orc : forallb sane_obs (pg_run c init ops orc) = true.
Proof. apply sane_all. left. split; reflexivity. Qed.

(* ---- 3. explicit transactions without faults -------------------------------------------------- *)
(* the writes of a transaction body, by storage key; a Dump in the body resets the language *)
Definition bw_step (c : pcfg) (lo : option bytes * list (bytes * bytes)) (o : pop) : option bytes * list (bytes * bytes) :=
  match o with
  | PPut k v => (fst lo, match put_key (set_lang c (fst lo)) k with Some ak => aset ak v (snd lo) | None => snd lo end)
  | PDump _ => (None, snd lo)
  | _ => lo
  end.
Definition body_writes (c : pcfg) (lang : option bytes) (body : list pop) : list (bytes * bytes) :=
  snd (fold_left (bw_step c) body (lang, [])).

Definition data_op (o : pop) : bool := match o with PPut _ _ | PGet _ | PDump _ => true | _ => false end.

(* inside an explicit transaction t with overlay ov, no faults left *)
Definition in_tx (st : pg) (t : N) (lo : option bytes * list (bytes * bytes)) (comm : list (bytes * bytes)) : Prop :=
  p_tx st = Some t /\ p_multi st = true /\ p_lang st = fst lo /\ s_open (p_srv st) = [(t, snd lo)]
  /\ s_comm (p_srv st) = comm /\ s_orc (p_srv st) = [].

Lemma in_tx_step c st t lo comm o :
  in_tx st t lo comm -> data_op o = true -> is_perr (snd (pg_step c st o)) = false ->
  in_tx (fst (pg_step c st o)) t (bw_step c lo o) comm.
Proof.
  destruct st as [tx multi lang [cm open next closed log orc]]. destruct lo as [lg ov].
  unfold in_tx. cbn. intros (-> & -> & -> & -> & -> & ->) Hd.
  destruct o; try discriminate; clear Hd; unfold bw_step, put_key; cbn [fst snd]; unfold_pg_open.
  all: brk; try nopanic; intros; try discriminate; repeat split; try reflexivity.
  all: match goal with D : dump_iter _ _ _ _ [] = _ |- _ => exact (iter_orc_nil _ _ _ _ _ _ _ D) end.
Qed.

(* the state a history leads to *)
Definition pg_final (c : pcfg) (st : pg) (ops : list pop) : pg :=
  fold_left (fun s o => fst (pg_step c s o)) ops st.

Lemma in_tx_body c t comm : forall body st lo,
  in_tx st t lo comm -> forallb data_op body = true ->
  forallb (fun ob => negb (is_perr (o_res ob))) (pg_trace c st body) = true ->
  in_tx (pg_final c st body) t (fold_left (bw_step c) body lo) comm.
Proof.
  induction body as [|o body IH]; intros st lo Hin Hd Hok; [exact Hin|].
  cbn [forallb] in Hd. apply andb_true_iff in Hd. destruct Hd as [Hd1 Hd2].
  rewrite pg_trace_cons in Hok. cbn [forallb] in Hok. apply andb_true_iff in Hok. destruct Hok as [Ho1 Ho2].
  unfold obs_of in Ho1. cbn [o_res] in Ho1. apply negb_true_iff in Ho1.
  unfold pg_final. cbn [fold_left]. apply IH; [apply in_tx_step; assumption|assumption|assumption].
Qed.

Definition idle (st : pg) : Prop :=
  p_tx st = None /\ s_open (p_srv st) = [] /\ s_closed (p_srv st) = false /\ s_orc (p_srv st) = [].

Lemma start_idle c st : idle st ->
  snd (pg_step c st PStart) = POk
  /\ in_tx (fst (pg_step c st PStart)) (s_next (p_srv st)) (p_lang st, []) (s_comm (p_srv st)).
Proof.
  destruct st as [tx multi lang [cm open next closed log orc]]. unfold idle, in_tx. cbn.
  intros (-> & -> & -> & ->). unfold_pg_open. cbn. repeat split.
Qed.

Lemma stop_in_tx c st t lo comm : in_tx st t lo comm ->
  snd (pg_step c st PStop) = POk /\ s_comm (p_srv (fst (pg_step c st PStop))) = apply_kv (snd lo) comm
  /\ s_open (p_srv (fst (pg_step c st PStop))) = [].
Proof.
  destruct st as [tx multi lang [cm open next closed log orc]]. unfold in_tx. cbn.
  intros (-> & -> & _ & -> & -> & ->). unfold_pg_open. cbn. rewrite ?N.eqb_refl. cbn. rewrite ?N.eqb_refl. cbn. repeat split.
Qed.

Lemma abort_in_tx c st t lo comm : in_tx st t lo comm ->
  s_comm (p_srv (fst (pg_step c st PAbort))) = comm /\ s_open (p_srv (fst (pg_step c st PAbort))) = [].
Proof.
  destruct st as [tx multi lang [cm open next closed log orc]]. unfold in_tx. cbn.
  intros (-> & -> & _ & -> & -> & ->). unfold_pg_open. cbn. rewrite ?N.eqb_refl. cbn. rewrite ?N.eqb_refl. cbn. repeat split.
Qed.

Lemma pg_final_app c st a b : pg_final c st (a ++ b) = pg_final c (pg_final c st a) b.
Proof. unfold pg_final. apply fold_left_app. Qed.

Lemma pg_trace_app c : forall a st b, pg_trace c st (a ++ b) = pg_trace c st a ++ pg_trace c (pg_final c st a) b.
Proof.
  induction a as [|o a IH]; intros st b; [reflexivity|].
  rewrite <- app_comm_cons, !pg_trace_cons, IH. reflexivity.
Qed.

Theorem multi_commit_at_stop_lemma c st body :
  idle st -> forallb data_op body = true ->
  forallb (fun ob => negb (is_perr (o_res ob))) (pg_trace c st (PStart :: body ++ [PStop])) = true ->
  let st' := pg_final c st (PStart :: body ++ [PStop]) in
  s_comm (p_srv st') = apply_kv (body_writes c (p_lang st) body) (s_comm (p_srv st)) /\ s_open (p_srv st') = [].
Proof.
  intros Hi Hd Hok. cbn zeta.
  destruct (start_idle c st Hi) as (_ & Hin).
  change (PStart :: body ++ [PStop]) with ([PStart] ++ body ++ [PStop]) in *.
  rewrite pg_trace_app in Hok. rewrite forallb_app in Hok. apply andb_true_iff in Hok.
  destruct Hok as [_ Hok]. rewrite pg_trace_app, forallb_app in Hok. apply andb_true_iff in Hok.
  destruct Hok as [Hok _]. change (pg_final c st [PStart]) with (fst (pg_step c st PStart)) in Hok.
  pose proof (in_tx_body c _ _ body _ _ Hin Hd Hok) as Hb.
  rewrite !pg_final_app. change (pg_final c st [PStart]) with (fst (pg_step c st PStart)).
  destruct (stop_in_tx c _ _ _ _ Hb) as (_ & H1 & H2). split; assumption.
Qed.

Theorem multi_none_after_abort_lemma c st body :
  idle st -> forallb data_op body = true ->
  forallb (fun ob => negb (is_perr (o_res ob))) (pg_trace c st (PStart :: body ++ [PAbort])) = true ->
  let st' := pg_final c st (PStart :: body ++ [PAbort]) in
  s_comm (p_srv st') = s_comm (p_srv st) /\ s_open (p_srv st') = [].
Proof.
  intros Hi Hd Hok. cbn zeta.
  destruct (start_idle c st Hi) as (_ & Hin).
  change (PStart :: body ++ [PAbort]) with ([PStart] ++ body ++ [PAbort]) in *.
  rewrite pg_trace_app in Hok. rewrite forallb_app in Hok. apply andb_true_iff in Hok.
  destruct Hok as [_ Hok]. rewrite pg_trace_app, forallb_app in Hok. apply andb_true_iff in Hok.
  destruct Hok as [Hok _]. change (pg_final c st [PStart]) with (fst (pg_step c st PStart)) in Hok.
  pose proof (in_tx_body c _ _ body _ _ Hin Hd Hok) as Hb.
  rewrite !pg_final_app. change (pg_final c st [PStart]) with (fst (pg_step c st PStart)).
  exact (abort_in_tx c _ _ _ _ Hb).
Qed.
(* ---- 4. witnesses (the faithful model violates the property at full strength) ------------------ *)
Definition wit_user : pcfg := mkCfg DATATYPE_USERDATA safe_lock (s2b "s") None.
Definition wit_trans : pcfg := mkCfg DATATYPE_TEMPLATE 11 (s2b "s") (Some (s2b "nor")).

(* no fault at all: after a completed Start..Stop an acknowledged Put stays in an open transaction
   (hygiene fails at step 3) and the not-found Get of another key rolls it back (Get a at step 5
   does not return the acknowledged value) *)
Definition wit_sticky : list pop :=
  [PStart; PStop; PPut (s2b "a") (s2b "1"); PGet (s2b "b"); PGet (s2b "a")].

Lemma refuted_stickymulti_lemma :
  exists c init ops orc,
    sticky_hit (pg_checks c init ops orc) = true
    /\ existsb (fun b => b) orc = false
    /\ forallb k_hyg (pg_checks c init ops orc) = false
    /\ forallb k_rec (pg_checks c init ops orc) = false
    /\ map o_res (pg_run c init ops orc) = [POk; POk; POk; PErr ENotFound; PErr ENotFound].
Proof. exists wit_user, [], wit_sticky, []. vm_compute. repeat split. Qed.

(* regression (repaired by 8748493; was finding K-C13-trfetch): one fault, the 6th driver call = the
   row fetch on the translated key. Get used to fall through to the default-language row "D" and
   return it without an error; now the fault is reported and the next Get returns "T" *)
Lemma trfetch_reported_lemma :
  let c := wit_trans in
  let init := [(4 :: s2b "a", s2b "D")] in
  let ops := [PPut (s2b "a") (s2b "T"); PGet (s2b "a"); PGet (s2b "a")] in
  let orc := [false; false; false; false; false; true] in
  c13_full (pg_checks c init ops orc) = true
  /\ map o_res (pg_run c init ops orc) = [POk; PErr EFault; PVal (s2b "T")]
  /\ map o_open (pg_run c init ops orc) = [0; 0; 0].
Proof. vm_compute. repeat split. Qed.

(* regression (repaired by f3dc6ab; was finding K-C13-dumpleak): with the prefix UNKNOWN Dump begins a
   transaction and fails in ToKey; it used to return with the transaction open (OpenTx 1; 2; 1), now
   it rolls it back *)
Lemma dumpleak_fixed_lemma :
  let c := mkCfg DATATYPE_UNKNOWN safe_lock (s2b "s") None in
  let ops := [PDump (s2b "a"); PStart; PStop] in
  c13_full (pg_checks c [] ops []) = true
  /\ map o_res (pg_run c [] ops []) = [PErr EGen; POk; POk]
  /\ map o_open (pg_run c [] ops []) = [0; 1; 0]
  /\ map o_evs (pg_run c [] ops []) =
     [[mkEv KBegin 1 0; mkEv KRollback 1 0]; [mkEv KBegin 2 0]; [mkEv KCommit 2 0]].
Proof. vm_compute. repeat split. Qed.

(* K-C13-dumpswallow, one fault (the 12th driver call = the fetch of the second row of the dump):
   Dump of a, ab delivers a only and reports nothing *)
Lemma refuted_dumpswallow_lemma :
  exists c init ops orc,
    dsw_hit (pg_checks c init ops orc) = true
    /\ sticky_hit (pg_checks c init ops orc) = false
    /\ forallb k_fault (pg_checks c init ops orc) = false
    /\ map o_res (pg_run c init ops orc) = [POk; POk; PRows [(s2b "a", s2b "1")]]
    /\ map o_res (pg_run c init ops []) = [POk; POk; PRows [(s2b "a", s2b "1"); (s2b "ab", s2b "2")]].
Proof.
  exists wit_user, [], [PPut (s2b "a") (s2b "1"); PPut (s2b "ab") (s2b "2"); PDump (s2b "a")],
         [false; false; false; false; false; false; false; false; false; false; false; true].
  vm_compute. repeat split.
Qed.

(* the seeded change C13-m3 would break this: the Dump query fails inside an explicit transaction;
   Dump rolls back its OWN transaction, the explicit one survives and commits both writes *)
Lemma dump_fault_in_tx_lemma :
  let ops := [PStart; PPut (s2b "a") (s2b "1"); PDump (s2b "a"); PPut (s2b "b") (s2b "1"); PStop] in
  let orc := [false; false; false; true] in
  c13_full (pg_checks wit_user [] ops orc) = true
  /\ map o_res (pg_run wit_user [] ops orc) = [POk; POk; PErr EFault; POk; POk]
  /\ map o_open (pg_run wit_user [] ops orc) = [1; 1; 1; 1; 0]
  /\ o_comm (last (pg_run wit_user [] ops orc) (mkPobs POk 0 [] [])) =
     [(32 :: s2b "s.a", s2b "1"); (32 :: s2b "s.b", s2b "1")].
Proof. vm_compute. repeat split. Qed.
