(* RoutingProofs.v — C03 (input routing by INCMP) and C04, engine level (the position changes only
   through logged moves, each according to the move table), over the VM and engine models.
   Part A: the run loop unfolded once and for all (run_prelude / run_post / run_unfold).
   Part B: C03.   Part C: C04 for `run`.   Part D: C04 for requests.            (agent routing) *)
From Coq Require Import Lia ZifyN ZifyNat ZifyBool.
From Vise Require Import Bytes Errors Consts EngConsts Codec CacheModel StateModel NavModel NavSpec RenderModel
  VmModel EngineModel BytesProofs CodecProofs CacheProofs NavProofs VmProofs.
Local Open Scope N_scope.

(* ================================================================================== *)
(* Part A — one iteration of Run                                                       *)
(* ================================================================================== *)

(* what Run does before it decodes the instruction (TERMINATE already tested): LANG is reset and
   the context language follows the state's; WAIT is reset and, when it was set (execution resumes
   after a HALT), INMATCH is reset and the page is reset; DIRTY is set *)
Definition run_prelude (lang : option bytes) (v : vmst) : option bytes * vmst :=
  let st := v_st v in
  let change := getf st FLAG_LANG in
  let st := resetf st FLAG_LANG in
  let lang := if change then match s_lang st with Some l => Some l | None => lang end else lang in
  let wait := getf st FLAG_WAIT in
  let st := resetf st FLAG_WAIT in
  let st := if wait then resetf st FLAG_INMATCH else st in
  let pg := if wait then upd_menu menu_reset (page_reset (page_with_error (v_pg v) None)) else v_pg v in
  let st := setf st FLAG_DIRTY in
  (lang, vset_pg (vset_st v st) pg).

(* runErrCheck *)
Definition run_errcheck (h : hres) : hres :=
  let '(v1, b2, s) := h in
  match s with
  | SErr e msg =>
    let v2 := set_page_err v1 msg in
    if getf (v_st v2) FLAG_LOADFAIL && negb (bytes_eqb (where_sym (v_st v2)) catch_sym)
    then (v2, move_catch_code, SOk) else (v2, b2, s)
  | _ => (v1, b2, s)
  end.

(* what Run does with the handler's result (HALT excepted): runErrCheck, runDeadCheck on empty
   code, and the next iteration *)
Definition run_post (fuel : nat) (rs : rsrc) (sep : bytes) (lang : option bytes) (h : hres) : hres :=
  let '(v2, b3, s2) := run_errcheck h in
  match s2 with
  | SOk =>
    match b3 with
    | [] =>
      let '(v3, b4, s3) := dead_check v2 in
      match s3 with
      | SOk => match b4 with [] => (v3, [], SOk) | _ => run fuel rs sep lang b4 v3 end
      | _ => (v3, b4, s3)
      end
    | _ => run fuel rs sep lang b3 v2
    end
  | _ => (v2, b3, s2)
  end.

(* decoding and dispatch of one instruction on the machine the prelude left *)
Definition run_body (fuel : nat) (rs : rsrc) (sep : bytes) (lang : option bytes) (b : bytes) (v0 : vmst) : hres :=
  match op_split b with
  | Err e => (v0, b, SErr e None)
  | Panic n => (v0, b, SPanic n)
  | Ok (op, b1) =>
    match parse_args op b1 with
    | Panic n => (v0, b1, SPanic n)
    | parsed =>
      let h := match parsed with
               | Ok (i, b2) => exec_instr rs sep lang i b2 (vlog v0 (EvInstr op))
               | _ => (v0, b1, SErr EGen None)
               end in
      if op =? op_HALT then h else run_post fuel rs sep lang h
    end
  end.

Lemma run_unfold_gen fuel rs sep lang b v :
  run (S fuel) rs sep lang b v =
  if getf (v_st v) FLAG_TERMINATE then (v, [], SOk)
  else run_body fuel rs sep (fst (run_prelude lang v)) b (snd (run_prelude lang v)).
Proof.
  cbn [run]. destruct (getf (v_st v) FLAG_TERMINATE); [reflexivity|].
  unfold run_body, run_prelude. cbn [fst snd].
  destruct (op_split b) as [[op b1]|e|n]; try reflexivity.
  destruct (parse_args op b1) as [[i b2]|e|n]; try reflexivity.
  match goal with |- context [exec_instr ?a ?b ?c ?d ?e ?f] => destruct (exec_instr a b c d e f) as [[v1 b3] s] end.
  destruct (op =? op_HALT); [reflexivity|].
  unfold run_post, run_errcheck. destruct s; reflexivity.
Qed.

(* ---- well-formed instructions: the decoder is out of the way --------------------------- *)
Definition opcode_of (i : instr) : N :=
  match i with
  | INoop => op_NOOP | ICatch _ _ _ => op_CATCH | ICroak _ _ => op_CROAK | ILoad _ _ => op_LOAD
  | IReload _ => op_RELOAD | IMap _ => op_MAP | IMove _ => op_MOVE | IHalt => op_HALT
  | IInCmp _ _ => op_INCMP | IMSink => op_MSINK | IMOut _ _ => op_MOUT | IMNext _ _ => op_MNEXT
  | IMPrev _ _ => op_MPREV
  end.

Lemma opcode_halt i : (opcode_of i =? op_HALT) = is_halt i.
Proof. destruct i; reflexivity. Qed.

Lemma decode_parts i rest :
  wf_instr i ->
  exists b1, op_split (encode i ++ rest) = Ok (opcode_of i, b1) /\ parse_args (opcode_of i) b1 = Ok (i, rest).
Proof.
  intros Hwf. pose proof (instr_roundtrip_lemma i rest Hwf) as Hd. unfold decode_one in Hd.
  assert (Hop : exists tl, encode i ++ rest = (opcode_of i / 256) mod 256 :: opcode_of i mod 256 :: tl).
  { destruct i; unfold encode, new_line; cbn [List.app opcode_of]; eexists; reflexivity. }
  destruct Hop as [tl Htl]. rewrite Htl in *.
  assert (Hle : opcode_of i <= max_opcode) by (destruct i; vm_compute; discriminate).
  rewrite (op_split_bytes _ tl Hle) in *. cbn [obind] in Hd. exists tl. split; [reflexivity|exact Hd].
Qed.

(* THE unfolding lemma: one well-formed instruction at the head of the code *)
Lemma run_unfold fuel rs sep lang i rest v :
  wf_instr i ->
  run (S fuel) rs sep lang (encode i ++ rest) v =
  if getf (v_st v) FLAG_TERMINATE then (v, [], SOk) else
  let h := exec_instr rs sep (fst (run_prelude lang v)) i rest
             (vlog (snd (run_prelude lang v)) (EvInstr (opcode_of i))) in
  if is_halt i then h else run_post fuel rs sep (fst (run_prelude lang v)) h.
Proof.
  intros Hwf. rewrite run_unfold_gen. destruct (getf (v_st v) FLAG_TERMINATE); [reflexivity|].
  destruct (decode_parts i rest Hwf) as (b1 & Ho & Hp). unfold run_body. rewrite Ho, Hp, opcode_halt. reflexivity.
Qed.

(* run_post, case by case *)
Lemma run_post_ok_more fuel rs sep lang v x b :
  run_post fuel rs sep lang (v, x :: b, SOk) = run fuel rs sep lang (x :: b) v.
Proof. reflexivity. Qed.
Lemma run_post_ok_empty fuel rs sep lang v :
  run_post fuel rs sep lang (v, [], SOk) =
  let '(v3, b4, s3) := dead_check v in
  match s3 with
  | SOk => match b4 with [] => (v3, [], SOk) | _ => run fuel rs sep lang b4 v3 end
  | _ => (v3, b4, s3)
  end.
Proof. reflexivity. Qed.
Lemma run_post_panic fuel rs sep lang v b n : run_post fuel rs sep lang (v, b, SPanic n) = (v, b, SPanic n).
Proof. reflexivity. Qed.
Lemma run_post_fuel fuel rs sep lang v b : run_post fuel rs sep lang (v, b, SFuel) = (v, b, SFuel).
Proof. reflexivity. Qed.

Lemma run_O rs sep lang b v : run O rs sep lang b v = (v, b, SFuel).
Proof. reflexivity. Qed.

(* ---- flag bits ------------------------------------------------------------------------- *)
Definition flags_ok (st : state) : Prop := (8 <= List.length (s_flags st))%nat.

Lemma nth_set_nth_bit_false : forall l n, nth n (set_nth_bit n false l) false = false.
Proof.
  induction l as [|x l IH]; intros [|n]; cbn [set_nth_bit nth]; try reflexivity. apply IH.
Qed.
Lemma getf_resetf_same s i : getf (resetf s i) i = false.
Proof. unfold getf, resetf. cbn [s_flags set_flags]. apply nth_set_nth_bit_false. Qed.
Lemma getf_setf_same s i : (N.to_nat i < List.length (s_flags s))%nat -> getf (setf s i) i = true.
Proof. intros H. unfold getf, setf. cbn [s_flags set_flags]. apply nth_set_nth_bit_same. exact H. Qed.
Lemma flags_len_setf s i : List.length (s_flags (setf s i)) = List.length (s_flags s).
Proof. unfold setf. cbn [s_flags set_flags]. apply length_set_nth_bit. Qed.
Lemma flags_len_resetf s i : List.length (s_flags (resetf s i)) = List.length (s_flags s).
Proof. unfold resetf. cbn [s_flags set_flags]. apply length_set_nth_bit. Qed.
Lemma flags_ok_setf s i : flags_ok s -> flags_ok (setf s i).
Proof. unfold flags_ok. rewrite flags_len_setf. auto. Qed.
Lemma flags_ok_resetf s i : flags_ok s -> flags_ok (resetf s i).
Proof. unfold flags_ok. rewrite flags_len_resetf. auto. Qed.
Lemma getf_setf_builtin s i : flags_ok s -> i < 8 -> getf (setf s i) i = true.
Proof. unfold flags_ok. intros H Hi. apply getf_setf_same. lia. Qed.

Lemma set_nth_bit_idem : forall l n b, set_nth_bit n b (set_nth_bit n b l) = set_nth_bit n b l.
Proof.
  induction l as [|x l IH]; intros [|n] b; cbn [set_nth_bit]; try reflexivity. rewrite IH. reflexivity.
Qed.
Lemma setf_idem s i : setf (setf s i) i = setf s i.
Proof. unfold setf. cbn [s_flags set_flags]. rewrite set_nth_bit_idem. reflexivity. Qed.

(* position, input, code and language are not flags *)
Lemma pos_setf s i : pos_of (setf s i) = pos_of s. Proof. reflexivity. Qed.
Lemma pos_resetf s i : pos_of (resetf s i) = pos_of s. Proof. reflexivity. Qed.
Lemma where_setf s i : where_sym (setf s i) = where_sym s. Proof. reflexivity. Qed.
Lemma where_resetf s i : where_sym (resetf s i) = where_sym s. Proof. reflexivity. Qed.

Ltac fneq := solve [discriminate | vm_compute; discriminate].
Ltac fsimp :=
  repeat first
    [ rewrite getf_resetf_same
    | rewrite getf_setf_other by fneq
    | rewrite getf_resetf_other by fneq ].

(* ---- the prelude ------------------------------------------------------------------------- *)
Definition pre_state (st : state) : state :=
  setf (if getf (resetf st FLAG_LANG) FLAG_WAIT
        then resetf (resetf (resetf st FLAG_LANG) FLAG_WAIT) FLAG_INMATCH
        else resetf (resetf st FLAG_LANG) FLAG_WAIT) FLAG_DIRTY.

Lemma prelude_st lang v : v_st (snd (run_prelude lang v)) = pre_state (v_st v).
Proof. reflexivity. Qed.
Lemma prelude_ca lang v : v_ca (snd (run_prelude lang v)) = v_ca v.
Proof. reflexivity. Qed.
Lemma prelude_log lang v : v_log (snd (run_prelude lang v)) = v_log v.
Proof. reflexivity. Qed.
Lemma prelude_w lang v : v_w (snd (run_prelude lang v)) = v_w v.
Proof. reflexivity. Qed.
Lemma prelude_taint lang v : v_taint (snd (run_prelude lang v)) = v_taint v.
Proof. reflexivity. Qed.
Lemma prelude_pg_nowait lang v :
  getf (v_st v) FLAG_WAIT = false -> v_pg (snd (run_prelude lang v)) = v_pg v.
Proof.
  intros H. unfold run_prelude. cbn [snd v_pg vset_pg]. rewrite getf_resetf_other by fneq. rewrite H. reflexivity.
Qed.

Lemma pre_state_sbf st : same_but_flags st (pre_state st).
Proof. unfold pre_state. destruct (getf (resetf st FLAG_LANG) FLAG_WAIT); unfold same_but_flags;
    cbn [s_code s_path s_bitsize s_idx s_lang s_input setf resetf set_flags]; intuition. Qed.
Lemma pre_state_pos st : pos_of (pre_state st) = pos_of st.
Proof. unfold pre_state. destruct (getf (resetf st FLAG_LANG) FLAG_WAIT); reflexivity. Qed.
Lemma pre_state_where st : where_sym (pre_state st) = where_sym st.
Proof. unfold pre_state. destruct (getf (resetf st FLAG_LANG) FLAG_WAIT); reflexivity. Qed.
Lemma pre_state_input st : s_input (pre_state st) = s_input st.
Proof. unfold pre_state. destruct (getf (resetf st FLAG_LANG) FLAG_WAIT); reflexivity. Qed.
Lemma pre_state_flags_ok st : flags_ok st -> flags_ok (pre_state st).
Proof.
  intros H. unfold pre_state. destruct (getf (resetf st FLAG_LANG) FLAG_WAIT);
    repeat first [apply flags_ok_setf | apply flags_ok_resetf]; exact H.
Qed.
Lemma pre_state_wait st : getf (pre_state st) FLAG_WAIT = false.
Proof. unfold pre_state. destruct (getf (resetf st FLAG_LANG) FLAG_WAIT); fsimp; reflexivity. Qed.
Lemma pre_state_inmatch st :
  getf (pre_state st) FLAG_INMATCH = if getf st FLAG_WAIT then false else getf st FLAG_INMATCH.
Proof.
  unfold pre_state. rewrite (getf_resetf_other st FLAG_WAIT FLAG_LANG) by fneq.
  destruct (getf st FLAG_WAIT); fsimp; reflexivity.
Qed.
Lemma pre_state_other st i :
  i <> FLAG_LANG -> i <> FLAG_WAIT -> i <> FLAG_INMATCH -> i <> FLAG_DIRTY ->
  getf (pre_state st) i = getf st i.
Proof.
  intros H1 H2 H3 H4. unfold pre_state.
  destruct (getf (resetf st FLAG_LANG) FLAG_WAIT); rewrite getf_setf_other by exact H4;
    repeat (rewrite getf_resetf_other by assumption); reflexivity.
Qed.
Lemma pre_state_readin st : getf (pre_state st) FLAG_READIN = getf st FLAG_READIN.
Proof. apply pre_state_other; fneq. Qed.
Lemma pre_state_terminate st : getf (pre_state st) FLAG_TERMINATE = getf st FLAG_TERMINATE.
Proof. apply pre_state_other; fneq. Qed.
(* resumed once, a second prelude changes no routing flag *)
Lemma pre_state_inmatch_nowait st :
  getf st FLAG_WAIT = false -> getf (pre_state st) FLAG_INMATCH = getf st FLAG_INMATCH.
Proof. intros H. rewrite pre_state_inmatch, H. reflexivity. Qed.

(* ---- applyTarget touches nothing but the path and the index (any cache, any outcome) ------ *)
Definition only_pos (st st' : state) : Prop := st' = set_path_idx st (s_path st') (s_idx st').
Lemma only_pos_refl st : only_pos st st.
Proof. unfold only_pos. destruct st; reflexivity. Qed.
Lemma only_pos_set st p i : only_pos st (set_path_idx st p i).
Proof. reflexivity. Qed.
Lemma only_pos_trans a b c : only_pos a b -> only_pos b c -> only_pos a c.
Proof. unfold only_pos. intros H1 H2. rewrite H2. rewrite H1. reflexivity. Qed.

Lemma rewind_only_pos fuel : forall sym st ca st' ca' sym' r,
  rewind fuel sym st ca = (st', ca', sym', r) -> only_pos st st'.
Proof.
  induction fuel as [|f IH]; intros sym st ca st' ca' sym' r H; cbn [rewind] in H.
  - inversion H; subst. apply only_pos_refl.
  - destruct (st_top st) as [[|]| |]; try (inversion H; subst; apply only_pos_refl).
    unfold st_up in H. destruct (s_path st) as [|a l] eqn:Ep; [inversion H; subst; apply only_pos_refl|].
    destruct (cache_pop ca) as [ca1| |].
    + apply IH in H. eapply only_pos_trans; [apply only_pos_set|exact H].
    + inversion H; subst. apply only_pos_set.
    + inversion H; subst. apply only_pos_set.
Qed.

Lemma apply_target_only_pos t st ca st' ca' sym r :
  apply_target t st ca = (st', ca', sym, r) -> only_pos st st'.
Proof.
  rewrite apply_target_ite. destruct (negb (valid_target_b t)); [intros H; inversion H; apply only_pos_refl|].
  destruct (bytes_eqb t t_up).
  { unfold do_up, st_up. destruct (s_path st); [intros H; inversion H; apply only_pos_refl|].
    destruct (cache_pop ca); intros H; inversion H; apply only_pos_set. }
  destruct (bytes_eqb t t_next).
  { unfold do_next, st_next. destruct (s_path st); intros H; inversion H; [apply only_pos_refl|apply only_pos_set]. }
  destruct (bytes_eqb t t_prev).
  { unfold do_prev, st_previous. destruct (s_path st); [intros H; inversion H; apply only_pos_refl|].
    destruct (s_idx st =? 0); intros H; inversion H; [apply only_pos_refl|apply only_pos_set]. }
  destruct (bytes_eqb t t_top); [apply rewind_only_pos|].
  destruct (bytes_eqb t t_same); [intros H; inversion H; apply only_pos_refl|].
  unfold do_named, st_down.
  destruct (MaxLevel + 1 <=? len (s_path st)); [intros H; inversion H; apply only_pos_refl|].
  destruct (bytes_eqb (where_sym st) t); [intros H; inversion H; apply only_pos_refl|].
  destruct (MaxLevel <? len (s_path st)); [intros H; inversion H; apply only_pos_refl|].
  destruct (s_path st) as [|a l]; [intros H; inversion H; apply only_pos_set|].
  destruct (bytes_eqb (last (a :: l) []) t); intros H; inversion H; [apply only_pos_refl|apply only_pos_set].
Qed.

Lemma only_pos_flags st st' : only_pos st st' -> s_flags st' = s_flags st.
Proof. intros H. rewrite H. reflexivity. Qed.
Lemma only_pos_getf st st' i : only_pos st st' -> getf st' i = getf st i.
Proof. intros H. unfold getf. rewrite (only_pos_flags _ _ H). reflexivity. Qed.
Lemma only_pos_input st st' : only_pos st st' -> s_input st' = s_input st.
Proof. intros H. rewrite H. reflexivity. Qed.
Lemma only_pos_flags_ok st st' : only_pos st st' -> flags_ok st -> flags_ok st'.
Proof. unfold flags_ok. intros H. rewrite (only_pos_flags _ _ H). auto. Qed.

(* ================================================================================== *)
(* Part B — C03: routing of the client input by INCMP                                  *)
(* ================================================================================== *)

Definition out_of_fuel (h : hres) : Prop := snd h = SFuel.

(* a block of INCMP lines: (target, selector) pairs *)
Definition incmp_prog (l : list (bytes * bytes)) : list instr := map (fun ds => IInCmp (fst ds) (snd ds)) l.
Definition incmp_block (l : list (bytes * bytes)) : bytes := encode_prog (incmp_prog l).
Definition wf_block (l : list (bytes * bytes)) : Prop := Forall (fun ds => wf_sym (fst ds) /\ wf_sym (snd ds)) l.

(* the INCMP handler's matching rule before any match was made *)
Definition sel_match (input sel : bytes) : bool := bytes_eqb sel input || bytes_eqb sel star.
Definition no_match (input : bytes) (l : list (bytes * bytes)) : bool :=
  forallb (fun ds => negb (sel_match input (snd ds))) l.
(* guard of the "at most one move" theorem: no later INCMP of the block repeats the input literally *)
Definition distinct_after (l : list (bytes * bytes)) (input : bytes) : bool :=
  forallb (fun ds => negb (bytes_eqb (snd ds) input)) l.

Lemma encode_prog_cons i p : encode_prog (i :: p) = encode i ++ encode_prog p.
Proof. reflexivity. Qed.
Lemma incmp_block_nil : incmp_block [] = [].
Proof. reflexivity. Qed.
Lemma incmp_block_cons ds l r :
  incmp_block (ds :: l) ++ r = encode (IInCmp (fst ds) (snd ds)) ++ (incmp_block l ++ r).
Proof. unfold incmp_block. cbn [incmp_prog map]. rewrite encode_prog_cons, <- app_assoc. reflexivity. Qed.
Lemma incmp_block_app l1 l2 : incmp_block (l1 ++ l2) = incmp_block l1 ++ incmp_block l2.
Proof.
  unfold incmp_block, incmp_prog, encode_prog. rewrite !map_app, concat_app. reflexivity.
Qed.
Lemma incmp_block_cons_nonempty ds l r : exists x y, incmp_block (ds :: l) ++ r = x :: y.
Proof.
  rewrite incmp_block_cons. destruct (encode_shape (IInCmp (fst ds) (snd ds))) as (a & b & t & ->).
  eexists. eexists. reflexivity.
Qed.

(* one INCMP line at the head of the code, TERMINATE clear *)
Lemma run_incmp_step fuel rs sep lang d s rest v :
  wf_sym d -> wf_sym s -> getf (v_st v) FLAG_TERMINATE = false ->
  run (S fuel) rs sep lang (encode (IInCmp d s) ++ rest) v =
  run_post fuel rs sep (fst (run_prelude lang v))
    (run_incmp rs sep d s rest (vlog (snd (run_prelude lang v)) (EvInstr op_INCMP))).
Proof.
  intros Hd Hs Ht. rewrite run_unfold by (split; assumption). rewrite Ht. reflexivity.
Qed.

(* the three ways an INCMP line does not fire *)
(* (a) nothing matched yet and this selector does not match: READIN is set *)
Definition step_nomatch (lv : option bytes * vmst) (ds : bytes * bytes) : option bytes * vmst :=
  let v0 := snd (run_prelude (fst lv) (snd lv)) in
  (fst (run_prelude (fst lv) (snd lv)),
   vlog (vset_st (vlog v0 (EvInstr op_INCMP)) (setf (v_st v0) FLAG_READIN)) (EvInCmp (fst ds) (snd ds) false)).
(* (b) a match was made (INMATCH set): the line is passed over, only the prelude acts *)
Definition step_skip (lv : option bytes * vmst) (ds : bytes * bytes) : option bytes * vmst :=
  let v0 := snd (run_prelude (fst lv) (snd lv)) in
  (fst (run_prelude (fst lv) (snd lv)), vlog (vlog v0 (EvInstr op_INCMP)) (EvInCmp (fst ds) (snd ds) false)).
Definition scan_nomatch (lv : option bytes * vmst) (l : list (bytes * bytes)) := fold_left step_nomatch l lv.
Definition scan_skip (lv : option bytes * vmst) (l : list (bytes * bytes)) := fold_left step_skip l lv.

(* "no match so far": execution resumes after HALT (the prelude will clear INMATCH), or INMATCH is clear *)
Definition unmatched (st : state) : Prop := getf st FLAG_WAIT = true \/ getf st FLAG_INMATCH = false.

Lemma unmatched_pre st : unmatched st -> getf (pre_state st) FLAG_INMATCH = false.
Proof.
  intros [H|H]; rewrite pre_state_inmatch; [rewrite H; reflexivity|]. rewrite H. destruct (getf st FLAG_WAIT); reflexivity.
Qed.

Lemma sel_match_false input sel :
  sel_match input sel = false -> bytes_eqb sel input = false /\ bytes_eqb sel star = false.
Proof. unfold sel_match. intros H. apply orb_false_iff in H. exact H. Qed.

Lemma run_nomatch_step fuel rs sep lang d s rest v input :
  wf_sym d -> wf_sym s -> getf (v_st v) FLAG_TERMINATE = false -> s_input (v_st v) = Some input ->
  unmatched (v_st v) -> sel_match input s = false ->
  run (S fuel) rs sep lang (encode (IInCmp d s) ++ rest) v =
  run_post fuel rs sep (fst (step_nomatch (lang, v) (d, s))) (snd (step_nomatch (lang, v) (d, s)), rest, SOk).
Proof.
  intros Hd Hs Ht Hi Hu Hm. rewrite run_incmp_step by assumption.
  destruct (sel_match_false _ _ Hm) as [Hm1 Hm2].
  rewrite (run_incmp_no_match rs sep d s rest _ input).
  - reflexivity.
  - cbn [v_st vlog]. rewrite prelude_st. apply unmatched_pre. exact Hu.
  - cbn [v_st vlog]. rewrite prelude_st, pre_state_input. exact Hi.
  - exact Hm1.
  - exact Hm2.
Qed.

Lemma run_skip_step_matched fuel rs sep lang d s rest v input :
  wf_sym d -> wf_sym s -> getf (v_st v) FLAG_TERMINATE = false -> s_input (v_st v) = Some input ->
  getf (v_st v) FLAG_WAIT = false -> getf (v_st v) FLAG_INMATCH = true ->
  (getf (v_st v) FLAG_READIN = true \/ bytes_eqb s input = false) ->
  run (S fuel) rs sep lang (encode (IInCmp d s) ++ rest) v =
  run_post fuel rs sep (fst (step_skip (lang, v) (d, s))) (snd (step_skip (lang, v) (d, s)), rest, SOk).
Proof.
  intros Hd Hs Ht Hi Hw Hm Hr. rewrite run_incmp_step by assumption.
  assert (Hm' : getf (v_st (vlog (snd (run_prelude lang v)) (EvInstr op_INCMP))) FLAG_INMATCH = true).
  { cbn [v_st vlog]. rewrite prelude_st, pre_state_inmatch_nowait by exact Hw. exact Hm. }
  destruct (getf (v_st v) FLAG_READIN) eqn:Hrd.
  - rewrite run_incmp_skipped; [reflexivity|exact Hm'|].
    cbn [v_st vlog]. rewrite prelude_st, pre_state_readin. exact Hrd.
  - destruct Hr as [Hr|Hr]; [discriminate|].
    rewrite (run_incmp_after_match_other rs sep d s rest _ input); [reflexivity|exact Hm'| | |exact Hr].
    + cbn [v_st vlog]. rewrite prelude_st, pre_state_readin. exact Hrd.
    + cbn [v_st vlog]. rewrite prelude_st, pre_state_input. exact Hi.
Qed.

Lemma run_post_ok_nonempty fuel rs sep lang v b :
  b <> [] -> run_post fuel rs sep lang (v, b, SOk) = run fuel rs sep lang b v.
Proof. destruct b; [contradiction|reflexivity]. Qed.
Lemma incmp_block_cons_ne ds l r : incmp_block (ds :: l) ++ r <> [].
Proof. destruct (incmp_block_cons_nonempty ds l r) as (x & y & ->). discriminate. Qed.

(* a block of lines each of which is passed according to `step`: the run arrives at the code after
   the block with the folded machine (or runs out of fuel) *)
Lemma scan_generic (step : option bytes * vmst -> bytes * bytes -> option bytes * vmst)
      (Inv : vmst -> Prop) (ok : bytes * bytes -> Prop) rs sep :
  (forall fuel lang ds rest v, Inv v -> ok ds ->
     run (S fuel) rs sep lang (encode (IInCmp (fst ds) (snd ds)) ++ rest) v =
     run_post fuel rs sep (fst (step (lang, v) ds)) (snd (step (lang, v) ds), rest, SOk)) ->
  (forall lang v ds, Inv v -> ok ds -> Inv (snd (step (lang, v) ds))) ->
  forall l ds fuel lang r v, Inv v -> Forall ok (ds :: l) ->
    out_of_fuel (run fuel rs sep lang (incmp_block (ds :: l) ++ r) v) \/
    exists f, (f < fuel)%nat /\
      run fuel rs sep lang (incmp_block (ds :: l) ++ r) v =
      run_post f rs sep (fst (fold_left step (ds :: l) (lang, v))) (snd (fold_left step (ds :: l) (lang, v)), r, SOk).
Proof.
  intros Hstep Hinv. induction l as [|ds' l IH]; intros ds fuel lang r v Hv Hok.
  - destruct fuel as [|f]; [left; reflexivity|]. right. exists f. split; [lia|].
    rewrite incmp_block_cons. rewrite incmp_block_nil. cbn [List.app].
    apply Hstep; [exact Hv|]. inversion Hok; assumption.
  - destruct fuel as [|f]; [left; reflexivity|].
    inversion Hok as [|x y Hok1 Hok2]; subst.
    rewrite incmp_block_cons, (Hstep f lang ds _ v Hv Hok1).
    rewrite run_post_ok_nonempty by apply incmp_block_cons_ne.
    specialize (IH ds' f (fst (step (lang, v) ds)) r (snd (step (lang, v) ds)) (Hinv lang v ds Hv Hok1) Hok2).
    rewrite <- surjective_pairing in IH. cbn [fold_left] in *.
    destruct IH as [IH|(f' & Hf' & IH)]; [left; exact IH|].
    right. exists f'. split; [lia|exact IH].
Qed.

(* the same when code follows the block (the block may be empty) *)
Lemma scan_generic_more (step : option bytes * vmst -> bytes * bytes -> option bytes * vmst)
      (Inv : vmst -> Prop) (ok : bytes * bytes -> Prop) rs sep :
  (forall fuel lang ds rest v, Inv v -> ok ds ->
     run (S fuel) rs sep lang (encode (IInCmp (fst ds) (snd ds)) ++ rest) v =
     run_post fuel rs sep (fst (step (lang, v) ds)) (snd (step (lang, v) ds), rest, SOk)) ->
  (forall lang v ds, Inv v -> ok ds -> Inv (snd (step (lang, v) ds))) ->
  forall l fuel lang r v, Inv v -> Forall ok l -> r <> [] ->
    out_of_fuel (run fuel rs sep lang (incmp_block l ++ r) v) \/
    exists f, (f <= fuel)%nat /\
      run fuel rs sep lang (incmp_block l ++ r) v =
      run f rs sep (fst (fold_left step l (lang, v))) r (snd (fold_left step l (lang, v))).
Proof.
  intros Hstep Hinv l fuel lang r v Hv Hok Hr. destruct l as [|ds l].
  - right. exists fuel. split; [lia|reflexivity].
  - destruct (scan_generic step Inv ok rs sep Hstep Hinv l ds fuel lang r v Hv Hok) as [H|(f & Hf & H)]; [left; exact H|].
    right. exists f. split; [lia|]. rewrite H. apply run_post_ok_nonempty. exact Hr.
Qed.

Lemma fold_inv (step : option bytes * vmst -> bytes * bytes -> option bytes * vmst)
      (Inv : vmst -> Prop) (ok : bytes * bytes -> Prop) :
  (forall lang v ds, Inv v -> ok ds -> Inv (snd (step (lang, v) ds))) ->
  forall l lang v, Inv v -> Forall ok l -> Inv (snd (fold_left step l (lang, v))).
Proof.
  intros Hinv. induction l as [|ds l IH]; intros lang v Hv Hok; [exact Hv|].
  inversion Hok; subst. cbn [fold_left]. rewrite (surjective_pairing (step (lang, v) ds)).
  apply IH; [apply Hinv; assumption|assumption].
Qed.

(* ---- the scanning phases --------------------------------------------------------------- *)
Definition nomatch_st (st : state) : state := setf (pre_state st) FLAG_READIN.
Lemma step_nomatch_st lv ds : v_st (snd (step_nomatch lv ds)) = nomatch_st (v_st (snd lv)).
Proof. reflexivity. Qed.
Lemma step_skip_st lv ds : v_st (snd (step_skip lv ds)) = pre_state (v_st (snd lv)).
Proof. reflexivity. Qed.
Lemma step_nomatch_ca lv ds : v_ca (snd (step_nomatch lv ds)) = v_ca (snd lv).
Proof. reflexivity. Qed.
Lemma step_skip_ca lv ds : v_ca (snd (step_skip lv ds)) = v_ca (snd lv).
Proof. reflexivity. Qed.

(* the ghost events of a block no line of which fired (newest first, on top of acc) *)
Fixpoint block_log (l : list (bytes * bytes)) (acc : list ev) : list ev :=
  match l with
  | [] => acc
  | ds :: l' => block_log l' (EvInCmp (fst ds) (snd ds) false :: EvInstr op_INCMP :: acc)
  end.
Lemma scan_nomatch_log l : forall lang v, v_log (snd (scan_nomatch (lang, v) l)) = block_log l (v_log v).
Proof.
  induction l as [|ds l IH]; intros lang v; [reflexivity|]. unfold scan_nomatch in *. cbn [fold_left block_log].
  rewrite (surjective_pairing (step_nomatch (lang, v) ds)), IH. reflexivity.
Qed.
Lemma scan_skip_log l : forall lang v, v_log (snd (scan_skip (lang, v) l)) = block_log l (v_log v).
Proof.
  induction l as [|ds l IH]; intros lang v; [reflexivity|]. unfold scan_skip in *. cbn [fold_left block_log].
  rewrite (surjective_pairing (step_skip (lang, v) ds)), IH. reflexivity.
Qed.
Lemma block_log_app l : forall acc, exists new, block_log l acc = new ++ acc
  /\ Forall (fun e => match e with EvInstr _ | EvInCmp _ _ false => True | _ => False end) new.
Proof.
  induction l as [|ds l IH]; intros acc; [exists []; split; [reflexivity|constructor]|].
  cbn [block_log]. destruct (IH (EvInCmp (fst ds) (snd ds) false :: EvInstr op_INCMP :: acc)) as (new & -> & Hn).
  exists (new ++ [EvInCmp (fst ds) (snd ds) false; EvInstr op_INCMP]). split.
  - rewrite <- app_assoc. reflexivity.
  - apply Forall_app. split; [exact Hn|]. repeat constructor.
Qed.

(* phase 1: nothing has matched yet *)
Definition nm_inv (input : bytes) (v0 v : vmst) : Prop :=
  getf (v_st v) FLAG_TERMINATE = false /\ s_input (v_st v) = Some input /\ unmatched (v_st v)
  /\ flags_ok (v_st v) /\ pos_of (v_st v) = pos_of (v_st v0) /\ v_ca v = v_ca v0.
(* ... and at least one line has been passed: READIN is set, WAIT and INMATCH are clear *)
Definition nm_post (input : bytes) (v0 v : vmst) : Prop :=
  nm_inv input v0 v /\ getf (v_st v) FLAG_WAIT = false /\ getf (v_st v) FLAG_INMATCH = false
  /\ getf (v_st v) FLAG_READIN = true.
Definition nm_ok (input : bytes) (ds : bytes * bytes) : Prop :=
  wf_sym (fst ds) /\ wf_sym (snd ds) /\ sel_match input (snd ds) = false.

Lemma nm_step input v0 lang v ds : nm_inv input v0 v -> nm_post input v0 (snd (step_nomatch (lang, v) ds)).
Proof.
  intros (Ht & Hi & Hu & Hf & Hp & Hc). unfold nm_post, nm_inv.
  rewrite step_nomatch_st, step_nomatch_ca. cbn [snd]. unfold nomatch_st.
  assert (Hf' : flags_ok (pre_state (v_st v))) by (apply pre_state_flags_ok; exact Hf).
  repeat split.
  - rewrite getf_setf_other by fneq. rewrite pre_state_terminate. exact Ht.
  - cbn [s_input setf set_flags]. rewrite pre_state_input. exact Hi.
  - right. rewrite getf_setf_other by fneq. apply unmatched_pre. exact Hu.
  - apply flags_ok_setf. exact Hf'.
  - rewrite pos_setf, pre_state_pos. exact Hp.
  - exact Hc.
  - rewrite getf_setf_other by fneq. apply pre_state_wait.
  - rewrite getf_setf_other by fneq. apply unmatched_pre. exact Hu.
  - apply getf_setf_builtin; [exact Hf'|reflexivity].
Qed.
Lemma nm_post_inv input v0 v : nm_post input v0 v -> nm_inv input v0 v.
Proof. intros [H _]. exact H. Qed.

Lemma nm_wf_block input l : wf_block l -> no_match input l = true -> Forall (nm_ok input) l.
Proof.
  unfold wf_block, no_match. intros Hw Hn. rewrite forallb_forall in Hn. rewrite Forall_forall in *.
  intros ds Hin. destruct (Hw ds Hin) as [H1 H2]. split; [exact H1|split; [exact H2|]].
  apply negb_true_iff. apply Hn. exact Hin.
Qed.

Lemma nm_run_step input v0 rs sep fuel lang ds rest v :
  nm_inv input v0 v -> nm_ok input ds ->
  run (S fuel) rs sep lang (encode (IInCmp (fst ds) (snd ds)) ++ rest) v =
  run_post fuel rs sep (fst (step_nomatch (lang, v) ds)) (snd (step_nomatch (lang, v) ds), rest, SOk).
Proof.
  intros (Ht & Hi & Hu & _) (Hd & Hs & Hm). destruct ds as [d s]. cbn [fst snd] in *.
  apply (run_nomatch_step fuel rs sep lang d s rest v input); assumption.
Qed.

(* the whole phase: a non-empty block without a match *)
Lemma scan_nomatch_run rs sep input l ds fuel lang r v :
  nm_inv input v v -> wf_block (ds :: l) -> no_match input (ds :: l) = true ->
  (out_of_fuel (run fuel rs sep lang (incmp_block (ds :: l) ++ r) v) \/
   exists f, (f < fuel)%nat /\
     run fuel rs sep lang (incmp_block (ds :: l) ++ r) v =
     run_post f rs sep (fst (scan_nomatch (lang, v) (ds :: l))) (snd (scan_nomatch (lang, v) (ds :: l)), r, SOk))
  /\ nm_post input v (snd (scan_nomatch (lang, v) (ds :: l))).
Proof.
  intros Hv Hw Hn. pose proof (nm_wf_block _ _ Hw Hn) as Hok. split.
  - apply (scan_generic step_nomatch (nm_inv input v) (nm_ok input) rs sep); try assumption.
    + intros. apply (nm_run_step input v); assumption.
    + intros lang0 v1 ds0 H1 _. apply nm_post_inv. apply nm_step. exact H1.
  - unfold scan_nomatch. cbn [fold_left]. rewrite (surjective_pairing (step_nomatch (lang, v) ds)).
    inversion Hok as [|x y Hok1 Hok2]; subst.
    apply (fold_inv step_nomatch (nm_post input v) (nm_ok input)).
    + intros lang0 v1 ds0 Hx _. apply nm_step. apply nm_post_inv. exact Hx.
    + apply nm_step. exact Hv.
    + assumption.
Qed.

Lemma pos_where a b : pos_of a = pos_of b -> where_sym a = where_sym b.
Proof. unfold pos_of, where_sym. intros H. injection H as H1 _. rewrite H1. reflexivity. Qed.

Lemma dead_check_nowhere v :
  getf (v_st v) FLAG_READIN = true -> getf (v_st v) FLAG_TERMINATE = false ->
  (where_sym (v_st v) = [] \/ where_sym (v_st v) = catch_sym) ->
  dead_check v = (v, [], SErr EGen None).
Proof.
  intros H1 H2 Hw. unfold dead_check. rewrite H1, H2. cbn [negb].
  destruct Hw as [Hw|Hw]; rewrite Hw; reflexivity.
Qed.

Lemma run_post_dead_catch fuel rs sep lang v :
  getf (v_st v) FLAG_READIN = true -> getf (v_st v) FLAG_TERMINATE = false ->
  where_sym (v_st v) <> [] -> where_sym (v_st v) <> catch_sym ->
  run_post fuel rs sep lang (v, [], SOk) =
  run fuel rs sep lang move_catch_code
      (vset_pg v (page_with_error (v_pg v) (Some (msg_invalid_input (s_input (v_st v)))))).
Proof.
  intros H1 H2 H3 H4. rewrite run_post_ok_empty, dead_check_catch; try assumption; [reflexivity|].
  destruct (bytes_eqb (where_sym (v_st v)) catch_sym) eqn:E; [|reflexivity].
  apply BytesProofs.bytes_eqb_eq in E. contradiction.
Qed.
Lemma run_post_dead_nowhere fuel rs sep lang v :
  getf (v_st v) FLAG_READIN = true -> getf (v_st v) FLAG_TERMINATE = false ->
  (where_sym (v_st v) = [] \/ where_sym (v_st v) = catch_sym) ->
  run_post fuel rs sep lang (v, [], SOk) = (v, [], SErr EGen None).
Proof. intros H1 H2 H3. rewrite run_post_ok_empty, dead_check_nowhere by assumption. reflexivity. Qed.

(* ---- C03_no_match_goes_to_catch ---------------------------------------------------------- *)
(* start of a routing block: TERMINATE clear, an input is set, no match so far (in particular:
   WAIT set, the resume after a HALT — then INMATCH and READIN may be anything), 8 built-in flags *)
Definition routing_start (input : bytes) (v : vmst) : Prop :=
  getf (v_st v) FLAG_TERMINATE = false /\ s_input (v_st v) = Some input /\ unmatched (v_st v) /\ flags_ok (v_st v).
Lemma routing_start_inv input v : routing_start input v -> nm_inv input v v.
Proof. intros (H1 & H2 & H3 & H4). unfold nm_inv. auto 10. Qed.
Lemma resume_is_start input v :
  getf (v_st v) FLAG_TERMINATE = false -> s_input (v_st v) = Some input -> getf (v_st v) FLAG_WAIT = true ->
  flags_ok (v_st v) -> routing_start input v.
Proof. intros. unfold routing_start, unmatched. auto. Qed.

Lemma no_match_goes_to_catch_lemma : forall fuel rs sep lang input ds l v,
  routing_start input v -> wf_block (ds :: l) -> no_match input (ds :: l) = true ->
  let lv := scan_nomatch (lang, v) (ds :: l) in
  (* nothing moved; no line fired *)
  pos_of (v_st (snd lv)) = pos_of (v_st v) /\ v_ca (snd lv) = v_ca v
  /\ v_log (snd lv) = block_log (ds :: l) (v_log v)
  (* at a node other than _catch: MOVE _catch runs next, on a page carrying the invalid-input error *)
  /\ (where_sym (v_st v) <> [] -> where_sym (v_st v) <> catch_sym ->
      out_of_fuel (run fuel rs sep lang (incmp_block (ds :: l)) v) \/
      exists f, (f < fuel)%nat /\
        run fuel rs sep lang (incmp_block (ds :: l)) v =
        run f rs sep (fst lv) move_catch_code
            (vset_pg (snd lv) (page_with_error (v_pg (snd lv)) (Some (msg_invalid_input (Some input))))))
  (* at _catch itself (or nowhere): the run fails *)
  /\ (where_sym (v_st v) = [] \/ where_sym (v_st v) = catch_sym ->
      out_of_fuel (run fuel rs sep lang (incmp_block (ds :: l)) v) \/
      run fuel rs sep lang (incmp_block (ds :: l)) v = (snd lv, [], SErr EGen None)).
Proof.
  intros fuel rs sep lang input ds l v Hs Hw Hn lv.
  destruct (scan_nomatch_run rs sep input l ds fuel lang [] v (routing_start_inv _ _ Hs) Hw Hn) as [Hrun Hpost].
  fold lv in Hrun, Hpost. rewrite app_nil_r in Hrun.
  destruct Hpost as ((Ht & Hi & Hu & Hf & Hp & Hc) & Hwt & Hm & Hr).
  split; [exact Hp|]. split; [exact Hc|]. split; [apply scan_nomatch_log|].
  pose proof (pos_where _ _ Hp) as Hwh. split.
  - intros H1 H2. destruct Hrun as [Hrun|(f & Hf' & Hrun)]; [left; exact Hrun|]. right. exists f. split; [exact Hf'|].
    rewrite Hrun, run_post_dead_catch; try assumption; try (rewrite Hwh; assumption).
    rewrite Hi. reflexivity.
  - intros H1. destruct Hrun as [Hrun|(f & Hf' & Hrun)]; [left; exact Hrun|]. right.
    rewrite Hrun. apply run_post_dead_nowhere; try assumption. rewrite Hwh. exact H1.
Qed.

(* code follows the block: it runs next, with READIN set and INMATCH clear *)
Lemma no_match_continues_lemma : forall fuel rs sep lang input ds l r v,
  routing_start input v -> wf_block (ds :: l) -> no_match input (ds :: l) = true -> r <> [] ->
  let lv := scan_nomatch (lang, v) (ds :: l) in
  (out_of_fuel (run fuel rs sep lang (incmp_block (ds :: l) ++ r) v) \/
   exists f, (f < fuel)%nat /\ run fuel rs sep lang (incmp_block (ds :: l) ++ r) v = run f rs sep (fst lv) r (snd lv))
  /\ pos_of (v_st (snd lv)) = pos_of (v_st v) /\ v_ca (snd lv) = v_ca v
  /\ v_log (snd lv) = block_log (ds :: l) (v_log v)
  /\ getf (v_st (snd lv)) FLAG_READIN = true /\ getf (v_st (snd lv)) FLAG_INMATCH = false
  /\ getf (v_st (snd lv)) FLAG_WAIT = false.
Proof.
  intros fuel rs sep lang input ds l r v Hs Hw Hn Hr lv.
  destruct (scan_nomatch_run rs sep input l ds fuel lang r v (routing_start_inv _ _ Hs) Hw Hn) as [Hrun Hpost].
  fold lv in Hrun, Hpost.
  destruct Hpost as ((Ht & Hi & Hu & Hf & Hp & Hc) & Hwt & Hm & Hrd).
  split.
  - destruct Hrun as [Hrun|(f & Hf' & Hrun)]; [left; exact Hrun|]. right. exists f. split; [exact Hf'|].
    rewrite Hrun. apply run_post_ok_nonempty. exact Hr.
  - repeat split; try assumption. apply scan_nomatch_log.
Qed.

(* ---- the first matching line ---------------------------------------------------------------- *)
(* the state applyTarget is called on: INMATCH set, READIN clear (st = state after the prelude) *)
Definition match_st (st : state) : state :=
  resetf (setf (setf st FLAG_READIN) FLAG_INMATCH) FLAG_READIN.

(* machine after a firing INCMP whose target's code could be fetched (or not): vI = machine the
   handler was entered with *)
Definition fire_vm (rs : rsrc) (sep : bytes) (vI : vmst) (d s : bytes) (st' : state) (ca' : cache) (nsym : bytes) : vmst :=
  let v1 := vset_ca (vset_st vI st') ca' in
  let v2 := vlog (vlog (vset_pg v1 (vm_reset sep (v_pg v1))) (EvInCmp d s true)) (EvMove 1 d nsym) in
  if rs_observed rs then vlog v2 (EvCode nsym) else v2.
(* machine after a matching "previous" on the first page (IndexError): READIN set again *)
Definition noprev_vm (vI : vmst) (d s : bytes) (st' : state) (ca' : cache) : vmst :=
  vlog (vset_st (vset_ca (vset_st vI st') ca') (setf st' FLAG_READIN)) (EvInCmp d s false).

Definition match_outcome (rs : rsrc) (sep : bytes) (d s rest : bytes) (vI : vmst) : hres :=
  let '(st', ca', nsym, r) := apply_target d (match_st (v_st vI)) (v_ca vI) in
  match r with
  | SOk =>
    match rs_code rs nsym with
    | Ok code => (fire_vm rs sep vI d s st' ca' nsym, rest ++ code, SOk)
    | Err e => (fire_vm rs sep vI d s st' ca' nsym, rest, SErr e None)
    | Panic n => (fire_vm rs sep vI d s st' ca' nsym, rest, SPanic n)
    end
  | SErr EIndex _ => (noprev_vm vI d s st' ca', rest, SOk)
  | _ => (vset_ca (vset_st vI st') ca', rest, r)
  end.

Lemma run_incmp_match rs sep d s rest vI input :
  getf (v_st vI) FLAG_INMATCH = false -> s_input (v_st vI) = Some input -> sel_match input s = true ->
  run_incmp rs sep d s rest vI = match_outcome rs sep d s rest vI.
Proof.
  intros Hm Hi Hs. unfold run_incmp, match_outcome, match_st. rewrite Hm. cbn [andb negb].
  destruct vI as [st ca pg w lg t]. cbn [v_st vset_st v_ca] in *. rewrite s_input_setf, Hi.
  assert (Hc : bytes_eqb s star || bytes_eqb s input = true).
  { unfold sel_match in Hs. rewrite orb_comm. exact Hs. }
  rewrite Hc.
  destruct (apply_target d _ ca) as [[[st' ca'] nsym] r].
  destruct r as [|e m|n|]; try reflexivity.
Qed.

Lemma run_match_step fuel rs sep lang d s rest v input v0 :
  wf_sym d -> wf_sym s -> nm_inv input v0 v -> sel_match input s = true ->
  run (S fuel) rs sep lang (encode (IInCmp d s) ++ rest) v =
  run_post fuel rs sep (fst (run_prelude lang v))
    (match_outcome rs sep d s rest (vlog (snd (run_prelude lang v)) (EvInstr op_INCMP))).
Proof.
  intros Hd Hs (Ht & Hi & Hu & _) Hm. rewrite run_incmp_step by assumption.
  rewrite (run_incmp_match rs sep d s rest _ input); [reflexivity| | |exact Hm].
  - cbn [v_st vlog]. rewrite prelude_st. apply unmatched_pre. exact Hu.
  - cbn [v_st vlog]. rewrite prelude_st, pre_state_input. exact Hi.
Qed.

(* phase 2: a match has been made (INMATCH set, WAIT clear).  Lines are passed over when READIN is
   set (the match was a failed "previous"), or when their selector is not literally the input *)
Definition sk_inv (input : bytes) (v0 v : vmst) : Prop :=
  getf (v_st v) FLAG_TERMINATE = false /\ s_input (v_st v) = Some input
  /\ getf (v_st v) FLAG_WAIT = false /\ getf (v_st v) FLAG_INMATCH = true
  /\ flags_ok (v_st v) /\ pos_of (v_st v) = pos_of (v_st v0) /\ v_ca v = v_ca v0
  /\ getf (v_st v) FLAG_READIN = getf (v_st v0) FLAG_READIN.
Definition sk_ok (input : bytes) (v0 : vmst) (ds : bytes * bytes) : Prop :=
  wf_sym (fst ds) /\ wf_sym (snd ds)
  /\ (getf (v_st v0) FLAG_READIN = true \/ bytes_eqb (snd ds) input = false).

Lemma sk_step input v0 lang v ds : sk_inv input v0 v -> sk_inv input v0 (snd (step_skip (lang, v) ds)).
Proof.
  intros (Ht & Hi & Hw & Hm & Hf & Hp & Hc & Hr). unfold sk_inv.
  rewrite step_skip_st, step_skip_ca. cbn [snd].
  repeat split.
  - rewrite pre_state_terminate. exact Ht.
  - rewrite pre_state_input. exact Hi.
  - apply pre_state_wait.
  - rewrite pre_state_inmatch_nowait by exact Hw. exact Hm.
  - apply pre_state_flags_ok. exact Hf.
  - rewrite pre_state_pos. exact Hp.
  - exact Hc.
  - rewrite pre_state_readin. exact Hr.
Qed.

Lemma sk_run_step input v0 rs sep fuel lang ds rest v :
  sk_inv input v0 v -> sk_ok input v0 ds ->
  run (S fuel) rs sep lang (encode (IInCmp (fst ds) (snd ds)) ++ rest) v =
  run_post fuel rs sep (fst (step_skip (lang, v) ds)) (snd (step_skip (lang, v) ds), rest, SOk).
Proof.
  intros (Ht & Hi & Hw & Hm & Hf & Hp & Hc & Hr) (Hd & Hs & Hx). destruct ds as [d s]. cbn [fst snd] in *.
  apply (run_skip_step_matched fuel rs sep lang d s rest v input); try assumption.
  rewrite Hr. exact Hx.
Qed.

Definition sk_guard (input : bytes) (v0 : vmst) (l : list (bytes * bytes)) : Prop :=
  getf (v_st v0) FLAG_READIN = true \/ distinct_after l input = true.
Lemma sk_wf_block input v0 l : wf_block l -> sk_guard input v0 l -> Forall (sk_ok input v0) l.
Proof.
  unfold wf_block, sk_guard, distinct_after. intros Hw Hg. rewrite Forall_forall in *.
  intros ds Hin. destruct (Hw ds Hin) as [H1 H2]. split; [exact H1|split; [exact H2|]].
  destruct Hg as [Hg|Hg]; [left; exact Hg|right].
  rewrite forallb_forall in Hg. apply negb_true_iff. apply Hg. exact Hin.
Qed.

Lemma scan_skip_inv input v0 l lang v :
  sk_inv input v0 v -> sk_inv input v0 (snd (scan_skip (lang, v) l)).
Proof.
  intros Hv. apply (fold_inv step_skip (sk_inv input v0) (fun _ => True)).
  - intros lang0 v1 ds0 Hx _. apply sk_step. exact Hx.
  - exact Hv.
  - apply Forall_forall. auto.
Qed.

Lemma scan_skip_run rs sep input l ds fuel lang r v :
  sk_inv input v v -> wf_block (ds :: l) -> sk_guard input v (ds :: l) ->
  out_of_fuel (run fuel rs sep lang (incmp_block (ds :: l) ++ r) v) \/
  exists f, (f < fuel)%nat /\
    run fuel rs sep lang (incmp_block (ds :: l) ++ r) v =
    run_post f rs sep (fst (scan_skip (lang, v) (ds :: l))) (snd (scan_skip (lang, v) (ds :: l)), r, SOk).
Proof.
  intros Hv Hw Hg. pose proof (sk_wf_block _ _ _ Hw Hg) as Hok.
  apply (scan_generic step_skip (sk_inv input v) (sk_ok input v) rs sep); try assumption.
  - intros. apply (sk_run_step input v); assumption.
  - intros lang0 v1 ds0 Hx _. apply sk_step. exact Hx.
Qed.

(* the same for a possibly empty block in front of a possibly empty rest: run_post form *)
Lemma scan_skip_post rs sep input l fuel lang r v :
  sk_inv input v v -> wf_block l -> sk_guard input v l ->
  out_of_fuel (run_post fuel rs sep lang (v, incmp_block l ++ r, SOk)) \/
  exists f, (f <= fuel)%nat /\
    run_post fuel rs sep lang (v, incmp_block l ++ r, SOk) =
    run_post f rs sep (fst (scan_skip (lang, v) l)) (snd (scan_skip (lang, v) l), r, SOk).
Proof.
  intros Hv Hw Hg. destruct l as [|ds l].
  - right. exists fuel. split; [lia|reflexivity].
  - rewrite run_post_ok_nonempty by apply incmp_block_cons_ne.
    destruct (scan_skip_run rs sep input l ds fuel lang r v Hv Hw Hg) as [H|(f & Hf & H)]; [left; exact H|].
    right. exists f. split; [lia|exact H].
Qed.

(* ---- C03_first_match_fires ------------------------------------------------------------------ *)
(* (context language, machine) with which the handler of the first matching line is entered:
   the lines before it have been passed without a match, the prelude has run, the opcode is logged *)
Definition at_match (lang : option bytes) (v : vmst) (l1 : list (bytes * bytes)) : option bytes * vmst :=
  let lv1 := scan_nomatch (lang, v) l1 in
  (fst (run_prelude (fst lv1) (snd lv1)), vlog (snd (run_prelude (fst lv1) (snd lv1))) (EvInstr op_INCMP)).

Lemma scan_nomatch_inv input v0 l lang v :
  nm_inv input v0 v -> nm_inv input v0 (snd (scan_nomatch (lang, v) l)).
Proof.
  intros Hv. apply (fold_inv step_nomatch (nm_inv input v0) (fun _ => True)).
  - intros lang0 v1 ds0 Hx _. apply nm_post_inv, nm_step. exact Hx.
  - exact Hv.
  - apply Forall_forall. auto.
Qed.

Lemma match_st_facts st :
  flags_ok st ->
  getf (match_st st) FLAG_INMATCH = true /\ getf (match_st st) FLAG_READIN = false
  /\ (forall i, i <> FLAG_INMATCH -> i <> FLAG_READIN -> getf (match_st st) i = getf st i)
  /\ pos_of (match_st st) = pos_of st /\ s_input (match_st st) = s_input st /\ flags_ok (match_st st).
Proof.
  intros Hf. unfold match_st. repeat split.
  - rewrite getf_resetf_other by fneq. apply getf_setf_builtin; [apply flags_ok_setf; exact Hf|reflexivity].
  - apply getf_resetf_same.
  - intros i H1 H2. rewrite getf_resetf_other by exact H2. rewrite getf_setf_other by exact H1.
    apply getf_setf_other. exact H2.
  - apply flags_ok_resetf, flags_ok_setf, flags_ok_setf. exact Hf.
Qed.

Lemma at_match_facts lang v l1 input :
  routing_start input v ->
  let vI := snd (at_match lang v l1) in
  pos_of (v_st vI) = pos_of (v_st v) /\ v_ca vI = v_ca v
  /\ v_log vI = EvInstr op_INCMP :: block_log l1 (v_log v)
  /\ s_input (v_st vI) = Some input /\ flags_ok (v_st vI)
  /\ getf (v_st vI) FLAG_TERMINATE = false /\ getf (v_st vI) FLAG_WAIT = false
  /\ getf (v_st vI) FLAG_INMATCH = false.
Proof.
  intros Hs vI. pose proof (scan_nomatch_inv input v l1 lang v (routing_start_inv _ _ Hs)) as (Ht & Hi & Hu & Hf & Hp & Hc).
  subst vI. unfold at_match. cbn [snd v_st v_ca v_log vlog]. rewrite prelude_st, prelude_ca, prelude_log.
  repeat split.
  - rewrite pre_state_pos. exact Hp.
  - exact Hc.
  - rewrite scan_nomatch_log. reflexivity.
  - rewrite pre_state_input. exact Hi.
  - apply pre_state_flags_ok. exact Hf.
  - rewrite pre_state_terminate. exact Ht.
  - apply pre_state_wait.
  - apply unmatched_pre. exact Hu.
Qed.

(* the run up to and including the handler of the first matching line *)
Lemma first_match_general fuel rs sep lang input l1 d s l2 r v :
  routing_start input v -> wf_block l1 -> wf_sym d -> wf_sym s ->
  no_match input l1 = true -> sel_match input s = true ->
  out_of_fuel (run fuel rs sep lang (incmp_block (l1 ++ (d, s) :: l2) ++ r) v) \/
  exists f, (f < fuel)%nat /\
    run fuel rs sep lang (incmp_block (l1 ++ (d, s) :: l2) ++ r) v =
    run_post f rs sep (fst (at_match lang v l1))
      (match_outcome rs sep d s (incmp_block l2 ++ r) (snd (at_match lang v l1))).
Proof.
  intros Hs Hw Hd Hsel Hn Hm.
  rewrite incmp_block_app, <- app_assoc, (incmp_block_cons (d, s) l2 r). cbn [fst snd].
  pose proof (routing_start_inv _ _ Hs) as Hv.
  destruct (scan_generic_more step_nomatch (nm_inv input v) (nm_ok input) rs sep) with
    (l := l1) (fuel := fuel) (lang := lang) (v := v)
    (r := encode (IInCmp d s) ++ incmp_block l2 ++ r) as [H|(f & Hf & H)].
  - intros. apply (nm_run_step input v); assumption.
  - intros lang0 v1 ds0 Hx _. apply nm_post_inv, nm_step. exact Hx.
  - exact Hv.
  - apply nm_wf_block; assumption.
  - destruct (encode_shape (IInCmp d s)) as (a & b & t & ->). discriminate.
  - left. exact H.
  - destruct f as [|f]; [left; rewrite H; reflexivity|]. right. exists f. split; [lia|].
    rewrite H. fold (scan_nomatch (lang, v) l1).
    rewrite (run_match_step f rs sep _ d s _ _ input v); try assumption; [reflexivity|].
    apply scan_nomatch_inv. exact Hv.
Qed.

Lemma first_match_fires_lemma : forall fuel rs sep lang input l1 d s l2 r v st' ca' nsym code,
  routing_start input v -> wf_block l1 -> wf_sym d -> wf_sym s ->
  no_match input l1 = true -> sel_match input s = true ->
  let vI := snd (at_match lang v l1) in
  (* the move: applyTarget on the position the block was entered with, INMATCH set, READIN clear *)
  apply_target d (match_st (v_st vI)) (v_ca vI) = (st', ca', nsym, SOk) ->
  rs_code rs nsym = Ok code ->
  (out_of_fuel (run fuel rs sep lang (incmp_block (l1 ++ (d, s) :: l2) ++ r) v) \/
   exists f, (f < fuel)%nat /\
     run fuel rs sep lang (incmp_block (l1 ++ (d, s) :: l2) ++ r) v =
     run_post f rs sep (fst (at_match lang v l1))
       (fire_vm rs sep vI d s st' ca' nsym, (incmp_block l2 ++ r) ++ code, SOk))
  /\ pos_of (match_st (v_st vI)) = pos_of (v_st v) /\ v_ca vI = v_ca v
  /\ getf (match_st (v_st vI)) FLAG_INMATCH = true /\ getf (match_st (v_st vI)) FLAG_READIN = false
  /\ v_st (fire_vm rs sep vI d s st' ca' nsym) = st' /\ v_ca (fire_vm rs sep vI d s st' ca' nsym) = ca'
  /\ v_log (fire_vm rs sep vI d s st' ca' nsym) =
     (if rs_observed rs then [EvCode nsym] else []) ++
     EvMove 1 d nsym :: EvInCmp d s true :: EvInstr op_INCMP :: block_log l1 (v_log v).
Proof.
  intros fuel rs sep lang input l1 d s l2 r v st' ca' nsym code Hs Hw Hd Hsel Hn Hm vI Ha Hc.
  destruct (at_match_facts lang v l1 input Hs) as (Hp & Hca & Hlog & Hi & Hf & Ht & Hwt & Him). fold vI in Hp, Hca, Hlog, Hi, Hf, Ht, Hwt, Him.
  destruct (match_st_facts _ Hf) as (M1 & M2 & M3 & M4 & M5 & M6).
  split.
  - destruct (first_match_general fuel rs sep lang input l1 d s l2 r v Hs Hw Hd Hsel Hn Hm) as [H|(f & Hf' & H)]; [left; exact H|].
    right. exists f. split; [exact Hf'|]. rewrite H. fold vI. unfold match_outcome. rewrite Ha, Hc. reflexivity.
  - rewrite M4. repeat split; try assumption.
    + unfold fire_vm. destruct (rs_observed rs); reflexivity.
    + unfold fire_vm. destruct (rs_observed rs); reflexivity.
    + unfold fire_vm. destruct (rs_observed rs); cbn [v_log vlog vset_pg vset_ca vset_st List.app]; rewrite Hlog; reflexivity.
Qed.

(* ---- C03_prev_on_first_page_is_no_match ------------------------------------------------------ *)
Lemma block_log_app_eq a : forall b acc, block_log (a ++ b) acc = block_log b (block_log a acc).
Proof. induction a as [|x a IH]; intros b acc; [reflexivity|]. cbn [List.app block_log]. apply IH. Qed.

Lemma wf_sym_prev : wf_sym t_prev.
Proof. unfold wf_sym, bytes_ok, t_prev. split; [repeat constructor|]. rewrite len_cons, len_nil. lia. Qed.

Lemma pos_path_idx a b : pos_of a = pos_of b -> s_path a = s_path b /\ s_idx a = s_idx b.
Proof. unfold pos_of. intros H. injection H. auto. Qed.

(* the machine a matching "previous" on the first page leaves *)
Lemma noprev_facts vI input s :
  s_input (v_st vI) = Some input -> flags_ok (v_st vI) ->
  getf (v_st vI) FLAG_TERMINATE = false -> getf (v_st vI) FLAG_WAIT = false ->
  forall vN, vN = noprev_vm vI t_prev s (match_st (v_st vI)) (v_ca vI) ->
  sk_inv input vN vN /\ getf (v_st vN) FLAG_READIN = true /\ pos_of (v_st vN) = pos_of (v_st vI)
  /\ v_ca vN = v_ca vI /\ v_log vN = EvInCmp t_prev s false :: v_log vI.
Proof.
  intros Hi Hf Ht Hwt vN ->.
  destruct (match_st_facts _ Hf) as (M1 & M2 & M3 & M4 & M5 & M6).
  unfold noprev_vm, sk_inv. cbn [v_st v_ca v_log vlog vset_st vset_ca].
  assert (Hr : getf (setf (match_st (v_st vI)) FLAG_READIN) FLAG_READIN = true)
    by (apply getf_setf_builtin; [exact M6|reflexivity]).
  split; [|split; [exact Hr|split; [rewrite pos_setf; exact M4|split; reflexivity]]].
  split; [rewrite getf_setf_other by fneq; rewrite M3 by fneq; exact Ht|].
  split; [rewrite s_input_setf, M5; exact Hi|].
  split; [rewrite getf_setf_other by fneq; rewrite M3 by fneq; exact Hwt|].
  split; [rewrite getf_setf_other by fneq; exact M1|].
  split; [apply flags_ok_setf; exact M6|].
  split; [reflexivity|]. split; reflexivity.
Qed.

Lemma prev_on_first_page_aux fuel rs sep lang input l1 s l2 r v vI langI :
  wf_block l2 -> s_path (v_st v) <> [] -> s_idx (v_st v) = 0 ->
  (pos_of (v_st vI) = pos_of (v_st v) /\ v_ca vI = v_ca v
   /\ v_log vI = EvInstr op_INCMP :: block_log l1 (v_log v)
   /\ s_input (v_st vI) = Some input /\ flags_ok (v_st vI)
   /\ getf (v_st vI) FLAG_TERMINATE = false /\ getf (v_st vI) FLAG_WAIT = false
   /\ getf (v_st vI) FLAG_INMATCH = false) ->
  (out_of_fuel (run fuel rs sep lang (incmp_block (l1 ++ (t_prev, s) :: l2) ++ r) v) \/
   exists f, (f < fuel)%nat /\
     run fuel rs sep lang (incmp_block (l1 ++ (t_prev, s) :: l2) ++ r) v =
     run_post f rs sep langI (match_outcome rs sep t_prev s (incmp_block l2 ++ r) vI)) ->
  forall vN, vN = noprev_vm vI t_prev s (match_st (v_st vI)) (v_ca vI) ->
  forall lv, lv = scan_skip (langI, vN) l2 ->
  (out_of_fuel (run fuel rs sep lang (incmp_block (l1 ++ (t_prev, s) :: l2) ++ r) v) \/
   exists f, (f < fuel)%nat /\
     run fuel rs sep lang (incmp_block (l1 ++ (t_prev, s) :: l2) ++ r) v =
     run_post f rs sep (fst lv) (snd lv, r, SOk))
  /\ pos_of (v_st (snd lv)) = pos_of (v_st v) /\ v_ca (snd lv) = v_ca v
  /\ v_log (snd lv) = block_log (l1 ++ (t_prev, s) :: l2) (v_log v)
  /\ getf (v_st (snd lv)) FLAG_READIN = true /\ getf (v_st (snd lv)) FLAG_INMATCH = true
  /\ getf (v_st (snd lv)) FLAG_TERMINATE = false /\ s_input (v_st (snd lv)) = Some input.
Proof.
  intros Hw2 Hpath Hidx F G vN EvN lv Elv.
  destruct F as (Hp & Hca & Hlog & Hi & Hf & Ht & Hwt & Him).
  destruct (match_st_facts _ Hf) as (M1 & M2 & M3 & M4 & M5 & M6).
  destruct (pos_path_idx _ _ (eq_trans M4 Hp)) as [Hpp Hpi].
  assert (Ha : apply_target t_prev (match_st (v_st vI)) (v_ca vI)
               = (match_st (v_st vI), v_ca vI, where_sym (match_st (v_st vI)), SErr EIndex (Some msg_index))).
  { apply fail_prev_at_zero; [rewrite Hpp; exact Hpath|rewrite Hpi; exact Hidx]. }
  destruct (noprev_facts vI input s Hi Hf Ht Hwt vN EvN) as (Hsk & HrN & HpN & HcN & HlN).
  pose proof (scan_skip_inv input vN l2 langI vN Hsk) as (Ht' & Hi' & Hw' & Hm' & Hf' & Hp' & Hc' & Hr').
  rewrite <- Elv in Ht', Hi', Hw', Hm', Hf', Hp', Hc', Hr'.
  split.
  - destruct G as [H|(f & Hf0 & H)]; [left; exact H|].
    unfold match_outcome in H. rewrite Ha, <- EvN in H.
    destruct (scan_skip_post rs sep input l2 f langI r vN Hsk Hw2 (or_introl HrN)) as [H2|(f' & Hf'' & H2)].
    + left. rewrite H. exact H2.
    + right. exists f'. split; [lia|]. rewrite H, Elv. exact H2.
  - split; [rewrite Hp', HpN; exact Hp|]. split; [rewrite Hc', HcN; exact Hca|].
    split; [rewrite Elv, scan_skip_log, HlN, Hlog, block_log_app_eq; reflexivity|].
    split; [rewrite Hr'; exact HrN|]. split; [exact Hm'|]. split; [exact Ht'|exact Hi'].
Qed.

Lemma prev_on_first_page_lemma : forall fuel rs sep lang input l1 s l2 r v,
  routing_start input v -> wf_block l1 -> wf_sym s -> wf_block l2 ->
  no_match input l1 = true -> sel_match input s = true ->
  s_path (v_st v) <> [] -> s_idx (v_st v) = 0 ->
  let vI := snd (at_match lang v l1) in
  let vN := noprev_vm vI t_prev s (match_st (v_st vI)) (v_ca vI) in
  let lv := scan_skip (fst (at_match lang v l1), vN) l2 in
  (* every remaining line of the block is passed over, whatever its selector *)
  (out_of_fuel (run fuel rs sep lang (incmp_block (l1 ++ (t_prev, s) :: l2) ++ r) v) \/
   exists f, (f < fuel)%nat /\
     run fuel rs sep lang (incmp_block (l1 ++ (t_prev, s) :: l2) ++ r) v =
     run_post f rs sep (fst lv) (snd lv, r, SOk))
  (* nothing moved, no line fired, READIN is set again (and INMATCH stays set) *)
  /\ pos_of (v_st (snd lv)) = pos_of (v_st v) /\ v_ca (snd lv) = v_ca v
  /\ v_log (snd lv) = block_log (l1 ++ (t_prev, s) :: l2) (v_log v)
  /\ getf (v_st (snd lv)) FLAG_READIN = true /\ getf (v_st (snd lv)) FLAG_INMATCH = true
  /\ getf (v_st (snd lv)) FLAG_TERMINATE = false /\ s_input (v_st (snd lv)) = Some input.
Proof.
  intros fuel rs sep lang input l1 s l2 r v Hs Hw1 Hsel Hw2 Hn Hm Hpath Hidx. cbv zeta.
  exact (prev_on_first_page_aux fuel rs sep lang input l1 s l2 r v (snd (at_match lang v l1)) (fst (at_match lang v l1))
           Hw2 Hpath Hidx (at_match_facts lang v l1 input Hs)
           (first_match_general fuel rs sep lang input l1 t_prev s l2 r v Hs Hw1 wf_sym_prev Hsel Hn Hm)
           _ eq_refl _ eq_refl).
Qed.

(* ... so that a block ending there goes to the catch node exactly as if nothing had matched *)
Lemma prev_on_first_page_catch_lemma : forall fuel rs sep lang input l1 s l2 v,
  routing_start input v -> wf_block l1 -> wf_sym s -> wf_block l2 ->
  no_match input l1 = true -> sel_match input s = true ->
  where_sym (v_st v) <> [] -> s_idx (v_st v) = 0 -> where_sym (v_st v) <> catch_sym ->
  let vI := snd (at_match lang v l1) in
  let vN := noprev_vm vI t_prev s (match_st (v_st vI)) (v_ca vI) in
  let lv := scan_skip (fst (at_match lang v l1), vN) l2 in
  out_of_fuel (run fuel rs sep lang (incmp_block (l1 ++ (t_prev, s) :: l2)) v) \/
  exists f, (f < fuel)%nat /\
    run fuel rs sep lang (incmp_block (l1 ++ (t_prev, s) :: l2)) v =
    run f rs sep (fst lv) move_catch_code
        (vset_pg (snd lv) (page_with_error (v_pg (snd lv)) (Some (msg_invalid_input (Some input))))).
Proof.
  intros fuel rs sep lang input l1 s l2 v Hs Hw1 Hsel Hw2 Hn Hm Hnw Hidx Hcatch. cbv zeta.
  assert (Hpath : s_path (v_st v) <> []).
  { intros E. apply Hnw. unfold where_sym. rewrite E. reflexivity. }
  pose proof (prev_on_first_page_lemma fuel rs sep lang input l1 s l2 [] v Hs Hw1 Hsel Hw2 Hn Hm Hpath Hidx) as F.
  cbv zeta in F. rewrite app_nil_r in F.
  remember (scan_skip (fst (at_match lang v l1),
              noprev_vm (snd (at_match lang v l1)) t_prev s (match_st (v_st (snd (at_match lang v l1))))
                (v_ca (snd (at_match lang v l1)))) l2) as lv eqn:Elv.
  destruct F as (Hrun & Hp & Hc & Hlog & Hr & Him & Ht & Hi).
  destruct Hrun as [H|(f & Hf & H)]; [left; exact H|]. right. exists f. split; [exact Hf|].
  pose proof (pos_where _ _ Hp) as Hwh.
  rewrite H, run_post_dead_catch; try assumption.
  - rewrite Hi. reflexivity.
  - rewrite Hwh. exact Hnw.
  - rewrite Hwh. exact Hcatch.
Qed.

(* ---- C03_at_most_one_move ----------------------------------------------------------------- *)
(* targets of the moves in a log (newest first), oldest first *)
Fixpoint log_moves (l : list ev) : list bytes :=
  match l with
  | [] => []
  | EvMove _ t _ :: l' => log_moves l' ++ [t]
  | _ :: l' => log_moves l'
  end.
Lemma log_moves_app a : forall b, log_moves (a ++ b) = log_moves b ++ log_moves a.
Proof.
  induction a as [|e a IH]; intros b; cbn [List.app log_moves]; [rewrite app_nil_r; reflexivity|].
  destruct e; rewrite IH; try reflexivity. rewrite app_assoc. reflexivity.
Qed.
Lemma block_log_moves l : forall acc, log_moves (block_log l acc) = log_moves acc.
Proof. induction l as [|ds l IH]; intros acc; [reflexivity|]. cbn [block_log]. rewrite IH. reflexivity. Qed.
(* the INCMP events of a log (newest first) that fired *)
Fixpoint log_fired (l : list ev) : list (bytes * bytes) :=
  match l with
  | [] => []
  | EvInCmp d s true :: l' => log_fired l' ++ [(d, s)]
  | _ :: l' => log_fired l'
  end.
Lemma block_log_fired l : forall acc, log_fired (block_log l acc) = log_fired acc.
Proof. induction l as [|ds l IH]; intros acc; [reflexivity|]. cbn [block_log]. rewrite IH. reflexivity. Qed.

Lemma fire_vm_facts rs sep vI d s st' ca' nsym input :
  s_input (v_st vI) = Some input -> flags_ok (v_st vI) ->
  getf (v_st vI) FLAG_TERMINATE = false -> getf (v_st vI) FLAG_WAIT = false ->
  only_pos (match_st (v_st vI)) st' ->
  forall vF, vF = fire_vm rs sep vI d s st' ca' nsym ->
  sk_inv input vF vF /\ getf (v_st vF) FLAG_READIN = false /\ v_st vF = st' /\ v_ca vF = ca'
  /\ v_log vF = (if rs_observed rs then [EvCode nsym] else []) ++
                EvMove 1 d nsym :: EvInCmp d s true :: v_log vI.
Proof.
  intros Hi Hf Ht Hwt Ho vF ->.
  destruct (match_st_facts _ Hf) as (M1 & M2 & M3 & M4 & M5 & M6).
  assert (E1 : v_st (fire_vm rs sep vI d s st' ca' nsym) = st') by (unfold fire_vm; destruct (rs_observed rs); reflexivity).
  assert (E2 : v_ca (fire_vm rs sep vI d s st' ca' nsym) = ca') by (unfold fire_vm; destruct (rs_observed rs); reflexivity).
  unfold sk_inv. rewrite E1, E2.
  split; [|split; [rewrite (only_pos_getf _ _ _ Ho); exact M2|split; [reflexivity|split; [reflexivity|]]]].
  - split; [rewrite (only_pos_getf _ _ _ Ho), M3 by fneq; exact Ht|].
    split; [rewrite (only_pos_input _ _ Ho), M5; exact Hi|].
    split; [rewrite (only_pos_getf _ _ _ Ho), M3 by fneq; exact Hwt|].
    split; [rewrite (only_pos_getf _ _ _ Ho); exact M1|].
    split; [apply (only_pos_flags_ok _ _ Ho); exact M6|].
    split; [reflexivity|]. split; reflexivity.
  - unfold fire_vm. destruct (rs_observed rs); reflexivity.
Qed.

Lemma at_most_one_move_aux fuel rs sep lang input l1 d s l2 r v vI langI st' ca' nsym code :
  wf_block l2 -> distinct_after l2 input = true ->
  (pos_of (v_st vI) = pos_of (v_st v) /\ v_ca vI = v_ca v
   /\ v_log vI = EvInstr op_INCMP :: block_log l1 (v_log v)
   /\ s_input (v_st vI) = Some input /\ flags_ok (v_st vI)
   /\ getf (v_st vI) FLAG_TERMINATE = false /\ getf (v_st vI) FLAG_WAIT = false
   /\ getf (v_st vI) FLAG_INMATCH = false) ->
  (out_of_fuel (run fuel rs sep lang (incmp_block (l1 ++ (d, s) :: l2) ++ r) v) \/
   exists f, (f < fuel)%nat /\
     run fuel rs sep lang (incmp_block (l1 ++ (d, s) :: l2) ++ r) v =
     run_post f rs sep langI (match_outcome rs sep d s (incmp_block l2 ++ r) vI)) ->
  apply_target d (match_st (v_st vI)) (v_ca vI) = (st', ca', nsym, SOk) ->
  rs_code rs nsym = Ok code ->
  forall vF, vF = fire_vm rs sep vI d s st' ca' nsym ->
  forall lv, lv = scan_skip (langI, vF) l2 ->
  (out_of_fuel (run fuel rs sep lang (incmp_block (l1 ++ (d, s) :: l2) ++ r) v) \/
   exists f, (f < fuel)%nat /\
     run fuel rs sep lang (incmp_block (l1 ++ (d, s) :: l2) ++ r) v =
     run_post f rs sep (fst lv) (snd lv, r ++ code, SOk))
  /\ pos_of (v_st (snd lv)) = pos_of st' /\ v_ca (snd lv) = ca'
  /\ v_log (snd lv) = block_log l2 (v_log vF)
  /\ log_moves (v_log (snd lv)) = log_moves (v_log v) ++ [d]
  /\ log_fired (v_log (snd lv)) = log_fired (v_log v) ++ [(d, s)].
Proof.
  intros Hw2 Hdist F G Ha Hc vF EvF lv Elv.
  destruct F as (Hp & Hca & Hlog & Hi & Hf & Ht & Hwt & Him).
  pose proof (apply_target_only_pos _ _ _ _ _ _ _ Ha) as Ho.
  destruct (fire_vm_facts rs sep vI d s st' ca' nsym input Hi Hf Ht Hwt Ho vF EvF) as (Hsk & HrF & HsF & HcF & HlF).
  pose proof (scan_skip_inv input vF l2 langI vF Hsk) as (Ht' & Hi' & Hw' & Hm' & Hf' & Hp' & Hc' & Hr').
  rewrite <- Elv in Ht', Hi', Hw', Hm', Hf', Hp', Hc', Hr'.
  assert (HL : v_log (snd lv) = block_log l2 (v_log vF)) by (rewrite Elv; apply scan_skip_log).
  split.
  - destruct G as [H|(f & Hf0 & H)]; [left; exact H|].
    unfold match_outcome in H. rewrite Ha, Hc, <- EvF, <- app_assoc in H.
    destruct (scan_skip_post rs sep input l2 f langI (r ++ code) vF Hsk Hw2 (or_intror Hdist)) as [H2|(f' & Hf'' & H2)].
    + left. rewrite H. exact H2.
    + right. exists f'. split; [lia|]. rewrite H, Elv. exact H2.
  - split; [rewrite Hp', HsF; reflexivity|]. split; [rewrite Hc'; exact HcF|]. split; [exact HL|].
    rewrite HL, block_log_moves, block_log_fired, HlF, Hlog. split.
    + destruct (rs_observed rs); cbn [List.app log_moves]; rewrite block_log_moves; reflexivity.
    + destruct (rs_observed rs); cbn [List.app log_fired]; rewrite block_log_fired; reflexivity.
Qed.

(* Full statement (FALSE, see at_most_one_move_refuted_dupsel): the same without `distinct_after`.
   Partial: if no later line of the block repeats the input literally (wildcards are fine: `*`
   does not match once INMATCH is set), no line of l2 fires and the only move is the first match's;
   the target's code, appended after the rest of the block and r, runs next. *)
Lemma at_most_one_move_partial_lemma : forall fuel rs sep lang input l1 d s l2 r v st' ca' nsym code,
  routing_start input v -> wf_block l1 -> wf_sym d -> wf_sym s -> wf_block l2 ->
  no_match input l1 = true -> sel_match input s = true ->
  distinct_after l2 input = true ->
  let vI := snd (at_match lang v l1) in
  apply_target d (match_st (v_st vI)) (v_ca vI) = (st', ca', nsym, SOk) ->
  rs_code rs nsym = Ok code ->
  let vF := fire_vm rs sep vI d s st' ca' nsym in
  let lv := scan_skip (fst (at_match lang v l1), vF) l2 in
  (out_of_fuel (run fuel rs sep lang (incmp_block (l1 ++ (d, s) :: l2) ++ r) v) \/
   exists f, (f < fuel)%nat /\
     run fuel rs sep lang (incmp_block (l1 ++ (d, s) :: l2) ++ r) v =
     run_post f rs sep (fst lv) (snd lv, r ++ code, SOk))
  /\ pos_of (v_st (snd lv)) = pos_of st' /\ v_ca (snd lv) = ca'
  /\ v_log (snd lv) = block_log l2 (v_log vF)
  /\ log_moves (v_log (snd lv)) = log_moves (v_log v) ++ [d]
  /\ log_fired (v_log (snd lv)) = log_fired (v_log v) ++ [(d, s)].
Proof.
  intros fuel rs sep lang input l1 d s l2 r v st' ca' nsym code Hs Hw1 Hd Hsel Hw2 Hn Hm Hdist. cbv zeta. intros Ha Hc.
  exact (at_most_one_move_aux fuel rs sep lang input l1 d s l2 r v (snd (at_match lang v l1)) (fst (at_match lang v l1))
           st' ca' nsym code Hw2 Hdist (at_match_facts lang v l1 input Hs)
           (first_match_general fuel rs sep lang input l1 d s l2 r v Hs Hw1 Hd Hsel Hn Hm) Ha Hc
           _ eq_refl _ eq_refl).
Qed.

(* wildcards never violate the guard (the engine accepts no input "*": valid_input_b) *)
Lemma distinct_after_wildcards input l :
  input <> star -> Forall (fun ds => snd ds = star) l -> distinct_after l input = true.
Proof.
  intros Hne Hl. unfold distinct_after. apply forallb_forall. rewrite Forall_forall in Hl.
  intros ds Hin. rewrite (Hl ds Hin). apply negb_true_iff.
  destruct (bytes_eqb star input) eqn:E; [|reflexivity]. apply BytesProofs.bytes_eqb_eq in E. congruence.
Qed.
Lemma valid_input_not_star input : valid_input_b input = true -> input <> star.
Proof. intros H E. subst input. vm_compute in H. discriminate. Qed.

(* finding K-C03-dupsel: root = HALT; INCMP foo 1; INCMP bar 1, input "1" => root/foo/bar *)
Definition dupsel_app : app :=
  mkApp [(s2b "root", encode_prog [IHalt; IInCmp (s2b "foo") (s2b "1"); IInCmp (s2b "bar") (s2b "1")]);
         (s2b "foo", encode_prog [IHalt]); (s2b "bar", encode_prog [IHalt])] [] [] [].
(* the machine after MOVE root ran up to the HALT, with the client's answer "1" *)
Definition dupsel_vm : vmst :=
  let v0 := mkVm (set_input_raw (new_state 8) (Some [])) (new_cache 0) (vm_reset [] new_page) [] [] false in
  let '(v1, _, _) := run 10 (app_rsrc dupsel_app) [] None (encode (IMove (s2b "root"))) v0 in
  vset_st v1 (set_input_raw (v_st v1) (Some (s2b "1"))).

Lemma at_most_one_move_refuted_dupsel_lemma :
  exists fuel rs sep lang input l1 d s l2 r v st' ca' nsym code,
    routing_start input v /\ getf (v_st v) FLAG_WAIT = true
    /\ wf_block l1 /\ wf_sym d /\ wf_sym s /\ wf_block l2
    /\ no_match input l1 = true /\ sel_match input s = true
    /\ apply_target d (match_st (v_st (snd (at_match lang v l1)))) (v_ca (snd (at_match lang v l1))) = (st', ca', nsym, SOk)
    /\ rs_code rs nsym = Ok code
    /\ distinct_after l2 input = false
    /\ (let '(v', b, st) := run fuel rs sep lang (incmp_block (l1 ++ (d, s) :: l2) ++ r) v in
        st = SOk /\ s_path (v_st v) = [s2b "root"]
        /\ s_path (v_st v') = [s2b "root"; s2b "foo"; s2b "bar"]
        /\ log_moves (v_log v') = log_moves (v_log v) ++ [s2b "foo"; s2b "bar"]
        /\ log_fired (v_log v') = log_fired (v_log v) ++ [(s2b "foo", s2b "1"); (s2b "bar", s2b "1")]).
Proof.
  exists 10%nat, (app_rsrc dupsel_app), [], None, (s2b "1"), [], (s2b "foo"), (s2b "1"), [(s2b "bar", s2b "1")], [], dupsel_vm.
  do 4 eexists.
  split; [unfold routing_start, unmatched, flags_ok; vm_compute; repeat split; try reflexivity; try (left; reflexivity); lia|].
  split; [vm_compute; reflexivity|].
  split; [constructor|].
  assert (W : forall x, x = s2b "foo" \/ x = s2b "bar" \/ x = s2b "1" -> wf_sym x).
  { intros x [->|[->| ->]]; (split; [repeat constructor|vm_compute; split; discriminate]). }
  split; [apply W; auto|]. split; [apply W; auto|].
  split; [constructor; [split; apply W; cbn [fst snd]; auto|constructor]|].
  split; [reflexivity|]. split; [vm_compute; reflexivity|].
  split; [vm_compute; reflexivity|].
  split; [vm_compute; reflexivity|].
  split; [vm_compute; reflexivity|].
  vm_compute. repeat split; reflexivity.
Qed.

(* READIN as the last HALT left it is irrelevant to a routing block: with INMATCH clear (which the
   prelude guarantees on resume) the handler behaves as if READIN were set.  (A stale READIN does
   matter to runDeadCheck when code runs out without any INCMP having been executed: it then
   reports invalid input and moves to _catch instead of terminating; see the integration note.) *)
Lemma run_incmp_readin_irrelevant rs sep d s b v :
  getf (v_st v) FLAG_INMATCH = false ->
  run_incmp rs sep d s b v = run_incmp rs sep d s b (vset_st v (setf (v_st v) FLAG_READIN)).
Proof.
  intros Hm. unfold run_incmp. cbn [v_st vset_st]. rewrite getf_setf_other by fneq. rewrite Hm.
  cbn [andb]. rewrite setf_idem. reflexivity.
Qed.

(* ================================================================================== *)
(* Part C — C04 for `run`: the position changes only through logged moves               *)
(* ================================================================================== *)

Definition cache_ok (ca : cache) : Prop := c_frames ca <> [].

(* v' is reached from v by moves that are all in the log, each a row of the code's table *)
Definition pos_follows (v v' : vmst) : Prop :=
  cache_ok (v_ca v') /\
  exists new, v_log v' = new ++ v_log v
    /\ nav_fold nav_code (pos_of (v_st v)) (log_moves new) = Some (pos_of (v_st v')).
(* nothing moved, nothing was logged as a move, the cache is the same *)
Definition quiet (v v' : vmst) : Prop :=
  pos_of (v_st v') = pos_of (v_st v) /\ v_ca v' = v_ca v
  /\ exists new, v_log v' = new ++ v_log v /\ log_moves new = [].

Lemma nav_fold_app step a : forall p b,
  nav_fold step p (a ++ b) = match nav_fold step p a with Some p' => nav_fold step p' b | None => None end.
Proof.
  induction a as [|m a IH]; intros p b; [reflexivity|]. cbn [List.app nav_fold].
  destruct (step p m); [apply IH|reflexivity].
Qed.

Lemma quiet_refl v : quiet v v.
Proof. split; [reflexivity|]. split; [reflexivity|]. exists []. split; reflexivity. Qed.
Lemma quiet_trans a b c : quiet a b -> quiet b c -> quiet a c.
Proof.
  intros (P1 & C1 & n1 & L1 & M1) (P2 & C2 & n2 & L2 & M2). split; [congruence|]. split; [congruence|].
  exists (n2 ++ n1). split; [rewrite L2, L1, app_assoc; reflexivity|]. rewrite log_moves_app, M1, M2. reflexivity.
Qed.
Lemma pf_refl v : cache_ok (v_ca v) -> pos_follows v v.
Proof. intros H. split; [exact H|]. exists []. split; reflexivity. Qed.
Lemma pf_trans a b c : pos_follows a b -> pos_follows b c -> pos_follows a c.
Proof.
  intros (C1 & n1 & L1 & F1) (C2 & n2 & L2 & F2). split; [exact C2|].
  exists (n2 ++ n1). split; [rewrite L2, L1, app_assoc; reflexivity|].
  rewrite log_moves_app, nav_fold_app, F1. exact F2.
Qed.
Lemma quiet_pf a b : cache_ok (v_ca a) -> quiet a b -> pos_follows a b.
Proof.
  intros H (P & C & n & L & M). split; [rewrite C; exact H|]. exists n. split; [exact L|].
  rewrite M, P. reflexivity.
Qed.
Lemma quiet_cache_ok a b : quiet a b -> cache_ok (v_ca a) -> cache_ok (v_ca b).
Proof. intros (_ & C & _) H. rewrite C. exact H. Qed.
Lemma pf_quiet_l a b c : cache_ok (v_ca a) -> quiet a b -> pos_follows b c -> pos_follows a c.
Proof. intros H Q F. eapply pf_trans; [apply quiet_pf; eassumption|exact F]. Qed.
Lemma pf_quiet_r a b c : pos_follows a b -> quiet b c -> pos_follows a c.
Proof. intros F Q. eapply pf_trans; [exact F|]. apply quiet_pf; [apply F|exact Q]. Qed.

(* building blocks *)
Lemma quiet_vlog v e : match e with EvMove _ _ _ => False | _ => True end -> quiet v (vlog v e).
Proof.
  intros He. split; [reflexivity|]. split; [reflexivity|]. exists [e]. split; [reflexivity|].
  destruct e; try contradiction; reflexivity.
Qed.
Lemma quiet_set_pg v pg : quiet v (vset_pg v pg).
Proof. split; [reflexivity|]. split; [reflexivity|]. exists []. split; reflexivity. Qed.
Lemma quiet_taint v : quiet v (vtaint v).
Proof. split; [reflexivity|]. split; [reflexivity|]. exists []. split; reflexivity. Qed.
Lemma quiet_set_w v w : quiet v (vset_w v w).
Proof. split; [reflexivity|]. split; [reflexivity|]. exists []. split; reflexivity. Qed.
Lemma quiet_set_st v st : pos_of st = pos_of (v_st v) -> quiet v (vset_st v st).
Proof. intros H. split; [exact H|]. split; [reflexivity|]. exists []. split; reflexivity. Qed.
Lemma sbf_pos a b : same_but_flags a b -> pos_of b = pos_of a.
Proof. intros (_ & Hp & _ & Hi & _). unfold pos_of. rewrite Hp, Hi. reflexivity. Qed.

(* one call of applyTarget on a cache with at least one frame *)
Lemma cache_ok_push ca : cache_ok (cache_push ca).
Proof. unfold cache_ok, cache_push. cbn [c_frames]. destruct (c_frames ca); discriminate. Qed.
Lemma apply_follows t st ca st' ca' nsym r :
  cache_ok ca -> apply_target t st ca = (st', ca', nsym, r) ->
  cache_ok ca'
  /\ (r = SOk -> nav_code (pos_of st) t = Some (pos_of st'))
  /\ (r <> SOk -> st' = st /\ ca' = ca).
Proof.
  intros Hc Ha. assert (Hcase : r = SOk \/ r <> SOk) by (destruct r; [left; reflexivity|right; discriminate ..]).
  destruct Hcase as [->|Hr].
  - destruct (apply_ok_exact _ _ _ _ _ _ Hc Ha) as (H1 & _ & _ & H4). split.
    + rewrite H4. destruct (valid_sym_b t); [apply cache_ok_push|apply pops_ne; exact Hc].
    + split; [intros _; exact H1|intros H; congruence].
  - destruct (apply_fail_unchanged _ _ _ _ _ _ _ Hc Ha Hr) as [-> ->].
    split; [exact Hc|]. split; [intros H; congruence|auto].
Qed.

Lemma pf_move v v' t new :
  cache_ok (v_ca v') -> v_log v' = new ++ v_log v -> log_moves new = [t] ->
  nav_code (pos_of (v_st v)) t = Some (pos_of (v_st v')) -> pos_follows v v'.
Proof.
  intros Hc Hl Hm Hn. split; [exact Hc|]. exists new. split; [exact Hl|]. rewrite Hm. cbn [nav_fold]. rewrite Hn. reflexivity.
Qed.
Lemma pf_same v v' new :
  cache_ok (v_ca v') -> v_log v' = new ++ v_log v -> log_moves new = [] ->
  pos_of (v_st v') = pos_of (v_st v) -> pos_follows v v'.
Proof.
  intros Hc Hl Hm Hp. split; [exact Hc|]. exists new. split; [exact Hl|]. rewrite Hm, Hp. reflexivity.
Qed.

(* ---- handlers ------------------------------------------------------------------------------ *)
Lemma run_catch_follows rs sym sig mode b v v' b' s :
  cache_ok (v_ca v) -> run_catch rs sym sig mode b v = (v', b', s) -> pos_follows v v'.
Proof.
  intros Hc H. unfold run_catch in H.
  destruct (match_flag (v_st v) sig mode) as [[|]| |]; try (inversion H; subst; apply pf_refl; exact Hc).
  destruct (apply_target sym (v_st v) (v_ca v)) as [[[st' ca'] nsym] r] eqn:Ea.
  destruct (apply_follows _ _ _ _ _ _ _ Hc Ea) as (Hc' & Hok & Hfail).
  destruct r as [|e m|n|].
  - unfold fetch_code in H.
    assert (Hv : pos_follows v (if rs_observed rs
                                then vlog (vlog (vset_ca (vset_st v st') ca') (EvMove 2 sym nsym)) (EvCode nsym)
                                else vlog (vset_ca (vset_st v st') ca') (EvMove 2 sym nsym))).
    { destruct (rs_observed rs).
      - apply (pf_move _ _ sym [EvCode nsym; EvMove 2 sym nsym]); [exact Hc'|reflexivity|reflexivity|apply Hok; reflexivity].
      - apply (pf_move _ _ sym [EvMove 2 sym nsym]); [exact Hc'|reflexivity|reflexivity|apply Hok; reflexivity]. }
    destruct (rs_code rs nsym); inversion H; subst; exact Hv.
  - destruct Hfail as [-> ->]; [discriminate|]. inversion H; subst. destruct v; apply pf_refl; exact Hc.
  - destruct Hfail as [-> ->]; [discriminate|]. inversion H; subst. destruct v; apply pf_refl; exact Hc.
  - destruct Hfail as [-> ->]; [discriminate|]. inversion H; subst. destruct v; apply pf_refl; exact Hc.
Qed.

Lemma run_move_follows rs sep sym b v v' b' s :
  cache_ok (v_ca v) -> run_move rs sep sym b v = (v', b', s) -> pos_follows v v'.
Proof.
  intros Hc H. unfold run_move in H.
  destruct (apply_target sym (v_st v) (v_ca v)) as [[[st' ca'] nsym] r] eqn:Ea.
  destruct (apply_follows _ _ _ _ _ _ _ Hc Ea) as (Hc' & Hok & Hfail).
  destruct r as [|e m|n|].
  - unfold fetch_code in H.
    assert (Hv : pos_follows v (if rs_observed rs
                                then vlog (vlog (vset_ca (vset_st v st') ca') (EvMove 0 sym nsym)) (EvCode nsym)
                                else vlog (vset_ca (vset_st v st') ca') (EvMove 0 sym nsym))).
    { destruct (rs_observed rs).
      - apply (pf_move _ _ sym [EvCode nsym; EvMove 0 sym nsym]); [exact Hc'|reflexivity|reflexivity|apply Hok; reflexivity].
      - apply (pf_move _ _ sym [EvMove 0 sym nsym]); [exact Hc'|reflexivity|reflexivity|apply Hok; reflexivity]. }
    destruct (rs_code rs nsym); inversion H; subst; exact Hv.
  - destruct Hfail as [-> ->]; [discriminate|]. inversion H; subst. destruct v; apply pf_refl; exact Hc.
  - destruct Hfail as [-> ->]; [discriminate|]. inversion H; subst. destruct v; apply pf_refl; exact Hc.
  - destruct Hfail as [-> ->]; [discriminate|]. inversion H; subst. destruct v; apply pf_refl; exact Hc.
Qed.

Lemma run_incmp_follows rs sep dest sel b v v' b' s :
  cache_ok (v_ca v) -> run_incmp rs sep dest sel b v = (v', b', s) -> pos_follows v v'.
Proof.
  intros Hc H. unfold run_incmp in H.
  destruct (getf (v_st v) FLAG_INMATCH && getf (v_st v) FLAG_READIN).
  { inversion H; subst. apply quiet_pf; [exact Hc|]. apply quiet_vlog. exact I. }
  set (st1 := if getf (v_st v) FLAG_INMATCH then v_st v else setf (v_st v) FLAG_READIN) in *.
  assert (Hp1 : pos_of st1 = pos_of (v_st v)) by (subst st1; destruct (getf (v_st v) FLAG_INMATCH); reflexivity).
  assert (Hq1 : quiet v (vset_st v st1)) by (apply quiet_set_st; exact Hp1).
  cbn [v_st vset_st v_ca vset_ca] in H.
  destruct (s_input st1) as [input|]; [|inversion H; subst; apply quiet_pf; assumption].
  destruct ((negb (getf (v_st v) FLAG_INMATCH) && bytes_eqb sel star) || bytes_eqb sel input).
  2:{ inversion H; subst. apply quiet_pf; [exact Hc|]. eapply quiet_trans; [exact Hq1|]. apply quiet_vlog. exact I. }
  set (st2 := resetf (setf st1 FLAG_INMATCH) FLAG_READIN) in *.
  destruct (apply_target dest st2 (v_ca v)) as [[[st' ca'] nsym] r] eqn:Ea.
  destruct (apply_follows _ _ _ _ _ _ _ Hc Ea) as (Hc' & Hok & Hfail).
  assert (Hp2 : pos_of st2 = pos_of (v_st v)) by (subst st2; rewrite pos_resetf, pos_setf; exact Hp1).
  destruct r as [|e m|n|].
  - unfold fetch_code in H. cbn [v_pg vset_ca vset_st] in H.
    specialize (Hok eq_refl). rewrite Hp2 in Hok.
    destruct (rs_observed rs); destruct (rs_code rs nsym); inversion H; subst;
      first [ apply (pf_move _ _ dest [EvCode nsym; EvMove 1 dest nsym; EvInCmp dest sel true]); [exact Hc'|reflexivity|reflexivity|exact Hok]
            | apply (pf_move _ _ dest [EvMove 1 dest nsym; EvInCmp dest sel true]); [exact Hc'|reflexivity|reflexivity|exact Hok] ].
  - destruct Hfail as [-> ->]; [discriminate|].
    destruct e; inversion H; subst;
      first [ apply (pf_same _ _ [EvInCmp dest sel false]); [exact Hc|reflexivity|reflexivity|cbn [v_st vlog vset_st]; rewrite ?pos_setf; exact Hp2]
            | apply (pf_same _ _ []); [exact Hc|reflexivity|reflexivity|exact Hp2] ].
  - destruct Hfail as [-> ->]; [discriminate|]. inversion H; subst.
    apply (pf_same _ _ []); [exact Hc|reflexivity|reflexivity|exact Hp2].
  - destruct Hfail as [-> ->]; [discriminate|]. inversion H; subst.
    apply (pf_same _ _ []); [exact Hc|reflexivity|reflexivity|exact Hp2].
Qed.

Lemma cache_ok_reset ca : cache_ok ca -> cache_ok (cache_reset ca).
Proof. unfold cache_ok, cache_reset. destruct (c_frames ca); [auto|]. intros _. cbn [c_frames]. discriminate. Qed.
Lemma update_nth_ne {A} (f : A -> A) : forall l n, l <> [] -> update_nth n f l <> [].
Proof. intros [|x l] [|n] H; cbn [update_nth]; try contradiction; discriminate. Qed.
Lemma cache_ok_add ca k val lim ca' : cache_add ca k val lim = Ok ca' -> cache_ok ca'.
Proof.
  unfold cache_add, cache_ok. destruct ((0 <? lim) && (lim <? len val)); [discriminate|].
  destruct (frame_of ca k) as [i|]; [destruct (i =? top_index ca); discriminate|].
  destruct ((0 <? len val) && _); [discriminate|].
  destruct (c_frames ca) as [|f fs] eqn:E; [discriminate|]. intros H. inversion H. cbn [c_frames].
  apply update_nth_ne. discriminate.
Qed.
Lemma cache_ok_update ca k val : cache_ok ca -> cache_ok (fst (cache_update_raw ca k val)).
Proof.
  unfold cache_update_raw, cache_ok. intros Hc.
  destruct ((0 <? _) && _); [exact Hc|]. destruct (frame_of ca k) as [i|]; [|exact Hc].
  destruct ((_ =? 0) && _); cbn [fst c_frames]; repeat apply update_nth_ne; exact Hc.
Qed.

Lemma run_croak_follows sep sig mode b v v' b' s :
  cache_ok (v_ca v) -> run_croak sep sig mode b v = (v', b', s) -> pos_follows v v'.
Proof.
  intros Hc H. unfold run_croak in H.
  destruct (match_flag (v_st v) sig mode) as [[|]| |]; inversion H; subst; try (apply pf_refl; exact Hc).
  apply (pf_same _ _ []); [apply cache_ok_reset; exact Hc|reflexivity|reflexivity|reflexivity].
Qed.

Lemma st_set_language_pos lk s c : pos_of (st_set_language lk s c) = pos_of s.
Proof. unfold st_set_language. destruct c; destruct (lk _); reflexivity. Qed.

Lemma refresh_quiet rs lang key v v' content s :
  refresh rs lang key v = (v', content, s) -> quiet v v'.
Proof.
  intros H. unfold refresh in H.
  destruct (rs_func rs key) as [script|]; [|inversion H; subst; apply quiet_refl].
  destruct (nth_fres script _) as [fr|]; [|inversion H; subst; apply quiet_refl].
  set (v1 := vlog (vset_w v _) _) in *.
  assert (Q1 : quiet v v1).
  { subst v1. eapply quiet_trans; [apply quiet_set_w|]. apply quiet_vlog. exact I. }
  destruct (fr_fail fr).
  - inversion H; subst. eapply quiet_trans; [exact Q1|]. apply quiet_set_st. reflexivity.
  - destruct (apply_flags false (fr_reset fr) (v_st v1)) as [st1| |] eqn:H1; try (inversion H; subst; exact Q1).
    destruct (apply_flags true (fr_set fr) st1) as [st2| |] eqn:H2; try (inversion H; subst; exact Q1).
    inversion H; subst. eapply quiet_trans; [exact Q1|]. apply quiet_set_st.
    destruct (apply_flags_reserved _ _ _ _ H1) as [_ S1]. destruct (apply_flags_reserved _ _ _ _ H2) as [_ S2].
    pose proof (sbf_pos _ _ (sbf_trans _ _ _ S1 S2)) as Hp.
    destruct (getf st2 FLAG_LANG); [rewrite st_set_language_pos|]; exact Hp.
Qed.

Lemma run_load_follows rs lang sym sz b v v' b' s :
  cache_ok (v_ca v) -> run_load rs lang sym sz b v = (v', b', s) -> pos_follows v v'.
Proof.
  intros Hc H. unfold run_load in H.
  destruct (cache_get (v_ca v) sym); try (inversion H; subst; apply pf_refl; exact Hc).
  destruct (refresh rs lang sym v) as [[v1 content] s1] eqn:Hr.
  pose proof (refresh_quiet _ _ _ _ _ _ _ Hr) as Q.
  pose proof (quiet_pf _ _ Hc Q) as F.
  destruct s1; try (inversion H; subst; exact F).
  destruct (cache_add (v_ca v1) sym content (w16 sz)) as [ca'|e2|n2] eqn:Ha.
  - inversion H; subst. destruct F as (_ & new & L & N). split; [apply (cache_ok_add _ _ _ _ _ Ha)|].
    exists new. split; [exact L|exact N].
  - destruct e2; inversion H; subst; exact F.
  - inversion H; subst; exact F.
Qed.

Lemma run_reload_follows rs lang sym b v v' b' s :
  cache_ok (v_ca v) -> run_reload rs lang sym b v = (v', b', s) -> pos_follows v v'.
Proof.
  intros Hc H. unfold run_reload in H.
  destruct (refresh rs lang sym v) as [[v1 content] s1] eqn:Hr.
  pose proof (refresh_quiet _ _ _ _ _ _ _ Hr) as Q.
  pose proof (quiet_pf _ _ Hc Q) as F.
  destruct s1; try (inversion H; subst; exact F).
  pose proof (cache_ok_update (v_ca v1) sym content (proj1 F)) as Hu.
  destruct (cache_update_raw (v_ca v1) sym content) as [ca' oe]. cbn [fst] in Hu.
  assert (F2 : pos_follows v (vset_ca v1 ca')).
  { destruct F as (_ & new & L & N). split; [exact Hu|]. exists new. split; [exact L|exact N]. }
  cbn [v_ca v_pg vset_ca] in H.
  destruct (page_map ca' (v_pg v1) sym); inversion H; subst; exact F2.
Qed.

Lemma run_map_follows sym b v v' b' s :
  cache_ok (v_ca v) -> run_map sym b v = (v', b', s) -> pos_follows v v'.
Proof.
  intros Hc H. unfold run_map in H.
  destruct (page_map (v_ca v) (v_pg v) sym); inversion H; subst; try (apply pf_refl; exact Hc).
  apply quiet_pf; [exact Hc|apply quiet_set_pg].
Qed.

Lemma exec_instr_follows rs sep lang i b v v' b' s :
  cache_ok (v_ca v) -> exec_instr rs sep lang i b v = (v', b', s) -> pos_follows v v'.
Proof.
  intros Hc H. destruct i; cbn [exec_instr] in H.
  - inversion H; subst. apply pf_refl; exact Hc.
  - eapply run_catch_follows; eassumption.
  - eapply run_croak_follows; eassumption.
  - eapply run_load_follows; eassumption.
  - eapply run_reload_follows; eassumption.
  - eapply run_map_follows; eassumption.
  - eapply run_move_follows; eassumption.
  - inversion H; subst. apply quiet_pf; [exact Hc|]. apply quiet_set_st. reflexivity.
  - eapply run_incmp_follows; eassumption.
  - inversion H; subst. apply quiet_pf; [exact Hc|apply quiet_set_pg].
  - inversion H; subst. apply quiet_pf; [exact Hc|apply quiet_set_pg].
  - inversion H; subst. apply quiet_pf; [exact Hc|apply quiet_set_pg].
  - inversion H; subst. apply quiet_pf; [exact Hc|apply quiet_set_pg].
Qed.

(* ---- the loop -------------------------------------------------------------------------------- *)
Lemma prelude_quiet lang v : quiet v (snd (run_prelude lang v)).
Proof.
  split; [rewrite prelude_st; apply pre_state_pos|]. split; [apply prelude_ca|].
  exists []. split; [apply prelude_log|reflexivity].
Qed.

Lemma set_page_err_quiet v msg : quiet v (set_page_err v msg).
Proof.
  unfold set_page_err. destruct msg; [apply quiet_set_pg|].
  eapply quiet_trans; [apply quiet_set_pg|apply quiet_taint].
Qed.
Lemma errcheck_quiet v1 b s v2 b' s' : run_errcheck (v1, b, s) = (v2, b', s') -> quiet v1 v2.
Proof.
  unfold run_errcheck. destruct s as [|e m|n|]; try (intros H; inversion H; subst; apply quiet_refl).
  destruct (_ && _); intros H; inversion H; subst; apply set_page_err_quiet.
Qed.
Lemma dead_check_quiet v v3 b s : dead_check v = (v3, b, s) -> quiet v v3.
Proof.
  unfold dead_check. destruct (negb _); [intros H; inversion H; subst; apply quiet_set_st; reflexivity|].
  destruct (getf _ FLAG_TERMINATE); [intros H; inversion H; subst; apply quiet_refl|].
  destruct (where_sym (v_st v)); [intros H; inversion H; subst; apply quiet_refl|].
  destruct (bytes_eqb _ catch_sym); intros H; inversion H; subst; [apply quiet_refl|apply quiet_set_pg].
Qed.

Lemma run_post_follows fuel rs sep lang :
  (forall lang b v v' b' s, cache_ok (v_ca v) -> run fuel rs sep lang b v = (v', b', s) -> pos_follows v v') ->
  forall v1 b s v' b' s', cache_ok (v_ca v1) ->
    run_post fuel rs sep lang (v1, b, s) = (v', b', s') -> pos_follows v1 v'.
Proof.
  intros IH v1 b s v' b' s' Hc H. unfold run_post in H.
  destruct (run_errcheck (v1, b, s)) as [[v2 b3] s2] eqn:He.
  pose proof (errcheck_quiet _ _ _ _ _ _ He) as Q1.
  pose proof (quiet_cache_ok _ _ Q1 Hc) as Hc2.
  destruct s2; try (inversion H; subst; apply quiet_pf; assumption).
  destruct b3 as [|x b3].
  - destruct (dead_check v2) as [[v3 b4] s3] eqn:Hd.
    pose proof (dead_check_quiet _ _ _ _ Hd) as Q2.
    pose proof (quiet_trans _ _ _ Q1 Q2) as Q12.
    destruct s3; try (inversion H; subst; apply quiet_pf; assumption).
    destruct b4 as [|y b4]; [inversion H; subst; apply quiet_pf; assumption|].
    eapply pf_quiet_l; [exact Hc|exact Q12|]. eapply IH; [|exact H]. apply (quiet_cache_ok _ _ Q12 Hc).
  - eapply pf_quiet_l; [exact Hc|exact Q1|]. eapply IH; [exact Hc2|exact H].
Qed.

(* THE invariant: whatever the code, the machine (with a cache of at least one frame), the fuel
   and the outcome (including errors, SPanic and SFuel), the position after `run` is the fold of the
   code's move table over the targets of the EvMove events this run appended to the log *)
Theorem run_follows : forall fuel rs sep lang b v v' b' s,
  cache_ok (v_ca v) -> run fuel rs sep lang b v = (v', b', s) -> pos_follows v v'.
Proof.
  induction fuel as [|fuel IH]; intros rs sep lang b v v' b' s Hc H.
  - rewrite run_O in H. inversion H; subst. apply pf_refl. exact Hc.
  - rewrite run_unfold_gen in H.
    destruct (getf (v_st v) FLAG_TERMINATE); [inversion H; subst; apply pf_refl; exact Hc|].
    pose proof (prelude_quiet lang v) as Q0.
    remember (snd (run_prelude lang v)) as v0 eqn:Ev0. remember (fst (run_prelude lang v)) as lang0 eqn:El0.
    pose proof (quiet_cache_ok _ _ Q0 Hc) as Hc0.
    eapply pf_quiet_l; [exact Hc|exact Q0|]. clear Q0 Ev0 El0.
    unfold run_body in H.
    destruct (op_split b) as [[op b1]|e|n]; try (inversion H; subst; apply pf_refl; exact Hc0).
    assert (Hpost : forall h, (let '(v1, _, _) := h in pos_follows v0 v1) ->
              (if op =? op_HALT then h else run_post fuel rs sep lang0 h) = (v', b', s) -> pos_follows v0 v').
    { intros [[v1 b2] s1] F1 H1. destruct (op =? op_HALT); [inversion H1; subst; exact F1|].
      eapply pf_trans; [exact F1|]. eapply (run_post_follows fuel rs sep lang0); [|apply F1|exact H1].
      intros. eapply IH; eassumption. }
    destruct (parse_args op b1) as [[i b2]|e|n].
    + destruct (exec_instr rs sep lang0 i b2 (vlog v0 (EvInstr op))) as [[v1 b3] s1] eqn:Hx.
      apply (Hpost (v1, b3, s1)); [|exact H].
      eapply pf_quiet_l; [exact Hc0|apply (quiet_vlog v0 (EvInstr op)); exact I|].
      eapply exec_instr_follows; [|exact Hx]. exact Hc0.
    + apply (Hpost (v0, b1, SErr EGen None)); [apply pf_refl; exact Hc0|exact H].
    + inversion H; subst. apply pf_refl. exact Hc0.
Qed.

(* ================================================================================== *)
(* Part D — C04 for requests                                                            *)
(* ================================================================================== *)

(* ---- the engine's reset: every level is unwound ------------------------------------------- *)
(* what Engine.reset does to a position: the empty stack, index 0 (nothing when the stack is
   already empty: Top() fails first) *)
Definition preset (p : list bytes * N) : list bytes * N := match fst p with [] => p | _ => ([], 0) end.

Lemma cache_ok_pop_or_same ca : cache_ok ca -> cache_ok (match cache_pop ca with Ok c => c | _ => ca end).
Proof.
  intros H. destruct (pop_levels ca H) as (ca' & Hp & Hne & _). rewrite Hp. exact Hne.
Qed.

Lemma unwind_nonempty : forall fuel st ca,
  s_path st <> [] -> (List.length (s_path st) <= fuel)%nat ->
  exists ca', unwind fuel st ca = (set_path_idx st [] 0, ca', SOk) /\ (cache_ok ca -> cache_ok ca').
Proof.
  induction fuel as [|f IH]; intros st ca Hne Hlen.
  - destruct (s_path st); [contradiction|cbn [List.length] in Hlen; lia].
  - cbn [unwind]. unfold st_top, st_up. destruct (s_path st) as [|a l] eqn:Ep; [contradiction|].
    destruct l as [|b l].
    + eexists. split; [reflexivity|]. apply cache_ok_pop_or_same.
    + set (st1 := set_path_idx st (removelast (a :: b :: l)) 0).
      set (ca1 := match cache_pop ca with Ok c => c | _ => ca end).
      destruct (IH st1 ca1) as (ca' & Hu & Hc).
      * subst st1. cbn [s_path set_path_idx]. cbn [removelast]. destruct l; discriminate.
      * subst st1. cbn [s_path set_path_idx].
        assert (Hl : S (List.length (removelast (a :: b :: l))) = List.length (a :: b :: l))
          by (apply length_removelast; discriminate).
        cbn [List.length] in *. lia.
      * exists ca'. split; [rewrite Hu; reflexivity|].
        intros H. apply Hc. subst ca1. apply cache_ok_pop_or_same. exact H.
Qed.

Lemma eng_reset_inner_spec v v' s :
  eng_reset_inner v = (v', s) ->
  pos_of (v_st v') = preset (pos_of (v_st v)) /\ v_log v' = v_log v
  /\ (cache_ok (v_ca v) -> cache_ok (v_ca v'))
  /\ (s_path (v_st v) <> [] -> s = SOk).
Proof.
  unfold eng_reset_inner. destruct (s_path (v_st v)) as [|a l] eqn:Ep.
  - cbn [List.length unwind]. unfold st_top. rewrite Ep. intros H. inversion H; subst.
    unfold preset, pos_of. cbn [v_st vset_st vset_ca fst v_log v_ca]. rewrite Ep.
    split; [reflexivity|]. split; [reflexivity|]. split; [auto|]. intros C; contradiction.
  - destruct (unwind_nonempty (S (List.length (s_path (v_st v)))) (v_st v) (v_ca v)) as (ca' & Hu & Hc).
    + rewrite Ep. discriminate.
    + lia.
    + rewrite Ep in Hu. rewrite Hu. unfold st_restart. cbn [s_path set_path_idx].
      intros H. inversion H; subst. unfold preset, pos_of. cbn [v_st vset_st vset_ca fst v_log v_ca]. rewrite Ep.
      split; [reflexivity|]. split; [reflexivity|]. split; [exact Hc|]. reflexivity.
Qed.

(* ---- traces: moves of the table and engine resets ------------------------------------------ *)
Inductive pstep : Type := PMove (t : bytes) | PReset.
Fixpoint pos_trace (p : list bytes * N) (tr : list pstep) : option (list bytes * N) :=
  match tr with
  | [] => Some p
  | PMove t :: tr' => match nav_code p t with Some p' => pos_trace p' tr' | None => None end
  | PReset :: tr' => pos_trace (preset p) tr'
  end.
Fixpoint trace_moves (tr : list pstep) : list bytes :=
  match tr with [] => [] | PMove t :: tr' => t :: trace_moves tr' | PReset :: tr' => trace_moves tr' end.
Fixpoint trace_resets (tr : list pstep) : nat :=
  match tr with [] => O | PMove _ :: tr' => trace_resets tr' | PReset :: tr' => S (trace_resets tr') end.

(* v' is reached from v by logged moves of the table and engine resets, in some interleaving *)
Definition pos_reach (v v' : vmst) : Prop :=
  cache_ok (v_ca v') /\
  exists new tr, v_log v' = new ++ v_log v /\ trace_moves tr = log_moves new
    /\ pos_trace (pos_of (v_st v)) tr = Some (pos_of (v_st v')).

Lemma pos_trace_app a : forall p b,
  pos_trace p (a ++ b) = match pos_trace p a with Some p' => pos_trace p' b | None => None end.
Proof.
  induction a as [|x a IH]; intros p b; [reflexivity|]. cbn [List.app pos_trace].
  destruct x; [destruct (nav_code p t); [apply IH|reflexivity]|apply IH].
Qed.
Lemma trace_moves_app a b : trace_moves (a ++ b) = trace_moves a ++ trace_moves b.
Proof. induction a as [|x a IH]; [reflexivity|]. destruct x; cbn [List.app trace_moves]; rewrite IH; reflexivity. Qed.
Lemma trace_resets_app a b : trace_resets (a ++ b) = (trace_resets a + trace_resets b)%nat.
Proof. induction a as [|x a IH]; [reflexivity|]. destruct x; cbn [List.app trace_resets]; rewrite IH; reflexivity. Qed.
Lemma pos_trace_moves ms : forall p, pos_trace p (map PMove ms) = nav_fold nav_code p ms.
Proof. induction ms as [|m ms IH]; intros p; [reflexivity|]. cbn [map pos_trace nav_fold]. destruct (nav_code p m); [apply IH|reflexivity]. Qed.
Lemma trace_moves_map ms : trace_moves (map PMove ms) = ms.
Proof. induction ms as [|m ms IH]; [reflexivity|]. cbn [map trace_moves]. rewrite IH. reflexivity. Qed.
Lemma trace_resets_map ms : trace_resets (map PMove ms) = O.
Proof. induction ms as [|m ms IH]; [reflexivity|]. exact IH. Qed.

Lemma pr_follows a b : pos_follows a b -> pos_reach a b.
Proof.
  intros (C & new & L & F). split; [exact C|]. exists new, (map PMove (log_moves new)).
  split; [exact L|]. split; [apply trace_moves_map|]. rewrite pos_trace_moves. exact F.
Qed.
Lemma pr_refl v : cache_ok (v_ca v) -> pos_reach v v.
Proof. intros H. apply pr_follows, pf_refl, H. Qed.
Lemma pr_trans a b c : pos_reach a b -> pos_reach b c -> pos_reach a c.
Proof.
  intros (C1 & n1 & t1 & L1 & M1 & T1) (C2 & n2 & t2 & L2 & M2 & T2). split; [exact C2|].
  exists (n2 ++ n1), (t1 ++ t2). split; [rewrite L2, L1, app_assoc; reflexivity|].
  split; [rewrite trace_moves_app, log_moves_app, M1, M2; reflexivity|].
  rewrite pos_trace_app, T1. exact T2.
Qed.
Lemma pr_reset a b :
  cache_ok (v_ca b) -> v_log b = v_log a -> pos_of (v_st b) = preset (pos_of (v_st a)) -> pos_reach a b.
Proof.
  intros C L P. split; [exact C|]. exists [], [PReset]. split; [exact L|]. split; [reflexivity|].
  cbn [pos_trace]. rewrite P. reflexivity.
Qed.
Lemma pr_cache_ok a b : pos_reach a b -> cache_ok (v_ca b).
Proof. intros [C _]. exact C. Qed.
Lemma pf_cache_ok a b : pos_follows a b -> cache_ok (v_ca b).
Proof. intros [C _]. exact C. Qed.

Lemma eng_reset_inner_reach v v' s : cache_ok (v_ca v) -> eng_reset_inner v = (v', s) -> pos_reach v v'.
Proof.
  intros Hc H. destruct (eng_reset_inner_spec _ _ _ H) as (P & L & C & _).
  apply pr_reset; [apply C; exact Hc|exact L|exact P].
Qed.

(* same position, same log, frames of the cache untouched: used for the engine's bookkeeping *)
Lemma pf_same_frames v v' :
  pos_of (v_st v') = pos_of (v_st v) -> v_log v' = v_log v -> c_frames (v_ca v') = c_frames (v_ca v) ->
  cache_ok (v_ca v) -> pos_follows v v'.
Proof.
  intros P L F C. apply (pf_same _ _ []); [unfold cache_ok; rewrite F; exact C|exact L|reflexivity|exact P].
Qed.

(* ---- Vm.Render: its catch run on BrowseError is again a `run` ------------------------------ *)
Lemma vm_render_follows fuel rs sep lang v v' r :
  cache_ok (v_ca v) -> vm_render fuel rs sep lang v = (v', r) -> pos_follows v v'.
Proof.
  intros Hc H. unfold vm_render in H.
  destruct (negb (getf (v_st v) FLAG_DIRTY)); [inversion H; subst; apply pf_refl; exact Hc|].
  set (v0 := vset_st v (resetf (v_st v) FLAG_DIRTY)) in *.
  assert (Q0 : quiet v v0) by (apply quiet_set_st; reflexivity).
  destruct (where_sym (v_st v0)) as [|x sym] eqn:Ew; [inversion H; subst; apply quiet_pf; assumption|].
  destruct (page_render (v_ca v0) (rs_tpl rs lang) (rs_menu rs lang) (v_pg v0) (x :: sym) (s_idx (v_st v0))) as [r0 pg'].
  set (v1 := vlog (vset_pg v0 pg') (EvRender (x :: sym) (s_idx (v_st v0)) lang)) in *.
  assert (Q1 : quiet v v1).
  { eapply quiet_trans; [exact Q0|]. eapply quiet_trans; [apply quiet_set_pg|]. apply (quiet_vlog _ (EvRender _ _ _)). exact I. }
  assert (F1 : pos_follows v v1) by (apply quiet_pf; assumption).
  destruct r0 as [out|e|n]; try (inversion H; subst; exact F1).
  destruct e; try (inversion H; subst; exact F1).
  set (v2 := vset_pg v1 (vm_reset sep (v_pg v1))) in *.
  assert (Q2 : quiet v v2) by (eapply quiet_trans; [exact Q1|apply quiet_set_pg]).
  destruct (run fuel rs sep lang move_catch_code v2) as [[v3 b3] s3] eqn:Hr.
  assert (F3 : pos_follows v v3).
  { eapply pf_quiet_l; [exact Hc|exact Q2|]. eapply run_follows; [|exact Hr]. apply (quiet_cache_ok _ _ Q2 Hc). }
  destruct s3; try (inversion H; subst; exact F3);
    destruct (page_render (v_ca v3) (rs_tpl rs lang) (rs_menu rs lang) (v_pg v3) (where_sym (v_st v3)) (s_idx (v_st v3))) as [r1 pg1];
    inversion H; subst;
    (eapply pf_quiet_r; [exact F3|]; eapply quiet_trans; [apply quiet_set_pg|]; apply (quiet_vlog _ (EvRender _ _ _)); exact I).
Qed.

(* ---- engine bookkeeping ---------------------------------------------------------------------- *)
Lemma set_code_eng_follows e code e' cont :
  cache_ok (v_ca (e_v e)) -> set_code_eng e code = (e', cont) ->
  pos_follows (e_v e) (e_v e') /\ e_initd e' = e_initd e
  /\ (cont = true -> e_exiting e' = e_exiting e) /\ (code <> [] -> cont = true).
Proof.
  intros Hc H. unfold set_code_eng in H. destruct code as [|x code].
  - destruct (getf (set_code (v_st (e_v e)) []) FLAG_DIRTY).
    + destruct (cache_last (v_ca (e_v e))) as [lastv ca'] eqn:El. inversion H; subst. cbn [e_v e_initd].
      split; [|split; [reflexivity|split; [discriminate|intros C; contradiction]]].
      apply pf_same_frames; try reflexivity; [|exact Hc].
      unfold cache_last in El. inversion El; subst. reflexivity.
    + inversion H; subst. split; [|split; [reflexivity|split; [discriminate|intros C; contradiction]]].
      apply pf_same_frames; try reflexivity. exact Hc.
  - inversion H; subst. split; [|split; [reflexivity|split; [reflexivity|reflexivity]]].
    apply pf_same_frames; try reflexivity. exact Hc.
Qed.

Lemma eng_flush_reach fuel rs c e e' out f :
  cache_ok (v_ca (e_v e)) -> eng_flush fuel rs c e = (e', out, f) ->
  pos_reach (e_v e) (e_v e') /\ e_initd e' = e_initd e /\ e_execd e' = e_execd e
  /\ (e_exiting e = false -> pos_follows (e_v e) (e_v e') /\ e_exiting e' = false).
Proof.
  intros Hc H. unfold eng_flush in H.
  destruct (negb (e_execd e)).
  { inversion H; subst. split; [apply pr_refl; exact Hc|]. split; [reflexivity|]. split; [reflexivity|].
    intros Hx. split; [apply pf_refl; exact Hc|exact Hx]. }
  destruct (vm_render fuel rs (c_sep c) (s_lang (v_st (e_v e))) (e_v e)) as [v r] eqn:Hr.
  pose proof (vm_render_follows _ _ _ _ _ _ _ Hc Hr) as F1.
  pose proof (pf_cache_ok _ _ F1) as Hc1.
  assert (Base : forall e1, e1 = eset_v e v ->
            pos_reach (e_v e) (e_v e1) /\ e_initd e1 = e_initd e /\ e_execd e1 = e_execd e
            /\ (e_exiting e = false -> pos_follows (e_v e) (e_v e1) /\ e_exiting e1 = false)).
  { intros e1 ->. cbn [eset_v e_v e_initd e_execd e_exiting].
    split; [apply pr_follows; exact F1|]. split; [reflexivity|]. split; [reflexivity|]. intros Hx. split; [exact F1|exact Hx]. }
  assert (Reset : forall v2 s2 ex, eng_reset_inner v = (v2, s2) -> e_exiting e = true ->
            let e1 := mkEng v2 (e_initd e) ex false (e_execd e) in
            pos_reach (e_v e) (e_v e1) /\ e_initd e1 = e_initd e /\ e_execd e1 = e_execd e
            /\ (e_exiting e = false -> pos_follows (e_v e) (e_v e1) /\ e_exiting e1 = false)).
  { intros v2 s2 ex Hre Hx. cbn [e_v e_initd e_execd e_exiting].
    split; [eapply pr_trans; [apply pr_follows; exact F1|eapply eng_reset_inner_reach; eassumption]|].
    split; [reflexivity|]. split; [reflexivity|]. intros Hy. congruence. }
  cbn [e_v eset_v e_exit e_exiting e_initd e_execd] in H.
  destruct r as [o|er|n|]; try (inversion H; subst; apply Base; reflexivity).
  - (* rendered *)
    destruct ((0 <? c_out c) && (0 <? len (e_exit e)) && (c_out c <? w32 (len (e_exit e) + len o))).
    + destruct (e_exiting e) eqn:Hx.
      * destruct (eng_reset_inner v) as [v2 s2] eqn:Hre. inversion H; subst. eapply Reset; first [eassumption|reflexivity].
      * inversion H; subst. apply Base; reflexivity.
    + destruct (e_exiting e) eqn:Hx.
      * destruct (eng_reset_inner v) as [v2 s2] eqn:Hre.
        destruct s2; inversion H; subst; eapply Reset; first [eassumption|reflexivity].
      * inversion H; subst. apply Base; reflexivity.
  - (* render error *)
    destruct ((0 <? c_out c) && (0 <? len (e_exit e)) && (c_out c <? w32 (len (e_exit e) + 0))).
    + destruct (e_exiting e) eqn:Hx.
      * destruct (eng_reset_inner v) as [v2 s2] eqn:Hre. inversion H; subst. eapply Reset; first [eassumption|reflexivity].
      * inversion H; subst. apply Base; reflexivity.
    + destruct (e_exit e) as [|x ex] eqn:Hex; [inversion H; subst; apply Base; reflexivity|].
      destruct (e_exiting e) eqn:Hx.
      * destruct (eng_reset_inner v) as [v2 s2] eqn:Hre.
        destruct s2; inversion H; subst; eapply Reset; first [eassumption|reflexivity].
      * inversion H; subst. apply Base; reflexivity.
Qed.

Lemma eng_exec_inner_follows fuel rs c e e' cont s :
  cache_ok (v_ca (e_v e)) -> eng_exec_inner fuel rs c e = (e', cont, s) ->
  pos_follows (e_v e) (e_v e') /\ e_initd e' = e_initd e
  /\ (cont = true -> e_exiting e' = e_exiting e /\ s = SOk).
Proof.
  intros Hc H. unfold eng_exec_inner in H.
  set (v0 := vset_st (e_v e) (set_code (v_st (e_v e)) [])) in *.
  assert (Q0 : quiet (e_v e) v0) by (apply quiet_set_st; reflexivity).
  pose proof (quiet_cache_ok _ _ Q0 Hc) as Hc0.
  destruct (s_code (v_st (e_v e))) as [|x code].
  { inversion H; subst. split; [apply quiet_pf; assumption|]. split; [reflexivity|discriminate]. }
  destruct (run fuel rs (c_sep c) (s_lang (v_st v0)) (x :: code) v0) as [[v1 b] s1] eqn:Hr.
  assert (F1 : pos_follows (e_v e) v1).
  { eapply pf_quiet_l; [exact Hc|exact Q0|]. eapply run_follows; [exact Hc0|exact Hr]. }
  destruct s1; try (inversion H; subst; split; [exact F1|split; [reflexivity|discriminate]]).
  destruct (getf (v_st v1) FLAG_TERMINATE).
  { inversion H; subst. split; [exact F1|]. split; [reflexivity|discriminate]. }
  destruct (set_code_eng (mkEng v1 (e_initd e) (e_exit e) (e_exiting e) true) b) as [e2 cont2] eqn:Hs.
  inversion H; subst.
  destruct (set_code_eng_follows (mkEng v1 (e_initd e) (e_exit e) (e_exiting e) true) b e' cont (pf_cache_ok _ _ F1) Hs) as (F2 & I2 & X2 & _).
  cbn [e_v e_initd e_exiting] in *.
  split; [eapply pf_trans; eassumption|]. split; [exact I2|]. intros Hcont. split; [apply X2; exact Hcont|reflexivity].
Qed.

Lemma eng_reset_force_reach c e e' s :
  cache_ok (v_ca (e_v e)) -> eng_reset_force c e = (e', s) ->
  pos_reach (e_v e) (e_v e') /\ e_initd e' = e_initd e /\ e_exiting e' = e_exiting e.
Proof.
  intros Hc H. unfold eng_reset_force in H.
  destruct (s_path (v_st (e_v e))).
  { inversion H; subst. split; [apply pr_refl; exact Hc|]. split; reflexivity. }
  set (v0 := vset_st (e_v e) (set_code (v_st (e_v e)) (encode (IMove (cfg_root c))))) in *.
  assert (Q0 : quiet (e_v e) v0) by (apply quiet_set_st; reflexivity).
  destruct (eng_reset_inner v0) as [v1 s1] eqn:Hre. inversion H; subst. cbn [e_v eset_v e_initd e_exiting].
  split; [|split; reflexivity].
  eapply pr_trans; [apply pr_follows, quiet_pf; [exact Hc|exact Q0]|].
  eapply eng_reset_inner_reach; [|exact Hre]. apply (quiet_cache_ok _ _ Q0 Hc).
Qed.

(* no stale position to unwind when a new engine object takes over the session *)
Definition no_stale (st : state) : Prop :=
  s_code st <> [] \/ s_path st = [] \/ getf st FLAG_TERMINATE = true.

Lemma run_first_none fuel c lang e : c_first c = None -> run_first fuel c lang e = (e, true, SOk).
Proof. intros H. unfold run_first. rewrite H. reflexivity. Qed.

Lemma eng_init_reach fuel rs c e input e' cont s :
  (e_initd e = true \/ c_first c = None) -> cache_ok (v_ca (e_v e)) ->
  eng_init fuel rs c e input = (e', cont, s) ->
  pos_reach (e_v e) (e_v e')
  /\ (s = SOk -> cont = true -> e_initd e' = true /\ e_exiting e' = false)
  /\ (e_exiting e = false -> (e_initd e = true \/ (e_execd e = false /\ no_stale (v_st (e_v e)))) ->
      pos_follows (e_v e) (e_v e')).
Proof.
  intros Hfirst Hc H. unfold eng_init in H.
  (* prepare *)
  assert (Hprep : exists e1 s1,
            (if e_execd e then let '(e', _, f) := eng_flush fuel rs c e in (e', stat_of_f f) else (e, SOk)) = (e1, s1)
            /\ pos_reach (e_v e) (e_v e1) /\ e_initd e1 = e_initd e
            /\ (e_exiting e = false -> pos_follows (e_v e) (e_v e1))
            /\ (e_execd e = false -> e1 = e)).
  { destruct (e_execd e) eqn:Hx.
    - destruct (eng_flush fuel rs c e) as [[ef o] f] eqn:Hf.
      destruct (eng_flush_reach _ _ _ _ _ _ _ Hc Hf) as (R & I1 & _ & X).
      exists ef, (stat_of_f f). split; [reflexivity|]. split; [exact R|]. split; [exact I1|].
      split; [intros Hy; apply X; exact Hy|discriminate].
    - exists e, SOk. split; [reflexivity|]. split; [apply pr_refl; exact Hc|]. split; [reflexivity|].
      split; [intros _; apply pf_refl; exact Hc|reflexivity]. }
  destruct Hprep as (e1 & s1 & Hp & R1 & I1 & X1 & U1). rewrite Hp in H.
  pose proof (pr_cache_ok _ _ R1) as Hc1.
  destruct s1; try (inversion H; subst; split; [exact R1|split; [discriminate|intros Hx _; apply X1; exact Hx]]).
  cbn [e_v e_initd e_exiting e_exit e_execd] in H.
  destruct (e_initd e1) eqn:Hi1.
  { inversion H; subst. cbn [e_v e_initd e_exiting]. split; [exact R1|]. split; [auto|]. intros Hx _. apply X1. exact Hx. }
  assert (Hf0 : c_first c = None) by (destruct Hfirst as [Hf|Hf]; [congruence|exact Hf]).
  destruct (set_input (v_st (e_v e1)) (Some input)) as [st1|er|n] eqn:Hsi;
    try (inversion H; subst; cbn [e_v]; split; [exact R1|split; [discriminate|intros Hx _; apply X1; exact Hx]]).
  rewrite (run_first_none _ _ _ _ Hf0) in H. cbn [negb e_v eset_v] in H.
  assert (Hst1 : st1 = set_input_raw (v_st (e_v e1)) (Some input)).
  { unfold set_input in Hsi. destruct (INPUT_LIMIT <? len input); inversion Hsi; reflexivity. }
  set (v3 := vset_st (e_v e1) st1) in *.
  assert (Q3 : quiet (e_v e1) v3) by (apply quiet_set_st; rewrite Hst1; reflexivity).
  pose proof (quiet_cache_ok _ _ Q3 Hc1) as Hc3.
  set (e3 := eset_v (mkEng (e_v e1) false [] false false) v3) in *.
  (* the stale-position unwinding *)
  assert (Hun : exists e4 s4,
            match s_code (v_st v3), s_path (v_st v3) with
            | [], _ :: _ => if getf (v_st v3) FLAG_TERMINATE then (e3, SOk)
                           else let '(v', s') := eng_reset_inner v3 in (eset_v e3 v', s')
            | _, _ => (e3, SOk)
            end = (e4, s4)
            /\ pos_reach v3 (e_v e4) /\ e_initd e4 = false /\ e_exiting e4 = false
            /\ (no_stale (v_st (e_v e1)) -> e4 = e3)).
  { assert (Hsame : exists e4 s4, (e3, SOk) = (e4, s4) /\ pos_reach v3 (e_v e4) /\ e_initd e4 = false /\ e_exiting e4 = false
                      /\ (no_stale (v_st (e_v e1)) -> e4 = e3)).
    { exists e3, SOk. split; [reflexivity|]. split; [apply pr_refl; exact Hc3|]. auto. }
    destruct (s_code (v_st v3)) as [|x cd] eqn:Ecode; [|exact Hsame].
    destruct (s_path (v_st v3)) as [|a p] eqn:Epath; [exact Hsame|].
    destruct (getf (v_st v3) FLAG_TERMINATE) eqn:Eterm; [exact Hsame|].
    destruct (eng_reset_inner v3) as [v4 s4] eqn:Hre.
    exists (eset_v e3 v4), s4. split; [reflexivity|]. split; [eapply eng_reset_inner_reach; eassumption|].
    split; [reflexivity|]. split; [reflexivity|].
    intros [Hn|[Hn|Hn]]; exfalso; subst v3; cbn [v_st vset_st] in *; rewrite Hst1 in *;
      cbn [s_code s_path set_input_raw] in *; [congruence|congruence|].
    unfold getf in *. cbn [s_flags set_input_raw] in *. congruence. }
  destruct Hun as (e4 & s4 & Hu & R4 & I4 & X4 & U4).
  change (e_v e3) with v3 in H. rewrite Hu in H.
  pose proof (pr_cache_ok _ _ R4) as Hc4.
  assert (R14 : pos_reach (e_v e) (e_v e4)).
  { eapply pr_trans; [exact R1|]. eapply pr_trans; [apply pr_follows, quiet_pf; [exact Hc1|exact Q3]|exact R4]. }
  assert (F14 : e_exiting e = false -> (e_initd e = true \/ (e_execd e = false /\ no_stale (v_st (e_v e)))) ->
                pos_follows (e_v e) (e_v e4)).
  { intros Hx [Hy|[Hy Hz]]; [congruence|]. rewrite (U1 Hy) in *. rewrite (U4 Hz). cbn [e_v e3].
    apply quiet_pf; [exact Hc|exact Q3]. }
  destruct s4; try (inversion H; subst; split; [exact R14|split; [discriminate|exact F14]]).
  assert (Hsc : exists e5 cont5,
            match s_code (v_st (e_v e4)) with
            | [] => set_code_eng e4 (encode (IMove (cfg_root c)))
            | _ => (e4, true)
            end = (e5, cont5)
            /\ pos_follows (e_v e4) (e_v e5) /\ e_initd e5 = e_initd e4 /\ e_exiting e5 = e_exiting e4).
  { destruct (s_code (v_st (e_v e4))).
    - destruct (set_code_eng e4 (encode (IMove (cfg_root c)))) as [e5 cont5] eqn:Hs.
      destruct (set_code_eng_follows _ _ _ _ Hc4 Hs) as (F5 & I5 & X5 & C5).
      exists e5, cont5. split; [reflexivity|]. split; [exact F5|]. split; [exact I5|].
      apply X5, C5. destruct (encode_shape (IMove (cfg_root c))) as (a & b & t & ->). discriminate.
    - exists e4, true. split; [reflexivity|]. split; [apply pf_refl; exact Hc4|]. auto. }
  destruct Hsc as (e5 & cont5 & Hs5 & F5 & I5 & X5). rewrite Hs5 in H.
  inversion H; subst. cbn [e_v e_initd e_exiting].
  assert (Q6 : quiet (e_v e5) (vset_st (e_v e5) (set_input_raw (v_st (e_v e5)) (s_input (v_st (e_v e1))))))
    by (apply quiet_set_st; reflexivity).
  split; [eapply pr_trans; [exact R14|apply pr_follows; eapply pf_quiet_r; [exact F5|exact Q6]]|].
  split; [intros _ _; split; [reflexivity|congruence]|].
  intros Hx Hy. eapply pf_trans; [apply F14; assumption|]. eapply pf_quiet_r; [exact F5|exact Q6].
Qed.

Lemma eng_exec_reach fuel rs c e input e' cont s :
  (e_initd e = true \/ c_first c = None) -> cache_ok (v_ca (e_v e)) ->
  eng_exec fuel rs c e input = (e', cont, s) ->
  pos_reach (e_v e) (e_v e')
  /\ (cont = true -> e_initd e' = true /\ e_exiting e' = false)
  /\ (e_exiting e = false -> (e_initd e = true \/ (e_execd e = false /\ no_stale (v_st (e_v e)))) ->
      (c_reset_empty c && (len input =? 0)) = false -> pos_follows (e_v e) (e_v e')).
Proof.
  intros Hfirst Hc H. unfold eng_exec in H.
  destruct (eng_init fuel rs c e input) as [[e1 cont0] s0] eqn:Hi.
  destruct (eng_init_reach _ _ _ _ _ _ _ _ Hfirst Hc Hi) as (R1 & I1 & F1).
  pose proof (pr_cache_ok _ _ R1) as Hc1.
  destruct s0; try (inversion H; subst; split; [exact R1|split; [discriminate|intros; apply F1; assumption]]).
  destruct cont0; cbn [negb] in H; [|inversion H; subst; split; [exact R1|split; [discriminate|intros; apply F1; assumption]]].
  destruct (I1 eq_refl eq_refl) as [Hin1 Hex1].
  assert (Hrf : exists e2 s2,
            (if c_reset_empty c && (len input =? 0) then eng_reset_force c e1 else (e1, SOk)) = (e2, s2)
            /\ pos_reach (e_v e1) (e_v e2) /\ e_initd e2 = true /\ e_exiting e2 = false
            /\ ((c_reset_empty c && (len input =? 0)) = false -> e2 = e1)).
  { destruct (c_reset_empty c && (len input =? 0)).
    - destruct (eng_reset_force c e1) as [e2 s2] eqn:Hf.
      destruct (eng_reset_force_reach _ _ _ _ Hc1 Hf) as (R & I & X).
      exists e2, s2. split; [reflexivity|]. split; [exact R|]. split; [congruence|]. split; [congruence|discriminate].
    - exists e1, SOk. split; [reflexivity|]. split; [apply pr_refl; exact Hc1|]. auto. }
  destruct Hrf as (e2 & s2 & Hf & R2 & I2 & X2 & U2). rewrite Hf in H.
  pose proof (pr_cache_ok _ _ R2) as Hc2.
  assert (R12 : pos_reach (e_v e) (e_v e2)) by (eapply pr_trans; eassumption).
  assert (F12 : e_exiting e = false -> (e_initd e = true \/ (e_execd e = false /\ no_stale (v_st (e_v e)))) ->
                (c_reset_empty c && (len input =? 0)) = false -> pos_follows (e_v e) (e_v e2)).
  { intros Hx Hy Hz. rewrite (U2 Hz). apply F1; assumption. }
  destruct s2; try (inversion H; subst; split; [exact R12|split; [discriminate|exact F12]]).
  destruct ((0 <? len input) && negb (valid_input_b input)).
  { inversion H; subst. split; [exact R12|]. split; [auto|exact F12]. }
  destruct (set_input (v_st (e_v e2)) (Some input)) as [st'|er|n] eqn:Hsi;
    try (inversion H; subst; split; [exact R12|split; [discriminate|exact F12]]).
  assert (Hst : st' = set_input_raw (v_st (e_v e2)) (Some input)).
  { unfold set_input in Hsi. destruct (INPUT_LIMIT <? len input); inversion Hsi; reflexivity. }
  set (e3 := eset_v e2 (vset_st (e_v e2) st')) in *.
  assert (Q3 : quiet (e_v e2) (e_v e3)) by (apply quiet_set_st; rewrite Hst; reflexivity).
  destruct (eng_exec_inner_follows fuel rs c e3 e' cont s (quiet_cache_ok _ _ Q3 Hc2) H) as (F4 & I4 & X4).
  assert (F24 : pos_follows (e_v e2) (e_v e')) by (eapply pf_quiet_l; [exact Hc2|exact Q3|exact F4]).
  split; [eapply pr_trans; [exact R12|apply pr_follows; exact F24]|].
  split.
  - intros Hcont. destruct (X4 Hcont) as [X5 _]. split; [rewrite I4; exact I2|rewrite X5; exact X2].
  - intros Hx Hy Hz. eapply pf_trans; [apply F12; assumption|exact F24].
Qed.

(* ---- requests ---------------------------------------------------------------------------------- *)
Lemma request_long_reach fuel rs c e input e' resp :
  (e_initd e = true \/ c_first c = None) -> cache_ok (v_ca (e_v e)) ->
  request_long fuel rs c e input = (e', resp) ->
  pos_reach (e_v e) (e_v e')
  /\ (e_exiting e = false -> (e_initd e = true \/ (e_execd e = false /\ no_stale (v_st (e_v e)))) ->
      (c_reset_empty c && (len input =? 0)) = false -> r_cont resp = true ->
      pos_follows (e_v e) (e_v e')).
Proof.
  intros Hfirst Hc H. unfold request_long in H.
  destruct (eng_exec fuel rs c e input) as [[e1 cont] s] eqn:He.
  destruct (eng_exec_reach _ _ _ _ _ _ _ _ Hfirst Hc He) as (R1 & I1 & F1).
  pose proof (pr_cache_ok _ _ R1) as Hc1.
  assert (Hflush : forall e2 out f, eng_flush fuel rs c e1 = (e2, out, f) ->
            pos_reach (e_v e) (e_v e2)
            /\ (e_exiting e = false -> (e_initd e = true \/ (e_execd e = false /\ no_stale (v_st (e_v e)))) ->
                (c_reset_empty c && (len input =? 0)) = false -> cont = true -> pos_follows (e_v e) (e_v e2))).
  { intros e2 out f Hf. destruct (eng_flush_reach _ _ _ _ _ _ _ Hc1 Hf) as (R2 & _ & _ & X2).
    split; [eapply pr_trans; eassumption|]. intros Hx Hy Hz Hcont.
    destruct (I1 Hcont) as [_ Hex]. destruct (X2 Hex) as [F2 _].
    eapply pf_trans; [apply F1; assumption|exact F2]. }
  destruct s.
  - destruct (eng_flush fuel rs c e1) as [[e2 out] f] eqn:Hf. inversion H; subst. cbn [r_cont]. eapply Hflush; reflexivity.
  - destruct (eng_flush fuel rs c e1) as [[e2 out] f] eqn:Hf. inversion H; subst. cbn [r_cont]. eapply Hflush; reflexivity.
  - inversion H; subst. cbn [r_cont]. split; [exact R1|]. intros; apply F1; assumption.
  - inversion H; subst. cbn [r_cont]. split; [exact R1|]. intros; apply F1; assumption.
Qed.

(* persisted operation: the session record the request starts from *)
Definition start_snap (c : config) (p : pworld) : snapshot :=
  match pw_store p with Some sc => sc | None => (fresh_state c, fresh_cache c) end.

Lemma new_engine_facts c p :
  let e := new_engine c (pw_store p) (pw_w p) (pw_log p) in
  v_st (e_v e) = fst (start_snap c p) /\ v_ca (e_v e) = snd (start_snap c p) /\ v_log (e_v e) = pw_log p
  /\ e_initd e = false /\ e_execd e = false /\ e_exiting e = false.
Proof.
  unfold new_engine, start_snap. destruct (pw_store p) as [[s ca]|];
    cbn [v_st v_ca v_log e_v e_initd e_execd e_exiting fst snd]; auto 10.
Qed.

Lemma fresh_state_pos c : pos_of (fresh_state c) = ([], 0).
Proof.
  unfold fresh_state. destruct (s_lang _); [rewrite pos_setf|]; rewrite st_set_language_pos; reflexivity.
Qed.
Lemma fresh_cache_ok c : cache_ok (fresh_cache c).
Proof. unfold cache_ok, fresh_cache, new_cache. cbn [c_frames]. discriminate. Qed.

Definition fstat_fatal (f : fstat) : bool := match f with FPanic _ | FFuel => true | _ => false end.

Lemma request_persisted_reach fuel rs c p input p' resp :
  c_first c = None -> cache_ok (snd (start_snap c p)) ->
  request_persisted fuel rs c p input = (p', resp) ->
  exists st' ca', pw_store p' = Some (st', ca') /\ cache_ok ca'
  /\ ((* the record was not rewritten (panic, out of fuel, engine not initialised) *)
      (pos_of st' = pos_of (fst (start_snap c p)) /\ ca' = snd (start_snap c p))
      \/ exists new tr, pw_log p' = new ++ pw_log p /\ trace_moves tr = log_moves new
           /\ pos_trace (pos_of (fst (start_snap c p))) tr = Some (pos_of st'))
  /\ (no_stale (fst (start_snap c p)) -> (c_reset_empty c && (len input =? 0)) = false ->
      r_cont resp = true -> fstat_fatal (r_flush resp) = false ->
      exists new, pw_log p' = new ++ pw_log p
        /\ nav_fold nav_code (pos_of (fst (start_snap c p))) (log_moves new) = Some (pos_of st')).
Proof.
  intros Hfirst Hc0 H. unfold request_persisted in H.
  destruct (new_engine_facts c p) as (Est & Eca & Elog & Einit & Eexecd & Eexiting).
  set (e := new_engine c (pw_store p) (pw_w p) (pw_log p)) in *.
  assert (Hc : cache_ok (v_ca (e_v e))) by (rewrite Eca; exact Hc0).
  set (store0 := match pw_store p with Some s => Some s | None => Some (snap_of (v_st (e_v e)) (v_ca (e_v e))) end) in *.
  assert (Hs0 : exists st0 ca0, store0 = Some (st0, ca0) /\ pos_of st0 = pos_of (fst (start_snap c p))
                                /\ ca0 = snd (start_snap c p)).
  { subst store0. rewrite Est, Eca. unfold start_snap. destruct (pw_store p) as [[s ca]|].
    - exists s, ca. auto.
    - eexists. eexists. split; [reflexivity|]. split; reflexivity. }
  destruct Hs0 as (st0 & ca0 & Hs0 & Hp0 & Hca0).
  assert (Keep : forall w lg t r, (mkPw store0 w lg t, r) = (p', resp) -> fstat_fatal (r_flush r) = true \/ r_cont r = false ->
            exists st' ca', pw_store p' = Some (st', ca') /\ cache_ok ca'
            /\ ((pos_of st' = pos_of (fst (start_snap c p)) /\ ca' = snd (start_snap c p))
                \/ exists new tr, pw_log p' = new ++ pw_log p /\ trace_moves tr = log_moves new
                     /\ pos_trace (pos_of (fst (start_snap c p))) tr = Some (pos_of st'))
            /\ (no_stale (fst (start_snap c p)) -> (c_reset_empty c && (len input =? 0)) = false ->
                r_cont resp = true -> fstat_fatal (r_flush resp) = false ->
                exists new, pw_log p' = new ++ pw_log p
                  /\ nav_fold nav_code (pos_of (fst (start_snap c p))) (log_moves new) = Some (pos_of st'))).
  { intros w lg t r Hk Hbad. inversion Hk; subst p' resp. cbn [pw_store]. exists st0, ca0.
    split; [exact Hs0|]. split; [rewrite Hca0; exact Hc0|]. split; [left; auto|].
    intros _ _ Hcont Hfl. destruct Hbad as [Hb|Hb]; congruence. }
  destruct (eng_exec fuel rs c e input) as [[e1 cont] s] eqn:He.
  destruct (eng_exec_reach _ _ _ _ _ _ _ _ (or_intror Hfirst) Hc He) as (R1 & I1 & F1).
  pose proof (pr_cache_ok _ _ R1) as Hc1.
  assert (Main : forall e2 out f, eng_flush fuel rs c e1 = (e2, out, f) ->
            (match f with
             | FPanic _ | FFuel => (mkPw store0 (v_w (e_v e2)) (v_log (e_v e2)) (pw_taint p || v_taint (e_v e2)), mkResp cont s out f)
             | _ => (mkPw (match eng_finish e2 with Some sn => Some sn | None => store0 end)
                          (v_w (e_v e2)) (v_log (e_v e2)) (pw_taint p || v_taint (e_v e2)), mkResp cont s out f)
             end) = (p', resp) ->
            exists st' ca', pw_store p' = Some (st', ca') /\ cache_ok ca'
            /\ ((pos_of st' = pos_of (fst (start_snap c p)) /\ ca' = snd (start_snap c p))
                \/ exists new tr, pw_log p' = new ++ pw_log p /\ trace_moves tr = log_moves new
                     /\ pos_trace (pos_of (fst (start_snap c p))) tr = Some (pos_of st'))
            /\ (no_stale (fst (start_snap c p)) -> (c_reset_empty c && (len input =? 0)) = false ->
                r_cont resp = true -> fstat_fatal (r_flush resp) = false ->
                exists new, pw_log p' = new ++ pw_log p
                  /\ nav_fold nav_code (pos_of (fst (start_snap c p))) (log_moves new) = Some (pos_of st'))).
  { intros e2 out f Hf Hk.
    destruct (eng_flush_reach _ _ _ _ _ _ _ Hc1 Hf) as (R2 & I2 & _ & X2).
    assert (R02 : pos_reach (e_v e) (e_v e2)) by (eapply pr_trans; eassumption).
    destruct (fstat_fatal f) eqn:Hfat.
    { destruct f; try discriminate; eapply Keep; try exact Hk; left; reflexivity. }
    assert (Hk' : (mkPw (match eng_finish e2 with Some sn => Some sn | None => store0 end)
                        (v_w (e_v e2)) (v_log (e_v e2)) (pw_taint p || v_taint (e_v e2)), mkResp cont s out f) = (p', resp))
      by (destruct f; try discriminate; exact Hk).
    clear Hk. unfold eng_finish in Hk'. destruct (e_initd e2) eqn:Hi2.
    - inversion Hk'; subst p' resp. cbn [pw_store pw_log r_cont r_flush].
      exists (set_input_raw (v_st (e_v e2)) None), (v_ca (e_v e2)).
      split; [reflexivity|]. split; [apply (pr_cache_ok _ _ R02)|].
      destruct R02 as (_ & new & tr & L & M & T). rewrite Est, Elog in *.
      split; [right; exists new, tr; auto|].
      intros Hns Hre Hcont _. destruct (I1 Hcont) as [_ Hex1]. destruct (X2 Hex1) as [F2 _].
      assert (F02 : pos_follows (e_v e) (e_v e2)).
      { eapply pf_trans; [apply F1; [exact Eexiting|right; split; [exact Eexecd|exact Hns]|exact Hre]|exact F2]. }
      destruct F02 as (_ & new2 & L2 & N2). rewrite Est, Elog in *. exists new2. auto.
    - eapply Keep; [exact Hk'|]. right. cbn [r_cont].
      destruct cont; [|reflexivity]. destruct (I1 eq_refl) as [Hi1 _]. congruence. }
  destruct s.
  - destruct (eng_flush fuel rs c e1) as [[e2 out] f] eqn:Hf. eapply Main; [reflexivity|exact H].
  - destruct (eng_flush fuel rs c e1) as [[e2 out] f] eqn:Hf. eapply Main; [reflexivity|exact H].
  - eapply Keep; [exact H|left; reflexivity].
  - eapply Keep; [exact H|left; reflexivity].
Qed.

(* ---- lateral moves ------------------------------------------------------------------------------- *)
Lemma lateral_only_index_lemma : forall t st ca st' ca' sym r,
  t = t_next \/ t = t_prev -> apply_target t st ca = (st', ca', sym, r) ->
  (* only the page index can change: stack, cache and every other field stay *)
  st' = set_path_idx st (s_path st) (s_idx st') /\ ca' = ca
  (* a failing call changes nothing at all; "<" on the first page fails with IndexError *)
  /\ (r <> SOk -> st' = st)
  /\ (t = t_prev -> s_path st <> [] -> s_idx st = 0 -> st' = st /\ r = SErr EIndex (Some msg_index))
  /\ (r = SOk -> s_idx st' = if bytes_eqb t t_next then w16 (s_idx st + 1) else s_idx st - 1).
Proof.
  intros t st ca st' ca' sym r [-> | ->].
  - rewrite apply_next. unfold do_next, st_next. destruct (s_path st) eqn:Ep; intros H; inversion H; subst.
    + split; [rewrite <- Ep; apply state_eta|]. split; [reflexivity|]. split; [reflexivity|]. split; [discriminate|discriminate].
    + cbn [s_idx set_path_idx]. rewrite <- Ep. split; [reflexivity|]. split; [reflexivity|].
      split; [intros C; contradiction|]. split; [discriminate|reflexivity].
  - rewrite apply_prev. unfold do_prev, st_previous. destruct (s_path st) eqn:Ep.
    + intros H; inversion H; subst. split; [rewrite <- Ep; apply state_eta|]. split; [reflexivity|]. split; [reflexivity|].
      split; [intros _ C; contradiction|discriminate].
    + destruct (s_idx st =? 0) eqn:E0; intros H; inversion H; subst.
      * split; [rewrite <- Ep; apply state_eta|]. split; [reflexivity|]. split; [reflexivity|].
        split; [auto|discriminate].
      * cbn [s_idx set_path_idx]. rewrite <- Ep. split; [reflexivity|]. split; [reflexivity|].
        split; [intros C; contradiction|]. split; [intros _ _ Hz; rewrite Hz in E0; discriminate|reflexivity].
Qed.

(* the same read off the table: a logged ">" or "<" leaves the stack alone *)
Lemma nav_code_lateral p t p' :
  t = t_next \/ t = t_prev -> nav_code p t = Some p' -> fst p' = fst p.
Proof.
  intros [-> | ->]; rewrite nav_code_not_up by reflexivity.
  - rewrite nav_spec_next. destruct (fst p) eqn:E; [discriminate|]. intros H; inversion H. cbn [fst]. reflexivity.
  - rewrite nav_spec_prev. destruct (fst p) eqn:E; [discriminate|]. destruct (snd p =? 0); [discriminate|].
    intros H; inversion H. cbn [fst]. reflexivity.
Qed.

(* ---- the entry function is outside the table ------------------------------------------------------ *)
(* runFirst pushes "_first" with State.Down and pops it with State.Up: no move is logged, the stack
   is restored, but both calls set the page index to 0 *)
Lemma first_resets_index_example :
  exists c e, c_first c <> None /\
    let '(e', _, _) := run_first 10 c None e in
    pos_of (v_st (e_v e)) = ([s2b "root"], 2) /\ pos_of (v_st (e_v e')) = ([s2b "root"], 0)
    /\ log_moves (v_log (e_v e')) = log_moves (v_log (e_v e)).
Proof.
  exists (mkCfg 0 (s2b "root") 8 0 [] [] false (Some [mkFres (s2b "hello") false 0 [] [] false])).
  exists (mkEng (mkVm (set_path_idx (new_state 8) [s2b "root"] 2) (cache_push (new_cache 0)) (new_vm_page 0 []) [] [] false)
                false [] false false).
  split; [discriminate|]. vm_compute. repeat split.
Qed.

(* ================================================================================== *)
(* Fixtures for the Examples of props/C03.v and props/C04eng.v                          *)
(* ================================================================================== *)
Definition ex_app : app :=
  mkApp [(s2b "root", encode_prog [IHalt]); (s2b "foo", encode_prog [IHalt]); (s2b "bar", encode_prog [IHalt]);
         (s2b "_catch", encode_prog [IHalt])] [] [] [].
(* the machine stopped at root's HALT (WAIT set), on page `idx`, with the client's answer `input` *)
Definition ex_vm (idx : N) (input : bytes) : vmst :=
  let v0 := mkVm (set_input_raw (new_state 8) (Some [])) (new_cache 0) (vm_reset [] new_page) [] [] false in
  let '(v1, _, _) := run 10 (app_rsrc ex_app) [] None (encode (IMove (s2b "root"))) v0 in
  vset_st v1 (set_path_idx (set_input_raw (v_st v1) (Some input)) (s_path (v_st v1)) idx).

(* corpus case `dupsel` of go/cmd/vh/engine.go *)
Definition ex_eng_app : app :=
  mkApp [(s2b "root", encode_prog [IHalt; IInCmp (s2b "foo") (s2b "1"); IInCmp (s2b "bar") (s2b "1"); IInCmp (s2b "baz") (s2b "*")]);
         (s2b "foo", encode_prog [IHalt; IInCmp (s2b "_") (s2b "0")]);
         (s2b "bar", encode_prog [IHalt; IInCmp (s2b "_") (s2b "0")]);
         (s2b "baz", encode_prog [IHalt; IInCmp (s2b "_") (s2b "0")]);
         (s2b "_catch", encode_prog [IHalt; IInCmp (s2b "_") (s2b "*")])]
        [(s2b "root", s2b "root"); (s2b "foo", s2b "foo"); (s2b "bar", s2b "bar"); (s2b "baz", s2b "baz"); (s2b "_catch", s2b "catch")]
        [] [].
Definition ex_cfg : config := mkCfg 0 (s2b "root") 1 0 [] [] false None.
Fixpoint ex_long (e : engine) (inputs : list bytes) : engine :=
  match inputs with
  | [] => e
  | i :: r => ex_long (fst (request_long 200 (app_rsrc ex_eng_app) ex_cfg e i)) r
  end.
Fixpoint ex_pers (p : pworld) (inputs : list bytes) : pworld :=
  match inputs with
  | [] => p
  | i :: r => ex_pers (fst (request_persisted 200 (app_rsrc ex_eng_app) ex_cfg p i)) r
  end.

(* ---- against the DOCUMENTED table: guard up_free (no "_" at the entry node among the moves) ---- *)
Lemma run_follows_spec_partial : forall fuel rs sep lang b v v' b' s,
  cache_ok (v_ca v) -> run fuel rs sep lang b v = (v', b', s) ->
  exists new, v_log v' = new ++ v_log v
    /\ (up_free (pos_of (v_st v)) (log_moves new) = true ->
        nav_fold nav_spec (pos_of (v_st v)) (log_moves new) = Some (pos_of (v_st v'))).
Proof.
  intros fuel rs sep lang b v v' b' s Hc H.
  destruct (run_follows _ _ _ _ _ _ _ _ _ Hc H) as (_ & new & L & F).
  exists new. split; [exact L|]. intros G. rewrite (fold_spec_code _ _ G). exact F.
Qed.

Lemma run_follows_spec_refuted_up_at_entry :
  exists fuel rs sep lang b v v' b' s new,
    cache_ok (v_ca v) /\ run fuel rs sep lang b v = (v', b', s)
    /\ v_log v' = new ++ v_log v /\ log_moves new = [t_up]
    /\ up_free (pos_of (v_st v)) (log_moves new) = false
    /\ nav_fold nav_spec (pos_of (v_st v)) (log_moves new) = None
    /\ pos_of (v_st v) = ([s2b "root"], 0) /\ pos_of (v_st v') = ([], 0).
Proof.
  exists 20%nat, (app_rsrc ex_app), [], None, (incmp_block [(t_up, s2b "0")]), (ex_vm 0 (s2b "0")).
  eexists. eexists. eexists. exists [EvCode []; EvMove 1 t_up []; EvInCmp t_up (s2b "0") true; EvInstr op_INCMP].
  split; [vm_compute; discriminate|]. split; [vm_compute; reflexivity|].
  split; [vm_compute; reflexivity|]. vm_compute. repeat split.
Qed.

(* ---- whole histories on a long-lived engine ------------------------------------------------------ *)
Fixpoint long_history (fuel : nat) (rs : rsrc) (c : config) (e : engine) (inputs : list bytes) : engine :=
  match inputs with
  | [] => e
  | i :: r => long_history fuel rs c (fst (request_long fuel rs c e i)) r
  end.
Lemma long_history_reach : forall inputs fuel rs c e,
  c_first c = None -> cache_ok (v_ca (e_v e)) ->
  pos_reach (e_v e) (e_v (long_history fuel rs c e inputs)).
Proof.
  induction inputs as [|i r IH]; intros fuel rs c e Hf Hc; [apply pr_refl; exact Hc|].
  cbn [long_history]. destruct (request_long fuel rs c e i) as [e1 resp] eqn:Hr. cbn [fst].
  destruct (request_long_reach _ _ _ _ _ _ _ (or_intror Hf) Hc Hr) as [R1 _].
  eapply pr_trans; [exact R1|]. apply IH; [exact Hf|apply (pr_cache_ok _ _ R1)].
Qed.
(* from a new engine without a stored session: the trace starts at the empty position *)
Lemma long_history_fresh : forall inputs fuel rs c w lg,
  c_first c = None ->
  let e := long_history fuel rs c (new_engine c None w lg) inputs in
  exists new tr, v_log (e_v e) = new ++ lg /\ trace_moves tr = log_moves new
    /\ pos_trace ([], 0) tr = Some (pos_of (v_st (e_v e))).
Proof.
  intros inputs fuel rs c w lg Hf. cbv zeta.
  destruct (long_history_reach inputs fuel rs c (new_engine c None w lg) Hf) as (_ & new & tr & L & M & T).
  - unfold new_engine. cbn [e_v v_ca]. apply fresh_cache_ok.
  - exists new, tr. unfold new_engine in L, T. cbn [e_v v_log v_st] in L, T. rewrite fresh_state_pos in T. auto.
Qed.

(* ================================================================================== *)
(* Follow-up 1 — whole histories in persisted operation                                 *)
(* ================================================================================== *)

Lemma eng_flush_noexec fuel rs c e : e_execd e = false -> eng_flush fuel rs c e = (e, [], FErr EFlushNoExec).
Proof. intros H. unfold eng_flush. rewrite H. reflexivity. Qed.

(* a new engine object (not initialised, nothing executed), no entry function: Init either
   initialises it, or gives up without having logged anything and without marking it executed *)
Lemma eng_init_fresh fuel rs c e input e' cont s :
  c_first c = None -> e_execd e = false -> e_initd e = false ->
  eng_init fuel rs c e input = (e', cont, s) ->
  e_initd e' = true
  \/ (v_log (e_v e') = v_log (e_v e) /\ e_execd e' = false /\ e_initd e' = false /\ (s <> SOk \/ cont = false)).
Proof.
  intros Hf Hx Hi H. unfold eng_init in H. rewrite Hx in H. cbn [e_v e_initd e_exit e_exiting e_execd] in H. rewrite Hi in H.
  destruct (set_input (v_st (e_v e)) (Some input)) as [st1|er|n];
    try (inversion H; subst; right; cbn [e_v e_execd e_initd]; split; [reflexivity|split; [reflexivity|split; [reflexivity|left; discriminate]]]).
  rewrite (run_first_none _ _ _ _ Hf) in H. cbn [negb] in H.
  set (v3 := vset_st (e_v e) st1) in *.
  set (e3 := eset_v (mkEng (e_v e) false [] false false) v3) in *.
  match type of H with
  | match ?X with _ => _ end = _ =>
    assert (Hun : exists e4 s4, X = (e4, s4) /\ v_log (e_v e4) = v_log (e_v e) /\ e_execd e4 = false /\ e_initd e4 = false)
  end.
  { assert (Hsame : exists e4 s4, (e3, SOk) = (e4, s4) /\ v_log (e_v e4) = v_log (e_v e) /\ e_execd e4 = false /\ e_initd e4 = false).
    { exists e3, SOk. repeat split. }
    change (e_v e3) with v3.
    destruct (s_code (v_st v3)); [|exact Hsame]. destruct (s_path (v_st v3)); [exact Hsame|].
    destruct (getf (v_st v3) FLAG_TERMINATE); [exact Hsame|].
    destruct (eng_reset_inner v3) as [v4 s4] eqn:Hre.
    destruct (eng_reset_inner_spec _ _ _ Hre) as (_ & L & _).
    exists (eset_v e3 v4), s4. split; [reflexivity|]. split; [exact L|]. split; reflexivity. }
  destruct Hun as (e4 & s4 & Hu & L4 & X4 & I4). rewrite Hu in H.
  destruct s4; try (inversion H; subst; right; split; [exact L4|split; [exact X4|split; [exact I4|left; discriminate]]]).
  destruct (match s_code (v_st (e_v e4)) with [] => set_code_eng e4 (encode (IMove (cfg_root c))) | _ => (e4, true) end) as [e5 cont5].
  inversion H; subst. left. reflexivity.
Qed.

Lemma eng_exec_fresh fuel rs c e input e' cont s :
  c_first c = None -> e_execd e = false -> e_initd e = false -> cache_ok (v_ca (e_v e)) ->
  eng_exec fuel rs c e input = (e', cont, s) ->
  e_initd e' = true \/ (v_log (e_v e') = v_log (e_v e) /\ e_execd e' = false /\ e_initd e' = false).
Proof.
  intros Hf Hx Hi Hc H. unfold eng_exec in H.
  destruct (eng_init fuel rs c e input) as [[e1 cont0] s0] eqn:Hin.
  destruct (eng_init_reach _ _ _ _ _ _ _ _ (or_intror Hf) Hc Hin) as (R1 & _ & _).
  destruct (eng_init_fresh _ _ _ _ _ _ _ _ Hf Hx Hi Hin) as [I1|(L1 & X1 & I1 & B1)].
  - (* initialised: everything downstream keeps the mark *)
    left. destruct s0; try (inversion H; subst; exact I1).
    destruct cont0; cbn [negb] in H; [|inversion H; subst; exact I1].
    assert (Hrf : exists e2 s2, (if c_reset_empty c && (len input =? 0) then eng_reset_force c e1 else (e1, SOk)) = (e2, s2)
                                /\ e_initd e2 = true /\ cache_ok (v_ca (e_v e2))).
    { destruct (c_reset_empty c && (len input =? 0)).
      - destruct (eng_reset_force c e1) as [e2 s2] eqn:Hr.
        destruct (eng_reset_force_reach _ _ _ _ (pr_cache_ok _ _ R1) Hr) as (R & I & _).
        exists e2, s2. split; [reflexivity|]. split; [congruence|apply (pr_cache_ok _ _ R)].
      - exists e1, SOk. split; [reflexivity|]. split; [exact I1|apply (pr_cache_ok _ _ R1)]. }
    destruct Hrf as (e2 & s2 & Hr & I2 & Hc2). rewrite Hr in H.
    destruct s2; try (inversion H; subst; exact I2).
    destruct ((0 <? len input) && negb (valid_input_b input)); [inversion H; subst; exact I2|].
    destruct (set_input (v_st (e_v e2)) (Some input)) as [st'|er|n] eqn:Hsi; try (inversion H; subst; exact I2).
    assert (Hst : st' = set_input_raw (v_st (e_v e2)) (Some input)).
    { unfold set_input in Hsi. destruct (INPUT_LIMIT <? len input); inversion Hsi; reflexivity. }
    set (e3 := eset_v e2 (vset_st (e_v e2) st')) in *.
    assert (Q3 : quiet (e_v e2) (e_v e3)) by (apply quiet_set_st; rewrite Hst; reflexivity).
    destruct (eng_exec_inner_follows fuel rs c e3 e' cont s (quiet_cache_ok _ _ Q3 Hc2) H) as (_ & I4 & _).
    rewrite I4. exact I2.
  - right. destruct s0; try (inversion H; subst; auto).
    destruct cont0; cbn [negb] in H; [|inversion H; subst; auto].
    destruct B1 as [B1|B1]; [contradiction B1; reflexivity|discriminate].
Qed.

Definition resp_fatal (r : response) : bool :=
  match r_exec r with SPanic _ | SFuel => true | _ => fstat_fatal (r_flush r) end.

(* one persisted request that neither panicked nor ran out of fuel: the stored record afterwards is
   reached from the record before by a trace whose moves are exactly the moves logged meanwhile *)
Lemma request_persisted_trace fuel rs c p input p' resp :
  c_first c = None -> cache_ok (snd (start_snap c p)) ->
  request_persisted fuel rs c p input = (p', resp) -> resp_fatal resp = false ->
  exists st' ca', pw_store p' = Some (st', ca') /\ cache_ok ca'
    /\ exists new tr, pw_log p' = new ++ pw_log p /\ trace_moves tr = log_moves new
         /\ pos_trace (pos_of (fst (start_snap c p))) tr = Some (pos_of st').
Proof.
  intros Hfirst Hc0 H Hnf. unfold request_persisted in H.
  destruct (new_engine_facts c p) as (Est & Eca & Elog & Einit & Eexecd & Eexiting).
  set (e := new_engine c (pw_store p) (pw_w p) (pw_log p)) in *.
  assert (Hc : cache_ok (v_ca (e_v e))) by (rewrite Eca; exact Hc0).
  set (store0 := match pw_store p with Some s => Some s | None => Some (snap_of (v_st (e_v e)) (v_ca (e_v e))) end) in *.
  assert (Hs0 : exists st0 ca0, store0 = Some (st0, ca0) /\ pos_of st0 = pos_of (fst (start_snap c p))
                                /\ ca0 = snd (start_snap c p)).
  { subst store0. rewrite Est, Eca. unfold start_snap. destruct (pw_store p) as [[s ca]|].
    - exists s, ca. auto.
    - eexists. eexists. split; [reflexivity|]. split; reflexivity. }
  destruct Hs0 as (st0 & ca0 & Hs0 & Hp0 & Hca0).
  destruct (eng_exec fuel rs c e input) as [[e1 cont] s] eqn:He.
  destruct (eng_exec_reach _ _ _ _ _ _ _ _ (or_intror Hfirst) Hc He) as (R1 & _ & _).
  pose proof (pr_cache_ok _ _ R1) as Hc1.
  pose proof (eng_exec_fresh _ _ _ _ _ _ _ _ Hfirst Eexecd Einit Hc He) as Hfresh.
  assert (Main : forall e2 out f, eng_flush fuel rs c e1 = (e2, out, f) -> fstat_fatal f = false ->
            (mkPw (match eng_finish e2 with Some sn => Some sn | None => store0 end)
                  (v_w (e_v e2)) (v_log (e_v e2)) (pw_taint p || v_taint (e_v e2)), mkResp cont s out f) = (p', resp) ->
            exists st' ca', pw_store p' = Some (st', ca') /\ cache_ok ca'
              /\ exists new tr, pw_log p' = new ++ pw_log p /\ trace_moves tr = log_moves new
                   /\ pos_trace (pos_of (fst (start_snap c p))) tr = Some (pos_of st')).
  { intros e2 out f Hfl Hfat Hk.
    destruct (eng_flush_reach _ _ _ _ _ _ _ Hc1 Hfl) as (R2 & I2 & _ & _).
    assert (R02 : pos_reach (e_v e) (e_v e2)) by (eapply pr_trans; eassumption).
    unfold eng_finish in Hk. destruct (e_initd e2) eqn:Hi2.
    - inversion Hk; subst p' resp. cbn [pw_store pw_log].
      exists (set_input_raw (v_st (e_v e2)) None), (v_ca (e_v e2)).
      split; [reflexivity|]. split; [apply (pr_cache_ok _ _ R02)|].
      destruct R02 as (_ & new & tr & L & M & T). rewrite Est, Elog in *. exists new, tr. auto.
    - destruct Hfresh as [I1|(L1 & X1 & I1)]; [congruence|].
      rewrite (eng_flush_noexec _ _ _ _ X1) in Hfl. inversion Hfl; subst e2 out f.
      inversion Hk; subst p' resp. cbn [pw_store pw_log]. exists st0, ca0.
      split; [exact Hs0|]. split; [rewrite Hca0; exact Hc0|].
      exists [], []. split; [rewrite L1, Elog; reflexivity|]. split; [reflexivity|].
      cbn [pos_trace]. rewrite Hp0. reflexivity. }
  destruct s.
  - destruct (eng_flush fuel rs c e1) as [[e2 out] f] eqn:Hfl.
    assert (Hfat : fstat_fatal f = false).
    { destruct f; try reflexivity; inversion H; subst resp; cbn [resp_fatal r_exec r_flush fstat_fatal] in Hnf; discriminate. }
    eapply Main; [reflexivity|exact Hfat|]. destruct f; try discriminate; exact H.
  - destruct (eng_flush fuel rs c e1) as [[e2 out] f] eqn:Hfl.
    assert (Hfat : fstat_fatal f = false).
    { destruct f; try reflexivity; inversion H; subst resp; cbn [resp_fatal r_exec r_flush fstat_fatal] in Hnf; discriminate. }
    eapply Main; [reflexivity|exact Hfat|]. destruct f; try discriminate; exact H.
  - inversion H; subst resp. cbn [resp_fatal r_exec r_flush fstat_fatal] in Hnf. discriminate.
  - inversion H; subst resp. cbn [resp_fatal r_exec r_flush fstat_fatal] in Hnf. discriminate.
Qed.

(* an input history served by one new engine object per request; the responses are collected *)
Fixpoint pers_history (fuel : nat) (rs : rsrc) (c : config) (p : pworld) (inputs : list bytes) : pworld * list response :=
  match inputs with
  | [] => (p, [])
  | i :: r =>
    let '(p1, resp) := request_persisted fuel rs c p i in
    let '(p2, resps) := pers_history fuel rs c p1 r in
    (p2, resp :: resps)
  end.
Definition no_fatal (resps : list response) : bool := forallb (fun r => negb (resp_fatal r)) resps.

(* "the trace explains the log": the session's current record is reached from the empty position by
   table moves and resets, the moves being exactly the logged ones, oldest first *)
Definition explained (c : config) (p : pworld) : Prop :=
  cache_ok (snd (start_snap c p)) /\
  exists tr, trace_moves tr = log_moves (pw_log p)
    /\ pos_trace ([], 0) tr = Some (pos_of (fst (start_snap c p))).

Lemma explained_fresh c : explained c (mkPw None [] [] false).
Proof.
  split; [apply fresh_cache_ok|]. exists []. split; [reflexivity|].
  unfold start_snap. cbn [pw_store fst pos_trace]. rewrite fresh_state_pos. reflexivity.
Qed.

Lemma pers_history_explained : forall inputs fuel rs c p p' resps,
  c_first c = None -> explained c p ->
  pers_history fuel rs c p inputs = (p', resps) -> no_fatal resps = true ->
  explained c p' /\ (inputs <> [] -> exists sn, pw_store p' = Some sn).
Proof.
  induction inputs as [|i r IH]; intros fuel rs c p p' resps Hf He H Hn; cbn [pers_history] in H.
  - inversion H; subst. split; [exact He|]. intros C; contradiction.
  - destruct (request_persisted fuel rs c p i) as [p1 resp] eqn:Hr.
    destruct (pers_history fuel rs c p1 r) as [p2 resps2] eqn:Hh. inversion H; subst p' resps.
    unfold no_fatal in Hn. cbn [forallb] in Hn. apply andb_true_iff in Hn. destruct Hn as [Hn1 Hn2].
    apply negb_true_iff in Hn1. destruct He as (Hc & tr & M & T).
    destruct (request_persisted_trace _ _ _ _ _ _ _ Hf Hc Hr Hn1) as (st' & ca' & Hs & Hc' & new & tr' & L & M' & T').
    assert (He1 : explained c p1).
    { unfold explained, start_snap. rewrite Hs. cbn [fst snd]. split; [exact Hc'|].
      exists (tr ++ tr'). split; [rewrite trace_moves_app, L, log_moves_app, M, M'; reflexivity|].
      rewrite pos_trace_app, T. exact T'. }
    destruct (IH fuel rs c p1 p2 resps2 Hf He1 Hh Hn2) as [He2 Hsome]. split; [exact He2|].
    intros _. destruct r as [|i2 r2].
    + cbn [pers_history] in Hh. inversion Hh; subst. eexists. exact Hs.
    + apply Hsome. discriminate.
Qed.

Lemma pers_history_fresh_lemma : forall inputs fuel rs c p' resps,
  c_first c = None ->
  pers_history fuel rs c (mkPw None [] [] false) inputs = (p', resps) -> no_fatal resps = true ->
  (inputs <> [] -> exists st' ca', pw_store p' = Some (st', ca') /\ cache_ok ca'
     /\ exists tr, trace_moves tr = log_moves (pw_log p') /\ pos_trace ([], 0) tr = Some (pos_of st'))
  /\ (inputs = [] -> p' = mkPw None [] [] false).
Proof.
  intros inputs fuel rs c p' resps Hf H Hn.
  destruct (pers_history_explained inputs fuel rs c _ p' resps Hf (explained_fresh c) H Hn) as [(Hc & tr & M & T) Hs].
  split.
  - intros Hne. destruct (Hs Hne) as [[st' ca'] Hst]. unfold start_snap in Hc, T. rewrite Hst in Hc, T. cbn [fst snd] in Hc, T.
    exists st', ca'. split; [exact Hst|]. split; [exact Hc|]. exists tr. auto.
  - intros ->. cbn [pers_history] in H. inversion H. reflexivity.
Qed.

(* ================================================================================== *)
(* Follow-up 2 — finding K-C03-stale-readin                                             *)
(* ================================================================================== *)

(* decidable guard: the code the session resumes with starts with an INCMP *)
Definition starts_with_incmp (b : bytes) : bool :=
  match decode_one b with Ok (IInCmp _ _, _) => true | _ => false end.

Lemma incmp_block_starts ds l r : wf_block (ds :: l) -> starts_with_incmp (incmp_block (ds :: l) ++ r) = true.
Proof.
  intros Hw. inversion Hw as [|x y [H1 H2] _]; subst. rewrite incmp_block_cons. unfold starts_with_incmp.
  rewrite instr_roundtrip_lemma by (split; assumption). reflexivity.
Qed.

(* number of INCMP instructions executed according to a log *)
Fixpoint log_incmps (l : list ev) : nat :=
  match l with [] => O | EvInCmp _ _ _ :: l' => S (log_incmps l') | _ :: l' => log_incmps l' end.
Lemma block_log_incmps l : forall acc, log_incmps (block_log l acc) = (List.length l + log_incmps acc)%nat.
Proof.
  induction l as [|ds l IH]; intros acc; [reflexivity|]. cbn [block_log List.length]. rewrite IH. cbn [log_incmps]. lia.
Qed.

(* Full statement (FALSE, see stale_readin_refuted_lemma): on EVERY resume after HALT with input i and
   pending code b, the session goes to the catch node with the invalid-input message only if i was
   compared with at least one INCMP since the resume and none matched - and then the message shows
   THAT input; code that runs out without executing an INCMP terminates the session.
   Partial: guard = the resumed code starts with an INCMP block (starts_with_incmp), for ANY value of
   READIN and INMATCH left by the HALT. *)
Lemma invalid_input_is_current_partial_lemma : forall fuel rs sep lang input ds l v,
  getf (v_st v) FLAG_TERMINATE = false -> s_input (v_st v) = Some input -> getf (v_st v) FLAG_WAIT = true ->
  flags_ok (v_st v) ->
  wf_block (ds :: l) -> no_match input (ds :: l) = true ->
  where_sym (v_st v) <> [] -> where_sym (v_st v) <> catch_sym ->
  starts_with_incmp (incmp_block (ds :: l)) = true /\
  (out_of_fuel (run fuel rs sep lang (incmp_block (ds :: l)) v) \/
   exists f lang1 v1, (f < fuel)%nat /\
     run fuel rs sep lang (incmp_block (ds :: l)) v = run f rs sep lang1 move_catch_code v1
     (* the message shows the input of THIS request *)
     /\ p_err (v_pg v1) = Some (msg_invalid_input (Some input))
     (* which was compared with every line of the block, and nothing moved before MOVE _catch *)
     /\ v_log v1 = block_log (ds :: l) (v_log v)
     /\ log_incmps (v_log v1) = (List.length (ds :: l) + log_incmps (v_log v))%nat
     /\ pos_of (v_st v1) = pos_of (v_st v) /\ v_ca v1 = v_ca v).
Proof.
  intros fuel rs sep lang input ds l v Ht Hi Hw Hf Hwf Hn Hnw Hnc.
  split; [rewrite <- (app_nil_r (incmp_block (ds :: l))); apply incmp_block_starts; exact Hwf|].
  pose proof (no_match_goes_to_catch_lemma fuel rs sep lang input ds l v (resume_is_start _ _ Ht Hi Hw Hf) Hwf Hn) as F.
  cbv zeta in F. destruct F as (Hp & Hc & Hl & Hrun & _).
  destruct (Hrun Hnw Hnc) as [H|(f & Hlt & H)]; [left; exact H|]. right.
  eexists f, _, _. split; [exact Hlt|]. split; [exact H|].
  split; [reflexivity|]. split; [exact Hl|]. split; [cbn [v_log vset_pg]; rewrite Hl; apply block_log_incmps|].
  split; [exact Hp|exact Hc].
Qed.

(* the witness: root = HALT; INCMP foo 1, _catch = HALT; MOVE end1, end1 = MOUT bye 0 *)
Definition stale_app : app :=
  mkApp [(s2b "root", encode_prog [IHalt; IInCmp (s2b "foo") (s2b "1")]);
         (s2b "foo", encode_prog [IHalt]);
         (s2b "end1", encode_prog [IMOut (s2b "bye") (s2b "0")]);
         (s2b "_catch", encode_prog [IHalt; IMove (s2b "end1")])]
        [(s2b "root", s2b "root"); (s2b "foo", s2b "foo"); (s2b "end1", s2b "end1"); (s2b "_catch", s2b "catch")] [] [].
Fixpoint stale_long (e : engine) (inputs : list bytes) : engine * list bytes :=
  match inputs with
  | [] => (e, [])
  | i :: r => let '(e1, resp) := request_long 200 (app_rsrc stale_app) ex_cfg e i in
              let '(e2, outs) := stale_long e1 r in (e2, r_out resp :: outs)
  end.
(* the long-lived engine after "" and the unmatched "x": stopped at _catch's HALT, READIN still set *)
Definition stale_engine : engine := fst (stale_long (new_engine ex_cfg None [] []) [[]; s2b "x"]).
(* what Exec hands to Run for the next input "y": pending code and machine *)
Definition stale_code : bytes := s_code (v_st (e_v stale_engine)).
Definition stale_vm : vmst :=
  vset_st (e_v stale_engine) (set_input_raw (set_code (v_st (e_v stale_engine)) []) (Some (s2b "y"))).

Lemma stale_readin_refuted_lemma :
  exists fuel rs sep lang input b v,
    (* a resume after HALT with input "y"; READIN was left set by the previous, unmatched input "x" *)
    getf (v_st v) FLAG_TERMINATE = false /\ s_input (v_st v) = Some input /\ getf (v_st v) FLAG_WAIT = true
    /\ flags_ok (v_st v) /\ getf (v_st v) FLAG_READIN = true
    /\ where_sym (v_st v) = catch_sym /\ s_path (v_st v) = [s2b "root"; s2b "_catch"]
    (* the pending code is MOVE end1: outside the guard *)
    /\ b = encode (IMove (s2b "end1")) /\ starts_with_incmp b = false
    /\ (let '(v', b', st) := run fuel rs sep lang b v in
        (* no INCMP is executed, yet "y" is reported invalid, the session does not terminate and the
           stack has grown by two levels *)
        st = SOk /\ log_incmps (v_log v') = log_incmps (v_log v)
        /\ p_err (v_pg v') = Some (s2b "invalid input: 'y'")
        /\ getf (v_st v') FLAG_TERMINATE = false /\ getf (v_st v') FLAG_READIN = true
        /\ s_path (v_st v') = [s2b "root"; s2b "_catch"; s2b "end1"; s2b "_catch"])
    (* the same machine with READIN clear terminates, as intended *)
    /\ (let '(v', b', st) := run fuel rs sep lang b (vset_st v (resetf (v_st v) FLAG_READIN)) in
        st = SOk /\ p_err (v_pg v') = None /\ getf (v_st v') FLAG_TERMINATE = true
        /\ s_path (v_st v') = [s2b "root"; s2b "_catch"; s2b "end1"]).
Proof.
  exists 50%nat, (app_rsrc stale_app), [], None, (s2b "y"), stale_code, stale_vm.
  split; [vm_compute; reflexivity|]. split; [vm_compute; reflexivity|]. split; [vm_compute; reflexivity|].
  split; [unfold flags_ok; vm_compute; lia|]. split; [vm_compute; reflexivity|].
  split; [vm_compute; reflexivity|]. split; [vm_compute; reflexivity|].
  split; [vm_compute; reflexivity|]. split; [vm_compute; reflexivity|].
  split; vm_compute; repeat split.
Qed.
