(* SizeProofs.v — C01 at engine level: whatever Flush hands to the client fits the configured
   output size.  Builds on the page-level lemmas of RenderProofs (page_out, prepare_out,
   inner_out).

   Layout:
     1. the page: every page operation keeps the sizer's output size (`page_out`)
     2. the VM: every handler, `run` (induction on the fuel) and `vm_render` keep it
     3. the engine: reset, Flush, runFirst, init, exec keep it; `new_engine` establishes it
     4. what comes out of Vm.Render and Flush fits (in uint32 arithmetic, as the code checks it,
        and in absolute terms below 4 GiB)
     5. histories of both request drivers
     6. what Flush writes is all or nothing (error instead of truncation), the exit value
     7. witnesses *)
From Coq Require Import Lia ZifyN ZifyNat ZifyBool.
From Vise Require Import Bytes Errors Consts EngConsts Codec CacheModel StateModel NavModel RenderModel VmModel EngineModel
  BytesProofs CodecProofs RenderProofs VmProofs.
Local Open Scope N_scope.

(* ================================================================ 1. the page ===== *)
(* `page_out pg` (RenderProofs) = the output size of the page's sizer, None without sizer *)

Lemma page_out_reset pg : page_out (page_reset pg) = page_out pg.
Proof. unfold page_out, page_reset. cbn [p_sizer]. destruct (p_sizer pg); reflexivity. Qed.

Lemma page_out_with_menu pg m : page_out (page_with_menu pg m) = page_out pg.
Proof. reflexivity. Qed.

Lemma page_out_with_error pg e : page_out (page_with_error pg e) = page_out pg.
Proof. reflexivity. Qed.

Lemma page_out_upd_menu f pg : page_out (upd_menu f pg) = page_out pg.
Proof. unfold upd_menu. destruct (p_menu pg); reflexivity. Qed.

Lemma page_out_vm_reset sep pg : page_out (vm_reset sep pg) = page_out pg.
Proof. unfold vm_reset. rewrite page_out_with_menu. apply page_out_reset. Qed.

Lemma page_out_with_sizer pg z : page_out (page_with_sizer pg z) = Some (z_out z).
Proof. reflexivity. Qed.

Lemma page_map_out ca pg k pg' : page_map ca pg k = Ok pg' -> page_out pg' = page_out pg.
Proof.
  unfold page_map. intros H.
  destruct (cache_get ca k) as [v|e|n]; cbn [obind] in H; try discriminate.
  destruct (cache_reserved ca k) as [l|e|n]; cbn [obind] in H; try discriminate.
  match type of H with (if ?c then _ else _) = _ => destruct c end; [discriminate|].
  injection H as <-. unfold page_out. cbn [p_sizer]. destruct (p_sizer pg); reflexivity.
Qed.

(* Page.Render returns the page it mutated: the sizer's output size is the one it had *)
Lemma page_render_out c gt gm pg sym idx :
  page_out (snd (page_render c gt gm pg sym idx)) = page_out pg.
Proof.
  unfold page_render. pose proof (prepare_out c gt gm pg sym idx) as Hp.
  destruct (page_prepare c gt gm pg sym idx) as [[vals|e|p] pg1]; cbn [snd] in Hp; cbn [snd]; try exact Hp.
  rewrite inner_out. exact Hp.
Qed.

(* ---- the final check, in the arithmetic the code uses ------------------------------- *)
Lemma w32_nil : w32 (len (@nil N)) = 0.
Proof. reflexivity. Qed.

Lemma sizer_check_fits32 z s r : 0 < z_out z -> sizer_check z s = (r, true) -> w32 (len s) <= z_out z.
Proof.
  intros Hz. unfold sizer_check.
  destruct (0 <? z_out z) eqn:E; [|lia].
  destruct (z_out z <? w32 (len s)) eqn:E2; intros H; inversion H. lia.
Qed.

Lemma inner_fits32 gt gm pg sym vals idx out pg' z :
  page_out pg = Some z -> 0 < z ->
  page_render_inner gt gm pg sym vals idx = (Ok out, pg') -> w32 (len out) <= z.
Proof.
  unfold page_out. intros Hz Hout.
  destruct (p_sizer pg) as [zz|] eqn:Ezz; [|discriminate]. cbn [option_map] in Hz. injection Hz as <-.
  unfold page_render_inner.
  destruct (render_template gt pg sym vals idx) as [s|e|p]; try discriminate.
  destruct (p_menu pg) as [m|].
  - destruct (menu_render_st gm m idx) as [[ms|e|p] m']; try discriminate.
    cbn [p_sizer page_set_menu]. rewrite Ezz.
    destruct (sizer_check zz (s ++ (if 0 <? len ms then nl :: ms else []))) as [r ok] eqn:Ec.
    cbn [snd]. destruct ok; [|discriminate]. intros E. inversion E; subst.
    eapply sizer_check_fits32; eassumption.
  - rewrite Ezz. destruct (sizer_check zz s) as [r ok] eqn:Ec. cbn [snd].
    destruct ok; [|discriminate]. intros E. inversion E; subst.
    eapply sizer_check_fits32; eassumption.
Qed.

Lemma page_render_fits32 c gt gm pg sym idx out pg' z :
  page_out pg = Some z -> 0 < z ->
  page_render c gt gm pg sym idx = (Ok out, pg') -> w32 (len out) <= z.
Proof.
  intros Hz Hout. unfold page_render.
  pose proof (prepare_out c gt gm pg sym idx) as Ho.
  destruct (page_prepare c gt gm pg sym idx) as [[vals|e|p] pg1]; try discriminate.
  cbn [snd] in Ho. rewrite Hz in Ho. intros Hr. eapply inner_fits32; eassumption.
Qed.

(* ================================================================== 2. the VM ===== *)
Definition vout (v : vmst) : option N := page_out (v_pg v).

Lemma refresh_pg rs lang key v : v_pg (fst (fst (refresh rs lang key v))) = v_pg v.
Proof.
  unfold refresh.
  destruct (rs_func rs key) as [script|]; [|reflexivity].
  destruct (nth_fres script _) as [fr|]; [|reflexivity].
  destruct (fr_fail fr); [reflexivity|].
  destruct (apply_flags false (fr_reset fr) _) as [st1|e|n]; try reflexivity.
  destruct (apply_flags true (fr_set fr) st1) as [st2|e|n]; reflexivity.
Qed.

Lemma run_catch_pg rs sym sig mode b v : v_pg (fst (fst (run_catch rs sym sig mode b v))) = v_pg v.
Proof.
  unfold run_catch.
  destruct (match_flag (v_st v) sig mode) as [[|]|e|n]; try reflexivity.
  destruct (apply_target sym (v_st v) (v_ca v)) as [[[st' ca'] nsym] s].
  destruct s; try reflexivity.
  unfold fetch_code. destruct (rs_observed rs); destruct (rs_code rs nsym); reflexivity.
Qed.

Lemma run_croak_out sep sig mode b v : vout (fst (fst (run_croak sep sig mode b v))) = vout v.
Proof.
  unfold run_croak.
  destruct (match_flag (v_st v) sig mode) as [[|]|e|n]; try reflexivity.
  unfold vout. cbn [fst v_pg vset_ca vset_pg]. apply page_out_vm_reset.
Qed.

Lemma run_load_pg rs lang sym sz b v : v_pg (fst (fst (run_load rs lang sym sz b v))) = v_pg v.
Proof.
  unfold run_load.
  destruct (cache_get (v_ca v) sym) as [x|e|n]; try reflexivity.
  pose proof (refresh_pg rs lang sym v) as Hr.
  destruct (refresh rs lang sym v) as [[v1 content] s]. cbn [fst] in Hr.
  destruct s; try exact Hr.
  destruct (cache_add (v_ca v1) sym content (w16 sz)) as [ca'|e'|n']; try exact Hr.
  destruct e'; exact Hr.
Qed.

Lemma run_reload_out rs lang sym b v : vout (fst (fst (run_reload rs lang sym b v))) = vout v.
Proof.
  unfold run_reload.
  pose proof (refresh_pg rs lang sym v) as Hr.
  destruct (refresh rs lang sym v) as [[v1 content] s]. cbn [fst] in Hr.
  destruct s; try (unfold vout; cbn [fst]; rewrite Hr; reflexivity).
  destruct (cache_update_raw (v_ca v1) sym content) as [ca' o].
  destruct (page_map (v_ca (vset_ca v1 ca')) (v_pg (vset_ca v1 ca')) sym) as [pg'|e|n] eqn:Hm;
    try (unfold vout; cbn [fst v_pg vset_ca]; rewrite Hr; reflexivity).
  apply page_map_out in Hm. unfold vout. cbn [fst v_pg vset_pg vset_ca] in *. rewrite Hm, Hr. reflexivity.
Qed.

Lemma run_map_out sym b v : vout (fst (fst (run_map sym b v))) = vout v.
Proof.
  unfold run_map. destruct (page_map (v_ca v) (v_pg v) sym) as [pg'|e|n] eqn:Hm; try reflexivity.
  apply page_map_out in Hm. exact Hm.
Qed.

Lemma run_move_out rs sep sym b v : vout (fst (fst (run_move rs sep sym b v))) = vout v.
Proof.
  unfold run_move.
  destruct (apply_target sym (v_st v) (v_ca v)) as [[[st' ca'] nsym] s].
  destruct s; try reflexivity.
  unfold fetch_code. destruct (rs_observed rs); destruct (rs_code rs nsym); try reflexivity;
    unfold vout; cbn [fst v_pg vset_pg vlog vset_ca vset_st]; apply page_out_vm_reset.
Qed.

Lemma run_incmp_out rs sep dest sel b v : vout (fst (fst (run_incmp rs sep dest sel b v))) = vout v.
Proof.
  unfold run_incmp.
  destruct (getf (v_st v) FLAG_INMATCH && getf (v_st v) FLAG_READIN); [reflexivity|].
  match goal with |- context [s_input ?st] => destruct (s_input st) as [input|] end; [|reflexivity].
  match goal with |- context [if ?c then _ else _] => destruct c end; [|reflexivity].
  match goal with |- context [apply_target dest ?st ?ca] =>
    destruct (apply_target dest st ca) as [[[st' ca'] nsym] s] end.
  destruct s as [|e m|n|]; try reflexivity.
  - unfold fetch_code. destruct (rs_observed rs); destruct (rs_code rs nsym);
      unfold vout; cbn [fst v_pg vset_pg vlog vset_ca vset_st]; apply page_out_vm_reset.
  - destruct e; reflexivity.
Qed.

Lemma exec_instr_out rs sep lang i b v : vout (fst (fst (exec_instr rs sep lang i b v))) = vout v.
Proof.
  destruct i; cbn [exec_instr]; try reflexivity.
  - unfold vout. rewrite run_catch_pg. reflexivity.
  - apply run_croak_out.
  - unfold vout. rewrite run_load_pg. reflexivity.
  - apply run_reload_out.
  - apply run_map_out.
  - apply run_move_out.
  - apply run_incmp_out.
  - unfold vout. cbn [fst v_pg vset_pg]. apply page_out_upd_menu.
  - unfold vout. cbn [fst v_pg vset_pg]. apply page_out_upd_menu.
  - unfold vout. cbn [fst v_pg vset_pg]. apply page_out_upd_menu.
  - unfold vout. cbn [fst v_pg vset_pg]. apply page_out_upd_menu.
Qed.

Lemma set_page_err_out v msg : vout (set_page_err v msg) = vout v.
Proof. destruct msg; reflexivity. Qed.

Lemma dead_check_out v : vout (fst (fst (dead_check v))) = vout v.
Proof.
  unfold dead_check.
  destruct (negb (getf (v_st v) FLAG_READIN)); [reflexivity|].
  destruct (getf (v_st v) FLAG_TERMINATE); [reflexivity|].
  destruct (where_sym (v_st v)) as [|x l]; [reflexivity|].
  destruct (bytes_eqb (x :: l) catch_sym); reflexivity.
Qed.

(* ---- the run loop, one iteration at a time ------------------------------------------- *)
(* what `run` does with the handler's result: runErrCheck, runDeadCheck, loop *)
Definition run_errcheck (v1 : vmst) (b2 : bytes) (s : stat) : hres :=
  match s with
  | SErr e msg =>
    let v2 := set_page_err v1 msg in
    if getf (v_st v2) FLAG_LOADFAIL && negb (bytes_eqb (where_sym (v_st v2)) catch_sym)
    then (v2, move_catch_code, SOk) else (v2, b2, s)
  | _ => (v1, b2, s)
  end.
Definition run_post (rec : bytes -> vmst -> hres) (op : N) (r : hres) : hres :=
  let '(v1, b2, s) := r in
  if op =? op_HALT then (v1, b2, s) else
  let '(v2, b3, s2) := run_errcheck v1 b2 s in
  match s2 with
  | SOk =>
    match b3 with
    | [] =>
      let '(v3, b4, s3) := dead_check v2 in
      match s3 with
      | SOk => match b4 with [] => (v3, [], SOk) | _ => rec b4 v3 end
      | _ => (v3, b4, s3)
      end
    | _ => rec b3 v2
    end
  | _ => (v2, b3, s2)
  end.

(* the state an instruction is executed in: LANG and WAIT consumed, page reset after a HALT,
   DIRTY set *)
Definition run_lang (lang : option bytes) (v : vmst) : option bytes :=
  if getf (v_st v) FLAG_LANG
  then match s_lang (resetf (v_st v) FLAG_LANG) with Some l => Some l | None => lang end
  else lang.
Definition run_pre (v : vmst) : vmst :=
  let st := resetf (v_st v) FLAG_LANG in
  let wait := getf st FLAG_WAIT in
  let st := resetf st FLAG_WAIT in
  let st := if wait then resetf st FLAG_INMATCH else st in
  let pg := if wait then upd_menu menu_reset (page_reset (page_with_error (v_pg v) None)) else v_pg v in
  vset_pg (vset_st v (setf st FLAG_DIRTY)) pg.

Lemma run_S fuel rs sep lang b v :
  run (S fuel) rs sep lang b v =
  if getf (v_st v) FLAG_TERMINATE then (v, [], SOk) else
  let lang' := run_lang lang v in
  let v0 := run_pre v in
  match op_split b with
  | Err e => (v0, b, SErr e None)
  | Panic n => (v0, b, SPanic n)
  | Ok (op, b1) =>
    match parse_args op b1 with
    | Panic n => (v0, b1, SPanic n)
    | Ok (i, b2) => run_post (run fuel rs sep lang') op (exec_instr rs sep lang' i b2 (vlog v0 (EvInstr op)))
    | Err _ => run_post (run fuel rs sep lang') op (v0, b1, SErr EGen None)
    end
  end.
Proof.
  cbn [run]. destruct (getf (v_st v) FLAG_TERMINATE); [reflexivity|].
  destruct (op_split b) as [[op b1]|e|n]; try reflexivity.
  destruct (parse_args op b1) as [[i b2]|e|n]; reflexivity.
Qed.

Lemma run_pre_out v : vout (run_pre v) = vout v.
Proof.
  unfold run_pre, vout. cbn [v_pg vset_pg].
  destruct (getf (resetf (v_st v) FLAG_LANG) FLAG_WAIT); [|reflexivity].
  rewrite page_out_upd_menu, page_out_reset. reflexivity.
Qed.

Lemma run_post_out rec op r :
  (forall b v, vout (fst (fst (rec b v))) = vout v) ->
  vout (fst (fst (run_post rec op r))) = vout (fst (fst r)).
Proof.
  intros Hrec. destruct r as [[v1 b2] s]. unfold run_post. cbn [fst].
  destruct (op =? op_HALT); [reflexivity|].
  assert (Hx : vout (fst (fst (run_errcheck v1 b2 s))) = vout v1).
  { unfold run_errcheck. destruct s as [|e msg|n|]; try reflexivity.
    match goal with |- context [if ?c then _ else _] => destruct c end; cbn [fst]; apply set_page_err_out. }
  destruct (run_errcheck v1 b2 s) as [[v2 b3] s2]. cbn [fst] in Hx.
  destruct s2; try exact Hx.
  destruct b3 as [|x b3].
  - pose proof (dead_check_out v2) as Hd. destruct (dead_check v2) as [[v3 b4] s3]. cbn [fst] in Hd.
    destruct s3; try (cbn [fst]; congruence).
    destruct b4; [cbn [fst]; congruence|]. rewrite Hrec. congruence.
  - rewrite Hrec. exact Hx.
Qed.

(* Run never touches the sizer's output size, whatever the code and the resource *)
Lemma run_out : forall fuel rs sep lang b v, vout (fst (fst (run fuel rs sep lang b v))) = vout v.
Proof.
  induction fuel as [|fuel IH]; intros rs sep lang b v; [reflexivity|].
  rewrite run_S. destruct (getf (v_st v) FLAG_TERMINATE); [reflexivity|].
  cbv zeta. pose proof (run_pre_out v) as Hp.
  destruct (op_split b) as [[op b1]|e|n]; try exact Hp.
  destruct (parse_args op b1) as [[i b2]|e|n]; try exact Hp.
  - rewrite run_post_out by (intros; apply IH). rewrite exec_instr_out. exact Hp.
  - rewrite run_post_out by (intros; apply IH). exact Hp.
Qed.

(* Vm.Render *)
Lemma vm_render_out fuel rs sep lang v : vout (fst (vm_render fuel rs sep lang v)) = vout v.
Proof.
  unfold vm_render.
  destruct (negb (getf (v_st v) FLAG_DIRTY)); [reflexivity|].
  set (v0 := vset_st v (resetf (v_st v) FLAG_DIRTY)).
  destruct (where_sym (v_st v0)) as [|x l]; [reflexivity|].
  pose proof (page_render_out (v_ca v0) (rs_tpl rs lang) (rs_menu rs lang) (v_pg v0) (x :: l) (s_idx (v_st v0))) as Hr.
  destruct (page_render (v_ca v0) (rs_tpl rs lang) (rs_menu rs lang) (v_pg v0) (x :: l) (s_idx (v_st v0))) as [r pg'].
  cbn [snd] in Hr.
  assert (Hdef : vout (vlog (vset_pg v0 pg') (EvRender (x :: l) (s_idx (v_st v0)) lang)) = vout v) by exact Hr.
  destruct r as [o|e|n]; try exact Hdef.
  destruct e; try exact Hdef.
  match goal with |- context [run fuel rs sep lang move_catch_code ?V] =>
    pose proof (run_out fuel rs sep lang move_catch_code V) as Hrun;
    destruct (run fuel rs sep lang move_catch_code V) as [[v1 b1] s] end.
  cbn [fst] in Hrun.
  assert (Hv1 : vout v1 = vout v).
  { rewrite Hrun. unfold vout. cbn [v_pg vset_pg vlog]. rewrite page_out_vm_reset. exact Hr. }
  destruct s; try exact Hv1;
    match goal with |- context [page_render ?a ?b ?c ?d ?e ?f] =>
      pose proof (page_render_out a b c d e f) as Hr1; destruct (page_render a b c d e f) as [r1 pg1] end;
    cbn [snd] in Hr1; unfold vout; cbn [fst v_pg vset_pg vlog]; rewrite Hr1; exact Hv1.
Qed.

(* ============================================================== 3. the engine ===== *)
Definition eout (e : engine) : option N := vout (e_v e).

(* the page invariant: the main VM's page carries a sizer exactly when an output size is
   configured, and its size is the configured one *)
Definition PgInv (c : config) (v : vmst) : Prop :=
  vout v = if 0 <? c_out c then Some (c_out c) else None.

Lemma PgInv_spec c v :
  PgInv c v <->
  (0 < c_out c -> exists z, p_sizer (v_pg v) = Some z /\ z_out z = c_out c)
  /\ (c_out c = 0 -> p_sizer (v_pg v) = None).
Proof.
  unfold PgInv, vout, page_out. destruct (0 <? c_out c) eqn:E.
  - split.
    + intros H. split; [|lia]. intros _. destruct (p_sizer (v_pg v)) as [z|]; [|discriminate].
      exists z. cbn [option_map] in H. split; congruence.
    + intros [H _]. destruct H as [z [-> <-]]; [lia|reflexivity].
  - split.
    + intros H. split; [lia|]. intros _. destruct (p_sizer (v_pg v)); [discriminate|reflexivity].
    + intros [_ H]. rewrite H by lia. reflexivity.
Qed.

Lemma PgInv_eq c v v' : vout v' = vout v -> PgInv c v -> PgInv c v'.
Proof. unfold PgInv. congruence. Qed.

(* NewEngine / setupVm establish it, for every configuration and every loaded snapshot *)
Lemma new_vm_page_out out sep : page_out (new_vm_page out sep) = if 0 <? out then Some out else None.
Proof.
  unfold new_vm_page. destruct sep; [|rewrite page_out_upd_menu]; destruct (0 <? out); reflexivity.
Qed.

Lemma new_engine_inv c snap w lg : PgInv c (e_v (new_engine c snap w lg)).
Proof.
  unfold new_engine, PgInv, vout. destruct snap as [[s ca]|]; cbn [e_v v_pg]; apply new_vm_page_out.
Qed.

(* ---- reset ---------------------------------------------------------------------------- *)
Definition f_of_stat (s : stat) : fstat :=
  match s with SOk => FOk | SErr er _ => FErr er | SPanic n => FPanic n | SFuel => FFuel end.

Lemma unwind_nonempty : forall f st ca, s_path st <> [] -> snd (unwind f st ca) = SOk.
Proof.
  induction f as [|f IH]; intros st ca Hp; [reflexivity|].
  cbn [unwind]. unfold st_top, st_up.
  destruct (s_path st) as [|x [|y p]] eqn:Ep; [congruence|reflexivity|].
  cbn [removelast]. apply IH. cbn [s_path set_path_idx]. destruct (removelast (y :: p)) eqn:Er; discriminate.
Qed.

Lemma unwind_empty f st ca : s_path st = [] -> unwind (S f) st ca = (st, ca, SErr EGen None).
Proof. intros Hp. cbn [unwind]. unfold st_top. rewrite Hp. reflexivity. Qed.

Lemma eng_reset_inner_pg v : v_pg (fst (eng_reset_inner v)) = v_pg v.
Proof.
  unfold eng_reset_inner.
  destruct (unwind (S (List.length (s_path (v_st v)))) (v_st v) (v_ca v)) as [[st ca] s].
  destruct s; reflexivity.
Qed.

(* reset fails exactly when there is no position to unwind, and then changes nothing *)
Lemma eng_reset_inner_stat v :
  snd (eng_reset_inner v) = SOk
  \/ (snd (eng_reset_inner v) = SErr EGen None /\ s_path (v_st v) = []
      /\ v_st (fst (eng_reset_inner v)) = v_st v /\ v_ca (fst (eng_reset_inner v)) = v_ca v).
Proof.
  unfold eng_reset_inner.
  destruct (s_path (v_st v)) as [|x p] eqn:Ep.
  - right. rewrite unwind_empty by exact Ep. cbn [fst snd v_st v_ca vset_ca vset_st]. auto.
  - left. pose proof (unwind_nonempty (S (List.length (x :: p))) (v_st v) (v_ca v)) as Hu.
    destruct (unwind (S (List.length (x :: p))) (v_st v) (v_ca v)) as [[st ca] s].
    cbn [snd] in Hu. rewrite Hu by (rewrite Ep; discriminate). reflexivity.
Qed.

(* ---- Flush ---------------------------------------------------------------------------- *)
Definition flush_page (r : rres) : bytes := match r with RROk o => o | _ => [] end.
Definition flush_over (c : config) (exit : bytes) (r : rres) : bool :=
  (0 <? c_out c) && (0 <? len exit) && (c_out c <? w32 (len exit + len (flush_page r))).

(* everything Flush can write: nothing, or the whole rendered page followed by the exit
   value (the page being empty when its render failed and an exit value exists) *)
Lemma eng_flush_cases fuel rs c e e' out f :
  eng_flush fuel rs c e = (e', out, f) ->
  let vr := vm_render fuel rs (c_sep c) (s_lang (v_st (e_v e))) (e_v e) in
  (out = [] /\ (forall er, f = FErr er -> e_execd e = false \/ flush_over c (e_exit e) (snd vr) = true
                                          \/ (snd vr = RRErr er /\ e_exit e = [])))
  \/ (e_execd e = true /\ flush_over c (e_exit e) (snd vr) = false
      /\ out = flush_page (snd vr) ++ e_exit e
      /\ ((exists page, snd vr = RROk page) \/ (exists er, snd vr = RRErr er /\ e_exit e <> []))
      /\ f = (if e_exiting e then f_of_stat (snd (eng_reset_inner (fst vr)))
              else match snd vr with RRErr er => FErr er | _ => FOk end)).
Proof.
  unfold eng_flush. destruct (e_execd e) eqn:Ex; cbn [negb].
  2:{ intros H. injection H as <- <- <-. left. split; [reflexivity|]. intros er _. left. reflexivity. }
  destruct (vm_render fuel rs (c_sep c) (s_lang (v_st (e_v e))) (e_v e)) as [v r].
  cbn [fst snd e_exit e_exiting e_v eset_v e_initd e_execd]. unfold flush_over.
  destruct r as [o|er|n|]; cbn [flush_page].
  - (* the page rendered *)
    destruct ((0 <? c_out c) && (0 <? len (e_exit e)) && (c_out c <? w32 (len (e_exit e) + len o))) eqn:Eo.
    + intros H. left. destruct (e_exiting e); [destruct (eng_reset_inner v) as [v' s']|];
        injection H as <- <- <-; (split; [reflexivity|]); intros er _; right; left; reflexivity.
    + intros H. right. split; [reflexivity|]. split; [reflexivity|].
      destruct (e_exiting e).
      * destruct (eng_reset_inner v) as [v' s'] eqn:Er. cbn [snd].
        destruct s'; injection H as <- <- <-; repeat split; eauto.
      * injection H as <- <- <-. repeat split; eauto.
  - (* the render failed *)
    replace (len (e_exit e) + 0) with (len (e_exit e) + len (@nil N)) by reflexivity.
    destruct ((0 <? c_out c) && (0 <? len (e_exit e)) && (c_out c <? w32 (len (e_exit e) + len (@nil N)))) eqn:Eo.
    + intros H. left. destruct (e_exiting e); [destruct (eng_reset_inner v) as [v' s']|];
        injection H as <- <- <-; (split; [reflexivity|]); intros er' _; right; left; reflexivity.
    + destruct (e_exit e) as [|x ex] eqn:Ee.
      * intros H. injection H as <- <- <-. left. split; [reflexivity|]. intros er' H. injection H as <-. auto.
      * intros H. right. split; [reflexivity|]. split; [reflexivity|].
        destruct (e_exiting e).
        -- destruct (eng_reset_inner v) as [v' s'] eqn:Er. cbn [snd].
           destruct s'; injection H as <- <- <-; repeat split; try reflexivity; right; exists er; (split; [reflexivity|discriminate]).
        -- injection H as <- <- <-. repeat split; try reflexivity. right. exists er. split; [reflexivity|discriminate].
  - intros H. injection H as <- <- <-. left. split; [reflexivity|]. discriminate.
  - intros H. injection H as <- <- <-. left. split; [reflexivity|]. discriminate.
Qed.

Lemma eng_flush_out fuel rs c e : eout (fst (fst (eng_flush fuel rs c e))) = eout e.
Proof.
  unfold eng_flush. destruct (negb (e_execd e)); [reflexivity|].
  pose proof (vm_render_out fuel rs (c_sep c) (s_lang (v_st (e_v e))) (e_v e)) as Hv.
  destruct (vm_render fuel rs (c_sep c) (s_lang (v_st (e_v e))) (e_v e)) as [v r]. cbn [fst] in Hv.
  cbn [e_exit e_exiting e_v eset_v e_initd e_execd].
  assert (Hr : forall a b c0 d, eout (mkEng (fst (eng_reset_inner v)) a b c0 d) = eout e).
  { intros. unfold eout, vout. cbn [e_v]. rewrite eng_reset_inner_pg. exact Hv. }
  destruct r as [o|er|n|]; try exact Hv.
  - match goal with |- context [if ?c then _ else _] => destruct c end.
    + destruct (e_exiting e); [|exact Hv].
      pose proof (Hr (e_initd e) (e_exit e) false (e_execd e)) as Hr'.
      destruct (eng_reset_inner v) as [v' s']. exact Hr'.
    + destruct (e_exiting e); [|exact Hv].
      pose proof (Hr (e_initd e) (e_exit e) false (e_execd e)) as Hr'.
      destruct (eng_reset_inner v) as [v' s']. destruct s'; exact Hr'.
  - match goal with |- context [if ?c then _ else _] => destruct c end.
    + destruct (e_exiting e); [|exact Hv].
      pose proof (Hr (e_initd e) (e_exit e) false (e_execd e)) as Hr'.
      destruct (eng_reset_inner v) as [v' s']. exact Hr'.
    + destruct (e_exit e) as [|x ex]; [exact Hv|].
      destruct (e_exiting e); [|exact Hv].
      pose proof (Hr (e_initd e) (x :: ex) false (e_execd e)) as Hr'.
      destruct (eng_reset_inner v) as [v' s']. destruct s'; exact Hr'.
Qed.

(* ---- runFirst, setCode, init, Reset, exec, Exec ------------------------------------------- *)
(* runFirst runs on a private page without sizer and hands back the main VM's page untouched *)
Lemma run_first_pg fuel c lang e : v_pg (e_v (fst (fst (run_first fuel c lang e)))) = v_pg (e_v e).
Proof.
  unfold run_first. destruct (c_first c) as [script|]; [|reflexivity].
  destruct (st_down (v_st (e_v e)) first_sym) as [st1|er|n]; try reflexivity.
  match goal with |- context [run fuel ?a ?b ?c0 ?d ?v1] => destruct (run fuel a b c0 d v1) as [[v2 b2] s] end.
  destruct s; [destruct b2; [destruct (getf (v_st v2) FLAG_TERMINATE)|]|..]; reflexivity.
Qed.

Lemma set_code_eng_pg e code : v_pg (e_v (fst (set_code_eng e code))) = v_pg (e_v e).
Proof.
  unfold set_code_eng. destruct code; [|reflexivity].
  destruct (getf (set_code (v_st (e_v e)) []) FLAG_DIRTY); reflexivity.
Qed.

Lemma eng_init_out fuel rs c e input : eout (fst (fst (eng_init fuel rs c e input))) = eout e.
Proof.
  unfold eng_init.
  assert (H1 : eout (fst (if e_execd e then let '(e', _, f) := eng_flush fuel rs c e in (e', stat_of_f f) else (e, SOk))) = eout e).
  { destruct (e_execd e); [|reflexivity].
    pose proof (eng_flush_out fuel rs c e) as Hf. destruct (eng_flush fuel rs c e) as [[e' o] f]. exact Hf. }
  destruct (if e_execd e then let '(e', _, f) := eng_flush fuel rs c e in (e', stat_of_f f) else (e, SOk)) as [e1 s1].
  cbn [fst] in H1. destruct s1; try exact H1.
  cbn [e_initd e_v]. destruct (e_initd e1); [exact H1|].
  destruct (set_input (v_st (e_v e1)) (Some input)) as [st1|er|n]; try exact H1.
  match goal with |- context [run_first fuel c ?l ?e3] =>
    pose proof (run_first_pg fuel c l e3) as Hrf; destruct (run_first fuel c l e3) as [[e4 r] s] end.
  cbn [fst e_v eset_v v_pg vset_st] in Hrf.
  assert (H4 : eout e4 = eout e) by (unfold eout, vout in *; rewrite Hrf; exact H1).
  destruct s; try exact H4. destruct r; cbn [negb]; [|exact H4].
  match goal with |- context [match ?X with (e4', s4) => _ end] =>
    assert (H4' : eout (fst X) = eout e); [|destruct X as [e4' s4]] end.
  { destruct (s_code (v_st (e_v e4))); [|exact H4]. destruct (s_path (v_st (e_v e4))); [exact H4|].
    destruct (getf (v_st (e_v e4)) FLAG_TERMINATE); [exact H4|].
    pose proof (eng_reset_inner_pg (e_v e4)) as Hri. destruct (eng_reset_inner (e_v e4)) as [v' s'].
    unfold eout, vout in *. cbn [fst e_v eset_v] in *. rewrite Hri. exact H4. }
  cbn [fst] in H4'. destruct s4; try exact H4'.
  match goal with |- context [match ?X with (e5, cont) => _ end] =>
    assert (H5 : eout (fst X) = eout e); [|destruct X as [e5 cont]] end.
  { destruct (s_code (v_st (e_v e4'))); [|exact H4'].
    unfold eout, vout. rewrite set_code_eng_pg. exact H4'. }
  exact H5.
Qed.

Lemma eng_reset_force_out c e : eout (fst (eng_reset_force c e)) = eout e.
Proof.
  unfold eng_reset_force. destruct (s_path (v_st (e_v e))); [reflexivity|].
  match goal with |- context [eng_reset_inner ?v] =>
    pose proof (eng_reset_inner_pg v) as Hri; destruct (eng_reset_inner v) as [v' s'] end.
  unfold eout, vout. cbn [fst e_v eset_v v_pg vset_st] in *. rewrite Hri. reflexivity.
Qed.

Lemma eng_exec_inner_out fuel rs c e : eout (fst (fst (eng_exec_inner fuel rs c e))) = eout e.
Proof.
  unfold eng_exec_inner. destruct (s_code (v_st (e_v e))) as [|x code]; [reflexivity|].
  match goal with |- context [run fuel rs ?a ?b ?c0 ?v] =>
    pose proof (run_out fuel rs a b c0 v) as Hr; destruct (run fuel rs a b c0 v) as [[v1 b1] s] end.
  cbn [fst] in Hr. destruct s; try exact Hr.
  destruct (getf (v_st v1) FLAG_TERMINATE); [exact Hr|].
  match goal with |- context [set_code_eng ?e1 b1] =>
    pose proof (set_code_eng_pg e1 b1) as Hs; destruct (set_code_eng e1 b1) as [e2 cont] end.
  unfold eout, vout. cbn [fst e_v] in *. rewrite Hs. exact Hr.
Qed.

Lemma eng_exec_out fuel rs c e input : eout (fst (fst (eng_exec fuel rs c e input))) = eout e.
Proof.
  unfold eng_exec.
  pose proof (eng_init_out fuel rs c e input) as Hi.
  destruct (eng_init fuel rs c e input) as [[e1 cont] s]. cbn [fst] in Hi.
  destruct s; try exact Hi. destruct cont; cbn [negb]; [|exact Hi].
  assert (H2 : eout (fst (if c_reset_empty c && (len input =? 0) then eng_reset_force c e1 else (e1, SOk))) = eout e).
  { destruct (c_reset_empty c && (len input =? 0)); [|exact Hi]. rewrite eng_reset_force_out. exact Hi. }
  destruct (if c_reset_empty c && (len input =? 0) then eng_reset_force c e1 else (e1, SOk)) as [e2 s2].
  cbn [fst] in H2. destruct s2; try exact H2.
  destruct ((0 <? len input) && negb (valid_input_b input)); [exact H2|].
  destruct (set_input (v_st (e_v e2)) (Some input)) as [st'|er|n]; try exact H2.
  rewrite eng_exec_inner_out. exact H2.
Qed.

(* every step of the engine API keeps the page invariant *)
Lemma eng_flush_inv fuel rs c e : PgInv c (e_v e) -> PgInv c (e_v (fst (fst (eng_flush fuel rs c e)))).
Proof. apply PgInv_eq. apply eng_flush_out. Qed.
Lemma eng_init_inv fuel rs c e input : PgInv c (e_v e) -> PgInv c (e_v (fst (fst (eng_init fuel rs c e input)))).
Proof. apply PgInv_eq. apply eng_init_out. Qed.
Lemma eng_exec_inv fuel rs c e input : PgInv c (e_v e) -> PgInv c (e_v (fst (fst (eng_exec fuel rs c e input)))).
Proof. apply PgInv_eq. apply eng_exec_out. Qed.
Lemma run_inv fuel rs sep lang b c v : PgInv c v -> PgInv c (fst (fst (run fuel rs sep lang b v))).
Proof. apply PgInv_eq. apply run_out. Qed.
Lemma vm_render_inv fuel rs sep lang c v : PgInv c v -> PgInv c (fst (vm_render fuel rs sep lang v)).
Proof. apply PgInv_eq. apply vm_render_out. Qed.

Lemma request_long_out fuel rs c e input : eout (fst (request_long fuel rs c e input)) = eout e.
Proof.
  unfold request_long.
  pose proof (eng_exec_out fuel rs c e input) as He.
  destruct (eng_exec fuel rs c e input) as [[e1 cont] s]. cbn [fst] in He.
  destruct s; try exact He;
    pose proof (eng_flush_out fuel rs c e1) as Hf; destruct (eng_flush fuel rs c e1) as [[e2 out] f];
    cbn [fst] in *; congruence.
Qed.
Lemma request_long_inv fuel rs c e input : PgInv c (e_v e) -> PgInv c (e_v (fst (request_long fuel rs c e input))).
Proof. apply PgInv_eq. apply request_long_out. Qed.

(* ======================================================= 4. what is written fits ===== *)
(* Vm.Render: also when the first render raised BrowseError and the page of `_catch` is
   rendered instead, after arbitrary code ran *)
Lemma vm_render_fits32 fuel rs sep lang v v' out z :
  vout v = Some z -> 0 < z ->
  vm_render fuel rs sep lang v = (v', RROk out) -> w32 (len out) <= z.
Proof.
  intros Hz Hpos. unfold vm_render.
  destruct (negb (getf (v_st v) FLAG_DIRTY)); [intros H; injection H as _ <-; rewrite w32_nil; lia|].
  set (v0 := vset_st v (resetf (v_st v) FLAG_DIRTY)).
  destruct (where_sym (v_st v0)) as [|x l]; [intros H; injection H as _ <-; rewrite w32_nil; lia|].
  pose proof (page_render_out (v_ca v0) (rs_tpl rs lang) (rs_menu rs lang) (v_pg v0) (x :: l) (s_idx (v_st v0))) as Ho.
  destruct (page_render (v_ca v0) (rs_tpl rs lang) (rs_menu rs lang) (v_pg v0) (x :: l) (s_idx (v_st v0))) as [r pg'] eqn:Hr.
  cbn [snd] in Ho.
  assert (Hfit : forall o, r = Ok o -> w32 (len o) <= z).
  { intros o ->. eapply page_render_fits32; [exact Hz|exact Hpos|exact Hr]. }
  destruct r as [o|e|n].
  - intros H. injection H as _ <-. apply Hfit. reflexivity.
  - destruct e; try (intros H; discriminate H).
    match goal with |- context [run fuel rs sep lang move_catch_code ?V] =>
      pose proof (run_out fuel rs sep lang move_catch_code V) as Hrun;
      destruct (run fuel rs sep lang move_catch_code V) as [[v1 b1] s] end.
    cbn [fst] in Hrun.
    assert (Hv1 : vout v1 = Some z).
    { rewrite Hrun. unfold vout. cbn [v_pg vset_pg vlog]. rewrite page_out_vm_reset. rewrite Ho. exact Hz. }
    destruct s; try (intros H; discriminate H);
      match goal with |- context [page_render ?a ?b ?c ?d ?e ?f] =>
        destruct (page_render a b c d e f) as [r1 pg1] eqn:Hr1 end;
      intros H; injection H as _ H; destruct r1 as [o1|e1|n1]; try discriminate H;
      injection H as <-; (eapply page_render_fits32; [exact Hv1|exact Hpos|exact Hr1]).
  - intros H; discriminate H.
Qed.

Lemma w32_below x : x < 4294967296 -> w32 x = x.
Proof. intros H. unfold w32. apply N.mod_small. exact H. Qed.

(* Flush, in the arithmetic of the code: for every engine satisfying the page invariant,
   every fuel, resource and status *)
Lemma eng_flush_fits32 fuel rs c e e' out f :
  PgInv c (e_v e) -> 0 < c_out c ->
  eng_flush fuel rs c e = (e', out, f) -> w32 (len out) <= c_out c.
Proof.
  intros Hinv Hpos Hf. apply eng_flush_cases in Hf. cbv zeta in Hf.
  destruct Hf as [[-> _]|[_ [Hover [-> [Hr _]]]]]; [rewrite w32_nil; lia|].
  destruct (vm_render fuel rs (c_sep c) (s_lang (v_st (e_v e))) (e_v e)) as [v r] eqn:Hv. cbn [snd] in *.
  assert (Hz : vout (e_v e) = Some (c_out c)).
  { unfold PgInv in Hinv. rewrite Hinv. assert (E : 0 <? c_out c = true) by lia. rewrite E. reflexivity. }
  assert (Hpage : w32 (len (flush_page r)) <= c_out c).
  { destruct Hr as [[page ->]|[er [-> _]]]; cbn [flush_page]; [|rewrite w32_nil; lia].
    eapply vm_render_fits32; [exact Hz|exact Hpos|exact Hv]. }
  destruct (e_exit e) as [|x ex] eqn:Ee.
  - rewrite app_nil_r. exact Hpage.
  - unfold flush_over in Hover. rewrite len_app, N.add_comm.
    assert (E1 : 0 <? c_out c = true) by lia.
    assert (E2 : 0 <? len (x :: ex) = true) by (rewrite len_cons; lia).
    rewrite E1, E2 in Hover. cbn [andb] in Hover. lia.
Qed.

(* the absolute bound, for outputs below 4 GiB (Sizer.Check and Flush compare uint32(len)) *)
Lemma eng_flush_fits fuel rs c e e' out f :
  PgInv c (e_v e) -> 0 < c_out c -> len out < 4294967296 ->
  eng_flush fuel rs c e = (e', out, f) -> len out <= c_out c.
Proof.
  intros Hinv Hpos Hlen Hf. rewrite <- (w32_below (len out)) by exact Hlen.
  eapply eng_flush_fits32; eassumption.
Qed.

(* ================================================================ 5. histories ===== *)
(* a history: for every request the fuel granted to the model's run loop and the client input *)
Fixpoint long_responses (rs : rsrc) (c : config) (e : engine) (h : list (nat * bytes)) : list response :=
  match h with
  | [] => []
  | (fuel, input) :: h' =>
    let '(e', r) := request_long fuel rs c e input in r :: long_responses rs c e' h'
  end.
Fixpoint pers_responses (rs : rsrc) (c : config) (p : pworld) (h : list (nat * bytes)) : list response :=
  match h with
  | [] => []
  | (fuel, input) :: h' =>
    let '(p', r) := request_persisted fuel rs c p input in r :: pers_responses rs c p' h'
  end.

Lemma request_long_fits32 fuel rs c e input :
  PgInv c (e_v e) -> 0 < c_out c ->
  w32 (len (r_out (snd (request_long fuel rs c e input)))) <= c_out c.
Proof.
  intros Hinv Hpos. unfold request_long.
  pose proof (eng_exec_inv fuel rs c e input Hinv) as H1.
  destruct (eng_exec fuel rs c e input) as [[e1 cont] s]. cbn [fst] in H1.
  destruct s; try (cbn [snd r_out]; rewrite w32_nil; lia);
    destruct (eng_flush fuel rs c e1) as [[e2 out] f] eqn:Hf; cbn [snd r_out];
    eapply eng_flush_fits32; eassumption.
Qed.

(* a new engine per request: the invariant is re-established every time, whatever the store holds *)
Lemma request_persisted_fits32 fuel rs c p input :
  0 < c_out c ->
  w32 (len (r_out (snd (request_persisted fuel rs c p input)))) <= c_out c.
Proof.
  intros Hpos. unfold request_persisted.
  pose proof (eng_exec_inv fuel rs c _ input (new_engine_inv c (pw_store p) (pw_w p) (pw_log p))) as H1.
  destruct (eng_exec fuel rs c (new_engine c (pw_store p) (pw_w p) (pw_log p)) input) as [[e1 cont] s].
  cbn [fst] in H1.
  destruct s; try (cbn [snd r_out]; rewrite w32_nil; lia);
    destruct (eng_flush fuel rs c e1) as [[e2 out] f] eqn:Hf;
    (assert (Hfit : w32 (len out) <= c_out c) by (eapply eng_flush_fits32; eassumption));
    destruct f; exact Hfit.
Qed.

Lemma long_responses_fit32 rs c : forall h e r,
  PgInv c (e_v e) -> 0 < c_out c -> In r (long_responses rs c e h) -> w32 (len (r_out r)) <= c_out c.
Proof.
  induction h as [|[fuel input] h IH]; intros e r Hinv Hpos Hin; [destruct Hin|].
  cbn [long_responses] in Hin.
  pose proof (request_long_fits32 fuel rs c e input Hinv Hpos) as Hfit.
  pose proof (request_long_inv fuel rs c e input Hinv) as Hinv'.
  destruct (request_long fuel rs c e input) as [e' r0]. cbn [fst snd] in *.
  destruct Hin as [<-|Hin]; [exact Hfit|]. eapply IH; eassumption.
Qed.

Lemma pers_responses_fit32 rs c : forall h p r,
  0 < c_out c -> In r (pers_responses rs c p h) -> w32 (len (r_out r)) <= c_out c.
Proof.
  induction h as [|[fuel input] h IH]; intros p r Hpos Hin; [destruct Hin|].
  cbn [pers_responses] in Hin.
  pose proof (request_persisted_fits32 fuel rs c p input Hpos) as Hfit.
  destruct (request_persisted fuel rs c p input) as [p' r0]. cbn [snd] in *.
  destruct Hin as [<-|Hin]; [exact Hfit|]. eapply IH; eassumption.
Qed.

(* C01 over histories, both drivers, from the initial states *)
Lemma every_response_fits32 rs c h r :
  0 < c_out c ->
  In r (long_responses rs c (new_engine c None [] []) h) \/ In r (pers_responses rs c (mkPw None [] [] false) h) ->
  w32 (len (r_out r)) <= c_out c.
Proof.
  intros Hpos [Hin|Hin].
  - eapply long_responses_fit32; [apply new_engine_inv|exact Hpos|exact Hin].
  - eapply pers_responses_fit32; [exact Hpos|exact Hin].
Qed.

Lemma every_response_fits rs c h r :
  0 < c_out c -> len (r_out r) < 4294967296 ->
  In r (long_responses rs c (new_engine c None [] []) h) \/ In r (pers_responses rs c (mkPw None [] [] false) h) ->
  len (r_out r) <= c_out c.
Proof.
  intros Hpos Hlen Hin. rewrite <- (w32_below (len (r_out r))) by exact Hlen.
  eapply every_response_fits32; eassumption.
Qed.

(* out of fuel or panicked in Exec: nothing is written *)
Lemma request_long_no_flush fuel rs c e input :
  (r_exec (snd (request_long fuel rs c e input)) = SFuel \/ exists n, r_exec (snd (request_long fuel rs c e input)) = SPanic n) ->
  r_out (snd (request_long fuel rs c e input)) = [].
Proof.
  unfold request_long. destruct (eng_exec fuel rs c e input) as [[e1 cont] s].
  destruct s; try reflexivity; destruct (eng_flush fuel rs c e1) as [[e2 out] f]; cbn [snd r_exec];
    intros [H|[n H]]; discriminate H.
Qed.

(* ============================================== 6. all or nothing; the exit value ===== *)
(* Flush reports an error with a NON-EMPTY output only in two situations, and in neither is
   anything shortened:
     A. the page's render failed, an exit value exists and the engine is not exiting: the
        exit value alone is written and the render error returned;
     B. the engine is exiting, page ++ exit was written in full and the final reset failed —
        which happens exactly when the session has no position left (empty path). *)
Lemma eng_flush_err_cases fuel rs c e e' out er :
  eng_flush fuel rs c e = (e', out, FErr er) ->
  let vr := vm_render fuel rs (c_sep c) (s_lang (v_st (e_v e))) (e_v e) in
  out = []
  \/ (e_exiting e = false /\ snd vr = RRErr er /\ e_exit e <> [] /\ out = e_exit e)
  \/ (e_exiting e = true /\ er = EGen /\ s_path (v_st (fst vr)) = []
      /\ flush_over c (e_exit e) (snd vr) = false /\ out = flush_page (snd vr) ++ e_exit e).
Proof.
  intros Hf. apply eng_flush_cases in Hf. cbv zeta in *.
  destruct Hf as [[-> _]|[_ [Hover [-> [Hr Hst]]]]]; [left; reflexivity|]. right.
  destruct (vm_render fuel rs (c_sep c) (s_lang (v_st (e_v e))) (e_v e)) as [v r]. cbn [fst snd] in *.
  destruct (e_exiting e).
  - right. destruct (eng_reset_inner_stat v) as [H|[H [Hp _]]]; rewrite H in Hst; cbn [f_of_stat] in Hst; [discriminate|].
    injection Hst as ->. auto.
  - left. destruct Hr as [[page ->]|[er' [-> Hne]]]; [discriminate|]. injection Hst as ->.
    cbn [flush_page List.app]. auto.
Qed.

(* the page did not render and there is no exit value: nothing is written, the error is returned *)
Lemma eng_flush_render_error fuel rs c e v er :
  e_execd e = true -> e_exit e = [] ->
  vm_render fuel rs (c_sep c) (s_lang (v_st (e_v e))) (e_v e) = (v, RRErr er) ->
  eng_flush fuel rs c e = (eset_v e v, [], FErr er).
Proof.
  intros Hx He Hv. unfold eng_flush. rewrite Hx, Hv. cbn [negb e_exit eset_v e_exiting].
  rewrite He. cbn [len List.length N.of_nat N.ltb N.compare]. rewrite andb_false_r. reflexivity.
Qed.

(* page and exit value together exceed the size: nothing is written, an error is returned *)
Lemma eng_flush_over_error fuel rs c e :
  e_execd e = true ->
  (forall n, snd (vm_render fuel rs (c_sep c) (s_lang (v_st (e_v e))) (e_v e)) <> RRPanic n) ->
  snd (vm_render fuel rs (c_sep c) (s_lang (v_st (e_v e))) (e_v e)) <> RRFuel ->
  flush_over c (e_exit e) (snd (vm_render fuel rs (c_sep c) (s_lang (v_st (e_v e))) (e_v e))) = true ->
  snd (fst (eng_flush fuel rs c e)) = [] /\ snd (eng_flush fuel rs c e) = FErr EGen.
Proof.
  intros Hx Hnp Hnf Hover. unfold eng_flush. rewrite Hx. cbn [negb].
  destruct (vm_render fuel rs (c_sep c) (s_lang (v_st (e_v e))) (e_v e)) as [v r]. cbn [snd] in *.
  unfold flush_over in Hover. cbn [e_exit e_exiting eset_v e_v].
  destruct r as [o|er|n|]; cbn [flush_page] in Hover.
  - rewrite Hover. destruct (e_exiting e); [destruct (eng_reset_inner v)|]; split; reflexivity.
  - replace (len (e_exit e) + 0) with (len (e_exit e) + len (@nil N)) by reflexivity. rewrite Hover.
    destruct (e_exiting e); [destruct (eng_reset_inner v)|]; split; reflexivity.
  - exfalso. eapply Hnp. reflexivity.
  - exfalso. apply Hnf. reflexivity.
Qed.

(* regression guard for e29f6bb: whatever is written when an exit value exists is
   page ++ exit, and page and exit value TOGETHER passed the size check *)
Lemma eng_flush_exit_checked fuel rs c e e' out f :
  0 < c_out c -> e_exit e <> [] -> out <> [] ->
  eng_flush fuel rs c e = (e', out, f) ->
  let vr := vm_render fuel rs (c_sep c) (s_lang (v_st (e_v e))) (e_v e) in
  out = flush_page (snd vr) ++ e_exit e
  /\ ((exists page, snd vr = RROk page) \/ (exists er, snd vr = RRErr er))
  /\ w32 (len (flush_page (snd vr)) + len (e_exit e)) <= c_out c.
Proof.
  intros Hpos Hne Hout Hf. apply eng_flush_cases in Hf. cbv zeta in *.
  destruct Hf as [[-> _]|[_ [Hover [-> [Hr _]]]]]; [congruence|].
  split; [reflexivity|]. split.
  - destruct Hr as [[page H]|[er [H _]]]; eauto.
  - unfold flush_over in Hover. rewrite N.add_comm.
    assert (E1 : 0 <? c_out c = true) by lia.
    assert (E2 : 0 <? len (e_exit e) = true).
    { destruct (e_exit e); [congruence|]. rewrite len_cons. lia. }
    rewrite E1, E2 in Hover. cbn [andb] in Hover. lia.
Qed.

(* ---- situation A does not arise in engines driven through Exec/Flush --------------------- *)
(* an exit value outside an exiting engine exists only with nothing left to render *)
Definition ExitInv (e : engine) : Prop :=
  e_exit e = [] \/ e_exiting e = true
  \/ getf (v_st (e_v e)) FLAG_DIRTY = false \/ s_path (v_st (e_v e)) = [].

Lemma nth_set_nth_bit_false : forall l n, nth n (set_nth_bit n false l) false = false.
Proof. induction l as [|x l IH]; intros [|n]; cbn [set_nth_bit nth]; auto. Qed.
Lemma getf_resetf_same s i : getf (resetf s i) i = false.
Proof. unfold getf, resetf. cbn [s_flags set_flags]. apply nth_set_nth_bit_false. Qed.

Lemma vm_render_idle fuel rs sep lang v :
  getf (v_st v) FLAG_DIRTY = false \/ s_path (v_st v) = [] ->
  snd (vm_render fuel rs sep lang v) = RROk []
  /\ getf (v_st (fst (vm_render fuel rs sep lang v))) FLAG_DIRTY = false
  /\ s_path (v_st (fst (vm_render fuel rs sep lang v))) = s_path (v_st v).
Proof.
  intros H. unfold vm_render. destruct (getf (v_st v) FLAG_DIRTY) eqn:Ed; cbn [negb].
  - destruct H as [H|Hp]; [discriminate|].
    unfold where_sym. cbn [v_st vset_st].
    change (s_path (resetf (v_st v) FLAG_DIRTY)) with (s_path (v_st v)). rewrite Hp. cbn [last fst snd v_st vset_st].
    split; [reflexivity|]. split; [apply getf_resetf_same|exact Hp].
  - cbn [fst snd]. auto.
Qed.

Lemma eng_reset_inner_clean v :
  getf (v_st (fst (eng_reset_inner v))) FLAG_DIRTY = false \/ s_path (v_st (fst (eng_reset_inner v))) = [].
Proof.
  destruct (eng_reset_inner_stat v) as [H|[_ [Hp [Hs _]]]]; [|right; rewrite Hs; exact Hp].
  left. unfold eng_reset_inner in *.
  destruct (unwind (S (List.length (s_path (v_st v)))) (v_st v) (v_ca v)) as [[st ca] s].
  destruct s; cbn [snd] in H; try discriminate H. cbn [fst v_st vset_ca vset_st]. apply getf_resetf_same.
Qed.

(* the engine Flush leaves behind *)
Lemma eng_flush_engine fuel rs c e :
  let e' := fst (fst (eng_flush fuel rs c e)) in
  let v := fst (vm_render fuel rs (c_sep c) (s_lang (v_st (e_v e))) (e_v e)) in
  e_exit e' = e_exit e
  /\ (e' = e \/ (e_v e' = v /\ e_exiting e' = e_exiting e)
      \/ (e_exiting e = true /\ e_v e' = fst (eng_reset_inner v))).
Proof.
  cbv zeta. unfold eng_flush. destruct (negb (e_execd e)); [cbn [fst]; auto|].
  destruct (vm_render fuel rs (c_sep c) (s_lang (v_st (e_v e))) (e_v e)) as [v r]. cbn [fst].
  cbn [e_exit e_exiting e_v eset_v e_initd e_execd].
  assert (Hset : e_exit (eset_v e v) = e_exit e /\
                 (eset_v e v = e \/ (e_v (eset_v e v) = v /\ e_exiting (eset_v e v) = e_exiting e)
                  \/ (e_exiting e = true /\ e_v (eset_v e v) = fst (eng_reset_inner v)))) by (cbn; auto).
  destruct r as [o|er|n|]; try exact Hset.
  - match goal with |- context [if ?c then _ else _] => destruct c end.
    + destruct (e_exiting e) eqn:Eq; [|exact Hset].
      destruct (eng_reset_inner v) as [v' s']. cbn. auto.
    + destruct (e_exiting e) eqn:Eq; [|exact Hset].
      destruct (eng_reset_inner v) as [v' s']. destruct s'; cbn; auto.
  - match goal with |- context [if ?c then _ else _] => destruct c end.
    + destruct (e_exiting e) eqn:Eq; [|exact Hset].
      destruct (eng_reset_inner v) as [v' s']. cbn. auto.
    + destruct (e_exit e) as [|x ex] eqn:Ee; [exact Hset|].
      destruct (e_exiting e) eqn:Eq; [|exact Hset].
      destruct (eng_reset_inner v) as [v' s']. destruct s'; cbn; auto.
Qed.

Lemma eng_flush_exitinv fuel rs c e : ExitInv e -> ExitInv (fst (fst (eng_flush fuel rs c e))).
Proof.
  intros Hi. destruct (eng_flush_engine fuel rs c e) as [Hx Hc]. cbv zeta in *.
  destruct (e_exit e) as [|x ex] eqn:Ee; [left; exact Hx|].
  destruct Hc as [->|[[Hv Hq]|[Hq Hv]]]; [exact Hi| |].
  - destruct (e_exiting e) eqn:Eq; [right; left; exact Hq|].
    destruct Hi as [Hi|[Hi|Hi]]; try congruence.
    destruct (vm_render_idle fuel rs (c_sep c) (s_lang (v_st (e_v e))) (e_v e) Hi) as [_ [Hd _]].
    right. right. left. rewrite Hv. exact Hd.
  - right. right. rewrite Hv. apply eng_reset_inner_clean.
Qed.

Lemma set_code_eng_exit e code :
  e_exit e = [] ->
  ExitInv (fst (set_code_eng e code)) /\ (snd (set_code_eng e code) = true -> e_exit (fst (set_code_eng e code)) = []).
Proof.
  intros He. unfold set_code_eng. destruct code as [|x code].
  - destruct (getf (set_code (v_st (e_v e)) []) FLAG_DIRTY); cbn [fst snd].
    + split; [right; left; reflexivity|discriminate].
    + split; [left; exact He|discriminate].
  - cbn [fst snd]. split; [left; exact He|intros _; exact He].
Qed.

Lemma st_up_flags s x s' : st_up s = Ok (x, s') -> s_flags s' = s_flags s.
Proof. unfold st_up. destruct (s_path s); [discriminate|]. intros H. injection H as _ <-. reflexivity. Qed.

Lemma run_first_exit fuel c lang e :
  e_exit e = [] ->
  e_exit (fst (fst (run_first fuel c lang e))) = []
  \/ (snd (fst (run_first fuel c lang e)) = false
      /\ getf (v_st (e_v (fst (fst (run_first fuel c lang e))))) FLAG_DIRTY = false).
Proof.
  intros He. unfold run_first. destruct (c_first c) as [script|]; [|left; exact He].
  destruct (st_down (v_st (e_v e)) first_sym) as [st1|er|n]; try (left; exact He).
  match goal with |- context [run fuel ?a ?b ?c0 ?d ?v1] => destruct (run fuel a b c0 d v1) as [[v2 b2] s] end.
  destruct s; [destruct b2; [destruct (getf (v_st v2) FLAG_TERMINATE)|]|..]; try (left; exact He).
  right. unfold cache_last. cbn [fst snd e_v v_st]. split; [reflexivity|].
  set (st3 := resetf (resetf (v_st v2) FLAG_DIRTY) FLAG_TERMINATE).
  assert (H3 : getf st3 FLAG_DIRTY = false).
  { unfold st3. rewrite getf_resetf_other by discriminate. apply getf_resetf_same. }
  destruct (st_up st3) as [[x st']|er|n] eqn:Eu; try exact H3.
  apply st_up_flags in Eu. unfold getf in *. rewrite Eu. exact H3.
Qed.

Lemma eng_init_exitinv fuel rs c e input :
  ExitInv e ->
  ExitInv (fst (fst (eng_init fuel rs c e input)))
  /\ (snd (eng_init fuel rs c e input) = SOk -> snd (fst (eng_init fuel rs c e input)) = true ->
      e_exit (fst (fst (eng_init fuel rs c e input))) = []).
Proof.
  intros Hi. unfold eng_init.
  assert (H1 : ExitInv (fst (if e_execd e then let '(e', _, f) := eng_flush fuel rs c e in (e', stat_of_f f) else (e, SOk)))).
  { destruct (e_execd e); [|exact Hi].
    pose proof (eng_flush_exitinv fuel rs c e Hi) as Hf. destruct (eng_flush fuel rs c e) as [[e' o] f]. exact Hf. }
  destruct (if e_execd e then let '(e', _, f) := eng_flush fuel rs c e in (e', stat_of_f f) else (e, SOk)) as [e1 s1].
  cbn [fst] in H1. destruct s1; try (cbn [fst snd]; split; [exact H1|discriminate]).
  cbn [e_initd e_v]. destruct (e_initd e1); [cbn [fst snd]; split; [left|]; reflexivity|].
  destruct (set_input (v_st (e_v e1)) (Some input)) as [st1|er|n];
    try (cbn [fst snd]; split; [left; reflexivity|discriminate]).
  match goal with |- context [run_first fuel c ?l ?e3] =>
    pose proof (run_first_exit fuel c l e3 eq_refl) as Hrf; destruct (run_first fuel c l e3) as [[e4 r] s] end.
  cbn [fst snd] in Hrf.
  assert (H4 : ExitInv e4).
  { destruct Hrf as [H|[_ H]]; [left; exact H|right; right; left; exact H]. }
  destruct s; try (cbn [fst snd]; split; [exact H4|discriminate]).
  destruct r; cbn [negb]; [|cbn [fst snd]; split; [exact H4|discriminate]].
  assert (He4 : e_exit e4 = []) by (destruct Hrf as [H|[H _]]; [exact H|discriminate]).
  match goal with |- context [match ?X with (e4', s4) => _ end] =>
    assert (H4' : e_exit (fst X) = []); [|destruct X as [e4' s4]] end.
  { destruct (s_code (v_st (e_v e4))); [|exact He4]. destruct (s_path (v_st (e_v e4))); [exact He4|].
    destruct (getf (v_st (e_v e4)) FLAG_TERMINATE); [exact He4|].
    destruct (eng_reset_inner (e_v e4)) as [v' s']. exact He4. }
  cbn [fst] in H4'. destruct s4; try (cbn [fst snd]; split; [left; exact H4'|discriminate]).
  match goal with |- context [match ?X with (e5, cont) => _ end] =>
    assert (H5 : ExitInv (fst X) /\ (snd X = true -> e_exit (fst X) = [])); [|destruct X as [e5 cont]] end.
  { destruct (s_code (v_st (e_v e4'))); [|cbn [fst snd]; split; [left; exact H4'|intros _; exact H4']].
    apply set_code_eng_exit. exact H4'. }
  cbn [fst snd] in *. destruct H5 as [H5 H5']. split; [|intros _; exact H5'].
  destruct H5 as [H5|[H5|[H5|H5]]]; [left|right; left|right; right; left|right; right; right]; exact H5.
Qed.

Lemma eng_exec_inner_exitinv fuel rs c e : e_exit e = [] -> ExitInv (fst (fst (eng_exec_inner fuel rs c e))).
Proof.
  intros He. unfold eng_exec_inner. destruct (s_code (v_st (e_v e))) as [|x code]; [left; exact He|].
  match goal with |- context [run fuel rs ?a ?b ?c0 ?v] => destruct (run fuel rs a b c0 v) as [[v1 b1] s] end.
  destruct s; try (left; exact He).
  destruct (getf (v_st v1) FLAG_TERMINATE); [left; exact He|].
  match goal with |- context [set_code_eng ?e1 b1] =>
    destruct (set_code_eng_exit e1 b1 He) as [Hs _]; destruct (set_code_eng e1 b1) as [e2 cont] end.
  exact Hs.
Qed.

Lemma eng_exec_exitinv fuel rs c e input : ExitInv e -> ExitInv (fst (fst (eng_exec fuel rs c e input))).
Proof.
  intros Hi. unfold eng_exec.
  destruct (eng_init_exitinv fuel rs c e input Hi) as [H1 H1'].
  destruct (eng_init fuel rs c e input) as [[e1 cont] s]. cbn [fst snd] in *.
  destruct s; try exact H1. destruct cont; cbn [negb]; [|exact H1].
  specialize (H1' eq_refl eq_refl).
  assert (H2 : e_exit (fst (if c_reset_empty c && (len input =? 0) then eng_reset_force c e1 else (e1, SOk))) = []).
  { destruct (c_reset_empty c && (len input =? 0)); [|exact H1'].
    unfold eng_reset_force. destruct (s_path (v_st (e_v e1))); [exact H1'|].
    match goal with |- context [eng_reset_inner ?v] => destruct (eng_reset_inner v) as [v' s'] end. exact H1'. }
  destruct (if c_reset_empty c && (len input =? 0) then eng_reset_force c e1 else (e1, SOk)) as [e2 s2].
  cbn [fst] in H2. destruct s2; try (left; exact H2).
  destruct ((0 <? len input) && negb (valid_input_b input)); [left; exact H2|].
  destruct (set_input (v_st (e_v e2)) (Some input)) as [st'|er|n]; try (left; exact H2).
  apply eng_exec_inner_exitinv. exact H2.
Qed.

Lemma new_engine_exitinv c snap w lg : ExitInv (new_engine c snap w lg).
Proof. left. unfold new_engine. destruct snap as [[s ca]|]; reflexivity. Qed.

Lemma request_long_exitinv fuel rs c e input : ExitInv e -> ExitInv (fst (request_long fuel rs c e input)).
Proof.
  intros Hi. unfold request_long.
  pose proof (eng_exec_exitinv fuel rs c e input Hi) as H1.
  destruct (eng_exec fuel rs c e input) as [[e1 cont] s]. cbn [fst] in H1.
  destruct s; try exact H1;
    pose proof (eng_flush_exitinv fuel rs c e1 H1) as Hf; destruct (eng_flush fuel rs c e1) as [[e2 out] f]; exact Hf.
Qed.

(* with the invariant: an error from Flush comes with an empty output, except situation B *)
Lemma eng_flush_err_empty fuel rs c e e' out er :
  ExitInv e ->
  eng_flush fuel rs c e = (e', out, FErr er) ->
  let vr := vm_render fuel rs (c_sep c) (s_lang (v_st (e_v e))) (e_v e) in
  out = []
  \/ (e_exiting e = true /\ er = EGen /\ s_path (v_st (fst vr)) = []
      /\ flush_over c (e_exit e) (snd vr) = false /\ out = flush_page (snd vr) ++ e_exit e).
Proof.
  intros Hi Hf. apply eng_flush_err_cases in Hf. cbv zeta in *.
  destruct Hf as [H|[[Hq [Hr [Hne _]]]|H]]; [left; exact H| |right; exact H].
  exfalso. destruct Hi as [Hi|[Hi|Hi]]; [congruence|congruence|].
  destruct (vm_render_idle fuel rs (c_sep c) (s_lang (v_st (e_v e))) (e_v e) Hi) as [Hidle _].
  rewrite Hidle in Hr. discriminate Hr.
Qed.

(* ---- engines reachable through the long-lived driver ------------------------------------ *)
Inductive long_reach (rs : rsrc) (c : config) : engine -> Prop :=
| LReach0 snap w lg : long_reach rs c (new_engine c snap w lg)
| LReachS e fuel input : long_reach rs c e -> long_reach rs c (fst (request_long fuel rs c e input)).

Lemma long_reach_inv rs c e : long_reach rs c e -> PgInv c (e_v e) /\ ExitInv e.
Proof.
  induction 1 as [snap w lg|e fuel input _ [IH1 IH2]].
  - split; [apply new_engine_inv|apply new_engine_exitinv].
  - split; [apply request_long_inv; exact IH1|apply request_long_exitinv; exact IH2].
Qed.

(* at the level of responses: a Flush error with a non-empty output is the failed final reset *)
Lemma request_long_err fuel rs c e input er :
  ExitInv e ->
  r_flush (snd (request_long fuel rs c e input)) = FErr er ->
  r_out (snd (request_long fuel rs c e input)) = []
  \/ (er = EGen /\ e_exiting (fst (fst (eng_exec fuel rs c e input))) = true).
Proof.
  intros Hi. unfold request_long.
  pose proof (eng_exec_exitinv fuel rs c e input Hi) as H1.
  destruct (eng_exec fuel rs c e input) as [[e1 cont] s]. cbn [fst] in *.
  destruct s; try (cbn [snd r_out]; left; reflexivity);
    destruct (eng_flush fuel rs c e1) as [[e2 out] f] eqn:Hf; cbn [snd r_out r_flush]; intros ->;
    (destruct (eng_flush_err_empty _ _ _ _ _ _ _ H1 Hf) as [H|[Hq [He _]]]; [left; exact H|right; split; assumption]).
Qed.

Lemma request_persisted_err fuel rs c p input er :
  r_flush (snd (request_persisted fuel rs c p input)) = FErr er ->
  r_out (snd (request_persisted fuel rs c p input)) = []
  \/ (er = EGen
      /\ e_exiting (fst (fst (eng_exec fuel rs c (new_engine c (pw_store p) (pw_w p) (pw_log p)) input))) = true).
Proof.
  unfold request_persisted.
  pose proof (eng_exec_exitinv fuel rs c _ input (new_engine_exitinv c (pw_store p) (pw_w p) (pw_log p))) as H1.
  destruct (eng_exec fuel rs c (new_engine c (pw_store p) (pw_w p) (pw_log p)) input) as [[e1 cont] s]. cbn [fst] in *.
  destruct s; try (cbn [snd r_out]; left; reflexivity);
    destruct (eng_flush fuel rs c e1) as [[e2 out] f] eqn:Hf;
    (assert (Hgoal : forall er, f = FErr er -> out = [] \/ (er = EGen /\ e_exiting e1 = true));
     [intros er' ->; destruct (eng_flush_err_empty _ _ _ _ _ _ _ H1 Hf) as [H|[Hq [He _]]]; [left; exact H|right; split; assumption]|]);
    destruct f; cbn [snd r_out r_flush]; intros H; try discriminate H; apply Hgoal; exact H.
Qed.

Lemma long_responses_err rs c : forall h e r er,
  ExitInv e -> In r (long_responses rs c e h) -> r_flush r = FErr er -> r_out r = [] \/ er = EGen.
Proof.
  induction h as [|[fuel input] h IH]; intros e r er Hi Hin Hf; [destruct Hin|].
  cbn [long_responses] in Hin.
  pose proof (request_long_err fuel rs c e input er Hi) as Herr.
  pose proof (request_long_exitinv fuel rs c e input Hi) as Hi'.
  destruct (request_long fuel rs c e input) as [e' r0]. cbn [fst snd] in *.
  destruct Hin as [<-|Hin]; [destruct (Herr Hf) as [H|[H _]]; auto|]. eapply IH; eassumption.
Qed.

Lemma pers_responses_err rs c : forall h p r er,
  In r (pers_responses rs c p h) -> r_flush r = FErr er -> r_out r = [] \/ er = EGen.
Proof.
  induction h as [|[fuel input] h IH]; intros p r er Hin Hf; [destruct Hin|].
  cbn [pers_responses] in Hin.
  pose proof (request_persisted_err fuel rs c p input er) as Herr.
  destruct (request_persisted fuel rs c p input) as [p' r0]. cbn [fst snd] in *.
  destruct Hin as [<-|Hin]; [destruct (Herr Hf) as [H|[H _]]; auto|]. eapply IH; eassumption.
Qed.

(* ---- the full-strength bound is false above 4 GiB: Sizer.Check compares uint32(len(s)) ------ *)
Lemma sizer_check_wraps :
  exists s : bytes, 30 < len s /\ snd (sizer_check (new_sizer 30) s) = true.
Proof.
  exists (repeat 0 (N.to_nat 4294967297)).
  assert (Hl : len (repeat 0 (N.to_nat 4294967297)) = 4294967297).
  { unfold len. rewrite repeat_length. apply N2Nat.id. }
  split; [rewrite Hl; reflexivity|].
  unfold sizer_check. rewrite Hl. reflexivity.
Qed.

(* ---- observation: an exit value that does not fit is never dropped by a long-lived engine ---- *)
Lemma vm_render_clean fuel rs sep lang v :
  getf (v_st v) FLAG_DIRTY = false -> vm_render fuel rs sep lang v = (v, RROk []).
Proof. intros H. unfold vm_render. rewrite H. reflexivity. Qed.

Lemma exit_overflow_sticks fuel rs c e input :
  e_execd e = true -> e_exiting e = false -> getf (v_st (e_v e)) FLAG_DIRTY = false ->
  0 < c_out c -> 0 < len (e_exit e) -> c_out c < w32 (len (e_exit e)) ->
  exists cont, request_long fuel rs c e input = (e, mkResp cont (SErr EGen None) [] (FErr EGen)).
Proof.
  intros Hx Hq Hd Hpos Hex Hover.
  assert (Hf : eng_flush fuel rs c e = (e, [], FErr EGen)).
  { unfold eng_flush. rewrite Hx. cbn [negb]. rewrite vm_render_clean by exact Hd.
    cbn [e_exit eset_v e_exiting]. rewrite Hq.
    replace (len (e_exit e) + len (@nil N)) with (len (e_exit e)) by (rewrite len_nil; lia).
    assert (E : (0 <? c_out c) && (0 <? len (e_exit e)) && (c_out c <? w32 (len (e_exit e))) = true) by lia.
    rewrite E. destruct e; reflexivity. }
  unfold request_long, eng_exec, eng_init. rewrite Hx, Hf. cbn [stat_of_f]. rewrite Hf. eauto.
Qed.

(* ---- compositions stated once for the property file ---------------------------------------- *)
Lemma page_invariant_preserved fuel rs c e input :
  PgInv c (e_v e) ->
  PgInv c (e_v (fst (fst (eng_init fuel rs c e input))))
  /\ PgInv c (e_v (fst (fst (eng_exec fuel rs c e input))))
  /\ PgInv c (e_v (fst (fst (eng_flush fuel rs c e))))
  /\ PgInv c (e_v (fst (request_long fuel rs c e input))).
Proof.
  intros H.
  exact (conj (eng_init_inv fuel rs c e input H) (conj (eng_exec_inv fuel rs c e input H)
        (conj (eng_flush_inv fuel rs c e H) (request_long_inv fuel rs c e input H)))).
Qed.

Lemma every_response_fits_from rs c h r :
  0 < c_out c ->
  (forall e, PgInv c (e_v e) -> In r (long_responses rs c e h) -> w32 (len (r_out r)) <= c_out c)
  /\ (forall p, In r (pers_responses rs c p h) -> w32 (len (r_out r)) <= c_out c).
Proof.
  intros Hpos. split.
  - intros e Hinv Hin. exact (long_responses_fit32 rs c h e r Hinv Hpos Hin).
  - intros p Hin. exact (pers_responses_fit32 rs c h p r Hpos Hin).
Qed.

Lemma exit_invariant fuel rs c e input :
  (forall snap w lg, ExitInv (new_engine c snap w lg))
  /\ (ExitInv e -> ExitInv (fst (fst (eng_exec fuel rs c e input)))
                   /\ ExitInv (fst (fst (eng_flush fuel rs c e)))
                   /\ ExitInv (fst (request_long fuel rs c e input))).
Proof.
  split; [exact (new_engine_exitinv c)|]. intros H.
  exact (conj (eng_exec_exitinv fuel rs c e input H)
        (conj (eng_flush_exitinv fuel rs c e H) (request_long_exitinv fuel rs c e input H))).
Qed.

Lemma err_histories rs c h r er :
  In r (long_responses rs c (new_engine c None [] []) h) \/ In r (pers_responses rs c (mkPw None [] [] false) h) ->
  r_flush r = FErr er -> r_out r = [] \/ er = EGen.
Proof.
  intros [Hin|Hin] Hf.
  - exact (long_responses_err rs c h _ r er (new_engine_exitinv c None [] []) Hin Hf).
  - exact (pers_responses_err rs c h _ r er Hin Hf).
Qed.

(* ================================================================ 7. witnesses ===== *)
(* corpus case menu-sink (go/cmd/vh/engine.go): five menu entries, MSINK, browse labels, size 30 *)
Definition wit_cfg30 : config := mkCfg 30 [] 1 0 [] [] false None.
Definition wit_hist (l : list string) : list (nat * bytes) := map (fun s => (3000%nat, s2b s)) l.
Definition wit_catch : bytes * bytes := (s2b "_catch", encode_prog [IHalt; IInCmp (s2b "_") (s2b "*")]).

Definition wit_menu_sink : app :=
  mkApp
    [ (s2b "root", encode_prog [IMOut (s2b "aaa") (s2b "1"); IMOut (s2b "bbb") (s2b "2"); IMOut (s2b "ccc") (s2b "3");
                                IMOut (s2b "ddd") (s2b "4"); IMOut (s2b "eee") (s2b "5"); IMSink;
                                IMNext (s2b "nxt") (s2b "11"); IMPrev (s2b "prv") (s2b "22"); IHalt;
                                IInCmp (s2b ">") (s2b "11"); IInCmp (s2b "<") (s2b "22"); IInCmp (s2b "foo") (s2b "*")]);
      (s2b "foo", encode_prog [IHalt; IInCmp (s2b "_") (s2b "0")]);
      wit_catch ]
    [ (s2b "root", s2b "root"); (s2b "foo", s2b "foo"); (s2b "_catch", s2b "catch") ]
    [] [].
Definition wit_menu_sink_inputs : list (nat * bytes) := wit_hist [""; "11"; "11"; "22"; "11"; "11"; "11"]%string.

(* corpus case exit-overflow: the end node loads a value and halts; the value becomes the exit
   value.  50 bytes with the 3-byte page "bye" exceed 30; " see you" fits. *)
Definition wit_exit_app (value : bytes) : app :=
  mkApp
    [ (s2b "root", encode_prog [IHalt; IInCmp (s2b "end1") (s2b "1")]);
      (s2b "end1", encode_prog [ILoad (s2b "bye") 0; IHalt]);
      wit_catch ]
    [ (s2b "root", s2b "root"); (s2b "end1", s2b "bye"); (s2b "_catch", s2b "catch") ]
    [] [ (s2b "bye", [mkFres value false 0 [] [] false]) ].
Definition wit_exit_inputs : list (nat * bytes) := wit_hist [""; "1"; ""; "1"]%string.
(* the engine of the second request between Exec and Flush *)
Definition wit_exit_engine (value : bytes) : engine :=
  let rs := app_rsrc (wit_exit_app value) in
  let e := fst (request_long 3000 rs wit_cfg30 (new_engine wit_cfg30 None [] []) []) in
  fst (fst (eng_exec 3000 rs wit_cfg30 e (s2b "1"))).

(* situation B of eng_flush_err_cases: code stored under the EMPTY symbol lets a session ascend
   out of its entry node and halt there; the exit value is written, the final reset fails *)
Definition wit_nowhere : app :=
  mkApp
    [ (s2b "root", encode_prog [ILoad (s2b "val") 0; IHalt; IInCmp (s2b "_") (s2b "*")]);
      ([], encode_prog [IHalt]);
      wit_catch ]
    [ (s2b "root", s2b "root"); (s2b "_catch", s2b "catch") ]
    [] [ (s2b "val", [mkFres (s2b "bye") false 0 [] [] false]) ].

Definition resp_lens (l : list response) : list N := map (fun r => len (r_out r)) l.
Definition resp_flush (l : list response) : list fstat := map r_flush l.
Definition all_fit (c : config) (l : list response) : bool := forallb (fun r => len (r_out r) <=? c_out c) l.
