(* FsCrashProofs.v — lemmas about model/FsCrash.v (crash-atomicity of the record write). *)
From Coq Require Import Lia ZifyN ZifyNat ZifyBool.
From Vise Require Import Bytes Errors Consts BytesProofs FsCrash.
Local Open Scope N_scope.

(* ---- association lists --------------------------------------------------------------- *)

Lemma bytes_eqb_neq a b : a <> b -> bytes_eqb a b = false.
Proof.
  intros Hne. destruct (bytes_eqb a b) eqn:E; [|reflexivity].
  apply bytes_eqb_eq in E. contradiction.
Qed.

Lemma alookup_aset_eq {V} k (v : V) l : alookup k (aset k v l) = Some v.
Proof.
  induction l as [|[k' v'] l IH]; cbn [aset alookup].
  - now rewrite bytes_eqb_refl.
  - destruct (bytes_eqb k k') eqn:E; cbn [alookup].
    + now rewrite bytes_eqb_refl.
    + now rewrite E.
Qed.

Lemma alookup_aset_neq {V} k k' (v : V) l : k' <> k -> alookup k' (aset k v l) = alookup k' l.
Proof.
  intros Hne. induction l as [|[k0 v0] l IH]; cbn [aset alookup].
  - now rewrite (bytes_eqb_neq _ _ Hne).
  - destruct (bytes_eqb k k0) eqn:E; cbn [alookup].
    + apply bytes_eqb_eq in E. subst k0. now rewrite (bytes_eqb_neq _ _ Hne).
    + destruct (bytes_eqb k' k0); [reflexivity|exact IH].
Qed.

Lemma alookup_aremove_eq {V} k (l : list (bytes * V)) : alookup k (aremove k l) = None.
Proof.
  induction l as [|[k0 v0] l IH]; cbn [aremove alookup]; [reflexivity|].
  destruct (bytes_eqb k k0) eqn:E; [exact IH|]. cbn [alookup]. now rewrite E.
Qed.

Lemma alookup_aremove_neq {V} k k' (l : list (bytes * V)) :
  k' <> k -> alookup k' (aremove k l) = alookup k' l.
Proof.
  intros Hne. induction l as [|[k0 v0] l IH]; cbn [aremove alookup]; [reflexivity|].
  destruct (bytes_eqb k k0) eqn:E.
  - apply bytes_eqb_eq in E. subst k0. now rewrite (bytes_eqb_neq _ _ Hne).
  - cbn [alookup]. destruct (bytes_eqb k' k0); [reflexivity|exact IH].
Qed.

Lemma aset_aset {V} k (v1 v2 : V) l : aset k v2 (aset k v1 l) = aset k v2 l.
Proof.
  induction l as [|[k0 v0] l IH]; cbn [aset].
  - now rewrite bytes_eqb_refl.
  - destruct (bytes_eqb k k0) eqn:E; cbn [aset].
    + now rewrite bytes_eqb_refl.
    + now rewrite E, IH.
Qed.

(* ---- prefixes, crash points --------------------------------------------------------- *)

Lemma firstn_in_prefixes (b : bytes) : forall n, In (firstn n b) (prefixes b).
Proof.
  induction b as [|x b IH]; intros n.
  - destruct n; cbn; auto.
  - destruct n as [|n]; cbn [firstn prefixes]; [now left|].
    right. apply in_map. apply IH.
Qed.

Lemma prefixes_are_prefixes (b : bytes) : forall pre, In pre (prefixes b) -> exists suf, b = pre ++ suf.
Proof.
  induction b as [|x b IH]; intros pre Hin; cbn [prefixes] in Hin.
  - destruct Hin as [<-|[]]. now exists [].
  - destruct Hin as [<-|Hin]; [now exists (x :: b)|].
    apply in_map_iff in Hin. destruct Hin as [pre' [<- Hin]].
    destruct (IH _ Hin) as [suf ->]. now exists suf.
Qed.

Lemma crash_states_head fs ops : In fs (crash_states fs ops).
Proof. destruct ops; cbn [crash_states]; now left. Qed.

(* the final state is a crash state (crash after the last operation) *)
Lemma crash_states_final : forall ops fs, In (run_ops fs ops) (crash_states fs ops).
Proof.
  induction ops as [|o ops IH]; intros fs; cbn [crash_states run_ops fold_left]; [now left|].
  right. apply in_or_app. right. apply IH.
Qed.

(* every sampled crash point is one of the enumerated crash states *)
Lemma crash_state_at_in : forall ops fs i k, In (crash_state_at fs ops i k) (crash_states fs ops).
Proof.
  induction ops as [|o ops IH]; intros fs i k.
  - unfold crash_state_at. destruct i; cbn; auto.
  - destruct i as [|i].
    + unfold crash_state_at. cbn [firstn run_ops fold_left nth_error crash_states].
      destruct o; try (now left).
      * right. apply in_or_app. left.
        apply (in_map (fun pre => apply_op fs (Write t pre))). apply firstn_in_prefixes.
      * right. apply in_or_app. left.
        apply (in_map (fun pre => apply_op fs (WriteAt p off pre))). apply firstn_in_prefixes.
    + assert (E : crash_state_at fs (o :: ops) (S i) k = crash_state_at (apply_op fs o) ops i k) by reflexivity.
      rewrite E. cbn [crash_states]. right. apply in_or_app. right. apply IH.
Qed.

(* ---- the write phase: only the temp file changes ------------------------------------ *)

Lemma write_on_aset fs0 t acc b :
  apply_op (aset t acc fs0) (Write t b) = aset t (acc ++ b) fs0.
Proof. cbn [apply_op]. now rewrite alookup_aset_eq, aset_aset. Qed.

Lemma crash_writes : forall chunks fs0 t acc rest fs',
  In fs' (crash_states (aset t acc fs0) (map (Write t) chunks ++ rest)) ->
  (exists w, fs' = aset t w fs0) \/
  In fs' (crash_states (aset t (acc ++ List.concat chunks) fs0) rest).
Proof.
  induction chunks as [|c cs IH]; intros fs0 t acc rest fs' Hin.
  - cbn [map app List.concat] in *. rewrite app_nil_r. now right.
  - cbn [map app crash_states] in Hin.
    destruct Hin as [<-|Hin]; [left; now exists acc|].
    apply in_app_or in Hin. destruct Hin as [Hin|Hin].
    + apply in_map_iff in Hin. destruct Hin as [pre [<- _]].
      left. exists (acc ++ pre). apply write_on_aset.
    + rewrite write_on_aset in Hin. apply IH in Hin.
      cbn [List.concat]. now rewrite app_assoc.
Qed.

(* ---- the current operation list ------------------------------------------------------ *)

(* the statement shared by the has-old-record and the first-save case: at every crash state the
   record is what it was or the complete new value, and nothing but p and tmp changed *)
Lemma put_crash_general : forall fs p tmp chunks fs',
  tmp <> p ->
  In fs' (crash_states fs (put_ops_chunked tmp p chunks)) ->
  (alookup p fs' = alookup p fs \/ alookup p fs' = Some (List.concat chunks))
  /\ (forall q, q <> p -> q <> tmp -> alookup q fs' = alookup q fs).
Proof.
  intros fs p tmp chunks fs' Hne Hin.
  assert (Hpt : p <> tmp) by congruence.
  unfold put_ops_chunked in Hin. cbn [crash_states apply_op app] in Hin.
  destruct Hin as [<-|Hin]; [split; [now left|reflexivity]|].
  apply (crash_writes chunks fs tmp [] _ fs') in Hin.
  destruct Hin as [[w ->]|Hin].
  - split; [left; now apply alookup_aset_neq|].
    intros q _ Hq. now apply alookup_aset_neq.
  - cbn [app] in Hin. set (X := aset tmp (List.concat chunks) fs) in *.
    assert (HX : forall q, q <> tmp -> alookup q X = alookup q fs)
      by (intros q Hq; now apply alookup_aset_neq).
    cbn [crash_states apply_op app] in Hin.
    assert (HXt : alookup tmp X = Some (List.concat chunks)) by apply alookup_aset_eq.
    rewrite HXt in Hin.
    destruct Hin as [<-|[<-|[<-|[<-|[]]]]];
      try (split; [left; now apply HX|intros q _ Hq; now apply HX]).
    split; [right; apply alookup_aset_eq|].
    intros q Hqp Hqt. rewrite alookup_aset_neq by exact Hqp.
    rewrite alookup_aremove_neq by exact Hqt. now apply HX.
Qed.

Lemma put_atomic_chunked : forall fs p old chunks tmp fs',
  alookup tmp fs = None -> tmp <> p -> alookup p fs = Some old ->
  In fs' (crash_states fs (put_ops_chunked tmp p chunks)) ->
  (alookup p fs' = Some old \/ alookup p fs' = Some (List.concat chunks))
  /\ (forall q, q <> p -> q <> tmp -> alookup q fs' = alookup q fs).
Proof.
  intros fs p old chunks tmp fs' _ Hne Hold Hin.
  destruct (put_crash_general fs p tmp chunks fs' Hne Hin) as [H1 H2].
  split; [|exact H2]. rewrite Hold in H1. exact H1.
Qed.

Lemma concat_single (new : bytes) : List.concat [new] = new.
Proof. cbn. apply app_nil_r. Qed.

Lemma put_atomic : forall fs p old new tmp fs',
  alookup tmp fs = None -> tmp <> p -> alookup p fs = Some old ->
  In fs' (crash_states fs (put_ops tmp p new)) ->
  (alookup p fs' = Some old \/ alookup p fs' = Some new)
  /\ (forall q, q <> p -> q <> tmp -> alookup q fs' = alookup q fs).
Proof.
  intros fs p old new tmp fs' Hf Hne Hold Hin. unfold put_ops in Hin.
  pose proof (put_atomic_chunked fs p old [new] tmp fs' Hf Hne Hold Hin) as H.
  now rewrite concat_single in H.
Qed.

Lemma put_first_save : forall fs p new tmp fs',
  alookup tmp fs = None -> tmp <> p -> alookup p fs = None ->
  In fs' (crash_states fs (put_ops tmp p new)) ->
  (alookup p fs' = None \/ alookup p fs' = Some new)
  /\ (forall q, q <> p -> q <> tmp -> alookup q fs' = alookup q fs).
Proof.
  intros fs p new tmp fs' _ Hne Hnone Hin. unfold put_ops in Hin.
  destruct (put_crash_general fs p tmp [new] fs' Hne Hin) as [H1 H2].
  rewrite concat_single, Hnone in H1. now split.
Qed.

(* a completed Put: the new record is in place and no temp file is left *)
Lemma put_completes : forall fs p tmp chunks,
  tmp <> p ->
  let fs' := run_ops fs (put_ops_chunked tmp p chunks) in
  alookup p fs' = Some (List.concat chunks) /\ alookup tmp fs' = None
  /\ (forall q, q <> p -> q <> tmp -> alookup q fs' = alookup q fs).
Proof.
  intros fs p tmp chunks Hne. cbn zeta.
  assert (Hrun : forall cs acc fs0 rest,
            run_ops (aset tmp acc fs0) (map (Write tmp) cs ++ rest)
            = run_ops (aset tmp (acc ++ List.concat cs) fs0) rest).
  { induction cs as [|c cs IH]; intros acc fs0 rest.
    - cbn [map app List.concat]. now rewrite app_nil_r.
    - cbn [map app]. unfold run_ops at 1. cbn [fold_left]. fold (run_ops (apply_op (aset tmp acc fs0) (Write tmp c)) (map (Write tmp) cs ++ rest)).
      rewrite write_on_aset, IH. cbn [List.concat]. now rewrite app_assoc. }
  unfold put_ops_chunked, run_ops. cbn [fold_left apply_op].
  fold (run_ops (aset tmp [] fs) (map (Write tmp) chunks ++ [Chmod tmp; Close tmp; Rename tmp p])).
  rewrite Hrun. cbn [app]. unfold run_ops. cbn [fold_left apply_op].
  rewrite alookup_aset_eq.
  assert (Hpt : p <> tmp) by congruence.
  split; [apply alookup_aset_eq|]. split.
  - rewrite alookup_aset_neq by exact Hne. apply alookup_aremove_eq.
  - intros q Hqp Hqt. rewrite alookup_aset_neq by exact Hqp.
    rewrite alookup_aremove_neq by exact Hqt. now apply alookup_aset_neq.
Qed.

(* the error paths: the record and every other file keep their value at every crash state,
   and if the process survives no temp file is left behind *)
Lemma put_failed_keeps : forall fs tmp written chmodded fs',
  In fs' (crash_states fs (put_ops_failed tmp written chmodded)) ->
  forall q, q <> tmp -> alookup q fs' = alookup q fs.
Proof.
  intros fs tmp written chmodded fs' Hin q Hq.
  unfold put_ops_failed in Hin. cbn [crash_states apply_op] in Hin.
  destruct Hin as [<-|Hin]; [reflexivity|]. cbn [app] in Hin.
  apply crash_writes in Hin. destruct Hin as [[w ->]|Hin]; [now apply alookup_aset_neq|].
  set (X := aset tmp ([] ++ List.concat written) fs) in *.
  assert (HX : alookup q X = alookup q fs) by now apply alookup_aset_neq.
  assert (HR : alookup q (aremove tmp X) = alookup q fs)
    by (rewrite alookup_aremove_neq by exact Hq; exact HX).
  destruct chmodded; cbn [app crash_states apply_op] in Hin.
  - destruct Hin as [<-|[<-|[<-|[<-|[]]]]]; assumption.
  - destruct Hin as [<-|[<-|[<-|[]]]]; assumption.
Qed.

Lemma put_failed_no_garbage : forall fs tmp written chmodded,
  alookup tmp (run_ops fs (put_ops_failed tmp written chmodded)) = None.
Proof.
  intros fs tmp written chmodded. unfold put_ops_failed.
  assert (Hlast : forall pre fs0, alookup tmp (run_ops fs0 (pre ++ [Remove tmp])) = None).
  { intros pre fs0. unfold run_ops. rewrite fold_left_app. cbn [fold_left apply_op].
    apply alookup_aremove_eq. }
  replace (CreateTemp tmp :: map (Write tmp) written ++ (if chmodded then [Chmod tmp] else []) ++ [Close tmp; Remove tmp])
    with ((CreateTemp tmp :: map (Write tmp) written ++ (if chmodded then [Chmod tmp] else []) ++ [Close tmp]) ++ [Remove tmp]).
  - apply Hlast.
  - cbn [app]. f_equal. rewrite <- !app_assoc. reflexivity.
Qed.

(* ---- recovery ------------------------------------------------------------------------- *)

Lemma recover_present valid fs p alt b :
  alookup p fs = Some b -> valid b = true -> recover valid fs p alt = Continued b.
Proof.
  intros Hp Hv. unfold recover, load, fs_get. now rewrite Hp, Hv.
Qed.

Lemma recover_never_fresh : forall (valid : bytes -> bool) fs p alt old new tmp fs',
  alookup tmp fs = None -> tmp <> p -> alookup p fs = Some old ->
  valid old = true -> valid new = true ->
  In fs' (crash_states fs (put_ops tmp p new)) ->
  recover valid fs' p alt = Continued old \/ recover valid fs' p alt = Continued new.
Proof.
  intros valid fs p alt old new tmp fs' Hf Hne Hold Hvo Hvn Hin.
  destruct (put_atomic fs p old new tmp fs' Hf Hne Hold Hin) as [[H|H] _].
  - left. now apply recover_present.
  - right. now apply recover_present.
Qed.

(* a different session q (legacy name altq) recovers exactly as before the crash *)
Lemma recover_other_session : forall (valid : bytes -> bool) fs p new tmp fs' q altq,
  tmp <> p -> In fs' (crash_states fs (put_ops tmp p new)) ->
  q <> p -> q <> tmp -> altq <> p -> altq <> tmp ->
  recover valid fs' q altq = recover valid fs q altq.
Proof.
  intros valid fs p new tmp fs' q altq Hne Hin Hqp Hqt Hap Hat.
  unfold put_ops in Hin.
  destruct (put_crash_general fs p tmp [new] fs' Hne Hin) as [_ H].
  unfold recover, load, fs_get. now rewrite (H q Hqp Hqt), (H altq Hap Hat).
Qed.

(* ---- names ------------------------------------------------------------------------------ *)

(* a record name never collides with a temp name: its first character is the type byte + '0',
   a temp name starts with '.' (0x2e); the only colliding type byte would be 0xfe *)
Lemma record_name_not_tmp : forall typ sk suffix,
  typ < 256 -> typ <> 254 -> record_name typ sk <> tmp_name suffix.
Proof.
  intros typ sk suffix Hlt Hne Heq. unfold record_name, tmp_name, tmp_prefix in Heq.
  cbn [s2b list_ascii_of_string List.map app] in Heq.
  injection Heq as Hc _. unfold w8, fs_type_offset in Hc.
  change (N_of_ascii "."%char) with 46 in Hc.
  assert (typ + 48 < 512) by lia.
  destruct (N.lt_ge_cases (typ + 48) 256) as [Hs|Hb].
  - rewrite N.mod_small in Hc by exact Hs. lia.
  - assert (E : typ + 48 = 1 * 256 + (typ + 48 - 256)) by lia.
    rewrite E, N.add_comm, N.mod_add, N.mod_small in Hc by lia. lia.
Qed.

(* the legacy (type-less) name of a session key collides with a temp name only if the session
   key itself starts with ".tmp-" *)
Lemma tmp_prefix_lit : tmp_prefix = [46; 116; 109; 112; 45].
Proof. reflexivity. Qed.

Lemma alt_name_not_tmp : forall typ sk suffix,
  is_prefix tmp_prefix sk = false -> alt_name typ sk <> tmp_name suffix.
Proof.
  intros typ sk suffix Hnp Heq. unfold alt_name, tmp_name in Heq.
  rewrite tmp_prefix_lit in *.
  change (s2b fs_bin_suffix) with [46; 98; 105; 110] in Heq.
  destruct (typ =? DATATYPE_BIN);
    destruct sk as [|a0 [|a1 [|a2 [|a3 [|a4 a]]]]]; cbn [app] in Heq; try discriminate Heq.
  all: injection Heq as -> -> -> -> -> _; cbn in Hnp; discriminate Hnp.
Qed.

(* ---- the operation list before the repair (ioutil.WriteFile) --------------------------- *)

(* right after the truncating open the record is empty: the session is silently restarted *)
Lemma old_oplist_empty_record : forall (valid : bytes -> bool) fs p alt new,
  valid [] = false ->
  exists fs', In fs' (crash_states fs (put_ops_old p new))
    /\ alookup p fs' = Some [] /\ recover valid fs' p alt = FreshStarted.
Proof.
  intros valid fs p alt new Hv. exists (aset p [] fs). split; [|split].
  - unfold put_ops_old. cbn [crash_states apply_op]. right. now left.
  - apply alookup_aset_eq.
  - unfold recover, load, fs_get. now rewrite alookup_aset_eq, Hv.
Qed.

(* every prefix of the new record is the content of the record at some crash state *)
Lemma old_oplist_partial_record : forall fs p new pre,
  In pre (prefixes new) -> In (aset p pre fs) (crash_states fs (put_ops_old p new)).
Proof.
  intros fs p new pre Hin. unfold put_ops_old. cbn [crash_states apply_op].
  right. right. apply in_or_app. left.
  apply in_map_iff. exists pre. split; [|exact Hin].
  rewrite alookup_aset_eq. cbn [app]. apply aset_aset.
Qed.

(* and the previous state is then destroyed by ensurePersist's overwrite *)
Lemma old_oplist_loses_session : forall (valid : bytes -> bool) fs p alt new freshrec tmp',
  valid [] = false -> tmp' <> p ->
  exists fs', In fs' (crash_states fs (put_ops_old p new))
    /\ recover valid fs' p alt = FreshStarted
    /\ alookup p (recover_store valid freshrec tmp' fs' p alt) = Some freshrec.
Proof.
  intros valid fs p alt new freshrec tmp' Hv Hne.
  destruct (old_oplist_empty_record valid fs p alt new Hv) as [fs' [Hin [_ Hr]]].
  exists fs'. split; [exact Hin|]. split; [exact Hr|].
  unfold recover_store. rewrite Hr. unfold put_ops.
  destruct (put_completes fs' p tmp' [freshrec] Hne) as [H _].
  now rewrite concat_single in H.
Qed.

Lemma old_oplist_not_atomic :
  ~ (forall fs p old new fs', alookup p fs = Some old ->
       In fs' (crash_states fs (put_ops_old p new)) ->
       alookup p fs' = Some old \/ alookup p fs' = Some new).
Proof.
  intros H.
  specialize (H [([64], [1])] [64] [1] [2] [([64], [])] eq_refl).
  destruct H as [H|H]; [|discriminate H|discriminate H].
  cbn. right. now left.
Qed.

(* ---- directory scan ---------------------------------------------------------------------- *)

(* a name that sorts at or before the temp names (first byte <= '.') is never listed for any
   type byte below 208: its entry key starts with (c - 0x30) mod 256 >= 208 *)
Lemma dump_entry_low_name : forall typ sidp pfx c r,
  c <= 46 -> typ < 208 -> dump_entry typ sidp pfx (c :: r) = None.
Proof.
  intros typ sidp pfx c r Hc Ht. unfold dump_entry. cbn [entry_key nth].
  destruct (from_db_key (sub8 c fs_type_offset :: r)) as [k1|]; [|reflexivity].
  destruct (from_session_key sidp k1) as [kk|]; [|reflexivity].
  cbn [is_prefix].
  assert (E : sub8 c fs_type_offset = c + 208).
  { unfold sub8, fs_type_offset. change (48 mod 256) with 48.
    replace (c + 256 - 48) with (c + 208) by lia. apply N.mod_small. lia. }
  rewrite E. destruct (typ =? c + 208) eqn:E2; [lia|reflexivity].
Qed.

Lemma dump_entry_nil : forall typ sidp pfx, dump_entry typ sidp pfx [] = None.
Proof. reflexivity. Qed.

Lemma bytes_leb_tmp_first : forall n suffix,
  bytes_leb n (tmp_name suffix) = true -> n = [] \/ exists c r, n = c :: r /\ c <= 46.
Proof.
  intros n suffix H. destruct n as [|c r]; [now left|right].
  exists c, r. split; [reflexivity|].
  unfold tmp_name in H. rewrite tmp_prefix_lit in H. cbn [app bytes_leb] in H.
  destruct (c <? 46) eqn:E1; [lia|]. destruct (46 <? c) eqn:E2; [discriminate H|lia].
Qed.

Lemma dump_keys_skip : forall typ sidp pfx n names,
  dump_entry typ sidp pfx n = None -> dump_keys typ sidp pfx (n :: names) = dump_keys typ sidp pfx names.
Proof.
  intros typ sidp pfx n names H. cbn [dump_keys]. rewrite H.
  now destruct (len (entry_key n) <? len (typ :: pfx)).
Qed.

(* a leftover temp file anywhere among the names that sort before it does not change the
   listing (in a sorted directory everything before it sorts before it) *)
Lemma dump_ignores_tmp : forall typ sidp pfx l1 suffix l2,
  typ < 208 ->
  (forall n, In n l1 -> bytes_leb n (tmp_name suffix) = true) ->
  dump_keys typ sidp pfx (l1 ++ tmp_name suffix :: l2) = dump_keys typ sidp pfx (l1 ++ l2).
Proof.
  intros typ sidp pfx l1 suffix l2 Ht. induction l1 as [|n l1 IH]; intros Hl1.
  - cbn [app]. apply dump_keys_skip. unfold tmp_name. rewrite tmp_prefix_lit. cbn [app].
    apply dump_entry_low_name; lia.
  - cbn [app].
    assert (Hn : dump_entry typ sidp pfx n = None).
    { destruct (bytes_leb_tmp_first n suffix (Hl1 n (or_introl eq_refl))) as [->|[c [r [-> Hc]]]].
      - apply dump_entry_nil.
      - now apply dump_entry_low_name. }
    rewrite !dump_keys_skip by exact Hn. apply IH. intros m Hm. apply Hl1. now right.
Qed.

(* record names of the defined data types sort after every temp name *)
Lemma tmp_sorts_before_records : forall suffix typ sk,
  46 < w8 (typ + fs_type_offset) -> bytes_leb (tmp_name suffix) (record_name typ sk) = true.
Proof.
  intros suffix typ sk H. unfold tmp_name, record_name. rewrite tmp_prefix_lit. cbn [app bytes_leb].
  destruct (46 <? w8 (typ + fs_type_offset)) eqn:E; [reflexivity|lia].
Qed.

(* ---- an in-place overwrite (not what Put does; the shape of a seeded regression) --------- *)

(* overwriting an existing record of the same length in place is not crash-atomic: a partial
   write leaves new-prefix ++ old-suffix, which is neither record *)
Lemma inplace_overwrite_not_atomic :
  exists fs p old new fs',
    alookup p fs = Some old /\ len old = len new
    /\ In fs' (crash_states fs [OpenWrite p; WriteAt p 0 new; Close p])
    /\ alookup p fs' = Some (take 1 new ++ drop 1 old)
    /\ alookup p fs' <> Some old /\ alookup p fs' <> Some new.
Proof.
  exists [([64], [1; 1])], [64], [1; 1], [2; 2], [([64], [2; 1])].
  split; [reflexivity|]. split; [reflexivity|]. split.
  - cbn. right. right. right. now left.
  - split; [reflexivity|]. split; cbn; discriminate.
Qed.
