(* CodecProofs.v — round-trip, agreement and totality lemmas for Codec.v *)
From Coq Require Import Lia ZArith.
From Coq Require Import ZifyN ZifyNat ZifyBool.
From Vise Require Import Bytes Errors Consts Codec BytesProofs.
Local Open Scope N_scope.

(* ---- integer codec ------------------------------------------------------------- *)

Lemma num_size_bound n : 0 < n -> n < 2 ^ 32 -> 1 <= num_size n <= 4 /\ n < 256 ^ num_size n.
Proof.
  intros Hpos Hlt. unfold num_size.
  assert (Hl : N.log2 n < 32) by (apply N.log2_lt_pow2; lia).
  pose proof (N.log2_spec n Hpos) as [_ Hup].
  split.
  - assert (N.log2 n / 8 < 4) by (apply N.div_lt_upper_bound; lia). lia.
  - replace 256 with (2 ^ 8) by reflexivity. rewrite <- N.pow_mul_r.
    eapply N.lt_le_trans; [exact Hup|]. apply N.pow_le_mono_r; [lia|].
    pose proof (N.div_mod (N.log2 n) 8 ltac:(lia)). pose proof (N.mod_lt (N.log2 n) 8 ltac:(lia)). lia.
Qed.

Lemma go_index_0 x l : go_index (x :: l) 0 = Ok x.
Proof. reflexivity. Qed.
Lemma go_index_1 x y l : go_index (x :: y :: l) 1 = Ok y.
Proof. reflexivity. Qed.

Lemma go_slice_from_cons1 (x : N) (l : list N) : go_slice_from (x :: l) 1 = Ok l.
Proof.
  unfold go_slice_from. rewrite len_cons.
  destruct (N.ltb_spec (1 + len l) 1); [lia|]. reflexivity.
Qed.

Lemma go_slice_from_ok (b : list N) lo : lo <= len b -> go_slice_from b lo = Ok (drop lo b).
Proof. intros H. unfold go_slice_from. destruct (N.ltb_spec (len b) lo); [lia|reflexivity]. Qed.

Lemma go_slice_ok (b : list N) lo hi :
  lo <= hi -> hi <= len b -> go_slice b lo hi = Ok (take (hi - lo) (drop lo b)).
Proof.
  intros H1 H2. unfold go_slice.
  destruct (N.ltb_spec hi lo); [lia|]. destruct (N.ltb_spec (len b) hi); [lia|]. reflexivity.
Qed.

(* take the else-branch of every comparison whose then-branch lia refutes *)
Ltac kill_if := repeat match goal with
  | |- context [if ?a <? ?b then _ else _] => destruct (N.ltb_spec a b); [lia|]
  | |- context [if ?a =? ?b then _ else _] => destruct (N.eqb_spec a b); [lia|]
  end.

(* int_split on a width byte followed by exactly that many data bytes *)
Lemma int_split_data l d rest :
  l <= 4 -> len d = l -> int_split (l :: d ++ rest) = Ok (unbe d, rest).
Proof.
  intros Hl Hd. unfold int_split.
  pose proof (len_app d rest) as Hla. pose proof (len_cons l (d ++ rest)) as Hlc.
  kill_if. rewrite go_index_0. cbn [obind]. rewrite go_slice_from_cons1. cbn [obind].
  kill_if.
  rewrite go_slice_ok by lia. rewrite go_slice_from_ok by lia. cbn [obind].
  rewrite N.sub_0_r, drop_0.
  rewrite (take_app_exact d rest l) by lia.
  rewrite (drop_app_exact d rest l) by lia. reflexivity.
Qed.

Theorem int_roundtrip_lemma n rest :
  n < 2 ^ 32 -> exists e, write_size n = Ok e /\ int_split (e ++ rest) = Ok (n, rest).
Proof.
  intros Hlt. unfold write_size. destruct (N.eqb_spec n 0) as [->|Hn].
  - exists [1; 0]. split; [reflexivity|].
    change ([1; 0] ++ rest) with (1 :: [0] ++ rest).
    rewrite int_split_data; [reflexivity|lia|reflexivity].
  - destruct (num_size_bound n ltac:(lia) Hlt) as [[H1 H4] Hb].
    set (sz := num_size n) in *.
    destruct (N.ltb_spec 4 sz); [lia|].
    eexists. split; [reflexivity|].
    cbn [app]. rewrite int_split_data.
    + rewrite unbe_be; [reflexivity|]. rewrite N2Nat.id. exact Hb.
    + lia.
    + rewrite len_be, N2Nat.id. reflexivity.
Qed.

Lemma min_be_write_size n : n < 2 ^ 32 -> write_size n = Ok (len (min_be n) :: min_be n).
Proof.
  intros Hlt. unfold write_size, min_be. destruct (N.eqb_spec n 0) as [->|Hn]; [reflexivity|].
  destruct (num_size_bound n ltac:(lia) Hlt) as [[H1 H4] _].
  destruct (N.ltb_spec 4 (num_size n)); [lia|].
  rewrite len_be, N2Nat.id. reflexivity.
Qed.

Lemma len_min_be n : n < 2 ^ 32 -> 1 <= len (min_be n) <= 4.
Proof.
  intros Hlt. unfold min_be. destruct (N.eqb_spec n 0) as [->|Hn]; [cbn; lia|].
  destruct (num_size_bound n ltac:(lia) Hlt) as [[H1 H4] _].
  rewrite len_be, N2Nat.id. lia.
Qed.

Lemma int_split_min_be n rest :
  n < 2 ^ 32 -> int_split (w8 (len (min_be n)) :: min_be n ++ rest) = Ok (n, rest).
Proof.
  intros Hlt. pose proof (len_min_be n Hlt) as Hl.
  unfold w8. rewrite N.mod_small by lia.
  destruct (int_roundtrip_lemma n rest Hlt) as [e [He Hs]].
  rewrite min_be_write_size in He by exact Hlt. inversion He; subst e. exact Hs.
Qed.

(* ---- symbol codec -------------------------------------------------------------- *)

Lemma sym_split_data s rest :
  1 <= len s -> len s <= 255 -> sym_split (len s :: s ++ rest) = Ok (s, rest).
Proof.
  intros H1 H255. unfold sym_split.
  pose proof (len_app s rest) as Hla. pose proof (len_cons (len s) (s ++ rest)) as Hlc.
  kill_if. rewrite go_index_0. cbn [obind]. kill_if.
  rewrite go_slice_ok by lia. rewrite go_slice_from_ok by lia. cbn [obind].
  replace (1 + len s - 1) with (len s) by lia.
  assert (Hd1 : drop 1 (len s :: s ++ rest) = s ++ rest) by reflexivity.
  rewrite Hd1. rewrite take_app_exact by reflexivity.
  assert (Hd2 : drop (1 + len s) (len s :: s ++ rest) = drop (len s) (s ++ rest)).
  { unfold drop. replace (N.to_nat (1 + len s)) with (S (N.to_nat (len s))) by lia. reflexivity. }
  rewrite Hd2, drop_app_exact by reflexivity. reflexivity.
Qed.

Lemma write_sym_ok s : len s <= 255 -> write_sym s = Ok (len s :: s).
Proof. intros H. unfold write_sym. destruct (N.ltb_spec 255 (len s)); [lia|reflexivity]. Qed.

Lemma sym_split_w8 s rest : wf_sym s -> sym_split (w8 (len s) :: s ++ rest) = Ok (s, rest).
Proof.
  intros [_ [H1 H2]]. unfold w8. rewrite N.mod_small by lia. apply sym_split_data; assumption.
Qed.

(* ---- opcode -------------------------------------------------------------------- *)

Lemma op_split_bytes op rest :
  op <= max_opcode -> op_split ((op / 256) mod 256 :: op mod 256 :: rest) = Ok (op, rest).
Proof.
  intros Hop. assert (Hop' : op < 256) by (unfold max_opcode in Hop; lia).
  rewrite (N.div_small op 256) by lia. rewrite N.mod_0_l by lia.
  rewrite (N.mod_small op 256) by lia. unfold op_split.
  pose proof (len_cons 0 (op :: rest)) as H1. pose proof (len_cons op rest) as H2.
  kill_if. rewrite go_index_0. cbn [obind]. rewrite go_index_1. cbn [obind].
  change (0 * 256 + op) with op.
  kill_if. rewrite go_slice_from_ok by lia. reflexivity.
Qed.

Lemma parse_mode_cons m (r : list N) : parse_mode (m :: r) = Ok (0 <? m, r).
Proof.
  unfold parse_mode. pose proof (len_cons m r). kill_if.
  rewrite go_index_0. cbn [obind]. rewrite go_slice_from_cons1. reflexivity.
Qed.

(* ---- whole instructions -------------------------------------------------------- *)

Lemma app_cons_assoc {A} (x : A) (a b : list A) : (x :: a) ++ b = x :: a ++ b.
Proof. reflexivity. Qed.

Ltac norm_enc :=
  unfold encode, new_line, mode_byte;
  cbn [map List.concat app];
  repeat (rewrite <- app_assoc; cbn [app]);
  repeat rewrite app_nil_r; cbn [app].

Ltac step_op opc :=
  rewrite (op_split_bytes opc) by (vm_compute; discriminate);
  cbn [obind]; unfold parse_args;
  vm_compute N.eqb; cbn [obind].

Theorem instr_roundtrip_lemma i rest : wf_instr i -> decode_one (encode i ++ rest) = Ok (i, rest).
Proof.
  destruct i as [|s n m|n m|s n|s|s|s| |s t| |s t|s t|s t]; cbn [wf_instr]; intros Hwf;
    try contradiction; unfold decode_one; norm_enc.
  - (* CATCH *) destruct Hwf as [Hs Hn].
    rewrite (op_split_bytes op_CATCH) by (vm_compute; discriminate). cbn [obind].
    change (parse_args op_CATCH) with (fun b => obind (parse_sym_sig b) (fun '(s, n, m, r) => Ok (ICatch s n m, r))).
    cbv beta. unfold parse_sym_sig.
    rewrite sym_split_w8 by exact Hs. cbn [obind].
    rewrite <- ?app_assoc. rewrite int_split_min_be by exact Hn. cbn [obind].
    destruct m; cbn [app]; rewrite parse_mode_cons; reflexivity.
  - (* CROAK *)
    rewrite (op_split_bytes op_CROAK) by (vm_compute; discriminate). cbn [obind].
    change (parse_args op_CROAK) with (fun b => obind (parse_sig b) (fun '(n, m, r) => Ok (ICroak n m, r))).
    cbv beta. unfold parse_sig.
    rewrite <- ?app_assoc. rewrite int_split_min_be by exact Hwf. cbn [obind].
    destruct m; cbn [app]; rewrite parse_mode_cons; reflexivity.
  - (* LOAD *) destruct Hwf as [Hs Hn].
    rewrite (op_split_bytes op_LOAD) by (vm_compute; discriminate). cbn [obind].
    change (parse_args op_LOAD) with (fun b => obind (parse_sym_len b) (fun '(s, n, r) => Ok (ILoad s n, r))).
    cbv beta. unfold parse_sym_len.
    rewrite sym_split_w8 by exact Hs. cbn [obind].
    rewrite int_split_min_be by exact Hn. reflexivity.
  - (* RELOAD *)
    rewrite (op_split_bytes op_RELOAD) by (vm_compute; discriminate). cbn [obind].
    change (parse_args op_RELOAD) with (fun b => obind (parse_sym b) (fun '(s, r) => Ok (IReload s, r))).
    cbv beta. unfold parse_sym. rewrite sym_split_w8 by exact Hwf. reflexivity.
  - (* MAP *)
    rewrite (op_split_bytes op_MAP) by (vm_compute; discriminate). cbn [obind].
    change (parse_args op_MAP) with (fun b => obind (parse_sym b) (fun '(s, r) => Ok (IMap s, r))).
    cbv beta. unfold parse_sym. rewrite sym_split_w8 by exact Hwf. reflexivity.
  - (* MOVE *)
    rewrite (op_split_bytes op_MOVE) by (vm_compute; discriminate). cbn [obind].
    change (parse_args op_MOVE) with (fun b => obind (parse_sym b) (fun '(s, r) => Ok (IMove s, r))).
    cbv beta. unfold parse_sym. rewrite sym_split_w8 by exact Hwf. reflexivity.
  - (* HALT *)
    rewrite (op_split_bytes op_HALT) by (vm_compute; discriminate). reflexivity.
  - (* INCMP *) destruct Hwf as [Hs Ht].
    rewrite (op_split_bytes op_INCMP) by (vm_compute; discriminate). cbn [obind].
    change (parse_args op_INCMP) with (fun b => obind (parse_two_sym b) (fun '(s, t, r) => Ok (IInCmp s t, r))).
    cbv beta. unfold parse_two_sym.
    rewrite sym_split_w8 by exact Hs. cbn [obind].
    rewrite sym_split_w8 by exact Ht. reflexivity.
  - (* MSINK *)
    rewrite (op_split_bytes op_MSINK) by (vm_compute; discriminate). reflexivity.
  - (* MOUT *) destruct Hwf as [Hs Ht].
    rewrite (op_split_bytes op_MOUT) by (vm_compute; discriminate). cbn [obind].
    change (parse_args op_MOUT) with (fun b => obind (parse_two_sym b) (fun '(s, t, r) => Ok (IMOut s t, r))).
    cbv beta. unfold parse_two_sym.
    rewrite sym_split_w8 by exact Hs. cbn [obind].
    rewrite sym_split_w8 by exact Ht. reflexivity.
  - (* MNEXT *) destruct Hwf as [Hs Ht].
    rewrite (op_split_bytes op_MNEXT) by (vm_compute; discriminate). cbn [obind].
    change (parse_args op_MNEXT) with (fun b => obind (parse_two_sym b) (fun '(s, t, r) => Ok (IMNext s t, r))).
    cbv beta. unfold parse_two_sym.
    rewrite sym_split_w8 by exact Hs. cbn [obind].
    rewrite sym_split_w8 by exact Ht. reflexivity.
  - (* MPREV *) destruct Hwf as [Hs Ht].
    rewrite (op_split_bytes op_MPREV) by (vm_compute; discriminate). cbn [obind].
    change (parse_args op_MPREV) with (fun b => obind (parse_two_sym b) (fun '(s, t, r) => Ok (IMPrev s t, r))).
    cbv beta. unfold parse_two_sym.
    rewrite sym_split_w8 by exact Hs. cbn [obind].
    rewrite sym_split_w8 by exact Ht. reflexivity.
Qed.

(* ---- programs ------------------------------------------------------------------ *)

Lemma encode_shape i : exists a b t, encode i = a :: b :: t.
Proof. destruct i; unfold encode, new_line; cbn [app]; eauto. Qed.

Lemma encode_prog_nonempty i p : encode_prog (i :: p) <> [].
Proof.
  unfold encode_prog. cbn [map List.concat]. destruct (encode_shape i) as [a [b [t ->]]]. discriminate.
Qed.

Lemma parse_all_fuel_prog p : forall acc f,
  Forall wf_instr p -> p <> [] -> (List.length p <= f)%nat ->
  parse_all_fuel f (encode_prog p) acc = Ok (rev acc ++ p).
Proof.
  induction p as [|i p IH]; intros acc f Hwf Hne Hf; [contradiction|].
  destruct f as [|f]; [cbn in Hf; lia|].
  inversion Hwf as [|? ? Hi Hp]; subst.
  cbn [parse_all_fuel]. unfold encode_prog. cbn [map List.concat]. fold (encode_prog p).
  rewrite instr_roundtrip_lemma by exact Hi.
  destruct p as [|j p'].
  - cbn. reflexivity.
  - remember (encode_prog (j :: p')) as e eqn:He.
    destruct e as [|x e']; [symmetry in He; exfalso; exact (encode_prog_nonempty _ _ He)|].
    rewrite IH; [|exact Hp|discriminate|cbn in *; lia].
    cbn [rev]. rewrite <- app_assoc. reflexivity.
Qed.

Lemma encode_len_ge i : (2 <= List.length (encode i))%nat.
Proof. destruct (encode_shape i) as [a [b [t ->]]]. cbn. lia. Qed.

Lemma encode_prog_len p : (List.length p <= List.length (encode_prog p))%nat.
Proof.
  induction p as [|i p IH]; [cbn; lia|].
  unfold encode_prog in *. cbn [map List.concat]. rewrite app_length.
  pose proof (encode_len_ge i). cbn [List.length]. lia.
Qed.

Theorem prog_roundtrip_lemma p :
  Forall wf_instr p -> p <> [] -> parse_all (encode_prog p) = Ok p.
Proof.
  intros Hwf Hne. unfold parse_all.
  rewrite parse_all_fuel_prog; [reflexivity|exact Hwf|exact Hne|].
  pose proof (encode_prog_len p). lia.
Qed.

Theorem disasm_lemma p :
  Forall wf_instr p -> p <> [] -> to_string (encode_prog p) = Ok (print_prog p).
Proof. intros Hwf Hne. unfold to_string. rewrite prog_roundtrip_lemma by assumption. reflexivity. Qed.

(* ---- both encoders agree --------------------------------------------------------- *)

Lemma write_size_min_be n : wf_num n -> write_size n = Ok (w8 (len (min_be n)) :: min_be n).
Proof.
  intros H. rewrite min_be_write_size by exact H. pose proof (len_min_be n H).
  unfold w8. rewrite N.mod_small by lia. reflexivity.
Qed.

Lemma write_sym_w8 s : wf_sym s -> write_sym s = Ok (w8 (len s) :: s).
Proof.
  intros [_ [H1 H2]]. rewrite write_sym_ok by exact H2. unfold w8. rewrite N.mod_small by lia. reflexivity.
Qed.

Theorem encoders_agree_lemma i : wf_instr i -> encode_asm i = Ok (encode i).
Proof.
  destruct i as [|s n m|n m|s n|s|s|s| |s t| |s t|s t|s t]; cbn [wf_instr]; intros Hwf;
    try contradiction; unfold encode_asm, encode, new_line, opcode_bytes, wsyms; cbn [fold_left map List.concat obind app].
  - destruct Hwf as [Hs Hn]. rewrite write_sym_w8 by exact Hs. cbn [obind].
    rewrite write_size_min_be by exact Hn. cbn [obind app]. rewrite app_nil_r.
    repeat (rewrite <- app_assoc; cbn [app]). reflexivity.
  - rewrite write_size_min_be by exact Hwf. cbn [obind app]. reflexivity.
  - destruct Hwf as [Hs Hn]. rewrite write_sym_w8 by exact Hs. cbn [obind].
    rewrite write_size_min_be by exact Hn. cbn [obind app]. rewrite !app_nil_r.
    repeat (rewrite <- app_assoc; cbn [app]). reflexivity.
  - rewrite write_sym_w8 by exact Hwf. cbn [obind app]. rewrite !app_nil_r. reflexivity.
  - rewrite write_sym_w8 by exact Hwf. cbn [obind app]. rewrite !app_nil_r. reflexivity.
  - rewrite write_sym_w8 by exact Hwf. cbn [obind app]. rewrite !app_nil_r. reflexivity.
  - reflexivity.
  - destruct Hwf as [Hs Ht]. rewrite write_sym_w8 by exact Hs. cbn [obind app].
    rewrite write_sym_w8 by exact Ht. cbn [obind app]. rewrite !app_nil_r. reflexivity.
  - reflexivity.
  - destruct Hwf as [Hs Ht]. rewrite write_sym_w8 by exact Hs. cbn [obind app].
    rewrite write_sym_w8 by exact Ht. cbn [obind app]. rewrite !app_nil_r. reflexivity.
  - destruct Hwf as [Hs Ht]. rewrite write_sym_w8 by exact Hs. cbn [obind app].
    rewrite write_sym_w8 by exact Ht. cbn [obind app]. rewrite !app_nil_r. reflexivity.
  - destruct Hwf as [Hs Ht]. rewrite write_sym_w8 by exact Hs. cbn [obind app].
    rewrite write_sym_w8 by exact Ht. cbn [obind app]. rewrite !app_nil_r. reflexivity.
Qed.

(* opcode tables are mutually inverse (checked on the generated tables) *)
Lemma opcode_tables_inverse :
  forallb (fun '(s, n) => existsb (fun '(n', s') => (n =? n') && String.eqb s s') opcode_string) opcode_index = true
  /\ forallb (fun '(n, s) => existsb (fun '(s', n') => (n =? n') && String.eqb s s') opcode_index) opcode_string = true
  /\ forallb (fun '(_, n) => n <=? max_opcode) opcode_index = true.
Proof. vm_compute. auto. Qed.

(* ---- totality: the decoder never panics (C15) ------------------------------------ *)

Lemma obind_no_panic {A B} (o : res A) (f : A -> res B) :
  is_panic o = false -> (forall a, is_panic (f a) = false) -> is_panic (obind o f) = false.
Proof. destruct o; cbn; auto. Qed.

Lemma go_index_in (b : list N) i : i < len b -> exists x, go_index b i = Ok x.
Proof.
  intros H. unfold go_index. destruct (nth_error b (N.to_nat i)) eqn:E; [eauto|].
  apply nth_error_None in E. unfold len in H. lia.
Qed.

Lemma sym_split_no_panic b : is_panic (sym_split b) = false.
Proof.
  unfold sym_split. destruct (N.eqb_spec (len b) 0); [reflexivity|].
  destruct (go_index_in b 0 ltac:(lia)) as [sz ->]. cbn [obind].
  destruct (sz =? 0); [reflexivity|].
  destruct (N.ltb_spec (len b) (sz + 1)); [reflexivity|].
  rewrite go_slice_ok by lia. rewrite go_slice_from_ok by lia. reflexivity.
Qed.

Lemma int_split_no_panic b : is_panic (int_split b) = false.
Proof.
  unfold int_split. destruct (N.eqb_spec (len b) 0); [reflexivity|].
  destruct (go_index_in b 0 ltac:(lia)) as [l ->]. cbn [obind].
  rewrite go_slice_from_ok by lia. cbn [obind].
  destruct (4 <? l); [reflexivity|].
  destruct (N.ltb_spec (len (drop 1 b)) l); [reflexivity|].
  rewrite go_slice_ok by lia. rewrite go_slice_from_ok by lia. reflexivity.
Qed.

Lemma parse_mode_no_panic b : is_panic (parse_mode b) = false.
Proof.
  unfold parse_mode. destruct (N.eqb_spec (len b) 0); [reflexivity|].
  destruct (go_index_in b 0 ltac:(lia)) as [m ->]. cbn [obind].
  rewrite go_slice_from_ok by lia. reflexivity.
Qed.

Lemma op_split_no_panic b : is_panic (op_split b) = false.
Proof.
  unfold op_split. destruct (N.ltb_spec (len b) 2); [reflexivity|].
  destruct (go_index_in b 0 ltac:(lia)) as [h ->]. cbn [obind].
  destruct (go_index_in b 1 ltac:(lia)) as [l ->]. cbn [obind].
  destruct (max_opcode <? h * 256 + l); [reflexivity|].
  rewrite go_slice_from_ok by lia. reflexivity.
Qed.

Ltac np :=
  repeat first
    [ apply obind_no_panic
    | apply sym_split_no_panic | apply int_split_no_panic
    | apply parse_mode_no_panic | apply op_split_no_panic
    | reflexivity
    | intros [[[? ?] ?] ?] | intros [[? ?] ?] | intros [? ?] ].

Lemma parse_args_no_panic op b : is_panic (parse_args op b) = false.
Proof.
  unfold parse_args, parse_sym_sig, parse_sig, parse_sym_len, parse_sym, parse_two_sym.
  repeat match goal with |- context [if ?c then _ else _] => destruct c end; np.
Qed.

Theorem decode_one_no_panic b : is_panic (decode_one b) = false.
Proof.
  unfold decode_one. apply obind_no_panic; [apply op_split_no_panic|].
  intros [op r]. apply parse_args_no_panic.
Qed.

Lemma parse_all_fuel_no_panic f : forall b acc, is_panic (parse_all_fuel f b acc) = false.
Proof.
  induction f as [|f IH]; intros b acc; cbn [parse_all_fuel]; [reflexivity|].
  pose proof (decode_one_no_panic b) as H.
  destruct (decode_one b) as [[i r]|e|s]; cbn in H; try discriminate; [|reflexivity].
  destruct r; [reflexivity|apply IH].
Qed.

Theorem parse_all_no_panic b : is_panic (parse_all b) = false.
Proof. apply parse_all_fuel_no_panic. Qed.

Theorem to_string_no_panic b : is_panic (to_string b) = false.
Proof.
  unfold to_string. apply obind_no_panic; [apply parse_all_no_panic|reflexivity].
Qed.

(* ---- acceptance implies the strict grammar (C15) --------------------------------- *)

Lemma obind_ok {A B} (o : res A) (f : A -> res B) b :
  obind o f = Ok b -> exists a, o = Ok a /\ f a = Ok b.
Proof. destruct o; cbn; try discriminate. eauto. Qed.

Lemma drop_S {A} n (x : A) l : drop (1 + n) (x :: l) = drop n l.
Proof. unfold drop. replace (N.to_nat (1 + n)) with (S (N.to_nat n)) by lia. reflexivity. Qed.

Lemma sym_split_strict b s r : sym_split b = Ok (s, r) -> strict_sym b = Some (s, r).
Proof.
  unfold sym_split. destruct b as [|sz r0]; [cbn; discriminate|].
  pose proof (len_cons sz r0) as Hl.
  destruct (N.eqb_spec (len (sz :: r0)) 0); [lia|].
  rewrite go_index_0. cbn [obind].
  cbn [strict_sym]. destruct (N.eqb_spec sz 0); [discriminate|].
  destruct (N.ltb_spec (len (sz :: r0)) (sz + 1)); [discriminate|].
  rewrite go_slice_ok by lia. rewrite go_slice_from_ok by lia. cbn [obind].
  destruct (N.ltb_spec (len r0) sz); [lia|]. cbn [orb].
  replace (1 + sz - 1) with sz by lia. rewrite drop_S.
  change (drop 1 (sz :: r0)) with r0. congruence.
Qed.

Lemma int_split_strict b n r : int_split b = Ok (n, r) -> strict_int b = Some (n, r).
Proof.
  unfold int_split. destruct b as [|l r0]; [cbn; discriminate|].
  pose proof (len_cons l r0) as Hl.
  destruct (N.eqb_spec (len (l :: r0)) 0); [lia|].
  rewrite go_index_0. cbn [obind]. rewrite go_slice_from_cons1. cbn [obind].
  cbn [strict_int]. destruct (4 <? l); [discriminate|].
  destruct (N.ltb_spec (len r0) l); [discriminate|]. cbn [orb].
  rewrite go_slice_ok by lia. rewrite go_slice_from_ok by lia. cbn [obind].
  rewrite N.sub_0_r, drop_0. congruence.
Qed.

Lemma parse_mode_strict b m r : parse_mode b = Ok (m, r) -> strict_mode b = Some (m, r).
Proof.
  destruct b as [|x r0]; [cbn; discriminate|]. rewrite parse_mode_cons. cbn. congruence.
Qed.

Lemma op_split_shape b op r :
  op_split b = Ok (op, r) -> exists h l, b = h :: l :: r /\ op = h * 256 + l /\ (max_opcode <? op) = false.
Proof.
  unfold op_split. destruct b as [|h [|l r0]]; try (cbn; discriminate).
  pose proof (len_cons h (l :: r0)). pose proof (len_cons l r0).
  destruct (N.ltb_spec (len (h :: l :: r0)) 2); [lia|].
  rewrite go_index_0. cbn [obind]. rewrite go_index_1. cbn [obind].
  destruct (max_opcode <? h * 256 + l) eqn:E; [discriminate|].
  rewrite go_slice_from_ok by lia. cbn [obind]. intros Heq. inversion Heq; subst.
  exists h, l. repeat split; auto.
Qed.

Ltac inv_ok :=
  repeat match goal with
  | H : obind _ _ = Ok _ |- _ => apply obind_ok in H; destruct H as [? [? H]]
  | H : (let '(_, _) := ?x in _) = Ok _ |- _ => destruct x
  | H : Ok _ = Ok _ |- _ => inversion H; subst; clear H
  end.

Ltac decide_tests := repeat match goal with
  | |- context [?a =? ?b] => first [ change (a =? b) with false | change (a =? b) with true ]
  end; cbv iota.

Ltac use_strict :=
  repeat match goal with
  | H : sym_split _ = Ok _ |- _ => apply sym_split_strict in H; rewrite H; clear H
  | H : int_split _ = Ok _ |- _ => apply int_split_strict in H; rewrite H; clear H
  | H : parse_mode _ = Ok _ |- _ => apply parse_mode_strict in H; rewrite H; clear H
  end.

Theorem decode_one_strict b i r : decode_one b = Ok (i, r) -> strict_one b = Some (i, r).
Proof.
  unfold decode_one. intros H. apply obind_ok in H. destruct H as [[op r0] [Hop Hargs]].
  apply op_split_shape in Hop. destruct Hop as [h [l [-> [-> Hmax]]]].
  cbn [strict_one]. rewrite Hmax. unfold parse_args in Hargs.
  set (op := h * 256 + l) in *.
  unfold parse_sym_sig, parse_sig, parse_sym_len, parse_sym, parse_two_sym in Hargs.
  revert Hargs.
  repeat match goal with
  | |- (if op =? ?c then _ else _) = _ -> _ =>
    destruct (N.eqb_spec op c) as [E|E];
    [ intros Hargs; cbv iota in Hargs; rewrite ?E; decide_tests; inv_ok; use_strict; reflexivity
    | clear E; cbv iota ]
  end.
  intros Hargs. inv_ok. reflexivity.
Qed.

Lemma strict_all_of_parse f : forall b acc p,
  parse_all_fuel f b acc = Ok p -> exists q, strict_all_fuel f b = Some q /\ p = rev acc ++ q.
Proof.
  induction f as [|f IH]; intros b acc p H; cbn [parse_all_fuel] in H; [discriminate|].
  destruct (decode_one b) as [[i r]|e|s] eqn:D; try discriminate.
  apply decode_one_strict in D. cbn [strict_all_fuel]. rewrite D.
  destruct r as [|x r'].
  - inversion H; subst. exists [i]. split; [reflexivity|]. reflexivity.
  - apply IH in H. destruct H as [q [Hq ->]]. rewrite Hq. exists (i :: q). split; [reflexivity|].
    cbn [rev]. rewrite <- app_assoc. reflexivity.
Qed.

Theorem accept_only_wellformed_lemma b p : parse_all b = Ok p -> strict_all b = Some p.
Proof.
  unfold parse_all, strict_all. intros H. apply strict_all_of_parse in H.
  destruct H as [q [Hq ->]]. exact Hq.
Qed.

(* what the strict grammar guarantees: it consumed exactly the input *)
Lemma strict_sym_consumes b s r : strict_sym b = Some (s, r) -> exists sz, b = sz :: s ++ r /\ len s = sz /\ sz <> 0.
Proof.
  destruct b as [|sz r0]; cbn [strict_sym]; [discriminate|].
  destruct (N.eqb_spec sz 0); [discriminate|]. destruct (N.ltb_spec (len r0) sz); [discriminate|].
  cbn [orb]. intros Heq. inversion Heq; subst. exists sz. split; [|split; [apply len_take; lia|assumption]].
  unfold take, drop. rewrite firstn_skipn. reflexivity.
Qed.
