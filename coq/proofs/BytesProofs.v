(* BytesProofs.v — lemmas about Bytes.v *)
From Coq Require Import Lia ZArith.
From Coq Require Import ZifyN ZifyNat ZifyBool.
From Vise Require Import Bytes.
Local Open Scope N_scope.

Lemma len_app {A} (a b : list A) : len (a ++ b) = len a + len b.
Proof. unfold len. rewrite app_length. lia. Qed.

Lemma len_cons {A} (x : A) (l : list A) : len (x :: l) = 1 + len l.
Proof. unfold len. cbn [List.length]. lia. Qed.

Lemma len_nil {A} : len (@nil A) = 0.
Proof. reflexivity. Qed.

Lemma take_app_exact {A} (a b : list A) n : n = len a -> take n (a ++ b) = a.
Proof.
  intros ->. unfold take, len. rewrite Nat2N.id.
  rewrite firstn_app, Nat.sub_diag, firstn_O, app_nil_r. apply firstn_all.
Qed.

Lemma drop_app_exact {A} (a b : list A) n : n = len a -> drop n (a ++ b) = b.
Proof.
  intros ->. unfold drop, len. rewrite Nat2N.id.
  rewrite skipn_app, Nat.sub_diag, skipn_O, skipn_all. reflexivity.
Qed.

Lemma drop_0 {A} (l : list A) : drop 0 l = l.
Proof. reflexivity. Qed.

Lemma len_take {A} (l : list A) n : n <= len l -> len (take n l) = n.
Proof. unfold len, take. intros H. rewrite firstn_length. lia. Qed.

Lemma len_drop {A} (l : list A) n : len (drop n l) = len l - n.
Proof. unfold len, drop. rewrite skipn_length. lia. Qed.

Lemma bytes_eqb_refl a : bytes_eqb a a = true.
Proof. induction a as [|x a IH]; cbn; [reflexivity|]. rewrite N.eqb_refl, IH. reflexivity. Qed.

Lemma bytes_eqb_eq a b : bytes_eqb a b = true <-> a = b.
Proof.
  split.
  - revert b. induction a as [|x a IH]; intros [|y b]; cbn; try discriminate; [reflexivity|].
    intros H. apply andb_true_iff in H as [H1 H2]. apply N.eqb_eq in H1. subst. f_equal. auto.
  - intros ->. apply bytes_eqb_refl.
Qed.

Lemma be_length k : forall n, List.length (be k n) = k.
Proof. induction k as [|k IH]; intros n; cbn [be]; [reflexivity|]. rewrite app_length, IH. cbn. lia. Qed.

Lemma len_be k n : len (be k n) = N.of_nat k.
Proof. unfold len. rewrite be_length. reflexivity. Qed.

Lemma be_bytes_ok k : forall n, Forall (fun x => x < 256) (be k n).
Proof.
  induction k as [|k IH]; intros n; cbn [be]; [constructor|].
  apply Forall_app. split; [apply IH|]. constructor; [|constructor].
  apply N.mod_lt. lia.
Qed.

Lemma fold_be k : forall n acc,
  fold_left (fun acc b => acc * 256 + b) (be k n) acc = acc * 256 ^ N.of_nat k + n mod 256 ^ N.of_nat k.
Proof.
  induction k as [|k IH]; intros n acc.
  - cbn. rewrite N.mod_1_r. lia.
  - cbn [be]. rewrite fold_left_app. cbn [fold_left]. rewrite IH.
    rewrite Nat2N.inj_succ, N.pow_succ_r'.
    set (p := 256 ^ N.of_nat k).
    assert (Hp : p <> 0) by (subst p; apply N.pow_nonzero; lia).
    rewrite (N.mod_mul_r n 256 p) by lia. lia.
Qed.

Lemma unbe_be k n : n < 256 ^ N.of_nat k -> unbe (be k n) = n.
Proof. intros H. unfold unbe. rewrite fold_be. rewrite N.mod_small by exact H. lia. Qed.
