(* VmDecodeProofs.v — lemmas for C15 on the VM's own decoding path: Vm.Run (vm/runner.go) as modelled
   by VmModel.run (op_split, parse_args, exec_instr), for ALL resources, machines, byte strings, fuel.
   Written by agent `vmdecode`.  Builds on CodecProofs (decoder facts, strict grammar), SymbolProofs
   (run as an iterated step: run_step / run_S / reaches), FlagProofs (flag frame lemmas, can_fail),
   NavProofs (apply_target).  Deliberately independent of RenderProofs/SafetyProofs (the few cache and
   page_map facts needed are re-proved here).  No model file is touched. *)
From Coq Require Import Lia ZifyN ZifyNat ZifyBool.
From Vise Require Import Bytes Errors Consts EngConsts Codec CacheModel StateModel NavModel NavSpec
  RenderModel VmModel EngineModel BytesProofs CodecProofs CacheProofs NavProofs VmProofs SymbolProofs.
From Vise Require FlagProofs.
Local Open Scope N_scope.

(* ================================================================================== *)
(* Part 1 — the model's op_split + parse_args IS Codec.decode_one                      *)
(* ================================================================================== *)

Lemma decode_one_of_split b op b1 : op_split b = Ok (op, b1) -> decode_one b = parse_args op b1.
Proof. intros H. unfold decode_one. rewrite H. reflexivity. Qed.

Lemma decode_one_of_split_err b e : op_split b = Err e -> decode_one b = Err e.
Proof. intros H. unfold decode_one. rewrite H. reflexivity. Qed.

(* a decoding error is an error of the opcode split or of the per-opcode argument parser *)
Lemma decode_one_err_split b e :
  decode_one b = Err e ->
  op_split b = Err e \/ exists op b1, op_split b = Ok (op, b1) /\ parse_args op b1 = Err e.
Proof.
  intros H. unfold decode_one in H. destruct (op_split b) as [[op b1]|e0|n] eqn:Hop; cbn [obind] in H.
  - right. exists op, b1. auto.
  - left. congruence.
  - discriminate.
Qed.

Lemma decode_one_split b i r :
  decode_one b = Ok (i, r) -> exists op b1, op_split b = Ok (op, b1) /\ parse_args op b1 = Ok (i, r).
Proof.
  unfold decode_one. intros H. apply obind_ok in H. destruct H as [[op r0] [Hop Hargs]]. eauto.
Qed.

Lemma decode_one_ok_split b i r :
  decode_one b = Ok (i, r) <-> exists op b1, op_split b = Ok (op, b1) /\ parse_args op b1 = Ok (i, r).
Proof.
  split.
  - apply decode_one_split.
  - intros (op & b1 & Hop & Hpa). rewrite (decode_one_of_split _ _ _ Hop). exact Hpa.
Qed.

(* whatever the strict reference grammar rejects, the decoder rejects WITH AN ERROR *)
Lemma strict_none_decode_err b : strict_one b = None -> exists e, decode_one b = Err e.
Proof.
  intros Hs. pose proof (decode_one_no_panic b) as Hp.
  destruct (decode_one b) as [[i r]|e|n] eqn:Hd.
  - rewrite (decode_one_strict _ _ _ Hd) in Hs. discriminate.
  - eauto.
  - discriminate.
Qed.

(* the opcode decides the constructor: what `run` tests with op =? op_HALT *)
Lemma parse_args_halt op b i r : parse_args op b = Ok (i, r) -> (op =? op_HALT) = true -> i = IHalt /\ r = b.
Proof.
  intros H E. apply N.eqb_eq in E. subst op.
  change (parse_args op_HALT b) with (@Ok err (instr * bytes) (IHalt, b)) in H. inversion H. auto.
Qed.

(* the argument parser of HALT cannot fail: a decoding error never concerns a HALT *)
Lemma parse_args_err_not_halt op b1 e : parse_args op b1 = Err e -> (op =? op_HALT) = false.
Proof.
  intros H. destruct (op =? op_HALT) eqn:E; [|reflexivity].
  apply N.eqb_eq in E. subst op.
  change (parse_args op_HALT b1) with (@Ok err (instr * bytes) (IHalt, b1)) in H. discriminate.
Qed.

(* the remaining code after the opcode is the input minus its first two bytes *)
Lemma op_split_rest b op b1 : op_split b = Ok (op, b1) -> exists h l, b = h :: l :: b1 /\ op = h * 256 + l.
Proof.
  intros H. destruct (op_split_shape _ _ _ H) as (h & l & Hb & Hop & _). eauto.
Qed.

(* ---- every error of the decoder is the generic error (Go: fmt.Errorf) --------------------- *)
Lemma go_index_not_err b i e : go_index b i <> Err e.
Proof. unfold go_index. destruct (nth_error b (N.to_nat i)); discriminate. Qed.
Lemma go_slice_not_err b lo hi e : go_slice b lo hi <> Err e.
Proof. unfold go_slice. destruct ((hi <? lo) || (len b <? hi)); discriminate. Qed.
Lemma go_slice_from_not_err b lo e : go_slice_from b lo <> Err e.
Proof. unfold go_slice_from. destruct (len b <? lo); discriminate. Qed.

Ltac err_gen :=
  repeat match goal with
  | H : Err _ = Err _ |- _ => injection H as <-; reflexivity
  | H : Ok _ = Err _ |- _ => discriminate H
  | H : Panic _ = Err _ |- _ => discriminate H
  | H : go_index _ _ = Err _ |- _ => exfalso; exact (go_index_not_err _ _ _ H)
  | H : go_slice _ _ _ = Err _ |- _ => exfalso; exact (go_slice_not_err _ _ _ _ H)
  | H : go_slice_from _ _ = Err _ |- _ => exfalso; exact (go_slice_from_not_err _ _ _ H)
  | H : (if ?c then _ else _) = Err _ |- _ => destruct c
  | H : obind ?o _ = Err _ |- _ =>
      let E := fresh "E" in destruct o as [?|?|?] eqn:E; cbn [obind] in H
  | H : (let '(_, _) := ?p in _) = Err _ |- _ => destruct p
  end.

Lemma op_split_err b e : op_split b = Err e -> e = EGen.
Proof. unfold op_split. intros H. err_gen. Qed.
Lemma sym_split_err b e : sym_split b = Err e -> e = EGen.
Proof. unfold sym_split. intros H. err_gen. Qed.
Lemma int_split_err b e : int_split b = Err e -> e = EGen.
Proof. unfold int_split. intros H. err_gen. Qed.
Lemma parse_mode_err b e : parse_mode b = Err e -> e = EGen.
Proof. unfold parse_mode. intros H. err_gen. Qed.

Ltac err_sub :=
  repeat match goal with
  | H : Err _ = Err _ |- _ => inversion H; clear H; subst; try reflexivity
  | H : Ok _ = Err _ |- _ => discriminate H
  | H : Panic _ = Err _ |- _ => discriminate H
  | H : sym_split _ = Err _ |- _ => apply sym_split_err in H; subst
  | H : int_split _ = Err _ |- _ => apply int_split_err in H; subst
  | H : parse_mode _ = Err _ |- _ => apply parse_mode_err in H; subst
  | H : obind ?o _ = Err _ |- _ =>
      let E := fresh "E" in destruct o as [?|?|?] eqn:E; cbn [obind] in H
  | H : (let '(_, _) := ?p in _) = Err _ |- _ => destruct p
  end.

Lemma parse_args_err op b e : parse_args op b = Err e -> e = EGen.
Proof.
  unfold parse_args, parse_sym_sig, parse_sig, parse_sym_len, parse_sym, parse_two_sym. intros H.
  repeat match type of H with (if ?c then _ else _) = _ => destruct c end; err_sub; reflexivity.
Qed.

Lemma decode_one_err b e : decode_one b = Err e -> e = EGen.
Proof.
  intros H. destruct (decode_one_err_split _ _ H) as [Ho|(op & b1 & _ & Hp)].
  - eapply op_split_err; exact Ho.
  - eapply parse_args_err; exact Hp.
Qed.

(* ================================================================================== *)
(* Part 2 — one iteration of the loop on bytes that do not decode                      *)
(* ================================================================================== *)

(* runErrCheck turns an error into "MOVE _catch" when LOADFAIL is set and the machine is not at
   _catch: the only way an error of a handler (also a PARSE error of its arguments) does not
   surface.  LOADFAIL and the position are not touched by the loop's preamble. *)
Definition diverts (v : vmst) : bool :=
  getf (v_st v) FLAG_LOADFAIL && negb (bytes_eqb (where_sym (v_st v)) catch_sym).

Ltac flag_ne := let H := fresh in intro H; vm_compute in H; discriminate H.

Lemma prelude_is_pre_vm v : run_prelude v = FlagProofs.pre_vm v.
Proof. reflexivity. Qed.

Lemma prelude_flag_other v i :
  i <> FLAG_LANG -> i <> FLAG_WAIT -> i <> FLAG_INMATCH -> i <> FLAG_DIRTY ->
  getf (v_st (run_prelude v)) i = getf (v_st v) i.
Proof.
  intros H1 H2 H3 H4. rewrite prelude_is_pre_vm, FlagProofs.v_st_pre_vm.
  apply FlagProofs.getf_pre_st_other; assumption.
Qed.

Lemma prelude_where v : where_sym (v_st (run_prelude v)) = where_sym (v_st v).
Proof. unfold where_sym. rewrite prelude_path. reflexivity. Qed.

Lemma diverts_prelude v m : diverts (set_page_err (run_prelude v) m) = diverts v.
Proof.
  unfold diverts. rewrite FlagProofs.set_page_err_st, prelude_where.
  rewrite prelude_flag_other by flag_ne. reflexivity.
Qed.

Lemma move_catch_cons : exists a b t, move_catch_code = a :: b :: t.
Proof. unfold move_catch_code. apply encode_shape. Qed.

(* the opcode does not split: the run ends at once, after the preamble, with that error *)
Lemma run_step_op_err rs sep lang b v e :
  getf (v_st v) FLAG_TERMINATE = false -> op_split b = Err e ->
  run_step rs sep lang b v = Done (run_prelude v, b, SErr e None).
Proof. intros Ht Ho. unfold run_step. rewrite Ht, Ho. reflexivity. Qed.

(* the arguments do not parse: no instruction is executed; the error becomes the page's error
   (text not modelled: taint), and surfaces unless runErrCheck diverts it *)
Lemma run_step_args_err rs sep lang b v op b1 e :
  getf (v_st v) FLAG_TERMINATE = false -> op_split b = Ok (op, b1) -> parse_args op b1 = Err e ->
  run_step rs sep lang b v =
    if diverts v
    then Next (eff_lang lang (v_st v)) move_catch_code (set_page_err (run_prelude v) None)
    else Done (set_page_err (run_prelude v) None, b1, SErr EGen None).
Proof.
  intros Ht Ho Hp. pose proof (parse_args_err_not_halt _ _ _ Hp) as Hh.
  unfold run_step, step_exec. rewrite Ht, Ho, Hp, Hh. unfold err_check.
  fold (diverts (set_page_err (run_prelude v) None)). rewrite diverts_prelude.
  destruct (diverts v); [|reflexivity].
  destruct move_catch_cons as (a & c & t & He). rewrite He. reflexivity.
Qed.

(* ---- what the loop's preamble (flags reset BEFORE the opcode is parsed) does ------------- *)
Lemma prelude_idx v : s_idx (v_st (run_prelude v)) = s_idx (v_st v).
Proof. unfold run_prelude. cbv zeta. destruct (getf _ FLAG_WAIT); reflexivity. Qed.
Lemma prelude_code v : s_code (v_st (run_prelude v)) = s_code (v_st v).
Proof. unfold run_prelude. cbv zeta. destruct (getf _ FLAG_WAIT); reflexivity. Qed.
Lemma prelude_w v : v_w (run_prelude v) = v_w v.
Proof. reflexivity. Qed.
Lemma prelude_taint v : v_taint (run_prelude v) = v_taint v.
Proof. reflexivity. Qed.

Lemma prelude_lang_clear v : getf (v_st (run_prelude v)) FLAG_LANG = false.
Proof.
  unfold run_prelude. cbv zeta. cbn [v_st vset_pg vset_st].
  rewrite getf_setf_other by flag_ne.
  destruct (getf (resetf (v_st v) FLAG_LANG) FLAG_WAIT);
    repeat (rewrite getf_resetf_other by flag_ne); apply FlagProofs.getf_resetf_same.
Qed.
Lemma prelude_wait_clear v : getf (v_st (run_prelude v)) FLAG_WAIT = false.
Proof.
  unfold run_prelude. cbv zeta. cbn [v_st vset_pg vset_st].
  rewrite getf_setf_other by flag_ne.
  destruct (getf (resetf (v_st v) FLAG_LANG) FLAG_WAIT);
    repeat (rewrite getf_resetf_other by flag_ne); apply FlagProofs.getf_resetf_same.
Qed.
Lemma prelude_inmatch v :
  getf (v_st (run_prelude v)) FLAG_INMATCH = if getf (v_st v) FLAG_WAIT then false else getf (v_st v) FLAG_INMATCH.
Proof.
  unfold run_prelude. cbv zeta. cbn [v_st vset_pg vset_st].
  rewrite getf_setf_other by flag_ne.
  rewrite (getf_resetf_other (v_st v) FLAG_WAIT FLAG_LANG) by flag_ne.
  destruct (getf (v_st v) FLAG_WAIT).
  - apply FlagProofs.getf_resetf_same.
  - repeat (rewrite getf_resetf_other by flag_ne). reflexivity.
Qed.
Lemma prelude_dirty v : flag_in_range (v_st v) FLAG_DIRTY = true -> getf (v_st (run_prelude v)) FLAG_DIRTY = true.
Proof.
  intros Hr. rewrite prelude_is_pre_vm, FlagProofs.v_st_pre_vm. unfold FlagProofs.pre_st. cbv zeta.
  apply FlagProofs.getf_setf_same.
  destruct (getf (resetf (v_st v) FLAG_LANG) FLAG_WAIT);
    repeat rewrite FlagProofs.flag_in_range_resetf; exact Hr.
Qed.

(* the machine differs from v by the preamble only (and possibly the page's error / taint):
   no event logged, no function called, cache and position as before; of the flags only
   LANG, WAIT (cleared), INMATCH (cleared iff WAIT was set) and DIRTY (set) are touched *)
Definition only_prelude (v v' : vmst) : Prop :=
  v_log v' = v_log v /\ v_w v' = v_w v /\ v_ca v' = v_ca v
  /\ s_path (v_st v') = s_path (v_st v) /\ s_idx (v_st v') = s_idx (v_st v)
  /\ s_input (v_st v') = s_input (v_st v) /\ s_lang (v_st v') = s_lang (v_st v)
  /\ s_code (v_st v') = s_code (v_st v)
  /\ (forall f, f <> FLAG_LANG -> f <> FLAG_WAIT -> f <> FLAG_INMATCH -> f <> FLAG_DIRTY ->
        getf (v_st v') f = getf (v_st v) f)
  /\ getf (v_st v') FLAG_LANG = false /\ getf (v_st v') FLAG_WAIT = false
  /\ getf (v_st v') FLAG_INMATCH = (if getf (v_st v) FLAG_WAIT then false else getf (v_st v) FLAG_INMATCH)
  /\ (flag_in_range (v_st v) FLAG_DIRTY = true -> getf (v_st v') FLAG_DIRTY = true).

Lemma only_prelude_prelude v : only_prelude v (run_prelude v).
Proof.
  unfold only_prelude.
  split; [apply prelude_log|]. split; [apply prelude_w|]. split; [apply prelude_ca|].
  split; [apply prelude_path|]. split; [apply prelude_idx|]. split; [apply prelude_input|].
  split; [apply prelude_lang|]. split; [apply prelude_code|].
  split; [intros f H1 H2 H3 H4; apply prelude_flag_other; assumption|].
  split; [apply prelude_lang_clear|]. split; [apply prelude_wait_clear|].
  split; [apply prelude_inmatch|apply prelude_dirty].
Qed.

Lemma only_prelude_page_err v v' m : only_prelude v v' -> only_prelude v (set_page_err v' m).
Proof.
  unfold only_prelude. rewrite FlagProofs.set_page_err_st, FlagProofs.set_page_err_ca.
  destruct m; cbn [set_page_err v_log v_w vset_pg vtaint]; exact (fun H => H).
Qed.

(* the named decidable guard of (a): the decoding error surfaces.  False exactly when the opcode
   splits, LOADFAIL is set and the machine is not at _catch (class K-C15-loadfail) *)
Definition decode_error_surfaces (v : vmst) (code : bytes) : bool :=
  match op_split code with Ok _ => negb (diverts v) | _ => true end.

(* (a) *)
Theorem run_rejects_malformed_next fuel rs sep lang code v e :
  getf (v_st v) FLAG_TERMINATE = false ->
  decode_one code = Err e ->
  decode_error_surfaces v code = true ->
  exists v' rest,
    run (S fuel) rs sep lang code v = (v', rest, SErr EGen None)
    /\ only_prelude v v'
    /\ ((op_split code = Err EGen /\ rest = code /\ v' = run_prelude v)
        \/ (exists op, op_split code = Ok (op, rest) /\ parse_args op rest = Err EGen
            /\ v' = set_page_err (run_prelude v) None)).
Proof.
  intros Ht Hd Hg. pose proof (decode_one_err _ _ Hd) as ->. rewrite run_S.
  destruct (decode_one_err_split _ _ Hd) as [Ho|(op & b1 & Ho & Hp)].
  - rewrite (run_step_op_err _ _ _ _ _ _ Ht Ho).
    exists (run_prelude v), code. split; [reflexivity|]. split; [apply only_prelude_prelude|].
    left. auto.
  - rewrite (run_step_args_err _ _ _ _ _ _ _ _ Ht Ho Hp).
    unfold decode_error_surfaces in Hg. rewrite Ho in Hg.
    destruct (diverts v); [discriminate Hg|].
    exists (set_page_err (run_prelude v) None), b1. split; [reflexivity|].
    split; [apply only_prelude_page_err, only_prelude_prelude|].
    right. exists op. auto.
Qed.

(* the same for whatever the strict grammar rejects *)
Corollary run_rejects_nonstrict_next fuel rs sep lang code v :
  getf (v_st v) FLAG_TERMINATE = false ->
  strict_one code = None ->
  decode_error_surfaces v code = true ->
  exists v' rest, run (S fuel) rs sep lang code v = (v', rest, SErr EGen None) /\ only_prelude v v'.
Proof.
  intros Ht Hs Hg. destruct (strict_none_decode_err _ Hs) as [e Hd].
  destruct (run_rejects_malformed_next fuel rs sep lang code v e Ht Hd Hg) as (v' & rest & H1 & H2 & _).
  eauto.
Qed.

(* outside the guard: the malformed instruction is DROPPED, the run goes on with "MOVE _catch" *)
Theorem run_malformed_diverted fuel rs sep lang code v op b1 e :
  getf (v_st v) FLAG_TERMINATE = false ->
  op_split code = Ok (op, b1) -> parse_args op b1 = Err e ->
  diverts v = true ->
  run (S fuel) rs sep lang code v
  = run fuel rs sep (eff_lang lang (v_st v)) move_catch_code (set_page_err (run_prelude v) None).
Proof.
  intros Ht Ho Hp Hdv. rewrite run_S, (run_step_args_err _ _ _ _ _ _ _ _ Ht Ho Hp), Hdv. reflexivity.
Qed.

(* ================================================================================== *)
(* Part 3 — a run only steps over complete, valid instructions                          *)
(* ================================================================================== *)

(* the next instruction decodes, by the decoder and by the independent strict grammar; the
   undefined-but-in-range opcode 0 (NOOP: Run's "Unhandled state" error) is stepped over only
   when runErrCheck diverts its error *)
Definition next_decodes (v : vmst) (b : bytes) : Prop :=
  exists i r, decode_one b = Ok (i, r) /\ strict_one b = Some (i, r) /\ (i = INoop -> diverts v = true).

(* the step from (lang, b, v) to (l1, b1, v1) dropped an instruction whose ARGUMENTS do not parse *)
Definition malformed_diverted (lang : option bytes) (b : bytes) (v : vmst)
                              (l1 : option bytes) (b1 : bytes) (v1 : vmst) : Prop :=
  exists op b', op_split b = Ok (op, b') /\ parse_args op b' = Err EGen /\ diverts v = true
    /\ l1 = eff_lang lang (v_st v) /\ b1 = move_catch_code /\ v1 = set_page_err (run_prelude v) None.

Lemma diverts_st v v' : v_st v' = v_st v -> diverts v' = diverts v.
Proof. intros H. unfold diverts. rewrite H. reflexivity. Qed.

Lemma diverts_prelude0 v : diverts (run_prelude v) = diverts v.
Proof.
  unfold diverts. rewrite prelude_where. rewrite prelude_flag_other by flag_ne. reflexivity.
Qed.

Lemma run_step_terminated rs sep lang b v :
  getf (v_st v) FLAG_TERMINATE = true -> run_step rs sep lang b v = Done (v, [], SOk).
Proof. intros Ht. unfold run_step. rewrite Ht. reflexivity. Qed.

Lemma run_step_noop rs sep lang b v r :
  getf (v_st v) FLAG_TERMINATE = false -> decode_one b = Ok (INoop, r) ->
  exists v1, v_st v1 = v_st (run_prelude v) /\
    run_step rs sep lang b v =
      if diverts v then Next (eff_lang lang (v_st v)) move_catch_code v1
      else Done (v1, r, SErr EGen None).
Proof.
  intros Ht Hd. destruct (decode_one_split _ _ _ Hd) as (op & b1 & Ho & Hp).
  assert (Hh : (op =? op_HALT) = false).
  { destruct (op =? op_HALT) eqn:E; [|reflexivity].
    destruct (parse_args_halt _ _ _ _ Hp E) as [Hi _]. discriminate Hi. }
  exists (set_page_err (vlog (run_prelude v) (EvInstr op)) None). split; [reflexivity|].
  unfold run_step, step_exec. rewrite Ht, Ho, Hp, Hh. cbn [exec_instr]. unfold err_check.
  fold (diverts (set_page_err (vlog (run_prelude v) (EvInstr op)) None)).
  rewrite (diverts_st (run_prelude v) (set_page_err (vlog (run_prelude v) (EvInstr op)) None) eq_refl).
  rewrite diverts_prelude0.
  destruct (diverts v); [|reflexivity].
  destruct move_catch_cons as (a & c & t & He). rewrite He. reflexivity.
Qed.

Lemma step_next_decodes rs sep lang b v l1 b1 v1 :
  run_step rs sep lang b v = Next l1 b1 v1 ->
  next_decodes v b \/ malformed_diverted lang b v l1 b1 v1.
Proof.
  intros Hs. destruct (getf (v_st v) FLAG_TERMINATE) eqn:Ht.
  { rewrite (run_step_terminated _ _ _ _ _ Ht) in Hs. discriminate Hs. }
  pose proof (decode_one_no_panic b) as Hnp.
  destruct (decode_one b) as [[i r]|e|n] eqn:Hd; [| |discriminate Hnp].
  - left. exists i, r. split; [exact Hd|]. split; [apply decode_one_strict; exact Hd|].
    intros ->. destruct (run_step_noop rs sep lang b v r Ht Hd) as (vx & _ & E).
    rewrite E in Hs. destruct (diverts v); [reflexivity|discriminate Hs].
  - pose proof (decode_one_err _ _ Hd) as ->.
    destruct (decode_one_err_split _ _ Hd) as [Ho|(op & b' & Ho & Hp)].
    + rewrite (run_step_op_err _ _ _ _ _ _ Ht Ho) in Hs. discriminate Hs.
    + rewrite (run_step_args_err _ _ _ _ _ _ _ _ Ht Ho Hp) in Hs.
      destruct (diverts v) eqn:Hdv; [|discriminate Hs].
      injection Hs as <- <- <-. right. exists op, b'. auto 7.
Qed.

Lemma step_done_ok_decodes rs sep lang b v v' rest :
  run_step rs sep lang b v = Done (v', rest, SOk) ->
  (getf (v_st v) FLAG_TERMINATE = true /\ v' = v /\ rest = [])
  \/ (getf (v_st v) FLAG_TERMINATE = false /\
      exists i r, decode_one b = Ok (i, r) /\ strict_one b = Some (i, r) /\ i <> INoop).
Proof.
  intros Hs. destruct (getf (v_st v) FLAG_TERMINATE) eqn:Ht.
  { rewrite (run_step_terminated _ _ _ _ _ Ht) in Hs. injection Hs as <- <-. left. auto. }
  right. split; [reflexivity|].
  pose proof (decode_one_no_panic b) as Hnp.
  destruct (decode_one b) as [[i r]|e|n] eqn:Hd; [| |discriminate Hnp].
  - exists i, r. split; [reflexivity|]. split; [apply decode_one_strict; exact Hd|].
    intros ->. destruct (run_step_noop rs sep lang b v r Ht Hd) as (vx & _ & E).
    rewrite E in Hs. destruct (diverts v); discriminate Hs.
  - exfalso. pose proof (decode_one_err _ _ Hd) as ->.
    destruct (decode_one_err_split _ _ Hd) as [Ho|(op & b' & Ho & Hp)].
    + rewrite (run_step_op_err _ _ _ _ _ _ Ht Ho) in Hs. discriminate Hs.
    + rewrite (run_step_args_err _ _ _ _ _ _ _ _ Ht Ho Hp) in Hs.
      destruct (diverts v); discriminate Hs.
Qed.

(* reaches is deterministic: a configuration that ends the run is the last one *)
Lemma reaches_done_last rs sep lang b v r c :
  run_step rs sep lang b v = Done r -> reaches rs sep (lang, b, v) c -> c = (lang, b, v).
Proof.
  intros Hd Hr. inversion Hr as [c0|lang0 b0 v0 l1 b1 v1 c0 Hs Hr']; subst; [reflexivity|].
  rewrite Hd in Hs. discriminate Hs.
Qed.

(* (b), full truth: a run that reports success passed only through configurations whose next
   instruction decodes (strictly), or whose malformed instruction was diverted (K-C15-loadfail);
   the last one may instead have TERMINATE set (its pending code is dropped unread) *)
Theorem run_ok_steps_decodable rs sep : forall fuel lang code v v' rest,
  run fuel rs sep lang code v = (v', rest, SOk) ->
  forall l1 b1 v1, reaches rs sep (lang, code, v) (l1, b1, v1) ->
    (getf (v_st v1) FLAG_TERMINATE = true /\ v' = v1 /\ rest = [])
    \/ next_decodes v1 b1
    \/ (exists l2 b2 v2, run_step rs sep l1 b1 v1 = Next l2 b2 v2 /\ malformed_diverted l1 b1 v1 l2 b2 v2).
Proof.
  induction fuel as [|fuel IH]; intros lang code v v' rest H l1 b1 v1 Hr.
  - cbn [run] in H. discriminate H.
  - rewrite run_S in H. destruct (run_step rs sep lang code v) as [r|l b' v2] eqn:Hs.
    + subst r. pose proof (reaches_done_last _ _ _ _ _ _ _ Hs Hr) as E. injection E as -> -> ->.
      destruct (step_done_ok_decodes _ _ _ _ _ _ _ Hs) as [(Ht & -> & ->)|(_ & i & r & Hd & Hst & Hn)].
      * left. auto.
      * right. left. exists i, r. split; [exact Hd|]. split; [exact Hst|]. intros ->. contradiction.
    + inversion Hr as [c0|lang0 b0 v0 l3 b3 v3 c0 Hs' Hr']; subst.
      * destruct (step_next_decodes _ _ _ _ _ _ _ _ Hs) as [Hn|Hm].
        -- right. left. exact Hn.
        -- right. right. exists l, b', v2. auto.
      * rewrite Hs in Hs'. injection Hs' as <- <- <-. eapply IH; eassumption.
Qed.

(* ---- the guard that excludes the diversion ------------------------------------------------ *)
(* no function of the resource can fail and LOADFAIL is clear: LOADFAIL stays clear *)
Definition loadfail_free (rs : rsrc) (v : vmst) : Prop :=
  ~ FlagProofs.can_fail rs /\ getf (v_st v) FLAG_LOADFAIL = false.

(* decidable form for applications *)
Definition loadfail_free_b (a : app) (v : vmst) : bool :=
  negb (existsb (fun f => existsb fr_fail (snd f)) (a_funcs a)) && negb (getf (v_st v) FLAG_LOADFAIL).
Lemma loadfail_free_b_sound a v : loadfail_free_b a v = true -> loadfail_free (app_rsrc a) v.
Proof.
  unfold loadfail_free_b, loadfail_free. intros H. apply andb_prop in H. destruct H as [H1 H2].
  split.
  - apply FlagProofs.no_fail_app. destruct (existsb _ (a_funcs a)); [discriminate H1|reflexivity].
  - destruct (getf (v_st v) FLAG_LOADFAIL); [discriminate H2|reflexivity].
Qed.
Lemma loadfail_free_nofunc rs v :
  (forall sym, rs_func rs sym = None) -> getf (v_st v) FLAG_LOADFAIL = false -> loadfail_free rs v.
Proof.
  intros Hn Hl. split; [|exact Hl]. intros (sym & script & fr & Hf & _). rewrite Hn in Hf. discriminate Hf.
Qed.

(* one hand-over is a run of fuel 1 that stops for lack of fuel: run-level frame lemmas apply to steps *)
Lemma step_next_run1 rs sep lang b v l1 b1 v1 :
  run_step rs sep lang b v = Next l1 b1 v1 -> run 1 rs sep lang b v = (v1, b1, SFuel).
Proof. intros Hs. rewrite run_S, Hs. reflexivity. Qed.

Lemma loadfail_free_reaches rs sep lang b v l1 b1 v1 :
  loadfail_free rs v -> reaches rs sep (lang, b, v) (l1, b1, v1) -> loadfail_free rs v1.
Proof.
  intros Hlf Hr.
  refine (reaches_invariant rs sep (fun _ _ x => loadfail_free rs x) _ lang b v l1 b1 v1 Hlf Hr).
  intros la ba va lb bb vb [Hnf Hl] Hs. split; [exact Hnf|].
  eapply (FlagProofs.run_keeps_loadfail rs Hnf); [eapply step_next_run1; exact Hs|exact Hl].
Qed.

Lemma loadfail_free_no_divert rs v : loadfail_free rs v -> diverts v = false.
Proof. intros [_ Hl]. unfold diverts. rewrite Hl. reflexivity. Qed.

(* under loadfail_free the guard of (a) holds for every code *)
Lemma loadfail_free_surfaces rs v code : loadfail_free rs v -> decode_error_surfaces v code = true.
Proof.
  intros Hlf. unfold decode_error_surfaces. rewrite (loadfail_free_no_divert _ _ Hlf).
  destruct (op_split code) as [[op b1]| |]; reflexivity.
Qed.

(* (b) under the guard: every configuration of a successful run has a strictly decodable, handled
   next instruction — except that the last one may have TERMINATE set *)
Theorem run_ok_only_on_decodable_partial rs sep fuel lang code v v' rest :
  loadfail_free rs v ->
  run fuel rs sep lang code v = (v', rest, SOk) ->
  forall l1 b1 v1, reaches rs sep (lang, code, v) (l1, b1, v1) ->
    (getf (v_st v1) FLAG_TERMINATE = true /\ v' = v1 /\ rest = [])
    \/ (exists i r, decode_one b1 = Ok (i, r) /\ strict_one b1 = Some (i, r) /\ i <> INoop).
Proof.
  intros Hlf H l1 b1 v1 Hr.
  pose proof (loadfail_free_no_divert _ _ (loadfail_free_reaches _ _ _ _ _ _ _ _ Hlf Hr)) as Hnd.
  destruct (run_ok_steps_decodable rs sep fuel lang code v v' rest H l1 b1 v1 Hr)
    as [Ht|[(i & r & Hd & Hs & Hn)|(l2 & b2 & v2 & _ & (op & b' & _ & _ & Hdv & _))]].
  - left. exact Ht.
  - right. exists i, r. split; [exact Hd|]. split; [exact Hs|]. intros E. specialize (Hn E). congruence.
  - congruence.
Qed.

(* ================================================================================== *)
(* Part 4 — panics: never from decoding; only the flag-range sites 20/21/22             *)
(* ================================================================================== *)

(* Panic sites of the model reachable from `run`, and why each can or cannot be raised:
     1, 2, 3   Codec.go_index / go_slice / go_slice_from (index / slice out of range in the decoder):
               never (CodecProofs.op_split_no_panic, parse_args_no_panic) — for ANY bytes;
     10        CacheModel.cache_add on a cache without frames (Go: index -1): excluded by the
               invariant c_frames <> [] (every cache made by NewCache has one frame; kept by the loop);
     11        CacheModel.cache_keys: not called by run (renderer only);
     20        StateModel.get_flag (State.GetFlag via MatchFlag): CATCH / CROAK whose flag is outside the
               flag field — raised while EXECUTING a complete instruction;
     21, 22    StateModel.set_flag / reset_flag: a function result's FlagSet / FlagReset outside the field;
     23, 24    StateModel.st_down (State.Down): guarded by applyTarget (NavProofs.apply_never_panics);
     rs_code   a code getter that itself panics: excluded by code_total. *)

(* ---- small cache / page facts (independent of RenderProofs) -------------------------------- *)
Lemma cache_get_np ca k : is_panic (cache_get ca k) = false.
Proof. unfold cache_get. destruct (frame_of ca k); reflexivity. Qed.
Lemma cache_reserved_np c k : is_panic (cache_reserved c k) = false.
Proof. unfold cache_reserved. destruct (alookup k (c_sizes c)); reflexivity. Qed.
Lemma page_map_np c pg key : is_panic (page_map c pg key) = false.
Proof.
  unfold page_map. pose proof (cache_get_np c key) as Hg.
  destruct (cache_get c key); cbn [obind]; try reflexivity; [|discriminate Hg].
  pose proof (cache_reserved_np c key) as Hr.
  destruct (cache_reserved c key); cbn [obind]; try reflexivity; [|discriminate Hr].
  match goal with |- context [if ?c then _ else _] => destruct c end; reflexivity.
Qed.

Lemma update_nth_ne {A} n (g : A -> A) l : l <> [] -> update_nth n g l <> [].
Proof. destruct l as [|x l]; [congruence|]. intros _. destruct n; cbn [update_nth]; discriminate. Qed.

Lemma cache_add_frames ca k v l :
  c_frames ca <> [] ->
  match cache_add ca k v l with Ok ca' => c_frames ca' <> [] | Err _ => True | Panic _ => False end.
Proof.
  intros Hne. unfold cache_add.
  destruct ((0 <? l) && (l <? len v)); [exact I|].
  destruct (frame_of ca k) as [i|]; [destruct (i =? top_index ca); exact I|].
  destruct ((0 <? len v) && ((if 0 <? len v then check_capacity (c_size ca) (c_use ca) v else 0) =? 0)); [exact I|].
  destruct (c_frames ca) as [|f fs] eqn:E; [contradiction|].
  cbn [c_frames]. apply update_nth_ne. discriminate.
Qed.

Lemma cache_update_frames ca k v : c_frames ca <> [] -> c_frames (fst (cache_update_raw ca k v)) <> [].
Proof.
  intros Hne. unfold cache_update_raw.
  destruct ((0 <? match alookup k (c_sizes ca) with Some l => l | None => 0 end) && _); [exact Hne|].
  destruct (frame_of ca k) as [i|]; [|exact Hne].
  match goal with |- context [if ?c then _ else _] => destruct c end; cbn [fst c_frames];
    repeat apply update_nth_ne; exact Hne.
Qed.

Lemma cache_reset_frames ca : c_frames ca <> [] -> c_frames (cache_reset ca) <> [].
Proof. intros H. unfold cache_reset. destruct (c_frames ca) eqn:E; [contradiction|]. cbn [c_frames]. discriminate. Qed.

Lemma apply_frames t st ca st' ca' sym s :
  c_frames ca <> [] -> apply_target t st ca = (st', ca', sym, s) -> c_frames ca' <> [].
Proof.
  intros Hne H.
  assert (Hcase : s = SOk \/ s <> SOk) by (destruct s; [left; reflexivity|right; discriminate ..]).
  destruct Hcase as [->|Hs].
  - destruct (apply_ok_exact _ _ _ _ _ _ Hne H) as (_ & _ & _ & ->).
    destruct (valid_sym_b t); [|apply pops_ne; exact Hne].
    unfold cache_push. cbn [c_frames]. destruct (c_frames ca); discriminate.
  - destruct (apply_fail_unchanged _ _ _ _ _ _ _ Hne H Hs) as [_ ->]. exact Hne.
Qed.

Lemma apply_np t st ca st' ca' sym n : apply_target t st ca <> (st', ca', sym, SPanic n).
Proof. intros H. pose proof (apply_never_panics t st ca) as Hp. rewrite H in Hp. discriminate Hp. Qed.

(* ---- flags of function results ----------------------------------------------------------------- *)
(* every writeable flag of the list is inside the flag field *)
Definition fl_okb (st : state) (fl : list N) : bool :=
  forallb (fun f => negb (is_writeable_flag f) || flag_in_range st f) fl.
Definition fres_flags_okb (st : state) (fr : fres) : bool := fl_okb st (fr_reset fr) && fl_okb st (fr_set fr).

Lemma fl_okb_ext st st' fl : (forall i, flag_in_range st' i = flag_in_range st i) -> fl_okb st' fl = fl_okb st fl.
Proof.
  intros He. unfold fl_okb. induction fl as [|f fl IH]; [reflexivity|].
  cbn [forallb]. rewrite He, IH. reflexivity.
Qed.

Lemma forallb_false_ex {A} (p : A -> bool) l : forallb p l = false -> exists x, In x l /\ p x = false.
Proof.
  induction l as [|x l IH]; cbn [forallb]; [discriminate|].
  destruct (p x) eqn:E; cbn [andb]; intros H.
  - destruct (IH H) as (y & Hy & Hp). exists y. split; [right; exact Hy|exact Hp].
  - exists x. split; [left; reflexivity|exact E].
Qed.

Lemma apply_flags_panic set fl st n :
  apply_flags set fl st = Panic n -> n = (if set then 21 else 22) /\ fl_okb st fl = false.
Proof.
  intros H. destruct (fl_okb st fl) eqn:E.
  - exfalso. destruct (FlagProofs.apply_flags_applied fl set st) as (st' & Ha & _).
    + intros f Hin Hw. unfold fl_okb in E. rewrite forallb_forall in E. specialize (E f Hin).
      rewrite Hw in E. exact E.
    + congruence.
  - split; [|reflexivity]. unfold fl_okb in E. destruct (forallb_false_ex _ _ E) as (f & Hin & Hp).
    apply Bool.orb_false_iff in Hp. destruct Hp as [Hw Hr]. apply Bool.negb_false_iff in Hw.
    rewrite (FlagProofs.apply_flags_out_of_range fl set st) in H by (exists f; auto).
    injection H as <-. reflexivity.
Qed.

Lemma refresh_panic rs lang key v v' c n :
  refresh rs lang key v = (v', c, SPanic n) ->
  (n = 21 \/ n = 22) /\
  exists script fr, rs_func rs key = Some script /\ In fr script /\ fres_flags_okb (v_st v) fr = false.
Proof.
  intros H. unfold refresh in H.
  destruct (rs_func rs key) as [script|] eqn:Hf; [|discriminate H].
  destruct (nth_fres script _) as [fr|] eqn:Hn; [|discriminate H].
  pose proof (FlagProofs.nth_fres_In _ _ _ Hn) as Hin.
  destruct (fr_fail fr); [discriminate H|].
  cbn [v_st vlog vset_w] in H.
  destruct (apply_flags false (fr_reset fr) (v_st v)) as [st1|e1|n1] eqn:H1.
  - destruct (apply_flags true (fr_set fr) st1) as [st2|e2|n2] eqn:H2; try discriminate H.
    injection H as _ _ ->. destruct (apply_flags_panic _ _ _ _ H2) as [-> Hk].
    split; [left; reflexivity|]. exists script, fr. split; [reflexivity|]. split; [exact Hin|].
    unfold fres_flags_okb.
    rewrite <- (fl_okb_ext (v_st v) st1 (fr_set fr)) by (intros i; apply FlagProofs.shape_range, (FlagProofs.apply_flags_shape _ _ _ _ H1)).
    rewrite Hk. apply Bool.andb_false_r.
  - discriminate H.
  - injection H as _ _ ->. destruct (apply_flags_panic _ _ _ _ H1) as [-> Hk].
    split; [right; reflexivity|]. exists script, fr. split; [reflexivity|]. split; [exact Hin|].
    unfold fres_flags_okb. rewrite Hk. reflexivity.
Qed.

(* ---- one decoded instruction ------------------------------------------------------------------ *)
(* the decidable per-instruction guard: the flag named by CATCH / CROAK is inside the flag field *)
Definition instr_flags_okb (st : state) (i : instr) : bool :=
  match i with ICatch _ f _ | ICroak f _ => flag_in_range st f | _ => true end.

(* the code getter of the resource does not itself panic *)
Definition code_total (rs : rsrc) : Prop := forall sym, is_panic (rs_code rs sym) = false.

(* why a handler panicked *)
Definition panic_cause (rs : rsrc) (st : state) (i : instr) (n : N) : Prop :=
  (n = 20 /\ instr_flags_okb st i = false)
  \/ ((n = 21 \/ n = 22) /\
      exists key script fr, rs_func rs key = Some script /\ In fr script /\ fres_flags_okb st fr = false).

Lemma fetch_code_np rs sym v v' n : code_total rs -> fetch_code rs sym v <> (v', Panic n).
Proof.
  intros Hc H. unfold fetch_code in H. injection H as _ H. pose proof (Hc sym) as Hp. rewrite H in Hp. discriminate Hp.
Qed.

Lemma exec_instr_panic rs sep lang i b v v' b' n :
  c_frames (v_ca v) <> [] -> code_total rs ->
  exec_instr rs sep lang i b v = (v', b', SPanic n) -> panic_cause rs (v_st v) i n.
Proof.
  intros Hne Hct H. unfold panic_cause. destruct i; cbn [exec_instr] in H; try discriminate H.
  - (* CATCH *) unfold run_catch in H. destruct (flag_in_range (v_st v) sig) eqn:Hr.
    + rewrite (FlagProofs.match_flag_in_range _ _ _ Hr) in H.
      destruct (Bool.eqb mode (getf (v_st v) sig)); [|discriminate H].
      destruct (apply_target sym (v_st v) (v_ca v)) as [[[st' ca'] nsym] s1] eqn:Ha.
      destruct s1 as [|e m|k|]; try discriminate H; [|exfalso; eapply apply_np; exact Ha].
      destruct (fetch_code rs nsym _) as [v2 c] eqn:Hf.
      destruct c as [code|e|k]; try discriminate H. exfalso. eapply fetch_code_np; eassumption.
    + rewrite (FlagProofs.match_flag_out_of_range _ _ _ Hr) in H. injection H as _ _ <-.
      left. split; [reflexivity|exact Hr].
  - (* CROAK *) unfold run_croak in H. destruct (flag_in_range (v_st v) sig) eqn:Hr.
    + rewrite (FlagProofs.match_flag_in_range _ _ _ Hr) in H.
      destruct (Bool.eqb mode (getf (v_st v) sig)); discriminate H.
    + rewrite (FlagProofs.match_flag_out_of_range _ _ _ Hr) in H. injection H as _ _ <-.
      left. split; [reflexivity|exact Hr].
  - (* LOAD *) unfold run_load in H. pose proof (cache_get_np (v_ca v) sym) as Hg.
    destruct (cache_get (v_ca v) sym); [discriminate H| |discriminate Hg].
    destruct (refresh rs lang sym v) as [[v1 content] s1] eqn:Hr.
    destruct s1 as [|e1 m|k|]; try discriminate H.
    + destruct (FlagProofs.refresh_other_fields _ _ _ _ _ _ _ Hr) as [Hca _].
      pose proof (cache_add_frames (v_ca v1) sym content (w16 sz)) as Ha. rewrite Hca in Ha at 1. specialize (Ha Hne).
      destruct (cache_add (v_ca v1) sym content (w16 sz)) as [ca'|e0|k]; [discriminate H|destruct e0; discriminate H|contradiction].
    + injection H as _ _ ->. right. destruct (refresh_panic _ _ _ _ _ _ _ Hr) as [Hn (script & fr & Hx)].
      split; [exact Hn|]. exists sym, script, fr. exact Hx.
  - (* RELOAD *) unfold run_reload in H.
    destruct (refresh rs lang sym v) as [[v1 content] s1] eqn:Hr.
    destruct s1 as [|e1 m|k|]; try discriminate H.
    + destruct (cache_update_raw (v_ca v1) sym content) as [ca' oe].
      match type of H with context [page_map ?c ?p ?k] => pose proof (page_map_np c p k) as Hp; destruct (page_map c p k) end;
        [discriminate H|discriminate H|discriminate Hp].
    + injection H as _ _ ->. right. destruct (refresh_panic _ _ _ _ _ _ _ Hr) as [Hn (script & fr & Hx)].
      split; [exact Hn|]. exists sym, script, fr. exact Hx.
  - (* MAP *) unfold run_map in H. pose proof (page_map_np (v_ca v) (v_pg v) sym) as Hp.
    destruct (page_map (v_ca v) (v_pg v) sym); [discriminate H|discriminate H|discriminate Hp].
  - (* MOVE *) unfold run_move in H.
    destruct (apply_target sym (v_st v) (v_ca v)) as [[[st' ca'] nsym] s1] eqn:Ha.
    destruct s1 as [|e m|k|]; try discriminate H; [|exfalso; eapply apply_np; exact Ha].
    destruct (fetch_code rs nsym _) as [v2 c] eqn:Hf.
    destruct c as [code|e|k]; try discriminate H. exfalso. eapply fetch_code_np; eassumption.
  - (* INCMP *) unfold run_incmp in H. cbv zeta in H.
    destruct (getf (v_st v) FLAG_INMATCH && getf (v_st v) FLAG_READIN); [discriminate H|].
    cbn [v_st vset_st v_ca] in H.
    match type of H with context [s_input ?st] => destruct (s_input st) as [input|] end; [|discriminate H].
    match type of H with (if ?c then _ else _) = _ => destruct c end; [|discriminate H].
    match type of H with context [apply_target ?t ?st ?ca] =>
      destruct (apply_target t st ca) as [[[st' ca'] nsym] s1] eqn:Ha end.
    destruct s1 as [|e m|k|]; try discriminate H.
    + destruct (fetch_code rs nsym _) as [v3 c] eqn:Hf.
      destruct c as [code|e|k]; try discriminate H. exfalso. eapply fetch_code_np; eassumption.
    + destruct e; discriminate H.
    + exfalso. eapply apply_np; exact Ha.
Qed.

(* the cache keeps at least one frame through every handler *)
Lemma exec_instr_frames rs sep lang i b v v' b' s :
  c_frames (v_ca v) <> [] -> exec_instr rs sep lang i b v = (v', b', s) -> c_frames (v_ca v') <> [].
Proof.
  intros Hne H. destruct i; cbn [exec_instr] in H; try (injection H as <- _ _; exact Hne).
  - (* CATCH *) unfold run_catch in H.
    destruct (match_flag (v_st v) sig mode) as [[|]| |]; try (injection H as <- _ _; exact Hne).
    destruct (apply_target sym (v_st v) (v_ca v)) as [[[st' ca'] nsym] s1] eqn:Ha.
    pose proof (apply_frames _ _ _ _ _ _ _ Hne Ha) as Hne'.
    destruct s1; try (injection H as <- _ _; exact Hne').
    unfold fetch_code in H. destruct (rs_observed rs); destruct (rs_code rs nsym); injection H as <- _ _; exact Hne'.
  - (* CROAK *) unfold run_croak in H.
    destruct (match_flag (v_st v) sig mode) as [[|]| |]; try (injection H as <- _ _; exact Hne).
    injection H as <- _ _. cbn [v_ca vset_ca]. apply cache_reset_frames. exact Hne.
  - (* LOAD *) unfold run_load in H.
    destruct (cache_get (v_ca v) sym); try (injection H as <- _ _; exact Hne).
    destruct (refresh rs lang sym v) as [[v1 content] s1] eqn:Hr.
    destruct (FlagProofs.refresh_other_fields _ _ _ _ _ _ _ Hr) as [Hca _].
    assert (Hne1 : c_frames (v_ca v1) <> []) by (rewrite Hca; exact Hne).
    destruct s1; try (injection H as <- _ _; exact Hne1).
    pose proof (cache_add_frames (v_ca v1) sym content (w16 sz) Hne1) as Ha.
    destruct (cache_add (v_ca v1) sym content (w16 sz)) as [ca'|e0|]; try (injection H as <- _ _; exact Hne1).
    + injection H as <- _ _. exact Ha.
    + destruct e0; injection H as <- _ _; exact Hne1.
  - (* RELOAD *) unfold run_reload in H.
    destruct (refresh rs lang sym v) as [[v1 content] s1] eqn:Hr.
    destruct (FlagProofs.refresh_other_fields _ _ _ _ _ _ _ Hr) as [Hca _].
    assert (Hne1 : c_frames (v_ca v1) <> []) by (rewrite Hca; exact Hne).
    destruct s1; try (injection H as <- _ _; exact Hne1).
    pose proof (cache_update_frames (v_ca v1) sym content Hne1) as Hu.
    destruct (cache_update_raw (v_ca v1) sym content) as [ca' oe]. cbn [fst] in Hu.
    destruct (page_map _ _ sym); injection H as <- _ _; exact Hu.
  - (* MAP *) unfold run_map in H. destruct (page_map _ _ sym); injection H as <- _ _; exact Hne.
  - (* MOVE *) unfold run_move in H.
    destruct (apply_target sym (v_st v) (v_ca v)) as [[[st' ca'] nsym] s1] eqn:Ha.
    pose proof (apply_frames _ _ _ _ _ _ _ Hne Ha) as Hne'.
    destruct s1; try (injection H as <- _ _; exact Hne').
    unfold fetch_code in H. destruct (rs_observed rs); destruct (rs_code rs nsym); injection H as <- _ _; exact Hne'.
  - (* INCMP *) unfold run_incmp in H. cbv zeta in H.
    destruct (getf (v_st v) FLAG_INMATCH && getf (v_st v) FLAG_READIN); [injection H as <- _ _; exact Hne|].
    cbn [v_st vset_st v_ca] in H.
    match type of H with context [s_input ?st] => destruct (s_input st) as [input|] end; [|injection H as <- _ _; exact Hne].
    match type of H with (if ?c then _ else _) = _ => destruct c end; [|injection H as <- _ _; exact Hne].
    match type of H with context [apply_target ?t ?st ?ca] =>
      destruct (apply_target t st ca) as [[[st' ca'] nsym] s1] eqn:Ha end.
    pose proof (apply_frames _ _ _ _ _ _ _ Hne Ha) as Hne'.
    destruct s1 as [|e m| |].
    + unfold fetch_code in H. destruct (rs_observed rs); destruct (rs_code rs nsym); injection H as <- _ _; exact Hne'.
    + destruct e; injection H as <- _ _; exact Hne'.
    + injection H as <- _ _; exact Hne'.
    + injection H as <- _ _; exact Hne'.
Qed.

(* ---- one iteration ------------------------------------------------------------------------------ *)
Lemma dead_check_np v v' b n : dead_check v <> (v', b, SPanic n).
Proof.
  unfold dead_check. destruct (negb (getf (v_st v) FLAG_READIN)); [discriminate|].
  destruct (getf (v_st v) FLAG_TERMINATE); [discriminate|].
  destruct (where_sym (v_st v)); [discriminate|].
  destruct (bytes_eqb _ catch_sym); discriminate.
Qed.

(* an iteration that ends in a panic decoded its instruction and panicked EXECUTING it *)
Lemma run_step_panic rs sep lang b v v' rest n :
  run_step rs sep lang b v = Done (v', rest, SPanic n) ->
  exists op b1 i b2 v1 b2',
    op_split b = Ok (op, b1) /\ parse_args op b1 = Ok (i, b2) /\
    exec_instr rs sep (eff_lang lang (v_st v)) i b2 (vlog (run_prelude v) (EvInstr op)) = (v1, b2', SPanic n).
Proof.
  unfold run_step, step_exec. destruct (getf (v_st v) FLAG_TERMINATE); [discriminate|]. cbv zeta.
  pose proof (op_split_no_panic b) as Hop.
  destruct (op_split b) as [[op b1]|e|k]; [|discriminate|discriminate Hop].
  pose proof (parse_args_no_panic op b1) as Hpa.
  destruct (parse_args op b1) as [[i b2]|e|k] eqn:Hp; [| |discriminate Hpa].
  - destruct (exec_instr rs sep (eff_lang lang (v_st v)) i b2 (vlog (run_prelude v) (EvInstr op))) as [[v1 b2'] s] eqn:He.
    destruct (op =? op_HALT).
    + intros H. injection H as _ _ ->. exists op, b1, i, b2, v1, b2'. auto.
    + unfold err_check. destruct s as [|e m|k|].
      * destruct b2' as [|x b2']; [|discriminate].
        destruct (dead_check v1) as [[v3 b4] s3] eqn:Hd.
        destruct s3 as [| |k|]; try discriminate; [destruct b4; discriminate|].
        exfalso. eapply dead_check_np; exact Hd.
      * destruct (getf _ FLAG_LOADFAIL && _); [|discriminate].
        destruct move_catch_cons as (a & c & t & Hm). rewrite Hm. discriminate.
      * intros H. injection H as _ _ ->. exists op, b1, i, b2, v1, b2'. auto.
      * discriminate.
  - destruct (op =? op_HALT); [discriminate|]. unfold err_check.
    destruct (getf _ FLAG_LOADFAIL && _); [|discriminate].
    destruct move_catch_cons as (a & c & t & Hm). rewrite Hm. discriminate.
Qed.

Lemma instr_flags_okb_shape a b i : FlagProofs.same_shape a b -> instr_flags_okb b i = instr_flags_okb a i.
Proof. intros Hs. destruct i; cbn [instr_flags_okb]; try reflexivity; apply FlagProofs.shape_range; exact Hs. Qed.
Lemma fres_flags_okb_shape a b fr : FlagProofs.same_shape a b -> fres_flags_okb b fr = fres_flags_okb a fr.
Proof.
  intros Hs. unfold fres_flags_okb.
  rewrite !(fl_okb_ext a b) by (intros i; apply FlagProofs.shape_range; exact Hs). reflexivity.
Qed.
Lemma panic_cause_shape rs a b i n : FlagProofs.same_shape a b -> panic_cause rs b i n -> panic_cause rs a i n.
Proof.
  intros Hs [[Hn Hf]|[Hn (key & script & fr & H1 & H2 & H3)]].
  - left. split; [exact Hn|]. rewrite <- (instr_flags_okb_shape a b i Hs). exact Hf.
  - right. split; [exact Hn|]. exists key, script, fr. split; [exact H1|]. split; [exact H2|].
    rewrite <- (fres_flags_okb_shape a b fr Hs). exact H3.
Qed.

Lemma prelude_shape v : FlagProofs.same_shape (v_st v) (v_st (run_prelude v)).
Proof. rewrite prelude_is_pre_vm, FlagProofs.v_st_pre_vm. apply FlagProofs.shape_pre_st. Qed.

Lemma run_step_panic_cause rs sep lang b v v' rest n :
  c_frames (v_ca v) <> [] -> code_total rs ->
  run_step rs sep lang b v = Done (v', rest, SPanic n) ->
  exists i r, decode_one b = Ok (i, r) /\ strict_one b = Some (i, r) /\ panic_cause rs (v_st v) i n.
Proof.
  intros Hne Hct H. destruct (run_step_panic _ _ _ _ _ _ _ _ H) as (op & b1 & i & b2 & v1 & b2' & Ho & Hp & He).
  assert (Hd : decode_one b = Ok (i, b2)) by (rewrite (decode_one_of_split _ _ _ Ho); exact Hp).
  exists i, b2. split; [exact Hd|]. split; [apply decode_one_strict; exact Hd|].
  apply (panic_cause_shape rs (v_st v) (v_st (run_prelude v)) i n (prelude_shape v)).
  apply (exec_instr_panic rs sep (eff_lang lang (v_st v)) i b2 (vlog (run_prelude v) (EvInstr op)) v1 b2' n); [|exact Hct|exact He].
  cbn [v_ca vlog]. rewrite prelude_ca. exact Hne.
Qed.

(* frames and shape across one hand-over *)
Lemma run_frames fuel rs sep lang b v v' b' s :
  c_frames (v_ca v) <> [] -> run fuel rs sep lang b v = (v', b', s) -> c_frames (v_ca v') <> [].
Proof.
  intros Hne H.
  refine (FlagProofs.run_preserves (fun x => c_frames (v_ca x) <> []) rs sep _ _ _ _ _ fuel lang b v v' b' s Hne H).
  - intros x Hx. exact Hx.
  - intros x e Hx. exact Hx.
  - intros l i b0 x x' b1 s1 Hx He. eapply exec_instr_frames; eassumption.
  - intros x m Hx. rewrite FlagProofs.set_page_err_ca. exact Hx.
  - intros x x' b0 s0 Hx Hd. destruct (dead_check_ok _ _ _ _ Hd) as (_ & _ & _ & Hca & _). rewrite Hca. exact Hx.
Qed.

Lemma step_next_frames rs sep lang b v l1 b1 v1 :
  c_frames (v_ca v) <> [] -> run_step rs sep lang b v = Next l1 b1 v1 -> c_frames (v_ca v1) <> [].
Proof. intros Hne Hs. eapply run_frames; [exact Hne|eapply step_next_run1; exact Hs]. Qed.
Lemma step_next_shape rs sep lang b v l1 b1 v1 :
  run_step rs sep lang b v = Next l1 b1 v1 -> FlagProofs.same_shape (v_st v) (v_st v1).
Proof. intros Hs. eapply FlagProofs.run_shape. eapply step_next_run1; exact Hs. Qed.

Lemma reaches_snoc rs sep c l b v l1 b1 v1 :
  reaches rs sep c (l, b, v) -> run_step rs sep l b v = Next l1 b1 v1 -> reaches rs sep c (l1, b1, v1).
Proof. intros Hr Hs. eapply reaches_trans; [exact Hr|]. eapply reach_step; [exact Hs|apply reach_refl]. Qed.

(* (c), precise form: a panic of the run is raised by EXECUTING an instruction that decoded (by the
   decoder and by the strict grammar) at a configuration the run reached, and its cause is a flag
   index outside the flag field: of CATCH/CROAK (site 20) or of a function result (sites 21/22) *)
Theorem run_panic_cause rs sep fuel lang code v v' rest n :
  c_frames (v_ca v) <> [] -> code_total rs ->
  run fuel rs sep lang code v = (v', rest, SPanic n) ->
  exists l1 b1 v1 i r,
    reaches rs sep (lang, code, v) (l1, b1, v1)
    /\ decode_one b1 = Ok (i, r) /\ strict_one b1 = Some (i, r)
    /\ panic_cause rs (v_st v) i n.
Proof.
  intros Hne Hct H.
  pose (P := fun (l : option bytes) (b : bytes) (x : vmst) =>
               reaches rs sep (lang, code, v) (l, b, x) /\ c_frames (v_ca x) <> []
               /\ FlagProofs.same_shape (v_st v) (v_st x)).
  pose (Q := fun (r : hres) => forall k, snd r = SPanic k ->
               exists l1 b1 v1 i r',
                 reaches rs sep (lang, code, v) (l1, b1, v1)
                 /\ decode_one b1 = Ok (i, r') /\ strict_one b1 = Some (i, r')
                 /\ panic_cause rs (v_st v) i k).
  assert (HQ : Q (run fuel rs sep lang code v)).
  { apply (run_result rs sep P Q).
    - intros l b x l1 b1 x1 (Hr & Hf & Hs) Hst. split; [eapply reaches_snoc; eassumption|].
      split; [eapply step_next_frames; eassumption|].
      eapply FlagProofs.shape_trans; [exact Hs|eapply step_next_shape; exact Hst].
    - intros l b x r (Hr & Hf & Hs) Hst k Hk. destruct r as [[vx bx] sx]. cbn [snd] in Hk. subst sx.
      destruct (run_step_panic_cause _ _ _ _ _ _ _ _ Hf Hct Hst) as (i & r' & Hd & Hstr & Hc).
      exists l, b, x, i, r'. split; [exact Hr|]. split; [exact Hd|]. split; [exact Hstr|].
      eapply panic_cause_shape; [exact Hs|exact Hc].
    - split; [apply reach_refl|]. split; [exact Hne|apply FlagProofs.shape_refl].
    - rewrite H. cbn [snd]. discriminate. }
  apply (HQ n). rewrite H. reflexivity.
Qed.

Corollary run_panics_only_flag_range rs sep fuel lang code v v' rest n :
  c_frames (v_ca v) <> [] -> code_total rs ->
  run fuel rs sep lang code v = (v', rest, SPanic n) -> n = 20 \/ n = 21 \/ n = 22.
Proof.
  intros Hne Hct H. destruct (run_panic_cause _ _ _ _ _ _ _ _ _ Hne Hct H) as (_ & _ & _ & i & _ & _ & _ & _ & Hc).
  destruct Hc as [[-> _]|[[->| ->] _]]; auto.
Qed.

(* every function result of the resource names flags inside the flag field only *)
Definition funcs_flags_ok (rs : rsrc) (st : state) : Prop :=
  forall key script fr, rs_func rs key = Some script -> In fr script -> fres_flags_okb st fr = true.

(* every instruction that DECODES along the run has its flag argument inside the flag field *)
Definition decoded_flags_ok (rs : rsrc) (sep : bytes) (lang : option bytes) (code : bytes) (v : vmst) : Prop :=
  forall l1 b1 v1 i r, reaches rs sep (lang, code, v) (l1, b1, v1) -> decode_one b1 = Ok (i, r) ->
    instr_flags_okb (v_st v) i = true.

(* (c): under these guards no run on ANY byte string panics *)
Theorem run_never_panics_any_bytes rs sep fuel lang code v :
  c_frames (v_ca v) <> [] -> code_total rs -> funcs_flags_ok rs (v_st v) ->
  decoded_flags_ok rs sep lang code v ->
  forall n, snd (run fuel rs sep lang code v) <> SPanic n.
Proof.
  intros Hne Hct Hfn Hdec n Hs.
  destruct (run fuel rs sep lang code v) as [[v' rest] s] eqn:H. cbn [snd] in Hs. subst s.
  destruct (run_panic_cause _ _ _ _ _ _ _ _ _ Hne Hct H) as (l1 & b1 & v1 & i & r & Hr & Hd & _ & Hc).
  destruct Hc as [[_ Hf]|[_ (key & script & fr & H1 & H2 & H3)]].
  - rewrite (Hdec _ _ _ _ _ Hr Hd) in Hf. discriminate Hf.
  - rewrite (Hfn _ _ _ H1 H2) in H3. discriminate H3.
Qed.

(* an executable (decidable) check of decoded_flags_ok for a concrete case: walk the run *)
Fixpoint traj_flags_okb (m : nat) (rs : rsrc) (sep : bytes) (st0 : state)
                        (lang : option bytes) (b : bytes) (v : vmst) : bool :=
  match m with
  | O => false
  | S m' =>
    (match decode_one b with Ok (i, _) => instr_flags_okb st0 i | _ => true end)
    && match run_step rs sep lang b v with
       | Done _ => true
       | Next l1 b1 v1 => traj_flags_okb m' rs sep st0 l1 b1 v1
       end
  end.

Lemma traj_flags_okb_sound m rs sep st0 : forall lang b v,
  traj_flags_okb m rs sep st0 lang b v = true ->
  forall l1 b1 v1 i r, reaches rs sep (lang, b, v) (l1, b1, v1) -> decode_one b1 = Ok (i, r) ->
    instr_flags_okb st0 i = true.
Proof.
  induction m as [|m IH]; intros lang b v H l1 b1 v1 i r Hr Hd; [discriminate H|].
  cbn [traj_flags_okb] in H. apply andb_prop in H. destruct H as [H1 H2].
  inversion Hr as [c0|lang0 b0 v0 l2 b2 v2 c0 Hs Hr']; subst.
  - rewrite Hd in H1. exact H1.
  - rewrite Hs in H2. eapply IH; eassumption.
Qed.

Corollary traj_decoded_flags_ok m rs sep lang code v :
  traj_flags_okb m rs sep (v_st v) lang code v = true -> decoded_flags_ok rs sep lang code v.
Proof. intros H l1 b1 v1 i r Hr Hd. eapply traj_flags_okb_sound; eassumption. Qed.

(* ================================================================================== *)
(* Part 5 — the guards are decidable for applications; witnesses                        *)
(* ================================================================================== *)

Lemma code_total_app a : code_total (app_rsrc a).
Proof. intros sym. cbn [app_rsrc rs_code]. destruct (alookup sym (a_code a)); reflexivity. Qed.

Definition funcs_flags_okb (a : app) (st : state) : bool :=
  forallb (fun f => forallb (fres_flags_okb st) (snd f)) (a_funcs a).
Lemma funcs_flags_okb_sound a st : funcs_flags_okb a st = true -> funcs_flags_ok (app_rsrc a) st.
Proof.
  intros H key script fr Hf Hin. cbn [app_rsrc rs_func] in Hf.
  destruct (FlagProofs.alookup_In_pair _ _ _ Hf) as (k' & Hk).
  unfold funcs_flags_okb in H. rewrite forallb_forall in H. specialize (H _ Hk). cbn [snd] in H.
  rewrite forallb_forall in H. apply H. exact Hin.
Qed.
Lemma funcs_flags_ok_nofunc rs st : (forall sym, rs_func rs sym = None) -> funcs_flags_ok rs st.
Proof. intros Hn key script fr Hf. rewrite Hn in Hf. discriminate Hf. Qed.

(* the resource of the differential driver (go/cmd/vh/vmrun.go, corr/VmRunCorr.v) *)
From Vise Require Import CorrBase EngineCorr VmRunCorr.

Lemma empty_rsrc_total : code_total empty_rsrc.
Proof. intros sym. cbn [empty_rsrc rs_code]. destruct (bytes_eqb sym catch_sym); reflexivity. Qed.
Lemma empty_rsrc_nofunc : forall sym, rs_func empty_rsrc sym = None.
Proof. reflexivity. Qed.

(* the scenario of the seeded change C15-m3: INMATCH and READIN set, input "1", a truncated INCMP *)
Definition m3_case : vrcase := mkVr [0; 1] (Some (s2b "1")) [s2b "root"] [0; 8; 1] [] OSOk [] [] [].
(* the same bytes with LOADFAIL set instead: the error is diverted *)
Definition loadfail_case : vrcase := mkVr [3] (Some (s2b "1")) [s2b "root"] [0; 8; 1] [] OSOk [] [] [].
(* a valid program *)
Definition valid_case : vrcase :=
  mkVr [] (Some (s2b "1")) [s2b "root"] (encode_prog [IMove (s2b "foo"); IHalt]) [] OSOk [] [] [].
(* a complete CATCH whose flag (200) is outside the 16-bit flag field of NewState(4) *)
Definition flag_case : vrcase :=
  mkVr [] (Some (s2b "1")) [s2b "root"] (encode_prog [ICatch (s2b "foo") 200 true; IHalt]) [] OSOk [] [] [].

(* theorem (a) applies to the m3 scenario, for every fuel *)
Lemma m3_rejected_all_fuel fuel :
  exists v' rest,
    run (S fuel) empty_rsrc [] None (vr_code m3_case) (vr_init m3_case) = (v', rest, SErr EGen None)
    /\ only_prelude (vr_init m3_case) v'.
Proof.
  destruct (run_rejects_malformed_next fuel empty_rsrc [] None (vr_code m3_case) (vr_init m3_case) EGen)
    as (v' & rest & H1 & H2 & _); [vm_compute; reflexivity ..|].
  eauto.
Qed.

(* theorem (c) applies to the valid program: all guards hold, no fuel lets it panic *)
Lemma valid_never_panics fuel n :
  snd (run fuel empty_rsrc [] None (vr_code valid_case) (vr_init valid_case)) <> SPanic n.
Proof.
  apply run_never_panics_any_bytes.
  - vm_compute. discriminate.
  - exact empty_rsrc_total.
  - apply funcs_flags_ok_nofunc. exact empty_rsrc_nofunc.
  - apply (traj_decoded_flags_ok 10). vm_compute. reflexivity.
Qed.

(* the guard of the partial form of (b) holds for the driver's resource whenever LOADFAIL is clear *)
Lemma empty_rsrc_loadfail_free v : getf (v_st v) FLAG_LOADFAIL = false -> loadfail_free empty_rsrc v.
Proof. apply loadfail_free_nofunc. exact empty_rsrc_nofunc. Qed.

(* the driver's resource since the follow-up "LOAD of a cached symbol": empty_rsrc plus one entry function
   ("lds") that cannot fail and names no flags — the guards of (b) and (c) hold for it as well *)
Lemma vr_rsrc_total : code_total vr_rsrc.
Proof. exact empty_rsrc_total. Qed.
Lemma vr_rsrc_func sym script : rs_func vr_rsrc sym = Some script -> script = [mkFres (s2b "x") false 0 [] [] false].
Proof. cbn [vr_rsrc rs_func]. destruct (bytes_eqb sym lds_sym); [intros H; injection H as <-; reflexivity|discriminate]. Qed.
Lemma vr_rsrc_loadfail_free v : getf (v_st v) FLAG_LOADFAIL = false -> loadfail_free vr_rsrc v.
Proof.
  intros Hl. split; [|exact Hl]. intros (sym & script & fr & Hf & Hin & Hfail).
  rewrite (vr_rsrc_func _ _ Hf) in Hin. destruct Hin as [<-|[]]. discriminate Hfail.
Qed.
Lemma vr_rsrc_funcs_flags_ok st : funcs_flags_ok vr_rsrc st.
Proof.
  intros key script fr Hf Hin. rewrite (vr_rsrc_func _ _ Hf) in Hin. destruct Hin as [<-|[]]. reflexivity.
Qed.
