(* ResProofs.v — the engine model's resource tables (VmModel.app_rsrc) are the DbResource model over
   the memory store that buildResource loads, and that store answers as the C10 reference map. *)
From Coq Require Import Lia ZArith.
From Coq Require Import ZifyN ZifyNat ZifyBool.
From Vise Require Import Bytes Errors Consts VmModel DbKey DbModel BytesProofs DbProofs ResModel.
Local Open Scope N_scope.

Notation res := (outcome err) (only parsing).

(* ---- running histories piecewise ----------------------------------------------------------------------- *)
Lemma db_run_app be h1 : forall st h2,
  db_run be st (h1 ++ h2)
  = (fst (db_run be (fst (db_run be st h1)) h2), snd (db_run be st h1) ++ snd (db_run be (fst (db_run be st h1)) h2)).
Proof.
  induction h1 as [|o h1 IH]; intros st h2; cbn [List.app db_run].
  - cbn [fst snd List.app]. destruct (db_run be st h2); reflexivity.
  - destruct (db_step be st o) as [st' x]. rewrite IH.
    destruct (db_run be st' h1) as [s1 r1]. cbn [fst snd].
    destruct (db_run be s1 h2) as [s2 r2]. reflexivity.
Qed.
Lemma db_run_cons_fst be st o r : fst (db_run be st (o :: r)) = fst (db_run be (fst (db_step be st o)) r).
Proof. cbn [db_run]. destruct (db_step be st o) as [st' x]. cbn [fst]. destruct (db_run be st' r). reflexivity. Qed.

(* ---- the store after a run of Puts under one unsessioned type ------------------------------------------ *)
Definition puts (t : N) (l : list (bytes * bytes)) (s : list (bytes * bytes)) : list (bytes * bytes) :=
  fold_left (fun s kv => aset (hex_enc (t :: fst kv)) (snd kv) s) l s.

Definition plain_ctx (t : N) (st : dbstate) : Prop :=
  b_pfx (d_base st) = t /\ t <> 0 /\ sessioned t = false /\ check_put (d_base st) = true /\ b_lang (d_base st) = None.

Lemma put_plain t st k v : plain_ctx t st ->
  db_step BMem st (OPut k v) = (with_store st (aset (hex_enc (t :: k)) v (d_store st)), DOk).
Proof.
  intros [Hp [H0 [Hs [Hc Hl]]]]. cbn [db_step]. unfold kv_put. rewrite Hc. cbn [negb].
  unfold to_key. rewrite Hp. replace (t =? DATATYPE_UNKNOWN) with false by (symmetry; apply N.eqb_neq; exact H0).
  rewrite Hl. unfold to_session_key. rewrite Hs.
  replace (if lang_type t then None else None) with (@None bytes) by (destruct (lang_type t); reflexivity).
  cbn [lk_translation lk_default]. unfold to_db_key. cbn [lang_suffix]. rewrite app_nil_r. reflexivity.
Qed.

Lemma run_puts t l : forall st, plain_ctx t st ->
  fst (db_run BMem st (map put_op l)) = with_store st (puts t l (d_store st)).
Proof.
  induction l as [|[k v] l IH]; intros st H.
  - cbn. destruct st; reflexivity.
  - cbn [map]. rewrite db_run_cons_fst. unfold put_op at 1. cbn [fst snd]. rewrite (put_plain t st k v H). cbn [fst].
    rewrite IH.
    + cbn [with_store d_base d_store d_dir puts fold_left fst snd]. reflexivity.
    + destruct H as [Hp [H0 [Hs [Hc Hl]]]]. repeat split; assumption.
Qed.

Lemma hex_cons_inj t k t' k' : hex_enc (t :: k) = hex_enc (t' :: k') -> t = t' /\ k = k'.
Proof. intros E. apply hex_enc_inj in E. injection E as -> ->. auto. Qed.

Lemma nodup_keys_cons x r : nodup_keys (x :: r) = true -> mem_bytes x r = false /\ nodup_keys r = true.
Proof. cbn [nodup_keys]. intros H. apply andb_true_iff in H as [H1 H2]. apply negb_true_iff in H1. auto. Qed.
Lemma mem_bytes_alookup k (l : list (bytes * bytes)) : mem_bytes k (map fst l) = false -> alookup k l = None.
Proof.
  induction l as [|[k' v'] l IH]; [reflexivity|]. cbn [map fst mem_bytes alookup]. intros H.
  apply orb_false_iff in H as [H1 H2]. rewrite H1. apply IH. exact H2.
Qed.

Lemma lookup_puts_same t l : nodup_keys (map fst l) = true -> forall s k,
  alookup (hex_enc (t :: k)) (puts t l s)
  = match alookup k l with Some v => Some v | None => alookup (hex_enc (t :: k)) s end.
Proof.
  induction l as [|[k0 v0] l IH]; intros Hn s k; [reflexivity|].
  cbn [map fst] in Hn. apply nodup_keys_cons in Hn as [Hm Hn].
  unfold puts. cbn [fold_left fst snd alookup]. fold (puts t l (aset (hex_enc (t :: k0)) v0 s)).
  rewrite (IH Hn). destruct (bytes_eqb k k0) eqn:E.
  - apply beq_true in E. subst k0. rewrite (mem_bytes_alookup _ _ Hm). apply db_alookup_aset_same.
  - destruct (alookup k l); [reflexivity|]. apply db_alookup_aset_other.
    intros H. apply hex_cons_inj in H as [_ H]. subst k0. rewrite bytes_eqb_refl in E. discriminate.
Qed.
Lemma lookup_puts_other t t' l : t <> t' -> forall s k,
  alookup (hex_enc (t' :: k)) (puts t l s) = alookup (hex_enc (t' :: k)) s.
Proof.
  intros Hne. induction l as [|[k0 v0] l IH]; intros s k; [reflexivity|].
  unfold puts. cbn [fold_left fst snd]. fold (puts t l (aset (hex_enc (t :: k0)) v0 s)).
  rewrite IH. apply db_alookup_aset_other. intros H. apply hex_cons_inj in H as [H _]. congruence.
Qed.

(* ---- the store buildResource loads ---------------------------------------------------------------------- *)
Definition loaded_store (a : app) : list (bytes * bytes) :=
  puts DATATYPE_MENU (a_menu a) (puts DATATYPE_TEMPLATE (a_tpl a) (puts DATATYPE_BIN (a_code a) [])).
Definition loaded_base : base := mkBase DATATYPE_MENU [] None 15 true.

Lemma load_app_eq a : load_app a = mkDb loaded_base (loaded_store a) [].
Proof.
  unfold load_app, load_ops. rewrite db_run_app. cbn [fst].
  replace (fst (db_run BMem (db_init []) unlock4)) with (mkDb (mkBase 0 [] None 0 false) [] []) by reflexivity.
  rewrite db_run_cons_fst. cbn [db_step fst]. rewrite db_run_app. cbn [fst]. rewrite (run_puts DATATYPE_BIN).
  2:{ repeat split; try reflexivity. discriminate. }
  rewrite db_run_cons_fst. cbn [db_step fst]. rewrite db_run_app. cbn [fst]. rewrite (run_puts DATATYPE_TEMPLATE).
  2:{ repeat split; try reflexivity. discriminate. }
  rewrite db_run_cons_fst. cbn [db_step fst]. rewrite db_run_app. cbn [fst]. rewrite (run_puts DATATYPE_MENU).
  2:{ repeat split; try reflexivity. discriminate. }
  reflexivity.
Qed.

Lemma wf_res_keys_spec a : wf_res_keys a = true ->
  nodup_keys (map fst (a_code a)) = true /\ nodup_keys (map fst (a_tpl a)) = true /\ nodup_keys (map fst (a_menu a)) = true.
Proof. unfold wf_res_keys. intros H. apply andb_true_iff in H as [H H3]. apply andb_true_iff in H as [H1 H2]. auto. Qed.

Lemma loaded_lookup a : wf_res_keys a = true ->
  (forall k, alookup (hex_enc (DATATYPE_BIN :: k)) (loaded_store a) = alookup k (a_code a))
  /\ (forall k, alookup (hex_enc (DATATYPE_TEMPLATE :: k)) (loaded_store a) = alookup k (a_tpl a))
  /\ (forall k, alookup (hex_enc (DATATYPE_MENU :: k)) (loaded_store a) = alookup k (a_menu a)).
Proof.
  intros H. apply wf_res_keys_spec in H as [Hc [Ht Hm]]. unfold loaded_store. repeat split; intros k.
  - rewrite lookup_puts_other by discriminate. rewrite lookup_puts_other by discriminate.
    rewrite (lookup_puts_same _ _ Hc). destruct (alookup k (a_code a)); reflexivity.
  - rewrite lookup_puts_other by discriminate. rewrite (lookup_puts_same _ _ Ht).
    destruct (alookup k (a_tpl a)); [reflexivity|]. apply lookup_puts_other. discriminate.
  - rewrite (lookup_puts_same _ _ Hm). destruct (alookup k (a_menu a)); [reflexivity|].
    rewrite lookup_puts_other by discriminate. apply lookup_puts_other. discriminate.
Qed.

(* a Get under an unsessioned, language-scoped type *)
Lemma kv_get_plain store dir t lock seal lang key :
  res_lang_ok lang = true -> lang_type t = true -> sessioned t = false -> t <> 0 ->
  kv_get hex_enc (mkDb (mkBase t [] lang lock seal) store dir) key
  = match match lang with Some l => alookup (hex_enc (t :: key ++ ch_us :: l)) store | None => None end with
    | Some v => DVal v
    | None => match alookup (hex_enc (t :: key)) store with Some v => DVal v | None => DErr ENotFound end
    end.
Proof.
  intros Hl Ht Hs H0. unfold kv_get, to_key. cbn [d_base d_store b_pfx b_lang b_sid].
  replace (t =? DATATYPE_UNKNOWN) with false by (symmetry; apply N.eqb_neq; exact H0).
  unfold to_session_key. rewrite Hs, Ht. cbn [lk_translation lk_default]. unfold to_db_key. cbn [lang_suffix]. rewrite app_nil_r.
  destruct lang as [l|]; [|reflexivity].
  cbn [res_lang_ok] in Hl. apply N.eqb_eq in Hl. destruct l as [|x l]; [cbn in Hl; discriminate|].
  cbn [lang_suffix]. rewrite Ht. reflexivity.
Qed.

(* a Get on the loaded store under a language-scoped type, with the language from the context *)
Lemma res_fn_lang a t (tbl : list (bytes * bytes)) lang key :
  res_lang_ok lang = true -> lang_type t = true -> sessioned t = false -> t <> 0 ->
  (forall k, alookup (hex_enc (t :: k)) (loaded_store a) = alookup k tbl) ->
  res_fn (res_prefix (mkDb loaded_base (loaded_store a) []) t) lang key
  = match lookup_lang tbl key lang with Some v => Ok v | None => Err ENotFound end.
Proof.
  intros Hl Ht Hs H0 Hlk. unfold res_fn, res_prefix, loaded_base, with_base, set_prefix.
  cbn [d_base d_store d_dir b_pfx b_sid b_lang b_lock b_seal].
  replace (negb (safe (mkBase t [] None 15 true))) with false by reflexivity.
  replace (ctx_base (mkBase t [] None 15 true) lang) with (mkBase t [] lang 15 true) by (destruct lang; reflexivity).
  rewrite (kv_get_plain _ _ t 15 true lang key Hl Ht Hs H0). unfold lookup_lang, us.
  destruct lang as [l|].
  - rewrite !Hlk. cbn [List.app]. unfold ch_us.
    destruct (alookup (key ++ 95 :: l) tbl); [reflexivity|]. destruct (alookup key tbl); reflexivity.
  - rewrite Hlk. destruct (alookup key tbl); reflexivity.
Qed.

Theorem resource_tpl_refines_db : forall a lang sym,
  wf_res_keys a = true -> res_lang_ok lang = true ->
  rs_tpl (app_rsrc a) lang sym = snd (db_get_template (load_app a) res_default_typs lang sym).
Proof.
  intros a lang sym Hw Hl. rewrite load_app_eq. unfold db_get_template.
  replace (N.land res_default_typs DATATYPE_TEMPLATE =? 0) with false by reflexivity. cbn [snd app_rsrc rs_tpl].
  destruct (loaded_lookup a Hw) as [_ [Ht _]].
  rewrite (res_fn_lang a DATATYPE_TEMPLATE (a_tpl a) lang sym Hl eq_refl eq_refl); [reflexivity|discriminate|exact Ht].
Qed.

Theorem resource_menu_refines_db : forall a lang title,
  wf_res_keys a = true -> res_lang_ok lang = true ->
  rs_menu (app_rsrc a) lang title = snd (db_get_menu (load_app a) res_default_typs lang title).
Proof.
  intros a lang title Hw Hl. rewrite load_app_eq. unfold db_get_menu.
  replace (N.land res_default_typs DATATYPE_MENU =? 0) with false by reflexivity. cbn [snd app_rsrc rs_menu].
  destruct (loaded_lookup a Hw) as [_ [_ Hm]].
  rewrite (res_fn_lang a DATATYPE_MENU (a_menu a) lang (title ++ menu_suffix) Hl eq_refl eq_refl); [|discriminate|exact Hm].
  destruct (lookup_lang (a_menu a) (title ++ menu_suffix) lang); reflexivity.
Qed.

Theorem resource_code_refines_db : forall a lang sym,
  wf_res_keys a = true ->
  rs_code (app_rsrc a) sym = snd (db_get_code (load_app a) res_default_typs lang sym).
Proof.
  intros a lang sym Hw. rewrite load_app_eq. unfold db_get_code.
  replace (N.land res_default_typs DATATYPE_BIN =? 0) with false by reflexivity. cbn [snd app_rsrc rs_code].
  destruct (loaded_lookup a Hw) as [Hc _].
  unfold res_fn, res_prefix, loaded_base, with_base, set_prefix. cbn [d_base d_store d_dir b_pfx b_sid b_lang b_lock b_seal].
  replace (negb (safe (mkBase DATATYPE_BIN [] None 15 true))) with false by reflexivity.
  unfold kv_get. cbn [d_base d_store].
  assert (E : forall b, b_pfx b = DATATYPE_BIN -> b_sid b = [] ->
              to_key b sym = Ok (mkLk (DATATYPE_BIN :: sym) None)).
  { intros b Hp Hs. unfold to_key. rewrite Hp. cbn. unfold to_db_key. cbn [lang_suffix]. rewrite app_nil_r. reflexivity. }
  rewrite E by (destruct lang; reflexivity). cbn [lk_translation lk_default]. rewrite Hc.
  destruct (alookup sym (a_code a)); reflexivity.
Qed.

(* ---- the same store written through SetLanguage + Put -------------------------------------------------- *)
Lemma skipn_nth {A} (d : A) : forall i (l : list A), (i < List.length l)%nat -> skipn i l = nth i l d :: skipn (S i) l.
Proof.
  induction i as [|i IH]; intros [|x l] H; cbn [List.length] in H; try lia; [reflexivity|].
  cbn [skipn nth]. apply IH. lia.
Qed.

Lemma split_key_spec k :
  match snd (split_key k) with
  | Some c => k = fst (split_key k) ++ ch_us :: c /\ len c = 3
  | None => fst (split_key k) = k
  end.
Proof.
  unfold split_key. destruct ((4 <=? len k) && (nth (N.to_nat (len k - 4)) k 0 =? ch_us)) eqn:E; [|reflexivity].
  cbn [fst snd]. apply andb_true_iff in E as [E1 E2]. apply N.leb_le in E1. apply N.eqb_eq in E2.
  split.
  - unfold take, drop. rewrite <- (firstn_skipn (N.to_nat (len k - 4)) k) at 1. f_equal.
    rewrite (skipn_nth 0) by (unfold len in *; lia). rewrite E2. f_equal. f_equal. unfold len in *. lia.
  - rewrite len_drop. lia.
Qed.

Definition lang_ctx (t : N) (st : dbstate) : Prop :=
  b_pfx (d_base st) = t /\ t <> 0 /\ sessioned t = false /\ lang_type t = true /\ check_put (d_base st) = true
  /\ b_sid (d_base st) = [].

Lemma put_under_lang t lock seal lg store dir sym v :
  t <> 0 -> sessioned t = false -> lang_type t = true -> check_put (mkBase t [] lg lock seal) = true ->
  match lg with Some c => len c = 3 | None => True end ->
  db_step BMem (mkDb (mkBase t [] lg lock seal) store dir) (OPut sym v)
  = (mkDb (mkBase t [] lg lock seal)
          (aset (hex_enc (t :: sym ++ match lg with Some c => ch_us :: c | None => [] end)) v store) dir, DOk).
Proof.
  intros H0 Hs Ht Hc Hl. cbn [db_step]. unfold kv_put. cbn [d_base d_store d_dir]. rewrite Hc. cbn [negb].
  unfold to_key. cbn [b_pfx b_lang b_sid].
  replace (t =? DATATYPE_UNKNOWN) with false by (symmetry; apply N.eqb_neq; exact H0).
  unfold to_session_key. rewrite Hs, Ht. cbn [lk_translation lk_default]. unfold to_db_key, with_store. cbn [d_base d_store d_dir].
  destruct lg as [c|].
  - destruct c as [|x c]; [cbn in Hl; discriminate|]. cbn [lang_suffix]. rewrite Ht. reflexivity.
  - cbn [lang_suffix]. reflexivity.
Qed.

Lemma put_tr_step t st k v : lang_ctx t st ->
  fst (db_run BMem st (put_tr (k, v)))
  = mkDb (set_language (d_base st) (snd (split_key k))) (aset (hex_enc (t :: k)) v (d_store st)) (d_dir st).
Proof.
  intros [Hp [H0 [Hs [Ht [Hc Hsid]]]]]. destruct st as [[p sid lg lk sl] store dir].
  cbn [d_base d_store d_dir b_pfx b_sid] in *. subst p sid.
  unfold put_tr. cbn [fst snd]. rewrite db_run_cons_fst. cbn [db_step fst]. unfold with_base, set_language.
  cbn [d_base d_store d_dir b_pfx b_sid b_lang b_lock b_seal].
  rewrite db_run_cons_fst. cbn [db_run fst].
  pose proof (split_key_spec k) as Hk.
  rewrite (put_under_lang t lk sl (snd (split_key k)) store dir (fst (split_key k)) v H0 Hs Ht).
  - cbn [fst]. destruct (snd (split_key k)) as [c|].
    + destruct Hk as [Hk _]. rewrite <- Hk. reflexivity.
    + rewrite app_nil_r, Hk. reflexivity.
  - exact Hc.
  - destruct (snd (split_key k)); [destruct Hk as [_ Hk]; exact Hk|exact I].
Qed.

Lemma run_puts_tr t l : forall st, lang_ctx t st ->
  exists lg, fst (db_run BMem st (flat_map put_tr l))
             = mkDb (set_language (d_base st) lg) (puts t l (d_store st)) (d_dir st).
Proof.
  induction l as [|[k v] l IH]; intros st H.
  - exists (b_lang (d_base st)). cbn. destruct st as [[p s lg lk sl] store dir]. reflexivity.
  - cbn [flat_map]. rewrite db_run_app. cbn [fst]. rewrite (put_tr_step t st k v H).
    destruct H as [Hp [H0 [Hs [Ht [Hc Hsid]]]]].
    destruct (IH (mkDb (set_language (d_base st) (snd (split_key k))) (aset (hex_enc (t :: k)) v (d_store st)) (d_dir st)))
      as [lg E].
    { repeat split; assumption. }
    exists lg. rewrite E. cbn [d_base d_store d_dir]. reflexivity.
Qed.

Lemma load_tr_eq a : fst (db_run BMem (db_init []) (load_ops_tr a)) = mkDb loaded_base (loaded_store a) [].
Proof.
  unfold load_ops_tr. rewrite db_run_app. cbn [fst].
  replace (fst (db_run BMem (db_init []) unlock4)) with (mkDb (mkBase 0 [] None 0 false) [] []) by reflexivity.
  rewrite db_run_cons_fst. cbn [db_step fst]. rewrite db_run_app. cbn [fst]. rewrite (run_puts DATATYPE_BIN).
  2:{ repeat split; try reflexivity. discriminate. }
  rewrite db_run_cons_fst. cbn [db_step fst]. rewrite db_run_app. cbn [fst].
  match goal with |- context [db_run BMem ?s (flat_map put_tr (a_tpl a))] =>
    destruct (run_puts_tr DATATYPE_TEMPLATE (a_tpl a) s) as [lg1 E1] end.
  { repeat split; try reflexivity. discriminate. }
  rewrite E1. clear E1.
  rewrite db_run_cons_fst. cbn [db_step fst]. rewrite db_run_app. cbn [fst].
  match goal with |- context [db_run BMem ?s (flat_map put_tr (a_menu a))] =>
    destruct (run_puts_tr DATATYPE_MENU (a_menu a) s) as [lg2 E2] end.
  { repeat split; try reflexivity. discriminate. }
  rewrite E2. reflexivity.
Qed.

(* ---- a resource lookup is a Get of the history "load, SetPrefix, SetLanguage, Get" ----------------------- *)
Lemma last3 {A} (l : list A) a b c d : last (l ++ [a; b; c]) d = c.
Proof. replace (l ++ [a; b; c]) with ((l ++ [a; b]) ++ [c]) by (rewrite <- app_assoc; reflexivity). apply last_last. Qed.

Lemma db_lookup_hist a t lang key :
  last (db_results BMem [] (lookup_hist a t lang key)) DOk
  = kv_get hex_enc (mkDb (mkBase t [] lang 15 true) (loaded_store a) []) key.
Proof.
  unfold db_results, lookup_hist. rewrite db_run_app. cbn [snd]. rewrite load_tr_eq.
  cbn [db_run db_step snd]. rewrite last3. reflexivity.
Qed.
Lemma spec_lookup_hist h t lang key :
  last (spec_results (h ++ [OSetPrefix t; OSetLanguage lang; OGet key])) DOk
  = spec_get (mkSpec (set_language (set_prefix (sp_base (ref_state h)) t) lang) (sp_map (ref_state h))) key.
Proof.
  unfold spec_results, ref_state. rewrite spec_run_app. cbn [snd spec_run spec_step sp_base sp_map].
  rewrite last3. reflexivity.
Qed.

Definition tpl_key (l : option bytes) (sym : bytes) : akey := mkAkey DATATYPE_TEMPLATE None l sym.
Definition menu_key (l : option bytes) (sym : bytes) : akey := mkAkey DATATYPE_MENU None l sym.

(* translation if one was stored, else the default-language entry, else not found *)
Definition ref_lookup (m : list (akey * bytes)) (t : N) (lang : option bytes) (key : bytes) : option bytes :=
  match match lang with Some l => slookup (mkAkey t None (Some l) key) m | None => None end with
  | Some v => Some v
  | None => slookup (mkAkey t None None key) m
  end.

Lemma spec_get_lang b m t lang key :
  res_lang_ok lang = true -> lang_type t = true -> sessioned t = false -> t <> 0 ->
  spec_get (mkSpec (set_language (set_prefix b t) lang) m) key
  = match ref_lookup m t lang key with Some v => DVal v | None => DErr ENotFound end.
Proof.
  intros Hl Ht Hs H0. unfold spec_get, ref_lookup, eff_lang, ctx_akey. cbn [sp_base sp_map set_language set_prefix b_pfx b_lang].
  replace (t =? DATATYPE_UNKNOWN) with false by (symmetry; apply N.eqb_neq; exact H0). rewrite Ht, Hs.
  destruct lang as [l|].
  - cbn [res_lang_ok] in Hl. apply N.eqb_eq in Hl. destruct l as [|x l]; [cbn in Hl; discriminate|].
    destruct (slookup (mkAkey t None (Some (x :: l)) key) m); [reflexivity|].
    destruct (slookup (mkAkey t None None key) m); reflexivity.
  - destruct (slookup (mkAkey t None None key) m); reflexivity.
Qed.

Lemma lookup_via_reference a t (tbl : list (bytes * bytes)) lang key :
  res_lang_ok lang = true -> lang_type t = true -> sessioned t = false -> t <> 0 ->
  (forall k, alookup (hex_enc (t :: k)) (loaded_store a) = alookup k tbl) ->
  hist_ok spec_init (lookup_hist a t lang key) = true ->
  lookup_lang tbl key lang = ref_lookup (sp_map (ref_state (load_ops_tr a))) t lang key.
Proof.
  intros Hl Ht Hs H0 Hlk Hok.
  pose proof (mem_refines_spec_lemma [] _ Hok) as E. apply (f_equal (fun r => last r DOk)) in E.
  rewrite db_lookup_hist in E. unfold lookup_hist in E. rewrite spec_lookup_hist in E.
  rewrite (kv_get_plain _ _ t 15 true lang key Hl Ht Hs H0) in E.
  rewrite (spec_get_lang _ _ t lang key Hl Ht Hs H0) in E.
  unfold lookup_lang, us. destruct lang as [l|].
  - rewrite !Hlk in E. cbn [List.app]. unfold ch_us in E.
    destruct (alookup (key ++ 95 :: l) tbl).
    + destruct (ref_lookup _ t (Some l) key); [injection E as ->; reflexivity|discriminate].
    + destruct (alookup key tbl); destruct (ref_lookup _ t (Some l) key); try discriminate; [injection E as ->|]; reflexivity.
  - rewrite Hlk in E.
    destruct (alookup key tbl); destruct (ref_lookup _ t None key); try discriminate; [injection E as ->|]; reflexivity.
Qed.

Theorem template_translation_then_default : forall a lang sym,
  wf_res_keys a = true -> res_lang_ok lang = true ->
  hist_ok spec_init (lookup_hist a DATATYPE_TEMPLATE lang sym) = true ->
  rs_tpl (app_rsrc a) lang sym
  = match ref_lookup (sp_map (ref_state (load_ops_tr a))) DATATYPE_TEMPLATE lang sym with
    | Some v => Ok v
    | None => Err ENotFound
    end.
Proof.
  intros a lang sym Hw Hl Hok. destruct (loaded_lookup a Hw) as [_ [Ht _]]. cbn [app_rsrc rs_tpl].
  rewrite (lookup_via_reference a DATATYPE_TEMPLATE (a_tpl a) lang sym Hl eq_refl eq_refl); [reflexivity|discriminate|exact Ht|exact Hok].
Qed.

Theorem menu_translation_then_default_then_title : forall a lang title,
  wf_res_keys a = true -> res_lang_ok lang = true ->
  hist_ok spec_init (lookup_hist a DATATYPE_MENU lang (title ++ menu_suffix)) = true ->
  rs_menu (app_rsrc a) lang title
  = match ref_lookup (sp_map (ref_state (load_ops_tr a))) DATATYPE_MENU lang (title ++ menu_suffix) with
    | Some v => Ok v
    | None => Ok title
    end.
Proof.
  intros a lang title Hw Hl Hok. destruct (loaded_lookup a Hw) as [_ [_ Hm]]. cbn [app_rsrc rs_menu].
  rewrite (lookup_via_reference a DATATYPE_MENU (a_menu a) lang (title ++ menu_suffix) Hl eq_refl eq_refl); [reflexivity|discriminate|exact Hm|exact Hok].
Qed.
