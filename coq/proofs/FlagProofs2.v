(* FlagProofs2.v — C20 follow-up: the session invariant that C20_graceful_end_cache assumed
   (one cache scope per level plus the base scope, CInv, EMPTY base scope) holds for every stored
   session reachable by a history from a new session.  Composes SafetyProofs (levels, CInv) with
   a new invariant: nothing is ever stored while the position is empty. *)
From Coq Require Import Lia ZifyN ZifyNat ZifyBool.
From Vise Require Import Bytes Errors Consts EngConsts Codec CacheModel StateModel NavModel NavSpec RenderModel
  VmModel EngineModel BytesProofs CodecProofs CacheProofs NavProofs VmProofs SafetyProofs FlagProofs.
Local Open Scope N_scope.

(* ======================================================================================== *)
(* 1. the base scope under the cache operations                                               *)
(* ======================================================================================== *)
Definition base_empty (ca : cache) : Prop := hd_error (c_frames ca) = Some [].

Lemma base_push : forall ca, base_empty ca -> base_empty (cache_push ca).
Proof. intros ca H. unfold base_empty, cache_push in *. cbn [c_frames]. destruct (c_frames ca); [discriminate|exact H]. Qed.

Lemma base_pop : forall ca ca', base_empty ca -> cache_pop ca = Ok ca' -> base_empty ca'.
Proof.
  intros ca ca' H Hp. unfold base_empty in *. destruct (c_frames ca) as [|f0 r] eqn:Hf; [discriminate|].
  injection H as ->. destruct r as [|x r].
  - unfold cache_pop in Hp. rewrite Hf in Hp. cbn [rev List.app] in Hp. injection Hp as <-. reflexivity.
  - assert (Hne : x :: r <> []) by discriminate. destruct (exists_last Hne) as (r' & t & Hr). rewrite Hr in Hf.
    destruct (cache_pop_frames ca [] r' t Hf) as (ca2 & Hp2 & Hf2). rewrite Hp in Hp2. injection Hp2 as <-.
    rewrite Hf2. reflexivity.
Qed.

Lemma base_pops : forall n ca, base_empty ca -> base_empty (pops n ca).
Proof.
  induction n as [|n IH]; intros ca H; cbn [pops]; [exact H|].
  destruct (cache_pop ca) as [ca'| |] eqn:Hp; [|exact H|exact H]. apply IH. eapply base_pop; eauto.
Qed.

Lemma base_pop_lenient : forall ca, base_empty ca -> base_empty (match cache_pop ca with Ok c => c | _ => ca end).
Proof. intros ca H. destruct (cache_pop ca) eqn:Hp; [eapply base_pop; eauto|exact H|exact H]. Qed.

Lemma base_reset : forall ca, base_empty ca -> base_empty (cache_reset ca).
Proof.
  intros ca H. unfold base_empty, cache_reset in *. destruct (c_frames ca) as [|f0 r] eqn:Hf; [discriminate|].
  cbn [c_frames]. exact H.
Qed.

Lemma base_last : forall ca, base_empty ca -> base_empty (snd (cache_last ca)).
Proof. intros ca H. exact H. Qed.

Lemma update_nth_S_hd : forall {A} (g : A -> A) n (l : list A), hd_error (update_nth (S n) g l) = hd_error l.
Proof. intros A g n [|x l]; reflexivity. Qed.

(* Add writes the TOP scope: with at least two scopes the base scope is not touched *)
Lemma base_add : forall ca k v l ca',
  base_empty ca -> 2 <= cache_levels ca -> cache_add ca k v l = Ok ca' -> base_empty ca'.
Proof.
  intros ca k v l ca' H Hl Ha. unfold cache_add in Ha.
  destruct ((0 <? l) && (l <? len v)); [discriminate|].
  destruct (frame_of ca k) as [i|]; [destruct (i =? top_index ca); discriminate|].
  destruct ((0 <? len v) && _); [discriminate|].
  destruct (c_frames ca) as [|f0 r] eqn:Hf; [discriminate|]. injection Ha as <-.
  unfold base_empty in *. cbn [c_frames].
  assert (Ht : exists n, N.to_nat (top_index ca) = S n).
  { unfold top_index, cache_levels, len in *. rewrite Hf in *. cbn [List.length] in *.
    exists (List.length r - 1)%nat. lia. }
  destruct Ht as [n ->]. rewrite <- Hf. rewrite update_nth_S_hd. exact H.
Qed.

(* Update writes the scope that defines the symbol: never the empty base scope *)
Lemma frame_of_base : forall ca k i, base_empty ca -> frame_of ca k = Some i -> exists n, N.to_nat i = S n.
Proof.
  intros ca k i H Hf. unfold base_empty, frame_of in *. destruct (c_frames ca) as [|f0 r]; [discriminate|].
  injection H as ->. cbn [frame_of_from ahas alookup] in Hf.
  destruct (frame_of_from_some (0 + 1) r k i Hf) as (pre & f & post & _ & Hi & _).
  exists (List.length pre). unfold len in Hi. lia.
Qed.

Lemma base_update : forall ca k v, base_empty ca -> base_empty (fst (cache_update_raw ca k v)).
Proof.
  intros ca k v H. unfold cache_update_raw.
  destruct ((0 <? _) && _); [exact H|].
  destruct (frame_of ca k) as [i|] eqn:Hf; [|exact H].
  destruct (frame_of_base ca k i H Hf) as [n Hn].
  cbv zeta. cbn [c_size c_use c_frames c_sizes c_last].
  destruct ((check_capacity _ _ v =? 0) && (0 <? len v)); cbn [fst]; unfold base_empty in *; cbn [c_frames];
    rewrite Hn, !update_nth_S_hd; exact H.
Qed.

(* ======================================================================================== *)
(* 2. one instruction                                                                         *)
(* ======================================================================================== *)
Definition navigating (i : instr) : bool :=
  match i with IMove _ | IInCmp _ _ | ICatch _ _ _ => true | _ => false end.

(* no node has the empty name: GetCode("") fails (what ends a run whose position became empty) *)
Definition rs_named (rs : rsrc) : Prop := forall c, rs_code rs [] <> Ok c.

Lemma refresh_path : forall rs lang key v v' content s,
  refresh rs lang key v = (v', content, s) -> s_path (v_st v') = s_path (v_st v) /\ v_ca v' = v_ca v.
Proof.
  intros rs lang key v v' content s H. split; [|eapply refresh_other_fields; exact H].
  unfold refresh in H.
  destruct (rs_func rs key) as [script|]; [|injection H as <- _ _; reflexivity].
  destruct (nth_fres script _) as [fr|]; [|injection H as <- _ _; reflexivity].
  destruct (fr_fail fr); [injection H as <- _ _; reflexivity|].
  destruct (apply_flags false (fr_reset fr) _) as [st1| |] eqn:H1; try (injection H as <- _ _; reflexivity).
  destruct (apply_flags true (fr_set fr) st1) as [st2| |] eqn:H2; try (injection H as <- _ _; reflexivity).
  injection H as <- _ _. cbn [v_st vset_st].
  destruct (apply_flags_reserved _ _ _ _ H1) as [_ (_ & P1 & _)].
  destruct (apply_flags_reserved _ _ _ _ H2) as [_ (_ & P2 & _)].
  cbn [v_st vlog vset_w] in P1.
  assert (E : s_path st2 = s_path (v_st v)) by congruence.
  destruct (getf st2 FLAG_LANG); [|exact E].
  unfold st_set_language. destruct (fr_content fr ++ _); destruct (lang_lookup _); cbn; exact E.
Qed.

(* what applyTarget does to the base scope, and what it returns when the position became empty *)
Lemma apply_base : forall t st ca st' ca' nsym s,
  nav_inv st ca -> base_empty ca -> apply_target t st ca = (st', ca', nsym, s) ->
  base_empty ca' /\ (s = SOk -> s_path st' = [] -> nsym = [])
  /\ (s <> SOk -> st' = st /\ ca' = ca).
Proof.
  intros t st ca st' ca' nsym s Hn Hb H.
  assert (Hne : c_frames ca <> []) by (apply levels_ne; unfold nav_inv in Hn; lia).
  assert (Hcase : s = SOk \/ s <> SOk) by (destruct s; [left; reflexivity|right; discriminate ..]).
  destruct Hcase as [->|Hs].
  - destruct (apply_ok_exact _ _ _ _ _ _ Hne H) as (_ & Hsym & _ & Hca).
    split; [|split; [|congruence]].
    + rewrite Hca. destruct (valid_sym_b t); [apply base_push|apply base_pops]; exact Hb.
    + intros _ Hp. rewrite Hsym. unfold where_sym. rewrite Hp. reflexivity.
  - destruct (apply_fail_unchanged _ _ _ _ _ _ _ Hne H Hs) as [-> ->].
    split; [exact Hb|]. split; [congruence|auto].
Qed.

Lemma fetch_anon : forall rs v v2 c, rs_named rs -> fetch_code rs [] v = (v2, c) -> forall code, c <> Ok code.
Proof. intros rs v v2 c Hn H code. unfold fetch_code in H. injection H as _ <-. apply Hn. Qed.

Lemma exec_instr_base : forall rs sep lang i b v v' b' s,
  rs_named rs -> nav_inv (v_st v) (v_ca v) -> base_empty (v_ca v) ->
  (s_path (v_st v) = [] -> exists t, i = IMove t) ->
  exec_instr rs sep lang i b v = (v', b', s) ->
  base_empty (v_ca v') /\ (s_path (v_st v') = [] -> s <> SOk).
Proof.
  intros rs sep lang i b v v' b' s Hnm Hn Hb Hpre H.
  assert (Hsame : forall x, s_path (v_st x) = s_path (v_st v) -> (exists t, i = IMove t) -> False ->
                            s_path (v_st x) = [] -> s <> SOk) by (intros; contradiction).
  assert (Hkeep : (forall t, i <> IMove t) -> s_path (v_st v') = s_path (v_st v) -> s_path (v_st v') = [] -> s <> SOk).
  { intros Hni E Hp. rewrite E in Hp. destruct (Hpre Hp) as [t Ht]. exfalso. eapply Hni. exact Ht. }
  destruct i; cbn [exec_instr] in H.
  - injection H as <- _ _. split; [exact Hb|]. apply Hkeep; [discriminate|reflexivity].
  - (* CATCH *) unfold run_catch in H.
    destruct (match_flag (v_st v) sig mode) as [[|]| |];
      try (injection H as <- _ _; split; [exact Hb|apply Hkeep; [discriminate|reflexivity]]).
    destruct (apply_target sym (v_st v) (v_ca v)) as [[[st' ca'] nsym] s1] eqn:Ha.
    destruct (apply_base _ _ _ _ _ _ _ Hn Hb Ha) as (B1 & B2 & B3).
    destruct s1.
    + destruct (fetch_code rs nsym _) as [v2 c] eqn:Hf.
      assert (Hv2 : v_st v2 = st' /\ v_ca v2 = ca').
      { unfold fetch_code in Hf. injection Hf as <- _. destruct (rs_observed rs); auto. }
      destruct Hv2 as [E1 E2].
      destruct c as [code|e|n]; injection H as <- _ <-; rewrite ?E1, ?E2; (split; [exact B1|]); try discriminate.
      intros Hp. exfalso. rewrite (B2 eq_refl Hp) in Hf. eapply fetch_anon; [exact Hnm|exact Hf|reflexivity].
    + injection H as <- _ <-. split; [exact B1|discriminate].
    + injection H as <- _ <-. split; [exact B1|discriminate].
    + injection H as <- _ <-. split; [exact B1|discriminate].
  - (* CROAK *) unfold run_croak in H.
    destruct (match_flag (v_st v) sig mode) as [[|]| |]; injection H as <- _ _;
      (split; [try exact Hb; apply base_reset; exact Hb|apply Hkeep; [discriminate|reflexivity]]).
  - (* LOAD *) unfold run_load in H.
    destruct (cache_get (v_ca v) sym);
      try (injection H as <- _ _; split; [exact Hb|apply Hkeep; [discriminate|reflexivity]]).
    destruct (refresh rs lang sym v) as [[v1 content] s1] eqn:Hr.
    destruct (refresh_path _ _ _ _ _ _ _ Hr) as [P1 P2].
    assert (Hb1 : base_empty (v_ca v1)) by (rewrite P2; exact Hb).
    destruct s1; try (injection H as <- _ _; split; [exact Hb1|apply Hkeep; [discriminate|exact P1]]).
    destruct (cache_add (v_ca v1) sym content (w16 sz)) as [ca'|e0|] eqn:Hadd.
    + injection H as <- _ _. cbn [v_ca v_st vset_ca]. split; [|apply Hkeep; [discriminate|exact P1]].
      destruct (s_path (v_st v)) as [|x p] eqn:Hp; [destruct (Hpre eq_refl) as [t Ht]; discriminate|].
      eapply base_add; [exact Hb1| |exact Hadd]. rewrite P2. unfold nav_inv in Hn. rewrite Hn, Hp, len_cons. lia.
    + destruct e0; injection H as <- _ _; (split; [exact Hb1|apply Hkeep; [discriminate|exact P1]]).
    + injection H as <- _ _; (split; [exact Hb1|apply Hkeep; [discriminate|exact P1]]).
  - (* RELOAD *) unfold run_reload in H.
    destruct (refresh rs lang sym v) as [[v1 content] s1] eqn:Hr.
    destruct (refresh_path _ _ _ _ _ _ _ Hr) as [P1 P2].
    assert (Hb1 : base_empty (v_ca v1)) by (rewrite P2; exact Hb).
    destruct s1; try (injection H as <- _ _; split; [exact Hb1|apply Hkeep; [discriminate|exact P1]]).
    pose proof (base_update (v_ca v1) sym content Hb1) as Hb2.
    destruct (cache_update_raw (v_ca v1) sym content) as [ca' oe]. cbn [fst] in Hb2.
    destruct (page_map _ _ sym); injection H as <- _ _; cbn [v_ca v_st vset_ca vset_pg];
      (split; [exact Hb2|apply Hkeep; [discriminate|exact P1]]).
  - (* MAP *) unfold run_map in H.
    destruct (page_map _ _ sym); injection H as <- _ _; (split; [exact Hb|apply Hkeep; [discriminate|reflexivity]]).
  - (* MOVE *) unfold run_move in H.
    destruct (apply_target sym (v_st v) (v_ca v)) as [[[st' ca'] nsym] s1] eqn:Ha.
    destruct (apply_base _ _ _ _ _ _ _ Hn Hb Ha) as (B1 & B2 & B3).
    destruct s1.
    + destruct (fetch_code rs nsym _) as [v2 c] eqn:Hf.
      assert (Hv2 : v_st v2 = st' /\ v_ca v2 = ca').
      { unfold fetch_code in Hf. injection Hf as <- _. destruct (rs_observed rs); auto. }
      destruct Hv2 as [E1 E2].
      destruct c as [code|e|n]; injection H as <- _ <-; cbn [v_st v_ca vset_pg]; rewrite ?E1, ?E2; (split; [exact B1|]); try discriminate.
      intros Hp. exfalso. rewrite (B2 eq_refl Hp) in Hf. eapply fetch_anon; [exact Hnm|exact Hf|reflexivity].
    + injection H as <- _ <-. split; [exact B1|discriminate].
    + injection H as <- _ <-. split; [exact B1|discriminate].
    + injection H as <- _ <-. split; [exact B1|discriminate].
  - (* HALT *) injection H as <- _ _. split; [exact Hb|apply Hkeep; [discriminate|reflexivity]].
  - (* INCMP *) unfold run_incmp in H.
    assert (Hpne : s_path (v_st v) <> []) by (intros Hp; destruct (Hpre Hp) as [t Ht]; discriminate).
    destruct (getf (v_st v) FLAG_INMATCH && getf (v_st v) FLAG_READIN);
      [injection H as <- _ _; split; [exact Hb|intros Hp; contradiction]|].
    set (st0 := if getf (v_st v) FLAG_INMATCH then v_st v else setf (v_st v) FLAG_READIN) in *.
    assert (P0 : s_path st0 = s_path (v_st v)) by (unfold st0; destruct (getf (v_st v) FLAG_INMATCH); reflexivity).
    cbn [v_st vset_st] in H.
    destruct (s_input st0) as [input|]; [|injection H as <- _ _; split; [exact Hb|cbn [v_st vset_st]; rewrite P0; intros Hp; contradiction]].
    destruct ((negb (getf (v_st v) FLAG_INMATCH) && bytes_eqb sel star) || bytes_eqb sel input);
      [|injection H as <- _ _; split; [exact Hb|cbn [v_st vset_st vlog]; rewrite P0; intros Hp; contradiction]].
    set (st1 := resetf (setf st0 FLAG_INMATCH) FLAG_READIN) in *.
    assert (P1 : s_path st1 = s_path (v_st v)) by (unfold st1; exact P0).
    cbn [v_ca vset_st] in H.
    assert (Hn1 : nav_inv st1 (v_ca v)) by (unfold nav_inv in *; rewrite P1; exact Hn).
    destruct (apply_target target st1 (v_ca v)) as [[[st' ca'] nsym] s1] eqn:Ha.
    destruct (apply_base _ _ _ _ _ _ _ Hn1 Hb Ha) as (B1 & B2 & B3).
    destruct s1 as [|e m| |].
    + destruct (fetch_code rs nsym _) as [v3 c] eqn:Hf.
      assert (Hv3 : v_st v3 = st' /\ v_ca v3 = ca').
      { unfold fetch_code in Hf. injection Hf as <- _. destruct (rs_observed rs); auto. }
      destruct Hv3 as [E1 E2].
      destruct c as [code|e|n]; injection H as <- _ <-; rewrite ?E1, ?E2; (split; [exact B1|]); try discriminate.
      intros Hp. exfalso. rewrite (B2 eq_refl Hp) in Hf. eapply fetch_anon; [exact Hnm|exact Hf|reflexivity].
    + destruct (B3 ltac:(discriminate)) as [-> ->].
      destruct e; injection H as <- _ <-; cbn [v_st v_ca vset_st vset_ca vlog]; (split; [exact Hb|]); try discriminate.
      cbn [s_path setf set_flags]. rewrite P1. intros Hp; contradiction.
    + injection H as <- _ <-. split; [exact B1|discriminate].
    + injection H as <- _ <-. split; [exact B1|discriminate].
  - injection H as <- _ _. split; [exact Hb|apply Hkeep; [discriminate|reflexivity]].
  - injection H as <- _ _. split; [exact Hb|apply Hkeep; [discriminate|reflexivity]].
  - injection H as <- _ _. split; [exact Hb|apply Hkeep; [discriminate|reflexivity]].
  - injection H as <- _ _. split; [exact Hb|apply Hkeep; [discriminate|reflexivity]].
Qed.

(* ======================================================================================== *)
(* 3. the run loop                                                                            *)
(* ======================================================================================== *)
(* while the position is empty the only code that may be pending is a single MOVE *)
Definition move_only (b : bytes) : Prop := b = [] \/ exists t, wf_sym t /\ b = encode (IMove t).

Lemma flagish_pre_st : forall st, flagish st (pre_st st).
Proof.
  intros st. unfold pre_st. cbv zeta.
  eapply flagish_trans; [apply (flagish_resetf _ FLAG_LANG)|].
  eapply flagish_trans; [apply (flagish_resetf _ FLAG_WAIT)|].
  eapply flagish_trans; [|apply flagish_setf].
  destruct (getf (resetf st FLAG_LANG) FLAG_WAIT); [apply flagish_resetf|apply flagish_refl].
Qed.
Lemma VInv_pre_vm : forall bits cap k v, VInv bits cap k v -> VInv bits cap k (pre_vm v).
Proof. intros bits cap k v H. unfold VInv, pre_vm. cbn [v_st v_ca vset_pg vset_st]. eapply SC_flagish; [exact H|apply flagish_pre_st]. Qed.
Lemma VInv_nav : forall bits cap v, VInv bits cap true v -> nav_inv (v_st v) (v_ca v).
Proof. intros bits cap v (_ & _ & _ & _ & H). exact (proj1 (H eq_refl)). Qed.
Lemma VInv_CInv : forall bits cap v, VInv bits cap true v -> CInv (v_ca v).
Proof. intros bits cap v (_ & _ & _ & _ & H). exact (proj1 (proj2 (H eq_refl))). Qed.
Lemma path_pre_st : forall st, s_path (pre_st st) = s_path st.
Proof. intros st. destruct (pre_st_sbf st) as (_ & H & _). symmetry. exact H. Qed.

Lemma move_only_decode : forall b i r, move_only b -> b <> [] -> decode_one b = Ok (i, r) -> (exists t, i = IMove t) /\ r = [].
Proof.
  intros b i r [->|(t & Hw & ->)] Hne Hd; [congruence|].
  pose proof (instr_roundtrip_lemma (IMove t) [] Hw) as Hrt. rewrite app_nil_r in Hrt.
  rewrite Hrt in Hd. injection Hd as <- <-. eauto.
Qed.
Lemma move_only_catch : move_only move_catch_code.
Proof. right. exists catch_sym. split; [exact wf_catch_sym|reflexivity]. Qed.

(* the machine invariant: SafetyProofs' consistency level plus the empty base scope *)
Definition VB (bits cap : N) (v : vmst) : Prop := VInv bits cap true v /\ base_empty (v_ca v).

Lemma run_base : forall bits cap rs sep, rs_wf bits cap true rs -> rs_named rs ->
  forall fuel lang b v v' b' s,
  VB bits cap v -> cok bits true b -> (s_path (v_st v) = [] -> move_only b) ->
  run fuel rs sep lang b v = (v', b', s) ->
  VB bits cap v' /\ cok bits true b' /\ (s = SOk -> s_path (v_st v') = [] -> move_only b').
Proof.
  intros bits cap rs sep Hrs Hnm. induction fuel as [|fuel IH]; intros lang b v v' b' s [HV Hb] Hc Hmo H.
  - rewrite run_O in H. injection H as <- <- <-. split; [split; assumption|]. split; [exact Hc|discriminate].
  - rewrite run_S in H. destruct (getf (v_st v) FLAG_TERMINATE).
    { injection H as <- <- <-. split; [split; assumption|]. split; [constructor|]. intros _ _. left. reflexivity. }
    cbv zeta in H.
    pose proof (VInv_pre_vm _ _ _ _ HV) as HV0.
    assert (Hb0 : base_empty (v_ca (pre_vm v))) by exact Hb.
    assert (Hp0 : s_path (v_st (pre_vm v)) = s_path (v_st v)) by (rewrite v_st_pre_vm; apply path_pre_st).
    destruct b as [|x b0] eqn:Eb.
    { change (op_split []) with (@Err err (N * bytes) EGen) in H. injection H as <- <- <-.
      split; [split; assumption|]. split; [constructor|discriminate]. }
    rewrite <- Eb in *. assert (Hne : b <> []) by (rewrite Eb; discriminate). clear Eb.
    destruct (code_ok_decodes _ _ Hc Hne) as (i & r & Hd & Hi & Hr).
    destruct (decode_one_split _ _ _ Hd) as (op & b1 & Hop & Hpa).
    rewrite Hop, Hpa in H. unfold step_instr in H. rewrite Hpa in H.
    set (v0 := vlog (pre_vm v) (EvInstr op)) in *.
    assert (HVl : VInv bits cap true v0) by exact HV0.
    pose proof (exec_instr_safe bits cap true rs sep (pre_lang lang (v_st v)) i r v0 Hrs HVl Hi Hr) as (X1 & X2 & X3).
    destruct (exec_instr rs sep (pre_lang lang (v_st v)) i r v0) as [[v1 b2] s1] eqn:He. cbn [fst snd] in X1, X2, X3.
    destruct (exec_instr_base rs sep (pre_lang lang (v_st v)) i r v0 v1 b2 s1 Hnm (VInv_nav _ _ _ HVl) Hb0) as [B1 B2]; [|exact He|].
    { intros Hp. change (s_path (v_st v0)) with (s_path (v_st (pre_vm v))) in Hp. rewrite Hp0 in Hp.
      exact (proj1 (move_only_decode _ _ _ (Hmo Hp) Hne Hd)). }
    destruct (op =? op_HALT).
    { injection H as <- <- <-. split; [split; assumption|]. split; [exact X3|].
      intros Hs Hp. exfalso. exact (B2 Hp Hs). }
    (* runErrCheck *)
    destruct (err_check (v1, b2, s1)) as [[v2 b3] s2] eqn:Hchk.
    assert (Hc2 : VB bits cap v2 /\ cok bits true b3 /\ is_spanic s2 = false
                  /\ (s_path (v_st v2) = [] -> s2 <> SOk \/ b3 = move_catch_code)).
    { unfold err_check in Hchk. destruct s1 as [|e msg|n|].
      - injection Hchk as <- <- <-. split; [split; assumption|]. split; [exact X3|]. split; [reflexivity|]. intros Hp. left. exact (B2 Hp).
      - cbv zeta in Hchk.
        assert (HVe : VInv bits cap true (set_page_err v1 msg)) by (destruct msg; exact X2).
        assert (Hbe : base_empty (v_ca (set_page_err v1 msg))) by (rewrite set_page_err_ca; exact B1).
        destruct (getf _ FLAG_LOADFAIL && negb _); injection Hchk as <- <- <-.
        + split; [split; assumption|]. split; [apply cok_move_catch|]. split; [reflexivity|]. intros _. right. reflexivity.
        + split; [split; assumption|]. split; [exact X3|]. split; [reflexivity|]. intros _. left. discriminate.
      - discriminate X1.
      - injection Hchk as <- <- <-. split; [split; assumption|]. split; [exact X3|]. split; [reflexivity|]. intros _. left. discriminate. }
    destruct Hc2 as ([HV2 Hb2] & Hco3 & Hnp2 & Hp2).
    unfold after_check in H.
    destruct s2; try (injection H as <- <- <-; split; [split; assumption|]; split; [exact Hco3|discriminate]).
    destruct b3 as [|y b3'].
    + pose proof (dead_check_safe bits cap true v2 HV2) as (Z1 & Z2 & Z3).
      destruct (dead_check v2) as [[v3 b4] s3] eqn:Hdc. cbn [fst snd] in Z1, Z2, Z3.
      assert (Hd3 : v_ca v3 = v_ca v2 /\ s_path (v_st v3) = s_path (v_st v2)).
      { unfold dead_check in Hdc. destruct (negb (getf (v_st v2) FLAG_READIN)); [injection Hdc as <- _ _; auto|].
        destruct (getf (v_st v2) FLAG_TERMINATE); [injection Hdc as <- _ _; auto|].
        destruct (where_sym (v_st v2)); [injection Hdc as <- _ _; auto|].
        destruct (bytes_eqb _ catch_sym); injection Hdc as <- _ _; auto. }
      destruct Hd3 as [D1 D2].
      assert (Hb3 : base_empty (v_ca v3)) by (rewrite D1; exact Hb2).
      assert (Hpne : s_path (v_st v2) <> []).
      { intros Hp. destruct (Hp2 Hp) as [Hx|Hx]; [congruence|].
        revert Hx. change move_catch_code with (encode (IMove catch_sym)).
        destruct (encode_shape (IMove catch_sym)) as (a0 & bb0 & t0 & E). rewrite E. discriminate. }
      destruct s3; try (injection H as <- <- <-; split; [split; assumption|]; split; [exact Z3|discriminate]).
      destruct b4 as [|z b4'].
      * injection H as <- <- <-. split; [split; assumption|]. split; [constructor|]. intros _ _. left. reflexivity.
      * eapply IH; [split; [exact Z2|exact Hb3]|exact Z3| |exact H]. intros Hp. rewrite D2 in Hp. contradiction.
    + eapply IH; [split; [exact HV2|exact Hb2]|exact Hco3| |exact H].
      intros Hp. destruct (Hp2 Hp) as [Hx|Hx]; [congruence|]. rewrite Hx. apply move_only_catch.
Qed.

(* ======================================================================================== *)
(* 4. the recovery run inside Render (MOVE _catch after a browse error) keeps a position       *)
(* ======================================================================================== *)
(* code whose instructions up to and including the first HALT do not navigate *)
Inductive calm : bytes -> Prop :=
| calm_halt : forall b r, decode_one b = Ok (IHalt, r) -> calm b
| calm_step : forall b i r, decode_one b = Ok (i, r) -> navigating i = false -> i <> IHalt -> calm r -> calm b.

Lemma parse_args_halt_inv : forall op b r, parse_args op b = Ok (IHalt, r) -> op = op_HALT.
Proof.
  intros op b r H. unfold parse_args in H.
  repeat match type of H with
  | (if ?c then _ else _) = _ => destruct c eqn:?E
  end;
  try (apply N.eqb_eq; assumption);
  exfalso;
  match type of H with
  | obind ?o _ = _ => destruct o as [[[[? ?] ?] ?]| |] || destruct o as [[[? ?] ?]| |] || destruct o as [[? ?]| |]
  | _ => idtac
  end; cbn [obind] in H; discriminate.
Qed.

Lemma exec_instr_quiet : forall rs sep lang i b v v' b' s,
  navigating i = false -> exec_instr rs sep lang i b v = (v', b', s) ->
  s_path (v_st v') = s_path (v_st v) /\ (b' = b \/ b' = []).
Proof.
  intros rs sep lang i b v v' b' s Hn H. destruct i; try discriminate Hn; cbn [exec_instr] in H.
  - injection H as <- <- _. auto.
  - unfold run_croak in H. destruct (match_flag (v_st v) sig mode) as [[|]| |]; injection H as <- <- _; auto.
  - unfold run_load in H. destruct (cache_get (v_ca v) sym); try (injection H as <- <- _; auto).
    destruct (refresh rs lang sym v) as [[v1 content] s1] eqn:Hr.
    destruct (refresh_path _ _ _ _ _ _ _ Hr) as [P1 _].
    destruct s1; try (injection H as <- <- _; auto).
    destruct (cache_add (v_ca v1) sym content (w16 sz)) as [ca'|e0|]; try (injection H as <- <- _; auto).
    destruct e0; injection H as <- <- _; auto.
  - unfold run_reload in H. destruct (refresh rs lang sym v) as [[v1 content] s1] eqn:Hr.
    destruct (refresh_path _ _ _ _ _ _ _ Hr) as [P1 _].
    destruct s1; try (injection H as <- <- _; auto).
    destruct (cache_update_raw (v_ca v1) sym content) as [ca' oe].
    destruct (page_map _ _ sym); injection H as <- <- _; auto.
  - unfold run_map in H. destruct (page_map _ _ sym); injection H as <- <- _; auto.
  - injection H as <- <- _. auto.
  - injection H as <- <- _. auto.
  - injection H as <- <- _. auto.
  - injection H as <- <- _. auto.
  - injection H as <- <- _. auto.
Qed.

Lemma dead_check_path : forall v v' b s, dead_check v = (v', b, s) -> s_path (v_st v') = s_path (v_st v) /\ v_ca v' = v_ca v.
Proof.
  intros v v' b s H. unfold dead_check in H. destruct (negb (getf (v_st v) FLAG_READIN)); [injection H as <- _ _; auto|].
  destruct (getf (v_st v) FLAG_TERMINATE); [injection H as <- _ _; auto|].
  destruct (where_sym (v_st v)); [injection H as <- _ _; auto|].
  destruct (bytes_eqb _ catch_sym); injection H as <- _ _; auto.
Qed.
Lemma dead_check_at_catch : forall v v' b s, where_sym (v_st v) = catch_sym -> dead_check v = (v', b, s) -> s = SOk -> b = [].
Proof.
  intros v v' b s Hw H Hs. unfold dead_check in H. destruct (negb (getf (v_st v) FLAG_READIN)); [injection H as _ <- _; reflexivity|].
  destruct (getf (v_st v) FLAG_TERMINATE); [injection H as _ <- _; reflexivity|].
  rewrite Hw in H. change (bytes_eqb catch_sym catch_sym) with true in H. cbv iota in H.
  change catch_sym with [95; 99; 97; 116; 99; 104] in H. cbv iota in H. injection H as _ _ <-. discriminate.
Qed.

(* at the catch node, calm code never changes the position *)
Lemma run_calm : forall rs sep fuel lang b v v' b' s,
  calm b -> where_sym (v_st v) = catch_sym -> run fuel rs sep lang b v = (v', b', s) ->
  s_path (v_st v') = s_path (v_st v).
Proof.
  intros rs sep. induction fuel as [|fuel IH]; intros lang b v v' b' s Hc Hw H.
  - rewrite run_O in H. injection H as <- _ _. reflexivity.
  - rewrite run_S in H. destruct (getf (v_st v) FLAG_TERMINATE); [injection H as <- _ _; reflexivity|].
    cbv zeta in H.
    assert (Hp0 : s_path (v_st (pre_vm v)) = s_path (v_st v)) by (rewrite v_st_pre_vm; apply path_pre_st).
    assert (Hdec : exists i r, decode_one b = Ok (i, r) /\ navigating i = false /\ (i <> IHalt -> calm r)).
    { destruct Hc as [b r Hd|b i r Hd Hn Hh Hr]; [exists IHalt, r|exists i, r]; repeat split; auto. congruence. }
    destruct Hdec as (i & r & Hd & Hnav & Hrest).
    destruct (decode_one_split _ _ _ Hd) as (op & b1 & Hop & Hpa).
    rewrite Hop, Hpa in H. unfold step_instr in H. rewrite Hpa in H.
    destruct (exec_instr rs sep (pre_lang lang (v_st v)) i r (vlog (pre_vm v) (EvInstr op))) as [[v1 b2] s1] eqn:He.
    destruct (exec_instr_quiet _ _ _ _ _ _ _ _ _ Hnav He) as [Q1 Q2]. cbn [v_st vlog] in Q1. rewrite Hp0 in Q1.
    destruct (op =? op_HALT) eqn:Eop; [injection H as <- _ _; exact Q1|].
    assert (Hnh : i <> IHalt).
    { intros ->. apply parse_args_halt_inv in Hpa. subst op. rewrite N.eqb_refl in Eop. discriminate. }
    specialize (Hrest Hnh).
    assert (Hw1 : where_sym (v_st v1) = catch_sym) by (unfold where_sym in *; rewrite Q1; exact Hw).
    destruct (err_check (v1, b2, s1)) as [[v2 b3] s2] eqn:Hchk.
    assert (Hc2 : s_path (v_st v2) = s_path (v_st v) /\ (s2 = SOk -> b3 = b2)).
    { unfold err_check in Hchk. destruct s1 as [|e msg|n|]; try (injection Hchk as <- <- <-; auto).
      cbv zeta in Hchk. rewrite set_page_err_st, Hw1 in Hchk.
      change (bytes_eqb catch_sym catch_sym) with true in Hchk. rewrite andb_false_r in Hchk.
      injection Hchk as <- <- <-. rewrite set_page_err_st. split; [exact Q1|discriminate]. }
    destruct Hc2 as [P2 Hb3].
    assert (Hw2 : where_sym (v_st v2) = catch_sym) by (unfold where_sym in *; rewrite P2; exact Hw).
    unfold after_check in H. destruct s2; try (injection H as <- _ _; exact P2).
    specialize (Hb3 eq_refl). subst b3.
    destruct b2 as [|y b2'].
    + destruct (dead_check v2) as [[v3 b4] s3] eqn:Hdc.
      destruct (dead_check_path _ _ _ _ Hdc) as [D1 _].
      destruct s3; try (injection H as <- _ _; congruence).
      rewrite (dead_check_at_catch _ _ _ _ Hw2 Hdc eq_refl) in H. injection H as <- _ _. congruence.
    + destruct Q2 as [Q2|Q2]; [|discriminate]. rewrite Q2 in H.
      rewrite (IH _ _ _ _ _ _ Hrest Hw2 H). exact P2.
Qed.

(* the node _catch is calm: the recovery run cannot leave the session without a position *)
Definition catch_calm (rs : rsrc) : Prop := forall c, rs_code rs catch_sym = Ok c -> c = [] \/ calm c.

Lemma run_move_catch_path : forall rs sep, catch_calm rs ->
  forall fuel lang v v' b' s,
  s_path (v_st v) <> [] -> c_frames (v_ca v) <> [] ->
  run fuel rs sep lang move_catch_code v = (v', b', s) -> s_path (v_st v') <> [].
Proof.
  intros rs sep Hcc. induction fuel as [|fuel IH]; intros lang v v' b' s Hp Hne H.
  - rewrite run_O in H. injection H as <- _ _. exact Hp.
  - destruct (getf (v_st v) FLAG_TERMINATE) eqn:Ht.
    { rewrite run_terminate_blocks in H by exact Ht. injection H as <- _ _. exact Hp. }
    unfold move_catch_code in H. rewrite <- (app_nil_r (encode (IMove catch_sym))) in H.
    rewrite run_S_encoded in H by (try exact Ht; exact wf_catch_sym).
    cbv zeta in H. cbn [opcode_of exec_instr] in H. change (op_MOVE =? op_HALT) with false in H. cbv iota in H.
    set (v0 := vlog (pre_vm v) (EvInstr op_MOVE)) in *.
    assert (Hp0 : s_path (v_st v0) = s_path (v_st v)) by (unfold v0; cbn [v_st vlog]; rewrite v_st_pre_vm; apply path_pre_st).
    unfold run_move in H.
    destruct (apply_target catch_sym (v_st v0) (v_ca v0)) as [[[st' ca'] nsym] s1] eqn:Ha.
    assert (Hne0 : c_frames (v_ca v0) <> []) by exact Hne.
    assert (Hcase : s1 = SOk \/ s1 <> SOk) by (destruct s1; [left; reflexivity|right; discriminate ..]).
    destruct Hcase as [->|Hs1].
    + destruct (apply_ok_exact _ _ _ _ _ _ Hne0 Ha) as (Hcode & Hsym & _ & Hca).
      apply nav_code_shape in Hcode. change (valid_sym_b catch_sym) with true in Hcode, Hca. cbv iota in Hcode, Hca.
      unfold pos_of in Hcode. cbn [fst snd] in Hcode. destruct Hcode as [Hpath _].
      assert (Hw' : where_sym st' = catch_sym) by (unfold where_sym; rewrite Hpath; apply last_last).
      assert (Hp' : s_path st' <> []) by (rewrite Hpath; destruct (s_path (v_st v0)); discriminate).
      destruct (fetch_code rs nsym _) as [v2 c] eqn:Hf.
      assert (Hv2 : v_st v2 = st' /\ c = rs_code rs nsym).
      { unfold fetch_code in Hf. injection Hf as <- <-. destruct (rs_observed rs); auto. }
      destruct Hv2 as [E1 E2]. rewrite Hsym, Hw' in E2.
      destruct c as [code|e|n].
      * cbn [List.app err_check after_check] in H.
        destruct (Hcc code (eq_sym E2)) as [->|Hcalm].
        -- destruct (dead_check _) as [[v3 b4] s3] eqn:Hdc.
           destruct (dead_check_path _ _ _ _ Hdc) as [D1 _]. cbn [v_st vset_pg] in D1.
           assert (Hw3 : where_sym (v_st (vset_pg v2 (vm_reset sep (v_pg v2)))) = catch_sym) by (cbn [v_st vset_pg]; rewrite E1; exact Hw').
           destruct s3; try (injection H as <- _ _; rewrite D1, E1; exact Hp').
           rewrite (dead_check_at_catch _ _ _ _ Hw3 Hdc eq_refl) in H. injection H as <- _ _. rewrite D1, E1; exact Hp'.
        -- destruct code as [|y code]; [inversion Hcalm as [? ? Hd|? ? ? Hd]; discriminate Hd|].
           erewrite run_calm; [|exact Hcalm| |exact H]; cbn [v_st vset_pg]; rewrite E1; assumption.
      * cbn [err_check] in H. cbv zeta in H. rewrite set_page_err_st, E1, Hw' in H.
        change (bytes_eqb catch_sym catch_sym) with true in H. rewrite andb_false_r in H.
        cbn [after_check] in H. injection H as <- _ _. change (s_path (v_st v2) <> []). rewrite E1. exact Hp'.
      * cbn [err_check after_check] in H. injection H as <- _ _. rewrite E1. exact Hp'.
    + destruct (apply_fail_unchanged _ _ _ _ _ _ _ Hne0 Ha Hs1) as [-> ->].
      assert (Hv1 : vset_ca (vset_st v0 (v_st v0)) (v_ca v0) = v0) by (destruct v0; reflexivity).
      rewrite Hv1 in H.
      destruct s1 as [|e m|n|]; [congruence| | |].
      * cbn [err_check] in H. cbv zeta in H.
        destruct (getf (v_st (set_page_err v0 m)) FLAG_LOADFAIL && negb (bytes_eqb (where_sym (v_st (set_page_err v0 m))) catch_sym)).
        -- cbn [after_check] in H. revert H. change move_catch_code with (encode (IMove catch_sym)).
           destruct (encode_shape (IMove catch_sym)) as (a0 & bb0 & t0 & E). rewrite E. intros H. rewrite <- E in H.
           eapply (IH _ (set_page_err v0 m)); [| |exact H]; [rewrite set_page_err_st, Hp0; exact Hp|rewrite set_page_err_ca; exact Hne0].
        -- cbn [after_check] in H. injection H as <- _ _. rewrite set_page_err_st, Hp0. exact Hp.
      * cbn [err_check after_check] in H. injection H as <- _ _. rewrite Hp0. exact Hp.
      * cbn [err_check after_check] in H. injection H as <- _ _. rewrite Hp0. exact Hp.
Qed.

(* ======================================================================================== *)
(* 5. Render, reset, and the engine                                                           *)
(* ======================================================================================== *)
Lemma VB_flagish : forall bits cap v st', VB bits cap v -> flagish (v_st v) st' -> VB bits cap (vset_st v st').
Proof. intros bits cap v st' [HV Hb] Hf. split; [|exact Hb]. unfold VInv. cbn [v_st v_ca vset_st]. eapply SC_flagish; eauto. Qed.

Lemma vm_render_base : forall bits cap rs sep fuel lang v v' r,
  rs_wf bits cap true rs -> rs_named rs -> catch_calm rs -> VB bits cap v ->
  vm_render fuel rs sep lang v = (v', r) ->
  VB bits cap v' /\ (s_path (v_st v') = [] -> s_path (v_st v) = []).
Proof.
  intros bits cap rs sep fuel lang v v' r Hrs Hnm Hcc HVB H.
  unfold vm_render in H.
  destruct (negb (getf (v_st v) FLAG_DIRTY)); [injection H as <- _; auto|]. cbv zeta in H. cbn [v_st vset_st] in H.
  pose proof (VB_flagish _ _ _ _ HVB (flagish_resetf (v_st v) FLAG_DIRTY)) as HVB0.
  destruct (where_sym (resetf (v_st v) FLAG_DIRTY)) as [|x l] eqn:Hw; [injection H as <- _; auto|].
  assert (Hpne : s_path (v_st v) <> []).
  { intros Hp. unfold where_sym in Hw. cbn [s_path resetf set_flags] in Hw. rewrite Hp in Hw. discriminate. }
  destruct (page_render _ _ _ _ _ _) as [r0 pg'].
  assert (Hdone : forall r1, (vlog (vset_pg (vset_st v (resetf (v_st v) FLAG_DIRTY)) pg') (EvRender (x :: l) (s_idx (resetf (v_st v) FLAG_DIRTY)) lang), r1) = (v', r) ->
     VB bits cap v' /\ (s_path (v_st v') = [] -> s_path (v_st v) = [])).
  { intros r1 E. injection E as <- _. split; [exact HVB0|auto]. }
  destruct r0 as [o|e|n]; try (eapply Hdone; exact H).
  destruct e; try (eapply Hdone; exact H).
  destruct (run fuel rs sep lang move_catch_code _) as [[v1 b1] s1] eqn:Hrun.
  match type of Hrun with run _ _ _ _ _ ?vb = _ => set (vB := vb) in * end.
  assert (HVBb : VB bits cap vB) by exact HVB0.
  assert (HpB : s_path (v_st vB) <> []) by exact Hpne.
  destruct (run_base bits cap rs sep Hrs Hnm fuel lang move_catch_code vB v1 b1 s1 HVBb (cok_move_catch _ _)) as (HVB1 & _ & _);
    [intros Hp; contradiction|exact Hrun|].
  assert (Hp1 : s_path (v_st v1) <> []).
  { eapply (run_move_catch_path rs sep Hcc); [exact HpB| |exact Hrun].
    destruct HVBb as [(_ & _ & _ & Hne & _) _]. exact Hne. }
  destruct s1; try (injection H as <- _; split; [exact HVB1|intros; contradiction]);
    destruct (page_render _ _ _ _ _ _) as [r1 pg1]; injection H as <- _; (split; [exact HVB1|intros; contradiction]).
Qed.

(* the reset: every level popped; the base scope stays what it was *)
Lemma unwind_base : forall fuel st ca st' ca' s, base_empty ca -> unwind fuel st ca = (st', ca', s) -> base_empty ca'.
Proof.
  induction fuel as [|fuel IH]; intros st ca st' ca' s Hb H; cbn [unwind] in H; [injection H as _ <- _; exact Hb|].
  destruct (st_top st) as [t| |]; try (injection H as _ <- _; exact Hb).
  destruct (st_up st) as [[sy st1]| |]; try (injection H as _ <- _; exact Hb).
  pose proof (base_pop_lenient ca Hb) as Hb1.
  destruct t; [injection H as _ <- _; exact Hb1|]. eapply IH; [exact Hb1|exact H].
Qed.

Lemma eng_reset_inner_base : forall bits cap v v' s,
  VB bits cap v -> eng_reset_inner v = (v', s) ->
  VB bits cap v' /\ s_code (v_st v') = s_code (v_st v) /\ (s = SOk -> s_path (v_st v') = []).
Proof.
  intros bits cap v v' s [HV Hb] H.
  pose proof (eng_reset_inner_safe bits cap true v HV) as [_ S2]. rewrite H in S2. cbn [fst] in S2.
  unfold eng_reset_inner in H.
  destruct (unwind _ (v_st v) (v_ca v)) as [[st ca] s1] eqn:Hu.
  pose proof (unwind_base _ _ _ _ _ _ Hb Hu) as Hb1.
  pose proof (unwind_sbp _ _ _ _ _ _ Hu) as (Hcode & _).
  pose proof (unwind_SC bits cap true (S (List.length (s_path (v_st v)))) (v_st v) (v_ca v) HV ltac:(lia)) as (_ & _ & U3).
  rewrite Hu in U3. cbn [fst snd] in U3.
  destruct s1; try (injection H as <- <-; split; [split; [exact S2|exact Hb1]|]; split; [symmetry; exact Hcode|discriminate]).
  injection H as <- <-. split; [split; [exact S2|exact Hb1]|]. cbn [v_st vset_ca vset_st].
  assert (Er : st_restart st = Err EGen) by (unfold st_restart; rewrite (U3 eq_refl); reflexivity).
  rewrite Er. split; [symmetry; exact Hcode|]. intros _. exact (U3 eq_refl).
Qed.

(* engine invariant *)
Definition EB (bits cap : N) (e : engine) : Prop :=
  VB bits cap (e_v e)
  /\ (s_path (v_st (e_v e)) = [] -> move_only (s_code (v_st (e_v e))))
  /\ (e_exiting e = true -> s_code (v_st (e_v e)) = []).

Lemma move_only_nil : move_only []. Proof. left. reflexivity. Qed.

Lemma eng_flush_base : forall bits cap fuel rs c e e' out f,
  rs_wf bits cap true rs -> rs_named rs -> catch_calm rs -> EB bits cap e ->
  eng_flush fuel rs c e = (e', out, f) -> EB bits cap e'.
Proof.
  intros bits cap fuel rs c e e' out f Hrs Hnm Hcc (HVB & Hmo & Hex) H. unfold eng_flush in H.
  destruct (negb (e_execd e)); [injection H as <- _ _; exact (conj HVB (conj Hmo Hex))|].
  destruct (vm_render fuel rs (c_sep c) _ (e_v e)) as [v r] eqn:Hr.
  destruct (vm_render_base _ _ _ _ _ _ _ _ _ Hrs Hnm Hcc HVB Hr) as [HVB1 Hp1].
  assert (Hcode : s_code (v_st v) = s_code (v_st (e_v e))).
  { apply vm_render_shape in Hr. destruct Hr as (_ & _ & Hc & _). symmetry. exact Hc. }
  assert (Hkeep : EB bits cap (eset_v e v)).
  { split; [exact HVB1|]. cbn [e_v eset_v e_exiting]. rewrite Hcode. split; [intros Hp; apply Hmo; apply Hp1; exact Hp|exact Hex]. }
  assert (Hreset : forall v2 s2 i x d, eng_reset_inner v = (v2, s2) -> e_exiting e = true -> EB bits cap (mkEng v2 i x false d)).
  { intros v2 s2 i x d E Hq. destruct (eng_reset_inner_base _ _ _ _ _ HVB1 E) as (HVB2 & Hc2 & _).
    split; [exact HVB2|]. cbn [e_v e_exiting]. rewrite Hc2, Hcode, (Hex Hq). split; [intros _; apply move_only_nil|discriminate]. }
  cbn [eset_v e_v e_exit e_exiting e_initd e_execd] in H.
  destruct r as [o|er|n|]; try (injection H as <- _ _; exact Hkeep).
  - destruct ((0 <? c_out c) && (0 <? len (e_exit e)) && (c_out c <? w32 (len (e_exit e) + len o))).
    + destruct (e_exiting e) eqn:Hq; [|injection H as <- _ _; exact Hkeep].
      destruct (eng_reset_inner v) as [v2 s2] eqn:E. injection H as <- _ _. eapply Hreset; eauto.
    + destruct (e_exiting e) eqn:Hq; [|destruct (e_exit e); injection H as <- _ _; exact Hkeep].
      destruct (eng_reset_inner v) as [v2 s2] eqn:E.
      destruct (e_exit e); destruct s2; injection H as <- _ _; eapply Hreset; eauto.
  - destruct ((0 <? c_out c) && (0 <? len (e_exit e)) && (c_out c <? w32 (len (e_exit e) + 0))).
    + destruct (e_exiting e) eqn:Hq; [|injection H as <- _ _; exact Hkeep].
      destruct (eng_reset_inner v) as [v2 s2] eqn:E. injection H as <- _ _. eapply Hreset; eauto.
    + destruct (e_exit e) as [|y ex]; [injection H as <- _ _; exact Hkeep|].
      destruct (e_exiting e) eqn:Hq; [|injection H as <- _ _; exact Hkeep].
      destruct (eng_reset_inner v) as [v2 s2] eqn:E.
      destruct s2; injection H as <- _ _; eapply Hreset; eauto.
Qed.

Lemma set_code_eng_base : forall bits cap e b e' cont,
  EB bits cap e -> e_exiting e = false -> cok bits true b ->
  (s_path (v_st (e_v e)) = [] -> move_only b) ->
  set_code_eng e b = (e', cont) -> EB bits cap e'.
Proof.
  intros bits cap e b e' cont ([HV Hb] & _ & _) Hq Hc Hmo H.
  pose proof (set_code_eng_safe bits cap true e b HV Hc) as HS. rewrite H in HS. cbn [fst] in HS.
  unfold set_code_eng in H. cbv zeta in H. destruct b as [|x b'].
  - destruct (getf (set_code (v_st (e_v e)) []) FLAG_DIRTY).
    + destruct (cache_last (v_ca (e_v e))) as [lst ca'] eqn:Hl. injection H as <- _.
      split; [split; [exact HS|]|].
      * cbn [e_v v_ca vset_ca]. unfold cache_last in Hl. injection Hl as _ <-. exact Hb.
      * cbn [e_v v_st vset_ca vset_st e_exiting s_code s_path set_code]. split; [intros _; apply move_only_nil|reflexivity].
    + injection H as <- _. split; [split; [exact HS|exact Hb]|].
      cbn [e_v eset_v v_st vset_st e_exiting s_code s_path set_code]. split; [intros _; apply move_only_nil|reflexivity].
  - injection H as <- _. split; [split; [exact HS|exact Hb]|].
    cbn [e_v eset_v v_st vset_st e_exiting s_code s_path set_code]. split; [exact Hmo|]. rewrite Hq. discriminate.
Qed.

Lemma move_only_root : forall c, wf_sym (cfg_root c) -> move_only (encode (IMove (cfg_root c))).
Proof. intros c H. right. exists (cfg_root c). auto. Qed.

Lemma EB_set_input : forall bits cap e st', EB bits cap e -> set_input (v_st (e_v e)) st' = set_input (v_st (e_v e)) st' ->
  forall i st1, set_input (v_st (e_v e)) i = Ok st1 -> EB bits cap (eset_v e (vset_st (e_v e) st1)).
Proof.
  intros bits cap e _ ([HV Hb] & Hmo & Hex) _ i st1 Hs.
  pose proof (set_input_SC bits cap true (v_st (e_v e)) (v_ca (e_v e)) i HV) as HS. rewrite Hs in HS.
  assert (E : st1 = set_input_raw (v_st (e_v e)) i).
  { unfold set_input in Hs. destruct i as [x|]; [destruct (INPUT_LIMIT <? len x); [discriminate|]|]; injection Hs as <-; reflexivity. }
  split; [split; [exact HS|exact Hb]|]. cbn [e_v eset_v v_st vset_st e_exiting]. rewrite E. exact (conj Hmo Hex).
Qed.

Lemma eng_init_base : forall bits cap fuel rs c e input e' cont s,
  rs_wf bits cap true rs -> rs_named rs -> catch_calm rs -> c_first c = None -> wf_sym (cfg_root c) ->
  EB bits cap e -> eng_init fuel rs c e input = (e', cont, s) ->
  EB bits cap e' /\ (s = SOk -> e_exiting e' = false).
Proof.
  intros bits cap fuel rs c e input e' cont s Hrs Hnm Hcc Hf Hroot HE H. unfold eng_init in H.
  destruct (if e_execd e then _ else _) as [e1 s1] eqn:Hprep.
  assert (HE1 : EB bits cap e1).
  { destruct (e_execd e); [|injection Hprep as <- _; exact HE].
    destruct (eng_flush fuel rs c e) as [[e0 o0] f0] eqn:Hfl. injection Hprep as <- _.
    eapply eng_flush_base; eauto. }
  destruct s1; try (injection H as <- _ <-; split; [exact HE1|discriminate]).
  set (e2 := mkEng (e_v e1) (e_initd e1) [] false false) in *.
  assert (HE2 : EB bits cap e2).
  { destruct HE1 as (A & B & _). split; [exact A|]. split; [exact B|discriminate]. }
  cbn [e_initd e_v] in H. change (e_initd e2) with (e_initd e1) in H.
  destruct (e_initd e1); [injection H as <- _ _; split; [exact HE2|reflexivity]|].
  change (e_v e2) with (e_v e1) in H.
  destruct (set_input (v_st (e_v e1)) (Some input)) as [st1| |] eqn:Hsi;
    try (injection H as <- _ <-; split; [exact HE2|discriminate]).
  pose proof (EB_set_input bits cap e2 (Some input) HE2 eq_refl (Some input) st1 Hsi) as HE3.
  unfold run_first in H. rewrite Hf in H. cbn [negb] in H.
  set (e3 := eset_v e2 (vset_st (e_v e1) st1)) in *.
  change (eset_v e2 (vset_st (e_v e2) st1)) with e3 in HE3.
  destruct (match s_code (v_st (e_v e3)) with [] => _ | _ => _ end) as [e4' s4] eqn:Hstale.
  assert (HE4 : EB bits cap e4' /\ e_exiting e4' = false).
  { destruct (s_code (v_st (e_v e3))) eqn:Hc3; [|injection Hstale as <- _; split; [exact HE3|reflexivity]].
    destruct (s_path (v_st (e_v e3))); [injection Hstale as <- _; split; [exact HE3|reflexivity]|].
    destruct (getf (v_st (e_v e3)) FLAG_TERMINATE); [injection Hstale as <- _; split; [exact HE3|reflexivity]|].
    destruct (eng_reset_inner (e_v e3)) as [v' s'] eqn:E. injection Hstale as <- _.
    destruct (eng_reset_inner_base _ _ _ _ _ (proj1 HE3) E) as (HVB' & Hc' & _).
    split; [|reflexivity]. split; [exact HVB'|]. cbn [e_v eset_v e_exiting]. rewrite Hc', Hc3.
    split; [intros _; apply move_only_nil|discriminate]. }
  destruct HE4 as [HE4 Hq4].
  destruct s4; try (injection H as <- _ <-; split; [exact HE4|discriminate]).
  destruct (match s_code (v_st (e_v e4')) with [] => _ | _ => _ end) as [e5 cont5] eqn:Hsc.
  assert (HE5 : EB bits cap e5 /\ e_exiting e5 = false).
  { destruct (s_code (v_st (e_v e4'))); [|injection Hsc as <- _; split; [exact HE4|exact Hq4]].
    split.
    - eapply set_code_eng_base; [exact HE4|exact Hq4|apply cok_move_root; exact Hroot| |exact Hsc].
      intros _. apply move_only_root. exact Hroot.
    - unfold set_code_eng in Hsc. destruct (encode_move_cons (cfg_root c)) as (a0 & b0 & r0 & E). rewrite E in Hsc.
      injection Hsc as <- _. exact Hq4. }
  destruct HE5 as [HE5 Hq5].
  injection H as <- _ _. split; [|intros _; exact Hq5].
  destruct HE5 as ([HV5 Hb5] & Hmo5 & Hex5).
  split; [split; [|exact Hb5]|exact (conj Hmo5 Hex5)].
  unfold VInv. cbn [e_v v_st v_ca vset_st]. apply SC_set_input_raw; [exact HV5|].
  intros _. destruct HE2 as ([(_ & _ & _ & _ & K) _] & _). destruct (K eq_refl) as (_ & _ & _ & Hin). exact Hin.
Qed.

Lemma VB_set_code : forall bits cap v b, VB bits cap v -> cok bits true b -> VB bits cap (vset_st v (set_code (v_st v) b)).
Proof. intros bits cap v b [HV Hb] Hc. split; [|exact Hb]. unfold VInv. cbn [v_st v_ca vset_st]. apply SC_set_code; assumption. Qed.

Lemma eng_exec_inner_base : forall bits cap fuel rs c e e' cont s,
  rs_wf bits cap true rs -> rs_named rs -> EB bits cap e -> e_exiting e = false ->
  eng_exec_inner fuel rs c e = (e', cont, s) -> EB bits cap e'.
Proof.
  intros bits cap fuel rs c e e' cont s Hrs Hnm (HVB & Hmo & _) Hq H. unfold eng_exec_inner in H. cbv zeta in H.
  pose proof (VB_set_code bits cap (e_v e) [] HVB ltac:(constructor)) as HVB0.
  assert (Hcok : cok bits true (s_code (v_st (e_v e)))).
  { destruct HVB as [(_ & _ & Hc & _) _]. exact Hc. }
  destruct (s_code (v_st (e_v e))) as [|x code] eqn:Hc.
  - injection H as <- _ _. split; [exact HVB0|]. cbn [e_v eset_v v_st vset_st s_code s_path set_code e_exiting].
    split; [intros _; apply move_only_nil|rewrite Hq; discriminate].
  - destruct (run fuel rs (c_sep c) _ (x :: code) _) as [[v1 b] s1] eqn:Hrun.
    destruct (run_base bits cap rs (c_sep c) Hrs Hnm _ _ _ _ _ _ _ HVB0 Hcok Hmo Hrun) as (HVB1 & Hcb & Hmb).
    assert (Hc1 : s_code (v_st v1) = []).
    { apply run_shape in Hrun. destruct Hrun as (_ & _ & Hx & _). rewrite <- Hx. reflexivity. }
    assert (HEe : forall i x0 d, EB bits cap (mkEng v1 i x0 false d)).
    { intros i x0 d. split; [exact HVB1|]. cbn [e_v e_exiting]. rewrite Hc1. split; [intros _; apply move_only_nil|discriminate]. }
    destruct s1.
    + rewrite Hq in H. destruct (getf (v_st v1) FLAG_TERMINATE); [injection H as <- _ _; apply HEe|].
      destruct (set_code_eng _ b) as [e2 cont2] eqn:Hsc. injection H as <- _ _.
      eapply set_code_eng_base; [apply HEe|reflexivity|exact Hcb| |exact Hsc]. cbn [e_v]. exact (Hmb eq_refl).
    + injection H as <- _ _. unfold eset_v. rewrite Hq. apply HEe.
    + injection H as <- _ _. unfold eset_v. rewrite Hq. apply HEe.
    + injection H as <- _ _. unfold eset_v. rewrite Hq. apply HEe.
Qed.

Lemma eng_exec_base : forall bits cap fuel rs c e input e' cont s,
  rs_wf bits cap true rs -> rs_named rs -> catch_calm rs -> c_first c = None -> wf_sym (cfg_root c) ->
  EB bits cap e -> eng_exec fuel rs c e input = (e', cont, s) -> EB bits cap e'.
Proof.
  intros bits cap fuel rs c e input e' cont s Hrs Hnm Hcc Hf Hroot HE H. unfold eng_exec in H.
  destruct (eng_init fuel rs c e input) as [[e1 cont1] s1] eqn:Hi.
  destruct (eng_init_base _ _ _ _ _ _ _ _ _ _ Hrs Hnm Hcc Hf Hroot HE Hi) as [HE1 Hq1].
  destruct s1; try (injection H as <- _ _; exact HE1). specialize (Hq1 eq_refl).
  destruct (negb cont1); [injection H as <- _ _; exact HE1|].
  destruct (if c_reset_empty c && (len input =? 0) then _ else _) as [e2 s2] eqn:Hre.
  assert (HE2 : EB bits cap e2 /\ e_exiting e2 = false).
  { destruct (c_reset_empty c && (len input =? 0)); [|injection Hre as <- _; auto].
    unfold eng_reset_force in Hre. destruct (s_path (v_st (e_v e1))); [injection Hre as <- _; auto|].
    destruct (eng_reset_inner _) as [v' s'] eqn:E. injection Hre as <- _.
    pose proof (VB_set_code bits cap (e_v e1) _ (proj1 HE1) (cok_move_root bits true c Hroot)) as HVBs.
    destruct (eng_reset_inner_base _ _ _ _ _ HVBs E) as (HVB' & Hc' & _).
    split; [|exact Hq1]. split; [exact HVB'|]. cbn [e_v eset_v e_exiting]. rewrite Hc'. cbn [v_st vset_st s_code set_code].
    split; [intros _; apply move_only_root; exact Hroot|rewrite Hq1; discriminate]. }
  destruct HE2 as [HE2 Hq2].
  destruct s2; try (injection H as <- _ _; exact HE2).
  destruct ((0 <? len input) && negb (valid_input_b input)); [injection H as <- _ _; exact HE2|].
  destruct (set_input (v_st (e_v e2)) (Some input)) as [st'| |] eqn:Hsi; try (injection H as <- _ _; exact HE2).
  pose proof (EB_set_input bits cap e2 (Some input) HE2 eq_refl (Some input) st' Hsi) as HE3.
  eapply eng_exec_inner_base; [exact Hrs|exact Hnm|exact HE3|exact Hq2|exact H].
Qed.

(* the stored session *)
Definition SB (bits cap : N) (sn : option snapshot) : Prop :=
  match sn with
  | Some (st, ca) => SC bits cap true st ca /\ base_empty ca /\ (s_path st = [] -> move_only (s_code st))
  | None => True
  end.

Lemma EB_snap : forall bits cap e, EB bits cap e -> SB bits cap (Some (snap_of (v_st (e_v e)) (v_ca (e_v e)))).
Proof.
  intros bits cap e ([HV Hb] & Hmo & _). unfold SB, snap_of. split; [|split; [exact Hb|exact Hmo]].
  apply SC_set_input_raw; [exact HV|intros _; exact I].
Qed.

Lemma new_engine_EB : forall c sn w lg, cfg_ok c -> SB (cfg_bits c) (c_cachesize c) sn ->
  EB (cfg_bits c) (c_cachesize c) (new_engine c sn w lg).
Proof.
  intros c sn w lg Hc HS. unfold new_engine. destruct sn as [[st ca]|].
  - destruct HS as (H1 & H2 & H3). split; [split; assumption|]. cbn [e_v v_st e_exiting]. split; [exact H3|discriminate].
  - split; [split; [apply fresh_SC; exact Hc|reflexivity]|]. cbn [e_v v_st e_exiting].
    split; [|discriminate]. intros _. left.
    unfold fresh_state. destruct (s_lang _); [cbn [s_code setf set_flags]|];
      unfold st_set_language; destruct (c_lang c); destruct (lang_lookup _); reflexivity.
Qed.

Lemma request_persisted_base : forall fuel rs c p input,
  rs_wf (cfg_bits c) (c_cachesize c) true rs -> rs_named rs -> catch_calm rs -> cfg_ok c -> c_first c = None ->
  SB (cfg_bits c) (c_cachesize c) (pw_store p) ->
  SB (cfg_bits c) (c_cachesize c) (pw_store (fst (request_persisted fuel rs c p input))).
Proof.
  intros fuel rs c p input Hrs Hnm Hcc Hc Hf HS. unfold request_persisted.
  set (e := new_engine c (pw_store p) (pw_w p) (pw_log p)).
  assert (HE : EB (cfg_bits c) (c_cachesize c) e) by (apply new_engine_EB; assumption).
  assert (H0 : SB (cfg_bits c) (c_cachesize c)
                 (match pw_store p with Some s => Some s | None => Some (snap_of (v_st (e_v e)) (v_ca (e_v e))) end)).
  { destruct (pw_store p) as [sn|] eqn:Hp; [exact HS|]. apply EB_snap. exact HE. }
  destruct (eng_exec fuel rs c e input) as [[e1 cont] s] eqn:Hx.
  pose proof (eng_exec_base _ _ _ _ _ _ _ _ _ _ Hrs Hnm Hcc Hf (proj1 Hc) HE Hx) as HE1.
  destruct s; try (cbn [fst pw_store]; exact H0).
  - destruct (eng_flush fuel rs c e1) as [[e2 out] f] eqn:Hfl.
    pose proof (eng_flush_base _ _ _ _ _ _ _ _ _ Hrs Hnm Hcc HE1 Hfl) as HE2.
    destruct f; cbn [fst pw_store]; try exact H0; unfold eng_finish; (destruct (e_initd e2); [apply EB_snap; exact HE2|exact H0]).
  - destruct (eng_flush fuel rs c e1) as [[e2 out] f] eqn:Hfl.
    pose proof (eng_flush_base _ _ _ _ _ _ _ _ _ Hrs Hnm Hcc HE1 Hfl) as HE2.
    destruct f; cbn [fst pw_store]; try exact H0; unfold eng_finish; (destruct (e_initd e2); [apply EB_snap; exact HE2|exact H0]).
Qed.

Lemma hist_pers_base : forall rs c,
  rs_wf (cfg_bits c) (c_cachesize c) true rs -> rs_named rs -> catch_calm rs -> cfg_ok c -> c_first c = None ->
  forall h p, SB (cfg_bits c) (c_cachesize c) (pw_store p) ->
  SB (cfg_bits c) (c_cachesize c) (pw_store (fst (hist_pers rs c p h))).
Proof.
  intros rs c Hrs Hnm Hcc Hc Hf. induction h as [|[fuel input] h IH]; intros p HS; cbn [hist_pers]; [exact HS|].
  pose proof (request_persisted_base fuel rs c p input Hrs Hnm Hcc Hc Hf HS) as H1.
  destruct (request_persisted fuel rs c p input) as [p' resp]. cbn [fst] in H1.
  specialize (IH p' H1). destruct (hist_pers rs c p' h) as [p'' resps]. exact IH.
Qed.

(* ======================================================================================== *)
(* 6. decidable guards on the application                                                     *)
(* ======================================================================================== *)
From Vise Require Import CorrBase EngineCorr EngineMon.

Fixpoint calm_prog (p : list instr) : bool :=
  match p with
  | [] => false
  | IHalt :: _ => true
  | i :: r => negb (navigating i) && calm_prog r
  end.
(* the catch node reaches a HALT before any MOVE / INCMP / CATCH (or does not exist / is empty) *)
Definition quiet_catch_b (a : app) : bool :=
  match alookup catch_sym (a_code a) with
  | Some [] => true
  | Some c => match parse_all c with Ok p => calm_prog p | _ => false end
  | None => true
  end.

Lemma calm_prog_cons : forall i q, calm_prog (i :: q) = true -> i = IHalt \/ (i <> IHalt /\ navigating i = false /\ calm_prog q = true).
Proof.
  intros i q H. destruct i; cbn [calm_prog navigating negb andb] in H; try discriminate; try (left; reflexivity);
    right; (split; [discriminate|split; [reflexivity|exact H]]).
Qed.

Lemma parse_all_fuel_calm : forall f b acc p,
  parse_all_fuel f b acc = Ok p -> exists q, p = rev acc ++ q /\ (calm_prog q = true -> calm b).
Proof.
  induction f as [|f IH]; intros b acc p H; cbn [parse_all_fuel] in H; [discriminate|].
  destruct (decode_one b) as [[i r]|e|s] eqn:D; try discriminate.
  destruct r as [|x r'].
  - inversion H; subst. exists [i]. split; [reflexivity|].
    intros Hq. destruct (calm_prog_cons _ _ Hq) as [->|(_ & _ & Hx)]; [eapply calm_halt; exact D|discriminate Hx].
  - apply IH in H. destruct H as [q [-> Hq]]. exists (i :: q). split.
    + cbn [rev]. rewrite <- app_assoc. reflexivity.
    + intros HF. destruct (calm_prog_cons _ _ HF) as [->|(Hh & Hn & Hx)]; [eapply calm_halt; exact D|].
      eapply calm_step; [exact D|exact Hn|exact Hh|exact (Hq Hx)].
Qed.

Lemma quiet_catch_sound : forall a, quiet_catch_b a = true -> catch_calm (app_rsrc a).
Proof.
  intros a H c Hc. cbn [app_rsrc rs_code] in Hc. unfold quiet_catch_b in H.
  destruct (alookup catch_sym (a_code a)) as [c0|]; [|discriminate]. injection Hc as <-.
  destruct c0 as [|x c0]; [left; reflexivity|right].
  destruct (parse_all (x :: c0)) as [p| |] eqn:Hp; try discriminate.
  unfold parse_all in Hp. destruct (parse_all_fuel_calm _ _ _ _ Hp) as (q & -> & Hq). exact (Hq H).
Qed.

Lemma no_anon_node_sound : forall a, has_node a [] = false -> rs_named (app_rsrc a).
Proof.
  intros a H c Hc. cbn [app_rsrc rs_code] in Hc. unfold has_node, ahas in H.
  destruct (alookup [] (a_code a)); [discriminate|discriminate].
Qed.

(* all guards of the history theorem, as one boolean (plus c_first c = None) *)
Definition c20_guards (a : app) (c : config) : bool :=
  wf_app_b a c && cfg_okb c && negb (has_croak a) && vals_small (c_cachesize c) a
  && negb (has_node a []) && quiet_catch_b a.

Lemma c20_guards_sound : forall a c, c20_guards a c = true ->
  rs_wf (cfg_bits c) (c_cachesize c) true (app_rsrc a) /\ rs_named (app_rsrc a) /\ catch_calm (app_rsrc a) /\ cfg_ok c.
Proof.
  intros a c H. unfold c20_guards in H.
  apply andb_true_iff in H. destruct H as [H G6]. apply andb_true_iff in H. destruct H as [H G5].
  apply andb_true_iff in H. destruct H as [H G4]. apply andb_true_iff in H. destruct H as [H G3].
  apply andb_true_iff in H. destruct H as [G1 G2].
  split; [apply wf_app_rs_wf_consistent; [exact G1| |exact G4]; destruct (has_croak a); [discriminate|reflexivity]|].
  split; [apply no_anon_node_sound; destruct (has_node a []); [discriminate|reflexivity]|].
  split; [apply quiet_catch_sound; exact G6|apply cfg_okb_sound; exact G2].
Qed.

(* every stored session reachable by a history from a new session *)
Lemma history_store_inv : forall a c w lg h,
  c20_guards a c = true -> c_first c = None ->
  SB (cfg_bits c) (c_cachesize c) (pw_store (fst (hist_pers (app_rsrc a) c (mkPw None w lg false) h))).
Proof.
  intros a c w lg h Hg Hf. destruct (c20_guards_sound a c Hg) as (Hrs & Hnm & Hcc & Hc).
  apply hist_pers_base; try assumption. exact I.
Qed.

(* ======================================================================================== *)
(* 7. C20: graceful end after any history, without a hypothesis on the session invariant      *)
(* ======================================================================================== *)
Lemma SB_builtin : forall c st ca, cfg_ok c -> SC (cfg_bits c) (c_cachesize c) true st ca -> builtin_flags_ok st.
Proof.
  intros c st ca (_ & Hfc & _) (Hb & Hl & _). unfold builtin_flags_ok, flag_in_range.
  unfold cfg_bits, w32 in *. rewrite N.mod_small in * by lia.
  change ((FLAG_LANG + 1) mod 4294967296) with 8. unfold FLAG_LANG.
  apply andb_true_intro. split; lia.
Qed.

Lemma prepared_VB : forall c st ca w lg input,
  cfg_ok c -> SB (cfg_bits c) (c_cachesize c) (Some (st, ca)) -> accepted_b input = true ->
  VB (cfg_bits c) (c_cachesize c)
     (mkVm (set_code (prep_state c st input) []) ca (new_vm_page (c_out c) (c_sep c)) w lg false)
  /\ cok (cfg_bits c) true (prep_code c st)
  /\ (s_path st = [] -> move_only (prep_code c st)).
Proof.
  intros c st ca w lg input Hc (HS & Hb & Hmo) Ha.
  assert (Hcok : cok (cfg_bits c) true (prep_code c st)).
  { unfold prep_code. destruct (s_code st) eqn:E; [apply cok_move_root; exact (proj1 Hc)|].
    destruct HS as (_ & _ & Hx & _). rewrite E in Hx. exact Hx. }
  split; [|split; [exact Hcok|]].
  - split; [|exact Hb]. unfold VInv. cbn [v_st v_ca]. apply SC_set_code; [|constructor].
    unfold prep_state. apply SC_set_input_raw; [apply SC_set_code; assumption|].
    intros _. unfold accepted_b in Ha. apply andb_prop in Ha as [Ha _]. lia.
  - intros Hp. unfold prep_code. destruct (s_code st) eqn:E; [apply move_only_root; exact (proj1 Hc)|].
    exact (Hmo Hp).
Qed.

Lemma graceful_end_history : forall a c w lg h fuel input st ca v1 v' page,
  c20_guards a c = true -> c_first c = None ->
  let rs := app_rsrc a in
  let p := fst (hist_pers rs c (mkPw None w lg false) h) in
  pw_store p = Some (st, ca) ->
  accepted_b input = true -> (reset_req c input = false \/ s_path st = []) -> stale st = false ->
  (* the last request is a graceful end: its run leaves no code, OK, TERMINATE clear, the page renders *)
  run fuel rs (c_sep c) (s_lang st) (prep_code c st)
      (mkVm (set_code (prep_state c st input) []) ca (new_vm_page (c_out c) (c_sep c)) (pw_w p) (pw_log p) false) = (v1, [], SOk) ->
  getf (v_st v1) FLAG_TERMINATE = false ->
  vm_render fuel rs (c_sep c) (s_lang (v_st v1)) (exiting_vm v1) = (v', RROk page) ->
  s_path (v_st v') <> [] ->
  exists st' ca',
    request_persisted fuel rs c p input
    = (mkPw (Some (st', ca')) (v_w v') (v_log v') (pw_taint p || v_taint v'),
       if size_overflow c (c_last (v_ca v1)) page
       then mkResp false SOk [] (FErr EGen)
       else mkResp false SOk (page ++ c_last (v_ca v1)) FOk)
    (* position, code, cache *)
    /\ s_path st' = [] /\ s_idx st' = 0 /\ s_code st' = []
    /\ c_frames ca' = [[]] /\ c_use ca' = 0
    (* what is kept *)
    /\ s_lang st' = s_lang (v_st v')
    /\ getf st' FLAG_TERMINATE = false /\ getf st' FLAG_DIRTY = false
    /\ (forall i, i <> FLAG_TERMINATE -> i <> FLAG_DIRTY -> getf st' i = getf (v_st v') i)
    (* the next request starts at the entry node, in that cache *)
    /\ (forall fuel2 w2 lg2 input2, accepted_b input2 = true ->
          eng_exec fuel2 rs c (new_engine c (Some (st', ca')) w2 lg2) input2
          = eng_exec_inner fuel2 rs c (prep_engine c st' ca' w2 lg2 input2)
          /\ s_code (v_st (e_v (prep_engine c st' ca' w2 lg2 input2))) = encode (IMove (cfg_root c))
          /\ s_path (v_st (e_v (prep_engine c st' ca' w2 lg2 input2))) = []
          /\ v_ca (e_v (prep_engine c st' ca' w2 lg2 input2)) = ca').
Proof.
  intros a c w lg h fuel input st ca v1 v' page Hg Hf rs p Hs Ha Hreset Hstale Hrun Ht Hrender Hp.
  destruct (c20_guards_sound a c Hg) as (Hrs & Hnm & Hcc & Hc).
  pose proof (history_store_inv a c w lg h Hg Hf) as HSB. fold rs p in HSB. rewrite Hs in HSB.
  destruct (prepared_VB c st ca (pw_w p) (pw_log p) input Hc HSB Ha) as (HVB0 & Hcok & Hmo).
  destruct (run_base _ _ rs (c_sep c) Hrs Hnm _ _ _ _ _ _ _ HVB0 Hcok Hmo Hrun) as (HVB1 & _ & _).
  assert (HVBx : VB (cfg_bits c) (c_cachesize c) (exiting_vm v1)).
  { unfold exiting_vm. destruct (VB_set_code _ _ v1 [] HVB1 ltac:(constructor)) as [HVs Hbs].
    split; [|exact Hbs]. unfold VInv. cbn [v_st v_ca vset_ca vset_st]. apply SC_cache_last. exact HVs. }
  destruct (vm_render_base _ _ _ _ _ _ _ _ _ Hrs Hnm Hcc HVBx Hrender) as [[HV' Hb'] _].
  assert (Hinv : end_inv (v_st v') (v_ca v')).
  { split; [eapply VInv_nav; exact HV'|]. split; [eapply VInv_CInv; exact HV'|exact Hb']. }
  destruct (graceful_end_request fuel rs c p input st ca v1 v' page Hf Hs Ha Hreset Hstale
              (SB_builtin c st ca Hc (proj1 HSB)) Hrun Ht Hrender Hp) as (_ & _ & Hreq).
  destruct (ended_state v') as (E1 & E2 & E3 & E4 & E5 & E6 & E7).
  destruct (ended_cache v' Hinv) as (C1 & C2 & _).
  pose proof (graceful_end_stored_code _ _ _ _ _ _ _ Hrender) as Hcode.
  exists (set_input_raw (v_st (ended v')) None), (v_ca (ended v')).
  split; [exact Hreq|].
  split; [exact E1|]. split; [exact E2|]. split; [exact Hcode|]. split; [exact C1|]. split; [exact C2|].
  split; [exact E4|]. split; [exact E5|]. split; [exact E6|]. split; [exact E7|].
  intros fuel2 w2 lg2 input2 Ha2.
  destruct (restart_at_entry fuel2 rs c (set_input_raw (v_st (ended v')) None) (v_ca (ended v')) w2 lg2 input2 Hf Ha2 Hcode E1)
    as (R1 & R2 & R3 & R4 & _).
  auto.
Qed.

(* the invariant C20_graceful_end_cache assumed, for every stored session of every history *)
Lemma history_store_end_inv : forall a c w lg h st ca,
  c20_guards a c = true -> c_first c = None ->
  pw_store (fst (hist_pers (app_rsrc a) c (mkPw None w lg false) h)) = Some (st, ca) ->
  end_inv st ca /\ (s_path st = [] -> move_only (s_code st)).
Proof.
  intros a c w lg h st ca Hg Hf Hs. pose proof (history_store_inv a c w lg h Hg Hf) as H. rewrite Hs in H.
  destruct H as (HS & Hb & Hmo). split; [|exact Hmo].
  destruct HS as (_ & _ & _ & _ & K). destruct (K eq_refl) as (K1 & K2 & _).
  split; [exact K1|]. split; [exact K2|exact Hb].
Qed.

(* ---- the guard "no node with the empty name" is needed ------------------------------------------- *)
(* "_" at the entry node empties the position (K-C04-up-at-entry) and GetCode("") SUCCEEDS: the
   anonymous node's LOAD stores into the base scope; the graceful end two requests later leaves it *)
Definition app_anon : app :=
  mkApp [nd "root" [IHalt; IInCmp (s2b "_") (s2b "0"); IInCmp (s2b "end1") (s2b "1")];
         ([], encode_prog [ILoad (s2b "aa") 0; IHalt; IInCmp (s2b "root") (s2b "*")]);
         nd "end1" [IHalt]; catch_node]
        [(s2b "root", s2b "root"); ([], s2b "anon"); (s2b "end1", s2b "the end"); (s2b "_catch", s2b "catch")]
        [] [(s2b "aa", [fr "v" []])].
Definition hist_anon : list (nat * bytes) := [(100%nat, []); (100%nat, s2b "0"); (100%nat, s2b "x"); (100%nat, s2b "1")].

Lemma graceful_end_history_refuted_anon :
  wf_app_b app_anon cfg_term = true /\ cfg_okb cfg_term = true /\ c_first cfg_term = None
  /\ has_croak app_anon = false /\ vals_small (c_cachesize cfg_term) app_anon = true /\ quiet_catch_b app_anon = true
  /\ has_node app_anon [] = true
  /\ (let '(p, resps) := hist_pers (app_rsrc app_anon) cfg_term (mkPw None [] [] false) hist_anon in
      last resps (mkResp true SOk [] FOk) = mkResp false SOk (s2b "the endv") FOk
      /\ option_map (fun sc => (s_path (fst sc), c_frames (snd sc), c_use (snd sc))) (pw_store p)
         = Some ([], [[(s2b "aa", s2b "v")]], 1)).
Proof. vm_compute. repeat split; reflexivity. Qed.

(* ---- non-vacuity: corpus graceful-end meets every guard -------------------------------------------- *)
Definition hist_graceful : list (nat * bytes) := [(100%nat, []); (100%nat, s2b "1")].
Lemma graceful_history_witness :
  c20_guards app_graceful cfg_graceful = true /\ c_first cfg_graceful = None
  /\ fst (hist_pers rs_graceful cfg_graceful (mkPw None [] [] false) hist_graceful) = p_graceful
  /\ pw_store p_graceful = Some (g_st, g_ca)
  /\ accepted_b (s2b "1") = true /\ reset_req cfg_graceful (s2b "1") = false /\ stale g_st = false
  /\ g_run = (g_v1, [], SOk) /\ getf (v_st g_v1) FLAG_TERMINATE = false
  /\ g_render = (g_v', RROk (s2b "the end")) /\ s_path (v_st g_v') <> [].
Proof. vm_compute. repeat split; try reflexivity. discriminate. Qed.

(* ======================================================================================== *)
(* 8. long-lived engine: blocked requests and the graceful end                                *)
(* ======================================================================================== *)
(* the last output was delivered (agent persist's notion, EngineProofs.delivered) *)
Definition delivered_l (e : engine) : Prop :=
  e_execd e = false \/ (getf (v_st (e_v e)) FLAG_DIRTY = false /\ e_exiting e = false /\ e_exit e = []).

Lemma eng_init_delivered : forall fuel rs c e input,
  e_initd e = true -> delivered_l e ->
  eng_init fuel rs c e input = (mkEng (e_v e) true [] false false, true, SOk).
Proof.
  intros fuel rs c e input Hi Hd. unfold eng_init.
  assert (Hpre : (if e_execd e then let '(e', _, f) := eng_flush fuel rs c e in (e', stat_of_f f) else (e, SOk)) = (e, SOk)).
  { destruct (e_execd e) eqn:Hx; [|reflexivity]. destruct Hd as [Hd|(H1 & H2 & H3)]; [congruence|].
    unfold eng_flush. rewrite Hx. cbn [negb]. rewrite vm_render_clean by exact H1.
    cbn [eset_v e_exit e_exiting e_v e_initd e_execd]. rewrite H3, H2. cbn [len List.length N.of_nat]. rewrite andb_false_r. cbn [andb List.app].
    destruct e; cbn in *; subst; reflexivity. }
  rewrite Hpre. cbn [e_initd e_v]. rewrite Hi. reflexivity.
Qed.

(* a long-lived, initialised engine whose session has TERMINATE set: whether or not an entry
   function is configured (it ran when the engine was initialised), the request reports stop,
   produces no output, logs nothing and changes nothing but the pending code (dropped) and the
   input.  Once the code is gone Exec fails with "no code to execute" instead of returning OK. *)
Definition blocked_engine (e : engine) (input : bytes) (d : bool) : engine :=
  mkEng (vset_st (e_v e) (set_input_raw (set_code (v_st (e_v e)) []) (Some input))) true [] false d.

Lemma blocked_request_long : forall fuel rs c e input,
  e_initd e = true -> delivered_l e ->
  getf (v_st (e_v e)) FLAG_TERMINATE = true -> getf (v_st (e_v e)) FLAG_DIRTY = false ->
  accepted_b input = true -> (reset_req c input = false \/ s_path (v_st (e_v e)) = []) ->
  request_long (S fuel) rs c e input =
    match s_code (v_st (e_v e)) with
    | [] => (blocked_engine e input false, mkResp false (SErr EGen None) [] (FErr EFlushNoExec))
    | _ => (blocked_engine e input true, mkResp false SOk [] FOk)
    end.
Proof.
  intros fuel rs c e input Hi Hd Ht Hdirty Ha Hreset. unfold request_long, eng_exec.
  rewrite eng_init_delivered by assumption. cbn [negb].
  assert (Hre : (if c_reset_empty c && (len input =? 0)
                 then eng_reset_force c (mkEng (e_v e) true [] false false)
                 else (mkEng (e_v e) true [] false false, SOk)) = (mkEng (e_v e) true [] false false, SOk)).
  { destruct Hreset as [Hr|Hp]; [unfold reset_req in Hr; rewrite Hr; reflexivity|].
    destruct (c_reset_empty c && (len input =? 0)); [|reflexivity].
    unfold eng_reset_force. cbn [e_v]. rewrite Hp. reflexivity. }
  rewrite Hre. rewrite accepted_valid by exact Ha. cbn [e_v]. rewrite set_input_accepted by exact Ha.
  unfold eng_exec_inner. cbn [e_v eset_v v_st vset_st s_code set_input_raw e_initd e_exit e_exiting].
  destruct (s_code (v_st (e_v e))) as [|x code] eqn:Hc.
  - unfold eng_flush. cbn [e_execd negb]. unfold blocked_engine. reflexivity.
  - rewrite run_terminate_blocks by exact Ht.
    cbn [v_st vset_st]. change (getf (set_code (set_input_raw (v_st (e_v e)) (Some input)) []) FLAG_TERMINATE)
      with (getf (v_st (e_v e)) FLAG_TERMINATE). rewrite Ht.
    unfold eng_flush. cbn [e_execd negb e_v v_st vset_st].
    rewrite vm_render_clean by exact Hdirty.
    cbn [e_exit e_exiting eset_v len List.length N.of_nat]. rewrite andb_false_r. cbn [andb List.app].
    unfold blocked_engine. reflexivity.
Qed.

(* the engine a blocked request leaves is blocked again *)
Lemma blocked_engine_again : forall e input d,
  getf (v_st (e_v e)) FLAG_TERMINATE = true -> getf (v_st (e_v e)) FLAG_DIRTY = false ->
  e_initd (blocked_engine e input d) = true /\ delivered_l (blocked_engine e input d)
  /\ getf (v_st (e_v (blocked_engine e input d))) FLAG_TERMINATE = true
  /\ getf (v_st (e_v (blocked_engine e input d))) FLAG_DIRTY = false
  /\ s_code (v_st (e_v (blocked_engine e input d))) = []
  /\ s_path (v_st (e_v (blocked_engine e input d))) = s_path (v_st (e_v e))
  /\ v_ca (e_v (blocked_engine e input d)) = v_ca (e_v e)
  /\ v_log (e_v (blocked_engine e input d)) = v_log (e_v e)
  /\ v_w (e_v (blocked_engine e input d)) = v_w (e_v e).
Proof.
  intros e input d Ht Hd. unfold blocked_engine, delivered_l. cbn.
  repeat split; try assumption. destruct d; [right; auto|left; reflexivity].
Qed.

Fixpoint requests_long (fuel : nat) (rs : rsrc) (c : config) (e : engine) (inputs : list bytes) : engine * list response :=
  match inputs with
  | [] => (e, [])
  | i :: r =>
    let '(e1, resp) := request_long fuel rs c e i in
    let '(e2, resps) := requests_long fuel rs c e1 r in
    (e2, resp :: resps)
  end.

(* every later request of a long-lived engine: stop, no output, nothing logged, nothing run *)
Lemma blocked_until_cleared_long : forall fuel rs c inputs e,
  e_initd e = true -> delivered_l e ->
  getf (v_st (e_v e)) FLAG_TERMINATE = true -> getf (v_st (e_v e)) FLAG_DIRTY = false ->
  Forall (fun i => accepted_b i = true /\ (reset_req c i = false \/ s_path (v_st (e_v e)) = [])) inputs ->
  let '(e', resps) := requests_long (S fuel) rs c e inputs in
  Forall (fun r => r_cont r = false /\ r_out r = [] /\ (r_exec r = SOk \/ r_exec r = SErr EGen None)) resps
  /\ v_log (e_v e') = v_log (e_v e) /\ v_w (e_v e') = v_w (e_v e)
  /\ s_path (v_st (e_v e')) = s_path (v_st (e_v e)) /\ v_ca (e_v e') = v_ca (e_v e)
  /\ getf (v_st (e_v e')) FLAG_TERMINATE = true.
Proof.
  intros fuel rs c inputs. induction inputs as [|i r IH]; intros e Hi Hd Ht Hdirty Hall; cbn [requests_long].
  - repeat split; auto.
  - inversion Hall as [|i' r' [Ha Hr] Hall']; subst.
    rewrite (blocked_request_long fuel rs c e i) by assumption.
    assert (Hstep : forall d resp, r_cont resp = false /\ r_out resp = [] /\ (r_exec resp = SOk \/ r_exec resp = SErr EGen None) ->
      let '(e2, resps) := requests_long (S fuel) rs c (blocked_engine e i d) r in
      Forall (fun r0 => r_cont r0 = false /\ r_out r0 = [] /\ (r_exec r0 = SOk \/ r_exec r0 = SErr EGen None)) (resp :: resps)
      /\ v_log (e_v e2) = v_log (e_v e) /\ v_w (e_v e2) = v_w (e_v e)
      /\ s_path (v_st (e_v e2)) = s_path (v_st (e_v e)) /\ v_ca (e_v e2) = v_ca (e_v e)
      /\ getf (v_st (e_v e2)) FLAG_TERMINATE = true).
    { intros d resp Hresp.
      destruct (blocked_engine_again e i d Ht Hdirty) as (B1 & B2 & B3 & B4 & _ & B6 & B7 & B8 & B9).
      specialize (IH (blocked_engine e i d) B1 B2 B3 B4).
      assert (Hall2 : Forall (fun i0 => accepted_b i0 = true /\ (reset_req c i0 = false \/ s_path (v_st (e_v (blocked_engine e i d))) = [])) r).
      { eapply Forall_impl; [|exact Hall']. intros x [H1 H2]. rewrite B6. auto. }
      specialize (IH Hall2). destruct (requests_long (S fuel) rs c (blocked_engine e i d) r) as [e2 resps].
      destruct IH as (I1 & I2 & I3 & I4 & I5 & I6).
      split; [constructor; assumption|]. rewrite I2, I3, I4, I5, B6, B7, B8, B9. auto. }
    destruct (s_code (v_st (e_v e))).
    + specialize (Hstep false (mkResp false (SErr EGen None) [] (FErr EFlushNoExec))).
      destruct (requests_long (S fuel) rs c (blocked_engine e i false) r) as [e2 resps]. apply Hstep. cbn. auto.
    + specialize (Hstep true (mkResp false SOk [] FOk)).
      destruct (requests_long (S fuel) rs c (blocked_engine e i true) r) as [e2 resps]. apply Hstep. cbn. auto.
Qed.

(* graceful end in a long-lived engine (entry function or not: it ran at initialisation) *)
Lemma graceful_end_request_long : forall fuel rs c e input x code v1 v' page,
  e_initd e = true -> delivered_l e -> accepted_b input = true ->
  (reset_req c input = false \/ s_path (v_st (e_v e)) = []) ->
  s_code (v_st (e_v e)) = x :: code -> builtin_flags_ok (v_st (e_v e)) ->
  run fuel rs (c_sep c) (s_lang (v_st (e_v e))) (x :: code)
      (vset_st (e_v e) (set_code (set_input_raw (v_st (e_v e)) (Some input)) [])) = (v1, [], SOk) ->
  getf (v_st v1) FLAG_TERMINATE = false ->
  vm_render fuel rs (c_sep c) (s_lang (v_st v1)) (exiting_vm v1) = (v', RROk page) ->
  s_path (v_st v') <> [] ->
  ended_on_halt v1 /\
  request_long fuel rs c e input =
    (mkEng (ended v') true (c_last (v_ca v1)) false true,
     if size_overflow c (c_last (v_ca v1)) page
     then mkResp false SOk [] (FErr EGen)
     else mkResp false SOk (page ++ c_last (v_ca v1)) FOk).
Proof.
  intros fuel rs c e input x code v1 v' page Hi Hd Ha Hreset Hc Hb Hrun Ht Hrender Hp.
  split.
  { destruct (run_end_cases _ _ _ _ _ _ _ Hrun) as [H|H]; [|congruence|exact H].
    cbn [v_st vset_st]. apply (builtin_in_range (v_st (e_v e))); [exact Hb|vm_compute; discriminate]. }
  unfold request_long, eng_exec. rewrite eng_init_delivered by assumption. cbn [negb].
  assert (Hre : (if c_reset_empty c && (len input =? 0)
                 then eng_reset_force c (mkEng (e_v e) true [] false false)
                 else (mkEng (e_v e) true [] false false, SOk)) = (mkEng (e_v e) true [] false false, SOk)).
  { destruct Hreset as [Hr|Hp0]; [unfold reset_req in Hr; rewrite Hr; reflexivity|].
    destruct (c_reset_empty c && (len input =? 0)); [|reflexivity].
    unfold eng_reset_force. cbn [e_v]. rewrite Hp0. reflexivity. }
  rewrite Hre. rewrite accepted_valid by exact Ha. cbn [e_v]. rewrite set_input_accepted by exact Ha.
  set (e0 := eset_v (mkEng (e_v e) true [] false false) (vset_st (e_v e) (set_input_raw (v_st (e_v e)) (Some input)))).
  destruct (graceful_exec_inner fuel rs c e0 x code v1) as [Hexec _].
  { unfold e0. cbn [e_v eset_v v_st vset_st s_code set_input_raw]. exact Hc. }
  { unfold e0. cbn [e_v eset_v v_st vset_st s_lang set_input_raw]. exact Hrun. }
  { exact Ht. }
  { unfold e0. cbn [e_v eset_v v_st vset_st]. apply (builtin_in_range (v_st (e_v e))); [exact Hb|vm_compute; discriminate]. }
  rewrite Hexec.
  rewrite (graceful_flush fuel rs c _ v' page); try reflexivity; try exact Hp.
  2:{ cbn [e_v]. change (s_lang (v_st (exiting_vm v1))) with (s_lang (v_st v1)). exact Hrender. }
  cbn [e_exit e_initd]. unfold e0. cbn [e_initd eset_v].
  destruct (size_overflow c (c_last (v_ca v1)) page); reflexivity.
Qed.
