(* FlagProofs2.v — C20 follow-up: the session invariant that C20_graceful_end_cache assumed
   (one cache scope per level plus the base scope, CInv, EMPTY base scope) holds for every stored
   session reachable by a history from a new session.  Composes SafetyProofs (levels, CInv) with
   a new invariant: nothing is ever stored while the position is empty. *)
From Coq Require Import Lia ZifyN ZifyNat ZifyBool.
From Vise Require Import Bytes Errors Consts EngConsts Codec CacheModel StateModel NavModel NavSpec RenderModel
  VmModel EngineModel BytesProofs CodecProofs CacheProofs NavProofs VmProofs SafetyProofs FlagProofs.
Local Open Scope N_scope.

(* ======================================================================================== *)
(* 1. the base scope under the cache operations                                               *)
(* ======================================================================================== *)
Definition base_empty (ca : cache) : Prop := hd_error (c_frames ca) = Some [].

Lemma base_push : forall ca, base_empty ca -> base_empty (cache_push ca).
Proof. intros ca H. unfold base_empty, cache_push in *. cbn [c_frames]. destruct (c_frames ca); [discriminate|exact H]. Qed.

Lemma base_pop : forall ca ca', base_empty ca -> cache_pop ca = Ok ca' -> base_empty ca'.
Proof.
  intros ca ca' H Hp. unfold base_empty in *. destruct (c_frames ca) as [|f0 r] eqn:Hf; [discriminate|].
  injection H as ->. destruct r as [|x r].
  - unfold cache_pop in Hp. rewrite Hf in Hp. cbn [rev List.app] in Hp. injection Hp as <-. reflexivity.
  - assert (Hne : x :: r <> []) by discriminate. destruct (exists_last Hne) as (r' & t & Hr). rewrite Hr in Hf.
    destruct (cache_pop_frames ca [] r' t Hf) as (ca2 & Hp2 & Hf2). rewrite Hp in Hp2. injection Hp2 as <-.
    rewrite Hf2. reflexivity.
Qed.

Lemma base_pops : forall n ca, base_empty ca -> base_empty (pops n ca).
Proof.
  induction n as [|n IH]; intros ca H; cbn [pops]; [exact H|].
  destruct (cache_pop ca) as [ca'| |] eqn:Hp; [|exact H|exact H]. apply IH. eapply base_pop; eauto.
Qed.

Lemma base_pop_lenient : forall ca, base_empty ca -> base_empty (match cache_pop ca with Ok c => c | _ => ca end).
Proof. intros ca H. destruct (cache_pop ca) eqn:Hp; [eapply base_pop; eauto|exact H|exact H]. Qed.

Lemma base_reset : forall ca, base_empty ca -> base_empty (cache_reset ca).
Proof.
  intros ca H. unfold base_empty, cache_reset in *. destruct (c_frames ca) as [|f0 r] eqn:Hf; [discriminate|].
  cbn [c_frames]. exact H.
Qed.

Lemma base_last : forall ca, base_empty ca -> base_empty (snd (cache_last ca)).
Proof. intros ca H. exact H. Qed.

Lemma update_nth_S_hd : forall {A} (g : A -> A) n (l : list A), hd_error (update_nth (S n) g l) = hd_error l.
Proof. intros A g n [|x l]; reflexivity. Qed.

(* Add writes the TOP scope: with at least two scopes the base scope is not touched *)
Lemma base_add : forall ca k v l ca',
  base_empty ca -> 2 <= cache_levels ca -> cache_add ca k v l = Ok ca' -> base_empty ca'.
Proof.
  intros ca k v l ca' H Hl Ha. unfold cache_add in Ha.
  destruct ((0 <? l) && (l <? len v)); [discriminate|].
  destruct (frame_of ca k) as [i|]; [destruct (i =? top_index ca); discriminate|].
  destruct ((0 <? len v) && _); [discriminate|].
  destruct (c_frames ca) as [|f0 r] eqn:Hf; [discriminate|]. injection Ha as <-.
  unfold base_empty in *. cbn [c_frames].
  assert (Ht : exists n, N.to_nat (top_index ca) = S n).
  { unfold top_index, cache_levels, len in *. rewrite Hf in *. cbn [List.length] in *.
    exists (List.length r - 1)%nat. lia. }
  destruct Ht as [n ->]. rewrite <- Hf. rewrite update_nth_S_hd. exact H.
Qed.

(* Update writes the scope that defines the symbol: never the empty base scope *)
Lemma frame_of_base : forall ca k i, base_empty ca -> frame_of ca k = Some i -> exists n, N.to_nat i = S n.
Proof.
  intros ca k i H Hf. unfold base_empty, frame_of in *. destruct (c_frames ca) as [|f0 r]; [discriminate|].
  injection H as ->. cbn [frame_of_from ahas alookup] in Hf.
  destruct (frame_of_from_some (0 + 1) r k i Hf) as (pre & f & post & _ & Hi & _).
  exists (List.length pre). unfold len in Hi. lia.
Qed.

Lemma base_update : forall ca k v, base_empty ca -> base_empty (fst (cache_update_raw ca k v)).
Proof.
  intros ca k v H. unfold cache_update_raw.
  destruct ((0 <? _) && _); [exact H|].
  destruct (frame_of ca k) as [i|] eqn:Hf; [|exact H].
  destruct (frame_of_base ca k i H Hf) as [n Hn].
  cbv zeta. cbn [c_size c_use c_frames c_sizes c_last].
  destruct ((check_capacity _ _ v =? 0) && (0 <? len v)); cbn [fst]; unfold base_empty in *; cbn [c_frames];
    rewrite Hn, !update_nth_S_hd; exact H.
Qed.

(* ======================================================================================== *)
(* 2. one instruction                                                                         *)
(* ======================================================================================== *)
Definition navigating (i : instr) : bool :=
  match i with IMove _ | IInCmp _ _ | ICatch _ _ _ => true | _ => false end.

(* no node has the empty name: GetCode("") fails (what ends a run whose position became empty) *)
Definition rs_named (rs : rsrc) : Prop := forall c, rs_code rs [] <> Ok c.

Lemma refresh_path : forall rs lang key v v' content s,
  refresh rs lang key v = (v', content, s) -> s_path (v_st v') = s_path (v_st v) /\ v_ca v' = v_ca v.
Proof.
  intros rs lang key v v' content s H. split; [|eapply refresh_other_fields; exact H].
  unfold refresh in H.
  destruct (rs_func rs key) as [script|]; [|injection H as <- _ _; reflexivity].
  destruct (nth_fres script _) as [fr|]; [|injection H as <- _ _; reflexivity].
  destruct (fr_fail fr); [injection H as <- _ _; reflexivity|].
  destruct (apply_flags false (fr_reset fr) _) as [st1| |] eqn:H1; try (injection H as <- _ _; reflexivity).
  destruct (apply_flags true (fr_set fr) st1) as [st2| |] eqn:H2; try (injection H as <- _ _; reflexivity).
  injection H as <- _ _. cbn [v_st vset_st].
  destruct (apply_flags_reserved _ _ _ _ H1) as [_ (_ & P1 & _)].
  destruct (apply_flags_reserved _ _ _ _ H2) as [_ (_ & P2 & _)].
  cbn [v_st vlog vset_w] in P1.
  assert (E : s_path st2 = s_path (v_st v)) by congruence.
  destruct (getf st2 FLAG_LANG); [|exact E].
  unfold st_set_language. destruct (fr_content fr ++ _); destruct (lang_lookup _); cbn; exact E.
Qed.

(* what applyTarget does to the base scope, and what it returns when the position became empty *)
Lemma apply_base : forall t st ca st' ca' nsym s,
  nav_inv st ca -> base_empty ca -> apply_target t st ca = (st', ca', nsym, s) ->
  base_empty ca' /\ (s = SOk -> s_path st' = [] -> nsym = [])
  /\ (s <> SOk -> st' = st /\ ca' = ca).
Proof.
  intros t st ca st' ca' nsym s Hn Hb H.
  assert (Hne : c_frames ca <> []) by (apply levels_ne; unfold nav_inv in Hn; lia).
  assert (Hcase : s = SOk \/ s <> SOk) by (destruct s; [left; reflexivity|right; discriminate ..]).
  destruct Hcase as [->|Hs].
  - destruct (apply_ok_exact _ _ _ _ _ _ Hne H) as (_ & Hsym & _ & Hca).
    split; [|split; [|congruence]].
    + rewrite Hca. destruct (valid_sym_b t); [apply base_push|apply base_pops]; exact Hb.
    + intros _ Hp. rewrite Hsym. unfold where_sym. rewrite Hp. reflexivity.
  - destruct (apply_fail_unchanged _ _ _ _ _ _ _ Hne H Hs) as [-> ->].
    split; [exact Hb|]. split; [congruence|auto].
Qed.

Lemma fetch_anon : forall rs v v2 c, rs_named rs -> fetch_code rs [] v = (v2, c) -> forall code, c <> Ok code.
Proof. intros rs v v2 c Hn H code. unfold fetch_code in H. injection H as _ <-. apply Hn. Qed.

Lemma exec_instr_base : forall rs sep lang i b v v' b' s,
  rs_named rs -> nav_inv (v_st v) (v_ca v) -> base_empty (v_ca v) ->
  (s_path (v_st v) = [] -> exists t, i = IMove t) ->
  exec_instr rs sep lang i b v = (v', b', s) ->
  base_empty (v_ca v') /\ (s_path (v_st v') = [] -> s <> SOk).
Proof.
  intros rs sep lang i b v v' b' s Hnm Hn Hb Hpre H.
  assert (Hsame : forall x, s_path (v_st x) = s_path (v_st v) -> (exists t, i = IMove t) -> False ->
                            s_path (v_st x) = [] -> s <> SOk) by (intros; contradiction).
  assert (Hkeep : (forall t, i <> IMove t) -> s_path (v_st v') = s_path (v_st v) -> s_path (v_st v') = [] -> s <> SOk).
  { intros Hni E Hp. rewrite E in Hp. destruct (Hpre Hp) as [t Ht]. exfalso. eapply Hni. exact Ht. }
  destruct i; cbn [exec_instr] in H.
  - injection H as <- _ _. split; [exact Hb|]. apply Hkeep; [discriminate|reflexivity].
  - (* CATCH *) unfold run_catch in H.
    destruct (match_flag (v_st v) sig mode) as [[|]| |];
      try (injection H as <- _ _; split; [exact Hb|apply Hkeep; [discriminate|reflexivity]]).
    destruct (apply_target sym (v_st v) (v_ca v)) as [[[st' ca'] nsym] s1] eqn:Ha.
    destruct (apply_base _ _ _ _ _ _ _ Hn Hb Ha) as (B1 & B2 & B3).
    destruct s1.
    + destruct (fetch_code rs nsym _) as [v2 c] eqn:Hf.
      assert (Hv2 : v_st v2 = st' /\ v_ca v2 = ca').
      { unfold fetch_code in Hf. injection Hf as <- _. destruct (rs_observed rs); auto. }
      destruct Hv2 as [E1 E2].
      destruct c as [code|e|n]; injection H as <- _ <-; rewrite ?E1, ?E2; (split; [exact B1|]); try discriminate.
      intros Hp. exfalso. rewrite (B2 eq_refl Hp) in Hf. eapply fetch_anon; [exact Hnm|exact Hf|reflexivity].
    + injection H as <- _ <-. split; [exact B1|discriminate].
    + injection H as <- _ <-. split; [exact B1|discriminate].
    + injection H as <- _ <-. split; [exact B1|discriminate].
  - (* CROAK *) unfold run_croak in H.
    destruct (match_flag (v_st v) sig mode) as [[|]| |]; injection H as <- _ _;
      (split; [try exact Hb; apply base_reset; exact Hb|apply Hkeep; [discriminate|reflexivity]]).
  - (* LOAD *) unfold run_load in H.
    destruct (cache_get (v_ca v) sym);
      try (injection H as <- _ _; split; [exact Hb|apply Hkeep; [discriminate|reflexivity]]).
    destruct (refresh rs lang sym v) as [[v1 content] s1] eqn:Hr.
    destruct (refresh_path _ _ _ _ _ _ _ Hr) as [P1 P2].
    assert (Hb1 : base_empty (v_ca v1)) by (rewrite P2; exact Hb).
    destruct s1; try (injection H as <- _ _; split; [exact Hb1|apply Hkeep; [discriminate|exact P1]]).
    destruct (cache_add (v_ca v1) sym content (w16 sz)) as [ca'|e0|] eqn:Hadd.
    + injection H as <- _ _. cbn [v_ca v_st vset_ca]. split; [|apply Hkeep; [discriminate|exact P1]].
      destruct (s_path (v_st v)) as [|x p] eqn:Hp; [destruct (Hpre eq_refl) as [t Ht]; discriminate|].
      eapply base_add; [exact Hb1| |exact Hadd]. rewrite P2. unfold nav_inv in Hn. rewrite Hn, Hp, len_cons. lia.
    + destruct e0; injection H as <- _ _; (split; [exact Hb1|apply Hkeep; [discriminate|exact P1]]).
    + injection H as <- _ _; (split; [exact Hb1|apply Hkeep; [discriminate|exact P1]]).
  - (* RELOAD *) unfold run_reload in H.
    destruct (refresh rs lang sym v) as [[v1 content] s1] eqn:Hr.
    destruct (refresh_path _ _ _ _ _ _ _ Hr) as [P1 P2].
    assert (Hb1 : base_empty (v_ca v1)) by (rewrite P2; exact Hb).
    destruct s1; try (injection H as <- _ _; split; [exact Hb1|apply Hkeep; [discriminate|exact P1]]).
    pose proof (base_update (v_ca v1) sym content Hb1) as Hb2.
    destruct (cache_update_raw (v_ca v1) sym content) as [ca' oe]. cbn [fst] in Hb2.
    destruct (page_map _ _ sym); injection H as <- _ _; cbn [v_ca v_st vset_ca vset_pg];
      (split; [exact Hb2|apply Hkeep; [discriminate|exact P1]]).
  - (* MAP *) unfold run_map in H.
    destruct (page_map _ _ sym); injection H as <- _ _; (split; [exact Hb|apply Hkeep; [discriminate|reflexivity]]).
  - (* MOVE *) unfold run_move in H.
    destruct (apply_target sym (v_st v) (v_ca v)) as [[[st' ca'] nsym] s1] eqn:Ha.
    destruct (apply_base _ _ _ _ _ _ _ Hn Hb Ha) as (B1 & B2 & B3).
    destruct s1.
    + destruct (fetch_code rs nsym _) as [v2 c] eqn:Hf.
      assert (Hv2 : v_st v2 = st' /\ v_ca v2 = ca').
      { unfold fetch_code in Hf. injection Hf as <- _. destruct (rs_observed rs); auto. }
      destruct Hv2 as [E1 E2].
      destruct c as [code|e|n]; injection H as <- _ <-; cbn [v_st v_ca vset_pg]; rewrite ?E1, ?E2; (split; [exact B1|]); try discriminate.
      intros Hp. exfalso. rewrite (B2 eq_refl Hp) in Hf. eapply fetch_anon; [exact Hnm|exact Hf|reflexivity].
    + injection H as <- _ <-. split; [exact B1|discriminate].
    + injection H as <- _ <-. split; [exact B1|discriminate].
    + injection H as <- _ <-. split; [exact B1|discriminate].
  - (* HALT *) injection H as <- _ _. split; [exact Hb|apply Hkeep; [discriminate|reflexivity]].
  - (* INCMP *) unfold run_incmp in H.
    assert (Hpne : s_path (v_st v) <> []) by (intros Hp; destruct (Hpre Hp) as [t Ht]; discriminate).
    destruct (getf (v_st v) FLAG_INMATCH && getf (v_st v) FLAG_READIN);
      [injection H as <- _ _; split; [exact Hb|intros Hp; contradiction]|].
    set (st0 := if getf (v_st v) FLAG_INMATCH then v_st v else setf (v_st v) FLAG_READIN) in *.
    assert (P0 : s_path st0 = s_path (v_st v)) by (unfold st0; destruct (getf (v_st v) FLAG_INMATCH); reflexivity).
    cbn [v_st vset_st] in H.
    destruct (s_input st0) as [input|]; [|injection H as <- _ _; split; [exact Hb|cbn [v_st vset_st]; rewrite P0; intros Hp; contradiction]].
    destruct ((negb (getf (v_st v) FLAG_INMATCH) && bytes_eqb sel star) || bytes_eqb sel input);
      [|injection H as <- _ _; split; [exact Hb|cbn [v_st vset_st vlog]; rewrite P0; intros Hp; contradiction]].
    set (st1 := resetf (setf st0 FLAG_INMATCH) FLAG_READIN) in *.
    assert (P1 : s_path st1 = s_path (v_st v)) by (unfold st1; exact P0).
    cbn [v_ca vset_st] in H.
    assert (Hn1 : nav_inv st1 (v_ca v)) by (unfold nav_inv in *; rewrite P1; exact Hn).
    destruct (apply_target target st1 (v_ca v)) as [[[st' ca'] nsym] s1] eqn:Ha.
    destruct (apply_base _ _ _ _ _ _ _ Hn1 Hb Ha) as (B1 & B2 & B3).
    destruct s1 as [|e m| |].
    + destruct (fetch_code rs nsym _) as [v3 c] eqn:Hf.
      assert (Hv3 : v_st v3 = st' /\ v_ca v3 = ca').
      { unfold fetch_code in Hf. injection Hf as <- _. destruct (rs_observed rs); auto. }
      destruct Hv3 as [E1 E2].
      destruct c as [code|e|n]; injection H as <- _ <-; rewrite ?E1, ?E2; (split; [exact B1|]); try discriminate.
      intros Hp. exfalso. rewrite (B2 eq_refl Hp) in Hf. eapply fetch_anon; [exact Hnm|exact Hf|reflexivity].
    + destruct (B3 ltac:(discriminate)) as [-> ->].
      destruct e; injection H as <- _ <-; cbn [v_st v_ca vset_st vset_ca vlog]; (split; [exact Hb|]); try discriminate.
      cbn [s_path setf set_flags]. rewrite P1. intros Hp; contradiction.
    + injection H as <- _ <-. split; [exact B1|discriminate].
    + injection H as <- _ <-. split; [exact B1|discriminate].
  - injection H as <- _ _. split; [exact Hb|apply Hkeep; [discriminate|reflexivity]].
  - injection H as <- _ _. split; [exact Hb|apply Hkeep; [discriminate|reflexivity]].
  - injection H as <- _ _. split; [exact Hb|apply Hkeep; [discriminate|reflexivity]].
  - injection H as <- _ _. split; [exact Hb|apply Hkeep; [discriminate|reflexivity]].
Qed.

(* ======================================================================================== *)
(* 3. the run loop                                                                            *)
(* ======================================================================================== *)
(* while the position is empty the only code that may be pending is a single MOVE *)
Definition move_only (b : bytes) : Prop := b = [] \/ exists t, wf_sym t /\ b = encode (IMove t).

Lemma flagish_pre_st : forall st, flagish st (pre_st st).
Proof.
  intros st. unfold pre_st. cbv zeta.
  eapply flagish_trans; [apply (flagish_resetf _ FLAG_LANG)|].
  eapply flagish_trans; [apply (flagish_resetf _ FLAG_WAIT)|].
  eapply flagish_trans; [|apply flagish_setf].
  destruct (getf (resetf st FLAG_LANG) FLAG_WAIT); [apply flagish_resetf|apply flagish_refl].
Qed.
Lemma VInv_pre_vm : forall bits cap k v, VInv bits cap k v -> VInv bits cap k (pre_vm v).
Proof. intros bits cap k v H. unfold VInv, pre_vm. cbn [v_st v_ca vset_pg vset_st]. eapply SC_flagish; [exact H|apply flagish_pre_st]. Qed.
Lemma VInv_nav : forall bits cap v, VInv bits cap true v -> nav_inv (v_st v) (v_ca v).
Proof. intros bits cap v (_ & _ & _ & _ & H). exact (proj1 (H eq_refl)). Qed.
Lemma VInv_CInv : forall bits cap v, VInv bits cap true v -> CInv (v_ca v).
Proof. intros bits cap v (_ & _ & _ & _ & H). exact (proj1 (proj2 (H eq_refl))). Qed.
Lemma path_pre_st : forall st, s_path (pre_st st) = s_path st.
Proof. intros st. destruct (pre_st_sbf st) as (_ & H & _). symmetry. exact H. Qed.

Lemma move_only_decode : forall b i r, move_only b -> b <> [] -> decode_one b = Ok (i, r) -> (exists t, i = IMove t) /\ r = [].
Proof.
  intros b i r [->|(t & Hw & ->)] Hne Hd; [congruence|].
  pose proof (instr_roundtrip_lemma (IMove t) [] Hw) as Hrt. rewrite app_nil_r in Hrt.
  rewrite Hrt in Hd. injection Hd as <- <-. eauto.
Qed.
Lemma move_only_catch : move_only move_catch_code.
Proof. right. exists catch_sym. split; [exact wf_catch_sym|reflexivity]. Qed.

(* the machine invariant: SafetyProofs' consistency level plus the empty base scope *)
Definition VB (bits cap : N) (v : vmst) : Prop := VInv bits cap true v /\ base_empty (v_ca v).

Lemma run_base : forall bits cap rs sep, rs_wf bits cap true rs -> rs_named rs ->
  forall fuel lang b v v' b' s,
  VB bits cap v -> cok bits true b -> (s_path (v_st v) = [] -> move_only b) ->
  run fuel rs sep lang b v = (v', b', s) ->
  VB bits cap v' /\ cok bits true b' /\ (s = SOk -> s_path (v_st v') = [] -> move_only b').
Proof.
  intros bits cap rs sep Hrs Hnm. induction fuel as [|fuel IH]; intros lang b v v' b' s [HV Hb] Hc Hmo H.
  - rewrite run_O in H. injection H as <- <- <-. split; [split; assumption|]. split; [exact Hc|discriminate].
  - rewrite run_S in H. destruct (getf (v_st v) FLAG_TERMINATE).
    { injection H as <- <- <-. split; [split; assumption|]. split; [constructor|]. intros _ _. left. reflexivity. }
    cbv zeta in H.
    pose proof (VInv_pre_vm _ _ _ _ HV) as HV0.
    assert (Hb0 : base_empty (v_ca (pre_vm v))) by exact Hb.
    assert (Hp0 : s_path (v_st (pre_vm v)) = s_path (v_st v)) by (rewrite v_st_pre_vm; apply path_pre_st).
    destruct b as [|x b0] eqn:Eb.
    { change (op_split []) with (@Err err (N * bytes) EGen) in H. injection H as <- <- <-.
      split; [split; assumption|]. split; [constructor|discriminate]. }
    rewrite <- Eb in *. assert (Hne : b <> []) by (rewrite Eb; discriminate). clear Eb.
    destruct (code_ok_decodes _ _ Hc Hne) as (i & r & Hd & Hi & Hr).
    destruct (decode_one_split _ _ _ Hd) as (op & b1 & Hop & Hpa).
    rewrite Hop, Hpa in H. unfold step_instr in H. rewrite Hpa in H.
    set (v0 := vlog (pre_vm v) (EvInstr op)) in *.
    assert (HVl : VInv bits cap true v0) by exact HV0.
    pose proof (exec_instr_safe bits cap true rs sep (pre_lang lang (v_st v)) i r v0 Hrs HVl Hi Hr) as (X1 & X2 & X3).
    destruct (exec_instr rs sep (pre_lang lang (v_st v)) i r v0) as [[v1 b2] s1] eqn:He. cbn [fst snd] in X1, X2, X3.
    destruct (exec_instr_base rs sep (pre_lang lang (v_st v)) i r v0 v1 b2 s1 Hnm (VInv_nav _ _ _ HVl) Hb0) as [B1 B2]; [|exact He|].
    { intros Hp. change (s_path (v_st v0)) with (s_path (v_st (pre_vm v))) in Hp. rewrite Hp0 in Hp.
      exact (proj1 (move_only_decode _ _ _ (Hmo Hp) Hne Hd)). }
    destruct (op =? op_HALT).
    { injection H as <- <- <-. split; [split; assumption|]. split; [exact X3|].
      intros Hs Hp. exfalso. exact (B2 Hp Hs). }
    (* runErrCheck *)
    destruct (err_check (v1, b2, s1)) as [[v2 b3] s2] eqn:Hchk.
    assert (Hc2 : VB bits cap v2 /\ cok bits true b3 /\ is_spanic s2 = false
                  /\ (s_path (v_st v2) = [] -> s2 <> SOk \/ b3 = move_catch_code)).
    { unfold err_check in Hchk. destruct s1 as [|e msg|n|].
      - injection Hchk as <- <- <-. split; [split; assumption|]. split; [exact X3|]. split; [reflexivity|]. intros Hp. left. exact (B2 Hp).
      - cbv zeta in Hchk.
        assert (HVe : VInv bits cap true (set_page_err v1 msg)) by (destruct msg; exact X2).
        assert (Hbe : base_empty (v_ca (set_page_err v1 msg))) by (rewrite set_page_err_ca; exact B1).
        destruct (getf _ FLAG_LOADFAIL && negb _); injection Hchk as <- <- <-.
        + split; [split; assumption|]. split; [apply cok_move_catch|]. split; [reflexivity|]. intros _. right. reflexivity.
        + split; [split; assumption|]. split; [exact X3|]. split; [reflexivity|]. intros _. left. discriminate.
      - discriminate X1.
      - injection Hchk as <- <- <-. split; [split; assumption|]. split; [exact X3|]. split; [reflexivity|]. intros _. left. discriminate. }
    destruct Hc2 as ([HV2 Hb2] & Hco3 & Hnp2 & Hp2).
    unfold after_check in H.
    destruct s2; try (injection H as <- <- <-; split; [split; assumption|]; split; [exact Hco3|discriminate]).
    destruct b3 as [|y b3'].
    + pose proof (dead_check_safe bits cap true v2 HV2) as (Z1 & Z2 & Z3).
      destruct (dead_check v2) as [[v3 b4] s3] eqn:Hdc. cbn [fst snd] in Z1, Z2, Z3.
      assert (Hd3 : v_ca v3 = v_ca v2 /\ s_path (v_st v3) = s_path (v_st v2)).
      { unfold dead_check in Hdc. destruct (negb (getf (v_st v2) FLAG_READIN)); [injection Hdc as <- _ _; auto|].
        destruct (getf (v_st v2) FLAG_TERMINATE); [injection Hdc as <- _ _; auto|].
        destruct (where_sym (v_st v2)); [injection Hdc as <- _ _; auto|].
        destruct (bytes_eqb _ catch_sym); injection Hdc as <- _ _; auto. }
      destruct Hd3 as [D1 D2].
      assert (Hb3 : base_empty (v_ca v3)) by (rewrite D1; exact Hb2).
      assert (Hpne : s_path (v_st v2) <> []).
      { intros Hp. destruct (Hp2 Hp) as [Hx|Hx]; [congruence|].
        revert Hx. change move_catch_code with (encode (IMove catch_sym)).
        destruct (encode_shape (IMove catch_sym)) as (a0 & bb0 & t0 & E). rewrite E. discriminate. }
      destruct s3; try (injection H as <- <- <-; split; [split; assumption|]; split; [exact Z3|discriminate]).
      destruct b4 as [|z b4'].
      * injection H as <- <- <-. split; [split; assumption|]. split; [constructor|]. intros _ _. left. reflexivity.
      * eapply IH; [split; [exact Z2|exact Hb3]|exact Z3| |exact H]. intros Hp. rewrite D2 in Hp. contradiction.
    + eapply IH; [split; [exact HV2|exact Hb2]|exact Hco3| |exact H].
      intros Hp. destruct (Hp2 Hp) as [Hx|Hx]; [congruence|]. rewrite Hx. apply move_only_catch.
Qed.

(* ======================================================================================== *)
(* 4. the recovery run inside Render (MOVE _catch after a browse error) keeps a position       *)
(* ======================================================================================== *)
(* code whose instructions up to and including the first HALT do not navigate *)
Inductive calm : bytes -> Prop :=
| calm_halt : forall b r, decode_one b = Ok (IHalt, r) -> calm b
| calm_step : forall b i r, decode_one b = Ok (i, r) -> navigating i = false -> i <> IHalt -> calm r -> calm b.

Lemma parse_args_halt_inv : forall op b r, parse_args op b = Ok (IHalt, r) -> op = op_HALT.
Proof.
  intros op b r H. unfold parse_args in H.
  repeat match type of H with
  | (if ?c then _ else _) = _ => destruct c eqn:?E
  end;
  try (apply N.eqb_eq; assumption);
  repeat match type of H with
  | obind ?o _ = _ => destruct o as [[[[? ?] ?] ?]| |] || destruct o as [[[? ?] ?]| |] || destruct o as [[? ?]| |]
  end; cbn [obind] in H; discriminate.
Qed.

Lemma exec_instr_quiet : forall rs sep lang i b v v' b' s,
  navigating i = false -> exec_instr rs sep lang i b v = (v', b', s) ->
  s_path (v_st v') = s_path (v_st v) /\ (b' = b \/ b' = []).
Proof.
  intros rs sep lang i b v v' b' s Hn H. destruct i; try discriminate Hn; cbn [exec_instr] in H.
  - injection H as <- <- _. auto.
  - unfold run_croak in H. destruct (match_flag (v_st v) sig mode) as [[|]| |]; injection H as <- <- _; auto.
  - unfold run_load in H. destruct (cache_get (v_ca v) sym); try (injection H as <- <- _; auto).
    destruct (refresh rs lang sym v) as [[v1 content] s1] eqn:Hr.
    destruct (refresh_path _ _ _ _ _ _ _ Hr) as [P1 _].
    destruct s1; try (injection H as <- <- _; auto).
    destruct (cache_add (v_ca v1) sym content (w16 sz)) as [ca'|e0|]; try (injection H as <- <- _; auto).
    destruct e0; injection H as <- <- _; auto.
  - unfold run_reload in H. destruct (refresh rs lang sym v) as [[v1 content] s1] eqn:Hr.
    destruct (refresh_path _ _ _ _ _ _ _ Hr) as [P1 _].
    destruct s1; try (injection H as <- <- _; auto).
    destruct (cache_update_raw (v_ca v1) sym content) as [ca' oe].
    destruct (page_map _ _ sym); injection H as <- <- _; auto.
  - unfold run_map in H. destruct (page_map _ _ sym); injection H as <- <- _; auto.
  - injection H as <- <- _. auto.
  - injection H as <- <- _. auto.
  - injection H as <- <- _. auto.
  - injection H as <- <- _. auto.
  - injection H as <- <- _. auto.
Qed.

Lemma dead_check_path : forall v v' b s, dead_check v = (v', b, s) -> s_path (v_st v') = s_path (v_st v) /\ v_ca v' = v_ca v.
Proof.
  intros v v' b s H. unfold dead_check in H. destruct (negb (getf (v_st v) FLAG_READIN)); [injection H as <- _ _; auto|].
  destruct (getf (v_st v) FLAG_TERMINATE); [injection H as <- _ _; auto|].
  destruct (where_sym (v_st v)); [injection H as <- _ _; auto|].
  destruct (bytes_eqb _ catch_sym); injection H as <- _ _; auto.
Qed.
Lemma dead_check_at_catch : forall v v' b s, where_sym (v_st v) = catch_sym -> dead_check v = (v', b, s) -> s = SOk -> b = [].
Proof.
  intros v v' b s Hw H Hs. unfold dead_check in H. destruct (negb (getf (v_st v) FLAG_READIN)); [injection H as _ <- _; reflexivity|].
  destruct (getf (v_st v) FLAG_TERMINATE); [injection H as _ <- _; reflexivity|].
  rewrite Hw in H. change (bytes_eqb catch_sym catch_sym) with true in H. cbv iota in H.
  change catch_sym with [95; 99; 97; 116; 99; 104] in H. cbv iota in H. injection H as _ _ <-. discriminate.
Qed.

(* at the catch node, calm code never changes the position *)
Lemma run_calm : forall rs sep fuel lang b v v' b' s,
  calm b -> where_sym (v_st v) = catch_sym -> run fuel rs sep lang b v = (v', b', s) ->
  s_path (v_st v') = s_path (v_st v).
Proof.
  intros rs sep. induction fuel as [|fuel IH]; intros lang b v v' b' s Hc Hw H.
  - rewrite run_O in H. injection H as <- _ _. reflexivity.
  - rewrite run_S in H. destruct (getf (v_st v) FLAG_TERMINATE); [injection H as <- _ _; reflexivity|].
    cbv zeta in H.
    assert (Hp0 : s_path (v_st (pre_vm v)) = s_path (v_st v)) by (rewrite v_st_pre_vm; apply path_pre_st).
    assert (Hdec : exists i r, decode_one b = Ok (i, r) /\ navigating i = false /\ (i <> IHalt -> calm r)).
    { destruct Hc as [b r Hd|b i r Hd Hn Hh Hr]; [exists IHalt, r|exists i, r]; repeat split; auto. congruence. }
    destruct Hdec as (i & r & Hd & Hnav & Hrest).
    destruct (decode_one_split _ _ _ Hd) as (op & b1 & Hop & Hpa).
    rewrite Hop, Hpa in H. unfold step_instr in H. rewrite Hpa in H.
    destruct (exec_instr rs sep (pre_lang lang (v_st v)) i r (vlog (pre_vm v) (EvInstr op))) as [[v1 b2] s1] eqn:He.
    destruct (exec_instr_quiet _ _ _ _ _ _ _ _ _ Hnav He) as [Q1 Q2]. cbn [v_st vlog] in Q1. rewrite Hp0 in Q1.
    destruct (op =? op_HALT) eqn:Eop; [injection H as <- _ _; exact Q1|].
    assert (Hnh : i <> IHalt).
    { intros ->. apply parse_args_halt_inv in Hpa. subst op. rewrite N.eqb_refl in Eop. discriminate. }
    specialize (Hrest Hnh).
    assert (Hw1 : where_sym (v_st v1) = catch_sym) by (unfold where_sym in *; rewrite Q1; exact Hw).
    destruct (err_check (v1, b2, s1)) as [[v2 b3] s2] eqn:Hchk.
    assert (Hc2 : s_path (v_st v2) = s_path (v_st v) /\ (s2 = SOk -> b3 = b2)).
    { unfold err_check in Hchk. destruct s1 as [|e msg|n|]; try (injection Hchk as <- <- <-; auto).
      cbv zeta in Hchk. rewrite set_page_err_st, Hw1 in Hchk.
      change (bytes_eqb catch_sym catch_sym) with true in Hchk. rewrite andb_false_r in Hchk.
      injection Hchk as <- <- <-. rewrite set_page_err_st. split; [exact Q1|discriminate]. }
    destruct Hc2 as [P2 Hb3].
    assert (Hw2 : where_sym (v_st v2) = catch_sym) by (unfold where_sym in *; rewrite P2; exact Hw).
    unfold after_check in H. destruct s2; try (injection H as <- _ _; exact P2).
    specialize (Hb3 eq_refl). subst b3.
    destruct b2 as [|y b2'].
    + destruct (dead_check v2) as [[v3 b4] s3] eqn:Hdc.
      destruct (dead_check_path _ _ _ _ Hdc) as [D1 _].
      destruct s3; try (injection H as <- _ _; congruence).
      rewrite (dead_check_at_catch _ _ _ _ Hw2 Hdc eq_refl) in H. injection H as <- _ _. congruence.
    + destruct Q2 as [Q2|Q2]; [|discriminate]. rewrite Q2 in H.
      rewrite (IH _ _ _ _ _ _ Hrest Hw2 H). exact P2.
Qed.

(* the node _catch is calm: the recovery run cannot leave the session without a position *)
Definition catch_calm (rs : rsrc) : Prop := forall c, rs_code rs catch_sym = Ok c -> c = [] \/ calm c.

Lemma run_move_catch_path : forall rs sep, catch_calm rs ->
  forall fuel lang v v' b' s,
  s_path (v_st v) <> [] -> c_frames (v_ca v) <> [] ->
  run fuel rs sep lang move_catch_code v = (v', b', s) -> s_path (v_st v') <> [].
Proof.
  intros rs sep Hcc. induction fuel as [|fuel IH]; intros lang v v' b' s Hp Hne H.
  - rewrite run_O in H. injection H as <- _ _. exact Hp.
  - destruct (getf (v_st v) FLAG_TERMINATE) eqn:Ht.
    { rewrite run_terminate_blocks in H by exact Ht. injection H as <- _ _. exact Hp. }
    unfold move_catch_code in H. rewrite <- (app_nil_r (encode (IMove catch_sym))) in H.
    rewrite run_S_encoded in H by (try exact Ht; exact wf_catch_sym).
    cbv zeta in H. cbn [opcode_of exec_instr] in H. change (op_MOVE =? op_HALT) with false in H. cbv iota in H.
    set (v0 := vlog (pre_vm v) (EvInstr op_MOVE)) in *.
    assert (Hp0 : s_path (v_st v0) = s_path (v_st v)) by (unfold v0; cbn [v_st vlog]; rewrite v_st_pre_vm; apply path_pre_st).
    unfold run_move in H.
    destruct (apply_target catch_sym (v_st v0) (v_ca v0)) as [[[st' ca'] nsym] s1] eqn:Ha.
    assert (Hne0 : c_frames (v_ca v0) <> []) by exact Hne.
    assert (Hcase : s1 = SOk \/ s1 <> SOk) by (destruct s1; [left; reflexivity|right; discriminate ..]).
    destruct Hcase as [->|Hs1].
    + destruct (apply_ok_exact _ _ _ _ _ _ Hne0 Ha) as (Hcode & Hsym & _ & Hca).
      apply nav_code_shape in Hcode. change (valid_sym_b catch_sym) with true in Hcode, Hca. cbv iota in Hcode, Hca.
      unfold pos_of in Hcode. cbn [fst snd] in Hcode. destruct Hcode as [Hpath _].
      assert (Hw' : where_sym st' = catch_sym) by (unfold where_sym; rewrite Hpath; apply last_last).
      assert (Hp' : s_path st' <> []) by (rewrite Hpath; destruct (s_path (v_st v0)); discriminate).
      destruct (fetch_code rs nsym _) as [v2 c] eqn:Hf.
      assert (Hv2 : v_st v2 = st' /\ c = rs_code rs nsym).
      { unfold fetch_code in Hf. injection Hf as <- <-. destruct (rs_observed rs); auto. }
      destruct Hv2 as [E1 E2]. rewrite Hsym, Hw' in E2.
      destruct c as [code|e|n].
      * cbn [List.app err_check after_check] in H.
        destruct (Hcc code (eq_sym E2)) as [->|Hcalm].
        -- destruct (dead_check _) as [[v3 b4] s3] eqn:Hdc.
           destruct (dead_check_path _ _ _ _ Hdc) as [D1 _]. cbn [v_st vset_pg] in D1.
           assert (Hw3 : where_sym (v_st (vset_pg v2 (vm_reset sep (v_pg v2)))) = catch_sym) by (cbn [v_st vset_pg]; rewrite E1; exact Hw').
           destruct s3; try (injection H as <- _ _; rewrite D1, E1; exact Hp').
           rewrite (dead_check_at_catch _ _ _ _ Hw3 Hdc eq_refl) in H. injection H as <- _ _. rewrite D1, E1; exact Hp'.
        -- destruct code as [|y code]; [inversion Hcalm as [? ? Hd|? ? ? Hd]; discriminate Hd|].
           erewrite run_calm; [|exact Hcalm| |exact H]; cbn [v_st vset_pg]; rewrite E1; assumption.
      * cbn [err_check] in H. cbv zeta in H. rewrite set_page_err_st, E1, Hw' in H.
        change (bytes_eqb catch_sym catch_sym) with true in H. rewrite andb_false_r in H.
        cbn [after_check] in H. injection H as <- _ _. rewrite set_page_err_st, E1. exact Hp'.
      * cbn [err_check after_check] in H. injection H as <- _ _. rewrite E1. exact Hp'.
    + destruct (apply_fail_unchanged _ _ _ _ _ _ _ Hne0 Ha Hs1) as [-> ->].
      assert (Hv1 : vset_ca (vset_st v0 (v_st v0)) (v_ca v0) = v0) by (destruct v0; reflexivity).
      rewrite Hv1 in H.
      destruct s1 as [|e m|n|]; [congruence| | |].
      * cbn [err_check] in H. cbv zeta in H.
        destruct (getf (v_st (set_page_err v0 m)) FLAG_LOADFAIL && negb (bytes_eqb (where_sym (v_st (set_page_err v0 m))) catch_sym)).
        -- cbn [after_check] in H. revert H. change move_catch_code with (encode (IMove catch_sym)).
           destruct (encode_shape (IMove catch_sym)) as (a0 & bb0 & t0 & E). rewrite E. intros H. rewrite <- E in H.
           eapply (IH _ (set_page_err v0 m)); [| |exact H]; [rewrite set_page_err_st, Hp0; exact Hp|rewrite set_page_err_ca; exact Hne0].
        -- cbn [after_check] in H. injection H as <- _ _. rewrite set_page_err_st, Hp0. exact Hp.
      * cbn [err_check after_check] in H. injection H as <- _ _. rewrite Hp0. exact Hp.
      * cbn [err_check after_check] in H. injection H as <- _ _. rewrite Hp0. exact Hp.
Qed.
